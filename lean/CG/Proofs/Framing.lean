import CG.Model.Framing
import CG.Spec.Reassembly
/-!
Helper lemmas for C11: the transport, `AtomicReader::read`, `read_exact`, the framing functions
and the receive loop, each related to the reader-free reference `CG.Spec.Reassembly`.
-/
namespace CG.Proofs.Framing
open CG CG.Model.AtomicReader CG.Model.Framing
open CG.Spec.Reassembly (Wire Step Kind step stepBody parseAll parseFrom)

/-- progress measure: schedule entries left + bytes not yet handed out -/
def mu (r : Rd) : Nat := r.t.sched.length + r.t.data.length

theorem read_ok {t : Transport} {cap : Nat} {bs t'} (h : t.read cap = (.ok bs, t')) :
    bs ++ t'.data = t.data ∧ bs.length ≤ cap ∧ t'.sched.length ≤ t.sched.length ∧
    (bs.length = 0 → 0 < cap → t.data = []) := by
  unfold Transport.read at h
  split at h
  · simp at h; obtain ⟨h1, h2⟩ := h; subst h1 h2
    simp [List.length_take]
    refine ⟨by omega, ?_⟩
    intro h hc; rcases h with h | h
    · omega
    · exact h
  · simp at h
  · simp at h; obtain ⟨h1, h2⟩ := h; subst h1 h2
    rename_i a s hz hs
    simp [List.length_take, hs]
    refine ⟨by omega, ?_⟩
    intro h hc; rcases h with h | h | h
    · exact absurd h hz
    · omega
    · exact h

theorem read_timedOut {t : Transport} {cap : Nat} {t'} (h : t.read cap = (.timedOut, t')) :
    t'.data = t.data ∧ t'.sched.length + 1 = t.sched.length := by
  unfold Transport.read at h
  split at h
  · simp at h
  · rename_i s hs
    simp at h; subst h; simp [hs]
  · simp at h

/-- the shared tail of the second and third branch of `AtomicReader::read` -/
def finish (r : Rd) (n cap : Nat) : AR × Rd :=
  match r.t.read cap with
  | (.timedOut, t') => (.timedOut, { r with t := t' })
  | (.ok bs, t') =>
    if bs.length = 0 then (.disconnected, { r with t := t' })
    else if r.buf.length + bs.length < n then (.timedOut, { buf := r.buf ++ bs, t := t' })
    else (.full (r.buf ++ bs), { buf := [], t := t' })

def capOf (r : Rd) (n : Nat) : Nat :=
  if n - r.buf.length > MAX_BUFFER_SIZE then MAX_BUFFER_SIZE else n - r.buf.length

theorem aread_eq (r : Rd) (n : Nat) :
    aread r n = if r.buf.length ≥ n then (.full (r.buf.take n), { r with buf := r.buf.drop n })
                else finish r n (capOf r n) := by
  unfold aread finish capOf
  simp only
  split
  · rfl
  · split
    · rfl
    · rename_i h1 h2
      have hb : r.buf = [] := List.length_eq_zero_iff.mp (by omega)
      obtain ⟨buf, t⟩ := r
      simp only at hb
      subst hb
      simp
      rfl

theorem capOf_pos {r : Rd} {n : Nat} (h : ¬ r.buf.length ≥ n) : 0 < capOf r n ∧ capOf r n ≤ n - r.buf.length := by
  unfold capOf MAX_BUFFER_SIZE
  split <;> omega

theorem aread_full {r n bs r'} (h : aread r n = (.full bs, r')) :
    bs.length = n ∧ bs ++ pending r' = pending r ∧ mu r' ≤ mu r := by
  rw [aread_eq] at h
  split at h
  · simp at h; obtain ⟨h1, h2⟩ := h; subst h1 h2
    refine ⟨by simp [List.length_take]; omega, by simp [pending, ← List.append_assoc], by simp [mu]⟩
  · rename_i hlt
    have ⟨hc0, hc1⟩ := capOf_pos hlt
    unfold finish at h
    cases hr : r.t.read (capOf r n) with
    | mk rr t2 =>
      rw [hr] at h
      cases rr with
      | timedOut => simp at h
      | ok b =>
        have ⟨e1, e2, e3, _⟩ := read_ok hr
        simp only at h
        split at h
        · simp at h
        · split at h
          · simp at h
          · simp at h; obtain ⟨h1, h2⟩ := h; subst h1 h2
            have e4 := congrArg List.length e1
            simp at e4
            refine ⟨by simp; omega, by simp [pending, ← e1], by simp [mu]; omega⟩

theorem aread_timedOut {r n r'} (h : aread r n = (.timedOut, r')) :
    pending r' = pending r ∧ mu r' < mu r := by
  rw [aread_eq] at h
  split at h
  · simp at h
  · rename_i hlt
    have ⟨hc0, hc1⟩ := capOf_pos hlt
    unfold finish at h
    cases hr : r.t.read (capOf r n) with
    | mk rr t2 =>
      rw [hr] at h
      cases rr with
      | timedOut =>
        have ⟨e1, e2⟩ := read_timedOut hr
        simp at h; subst h
        simp [pending, mu, e1]; omega
      | ok b =>
        have ⟨e1, e2, e3, _⟩ := read_ok hr
        simp only at h
        split at h
        · simp at h
        · split at h
          · simp at h; subst h
            have e4 := congrArg List.length e1
            simp at e4
            refine ⟨by simp [pending, ← e1], by simp [mu]; omega⟩
          · simp at h

theorem aread_disconnected {r n r'} (h : aread r n = (.disconnected, r')) :
    pending r' = pending r ∧ (pending r).length < n ∧ mu r' ≤ mu r := by
  rw [aread_eq] at h
  split at h
  · simp at h
  · rename_i hlt
    have ⟨hc0, hc1⟩ := capOf_pos hlt
    unfold finish at h
    cases hr : r.t.read (capOf r n) with
    | mk rr t2 =>
      rw [hr] at h
      cases rr with
      | timedOut => simp at h
      | ok b =>
        have ⟨e1, e2, e3, e5⟩ := read_ok hr
        simp only at h
        split at h
        · rename_i hb
          simp at h; subst h
          have hd := e5 hb hc0
          have : b = [] := List.length_eq_zero_iff.mp hb
          subst this
          simp at e1
          refine ⟨by simp [pending, e1], by simp [pending, hd]; omega, by simp [mu, e1]; omega⟩
        · split at h <;> simp at h


variable {Msg : Type}

def toKind : CmdKind → Kind
  | .payload => .payload
  | .bare => .bare
  | .other => .other

def toWire (c : Cfg Msg) : Wire Msg :=
  { magic := c.magic, maxPayload := c.maxPayload, blockCmd := c.blockCmd, H := c.H,
    kind := fun x => toKind (c.kind x), decode := c.decode, bare := c.bare, other := c.other }

theorem take_drop_append (p Y : Bytes) (a b : Nat) (h : a + b ≤ p.length) :
    ((p ++ Y).drop a).take b = (p.drop a).take b := by
  rw [List.drop_append_of_le_length (by omega), List.take_append_of_le_length (by simp; omega)]

theorem step_header (w : Wire Msg) (p Y : Bytes) (hp : p.length = 24) :
    step w (p ++ Y) =
      (if (parseHeader p).magic ≠ w.magic then .stop CG.Spec.Reassembly.BAD_DATA
       else if (parseHeader p).command ≠ w.blockCmd ∧ (parseHeader p).payloadSize > w.maxPayload then .stop CG.Spec.Reassembly.BAD_DATA
       else stepBody w (parseHeader p).command (parseHeader p).payloadSize (parseHeader p).checksum Y) := by
  have e0 : (p ++ Y).take 4 = p.take 4 := by
    have := take_drop_append p Y 0 4 (by omega); simpa using this
  have e1 := take_drop_append p Y 4 12 (by omega)
  have e2 := take_drop_append p Y 16 4 (by omega)
  have e3 := take_drop_append p Y 20 4 (by omega)
  unfold step CG.Spec.Reassembly.field parseHeader
  simp [hp, e0, e1, e2, e3]
  intro h; omega

theorem split_take {p Y X : Bytes} {n : Nat} (h1 : p ++ Y = X) (h2 : p.length = n) :
    X.take n = p ∧ X.drop n = Y ∧ ¬ X.length < n := by
  subst h1 h2; simp


theorem readExact_ok {r n bs r'} (h : readExact r n = (.ok bs, r')) :
    bs.length = n ∧ bs ++ pending r' = pending r ∧ mu r' ≤ mu r := by
  unfold readExact at h
  split at h
  · simp at h; obtain ⟨h1, h2⟩ := h; subst h1 h2; simp [*]
  · split at h
    · rename_i hh; simp at h; obtain ⟨h1, h2⟩ := h; subst h1 h2; exact aread_full hh
    · simp at h
    · simp at h

theorem readExact_timedOut {r n r'} (h : readExact r n = (.timedOut, r')) :
    pending r' = pending r ∧ mu r' < mu r := by
  unfold readExact at h
  split at h
  · simp at h
  · split at h
    · simp at h
    · rename_i hh; simp at h; subst h; exact aread_timedOut hh
    · simp at h

theorem readExact_err {r n e r'} (h : readExact r n = (.err e, r')) :
    e = DISCONNECTED ∧ (pending r).length < n := by
  unfold readExact at h
  split at h
  · simp at h
  · split at h
    · simp at h
    · simp at h
    · rename_i hh; simp at h; obtain ⟨h1, h2⟩ := h; subst h1 h2
      exact ⟨rfl, (aread_disconnected hh).2.1⟩

theorem headerRead_ok {r h r'} (hh : headerRead r = (.ok h, r')) :
    ∃ p, p.length = 24 ∧ p ++ pending r' = pending r ∧ h = parseHeader p ∧ mu r' ≤ mu r := by
  unfold headerRead at hh
  split at hh
  · rename_i p r2 he
    simp at hh; obtain ⟨h1, h2⟩ := hh; subst h1 h2
    have := readExact_ok he
    exact ⟨p, this.1, this.2.1, rfl, this.2.2⟩
  · simp at hh
  · simp at hh

theorem headerRead_timedOut {r r'} (hh : headerRead r = (.timedOut, r')) :
    pending r' = pending r ∧ mu r' < mu r := by
  unfold headerRead at hh
  split at hh
  · simp at hh
  · rename_i he; simp at hh; subst hh; exact readExact_timedOut he
  · simp at hh

theorem headerRead_err {r e r'} (hh : headerRead r = (.err e, r')) :
    e = DISCONNECTED ∧ (pending r).length < 24 := by
  unfold headerRead at hh
  split at hh
  · simp at hh
  · simp at hh
  · rename_i he; simp at hh; obtain ⟨h1, h2⟩ := hh; subst h1 h2; exact readExact_err he

theorem payload_ok {c : Cfg Msg} {h r p r'} (hh : payload c h r = (.ok p, r')) :
    p.length = h.payloadSize ∧ p ++ pending r' = pending r ∧ (c.H p).take 4 = h.checksum ∧ mu r' ≤ mu r := by
  unfold payload at hh
  split at hh
  · rename_i p2 r2 he
    split at hh
    · simp at hh
    · rename_i hck
      simp at hh; obtain ⟨h1, h2⟩ := hh; subst h1 h2
      have := readExact_ok he
      exact ⟨this.1, this.2.1, by simpa using hck, this.2.2⟩
  · simp at hh
  · simp at hh

theorem payload_timedOut {c : Cfg Msg} {h r r'} (hh : payload c h r = (.timedOut, r')) :
    pending r' = pending r ∧ mu r' < mu r := by
  unfold payload at hh
  split at hh
  · split at hh <;> simp at hh
  · rename_i he; simp at hh; subst hh; exact readExact_timedOut he
  · simp at hh

theorem payload_err {c : Cfg Msg} {h r e r'} (hh : payload c h r = (.err e, r')) :
    (e = DISCONNECTED ∧ (pending r).length < h.payloadSize) ∨
    (e = "err:BadData" ∧ ¬ (pending r).length < h.payloadSize ∧
      (c.H ((pending r).take h.payloadSize)).take 4 ≠ h.checksum) := by
  unfold payload at hh
  split at hh
  · rename_i p2 r2 he
    have ⟨a1, a2, _⟩ := readExact_ok he
    have ⟨b1, b2, b3⟩ := split_take a2 a1
    split at hh
    · rename_i hck
      simp at hh
      right
      exact ⟨hh.1.symm, b3, by rw [b1]; exact hck⟩
    · simp at hh
  · simp at hh
  · rename_i he; simp at hh; obtain ⟨h1, h2⟩ := hh; subst h1 h2
    left; exact readExact_err he


theorem readPartial_ok {c : Cfg Msg} {r h m r'} (hh : readPartial c r h = (.ok m, r')) :
    stepBody (toWire c) h.command h.payloadSize h.checksum (pending r) = .msg m (pending r') ∧
    mu r' ≤ mu r := by
  unfold readPartial at hh
  unfold stepBody
  simp only [toWire]
  split at hh
  · rename_i hk
    simp only [hk, toKind]
    split at hh
    · rename_i p r2 hp
      have ⟨a1, a2, a3, a4⟩ := payload_ok hp
      have ⟨b1, b2, b3⟩ := split_take a2 a1
      split at hh
      · rename_i m2 hd
        simp at hh; obtain ⟨h1, h2⟩ := hh; subst h1 h2
        simp [b1, b2, b3, a3, hd, a4]
      · simp at hh
    · simp at hh
    · simp at hh
  · rename_i hk
    simp only [hk, toKind]
    split at hh
    · simp at hh
    · rename_i hz
      simp at hh; obtain ⟨h1, h2⟩ := hh; subst h1 h2
      simp [hz]
  · rename_i hk
    simp only [hk, toKind]
    split at hh
    · rename_i hpos
      split at hh
      · rename_i p r2 hp
        have ⟨a1, a2, a3, a4⟩ := payload_ok hp
        have ⟨b1, b2, b3⟩ := split_take a2 a1
        simp at hh; obtain ⟨h1, h2⟩ := hh; subst h1 h2
        have : h.payloadSize ≠ 0 := by omega
        simp [b1, b2, b3, a3, a4, this]
      · simp at hh
      · simp at hh
    · rename_i hz
      simp at hh; obtain ⟨h1, h2⟩ := hh; subst h1 h2
      have : h.payloadSize = 0 := by omega
      simp [this]

theorem readPartial_timedOut {c : Cfg Msg} {r h r'} (hh : readPartial c r h = (.timedOut, r')) :
    pending r' = pending r ∧ mu r' < mu r := by
  unfold readPartial at hh
  split at hh
  · split at hh
    · split at hh <;> simp at hh
    · rename_i hp; simp at hh; subst hh; exact payload_timedOut hp
    · simp at hh
  · split at hh <;> simp at hh
  · split at hh
    · split at hh
      · simp at hh
      · rename_i hp; simp at hh; subst hh; exact payload_timedOut hp
      · simp at hh
    · simp at hh

theorem readPartial_err {c : Cfg Msg} {r h e r'} (hh : readPartial c r h = (.err e, r')) :
    stepBody (toWire c) h.command h.payloadSize h.checksum (pending r) = .stop e := by
  unfold readPartial at hh
  unfold stepBody
  simp only [toWire]
  split at hh
  · rename_i hk
    simp only [hk, toKind]
    split at hh
    · rename_i p r2 hp
      have ⟨a1, a2, a3, a4⟩ := payload_ok hp
      have ⟨b1, b2, b3⟩ := split_take a2 a1
      split at hh
      · simp at hh
      · rename_i e2 hd
        simp at hh; obtain ⟨h1, h2⟩ := hh; subst h1 h2
        simp [b1, b3, a3, hd]
    · simp at hh
    · rename_i e2 r2 hp
      simp at hh; obtain ⟨h1, h2⟩ := hh; subst h1 h2
      rcases payload_err hp with ⟨e1, e2⟩ | ⟨e1, e2, e3⟩
      · simp [e1, e2, DISCONNECTED, CG.Spec.Reassembly.DISCONNECTED]
      · simp [e1, e2, e3, CG.Spec.Reassembly.BAD_DATA]
  · rename_i hk
    simp only [hk, toKind]
    split at hh
    · rename_i hz
      simp at hh; obtain ⟨h1, h2⟩ := hh; subst h1 h2
      simp [hz, CG.Spec.Reassembly.BAD_DATA]
    · simp at hh
  · rename_i hk
    simp only [hk, toKind]
    split at hh
    · rename_i hpos
      have : h.payloadSize ≠ 0 := by omega
      split at hh
      · simp at hh
      · simp at hh
      · rename_i e2 r2 hp
        simp at hh; obtain ⟨h1, h2⟩ := hh; subst h1 h2
        rcases payload_err hp with ⟨e1, e2⟩ | ⟨e1, e2, e3⟩
        · simp [this, e1, e2, DISCONNECTED, CG.Spec.Reassembly.DISCONNECTED]
        · simp [this, e1, e2, e3, CG.Spec.Reassembly.BAD_DATA]
    · simp at hh


theorem validate_ok {c : Cfg Msg} {h} (hv : validate c h = .ok ()) :
    ¬ h.magic ≠ c.magic ∧ ¬ (h.command ≠ c.blockCmd ∧ h.payloadSize > c.maxPayload) := by
  unfold validate at hv
  split at hv
  · simp at hv
  · split at hv
    · simp at hv
    · exact ⟨by assumption, by assumption⟩

theorem validate_error {c : Cfg Msg} {h e} (hv : validate c h = .error e) :
    e = "err:BadData" ∧ (h.magic ≠ c.magic ∨ (h.command ≠ c.blockCmd ∧ h.payloadSize > c.maxPayload)) := by
  unfold validate at hv
  split at hv
  · simp at hv; exact ⟨hv.symm, Or.inl (by assumption)⟩
  · split at hv
    · simp at hv; exact ⟨hv.symm, Or.inr (by assumption)⟩
    · simp at hv

/-- header accepted: the reference continues with the body -/
theorem step_accept (c : Cfg Msg) (p Y : Bytes) (hp : p.length = 24) (hv : validate c (parseHeader p) = .ok ()) :
    step (toWire c) (p ++ Y) =
      stepBody (toWire c) (parseHeader p).command (parseHeader p).payloadSize (parseHeader p).checksum Y := by
  have ⟨v1, v2⟩ := validate_ok hv
  have v1' : ¬ (parseHeader p).magic ≠ (toWire c).magic := v1
  have v2' : ¬ ((parseHeader p).command ≠ (toWire c).blockCmd ∧ (parseHeader p).payloadSize > (toWire c).maxPayload) := v2
  rw [step_header _ _ _ hp, if_neg v1', if_neg v2']

theorem step_reject (c : Cfg Msg) (p Y : Bytes) (hp : p.length = 24) {e} (hv : validate c (parseHeader p) = .error e) :
    step (toWire c) (p ++ Y) = .stop e := by
  have ⟨v0, v⟩ := validate_error hv
  rw [step_header _ _ _ hp]
  subst v0
  rcases v with v | v
  · have v' : (parseHeader p).magic ≠ (toWire c).magic := v
    rw [if_pos v']; rfl
  · have v' : (parseHeader p).command ≠ (toWire c).blockCmd ∧ (parseHeader p).payloadSize > (toWire c).maxPayload := v
    split <;> (try rw [if_pos v']) <;> rfl

theorem step_short (w : Wire Msg) (X : Bytes) (h : X.length < 24) : step w X = .stop DISCONNECTED := by
  unfold step; rw [if_pos h]; rfl

theorem messageRead_msg {c : Cfg Msg} {r m r'} (hh : messageRead c r = (.ok (.msg m), r')) :
    step (toWire c) (pending r) = .msg m (pending r') ∧ mu r' ≤ mu r := by
  unfold messageRead at hh
  split at hh
  · simp at hh
  · simp at hh
  · rename_i h r1 hr
    obtain ⟨p, p1, p2, p3, p4⟩ := headerRead_ok hr
    subst p3
    split at hh
    · simp at hh
    · rename_i hv
      split at hh
      · rename_i m2 r2 hp
        simp at hh; obtain ⟨h1, h2⟩ := hh; subst h1 h2
        have ⟨q1, q2⟩ := readPartial_ok hp
        rw [← p2, step_accept c p _ p1 hv, q1]
        exact ⟨rfl, by omega⟩
      · simp at hh
      · simp at hh

theorem messageRead_partial {c : Cfg Msg} {r h r'} (hh : messageRead c r = (.ok (.partialHdr h), r')) :
    step (toWire c) (pending r) = stepBody (toWire c) h.command h.payloadSize h.checksum (pending r') ∧
    mu r' < mu r := by
  unfold messageRead at hh
  split at hh
  · simp at hh
  · simp at hh
  · rename_i h0 r1 hr
    obtain ⟨p, p1, p2, p3, p4⟩ := headerRead_ok hr
    subst p3
    split at hh
    · simp at hh
    · rename_i hv
      split at hh
      · simp at hh
      · rename_i r2 hp
        simp at hh; obtain ⟨h1, h2⟩ := hh; subst h1 h2
        have ⟨q1, q2⟩ := readPartial_timedOut hp
        rw [← p2, step_accept c p _ p1 hv, q1]
        exact ⟨rfl, by omega⟩
      · simp at hh

theorem messageRead_timedOut {c : Cfg Msg} {r r'} (hh : messageRead c r = (.timedOut, r')) :
    pending r' = pending r ∧ mu r' < mu r := by
  unfold messageRead at hh
  split at hh
  · rename_i hr; simp at hh; subst hh; exact headerRead_timedOut hr
  · simp at hh
  · split at hh
    · simp at hh
    · split at hh <;> simp at hh

theorem messageRead_err {c : Cfg Msg} {r e r'} (hh : messageRead c r = (.err e, r')) :
    step (toWire c) (pending r) = .stop e := by
  unfold messageRead at hh
  split at hh
  · simp at hh
  · rename_i e1 r1 hr
    simp at hh; obtain ⟨h1, h2⟩ := hh; subst h1 h2
    have ⟨a, b⟩ := headerRead_err hr
    subst a
    exact step_short _ _ b
  · rename_i h0 r1 hr
    obtain ⟨p, p1, p2, p3, p4⟩ := headerRead_ok hr
    subst p3
    split at hh
    · rename_i e1 hv
      simp at hh; obtain ⟨h1, h2⟩ := hh; subst h1 h2
      rw [← p2]; exact step_reject c p _ p1 hv
    · rename_i hv
      split at hh
      · simp at hh
      · simp at hh
      · rename_i e2 r2 hp
        simp at hh; obtain ⟨h1, h2⟩ := hh; subst h1 h2
        rw [← p2, step_accept c p _ p1 hv]
        exact readPartial_err hp

/-- the reference continuation of a loop state -/
def specStep (w : Wire Msg) (o : Option Header) (X : Bytes) : Step Msg :=
  match o with
  | none => step w X
  | some h => stepBody w h.command h.payloadSize h.checksum X

def hdrOf (o : Option Header) : Option (Bytes × Nat × Bytes) :=
  o.map fun h => (h.command, h.payloadSize, h.checksum)

theorem iter_emit {c : Cfg Msg} {s m s'} (h : iter c s = .emit m s') :
    s'.partialHdr = none ∧
    specStep (toWire c) s.partialHdr (pending s.r) = .msg m (pending s'.r) ∧ mu s'.r ≤ mu s.r := by
  unfold iter at h
  split at h
  · rename_i hd hs
    split at h
    · rename_i m2 r2 hp
      simp at h; obtain ⟨h1, h2⟩ := h; subst h1 h2
      refine ⟨rfl, ?_⟩
      rw [hs]
      exact readPartial_ok hp
    · simp at h
    · simp at h
  · rename_i hs
    split at h
    · simp at h
    · rename_i m2 r2 hp
      simp at h; obtain ⟨h1, h2⟩ := h; subst h1 h2
      refine ⟨rfl, ?_⟩
      rw [hs]
      exact messageRead_msg hp
    · simp at h
    · simp at h

theorem iter_cont {c : Cfg Msg} {s s'} (h : iter c s = .cont s') :
    specStep (toWire c) s'.partialHdr (pending s'.r) = specStep (toWire c) s.partialHdr (pending s.r) ∧
    mu s'.r < mu s.r := by
  unfold iter at h
  split at h
  · rename_i hd hs
    split at h
    · simp at h
    · rename_i r2 hp
      simp at h; subst h
      have ⟨a, b⟩ := readPartial_timedOut hp
      refine ⟨?_, b⟩
      rw [hs]
      simp only [specStep, a]
    · simp at h
  · rename_i hs
    split at h
    · rename_i hd r2 hp
      simp at h; subst h
      have ⟨a, b⟩ := messageRead_partial hp
      refine ⟨?_, b⟩
      rw [hs]
      simp only [specStep, a]
    · simp at h
    · rename_i r2 hp
      simp at h; subst h
      have ⟨a, b⟩ := messageRead_timedOut hp
      refine ⟨?_, b⟩
      rw [hs]
      simp only [specStep, a]
    · simp at h

theorem iter_stop {c : Cfg Msg} {s e} (h : iter c s = .stop e) :
    specStep (toWire c) s.partialHdr (pending s.r) = .stop e := by
  unfold iter at h
  split at h
  · rename_i hd hs
    split at h
    · simp at h
    · simp at h
    · rename_i e2 r2 hp
      simp at h; subst h
      simp only [hs, specStep]
      exact readPartial_err hp
  · rename_i hs
    split at h
    · simp at h
    · simp at h
    · simp at h
    · rename_i e2 r2 hp
      simp at h; subst h
      simp only [hs, specStep]
      exact messageRead_err hp

theorem parseAll_eq (w : Wire Msg) (X : Bytes) :
    parseAll w X = match step w X with
      | .msg m X' => (m :: (parseAll w X').1, (parseAll w X').2)
      | .stop e => ([], e) := by
  rw [parseAll]
  split <;> simp [*]

theorem parseFrom_eq (w : Wire Msg) (o : Option Header) (X : Bytes) :
    parseFrom w (hdrOf o) X = match specStep w o X with
      | .msg m X' => (m :: (parseAll w X').1, (parseAll w X').2)
      | .stop e => ([], e) := by
  cases o with
  | none => simp only [hdrOf, Option.map, parseFrom, specStep]; exact parseAll_eq w X
  | some h => simp only [hdrOf, Option.map, parseFrom, specStep]; rfl

/-- the reference answer for a loop state -/
def refOf (c : Cfg Msg) (s : LoopState) : List Msg × String :=
  parseFrom (toWire c) (hdrOf s.partialHdr) (pending s.r)

theorem loop_refines (c : Cfg Msg) : ∀ (fuel : Nat) (s : LoopState) (msgs : List Msg) (fin : Final),
    recvLoop c fuel s = (msgs, fin) →
    msgs <+: (refOf c s).1 ∧ (∀ e, fin = .stopped e → msgs = (refOf c s).1 ∧ e = (refOf c s).2) := by
  intro fuel
  induction fuel with
  | zero =>
    intro s msgs fin h
    simp [recvLoop] at h
    obtain ⟨h1, h2⟩ := h; subst h1 h2
    simp
  | succ fuel ih =>
    intro s msgs fin h
    unfold recvLoop at h
    split at h
    · rename_i m s' hi
      have ⟨a1, a2, a3⟩ := iter_emit hi
      simp only at h
      cases hr : recvLoop c fuel s' with
      | mk ms f2 =>
        rw [hr] at h
        simp at h; obtain ⟨h1, h2⟩ := h; subst h1 h2
        have ⟨b1, b2⟩ := ih s' ms f2 hr
        have e : refOf c s = (m :: (refOf c s').1, (refOf c s').2) := by
          unfold refOf
          rw [parseFrom_eq, a2, a1]
          simp [hdrOf, parseFrom]
        rw [e]
        refine ⟨by simpa using b1, ?_⟩
        intro e2 he
        have := b2 e2 he
        simp [this.1, this.2]
    · rename_i s' hi
      have ⟨a1, a2⟩ := iter_cont hi
      have e : refOf c s = refOf c s' := by
        unfold refOf
        rw [parseFrom_eq, parseFrom_eq, a1]
      rw [e]
      exact ih s' msgs fin h
    · rename_i e hi
      have a := iter_stop hi
      simp at h; obtain ⟨h1, h2⟩ := h; subst h1 h2
      have e2 : refOf c s = ([], e) := by
        unfold refOf
        rw [parseFrom_eq, a]
      rw [e2]
      simp

theorem loop_terminates (c : Cfg Msg) : ∀ (fuel : Nat) (s : LoopState),
    mu s.r + (refOf c s).1.length < fuel → (recvLoop c fuel s).2 ≠ .waiting := by
  intro fuel
  induction fuel with
  | zero => intro s h; omega
  | succ fuel ih =>
    intro s h
    unfold recvLoop
    split
    · rename_i m s' hi
      have ⟨a1, a2, a3⟩ := iter_emit hi
      have e : refOf c s = (m :: (refOf c s').1, (refOf c s').2) := by
        unfold refOf
        rw [parseFrom_eq, a2, a1]
        simp [hdrOf, parseFrom]
      rw [e] at h
      simp at h
      simp only
      exact ih s' (by omega)
    · rename_i s' hi
      have ⟨a1, a2⟩ := iter_cont hi
      have e : refOf c s = refOf c s' := by
        unfold refOf
        rw [parseFrom_eq, parseFrom_eq, a1]
      rw [e] at h
      exact ih s' (by omega)
    · simp


/-! ### Streams made of frames -/
open CG.Spec.Reassembly (Frame expected streamOf StrictFramePrefix)

theorem parseHeader_mk (a b c d : Bytes) (ha : a.length = 4) (hb : b.length = 12)
    (hc : c.length = 4) (hd : d.length = 4) :
    parseHeader (a ++ b ++ c ++ d) = ⟨a, b, leToNat c, d⟩ := by
  unfold parseHeader
  simp only [List.append_assoc]
  rw [List.take_left' ha, List.drop_left' ha, List.take_left' hb, List.drop_left' hb,
    List.take_left' hc, List.drop_left' hc, List.take_of_length_le (by omega)]

theorem leToNat_le4 (n : Nat) (h : n < 2 ^ 32) : leToNat (natToLEn 4 n) = n := by
  rw [leToNat_natToLEn]; exact Nat.mod_eq_of_lt (by simpa using h)

theorem frame_step {w : Wire Msg} (hw : w.WF) {f : Frame} (hv : f.Valid w) (Y : Bytes) :
    ∃ m, f.msg? w = some m ∧ step w (f.bytes w ++ Y) = .msg m Y := by
  obtain ⟨m, hm⟩ := Option.isSome_iff_exists.mp hv.decodes
  refine ⟨m, hm, ?_⟩
  have hck : ((w.H f.payload).take 4).length = 4 := by
    have := hw.hashLen f.payload
    simp [List.length_take]; omega
  have hp : (w.magic ++ f.cmd ++ natToLEn 4 f.payload.length ++ (w.H f.payload).take 4).length = 24 := by
    simp [hw.magicLen, hv.cmdLen, hck]
  have e : f.bytes w ++ Y = (w.magic ++ f.cmd ++ natToLEn 4 f.payload.length ++ (w.H f.payload).take 4) ++ (f.payload ++ Y) := by
    simp [Frame.bytes]
  rw [e, step_header w _ _ hp, parseHeader_mk _ _ _ _ hw.magicLen hv.cmdLen (by simp) hck,
    leToNat_le4 _ hv.size32]
  simp only [ne_eq, not_true_eq_false, if_false]
  have hs : ¬ (¬ f.cmd = w.blockCmd ∧ f.payload.length > w.maxPayload) := by
    intro ⟨h1, h2⟩; rcases hv.sizeOk with h | h
    · exact h1 h
    · omega
  rw [if_neg hs]
  unfold stepBody
  unfold Frame.msg? at hm
  split
  · rename_i hk
    rw [hk] at hm
    simp at hm
    have := hv.bareEmpty hk
    simp [this, hm]
  · rename_i hk
    rw [hk] at hm
    simp at hm
    simp [hm]
    split
    · rename_i h; simp [h]
    · split
      · omega
      · rfl
  · rename_i hk
    rw [hk] at hm
    simp only at hm
    split at hm
    · rename_i m2 hd
      simp at hm; subst hm
      simp [hd]
    · simp at hm

theorem prefix_step {w : Wire Msg} (hw : w.WF) {tail : Bytes} (ht : StrictFramePrefix w tail) :
    step w tail = .stop CG.Spec.Reassembly.DISCONNECTED := by
  rcases ht with ht | ⟨f, rest, hv, hr, hb⟩
  · subst ht; exact step_short w [] (by simp)
  · by_cases hl : tail.length < 24
    · exact step_short w tail hl
    · have hck : ((w.H f.payload).take 4).length = 4 := by
        have := hw.hashLen f.payload
        simp [List.length_take]; omega
      have hp : (w.magic ++ f.cmd ++ natToLEn 4 f.payload.length ++ (w.H f.payload).take 4).length = 24 := by
        simp [hw.magicLen, hv.cmdLen, hck]
      have e : f.bytes w = (w.magic ++ f.cmd ++ natToLEn 4 f.payload.length ++ (w.H f.payload).take 4) ++ f.payload := by
        simp [Frame.bytes]
      rw [e] at hb
      have h1 := congrArg (List.take 24) hb
      have h2 := congrArg (List.drop 24) hb
      rw [List.take_append_of_le_length (by omega), List.take_left' hp] at h1
      rw [List.drop_append_of_le_length (by omega), List.drop_left' hp] at h2
      have e2 : tail = tail.take 24 ++ tail.drop 24 := (List.take_append_drop 24 tail).symm
      have hlen : (tail.drop 24).length < f.payload.length := by
        have := congrArg List.length h2
        simp at this
        have : rest.length ≠ 0 := fun h => hr (List.length_eq_zero_iff.mp h)
        simp; omega
      have hlen' : tail.length - 24 < f.payload.length := by simpa using hlen
      rw [e2, h1, step_header w _ _ hp, parseHeader_mk _ _ _ _ hw.magicLen hv.cmdLen (by simp) hck,
        leToNat_le4 _ hv.size32]
      simp only [ne_eq, not_true_eq_false, if_false]
      have hs : ¬ (¬ f.cmd = w.blockCmd ∧ f.payload.length > w.maxPayload) := by
        intro ⟨h1, h2⟩; rcases hv.sizeOk with h | h
        · exact h1 h
        · omega
      rw [if_neg hs]
      unfold stepBody
      split
      · rename_i hk
        have := hv.bareEmpty hk
        simp [this] at hlen
      · have hne : f.payload.length ≠ 0 := by omega
        simp [hne, hlen']
      · simp [hlen']

theorem parseAll_frames {w : Wire Msg} (hw : w.WF) (frames : List Frame)
    (hv : ∀ f ∈ frames, CG.Spec.Reassembly.Frame.Valid w f) (Y : Bytes) :
    parseAll w (streamOf w frames ++ Y) = (expected w frames ++ (parseAll w Y).1, (parseAll w Y).2) := by
  induction frames with
  | nil => simp [streamOf, expected]
  | cons f fs ih =>
    obtain ⟨m, hm, hs⟩ := frame_step hw (hv f (by simp)) (streamOf w fs ++ Y)
    have e : streamOf w (f :: fs) ++ Y = f.bytes w ++ (streamOf w fs ++ Y) := by
      simp [streamOf]
    rw [e, parseAll_eq, hs]
    simp only
    rw [ih (fun g hg => hv g (by simp [hg]))]
    simp [expected, hm]

theorem parseAll_stop {w : Wire Msg} {Y : Bytes} {e} (h : step w Y = .stop e) : parseAll w Y = ([], e) := by
  rw [parseAll_eq, h]

theorem expected_length {w : Wire Msg} (frames : List Frame) (hv : ∀ f ∈ frames, CG.Spec.Reassembly.Frame.Valid w f) :
    (expected w frames : List Msg).length = frames.length := by
  induction frames with
  | nil => simp [expected]
  | cons f fs ih =>
    obtain ⟨m, hm⟩ := Option.isSome_iff_exists.mp (hv f (by simp)).decodes
    have := ih (fun g hg => hv g (by simp [hg]))
    simp [expected, hm] at *
    exact this

end CG.Proofs.Framing

import CG.Proofs.ScriptNum
import CG.Proofs.Shift
/-! One model step (`Model.Interp.exec`) equals one reference step (`Spec.ScriptSem.exec`). -/
namespace CG.Proofs.InterpSpec
open CG CG.Model.ScriptNum CG.Model.Interp CG.Proofs.ScriptNum

theorem tdiv_eq (a b : Int) : a.tdiv b = Spec.ScriptSem.tdiv a b := by
  rcases a with m | m <;> rcases b with n | n
  all_goals
    have h1 : ¬ ((m : Int) < 0) := by omega
    have h2 : ¬ ((n : Int) < 0) := by omega
    have h3 : Int.negSucc m < 0 := Int.negSucc_lt_zero m
    have h4 : Int.negSucc n < 0 := Int.negSucc_lt_zero n
    simp [Spec.ScriptSem.tdiv, Int.tdiv, h1, h2, h3, h4]

theorem tmod_eq (a b : Int) : a.tmod b = Spec.ScriptSem.tmod a b := by
  rcases a with m | m <;> rcases b with n | n
  all_goals
    have h1 : ¬ ((m : Int) < 0) := by omega
    have h3 : Int.negSucc m < 0 := Int.negSucc_lt_zero m
    simp [Spec.ScriptSem.tmod, Int.tmod, h1, h3]

open CG.Spec.ScriptSem in
theorem popBig_eq (s : Stack) : popBig s = popVal s := by
  cases s <;> simp [popBig, popVal, scriptErr, decodeBig_eq_value]

open CG.Spec.ScriptSem in
theorem unaryBig_eq {σ : Type} (st : St σ) (f : Int → Int) : unaryBig st f = un st f := by
  simp only [unaryBig, un, popBig_eq, encodeBig_eq_encodeMin]; rfl

open CG.Spec.ScriptSem in
theorem binaryBig_eq {σ : Type} (st : St σ) (f : Int → Int → Outcome Bytes) :
    binaryBig st f = bin st f := by
  simp only [binaryBig, bin, popBig_eq]; rfl

theorem boolItem_eq : boolItem = Spec.ScriptSem.item := rfl

theorem encodeNum_len (n : Nat) :
    encodeNum (n : Int) = if n > 2147483647 then .err "ScriptError" else .ok (Spec.ScriptSem.encodeMin n) := by
  by_cases h : n > 2147483647
  · rw [if_pos h]; unfold encodeNum; rw [if_pos (by omega)]
  · rw [if_neg h, encodeNum_eq _ (by omega), encodeBig_eq_encodeMin]

theorem popNum_eq (s : Stack) : popNum s = Spec.ScriptSem.popSmall s := by
  cases s with
  | nil => rfl
  | cons t r =>
    simp only [popNum, Spec.ScriptSem.popSmall, scriptErr]
    by_cases h : t.length > 4
    · simp [h]
    · simp [h, decodeNum_small t (by omega), decodeBig_eq_value]

/-- one step of the model equals one step of the reference semantics, for every operation except
    NUM2BIN (and `pushNum` restricted to the `i32` range `encode_num` accepts; the dispatch only
    produces `pushNum n` with `-1 ≤ n ≤ 16`) -/
theorem exec_eq_spec {σ : Type} (H : Hashes) (C : Checker σ) (pre : Bool) (script : Bytes) (i : Nat)
    (op : Op) (st : St σ) (hop : op ≠ .num2bin)
    (hpn : ∀ n, op = .pushNum n → n.natAbs ≤ 2147483647) :
    Model.Interp.exec H C pre script i op st = Spec.ScriptSem.exec H C pre script i op st := by
  cases op
  case num2bin => exact absurd rfl hop
  case pushNum n =>
    simp only [Model.Interp.exec, Spec.ScriptSem.exec, encodeNum_eq n (hpn n rfl), encodeBig_eq_encodeMin]
  case depth =>
    simp only [Model.Interp.exec, Spec.ScriptSem.exec, encodeNum_len]
    by_cases h : st.stack.length > 2147483647
    · simp only [h, if_true]
    · simp only [h, if_false]
  case size =>
    simp only [Model.Interp.exec, Spec.ScriptSem.exec, checkSize, scriptErr]
    cases hs : st.stack with
    | nil => simp
    | cons t r =>
      simp only [List.length_cons, encodeNum_len]
      rw [if_neg (by omega)]
      by_cases h : t.length > 2147483647
      · simp only [h, if_true]
      · simp only [h, if_false]
  case lshift =>
    simp only [Model.Interp.exec, Spec.ScriptSem.exec, checkSize, scriptErr]
    rcases hs : st.stack with _ | ⟨nb, _ | ⟨v, r⟩⟩
    · simp
    · simp
    · simp only [List.length_cons]
      rw [if_neg (by omega)]
      simp only [popNum, scriptErr]
      by_cases h : nb.length > 4
      · simp [h]
      · simp only [h, if_false, decodeNum_small nb (by omega), decodeBig_eq_value, popU,
          CG.Proofs.Shift.lshift_eq_shl]
  case rshift =>
    simp only [Model.Interp.exec, Spec.ScriptSem.exec, checkSize, scriptErr]
    rcases hs : st.stack with _ | ⟨nb, _ | ⟨v, r⟩⟩
    · simp
    · simp
    · simp only [List.length_cons]
      rw [if_neg (by omega)]
      simp only [popNum, scriptErr]
      by_cases h : nb.length > 4
      · simp [h]
      · simp only [h, if_false, decodeNum_small nb (by omega), decodeBig_eq_value, popU,
          CG.Proofs.Shift.rshift_eq_shr]
  case bin2num =>
    simp only [Model.Interp.exec, Spec.ScriptSem.exec, checkSize, scriptErr]
    cases hs : st.stack with
    | nil => simp
    | cons t r =>
      simp only [List.length_cons, popU, encodeBig_eq_encodeMin, decodeBig_eq_value]
      rw [if_neg (by omega)]
  all_goals first
    | rfl
    | (simp only [Model.Interp.exec, Spec.ScriptSem.exec, unaryBig_eq, binaryBig_eq, boolItem_eq,
        encodeBig_eq_encodeMin, tdiv_eq, tmod_eq, scriptErr]; done)

/-! ## NUM2BIN on operands whose sign bit is clear -/
open CG.Spec.ScriptSem in
theorem value_ne_zero_of_minimal (s : Bytes) (hs : s ≠ []) (h : Minimal s) : value s ≠ 0 := by
  intro hc
  have := encodeMin_value_of_minimal s h
  rw [hc] at this
  exact hs (this.symm.trans encodeMin_zero)

theorem leToNat_replicate_zero (k : Nat) : leToNat (List.replicate k (0 : UInt8)) = 0 := by
  induction k with
  | zero => rfl
  | succ k ih => simp [List.replicate_succ, leToNat, ih]

theorem natToLEn_pad (n : Bytes) (k : Nat) :
    natToLEn (n.length + k) (leToNat n) = n ++ List.replicate k 0 := by
  have := natToLEn_leToNat (n ++ List.replicate k 0)
  simpa [leToNat_append, leToNat_replicate_zero] using this

open CG.Spec.ScriptSem in
/-- the minimal encoding is no longer than any encoding of the same value -/
theorem encodeMin_value_length_le (n : Bytes) : (encodeMin (value n)).length ≤ n.length := by
  by_cases hn : n = []
  · subst hn; decide
  · obtain ⟨init, d, rfl⟩ := list_snoc_of_ne_nil n hn
    have hA := leToNat_lt init
    have hd := d.toNat_lt
    have hub : 256 ^ init.length * (d.toNat % 128) ≤ 256 ^ init.length * 127 :=
      Nat.mul_le_mul_left _ (by omega)
    have hlen : ∀ z : Int, z.natAbs = leToNat init + 256 ^ init.length * (d.toNat % 128) →
        (encodeMin z).length ≤ init.length + 1 := by
      intro z hz
      unfold encodeMin
      simp only []
      split
      · simp
      · next hk =>
        simp only [natToLEn_length]
        have hm : z.natAbs ≠ 0 := by
          intro h0; apply hk; simp [h0, minLen]
        obtain ⟨h1, h2, h3⟩ := minLen_spec z.natAbs hm
        by_cases hgt : init.length + 1 < minLen z.natAbs
        · have := h3 (init.length + 1) (by omega) hgt
          rw [top_eq] at this
          omega
        · omega
    rw [value_snoc]
    simp only [List.length_append, List.length_singleton]
    split
    · exact hlen _ (by rw [Int.natAbs_neg]; exact Int.natAbs_natCast _)
    · exact hlen _ (Int.natAbs_natCast _)

theorem and128_fin : ∀ i : Fin 256, i.val < 128 → (UInt8.ofNat i.val &&& 128) = 0 := by decide +kernel
theorem and127_fin : ∀ i : Fin 256, i.val < 128 → (UInt8.ofNat i.val &&& 127) = UInt8.ofNat i.val := by
  decide +kernel
theorem and128 (l : UInt8) (h : l.toNat < 128) : l &&& 128 = 0 := by
  have := and128_fin ⟨l.toNat, l.toNat_lt⟩ h; simpa using this
theorem and127 (l : UInt8) (h : l.toNat < 128) : l &&& 127 = l := by
  have := and127_fin ⟨l.toNat, l.toNat_lt⟩ h; simpa using this

open CG.Spec.ScriptSem in
/-- NUM2BIN as coded equals the reference on every operand whose sign bit is clear, provided the
    operand is minimal or at least fits the requested size (all `m`) -/
theorem num2bin_eq_of_sign_clear (m : Int) (n : Bytes)
    (hsign : ∀ l, n.getLast? = some l → l.toNat < 128)
    (hlen : Minimal n ∨ (n.length : Int) ≤ m) :
    Model.Interp.num2bin m n = Spec.ScriptSem.num2bin m n := by
  unfold Model.Interp.num2bin Spec.ScriptSem.num2bin
  simp only [scriptErr]
  by_cases h1 : m < 1
  · simp [h1]
  by_cases h3 : m > 2147483647
  · simp [h1, h3]
  rw [if_neg h1, if_neg h3, if_neg (show ¬ (m < 1 ∨ m > 2147483647) by omega)]
  have hle := encodeMin_value_length_le n
  by_cases h2 : m < (n.length : Int)
  · have hmin : Minimal n := by rcases hlen with h | h; exact h; omega
    rw [if_pos h2, encodeMin_value_of_minimal n hmin, if_pos (by omega)]
  rw [if_neg h2, if_neg (by omega)]
  have hm : n.length + (m.toNat - n.length) = m.toNat := by omega
  by_cases hn : n = []
  · subst hn
    have := natToLEn_pad [] (m.toNat - 0)
    simp only [List.length_nil, Nat.zero_add, leToNat, List.nil_append] at this
    simp only [List.getLast?_nil, List.nil_append, List.length_nil]
    generalize hv : List.replicate (m.toNat - 0) (0 : UInt8) = v at *
    cases v with
    | nil => have := congrArg List.length hv; simp at this; omega
    | cons b rest => rw [Nat.sub_zero] at this; simp [value, this]
  · obtain ⟨init, d, rfl⟩ := list_snoc_of_ne_nil n hn
    have hd : d.toNat < 128 := hsign d (by simp)
    simp only [List.getLast?_append, List.getLast?_singleton, Option.some_or, List.dropLast_concat,
      and128 d hd, and127 d hd]
    rw [value_snoc, if_neg (by omega), if_neg (by omega)]
    simp only [Int.natAbs_natCast, Nat.add_zero]
    rw [show d.toNat % 128 = d.toNat by omega, ← leToNat_snoc, ← hm, natToLEn_pad, hm]
    generalize hv : init ++ [d] ++ List.replicate (m.toNat - (init ++ [d]).length) (0 : UInt8) = v
    cases v with
    | nil => have := congrArg List.length hv; simp at this
    | cons b rest => simp

/-- the NUM2BIN arm: the model step equals the reference step whenever the two `num2bin` bodies
    agree on the operands actually on the stack -/
theorem exec_num2bin_eq {σ : Type} (H : Hashes) (C : Checker σ) (pre : Bool) (script : Bytes) (i : Nat)
    (st : St σ)
    (h : ∀ mb n r, st.stack = mb :: n :: r →
      Model.Interp.num2bin (decodeBig mb) n = Spec.ScriptSem.num2bin (decodeBig mb) n) :
    Model.Interp.exec H C pre script i .num2bin st = Spec.ScriptSem.exec H C pre script i .num2bin st := by
  simp only [Model.Interp.exec, Spec.ScriptSem.exec, checkSize, scriptErr]
  rcases hs : st.stack with _ | ⟨mb, _ | ⟨n, r⟩⟩
  · simp
  · simp
  · simp only [List.length_cons]
    rw [if_neg (by omega)]
    have hh := h mb n r hs
    rw [decodeBig_eq_value] at hh
    simp only [popBig, popU, decodeBig_eq_value, hh]
    rfl

/-! ## whole runs -/

/-- the reference per-opcode semantics with the NUM2BIN arm replaced by the library's -/
def specLib {σ : Type} (H : Hashes) (C : Checker σ) (pre : Bool) (script : Bytes) (i : Nat)
    (op : Op) (st : St σ) : Outcome (Bool × St σ) :=
  if op = .num2bin then Model.Interp.exec H C pre script i op st
  else Spec.ScriptSem.exec H C pre script i op st

theorem decodeOp_pushNum_fin : ∀ i : Fin 256,
    (match decodeOp (UInt8.ofNat i.val) with
     | .pushNum n => decide (n.natAbs ≤ 16)
     | _ => true) = true := by decide +kernel

theorem decodeOp_pushNum (b : UInt8) (n : Int) (h : decodeOp b = .pushNum n) : n.natAbs ≤ 16 := by
  have := decodeOp_pushNum_fin ⟨b.toNat, b.toNat_lt⟩
  simp only [UInt8.ofNat_toNat, h, decide_eq_true_eq] at this
  exact this

theorem decodeOp_num2bin_fin : ∀ i : Fin 256,
    decodeOp (UInt8.ofNat i.val) = .num2bin → i.val = 128 := by decide +kernel

theorem decodeOp_num2bin (b : UInt8) (h : decodeOp b = .num2bin) : b = 128 := by
  have := decodeOp_num2bin_fin ⟨b.toNat, b.toNat_lt⟩ (by simpa using h)
  exact UInt8.toNat_inj.mp (by simpa using this)

/-- on dispatched opcodes the model step is the `specLib` step -/
theorem exec_eq_specLib {σ : Type} (H : Hashes) (C : Checker σ) (pre : Bool) (script : Bytes)
    (i : Nat) (b : UInt8) (st : St σ) :
    Model.Interp.exec H C pre script i (decodeOp b) st = specLib H C pre script i (decodeOp b) st := by
  unfold specLib
  split
  · rfl
  · next h =>
    exact exec_eq_spec H C pre script i _ st h
      (fun n hn => Nat.le_trans (decodeOp_pushNum b n hn) (by decide))

theorem runWith_congr {σ : Type} (ex ex' : Nat → Op → St σ → Outcome (Bool × St σ)) (script : Bytes)
    (breakAt : Option Nat)
    (h : ∀ i st, ex i (decodeOp (script.getD i 0)) st = ex' i (decodeOp (script.getD i 0)) st) :
    ∀ fuel i st, runWith ex script breakAt fuel i st = runWith ex' script breakAt fuel i st := by
  intro fuel
  induction fuel with
  | zero => intro i st; rfl
  | succ fuel ih => intro i st; simp only [runWith, h, ih]

theorem getD_mem_or_zero (script : Bytes) (i : Nat) : script.getD i 0 ∈ script ∨ script.getD i 0 = 0 := by
  by_cases h : i < script.length
  · left; simp [List.getD_eq_getElem?_getD, List.getElem?_eq_getElem h]
  · right; simp [List.getD_eq_getElem?_getD, List.getElem?_eq_none (Nat.le_of_not_lt h)]

end CG.Proofs.InterpSpec

import CG.Model.ScriptText
import CG.Proofs.ScriptBuild
/-!
Helper lemmas for the text-form part of C16: hex round trip, lexing of encoded items, joining and
splitting of tokens, decoding of the printer's tokens, and the round trip `parse (print s) = s` under the
exact safety condition `safe`.
-/
namespace CG.Proofs.ScriptText
open CG CG.Model.ScriptNum CG.Model.ScriptBuild CG.Model.ScriptText CG.Proofs.ScriptBuild

/-! ### hex -/

theorem hexVal_hexDigit : ∀ n : Fin 16, hexVal (hexDigit n.val) = some n.val := by decide

theorem hexEnc_cons (b : UInt8) (r : Bytes) :
    hexEnc (b :: r) = hexDigit (b.toNat / 16) :: hexDigit (b.toNat % 16) :: hexEnc r := by
  simp [hexEnc, hexByte]

theorem hexDecGo_enc (bs : Bytes) (acc : Bytes) : hexDecGo (hexEnc bs) acc = some (acc.reverse ++ bs) := by
  induction bs generalizing acc with
  | nil => simp [hexEnc, hexDecGo]
  | cons b r ih =>
    rw [hexEnc_cons]
    have hb := b.toNat_lt
    have h1 := hexVal_hexDigit ⟨b.toNat / 16, by omega⟩
    have h2 := hexVal_hexDigit ⟨b.toNat % 16, by omega⟩
    simp only at h1 h2
    simp only [hexDecGo, h1, h2]
    rw [ih]
    have : UInt8.ofNat (16 * (b.toNat / 16) + b.toNat % 16) = b := by
      rw [show 16 * (b.toNat / 16) + b.toNat % 16 = b.toNat by omega]; simp
    simp [this]

theorem hexDec_enc (bs : Bytes) : hexDec (hexEnc bs) = some bs := by
  simp [hexDec, hexDecGo_enc]

/-! ### lexing what `encode` wrote -/

theorem lexOne_bytes (it : Item) (rest : Bytes) (h : it.wf = true) : lexOne (it.bytes ++ rest) = (it, rest) := by
  cases it with
  | op b =>
    simp only [Item.wf, Bool.not_eq_true', Bool.and_eq_false_iff, decide_eq_false_iff_not] at h
    simp only [Item.bytes, List.cons_append, List.nil_append, lexOne]
    rw [if_neg (by omega), if_neg (by omega), if_neg (by omega), if_neg (by omega)]
  | push d =>
    simp only [Item.wf, Bool.and_eq_true, decide_eq_true_eq] at h
    simp only [Item.bytes, List.cons_append, lexOne, ofNat_toNat_lt (show d.length < 256 by omega)]
    rw [if_pos (by omega), if_pos (by simp)]
    simp
  | pd1 d =>
    simp only [Item.wf, decide_eq_true_eq] at h
    have hl : (UInt8.ofNat (d.length % 256)).toNat = d.length := by rw [ofNat_toNat_lt (by omega)]; omega
    simp only [Item.bytes, natToLEn1, List.cons_append, List.nil_append, lexOne]
    rw [if_neg (by decide), if_pos (by decide)]
    simp only [hl]
    rw [if_pos (by simp)]
    simp
  | pd2 d =>
    simp only [Item.wf, decide_eq_true_eq] at h
    have hl0 : (UInt8.ofNat (d.length % 256)).toNat = d.length % 256 := by rw [ofNat_toNat_lt (by omega)]
    have hl1 : (UInt8.ofNat (d.length / 256 % 256)).toNat = d.length / 256 := by rw [ofNat_toNat_lt (by omega)]; omega
    have hs : d.length % 256 + d.length / 256 * 256 = d.length := by omega
    simp only [Item.bytes, natToLEn2, List.cons_append, List.nil_append, lexOne]
    rw [if_neg (by decide), if_neg (by decide), if_pos (by decide)]
    simp only [hl0, hl1, hs]
    rw [if_pos (by simp)]
    simp
  | pd4 d =>
    simp only [Item.wf, decide_eq_true_eq] at h
    have hl0 : (UInt8.ofNat (d.length % 256)).toNat = d.length % 256 := by rw [ofNat_toNat_lt (by omega)]
    have hl1 : (UInt8.ofNat (d.length / 256 % 256)).toNat = d.length / 256 % 256 := by rw [ofNat_toNat_lt (by omega)]
    have hl2 : (UInt8.ofNat (d.length / 256 / 256 % 256)).toNat = d.length / 256 / 256 % 256 := by rw [ofNat_toNat_lt (by omega)]
    have hl3 : (UInt8.ofNat (d.length / 256 / 256 / 256 % 256)).toNat = d.length / 256 / 256 / 256 := by
      rw [ofNat_toNat_lt (by omega)]; omega
    have hs : d.length % 256 + d.length / 256 % 256 * 256 + d.length / 256 / 256 % 256 * 65536
        + d.length / 256 / 256 / 256 * 16777216 = d.length := by omega
    simp only [Item.bytes, natToLEn4, List.cons_append, List.nil_append, lexOne]
    rw [if_neg (by decide), if_neg (by decide), if_neg (by decide), if_pos (by decide)]
    simp only [hl0, hl1, hl2, hl3, hs]
    rw [if_pos (by simp)]
    simp
  | trunc r => simp [Item.wf] at h

theorem bytes_ne_nil (it : Item) (h : it.wf = true) : it.bytes ≠ [] := by
  cases it <;> simp [Item.bytes, Item.wf] at h ⊢

theorem encode_cons (it : Item) (r : List Item) : encode (it :: r) = it.bytes ++ encode r := by
  simp [encode]

theorem lexFuel_encode (items : List Item) (f : Nat) (hwf : ∀ it ∈ items, it.wf = true)
    (hf : (encode items).length ≤ f) : lexFuel f (encode items) = items := by
  induction items generalizing f with
  | nil => cases f <;> simp [encode, lexFuel]
  | cons it r ih =>
    have hit := hwf it (by simp)
    have hne := bytes_ne_nil it hit
    rw [encode_cons] at hf ⊢
    obtain ⟨b, tl, hb⟩ : ∃ b tl, it.bytes ++ encode r = b :: tl := by
      cases hx : it.bytes with
      | nil => exact absurd hx hne
      | cons b tl => exact ⟨b, tl ++ encode r, rfl⟩
    have hlen : 1 ≤ it.bytes.length := by
      cases hx : it.bytes with
      | nil => exact absurd hx hne
      | cons _ _ => simp
    cases f with
    | zero => simp only [List.length_append] at hf; omega
    | succ f =>
      rw [hb]
      simp only [lexFuel]
      rw [← hb, lexOne_bytes it (encode r) hit]
      simp only []
      rw [ih f (fun x hx => hwf x (by simp [hx])) (by simp only [List.length_append] at hf; omega)]

theorem lex_encode (items : List Item) (hwf : ∀ it ∈ items, it.wf = true) : lex (encode items) = items :=
  lexFuel_encode items _ hwf (Nat.le_refl _)

/-! ### joining and splitting tokens -/

/-- a token survives the separator split: non-empty and free of separators -/
def Clean (t : Str) : Prop := t ≠ [] ∧ ∀ c ∈ t, isSep c = false

theorem joinSp_cons_cons (x y : Str) (r : List Str) : joinSp (x :: y :: r) = x ++ ' ' :: joinSp (y :: r) := by
  simp [joinSp]

theorem joinSp_single (x : Str) : joinSp [x] = x := by simp [joinSp]

theorem joinSp_append (a b : List Str) (ha : a ≠ []) (hb : b ≠ []) :
    joinSp (a ++ b) = joinSp a ++ ' ' :: joinSp b := by
  cases a with
  | nil => exact absurd rfl ha
  | cons t ra =>
    cases b with
    | nil => exact absurd rfl hb
    | cons u rb => simp [joinSp]

theorem joinSp_flatten {α : Type} (f : α → List Str) (xs : List α) (hne : ∀ x ∈ xs, f x ≠ []) :
    joinSp (xs.map fun x => joinSp (f x)) = joinSp (xs.flatMap f) := by
  induction xs with
  | nil => rfl
  | cons x r ih =>
    cases r with
    | nil => simp [joinSp_single]
    | cons y r' =>
      have hx := hne x (by simp)
      have hy := hne y (by simp)
      have hr : (y :: r').flatMap f ≠ [] := by
        simp only [List.flatMap_cons]
        intro h
        exact hy (List.append_eq_nil_iff.mp h).1
      have ih' := ih (fun z hz => hne z (by simp [hz]))
      rw [List.map_cons] at ih'
      rw [List.map_cons, List.map_cons, joinSp_cons_cons, ih',
        show List.flatMap f (x :: y :: r') = f x ++ List.flatMap f (y :: r') from List.flatMap_cons, joinSp_append _ _ hx hr]

theorem splitGo_tok (t rest cur : Str) (acc : List Str) (h : ∀ c ∈ t, isSep c = false) :
    splitGo (t ++ rest) cur acc = splitGo rest (t.reverse ++ cur) acc := by
  induction t generalizing cur with
  | nil => rfl
  | cons c r ih =>
    have hc := h c (by simp)
    simp only [List.cons_append, splitGo, hc, Bool.false_eq_true, if_false]
    rw [ih _ (fun x hx => h x (by simp [hx]))]
    simp

theorem splitGo_rest (r : List Str) (t : Str) (acc : List Str) (ht : Clean t) (hr : ∀ x ∈ r, Clean x) :
    splitGo (r.flatMap fun x => ' ' :: x) t.reverse acc = acc.reverse ++ t :: r := by
  induction r generalizing t acc with
  | nil =>
    have : t.reverse.isEmpty = false := by
      cases t with
      | nil => exact absurd rfl ht.1
      | cons _ _ => simp
    simp [splitGo, this]
  | cons x r' ih =>
    have hx := hr x (by simp)
    have : t.reverse.isEmpty = false := by
      cases t with
      | nil => exact absurd rfl ht.1
      | cons _ _ => simp
    simp only [List.flatMap_cons, List.cons_append, splitGo, this]
    have hs : isSep ' ' = true := by decide
    simp only [hs, if_true, Bool.false_eq_true, if_false, List.reverse_reverse]
    rw [splitGo_tok x _ [] _ hx.2, List.append_nil, ih x _ hx (fun y hy => hr y (by simp [hy]))]
    simp

theorem splitSep_joinSp (toks : List Str) (h : ∀ t ∈ toks, Clean t) : splitSep (joinSp toks) = toks := by
  cases toks with
  | nil => simp [joinSp, splitSep, splitGo]
  | cons t r =>
    have ht := h t (by simp)
    unfold splitSep joinSp
    rw [splitGo_tok t _ [] _ ht.2, List.append_nil, splitGo_rest r t [] ht (fun x hx => h x (by simp [hx]))]
    simp

/-! ### the name tables -/

def cleanB (t : Str) : Bool := !t.isEmpty && t.all (fun c => !isSep c)

theorem clean_of_cleanB {t : Str} (h : cleanB t = true) : Clean t := by
  simp only [cleanB, Bool.and_eq_true, Bool.not_eq_true', List.all_eq_true] at h
  refine ⟨?_, fun c hc => h.2 c hc⟩
  intro e; subst e; simp at h

/-- what the round trip needs from the two name tables (all decidable; `goodTables_pinned` checks them
    for the tables generated from the current tree) -/
structure GoodTables (T : Tables) : Prop where
  named_clean : ∀ i : Fin 256, Named T (UInt8.ofNat i.val) = true → cleanB (opText T (UInt8.ofNat i.val)) = true
  pd1 : lookupName T pd1Name = some 76
  pd2 : lookupName T pd2Name = some 77
  pd4 : lookupName T pd4Name = some 78
  keys : T.parser.all (fun p => p.1.head? == some 'O') = true

theorem lookup_foldl_some (l : List (Str × Nat)) (w : Str) (acc : Option Nat) (v : Nat)
    (h : l.foldl (fun acc p => if p.1 = w then some p.2 else acc) acc = some v) :
    acc = some v ∨ ∃ p ∈ l, p.1 = w := by
  induction l generalizing acc with
  | nil => exact Or.inl h
  | cons p r ih =>
    simp only [List.foldl_cons] at h
    rcases ih _ h with h1 | ⟨q, hq, hw⟩
    · by_cases hp : p.1 = w
      · exact Or.inr ⟨p, by simp, hp⟩
      · rw [if_neg hp] at h1; exact Or.inl h1
    · exact Or.inr ⟨q, by simp [hq], hw⟩

theorem lookupName_head {T : Tables} (G : GoodTables T) {w : Str} {v : Nat} (h : lookupName T w = some v) :
    w.head? = some 'O' := by
  rcases lookup_foldl_some _ _ _ _ h with h0 | ⟨p, hp, hw⟩
  · cases h0
  · have := List.all_eq_true.mp G.keys p hp
    subst hw
    simpa using this

theorem named_clean {T : Tables} (G : GoodTables T) (b : UInt8) (h : Named T b = true) : Clean (opText T b) := by
  have := G.named_clean ⟨b.toNat, b.toNat_lt⟩
  simp only [UInt8.ofNat_toNat] at this
  exact clean_of_cleanB (this h)

/-! ### decoding the printer's tokens -/

theorem decodeOp_named {T : Tables} (b : UInt8) (k : Nat) (h : Named T b = true) :
    decodeOp T (opText T b) k = .ok (.int b) := by
  have : lookupName T (opText T b) = some b.toNat := by simpa [Named] using h
  simp [decodeOp, this]

theorem decodeOp_name {T : Tables} (w : Str) (v k : Nat) (h : lookupName T w = some v) :
    decodeOp T w k = .ok (.int (UInt8.ofNat v)) := by
  simp [decodeOp, h]

theorem parseI64_hexTok (d : Bytes) : parseI64 (hexTok d) = none := by
  simp [hexTok, parseI64, parseDigits, digitVal]

theorem decodeOp_hex {T : Tables} (G : GoodTables T) (d : Bytes) (k : Nat) :
    decodeOp T (hexTok d) k = .ok (.bytes (if k > 0 then d else appendData [] d)) := by
  have hl : lookupName T (hexTok d) = none := by
    cases h : lookupName T (hexTok d) with
    | none => rfl
    | some v => have := lookupName_head G h; simp [hexTok] at this
  unfold decodeOp
  rw [hl, parseI64_hexTok]
  simp only [hexTok, hexDec_enc]
  split <;> rfl

theorem hexTok_clean (d : Bytes) : Clean (hexTok d) := by
  refine ⟨by simp [hexTok], ?_⟩
  intro c hc
  simp only [hexTok, List.mem_cons] at hc
  rcases hc with rfl | rfl | hc
  · decide
  · decide
  · simp only [hexEnc, List.mem_flatMap, hexByte, List.mem_cons, List.not_mem_nil, or_false] at hc
    obtain ⟨b, _, hb⟩ := hc
    have hb16 := b.toNat_lt
    have key : ∀ n : Fin 16, isSep (hexDigit n.val) = false := by decide
    rcases hb with rfl | rfl
    · exact key ⟨b.toNat / 16, by omega⟩
    · exact key ⟨b.toNat % 16, by omega⟩


/-! ### the parser's loop over the printer's tokens -/

theorem parseToks_cons {T : Tables} (w : Str) (r : List Str) (k : Nat) (c : Cmd) (cs : List Cmd)
    (h1 : decodeOp T w k = .ok c) (h2 : parseToks T r (handlePushdata T c k) = .ok cs) :
    parseToks T (w :: r) k = .ok (c :: cs) := by
  simp [parseToks, h1, h2]

theorem handle_bytes (T : Tables) (bs : Bytes) (k : Nat) : handlePushdata T (.bytes bs) k = k - 1 := rfl

theorem handle_op (T : Tables) (b : UInt8) (k : Nat) (h : (Item.op b).wf = true) :
    handlePushdata T (.int b) k = k - 1 := by
  simp only [Item.wf, Bool.not_eq_true', Bool.and_eq_false_iff, decide_eq_false_iff_not] at h
  simp only [handlePushdata, pushdataTokens]
  rw [if_neg (by omega), if_neg (by omega), if_neg (by omega)]

theorem parse_printToks {T : Tables} (G : GoodTables T) (items : List Item) (k : Nat)
    (hwf : ∀ it ∈ items, it.wf = true) (hs : safe T k items = true) :
    ∃ cs, parseToks T (printToks T items) k = .ok cs ∧ commandsAsVec cs = encode items := by
  induction items generalizing k with
  | nil => exact ⟨[], by simp [printToks, parseToks], by simp [commandsAsVec, encode]⟩
  | cons it r ih =>
    have hit := hwf it (by simp)
    have hr : ∀ x ∈ r, x.wf = true := fun x hx => hwf x (by simp [hx])
    have hpt : printToks T (it :: r) = itemToks T it ++ printToks T r := by simp [printToks]
    rw [hpt, encode_cons]
    cases it with
    | op b =>
      simp only [safe, Bool.and_eq_true] at hs
      obtain ⟨cs, h1, h2⟩ := ih (k - 1) hr hs.2
      refine ⟨.int b :: cs, ?_, ?_⟩
      · simp only [itemToks, List.cons_append, List.nil_append]
        exact parseToks_cons _ _ _ _ _ (decodeOp_named b k hs.1) (by rw [handle_op T b k hit]; exact h1)
      · simp only [commandsAsVec, List.flatMap_cons, Cmd.bytesOf, Item.bytes] at h2 ⊢
        rw [h2]
    | push d =>
      simp only [safe, Bool.and_eq_true, beq_iff_eq] at hs
      obtain ⟨hk, hs⟩ := hs
      subst hk
      obtain ⟨cs, h1, h2⟩ := ih 0 hr hs
      simp only [Item.wf, Bool.and_eq_true, decide_eq_true_eq] at hit
      refine ⟨.bytes (appendData [] d) :: cs, ?_, ?_⟩
      · simp only [itemToks, List.cons_append, List.nil_append]
        exact parseToks_cons _ _ _ _ _ (by rw [decodeOp_hex G]; simp) (by rw [handle_bytes]; exact h1)
      · simp only [commandsAsVec, List.flatMap_cons, Cmd.bytesOf, Item.bytes] at h2 ⊢
        rw [h2, appendData_direct [] d hit.1 hit.2]
        rfl
    | pd1 d =>
      simp only [safe] at hs
      obtain ⟨cs, h1, h2⟩ := ih 0 hr hs
      refine ⟨.int 76 :: .bytes (natToLEn 1 d.length) :: .bytes d :: cs, ?_, ?_⟩
      · simp only [itemToks, List.cons_append, List.nil_append]
        refine parseToks_cons _ _ _ _ _ (decodeOp_name _ _ _ G.pd1) ?_
        have e1 : handlePushdata T (.int 76) k = 2 := rfl
        rw [e1]
        refine parseToks_cons _ _ _ _ _ (by rw [decodeOp_hex G]; simp) ?_
        rw [handle_bytes]
        refine parseToks_cons _ _ _ _ _ (by rw [decodeOp_hex G]; simp) ?_
        rw [handle_bytes]
        exact h1
      · simp only [commandsAsVec, List.flatMap_cons, Cmd.bytesOf, Item.bytes] at h2 ⊢
        rw [h2]
        rfl
    | pd2 d =>
      simp only [safe, Bool.and_eq_true, decide_eq_true_eq] at hs
      obtain ⟨hp, hs⟩ := hs
      obtain ⟨cs, h1, h2⟩ := ih (T.pd2 - 2) hr hs
      refine ⟨.int 77 :: .bytes (natToLEn 2 d.length) :: .bytes d :: cs, ?_, ?_⟩
      · simp only [itemToks, List.cons_append, List.nil_append]
        refine parseToks_cons _ _ _ _ _ (decodeOp_name _ _ _ G.pd2) ?_
        have e1 : handlePushdata T (.int 77) k = T.pd2 := rfl
        rw [e1]
        refine parseToks_cons _ _ _ _ _ (by rw [decodeOp_hex G, if_pos (by omega)]) ?_
        rw [handle_bytes]
        refine parseToks_cons _ _ _ _ _ (by rw [decodeOp_hex G, if_pos (by omega)]) ?_
        rw [handle_bytes, show T.pd2 - 1 - 1 = T.pd2 - 2 by omega]
        exact h1
      · simp only [commandsAsVec, List.flatMap_cons, Cmd.bytesOf, Item.bytes] at h2 ⊢
        rw [h2]
        rfl
    | pd4 d =>
      simp only [safe, Bool.and_eq_true, decide_eq_true_eq] at hs
      obtain ⟨hp, hs⟩ := hs
      obtain ⟨cs, h1, h2⟩ := ih (T.pd4 - 2) hr hs
      refine ⟨.int 78 :: .bytes (natToLEn 4 d.length) :: .bytes d :: cs, ?_, ?_⟩
      · simp only [itemToks, List.cons_append, List.nil_append]
        refine parseToks_cons _ _ _ _ _ (decodeOp_name _ _ _ G.pd4) ?_
        have e1 : handlePushdata T (.int 78) k = T.pd4 := rfl
        rw [e1]
        refine parseToks_cons _ _ _ _ _ (by rw [decodeOp_hex G, if_pos (by omega)]) ?_
        rw [handle_bytes]
        refine parseToks_cons _ _ _ _ _ (by rw [decodeOp_hex G, if_pos (by omega)]) ?_
        rw [handle_bytes, show T.pd4 - 1 - 1 = T.pd4 - 2 by omega]
        exact h1
      · simp only [commandsAsVec, List.flatMap_cons, Cmd.bytesOf, Item.bytes] at h2 ⊢
        rw [h2]
        rfl
    | trunc rest => simp [Item.wf] at hit

/-! ### the printed text is the joined token list, and splits back into it -/

theorem pdName_clean : Clean pd1Name ∧ Clean pd2Name ∧ Clean pd4Name := by
  refine ⟨clean_of_cleanB (by decide), clean_of_cleanB (by decide), clean_of_cleanB (by decide)⟩

theorem itemToks_ne_nil (T : Tables) (it : Item) (h : it.wf = true) : itemToks T it ≠ [] := by
  cases it <;> simp [itemToks, Item.wf] at h ⊢

theorem printItem_wf (T : Tables) (it : Item) (h : it.wf = true) : printItem T it = joinSp (itemToks T it) := by
  cases it <;> simp [printItem, Item.wf] at h ⊢

theorem printString_encode (T : Tables) (items : List Item) (hwf : ∀ it ∈ items, it.wf = true) :
    printString T (encode items) = joinSp (printToks T items) := by
  unfold printString printToks
  rw [lex_encode items hwf]
  have : items.map (printItem T) = items.map (fun it => joinSp (itemToks T it)) :=
    List.map_congr_left (fun it hit => printItem_wf T it (hwf it hit))
  rw [this]
  exact joinSp_flatten (itemToks T) items (fun it hit => itemToks_ne_nil T it (hwf it hit))

theorem safe_named {T : Tables} {k : Nat} {items : List Item} (hs : safe T k items = true) :
    ∀ b, Item.op b ∈ items → Named T b = true := by
  induction items generalizing k with
  | nil => intro b hb; simp at hb
  | cons it r ih =>
    intro b hb
    cases it with
    | op c =>
      simp only [safe, Bool.and_eq_true] at hs
      rcases List.mem_cons.mp hb with h | h
      · cases h; exact hs.1
      · exact ih hs.2 b h
    | push d =>
      simp only [safe, Bool.and_eq_true] at hs
      rcases List.mem_cons.mp hb with h | h
      · cases h
      · exact ih hs.2 b h
    | pd1 d =>
      simp only [safe] at hs
      rcases List.mem_cons.mp hb with h | h
      · cases h
      · exact ih hs b h
    | pd2 d =>
      simp only [safe, Bool.and_eq_true] at hs
      rcases List.mem_cons.mp hb with h | h
      · cases h
      · exact ih hs.2 b h
    | pd4 d =>
      simp only [safe, Bool.and_eq_true] at hs
      rcases List.mem_cons.mp hb with h | h
      · cases h
      · exact ih hs.2 b h
    | trunc rest => simp [safe] at hs

theorem printToks_clean {T : Tables} (G : GoodTables T) (items : List Item)
    (hn : ∀ b, Item.op b ∈ items → Named T b = true) : ∀ t ∈ printToks T items, Clean t := by
  intro t ht
  simp only [printToks, List.mem_flatMap] at ht
  obtain ⟨it, hit, htk⟩ := ht
  obtain ⟨c1, c2, c4⟩ := pdName_clean
  cases it with
  | op b =>
    simp only [itemToks, List.mem_singleton] at htk
    subst htk
    exact named_clean G b (hn b hit)
  | push d => simp only [itemToks, List.mem_singleton] at htk; subst htk; exact hexTok_clean d
  | pd1 d =>
    simp only [itemToks, List.mem_cons, List.not_mem_nil, or_false] at htk
    rcases htk with rfl | rfl | rfl
    · exact c1
    · exact hexTok_clean _
    · exact hexTok_clean _
  | pd2 d =>
    simp only [itemToks, List.mem_cons, List.not_mem_nil, or_false] at htk
    rcases htk with rfl | rfl | rfl
    · exact c2
    · exact hexTok_clean _
    · exact hexTok_clean _
  | pd4 d =>
    simp only [itemToks, List.mem_cons, List.not_mem_nil, or_false] at htk
    rcases htk with rfl | rfl | rfl
    · exact c4
    · exact hexTok_clean _
    · exact hexTok_clean _
  | trunc rest => simp [itemToks] at htk

/-- the round trip at character level, for any tables satisfying `GoodTables` -/
theorem roundTrip_safe {T : Tables} (G : GoodTables T) (items : List Item)
    (hwf : ∀ it ∈ items, it.wf = true) (hs : safe T 0 items = true) :
    roundTrip T (encode items) = .ok (encode items) := by
  unfold roundTrip parseString
  rw [printString_encode T items hwf, splitSep_joinSp _ (printToks_clean G items (safe_named hs))]
  obtain ⟨cs, h1, h2⟩ := parse_printToks G items 0 hwf hs
  rw [h1]
  simp only [h2]

theorem goodTables_pinned : GoodTables pinned where
  named_clean := by decide +kernel
  pd1 := by decide +kernel
  pd2 := by decide +kernel
  pd4 := by decide +kernel
  keys := by decide +kernel


/-! ### every script is the encoding of its items -/

def Item.isTrunc : Item → Bool
  | .trunc _ => true
  | _ => false

theorem byte_eq_of_toNat {b : UInt8} {n : Nat} (h : b.toNat = n) : b = UInt8.ofNat n := by
  subst h; simp

theorem le1 (l : UInt8) : natToLEn 1 l.toNat = [l] := by
  have := natToLEn_leToNat [l]; simpa [leToNat] using this
theorem le2 (l0 l1 : UInt8) : natToLEn 2 (l0.toNat + l1.toNat * 256) = [l0, l1] := by
  have := natToLEn_leToNat [l0, l1]
  have e : leToNat [l0, l1] = l0.toNat + l1.toNat * 256 := by simp [leToNat]; omega
  rw [e] at this; exact this
theorem le4 (l0 l1 l2 l3 : UInt8) :
    natToLEn 4 (l0.toNat + l1.toNat * 256 + l2.toNat * 65536 + l3.toNat * 16777216) = [l0, l1, l2, l3] := by
  have := natToLEn_leToNat [l0, l1, l2, l3]
  have e : leToNat [l0, l1, l2, l3] = l0.toNat + l1.toNat * 256 + l2.toNat * 65536 + l3.toNat * 16777216 := by
    simp [leToNat]; omega
  rw [e] at this; exact this

/-- the three facts about one turn of the lexer -/
def StepOk (s : Bytes) (x : Item × Bytes) : Prop :=
  x.1.bytes ++ x.2 = s ∧ (x.1.wf = true ∨ Item.isTrunc x.1 = true) ∧ x.2.length < s.length

theorem stepOk_trunc (b : UInt8) (r : Bytes) : StepOk (b :: r) (.trunc (b :: r), []) :=
  ⟨by simp [Item.bytes], Or.inr rfl, by simp⟩

theorem stepOk_take (s pre r : Bytes) (n : Nat) (mk : Bytes → Item) (hn : n ≤ r.length)
    (hs : s = pre ++ r) (hpre : 1 ≤ pre.length) (hb : (mk (r.take n)).bytes = pre ++ r.take n)
    (hwf : (mk (r.take n)).wf = true) : StepOk s (mk (r.take n), r.drop n) := by
  refine ⟨?_, Or.inl hwf, ?_⟩
  · simp only [hb, hs, List.append_assoc, List.take_append_drop]
  · simp only [hs, List.length_append, List.length_drop]; omega

theorem lexOne_spec (b : UInt8) (r : Bytes) : StepOk (b :: r) (lexOne (b :: r)) := by
  have hb := b.toNat_lt
  unfold lexOne
  simp only []
  split
  · rename_i h
    split
    · rename_i hn
      refine stepOk_take _ [b] r b.toNat Item.push hn rfl (by simp) ?_ ?_
      · simp [Item.bytes, List.length_take, Nat.min_eq_left hn]
      · simp [Item.wf, List.length_take, Nat.min_eq_left hn]; omega
    · exact stepOk_trunc b r
  · split
    · rename_i h76
      have e : b = 76 := byte_eq_of_toNat h76
      subst e
      split
      · rename_i l r'
        have hl := l.toNat_lt
        split
        · rename_i hn
          refine stepOk_take _ [76, l] r' l.toNat Item.pd1 hn rfl (by simp) ?_ ?_
          · simp [Item.bytes, List.length_take, Nat.min_eq_left hn, le1]
          · simp [Item.wf, List.length_take, Nat.min_eq_left hn]; omega
        · exact stepOk_trunc _ _
      · exact stepOk_trunc _ _
    · split
      · rename_i _ h77
        have e : b = 77 := byte_eq_of_toNat h77
        subst e
        split
        · rename_i l0 l1 r'
          have hl0 := l0.toNat_lt
          have hl1 := l1.toNat_lt
          split
          · rename_i hn
            refine stepOk_take _ [77, l0, l1] r' _ Item.pd2 hn rfl (by simp) ?_ ?_
            · simp [Item.bytes, List.length_take, Nat.min_eq_left hn, le2]
            · simp [Item.wf, List.length_take, Nat.min_eq_left hn]; omega
          · exact stepOk_trunc _ _
        · exact stepOk_trunc _ _
      · split
        · rename_i _ _ h78
          have e : b = 78 := byte_eq_of_toNat h78
          subst e
          split
          · rename_i l0 l1 l2 l3 r'
            have hl0 := l0.toNat_lt
            have hl1 := l1.toNat_lt
            have hl2 := l2.toNat_lt
            have hl3 := l3.toNat_lt
            split
            · rename_i hn
              refine stepOk_take _ [78, l0, l1, l2, l3] r' _ Item.pd4 hn rfl (by simp) ?_ ?_
              · simp [Item.bytes, List.length_take, Nat.min_eq_left hn, le4]
              · simp [Item.wf, List.length_take, Nat.min_eq_left hn]; omega
            · exact stepOk_trunc _ _
          · exact stepOk_trunc _ _
        · refine ⟨by simp [Item.bytes], Or.inl ?_, by simp⟩
          simp [Item.wf]; omega

theorem lexFuel_spec (f : Nat) (s : Bytes) (hf : s.length ≤ f) :
    encode (lexFuel f s) = s ∧ ∀ it ∈ lexFuel f s, it.wf = true ∨ Item.isTrunc it = true := by
  induction f generalizing s with
  | zero =>
    have : s = [] := List.eq_nil_of_length_eq_zero (by omega)
    subst this; simp [lexFuel, encode]
  | succ f ih =>
    cases s with
    | nil => simp [lexFuel, encode]
    | cons b r =>
      obtain ⟨h1, h2, h3⟩ := lexOne_spec b r
      obtain ⟨i1, i2⟩ := ih (lexOne (b :: r)).2 (by simp only [List.length_cons] at hf h3; omega)
      simp only [lexFuel]
      refine ⟨?_, ?_⟩
      · rw [encode_cons, i1, h1]
      · intro it hit
        rcases List.mem_cons.mp hit with e | e
        · subst e; exact h2
        · exact i2 it e

theorem encode_lex (s : Bytes) : encode (lex s) = s := (lexFuel_spec _ s (Nat.le_refl _)).1

theorem safe_no_trunc {T : Tables} {k : Nat} {items : List Item} (hs : safe T k items = true) :
    ∀ it ∈ items, Item.isTrunc it = false := by
  induction items generalizing k with
  | nil => intro it h; simp at h
  | cons x r ih =>
    intro it hit
    cases x with
    | trunc rest => simp [safe] at hs
    | op b =>
      simp only [safe, Bool.and_eq_true] at hs
      rcases List.mem_cons.mp hit with e | e
      · subst e; rfl
      · exact ih hs.2 it e
    | push d =>
      simp only [safe, Bool.and_eq_true] at hs
      rcases List.mem_cons.mp hit with e | e
      · subst e; rfl
      · exact ih hs.2 it e
    | pd1 d =>
      simp only [safe] at hs
      rcases List.mem_cons.mp hit with e | e
      · subst e; rfl
      · exact ih hs it e
    | pd2 d =>
      simp only [safe, Bool.and_eq_true] at hs
      rcases List.mem_cons.mp hit with e | e
      · subst e; rfl
      · exact ih hs.2 it e
    | pd4 d =>
      simp only [safe, Bool.and_eq_true] at hs
      rcases List.mem_cons.mp hit with e | e
      · subst e; rfl
      · exact ih hs.2 it e

/-- the round trip stated over raw scripts -/
theorem roundTrip_script {T : Tables} (G : GoodTables T) (s : Bytes) (hs : safe T 0 (lex s) = true) :
    roundTrip T s = .ok s := by
  have hwf : ∀ it ∈ lex s, it.wf = true := by
    intro it hit
    rcases (lexFuel_spec _ s (Nat.le_refl _)).2 it hit with h | h
    · exact h
    · have := safe_no_trunc hs it hit; rw [this] at h; cases h
  have := roundTrip_safe G (lex s) hwf hs
  rwa [encode_lex] at this


end CG.Proofs.ScriptText

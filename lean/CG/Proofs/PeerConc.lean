import CG.Model.PeerConc
/-!
Invariants of the interleaving model of the connected peer (`CG.Model.PeerConc`), preserved by
every step of every thread; property theorems are in `CG.Props.C12`.
-/
namespace CG.Proofs.PeerConc
open CG CG.Model.PeerConc
open CG.Model.Peer (Output Msg SendErr Wire delivered pongs pingNonce)

/-! ### Log lemmas -/

theorem afterDisc_append_mem (os : List Output) (x : List Output)
    (h : Output.emitDisconnected ∈ os) : afterDisc (os ++ x) = afterDisc os ++ x := by
  induction os with
  | nil => simp at h
  | cons o rest ih =>
    cases o <;> simp_all [afterDisc]

theorem afterDisc_append_not_mem (os : List Output) (x : List Output)
    (h : Output.emitDisconnected ∉ os) : afterDisc (os ++ x) = afterDisc x := by
  induction os with
  | nil => simp
  | cons o rest ih =>
    cases o <;> simp_all [afterDisc]

theorem afterDisc_not_mem (os : List Output) (h : Output.emitDisconnected ∉ os) : afterDisc os = [] := by
  have := afterDisc_append_not_mem os [] h
  simpa [afterDisc] using this

theorem late_not_mem (os : List Output) (h : Output.emitDisconnected ∉ os) : late os = 0 := by
  simp [late, afterDisc_not_mem os h, delivered]

theorem late_append_mem (os x : List Output) (h : Output.emitDisconnected ∈ os) :
    late (os ++ x) = late os + (delivered x).length := by
  simp [late, afterDisc_append_mem os x h, delivered, List.filterMap_append]

theorem late_append_not_mem (os x : List Output) (h : Output.emitDisconnected ∉ os) :
    late (os ++ x) = late x := by
  simp [late, afterDisc_append_not_mem os x h]

theorem countDisc_append (os x : List Output) : countDisc (os ++ x) = countDisc os + countDisc x := by
  simp [countDisc, List.filter_append]

theorem countDisc_pos_iff (os : List Output) : 0 < countDisc os ↔ Output.emitDisconnected ∈ os := by
  induction os with
  | nil => simp [countDisc]
  | cons o rest ih =>
    by_cases ho : o = .emitDisconnected
    · subst ho; simp [countDisc]
    · have : (o == Output.emitDisconnected) = false := by simpa using ho
      have h2 : countDisc (o :: rest) = countDisc rest := by simp [countDisc, this]
      rw [h2, ih]; simp; intro h; exact absurd h.symm ho


/-! ### Invariant 1: who may be past the swap, and the single-shot event -/

structure Inv1 (s : St) : Prop where
  cnt : countDisc s.out ≤ 1
  fired : s.discFired = true ↔ Output.emitDisconnected ∈ s.out
  firedFlag : s.discFired = true → s.flag = false
  shutFlag : s.shut = true → s.flag = false
  rpc : ∀ k, s.r = .disc k → 1 ≤ k → s.flag = false
  lpc : ∀ t ∈ s.locals, ∀ k ret, t.pc = .disc k ret → 1 ≤ k → s.flag = false

theorem inv1_init (remote : List RemoteEv) (progs : List (List LOp)) : Inv1 (init remote progs) := by
  refine ⟨by simp [init, countDisc], by simp [init], by simp [init], by simp [init], by simp [init], ?_⟩
  intro t ht k ret hpc
  simp [init] at ht
  obtain ⟨p, _, rfl⟩ := ht
  simp at hpc

theorem discStep_some {s : St} {tid k : Nat} {p : St × Bool} (h : discStep s tid k = some p) : p = discEff s tid k := by
  unfold discStep at h
  split at h
  · cases h
  · cases h; rfl

/-- effect of one `disconnect()` step on the shared fields -/
theorem discStep_inv1 (s : St) (tid k : Nat) (h : Inv1 s) (hk : 1 ≤ k → s.flag = false) :
    let s' := (discEff s tid k).1
    countDisc s'.out ≤ 1 ∧ (s'.discFired = true ↔ Output.emitDisconnected ∈ s'.out) ∧
    (s'.discFired = true → s'.flag = false) ∧ (s'.shut = true → s'.flag = false) ∧
    (s.flag = false → s'.flag = false) ∧ s'.r = s.r ∧ s'.locals = s.locals ∧ s'.remote = s.remote ∧
    ((discEff s tid k).2 = false → s'.flag = false) := by
  match k with
  | 0 => simp [discEff]; exact ⟨h.cnt, h.fired⟩
  | 1 =>
    have hf := hk (by omega)
    simp [discEff, hf]; exact ⟨h.cnt, h.fired⟩
  | k + 2 =>
    have hf := hk (by omega)
    simp only [discEff]
    by_cases hd : s.discFired = true
    · simp [hd, hf]; exact ⟨h.cnt, h.fired.mp hd⟩
    · have hd' : s.discFired = false := by simpa using hd
      have hn : Output.emitDisconnected ∉ s.out := fun hm => hd (h.fired.mpr hm)
      have hc : countDisc s.out = 0 := by
        have := (countDisc_pos_iff s.out)
        by_cases h0 : 0 < countDisc s.out
        · exact absurd (this.mp h0) hn
        · omega
      have h1 : countDisc (s.out ++ [Output.emitDisconnected]) = 1 := by
        rw [countDisc_append, hc]; simp [countDisc]
      simp [hd', hf, h1]


/-- a step that leaves flag / shut / event untouched and logs no disconnected event -/
theorem Inv1.of_same {s s' : St} (h : Inv1 s) (x : List Output)
    (hflag : s'.flag = s.flag) (hshut : s'.shut = s.shut) (hfired : s'.discFired = s.discFired)
    (hout : s'.out = s.out ++ x) (hx : Output.emitDisconnected ∉ x)
    (hr : ∀ k, s'.r = .disc k → 1 ≤ k → s.flag = false)
    (hl : ∀ t ∈ s'.locals, ∀ k ret, t.pc = .disc k ret → 1 ≤ k → s.flag = false) : Inv1 s' := by
  have hcx : countDisc x = 0 := by
    have := countDisc_pos_iff x
    by_cases h0 : 0 < countDisc x
    · exact absurd (this.mp h0) hx
    · omega
  refine ⟨?_, ?_, ?_, ?_, ?_, ?_⟩
  · rw [hout, countDisc_append, hcx]; simpa using h.cnt
  · rw [hfired, hout, h.fired]; simp [hx]
  · rw [hfired, hflag]; exact h.firedFlag
  · rw [hshut, hflag]; exact h.shutFlag
  · intro k hk h1; rw [hflag]; exact hr k hk h1
  · intro t ht k ret hk h1; rw [hflag]; exact hl t ht k ret hk h1

theorem stepR_inv1 (s s' : St) (h : Inv1 s) (hs : stepR s = some s') : Inv1 s' := by
  have keep : ∀ t ∈ s.locals, ∀ k ret, t.pc = .disc k ret → 1 ≤ k → s.flag = false :=
    fun t ht k ret hk h1 => h.lpc t ht k ret hk h1
  unfold stepR at hs
  split at hs
  · -- read
    split at hs
    · cases hs; exact h.of_same [] rfl rfl rfl (by simp) (by simp) (by simp) keep
    · split at hs
      · cases hs; exact h.of_same [] rfl rfl rfl (by simp) (by simp) (by simp) keep
      · cases hs
  · -- test
    split at hs
    · cases hs; exact h.of_same [] rfl rfl rfl (by simp) (by simp) (by simp) keep
    · split at hs <;> cases hs <;>
        exact h.of_same [] rfl rfl rfl (by simp) (by simp) (by simp) keep
  · -- handle
    split at hs
    · split at hs
      · cases hs
      · split at hs
        · cases hs; exact h.of_same [_] rfl rfl rfl rfl (by simp) (by simp) keep
        · cases hs; exact h.of_same [] rfl rfl rfl (by simp) (by simp) (by simp) keep
    · cases hs; exact h.of_same [] rfl rfl rfl (by simp) (by simp) (by simp) keep
  · -- publish
    cases hs; exact h.of_same [_] rfl rfl rfl rfl (by simp) (by simp) keep
  · -- disc k
    rename_i k hr
    split at hs
    · cases hs
    · rename_i s1 fin hd
      have e := discStep_some hd
      have e1 : s1 = (discEff s 0 k).1 := by rw [← e]
      have e2 : fin = (discEff s 0 k).2 := by rw [← e]
      subst e1 e2
      have hk := h.rpc k hr
      have d := discStep_inv1 s 0 k h hk
      cases hs
      obtain ⟨d1, d2, d3, d4, d5, d6, d7, d8, d9⟩ := d
      refine ⟨d1, d2, d3, d4, ?_, ?_⟩
      · intro k' hk' h1
        simp only at hk'
        split at hk'
        · cases hk'
        · exact d9 (by rename_i hne; simpa using hne)
      · intro t ht k' ret hk' h1
        simp only at ht
        rw [d7] at ht
        by_cases hf : s.flag = false
        · exact d5 hf
        · have := h.lpc t ht k' ret hk' h1; exact absurd this hf
  · cases hs

theorem stepL_inv1 (s s' : St) (i : Nat) (t t' : LThread) (h : Inv1 s) (ht : s.locals[i]? = some t)
    (hs : stepL s (i + 1) t = some (s', t')) : Inv1 { s' with locals := s'.locals.set i t' } := by
  have hmem : t ∈ s.locals := List.mem_of_getElem? ht
  -- the generic argument for steps that do not touch flag / shut / event
  have same : ∀ (x : List Output), s'.flag = s.flag → s'.shut = s.shut → s'.discFired = s.discFired →
      s'.out = s.out ++ x → Output.emitDisconnected ∉ x → s'.r = s.r → s'.locals = s.locals →
      (∀ k ret, t'.pc = .disc k ret → 1 ≤ k → s.flag = false) →
      Inv1 { s' with locals := s'.locals.set i t' } := by
    intro x h1 h2 h3 h4 h5 h6 h7 h8
    refine h.of_same x h1 h2 h3 h4 h5 ?_ ?_
    · intro k hk; simp only at hk; rw [h6] at hk; exact h.rpc k hk
    · intro u hu k ret hk hk1
      simp only at hu
      rcases List.mem_or_eq_of_mem_set hu with hu | hu
      · rw [h7] at hu; exact h.lpc u hu k ret hk hk1
      · subst hu; exact h8 k ret hk hk1
  unfold stepL at hs
  split at hs
  · -- idle
    split at hs
    · cases hs
    · cases hs; exact same [] rfl rfl rfl (by simp) (by simp) rfl rfl (by intro k ret hk h1; simp at hk; omega)
    · split at hs
      · cases hs; exact same [_] rfl rfl rfl rfl (by simp) rfl rfl (by intro k ret hk; simp at hk)
      · cases hs; exact same [] rfl rfl rfl (by simp) (by simp) rfl rfl (by intro k ret hk; simp at hk)
  · -- write
    split at hs
    · cases hs
    · split at hs
      · cases hs; exact same [_, _] rfl rfl rfl rfl (by simp) rfl rfl (by intro k ret hk; simp at hk)
      · cases hs; exact same [] rfl rfl rfl (by simp) (by simp) rfl rfl (by intro k ret hk h1; simp at hk; omega)
  · -- disc k ret
    rename_i k ret hpc
    split at hs
    · cases hs
    · rename_i s1 fin hd
      have e := discStep_some hd
      have e1 : s1 = (discEff s (i + 1) k).1 := by rw [← e]
      have e2 : fin = (discEff s (i + 1) k).2 := by rw [← e]
      subst e1 e2
      have hk := h.lpc t hmem k ret hpc
      have d := discStep_inv1 s (i + 1) k h hk
      obtain ⟨d1, d2, d3, d4, d5, d6, d7, d8, d9⟩ := d
      have lpc' : ∀ (sx : St) (tx : LThread), sx.flag = (discEff s (i + 1) k).1.flag → sx.locals = (discEff s (i + 1) k).1.locals →
          (∀ k' ret', tx.pc = .disc k' ret' → 1 ≤ k' → (discEff s (i + 1) k).1.flag = false) →
          ∀ u ∈ sx.locals.set i tx, ∀ k' ret', u.pc = .disc k' ret' → 1 ≤ k' → sx.flag = false := by
        intro sx tx hfl hlo htx u hu k' ret' hk' h1
        rw [hfl]
        rcases List.mem_or_eq_of_mem_set hu with hu | hu
        · rw [hlo, d7] at hu
          by_cases hf : s.flag = false
          · exact d5 hf
          · exact absurd (h.lpc u hu k' ret' hk' h1) hf
        · subst hu; exact htx k' ret' hk' h1
      have rpc' : ∀ k', (discEff s (i + 1) k).1.r = .disc k' → 1 ≤ k' → (discEff s (i + 1) k).1.flag = false := by
        intro k' hk' h1; rw [d6] at hk'
        by_cases hf : s.flag = false
        · exact d5 hf
        · exact absurd (h.rpc k' hk' h1) hf
      split at hs
      · -- finished
        split at hs
        · cases hs
          refine ⟨?_, ?_, d3, d4, rpc', ?_⟩
          · simp only; rw [countDisc_append]; simpa [countDisc] using d1
          · simp only; rw [d2]; simp
          · exact lpc' _ _ rfl rfl (by intro k' ret' hk'; simp at hk')
        · cases hs
          refine ⟨d1, d2, d3, d4, rpc', ?_⟩
          exact lpc' _ _ rfl rfl (by intro k' ret' hk'; simp at hk')
      · cases hs
        rename_i hfin
        refine ⟨d1, d2, d3, d4, rpc', ?_⟩
        exact lpc' _ _ rfl rfl (by intro k' ret' _ _; exact d9 (by simpa using hfin))

theorem step_inv1 (s s' : St) (tid : Nat) (h : Inv1 s) (hs : step s tid = some s') : Inv1 s' := by
  unfold step at hs
  split at hs
  · exact stepR_inv1 s s' h hs
  · rename_i i
    split at hs
    · cases hs
    · rename_i t ht
      split at hs
      · cases hs
      · rename_i s1 t1 h1
        cases hs
        exact stepL_inv1 s s1 i t t1 h ht h1

theorem run_inv1 (s : St) (sched : List Nat) (h : Inv1 s) : Inv1 (run s sched) := by
  induction sched generalizing s with
  | nil => exact h
  | cons tid rest ih =>
    simp only [run]
    split
    · rename_i s' hs; exact ih s' (step_inv1 s s' tid h hs)
    · exact ih s h


/-! ### Invariant 2: at most one delivery can follow the disconnected event -/

theorem delivered_afterDisc_le (x : List Output) : (delivered (afterDisc x)).length ≤ (delivered x).length := by
  induction x with
  | nil => simp [afterDisc]
  | cons o rest ih =>
    cases o <;> simp [afterDisc, delivered, List.filterMap_cons] at ih ⊢ <;> omega

theorem late_append_le (os x : List Output) : late (os ++ x) ≤ late os + (delivered x).length := by
  by_cases h : Output.emitDisconnected ∈ os
  · rw [late_append_mem os x h]; exact Nat.le_refl _
  · rw [late_append_not_mem os x h]
    have := delivered_afterDisc_le x
    simp only [late]; omega

theorem Inv1.late_zero {s : St} (h : Inv1 s) (hf : s.flag = true) : late s.out = 0 := by
  apply late_not_mem
  intro hm
  have := h.firedFlag (h.fired.mpr hm)
  simp [hf] at this

def Inv2 (s : St) : Prop := late s.out + inflight s.r ≤ 1

theorem inv2_init (remote : List RemoteEv) (progs : List (List LOp)) : Inv2 (init remote progs) := by
  simp [Inv2, init, late, afterDisc, delivered, inflight]

theorem inv2_of {s s' : St} (h2 : Inv2 s) (x : List Output) (hout : s'.out = s.out ++ x)
    (hx : delivered x = []) (hr : inflight s'.r ≤ inflight s.r) : Inv2 s' := by
  unfold Inv2 at *
  have := late_append_le s.out x
  rw [hout]; rw [hx] at this; simp at this; omega

theorem discStep_late (s : St) (tid k : Nat) : late (discEff s tid k).1.out ≤ late s.out ∧ (discEff s tid k).1.r = s.r := by
  match k with
  | 0 => simp [discEff]
  | 1 => simp [discEff]
  | k + 2 =>
    simp only [discEff]
    split
    · simp
    · have := late_append_le s.out [Output.emitDisconnected]
      simp [delivered] at this
      exact ⟨this, trivial⟩

theorem stepR_inv2 (s s' : St) (h1 : Inv1 s) (h2 : Inv2 s) (hs : stepR s = some s') : Inv2 s' := by
  unfold stepR at hs
  split at hs
  · rename_i hr
    split at hs
    · cases hs; exact inv2_of h2 [] (by simp) rfl (by simp [inflight])
    · split at hs
      · cases hs; exact inv2_of h2 [] (by simp) rfl (by simp [inflight])
      · cases hs
  · rename_i ev hr
    split at hs
    · cases hs; exact inv2_of h2 [] (by simp) rfl (by simp [inflight])
    · rename_i hf
      have hf' : s.flag = true := by simpa using hf
      have hz := h1.late_zero hf'
      split at hs <;> cases hs <;> simp [Inv2, hz, inflight]
  · rename_i m hr
    split at hs
    · split at hs
      · cases hs
      · split at hs
        · cases hs; exact inv2_of h2 [_] rfl (by simp [delivered]) (by simp [inflight, hr])
        · cases hs; exact inv2_of h2 [] (by simp) rfl (by simp [inflight])
    · cases hs; exact inv2_of h2 [] (by simp) rfl (by simp [inflight, hr])
  · rename_i m hr
    cases hs
    unfold Inv2 at *
    have := late_append_le s.out [Output.deliver m]
    simp [delivered] at this
    simp [hr, inflight] at h2 ⊢
    omega
  · rename_i k hr
    split at hs
    · cases hs
    · rename_i s1 fin hd
      have e := discStep_some hd
      have e1 : s1 = (discEff s 0 k).1 := by rw [← e]
      have e2 : fin = (discEff s 0 k).2 := by rw [← e]
      subst e1 e2
      cases hs
      have := discStep_late s 0 k
      unfold Inv2 at *
      simp only
      rw [hr] at h2
      simp only [inflight] at h2
      have hi : inflight (if (discEff s 0 k).2 = true then RPc.dead else RPc.disc (k + 1)) = 0 := by
        split <;> rfl
      rw [hi]; omega
  · cases hs

theorem stepL_inv2 (s s' : St) (i : Nat) (t t' : LThread) (h2 : Inv2 s)
    (hs : stepL s (i + 1) t = some (s', t')) : Inv2 { s' with locals := s'.locals.set i t' } := by
  unfold stepL at hs
  split at hs
  · split at hs
    · cases hs
    · cases hs; exact inv2_of h2 [] (by simp) rfl (Nat.le_refl _)
    · split at hs
      · cases hs; exact inv2_of h2 [_] rfl (by simp [delivered]) (Nat.le_refl _)
      · cases hs; exact inv2_of h2 [] (by simp) rfl (Nat.le_refl _)
  · split at hs
    · cases hs
    · split at hs
      · cases hs; exact inv2_of h2 [_, _] rfl (by simp [delivered]) (Nat.le_refl _)
      · cases hs; exact inv2_of h2 [] (by simp) rfl (Nat.le_refl _)
  · rename_i k ret hpc
    split at hs
    · cases hs
    · rename_i s1 fin hd
      have e := discStep_some hd
      have e1 : s1 = (discEff s (i + 1) k).1 := by rw [← e]
      have e2 : fin = (discEff s (i + 1) k).2 := by rw [← e]
      subst e1 e2
      have d := discStep_late s (i + 1) k
      split at hs
      · split at hs
        · cases hs
          unfold Inv2 at *
          simp only
          have := late_append_le (discEff s (i + 1) k).1.out [Output.sendResult (some ‹SendErr›)]
          simp [delivered] at this
          rw [d.2]; omega
        · cases hs
          unfold Inv2 at *
          simp only
          rw [d.2]; omega
      · cases hs
        unfold Inv2 at *
        simp only
        rw [d.2]; omega

theorem step_inv2 (s s' : St) (tid : Nat) (h1 : Inv1 s) (h2 : Inv2 s) (hs : step s tid = some s') : Inv2 s' := by
  unfold step at hs
  split at hs
  · exact stepR_inv2 s s' h1 h2 hs
  · rename_i i
    split at hs
    · cases hs
    · rename_i t ht
      split at hs
      · cases hs
      · rename_i s1 t1 hh
        cases hs
        exact stepL_inv2 s s1 i t t1 h2 hh

theorem run_inv12 (s : St) (sched : List Nat) (h1 : Inv1 s) (h2 : Inv2 s) :
    Inv1 (run s sched) ∧ Inv2 (run s sched) := by
  induction sched generalizing s with
  | nil => exact ⟨h1, h2⟩
  | cons tid rest ih =>
    simp only [run]
    split
    · rename_i s' hs; exact ih s' (step_inv1 s s' tid h1 hs) (step_inv2 s s' tid h1 h2 hs)
    · exact ih s h1 h2


/-! ### Invariant 3: deliveries are taken in order from what arrived, each at most once -/

/-- delivered so far, then the message in hand, then what the remote will still send -/
def track (s : St) : List Msg := delivered s.out ++ pending s.r ++ frames s.remote

theorem sub_drop (A p B : List Msg) : (A ++ [] ++ B).Sublist (A ++ p ++ B) := by
  simp only [List.append_nil, List.append_assoc]
  exact List.Sublist.append (List.Sublist.refl A) (List.sublist_append_right p B)

theorem delivered_append (a b : List Output) : delivered (a ++ b) = delivered a ++ delivered b := by
  simp [delivered, List.filterMap_append]

theorem discStep_track (s : St) (tid k : Nat) :
    delivered (discEff s tid k).1.out = delivered s.out ∧ (discEff s tid k).1.remote = s.remote := by
  match k with
  | 0 => simp [discEff]
  | 1 => simp [discEff]
  | k + 2 =>
    simp only [discEff]
    split
    · simp
    · simp [delivered_append, delivered]

theorem stepR_track (s s' : St) (hs : stepR s = some s') : (track s').Sublist (track s) := by
  unfold stepR at hs
  split at hs
  · rename_i hr
    split at hs
    · rename_i ev rest hrem
      cases hs
      cases ev <;> simp [track, hr, hrem, pending, frames]
    · split at hs
      · cases hs; simp [track, hr, pending]
      · cases hs
  · rename_i ev hr
    split at hs
    · cases hs; simp only [track, hr, pending]; exact sub_drop _ _ _
    · split at hs <;> cases hs <;> simp [track, hr, pending]
  · rename_i m hr
    split at hs
    · split at hs
      · cases hs
      · split at hs
        · cases hs; simp [track, hr, pending, delivered_append, delivered]
        · cases hs; simp only [track, hr, pending]; exact sub_drop _ _ _
    · cases hs; simp [track, hr, pending]
  · rename_i m hr
    cases hs; simp [track, hr, pending, delivered_append, delivered]
  · rename_i k hr
    split at hs
    · cases hs
    · rename_i s1 fin hd
      have e := discStep_some hd
      have e1 : s1 = (discEff s 0 k).1 := by rw [← e]
      have e2 : fin = (discEff s 0 k).2 := by rw [← e]
      subst e1 e2
      cases hs
      have d := discStep_track s 0 k
      have hp : pending (if (discEff s 0 k).2 = true then RPc.dead else RPc.disc (k + 1)) = [] := by
        split <;> rfl
      have hp0 : pending (RPc.disc k) = [] := rfl
      simp only [track, hr, d.1, d.2, hp, hp0]
      exact List.Sublist.refl _
  · cases hs

theorem delivered_nondeliver (x : List Output) (h : ∀ o ∈ x, ∀ m, o ≠ Output.deliver m) : delivered x = [] := by
  induction x with
  | nil => rfl
  | cons o rest ih =>
    have hr := ih (fun o' ho' => h o' (List.mem_cons_of_mem _ ho'))
    cases o with
    | deliver m => exact absurd rfl (h _ (List.mem_cons_self) m)
    | _ => simpa [delivered] using hr

theorem track_of {s s' : St} (x : List Output) (hout : s'.out = s.out ++ x)
    (hx : ∀ o ∈ x, ∀ m, o ≠ Output.deliver m) (hr : s'.r = s.r) (hrem : s'.remote = s.remote) :
    track s' = track s := by
  simp only [track, hout, hr, hrem, delivered_append, delivered_nondeliver x hx, List.append_nil]

theorem stepL_track (s s' : St) (i : Nat) (t t' : LThread) (hs : stepL s (i + 1) t = some (s', t')) :
    track { s' with locals := s'.locals.set i t' } = track s := by
  unfold stepL at hs
  split at hs
  · split at hs
    · cases hs
    · cases hs; rfl
    · split at hs
      · cases hs; exact track_of [_] rfl (by simp) rfl rfl
      · cases hs; rfl
  · split at hs
    · cases hs
    · split at hs
      · cases hs; exact track_of [_, _] rfl (by simp) rfl rfl
      · cases hs; rfl
  · rename_i k ret hpc
    split at hs
    · cases hs
    · rename_i s1 fin hd
      have e := discStep_some hd
      have e1 : s1 = (discEff s (i + 1) k).1 := by rw [← e]
      have e2 : fin = (discEff s (i + 1) k).2 := by rw [← e]
      subst e1 e2
      have d := discStep_track s (i + 1) k
      have dr := (discStep_late s (i + 1) k).2
      have base : track (discEff s (i + 1) k).1 = track s := by simp only [track, d.1, d.2, dr]
      split at hs
      · split at hs
        · cases hs
          rw [← base]
          exact track_of [_] rfl (by simp) rfl rfl
        · cases hs; exact base
      · cases hs; exact base

theorem step_track (s s' : St) (tid : Nat) (hs : step s tid = some s') : (track s').Sublist (track s) := by
  unfold step at hs
  split at hs
  · exact stepR_track s s' hs
  · rename_i i
    split at hs
    · cases hs
    · rename_i t ht
      split at hs
      · cases hs
      · rename_i s1 t1 hh
        cases hs
        rw [stepL_track s s1 i t t1 hh]
        exact List.Sublist.refl _

theorem run_track (s : St) (sched : List Nat) : (track (run s sched)).Sublist (track s) := by
  induction sched generalizing s with
  | nil => exact List.Sublist.refl _
  | cons tid rest ih =>
    simp only [run]
    split
    · rename_i s' hs; exact (ih s').trans (step_track s s' tid hs)
    · exact ih s


/-! ### Invariant K: without local `disconnect()` calls only the receive thread starts a disconnect -/

structure InvK (s : St) : Prop where
  quiet : Quiet s
  tru : s.flag = true → s.shut = false ∧ (∀ t ∈ s.locals, ∀ k ret, t.pc ≠ .disc k ret) ∧ (∀ k, s.r = .disc k → k = 0)
  fls : s.flag = false → s.r = .dead ∨ ∃ k, s.r = .disc k
  late0 : late s.out = 0

theorem invK_init (remote : List RemoteEv) (progs : List (List LOp))
    (hq : ∀ p ∈ progs, p.all quietOp = true) : InvK (init remote progs) := by
  refine ⟨?_, ?_, by simp [init], by simp [init, late, afterDisc, delivered]⟩
  · intro t ht
    simp [init] at ht
    obtain ⟨p, hp, rfl⟩ := ht
    simp [quietThread, hq p hp]
  · intro _
    refine ⟨by simp [init], ?_, by simp [init]⟩
    intro t ht k ret
    simp [init] at ht
    obtain ⟨p, hp, rfl⟩ := ht
    simp

theorem late_append_nondeliver (os x : List Output) (h0 : late os = 0)
    (hx : ∀ o ∈ x, ∀ m, o ≠ Output.deliver m) : late (os ++ x) = 0 := by
  have := late_append_le os x
  rw [delivered_nondeliver x hx] at this
  simp at this; omega

theorem discStep_flag_false (s : St) (tid k : Nat) (hf : s.flag = false) : (discEff s tid k).1.flag = false := by
  match k with
  | 0 => simp [discEff]
  | 1 => simp [discEff, hf]
  | k + 2 => simp [discEff, hf]

theorem discStep_locals (s : St) (tid k : Nat) : (discEff s tid k).1.locals = s.locals := by
  match k with
  | 0 => simp [discEff]
  | 1 => simp [discEff]
  | k + 2 => simp [discEff]

theorem stepR_invK (s s' : St) (h1 : Inv1 s) (hk : InvK s) (hs : stepR s = some s') : InvK s' := by
  -- steps of the receive thread that leave flag, shut and the locals alone
  have same : ∀ (x : List Output), s'.flag = s.flag → s'.shut = s.shut → s'.locals = s.locals →
      s'.out = s.out ++ x → late (s.out ++ x) = 0 →
      (s.flag = true → ∀ k, s'.r = .disc k → k = 0) →
      (s.flag = false → s'.r = .dead ∨ ∃ k, s'.r = .disc k) → InvK s' := by
    intro x e1 e2 e3 e4 e5 e6 e7
    refine ⟨?_, ?_, ?_, ?_⟩
    · intro t ht; rw [e3] at ht; exact hk.quiet t ht
    · intro hf; rw [e1] at hf
      obtain ⟨a, b, _⟩ := hk.tru hf
      exact ⟨by rw [e2]; exact a, by rw [e3]; exact b, e6 hf⟩
    · intro hf; rw [e1] at hf; exact e7 hf
    · rw [e4]; exact e5
  have l0 := hk.late0
  have lnil : late (s.out ++ []) = 0 := by simpa using l0
  unfold stepR at hs
  split at hs
  · rename_i hr
    have hft : s.flag = true := by
      cases hf : s.flag with
      | true => rfl
      | false => rcases hk.fls hf with h | ⟨k, h⟩ <;> simp [hr] at h
    split at hs
    · cases hs; exact same [] rfl rfl rfl (by simp) lnil (by simp) (by simp [hft])
    · split at hs
      · cases hs; exact same [] rfl rfl rfl (by simp) lnil (by simp) (by simp [hft])
      · cases hs
  · rename_i ev hr
    have hft : s.flag = true := by
      cases hf : s.flag with
      | true => rfl
      | false => rcases hk.fls hf with h | ⟨k, h⟩ <;> simp [hr] at h
    split at hs
    · rename_i hc; simp [hft] at hc
    · split at hs <;> cases hs
      · exact same [] rfl rfl rfl (by simp) lnil (by simp) (by simp [hft])
      · exact same [] rfl rfl rfl (by simp) lnil (by simp) (by simp [hft])
  · rename_i m hr
    have hft : s.flag = true := by
      cases hf : s.flag with
      | true => rfl
      | false => rcases hk.fls hf with h | ⟨k, h⟩ <;> simp [hr] at h
    split at hs
    · split at hs
      · cases hs
      · split at hs
        · cases hs
          exact same [_] rfl rfl rfl rfl (late_append_nondeliver _ _ l0 (by simp)) (by simp) (by simp [hft])
        · cases hs; exact same [] rfl rfl rfl (by simp) lnil (by simp) (by simp [hft])
    · cases hs; exact same [] rfl rfl rfl (by simp) lnil (by simp) (by simp [hft])
  · rename_i m hr
    have hft : s.flag = true := by
      cases hf : s.flag with
      | true => rfl
      | false => rcases hk.fls hf with h | ⟨k, h⟩ <;> simp [hr] at h
    cases hs
    have hn : Output.emitDisconnected ∉ s.out := by
      intro hm
      have := h1.firedFlag (h1.fired.mpr hm)
      simp [hft] at this
    refine same [_] rfl rfl rfl rfl ?_ (by simp) (by simp [hft])
    rw [late_append_not_mem _ _ hn]; simp [late, afterDisc, delivered]
  · rename_i k hr
    split at hs
    · cases hs
    · rename_i s1 fin hd
      have e := discStep_some hd
      have e1 : s1 = (discEff s 0 k).1 := by rw [← e]
      have e2 : fin = (discEff s 0 k).2 := by rw [← e]
      subst e1 e2
      cases hs
      have dl := discStep_late s 0 k
      have dloc := discStep_locals s 0 k
      refine ⟨?_, ?_, ?_, ?_⟩
      · intro t ht; simp only at ht; rw [dloc] at ht; exact hk.quiet t ht
      · intro hf
        simp only at hf
        -- the flag can still be set only if it was set before and this was not the swap
        cases hfs : s.flag with
        | false => rw [discStep_flag_false s 0 k hfs] at hf; cases hf
        | true =>
          have hk0 := (hk.tru hfs).2.2 k hr
          subst hk0
          simp [discEff] at hf
      · intro _
        simp only
        split
        · exact Or.inl rfl
        · exact Or.inr ⟨_, rfl⟩
      · simp only; have := hk.late0; omega
  · cases hs

theorem quietThread_ops {t : LThread} (h : quietThread t = true) : t.ops.all quietOp = true := by
  simp only [quietThread, Bool.and_eq_true] at h; exact h.1

theorem stepL_invK (s s' : St) (i : Nat) (t t' : LThread) (h1 : Inv1 s) (hk : InvK s)
    (ht : s.locals[i]? = some t) (hs : stepL s (i + 1) t = some (s', t')) :
    InvK { s' with locals := s'.locals.set i t' } := by
  have hmem : t ∈ s.locals := List.mem_of_getElem? ht
  have hq := hk.quiet t hmem
  have hops := quietThread_ops hq
  have l0 := hk.late0
  have lnil : late (s.out ++ []) = 0 := by simpa using l0
  -- steps that leave flag, shut and the receive thread alone
  have same : ∀ (x : List Output), s'.flag = s.flag → s'.shut = s.shut → s'.locals = s.locals → s'.r = s.r →
      s'.out = s.out ++ x → late (s.out ++ x) = 0 → quietThread t' = true →
      (s.flag = true → ∀ k ret, t'.pc ≠ .disc k ret) →
      InvK { s' with locals := s'.locals.set i t' } := by
    intro x e1 e2 e3 e4 e5 e6 e7 e8
    refine ⟨?_, ?_, ?_, ?_⟩
    · intro u hu; simp only at hu
      rcases List.mem_or_eq_of_mem_set hu with hu | hu
      · rw [e3] at hu; exact hk.quiet u hu
      · subst hu; exact e7
    · intro hf; simp only at hf; rw [e1] at hf
      obtain ⟨a, b, c⟩ := hk.tru hf
      refine ⟨by simp only; rw [e2]; exact a, ?_, by simp only; rw [e4]; exact c⟩
      intro u hu k ret
      simp only at hu
      rcases List.mem_or_eq_of_mem_set hu with hu | hu
      · rw [e3] at hu; exact b u hu k ret
      · subst hu; exact e8 hf k ret
    · intro hf; simp only at hf ⊢; rw [e1] at hf; rw [e4]; exact hk.fls hf
    · simp only; rw [e5]; exact e6
  unfold stepL at hs
  split at hs
  · rename_i hpc
    split at hs
    · cases hs
    · -- a `disconnect` operation: excluded by quietness
      rename_i rest hop
      rw [hop] at hops; simp [quietOp] at hops
    · rename_i m rest hop
      rw [hop] at hops
      simp only [List.all_cons, quietOp, Bool.and_eq_true] at hops
      split at hs
      · cases hs
        exact same [_] rfl rfl rfl rfl rfl (late_append_nondeliver _ _ l0 (by simp))
          (by simp [quietThread, hops.2]) (by intro _ k ret; simp)
      · cases hs
        exact same [] rfl rfl rfl rfl (by simp) lnil (by simp [quietThread, hops.1, hops.2]) (by intro _ k ret; simp)
  · rename_i m hpc
    have hw : m.writable = true := by
      simp only [quietThread, hpc, Bool.and_eq_true] at hq; exact hq.2
    split at hs
    · cases hs
    · split at hs
      · cases hs
        exact same [_, _] rfl rfl rfl rfl rfl (late_append_nondeliver _ _ l0 (by simp))
          (by simp [quietThread, hops]) (by intro _ k ret; simp)
      · rename_i hcw
        cases hs
        refine same [] rfl rfl rfl rfl (by simp) lnil (by simp [quietThread, hops]) ?_
        intro hf k ret
        have := (hk.tru hf).1
        simp [canWrite, hw, this] at hcw
  · rename_i k ret hpc
    -- a local thread is inside `disconnect()`: the flag is already cleared
    have hff : s.flag = false := by
      cases hf : s.flag with
      | false => rfl
      | true => exact absurd hpc ((hk.tru hf).2.1 t hmem k ret)
    split at hs
    · cases hs
    · rename_i s1 fin hd
      have e := discStep_some hd
      have e1 : s1 = (discEff s (i + 1) k).1 := by rw [← e]
      have e2 : fin = (discEff s (i + 1) k).2 := by rw [← e]
      subst e1 e2
      have dfl := discStep_flag_false s (i + 1) k hff
      have dloc := discStep_locals s (i + 1) k
      have dl := discStep_late s (i + 1) k
      have hret : ret ≠ none := by
        intro h; subst h
        simp [quietThread, hpc] at hq
      have base : ∀ (sx : St) (tx : LThread), sx.flag = false → sx.locals = s.locals → sx.r = s.r →
          late sx.out = 0 → quietThread tx = true → InvK { sx with locals := sx.locals.set i tx } := by
        intro sx tx b1 b2 b3 b4 b5
        refine ⟨?_, ?_, ?_, b4⟩
        · intro u hu; simp only at hu
          rcases List.mem_or_eq_of_mem_set hu with hu | hu
          · rw [b2] at hu; exact hk.quiet u hu
          · subst hu; exact b5
        · intro hf; simp only at hf; rw [b1] at hf; cases hf
        · intro _; simp only; rw [b3]; exact hk.fls hff
      split at hs
      · split at hs
        · cases hs
          refine base _ _ dfl dloc dl.2 ?_ (by simp [quietThread, hops])
          simp only
          exact late_append_nondeliver _ _ (by have := dl.1; omega) (by simp)
        · exact absurd rfl hret
      · cases hs
        refine base _ _ dfl dloc dl.2 (by have := dl.1; omega) ?_
        cases ret with
        | none => exact absurd rfl hret
        | some e => simp [quietThread, hops]

theorem step_invK (s s' : St) (tid : Nat) (h1 : Inv1 s) (hk : InvK s) (hs : step s tid = some s') : InvK s' := by
  unfold step at hs
  split at hs
  · exact stepR_invK s s' h1 hk hs
  · rename_i i
    split at hs
    · cases hs
    · rename_i t ht
      split at hs
      · cases hs
      · rename_i s1 t1 hh
        cases hs
        exact stepL_invK s s1 i t t1 h1 hk ht hh

theorem run_invK (s : St) (sched : List Nat) (h1 : Inv1 s) (hk : InvK s) : InvK (run s sched) := by
  induction sched generalizing s with
  | nil => exact hk
  | cons tid rest ih =>
    simp only [run]
    split
    · rename_i s' hs; exact ih s' (step_inv1 s s' tid h1 hs) (step_invK s s' tid h1 hk hs)
    · exact ih s h1 hk


/-! ### Invariant W: whoever holds the `tcp_writer` mutex across steps is about to release it -/

def holderOk (s : St) : Prop :=
  match s.wlock with
  | none => True
  | some 0 => s.r = .disc 2
  | some (i + 1) => ∃ t ret, s.locals[i]? = some t ∧ t.pc = .disc 2 ret

theorem holderOk_init (remote : List RemoteEv) (progs : List (List LOp)) : holderOk (init remote progs) := by
  simp [holderOk, init]

theorem holderOk_of_eq {s s' : St} (h : holderOk s) (hw : s'.wlock = s.wlock)
    (hr : s.wlock = some 0 → s'.r = s.r)
    (hl : ∀ i, s.wlock = some (i + 1) → s'.locals[i]? = s.locals[i]?) : holderOk s' := by
  unfold holderOk at *
  rw [hw]
  cases hwl : s.wlock with
  | none => trivial
  | some x =>
    rw [hwl] at h
    cases x with
    | zero => simp only at h ⊢; rw [hr hwl]; exact h
    | succ i => simp only at h ⊢; rw [hl i hwl]; exact h

theorem holderOk_none {s : St} (h : s.wlock = none) : holderOk s := by
  unfold holderOk; rw [h]; trivial

theorem discEff_wlock (s : St) (tid k : Nat) :
    (k = 0 ∧ (discEff s tid k).1.wlock = s.wlock) ∨ (k = 1 ∧ (discEff s tid k).1.wlock = some tid) ∨
    (2 ≤ k ∧ (discEff s tid k).1.wlock = none) := by
  match k with
  | 0 => left; simp [discEff]
  | 1 => right; left; simp [discEff]
  | k + 2 => right; right; simp [discEff]

theorem discEff_fin (s : St) (tid k : Nat) : (discEff s tid k).2 = decide (2 ≤ k) := by
  match k with
  | 0 => simp [discEff]
  | 1 => simp [discEff]
  | k + 2 => simp [discEff]

theorem stepR_holderOk (s s' : St) (h : holderOk s) (hs : stepR s = some s') : holderOk s' := by
  unfold stepR at hs
  split at hs
  · rename_i hr
    have h0 : s.wlock ≠ some 0 := by
      intro hw; unfold holderOk at h; rw [hw] at h; simp only at h; rw [hr] at h; cases h
    split at hs
    · cases hs; exact holderOk_of_eq h rfl (fun hw => absurd hw h0) (fun _ _ => rfl)
    · split at hs
      · cases hs; exact holderOk_of_eq h rfl (fun hw => absurd hw h0) (fun _ _ => rfl)
      · cases hs
  · rename_i ev hr
    have h0 : s.wlock ≠ some 0 := by
      intro hw; unfold holderOk at h; rw [hw] at h; simp only at h; rw [hr] at h; cases h
    split at hs
    · cases hs; exact holderOk_of_eq h rfl (fun hw => absurd hw h0) (fun _ _ => rfl)
    · split at hs <;> cases hs <;> exact holderOk_of_eq h rfl (fun hw => absurd hw h0) (fun _ _ => rfl)
  · rename_i m hr
    have h0 : s.wlock ≠ some 0 := by
      intro hw; unfold holderOk at h; rw [hw] at h; simp only at h; rw [hr] at h; cases h
    split at hs
    · split at hs
      · cases hs
      · split at hs <;> cases hs <;> exact holderOk_of_eq h rfl (fun hw => absurd hw h0) (fun _ _ => rfl)
    · cases hs; exact holderOk_of_eq h rfl (fun hw => absurd hw h0) (fun _ _ => rfl)
  · rename_i m hr
    have h0 : s.wlock ≠ some 0 := by
      intro hw; unfold holderOk at h; rw [hw] at h; simp only at h; rw [hr] at h; cases h
    cases hs; exact holderOk_of_eq h rfl (fun hw => absurd hw h0) (fun _ _ => rfl)
  · rename_i k hr
    split at hs
    · cases hs
    · rename_i s1 fin hd
      have e := discStep_some hd
      have e1 : s1 = (discEff s 0 k).1 := by rw [← e]
      have e2 : fin = (discEff s 0 k).2 := by rw [← e]
      subst e1 e2
      cases hs
      have dloc := discStep_locals s 0 k
      rcases discEff_wlock s 0 k with ⟨hk, hw⟩ | ⟨hk, hw⟩ | ⟨hk, hw⟩
      · -- the swap: the lock is untouched, and the receive thread was not the holder (it is at `disc 0`)
        subst hk
        have h0 : s.wlock ≠ some 0 := by
          intro hw'; unfold holderOk at h; rw [hw'] at h; simp only at h; rw [hr] at h; cases h
        refine holderOk_of_eq h hw (fun hw' => absurd hw' h0) (fun i _ => ?_)
        simp only; rw [dloc]
      · subst hk
        unfold holderOk; simp only; rw [hw]
        simp [discEff_fin]
      · exact holderOk_none hw
  · cases hs

theorem stepL_holderOk (s s' : St) (i : Nat) (t t' : LThread) (h : holderOk s) (ht : s.locals[i]? = some t)
    (hs : stepL s (i + 1) t = some (s', t')) : holderOk { s' with locals := s'.locals.set i t' } := by
  -- steps of a thread that is not inside `disconnect()`: it is not the holder
  have notHolder : (∀ k ret, t.pc ≠ .disc k ret) → s.wlock ≠ some (i + 1) := by
    intro hpc hw; unfold holderOk at h; rw [hw] at h; simp only at h
    obtain ⟨u, ret, hu, hp⟩ := h
    rw [ht] at hu; cases hu; exact hpc 2 ret hp
  have other : ∀ (sx : St) (tx : LThread), sx.wlock = s.wlock → sx.r = s.r → sx.locals = s.locals →
      s.wlock ≠ some (i + 1) → holderOk { sx with locals := sx.locals.set i tx } := by
    intro sx tx e1 e2 e3 hne
    refine holderOk_of_eq h e1 (fun _ => e2) (fun j hj => ?_)
    simp only
    have hji : i ≠ j := by intro hij; subst hij; exact hne hj
    rw [e3, List.getElem?_set_ne hji]
  unfold stepL at hs
  split at hs
  · rename_i hpc
    have nh := notHolder (by intro k ret; rw [hpc]; simp)
    split at hs
    · cases hs
    · cases hs; exact other _ _ rfl rfl rfl nh
    · split at hs <;> cases hs <;> exact other _ _ rfl rfl rfl nh
  · rename_i m hpc
    have nh := notHolder (by intro k ret; rw [hpc]; simp)
    split at hs
    · cases hs
    · split at hs <;> cases hs <;> exact other _ _ rfl rfl rfl nh
  · rename_i k ret hpc
    split at hs
    · cases hs
    · rename_i s1 fin hd
      have e := discStep_some hd
      have e1 : s1 = (discEff s (i + 1) k).1 := by rw [← e]
      have e2 : fin = (discEff s (i + 1) k).2 := by rw [← e]
      subst e1 e2
      have dloc := discStep_locals s (i + 1) k
      have dr := (discStep_late s (i + 1) k).2
      have hlen : i < s.locals.length := by
        rcases Nat.lt_or_ge i s.locals.length with hlt | hge
        · exact hlt
        · rw [List.getElem?_eq_none hge] at ht; cases ht
      rcases discEff_wlock s (i + 1) k with ⟨hk, hw⟩ | ⟨hk, hw⟩ | ⟨hk, hw⟩
      · subst hk
        have nh : s.wlock ≠ some (i + 1) := by
          intro hw'; unfold holderOk at h; rw [hw'] at h; simp only at h
          obtain ⟨u, r', hu, hp⟩ := h
          rw [ht] at hu; cases hu; rw [hpc] at hp; cases hp
        have hfin : (discEff s (i + 1) 0).2 = false := by simp [discEff_fin]
        rw [hfin] at hs
        simp only [Bool.false_eq_true, if_false] at hs
        cases hs
        exact other _ _ hw dr dloc nh
      · subst hk
        have hfin : (discEff s (i + 1) 1).2 = false := by simp [discEff_fin]
        rw [hfin] at hs
        simp only [Bool.false_eq_true, if_false] at hs
        cases hs
        unfold holderOk; simp only; rw [hw]
        simp only
        refine ⟨⟨.disc 2 ret, t.ops⟩, ret, ?_, rfl⟩
        rw [dloc, List.getElem?_set_self hlen]
      · have hfin : (discEff s (i + 1) k).2 = true := by simp [discEff_fin, hk]
        rw [hfin] at hs
        simp only [if_true] at hs
        split at hs <;> cases hs <;> exact holderOk_none (by simpa using hw)

theorem step_holderOk (s s' : St) (tid : Nat) (h : holderOk s) (hs : step s tid = some s') : holderOk s' := by
  unfold step at hs
  split at hs
  · exact stepR_holderOk s s' h hs
  · rename_i i
    split at hs
    · cases hs
    · rename_i t ht
      split at hs
      · cases hs
      · rename_i s1 t1 hh
        cases hs
        exact stepL_holderOk s s1 i t t1 h ht hh

theorem run_holderOk (s : St) (sched : List Nat) (h : holderOk s) : holderOk (run s sched) := by
  induction sched generalizing s with
  | nil => exact h
  | cons tid rest ih =>
    simp only [run]
    split
    · rename_i s' hs; exact ih s' (step_holderOk s s' tid h hs)
    · exact ih s h

/-- the holder of the mutex can take its next step (it releases the mutex) -/
theorem holder_can_step (s : St) (h : holderOk s) (x : Nat) (hw : s.wlock = some x) : (step s x).isSome = true := by
  unfold holderOk at h; rw [hw] at h
  cases x with
  | zero =>
    simp only at h
    simp [step, stepR, h, discStep, discEff]
  | succ i =>
    simp only at h
    obtain ⟨t, ret, ht, hp⟩ := h
    obtain ⟨pc, ops⟩ := t
    simp only at hp; subst hp
    simp only [step, ht, stepL, discStep, discEff]
    cases ret <;> simp

end CG.Proofs.PeerConc

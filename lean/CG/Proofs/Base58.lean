import CG.Model.Base58
/-!
Helper lemmas for C09: positional numerals in any base, the leading-zero preserving conversion
`conv`, the alphabet, and the `base58` crate model.
-/
namespace CG.Proofs.Base58
open CG CG.Model.Base58

/-! ## `toDigitsLE` / `valLE` -/

theorem toDigitsAux_val (B : Nat) (hB : 2 ≤ B) (f n : Nat) (h : n ≤ f) :
    valLE B (toDigitsAux B f n) = n := by
  induction f generalizing n with
  | zero => have : n = 0 := by omega
            subst this; rfl
  | succ f ih =>
    unfold toDigitsAux
    split
    · simp [valLE, *]
    · rename_i hn
      have hlt : n / B < n := Nat.div_lt_self (by omega) (by omega)
      simp only [valLE, ih (n / B) (by omega)]
      have := Nat.div_add_mod n B
      omega

theorem toDigitsLE_val (B : Nat) (hB : 2 ≤ B) (n : Nat) : valLE B (toDigitsLE B n) = n :=
  toDigitsAux_val B hB n n (Nat.le_refl n)

theorem toDigitsAux_lt (B : Nat) (hB : 0 < B) (f n : Nat) : ∀ d ∈ toDigitsAux B f n, d < B := by
  induction f generalizing n with
  | zero => simp [toDigitsAux]
  | succ f ih =>
    unfold toDigitsAux
    split
    · simp
    · intro d hd
      simp only [List.mem_cons] at hd
      rcases hd with rfl | hd
      · exact Nat.mod_lt _ hB
      · exact ih _ d hd

theorem toDigitsLE_lt (B : Nat) (hB : 0 < B) (n : Nat) : ∀ d ∈ toDigitsLE B n, d < B :=
  toDigitsAux_lt B hB n n

/-- canonical: no most-significant zero -/
theorem toDigitsAux_getLast (B : Nat) (hB : 2 ≤ B) (f n : Nat) (h : n ≤ f) :
    (toDigitsAux B f n).getLast? ≠ some 0 := by
  induction f generalizing n with
  | zero => simp [toDigitsAux]
  | succ f ih =>
    unfold toDigitsAux
    split
    · simp
    · rename_i hn
      have hlt : n / B < n := Nat.div_lt_self (by omega) (by omega)
      have ih' := ih (n / B) (by omega)
      cases hq : toDigitsAux B f (n / B) with
      | nil =>
        -- then n / B = 0 (its value), so n % B = n ≠ 0
        have hv := toDigitsAux_val B hB f (n / B) (by omega)
        rw [hq] at hv
        simp only [valLE] at hv
        have : n % B = n := by
          have h2 := Nat.div_add_mod n B
          rw [← hv] at h2; simpa using h2
        simp [this, hn]
      | cons x xs =>
        rw [hq] at ih'
        rw [List.getLast?_cons_cons]
        exact ih'

theorem toDigitsLE_getLast (B : Nat) (hB : 2 ≤ B) (n : Nat) :
    (toDigitsLE B n).getLast? ≠ some 0 :=
  toDigitsAux_getLast B hB n n (Nat.le_refl n)

theorem valLE_append (B : Nat) (a b : List Nat) :
    valLE B (a ++ b) = valLE B a + B ^ a.length * valLE B b := by
  induction a with
  | nil => simp [valLE]
  | cons x xs ih =>
    simp only [List.cons_append, valLE, ih, List.length_cons, Nat.pow_succ, Nat.mul_add]
    rw [Nat.mul_comm (B ^ xs.length) B, Nat.mul_assoc]
    omega

theorem valLE_replicate_zero (B k : Nat) : valLE B (List.replicate k 0) = 0 := by
  induction k with
  | zero => rfl
  | succ k ih => simp [List.replicate_succ, valLE, ih]

theorem valLE_lt (B : Nat) (ds : List Nat) (h : ∀ d ∈ ds, d < B) : valLE B ds < B ^ ds.length := by
  induction ds with
  | nil => simp [valLE]
  | cons x xs ih =>
    have hx : x < B := h x (by simp)
    have ih' := ih (fun d hd => h d (by simp [hd]))
    simp only [valLE, List.length_cons, Nat.pow_succ]
    have h1 : B * valLE B xs + B ≤ B * B ^ xs.length := by
      have : valLE B xs + 1 ≤ B ^ xs.length := ih'
      calc B * valLE B xs + B = B * (valLE B xs + 1) := by rw [Nat.mul_add, Nat.mul_one]
        _ ≤ B * B ^ xs.length := Nat.mul_le_mul_left B this
    rw [Nat.mul_comm (B ^ xs.length) B]
    omega

/-- a canonical digit list with value 0 is empty -/
theorem valLE_eq_zero (B : Nat) (hB : 0 < B) (ds : List Nat) (hc : ds.getLast? ≠ some 0)
    (h : valLE B ds = 0) : ds = [] := by
  induction ds with
  | nil => rfl
  | cons x xs ih =>
    exfalso
    simp only [valLE] at h
    have hx : x = 0 := by omega
    have hv : valLE B xs = 0 := by
      have : B * valLE B xs = 0 := by omega
      rcases Nat.mul_eq_zero.mp this with h | h
      · omega
      · exact h
    cases xs with
    | nil => simp [hx] at hc
    | cons y ys =>
      rw [List.getLast?_cons_cons] at hc
      have := ih hc hv
      simp at this

theorem toDigitsAux_of_val (B : Nat) (hB : 2 ≤ B) (ds : List Nat) (hlt : ∀ d ∈ ds, d < B)
    (hc : ds.getLast? ≠ some 0) (f : Nat) (hf : valLE B ds ≤ f) :
    toDigitsAux B f (valLE B ds) = ds := by
  induction ds generalizing f with
  | nil =>
    cases f <;> simp [toDigitsAux, valLE]
  | cons x xs ih =>
    have hx : x < B := hlt x (by simp)
    have hne : valLE B (x :: xs) ≠ 0 := by
      intro h0
      have := valLE_eq_zero B (by omega) (x :: xs) hc h0
      simp at this
    cases f with
    | zero => omega
    | succ f =>
      unfold toDigitsAux
      rw [if_neg hne]
      have hmod : valLE B (x :: xs) % B = x := by
        simp only [valLE]
        rw [Nat.add_mul_mod_self_left]; exact Nat.mod_eq_of_lt hx
      have hdiv : valLE B (x :: xs) / B = valLE B xs := by
        simp only [valLE]
        rw [Nat.add_mul_div_left _ _ (by omega : 0 < B), Nat.div_eq_of_lt hx]; simp
      rw [hmod, hdiv]
      have hc' : xs.getLast? ≠ some 0 := by
        cases xs with
        | nil => simp
        | cons y ys => rw [List.getLast?_cons_cons] at hc; exact hc
      have hle : valLE B xs ≤ f := by
        have hlt' : valLE B (x :: xs) / B < valLE B (x :: xs) :=
          Nat.div_lt_self (by omega) (by omega)
        rw [hdiv] at hlt'
        omega
      rw [ih (fun d hd => hlt d (by simp [hd])) hc' f hle]

theorem toDigitsLE_of_val (B : Nat) (hB : 2 ≤ B) (ds : List Nat) (hlt : ∀ d ∈ ds, d < B)
    (hc : ds.getLast? ≠ some 0) : toDigitsLE B (valLE B ds) = ds :=
  toDigitsAux_of_val B hB ds hlt hc _ (Nat.le_refl _)

/-- digit count from magnitude -/
theorem toDigitsAux_length_le (B : Nat) (hB : 2 ≤ B) (f n k : Nat) (h : n < B ^ k) :
    (toDigitsAux B f n).length ≤ k := by
  induction f generalizing n k with
  | zero => simp [toDigitsAux]
  | succ f ih =>
    unfold toDigitsAux
    split
    · simp
    · rename_i hn
      cases k with
      | zero => simp at h; omega
      | succ k =>
        simp only [List.length_cons]
        have : n / B < B ^ k := by
          rw [Nat.div_lt_iff_lt_mul (by omega)]
          rw [Nat.pow_succ] at h; exact h
        have := ih (n / B) k this
        omega

theorem toDigitsLE_length_le (B : Nat) (hB : 2 ≤ B) (n k : Nat) (h : n < B ^ k) :
    (toDigitsLE B n).length ≤ k := toDigitsAux_length_le B hB n n k h

theorem toDigitsAux_length_ge (B : Nat) (hB : 2 ≤ B) (f n k : Nat) (hf : n ≤ f) (h : B ^ k ≤ n) :
    k + 1 ≤ (toDigitsAux B f n).length := by
  induction f generalizing n k with
  | zero =>
    have : 0 < B ^ k := Nat.pow_pos (by omega)
    omega
  | succ f ih =>
    have hpos : 0 < B ^ k := Nat.pow_pos (by omega)
    unfold toDigitsAux
    rw [if_neg (by omega)]
    simp only [List.length_cons]
    cases k with
    | zero => omega
    | succ k =>
      have hlt : n / B < n := Nat.div_lt_self (by omega) (by omega)
      have : B ^ k ≤ n / B := by
        rw [Nat.le_div_iff_mul_le (by omega)]
        rw [Nat.pow_succ] at h; exact h
      have := ih (n / B) k (by omega) this
      omega

theorem toDigitsLE_length_eq (B : Nat) (hB : 2 ≤ B) (n k : Nat) (h1 : B ^ k ≤ n)
    (h2 : n < B ^ (k + 1)) : (toDigitsLE B n).length = k + 1 := by
  have a := toDigitsLE_length_le B hB n (k + 1) h2
  have b := toDigitsAux_length_ge B hB n n k (Nat.le_refl n) h1
  unfold toDigitsLE at *
  omega

/-! ## big-endian forms and leading zeros -/

theorem toDigitsBE_lt (B : Nat) (hB : 0 < B) (n : Nat) : ∀ d ∈ toDigitsBE B n, d < B := by
  intro d hd
  exact toDigitsLE_lt B hB n d (by simpa [toDigitsBE] using hd)

theorem toDigitsBE_head (B : Nat) (hB : 2 ≤ B) (n : Nat) : (toDigitsBE B n).head? ≠ some 0 := by
  unfold toDigitsBE
  rw [List.head?_reverse]
  exact toDigitsLE_getLast B hB n

theorem valBE_toDigitsBE (B : Nat) (hB : 2 ≤ B) (n : Nat) : valBE B (toDigitsBE B n) = n := by
  simp [valBE, toDigitsBE, toDigitsLE_val B hB]

theorem toDigitsBE_valBE (B : Nat) (hB : 2 ≤ B) (ds : List Nat) (hlt : ∀ d ∈ ds, d < B)
    (hc : ds.head? ≠ some 0) : toDigitsBE B (valBE B ds) = ds := by
  unfold toDigitsBE valBE
  rw [toDigitsLE_of_val B hB ds.reverse (by simpa using hlt) (by rw [List.getLast?_reverse]; exact hc)]
  simp

theorem valBE_replicate_append (B k : Nat) (t : List Nat) :
    valBE B (List.replicate k 0 ++ t) = valBE B t := by
  simp [valBE, valLE_append, valLE_replicate_zero]

theorem toDigitsBE_length (B n : Nat) : (toDigitsBE B n).length = (toDigitsLE B n).length := by
  simp [toDigitsBE]

/-- split a list into its leading zeros and a rest that does not start with 0 -/
theorem lz_split (xs : List Nat) :
    ∃ t, xs = List.replicate (lz xs) 0 ++ t ∧ t.head? ≠ some 0 := by
  induction xs with
  | nil => exact ⟨[], by simp [lz]⟩
  | cons x xs ih =>
    by_cases hx : x = 0
    · subst hx
      obtain ⟨t, h1, h2⟩ := ih
      refine ⟨t, ?_, h2⟩
      simp only [lz, List.replicate_succ, List.cons_append]
      rw [← h1]
    · refine ⟨x :: xs, ?_, by simp [hx]⟩
      have : lz (x :: xs) = 0 := by
        cases x with
        | zero => omega
        | succ n => rfl
      simp [this]

theorem lz_replicate_append (k : Nat) (t : List Nat) (ht : t.head? ≠ some 0) :
    lz (List.replicate k 0 ++ t) = k := by
  induction k with
  | zero =>
    simp only [List.replicate_zero, List.nil_append]
    cases t with
    | nil => rfl
    | cons x xs =>
      cases x with
      | zero => simp at ht
      | succ n => rfl
  | succ k ih => simp [List.replicate_succ, lz, ih]

theorem lz_le_length (xs : List Nat) : lz xs ≤ xs.length := by
  induction xs with
  | nil => simp [lz]
  | cons x xs ih =>
    cases x with
    | zero => simp [lz]; omega
    | succ n => simp [lz]

/-! ## the conversion -/

theorem conv_lt (B C : Nat) (hC : 0 < C) (xs : List Nat) : ∀ y ∈ conv B C xs, y < C := by
  intro y hy
  simp only [conv, List.mem_append, List.mem_replicate] at hy
  rcases hy with ⟨_, rfl⟩ | hy
  · exact hC
  · exact toDigitsBE_lt C hC _ y hy

/-- `conv C B` undoes `conv B C` on lists of base-`B` digits -/
theorem conv_conv (B C : Nat) (hB : 2 ≤ B) (hC : 2 ≤ C) (xs : List Nat) (h : ∀ x ∈ xs, x < B) :
    conv C B (conv B C xs) = xs := by
  obtain ⟨t, hx, ht⟩ := lz_split xs
  have htlt : ∀ d ∈ t, d < B := fun d hd => h d (by rw [hx]; simp [hd])
  have hv : valBE B xs = valBE B t := by
    conv => lhs; rw [hx]
    exact valBE_replicate_append B _ t
  unfold conv
  rw [lz_replicate_append _ _ (toDigitsBE_head C hC _), valBE_replicate_append,
    valBE_toDigitsBE C hC, hv, toDigitsBE_valBE B hB t htlt ht]
  exact hx.symm

theorem conv_length_le (xs : List Nat) (h : ∀ x ∈ xs, x < 58) :
    (toDigitsBE 256 (valBE 58 xs)).length + lz xs ≤ xs.length := by
  obtain ⟨t, hx, ht⟩ := lz_split xs
  have htlt : ∀ d ∈ t, d < 58 := fun d hd => h d (by rw [hx]; simp [hd])
  have hv : valBE 58 xs = valBE 58 t := by
    conv => lhs; rw [hx]
    exact valBE_replicate_append 58 _ t
  rw [hv, toDigitsBE_length]
  have h1 : valBE 58 t < 58 ^ t.length := by
    have := valLE_lt 58 t.reverse (by simpa using htlt)
    simpa [valBE] using this
  have h2 : 58 ^ t.length ≤ 256 ^ t.length := Nat.pow_le_pow_left (by omega) _
  have := toDigitsLE_length_le 256 (by omega) (valBE 58 t) t.length (by omega)
  have hl : xs.length = lz xs + t.length := by
    conv => lhs; rw [hx]
    simp
  omega

/-! ## bytes ↔ naturals -/

theorem map_ofNat_toNat (b : Bytes) : (b.map UInt8.toNat).map UInt8.ofNat = b := by
  induction b with
  | nil => rfl
  | cons x xs ih => simp [ih]

theorem map_toNat_ofNat (ns : List Nat) (h : ∀ n ∈ ns, n < 256) :
    (ns.map UInt8.ofNat).map UInt8.toNat = ns := by
  induction ns with
  | nil => rfl
  | cons x xs ih =>
    have hx : x < 256 := h x (by simp)
    simp only [List.map_cons, UInt8.toNat_ofNat']
    rw [ih (fun n hn => h n (by simp [hn]))]
    congr 1
    omega

theorem toNat_lt_256 (b : Bytes) : ∀ x ∈ b.map UInt8.toNat, x < 256 := by
  intro x hx
  simp only [List.mem_map] at hx
  obtain ⟨y, _, rfl⟩ := hx
  exact y.toNat_lt

theorem encode58_lt (b : Bytes) : ∀ d ∈ encode58 b, d < 58 := conv_lt 256 58 (by omega) _

theorem all_lt_iff (ds : List Nat) : ds.all (· < 58) = true ↔ ∀ d ∈ ds, d < 58 := by
  simp [List.all_eq_true]

theorem decode58_encode58 (b : Bytes) : decode58 (encode58 b) = some b := by
  unfold decode58
  rw [if_pos ((all_lt_iff _).mpr (encode58_lt b))]
  unfold encode58
  rw [conv_conv 256 58 (by omega) (by omega) _ (toNat_lt_256 b), map_ofNat_toNat]

theorem encode58_decode58 (ds : List Nat) (b : Bytes) (h : decode58 ds = some b) :
    encode58 b = ds := by
  unfold decode58 at h
  split at h
  · rename_i hall
    injection h with h
    subst h
    unfold encode58
    rw [map_toNat_ofNat _ (conv_lt 58 256 (by omega) ds)]
    exact conv_conv 58 256 (by omega) (by omega) ds ((all_lt_iff _).mp hall)
  · simp at h

/-! ## alphabet -/

theorem charDigit_digitChar : ∀ d : Fin 58, charDigit (digitChar d.val) = some d.val := by
  decide

theorem charDigit_digitChar' (d : Nat) (h : d < 58) : charDigit (digitChar d) = some d :=
  charDigit_digitChar ⟨d, h⟩

theorem charDigit_lt (c : Char) (d : Nat) (h : charDigit c = some d) : d < 58 := by
  unfold charDigit at h
  simp only at h
  split at h
  · injection h; omega
  · split at h
    · injection h; omega
    · split at h
      · injection h; omega
      · split at h
        · injection h; omega
        · split at h
          · injection h; omega
          · split at h
            · injection h; omega
            · simp at h

theorem charDigit_inj (c1 c2 : Char) (d : Nat) (h1 : charDigit c1 = some d)
    (h2 : charDigit c2 = some d) : c1 = c2 := by
  have : c1.toNat = c2.toNat := by
    unfold charDigit at h1 h2
    simp only at h1 h2
    repeat' split at h1
    all_goals (repeat' split at h2)
    all_goals (first | (simp at h1; done) | (simp at h2; done) | (injection h1; injection h2; omega))
  apply Char.ext
  apply UInt32.toNat_inj.mp
  exact this

theorem digitsOf_map_digitChar (ds : List Nat) (h : ∀ d ∈ ds, d < 58) :
    digitsOf (ds.map digitChar) = some ds := by
  induction ds with
  | nil => rfl
  | cons x xs ih =>
    simp only [List.map_cons, digitsOf]
    rw [charDigit_digitChar' x (h x (by simp)), ih (fun d hd => h d (by simp [hd]))]

theorem digitsOf_lt (s : List Char) (ds : List Nat) (h : digitsOf s = some ds) :
    ∀ d ∈ ds, d < 58 := by
  induction s generalizing ds with
  | nil => simp [digitsOf] at h; subst h; simp
  | cons c r ih =>
    simp only [digitsOf] at h
    cases hc : charDigit c with
    | none => simp [hc] at h
    | some d0 =>
      cases hr : digitsOf r with
      | none => simp [hc, hr] at h
      | some ds0 =>
        simp only [hc, hr] at h
        injection h with h
        subst h
        intro d hd
        simp only [List.mem_cons] at hd
        rcases hd with rfl | hd
        · exact charDigit_lt c _ hc
        · exact ih ds0 hr d hd

theorem digitsOf_length (s : List Char) (ds : List Nat) (h : digitsOf s = some ds) :
    ds.length = s.length := by
  induction s generalizing ds with
  | nil => simp [digitsOf] at h; subst h; rfl
  | cons c r ih =>
    simp only [digitsOf] at h
    cases hc : charDigit c with
    | none => simp [hc] at h
    | some d0 =>
      cases hr : digitsOf r with
      | none => simp [hc, hr] at h
      | some ds0 =>
        simp only [hc, hr] at h
        injection h with h
        subst h
        simp [ih ds0 hr]

theorem digitsOf_inj (s1 s2 : List Char) (ds : List Nat) (h1 : digitsOf s1 = some ds)
    (h2 : digitsOf s2 = some ds) : s1 = s2 := by
  induction s1 generalizing s2 ds with
  | nil =>
    simp [digitsOf] at h1; subst h1
    cases s2 with
    | nil => rfl
    | cons c r =>
      simp only [digitsOf] at h2
      cases hc : charDigit c <;> cases hr : digitsOf r <;> simp [hc, hr] at h2
  | cons c r ih =>
    simp only [digitsOf] at h1
    cases hc : charDigit c with
    | none => simp [hc] at h1
    | some d0 =>
      cases hr : digitsOf r with
      | none => simp [hc, hr] at h1
      | some ds0 =>
        simp only [hc, hr] at h1
        injection h1 with h1
        subst h1
        cases s2 with
        | nil => simp [digitsOf] at h2
        | cons c2 r2 =>
          simp only [digitsOf] at h2
          cases hc2 : charDigit c2 with
          | none => simp [hc2] at h2
          | some d2 =>
            cases hr2 : digitsOf r2 with
            | none => simp [hc2, hr2] at h2
            | some ds2 =>
              simp only [hc2, hr2] at h2
              injection h2 with h2
              injection h2 with ha hb
              subst ha hb
              rw [charDigit_inj c c2 d2 hc hc2, ih r2 ds2 hr hr2]

/-! ## the crate model -/

/-- whenever `fromBase58` succeeds it returns the standard decoding of the digits -/
theorem fromBase58_ok (s : List Char) (b : Bytes) (h : fromBase58 s = .ok b) :
    ∃ ds, digitsOf s = some ds ∧ decode58 ds = some b := by
  unfold fromBase58 at h
  cases hd : digitsOf s with
  | none => simp [hd] at h
  | some ds =>
    simp only [hd] at h
    split at h
    · simp at h
    · split at h
      · simp at h
      · injection h with h
        refine ⟨ds, rfl, ?_⟩
        unfold decode58
        rw [if_pos ((all_lt_iff _).mpr (digitsOf_lt s ds hd))]
        simp only [conv]
        rw [h]

/-- decoded bytes never outnumber the characters -/
theorem fromBase58_length (s : List Char) (b : Bytes) (h : fromBase58 s = .ok b) :
    b.length ≤ s.length := by
  unfold fromBase58 at h
  cases hd : digitsOf s with
  | none => simp [hd] at h
  | some ds =>
    simp only [hd] at h
    split at h
    · simp at h
    · split at h
      · simp at h
      · injection h with h
        subst h
        have := conv_length_le ds (digitsOf_lt s ds hd)
        have hl := digitsOf_length s ds hd
        simp only [List.length_map, List.length_append, List.length_replicate]
        omega

/-- strings of at most 132 characters never reach the crate's underflow -/
theorem fromBase58_no_panic (s : List Char) (h : s.length ≤ CAP) (p : String) :
    fromBase58 s ≠ .panic p := by
  unfold fromBase58
  cases hd : digitsOf s with
  | none => simp
  | some ds =>
    simp only
    split
    · simp
    · have := conv_length_le ds (digitsOf_lt s ds hd)
      have hl := digitsOf_length s ds hd
      rw [if_neg (by omega)]
      simp

/-- distinct strings never decode to the same bytes -/
theorem fromBase58_inj (s1 s2 : List Char) (b : Bytes) (h1 : fromBase58 s1 = .ok b)
    (h2 : fromBase58 s2 = .ok b) : s1 = s2 := by
  obtain ⟨d1, hd1, e1⟩ := fromBase58_ok s1 b h1
  obtain ⟨d2, hd2, e2⟩ := fromBase58_ok s2 b h2
  have : d1 = d2 := by rw [← encode58_decode58 d1 b e1, ← encode58_decode58 d2 b e2]
  subst this
  exact digitsOf_inj s1 s2 d1 hd1 hd2

theorem valBE_bytes_lt (b : Bytes) : valBE 256 (b.map UInt8.toNat) < 256 ^ b.length := by
  have := valLE_lt 256 (b.map UInt8.toNat).reverse (by
    intro d hd
    exact toNat_lt_256 b d (by simpa using hd))
  simpa [valBE] using this

/-- `from_base58 ∘ to_base58 = id` for everything that fits the crate's buffer -/
theorem fromBase58_toBase58 (b : Bytes) (h : b.length ≤ CAP) : fromBase58 (toBase58 b) = .ok b := by
  unfold fromBase58 toBase58
  rw [digitsOf_map_digitChar _ (encode58_lt b)]
  simp only
  have hdec := decode58_encode58 b
  unfold decode58 at hdec
  rw [if_pos ((all_lt_iff _).mpr (encode58_lt b))] at hdec
  injection hdec with hdec
  simp only [conv] at hdec
  -- value and leading zeros of the digit string are those of the bytes
  obtain ⟨t, hx, ht⟩ := lz_split (b.map UInt8.toNat)
  have hlz : lz (encode58 b) = lz (b.map UInt8.toNat) := by
    unfold encode58 conv
    exact lz_replicate_append _ _ (toDigitsBE_head 58 (by omega) _)
  have hval : valBE 58 (encode58 b) = valBE 256 (b.map UInt8.toNat) := by
    unfold encode58 conv
    rw [valBE_replicate_append, valBE_toDigitsBE 58 (by omega)]
  have hv : valBE 256 (b.map UInt8.toNat) = valBE 256 t := by
    conv => lhs; rw [hx]
    exact valBE_replicate_append 256 _ t
  have htlt : ∀ d ∈ t, d < 256 := fun d hd => toNat_lt_256 b d (by rw [hx]; simp [hd])
  have hlen : b.length = lz (b.map UInt8.toNat) + t.length := by
    have := congrArg List.length hx
    simpa using this
  have hbound : valBE 256 (b.map UInt8.toNat) < 256 ^ CAP := by
    have h1 := valBE_bytes_lt b
    have h2 : 256 ^ b.length ≤ 256 ^ CAP := Nat.pow_le_pow_right (by omega) h
    omega
  rw [if_neg (by rw [hval]; omega)]
  have hsig : toDigitsBE 256 (valBE 58 (encode58 b)) = t := by
    rw [hval, hv]; exact toDigitsBE_valBE 256 (by omega) t htlt ht
  rw [if_neg (by rw [hsig, hlz]; omega)]
  rw [hdec]

/-! ## checksum layer -/

theorem checksum4_length (H : Bytes → Bytes) (hH : ∀ x, 4 ≤ (H x).length) (b : Bytes) :
    (checksum4 H b).length = 4 := by
  have := hH b
  simp [checksum4, List.length_take]; omega

theorem decodeChk_encodeChk (r : Bool) (H : Bytes → Bytes) (hH : ∀ x, 4 ≤ (H x).length) (b : Bytes)
    (hb : b.length + 4 ≤ CAP) : decodeChk r H (encodeChk H b) = .ok b := by
  have hc := checksum4_length H hH b
  unfold decodeChk encodeChk
  rw [fromBase58_toBase58 _ (by simp [hc]; omega)]
  simp only [List.length_append, hc]
  rw [if_neg (by omega)]
  have h1 : b.length + 4 - 4 = b.length := by omega
  rw [h1, List.take_left', List.drop_left']
  · simp
  · rfl
  · rfl

/-- what acceptance by `decode_base58_checksum` means -/
theorem decodeChk_ok (r : Bool) (H : Bytes → Bytes) (s : List Char) (p : Bytes)
    (h : decodeChk r H s = .ok p) :
    ∃ cs, fromBase58 s = .ok (p ++ cs) ∧ cs.length = 4 ∧ cs = checksum4 H p := by
  unfold decodeChk at h
  cases hf : fromBase58 s with
  | err e => simp [hf] at h
  | panic q => simp [hf] at h
  | ok d =>
    simp only [hf] at h
    split at h
    · cases r <;> simp at h
    · rename_i hlen
      split at h
      · simp at h
      · rename_i hcs
        injection h with h
        refine ⟨d.drop (d.length - 4), ?_, ?_, ?_⟩
        · rw [← h, List.take_append_drop]
        · simp; omega
        · simp only [bne_iff_ne, ne_eq, Decidable.not_not] at hcs
          rw [← h, hcs]

/-! ## digit count of a WIF -/

theorem valBE_cons (B x : Nat) (xs : List Nat) :
    valBE B (x :: xs) = x * B ^ xs.length + valBE B xs := by
  simp only [valBE, List.reverse_cons, valLE_append, valLE, List.length_reverse]
  rw [Nat.mul_zero, Nat.add_zero, Nat.mul_comm]; omega

theorem encode58_length_of_head (b : Bytes) (x : UInt8) (k : Nat) (hx : x.toNat ≠ 0)
    (h1 : 58 ^ k ≤ x.toNat * 256 ^ b.length) (h2 : (x.toNat + 1) * 256 ^ b.length ≤ 58 ^ (k + 1)) :
    (encode58 (x :: b)).length = k + 1 := by
  unfold encode58 conv
  have hlz : lz ((x :: b).map UInt8.toNat) = 0 := by
    simp only [List.map_cons]
    cases hxn : x.toNat with
    | zero => exact absurd hxn hx
    | succ n => rfl
  rw [hlz]
  simp only [List.replicate_zero, List.nil_append, toDigitsBE_length, List.map_cons]
  rw [valBE_cons]
  have hb := valBE_bytes_lt b
  simp only [List.length_map]
  apply toDigitsLE_length_eq 58 (by omega)
  · omega
  · have : (x.toNat + 1) * 256 ^ b.length = x.toNat * 256 ^ b.length + 256 ^ b.length := by
      rw [Nat.add_mul, Nat.one_mul]
    omega

end CG.Proofs.Base58

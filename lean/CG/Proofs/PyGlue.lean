import CG.Model.PyGlue
import CG.Proofs.InterpTotal
/-!
Helper lemmas for C18: a run under the `TransactionlessChecker` that does not end in that checker's
own error (`IllegalState`) never consulted the checker, so every other checker reproduces it step by
step (`msLoop`, `checkMultisig`, the six checker opcodes of `exec`, the `runWith` loop, `coreEval`).
-/
namespace CG.Model.PyGlue
open CG CG.Model.ScriptNum CG.Model.Interp

variable {σ : Type}

theorem msLoop_tless (C : Checker σ) (script : Bytes) (c : σ) (sigs keys : List Bytes)
    (h : (msLoop (tless σ) script c sigs keys).1 ≠ .err "IllegalState") :
    msLoop C script c sigs keys = msLoop (tless σ) script c sigs keys := by
  cases sigs with
  | nil => cases keys <;> simp [msLoop]
  | cons s ss =>
    cases keys with
    | nil => simp [msLoop]
    | cons k ks => exact absurd (by simp [msLoop, tless]) h

theorem checkMultisig_tless (C : Checker σ) (c : σ) (stack : Stack) (sub : Bytes)
    (h : (checkMultisig (tless σ) c stack sub).1 ≠ .err "IllegalState") :
    checkMultisig C c stack sub = checkMultisig (tless σ) c stack sub := by
  unfold checkMultisig at h ⊢
  split
  · rfl
  · rfl
  · rename_i total s1 hpop
    rw [hpop] at h
    simp only [] at h ⊢
    split
    · rfl
    · split
      · rfl
      · split
        · rfl
        · rfl
        · rename_i required s3 hpop2
          rw [hpop2] at h
          simp only [] at h ⊢
          split
          · rfl
          · split
            · rfl
            · split
              · rfl
              · simp only [*, if_false] at h
                rw [msLoop_tless C _ c _ _ (by
                  intro hc
                  apply h
                  rcases hm : msLoop (tless σ) _ c _ _ with ⟨o, c'⟩
                  rw [hm] at hc
                  simp only at hc
                  subst hc
                  rfl)]

theorem sigCheck_tless (C : Checker σ) (script : Bytes) (st : St σ) (v : Bool)
    (h : sigCheck (tless σ) script st v ≠ .err "IllegalState") :
    sigCheck C script st v = sigCheck (tless σ) script st v := by
  unfold sigCheck checkSize at h ⊢
  split
  · rfl
  · split
    · rfl
    · rfl
    · rename_i hp1
      rw [hp1] at h
      simp only [] at h ⊢
      split
      · rfl
      · rfl
      · rename_i hp2
        rw [hp2] at h
        simp only [] at h ⊢
        split
        · rfl
        · simp only [*, if_false] at h
          exact absurd (by simp [tless]) h

theorem multisigOp_tless (C : Checker σ) (script : Bytes) (st : St σ) (v : Bool)
    (h : multisigOp (tless σ) script st v ≠ .err "IllegalState") :
    multisigOp C script st v = multisigOp (tless σ) script st v := by
  unfold multisigOp at h ⊢
  split
  · rfl
  · simp only [*, if_false] at h
    rw [checkMultisig_tless C st.chk st.stack _ (by
      intro hc
      apply h
      rcases hm : checkMultisig (tless σ) st.chk st.stack (List.drop st.checkIndex script) with ⟨o, c'⟩
      rw [hm] at hc
      simp only at hc
      subst hc
      rfl)]

theorem exec_tless (H : Hashes) (C : Checker σ) (pg : Bool) (script : Bytes) (i : Nat) (op : Op)
    (st : St σ) (h : exec H (tless σ) pg script i op st ≠ .err "IllegalState") :
    exec H C pg script i op st = exec H (tless σ) pg script i op st := by
  cases op
  case checksig => exact sigCheck_tless C script st false h
  case checksigverify => exact sigCheck_tless C script st true h
  case checkmultisig => exact multisigOp_tless C script st false h
  case checkmultisigverify => exact multisigOp_tless C script st true h
  case cltv =>
    simp only [exec] at h ⊢
    split
    · split
      · rfl
      · rfl
      · rename_i hp
        rw [hp] at h
        simp only [*, if_true] at h
        exact absurd (by simp [tless]) h
    · rfl
  case csv =>
    simp only [exec] at h ⊢
    split
    · split
      · rfl
      · rfl
      · rename_i hp
        rw [hp] at h
        simp only [*, if_true] at h
        exact absurd (by simp [tless]) h
    · rfl
  all_goals rfl

/-- the evaluation loop: two per-opcode semantics that agree wherever the second one does not answer
    the error `S` give the same run, provided the second run does not end in `S` -/
theorem runWith_agree (S : String) (ex1 ex2 : Nat → Op → St σ → Outcome (Bool × St σ))
    (hex : ∀ i op st, ex2 i op st ≠ .err S → ex1 i op st = ex2 i op st)
    (script : Bytes) (brk : Option Nat) (fuel i : Nat) (st : St σ)
    (h : runWith ex2 script brk fuel i st ≠ .err S) :
    runWith ex1 script brk fuel i st = runWith ex2 script brk fuel i st := by
  induction fuel generalizing i st with
  | zero => rfl
  | succ f ih =>
    simp only [runWith_succ, loopBody] at h ⊢
    by_cases hlt : i < script.length
    · simp only [hlt, if_true] at h ⊢
      generalize advance script st i = i0 at h ⊢
      by_cases hge : i0 ≥ script.length
      · simp only [hge, if_true]
      · simp only [hge, if_false] at h ⊢
        by_cases hb : brkHit brk i0 = true
        · simp only [hb, if_true]
        · simp only [hb] at h ⊢
          have hne : ex2 i0 (decodeOp (script.getD i0 0)) st ≠ .err S := by
            intro hc
            rw [hc] at h
            exact h rfl
          rw [hex _ _ _ hne]
          cases hx : ex2 i0 (decodeOp (script.getD i0 0)) st with
          | ok bs =>
            obtain ⟨b, st'⟩ := bs
            cases b
            · rw [hx] at h
              exact ih _ _ h
            · rfl
          | err e => rfl
          | panic p => rfl
    · simp only [hlt, if_false]

/-- a `coreEval` under the `TransactionlessChecker` that does not end in `IllegalState` is reproduced
    by every checker (same state type, same initial checker state: the state is never touched) -/
theorem coreEval_tless (H : Hashes) (C : Checker σ) (c0 : σ) (script : Bytes) (flags : Nat)
    (start brk : Option Nat) (stack alt : Option Stack)
    (h : coreEval H (tless σ) c0 script flags start brk stack alt ≠ .err "IllegalState") :
    coreEval H C c0 script flags start brk stack alt
      = coreEval H (tless σ) c0 script flags start brk stack alt := by
  unfold coreEval run at h ⊢
  simp only [] at h ⊢
  have key := runWith_agree "IllegalState" (exec H C (decide (flags % 2 = 1)) script)
    (exec H (tless σ) (decide (flags % 2 = 1)) script)
    (fun i op st hh => exec_tless H C _ script i op st hh) script brk (script.length + 1) (start.getD 0)
    { stack := stack.getD [], alt := alt.getD [], branch := [], checkIndex := 0, chk := c0 }
    (by
      intro hc
      rw [hc] at h
      exact h rfl)
  rw [key]

end CG.Model.PyGlue

import CG.Model.ScriptBuild
import CG.Model.ScriptText
import CG.Spec.ScriptBuild
import CG.Proofs.InterpTotal
import CG.Proofs.ScriptNum
/-!
Helper lemmas for C16: the four push classes of `appendData` and their evaluation by the interpreter
model (one instruction), the P2PKH templates, and the text form (lexing of encoded items, token
splitting, token decoding, the round trip).
-/
namespace CG.Proofs.ScriptBuild
open CG CG.Model.ScriptNum CG.Model.Interp CG.Model.ScriptBuild

/-! ### bytes of a length field -/

theorem ofNat_toNat_lt {n : Nat} (h : n < 256) : (UInt8.ofNat n).toNat = n := by
  simp [UInt8.toNat_ofNat']; omega

theorem natToLEn1 (n : Nat) : natToLEn 1 n = [UInt8.ofNat (n % 256)] := rfl
theorem natToLEn2 (n : Nat) : natToLEn 2 n = [UInt8.ofNat (n % 256), UInt8.ofNat (n / 256 % 256)] := rfl
theorem natToLEn4 (n : Nat) :
    natToLEn 4 n = [UInt8.ofNat (n % 256), UInt8.ofNat (n / 256 % 256), UInt8.ofNat (n / 256 / 256 % 256),
                    UInt8.ofNat (n / 256 / 256 / 256 % 256)] := rfl

theorem byteAt_cons_zero (b : UInt8) (r : Bytes) : byteAt (b :: r) 0 = b.toNat := rfl
theorem byteAt_cons_succ (b : UInt8) (r : Bytes) (i : Nat) : byteAt (b :: r) (i + 1) = byteAt r i := rfl

theorem byteAt_append_right (a b : Bytes) (i : Nat) : byteAt (a ++ b) (a.length + i) = byteAt b i := by
  unfold byteAt
  rw [List.getD_eq_getElem?_getD, List.getD_eq_getElem?_getD, List.getElem?_append_right (by omega)]
  simp

/-! ### the shape of `appendData` -/

theorem appendData_empty (s d : Bytes) (h : d.length = 0) : appendData s d = s ++ [0] := by
  simp [appendData, h]

theorem appendData_direct (s d : Bytes) (h1 : 1 ≤ d.length) (h2 : d.length ≤ 75) :
    appendData s d = s ++ UInt8.ofNat d.length :: d := by
  unfold appendData
  simp only []
  rw [if_neg (by omega), if_pos h2]

theorem appendData_pd1 (s d : Bytes) (h1 : 76 ≤ d.length) (h2 : d.length ≤ 255) :
    appendData s d = s ++ 76 :: (natToLEn 1 d.length ++ d) := by
  unfold appendData
  simp only []
  rw [if_neg (by omega), if_neg (by omega), if_pos h2]

theorem appendData_pd2 (s d : Bytes) (h1 : 256 ≤ d.length) (h2 : d.length ≤ 65535) :
    appendData s d = s ++ 77 :: (natToLEn 2 d.length ++ d) := by
  unfold appendData
  simp only []
  rw [if_neg (by omega), if_neg (by omega), if_neg (by omega), if_pos h2]

theorem appendData_pd4 (s d : Bytes) (h1 : 65536 ≤ d.length) :
    appendData s d = s ++ 78 :: (natToLEn 4 d.length ++ d) := by
  unfold appendData
  simp only []
  rw [if_neg (by omega), if_neg (by omega), if_neg (by omega), if_neg (by omega)]

theorem appendData_prefix (s d : Bytes) : appendData s d = s ++ appendData [] d := by
  unfold appendData
  simp only []
  repeat' split
  all_goals simp

theorem appendData_eq_spec (d : Bytes) (h : d.length < 4294967296) :
    appendData [] d = Spec.ScriptBuild.minimalPush d := by
  unfold appendData Spec.ScriptBuild.minimalPush
  simp only [List.nil_append, natToLEn1, natToLEn2, natToLEn4]
  by_cases h0 : d.length = 0
  · simp [h0]
  · simp only [if_neg h0]
    by_cases h1 : d.length ≤ 75
    · simp only [if_pos h1, if_pos (show d.length < 76 by omega)]
    · simp only [if_neg h1, if_neg (show ¬ d.length < 76 by omega)]
      by_cases h2 : d.length ≤ 255
      · simp only [if_pos h2, if_pos (show d.length < 256 by omega)]
        have : d.length % 256 = d.length := by omega
        simp [this]
      · simp only [if_neg h2, if_neg (show ¬ d.length < 256 by omega)]
        by_cases h3 : d.length ≤ 65535
        · simp only [if_pos h3, if_pos (show d.length < 65536 by omega)]
          have : d.length / 256 % 256 = d.length / 256 := by omega
          simp [this]
        · simp only [if_neg h3, if_neg (show ¬ d.length < 65536 by omega)]
          have e1 : d.length / 256 / 256 = d.length / 65536 := by omega
          have e2 : d.length / 65536 / 256 % 256 = d.length / 16777216 := by omega
          simp [e1, e2]

theorem appendData_length (s d : Bytes) :
    (appendData s d).length = s.length + d.length + Spec.ScriptBuild.overhead d.length := by
  unfold appendData Spec.ScriptBuild.overhead
  simp only []
  repeat' split
  all_goals simp only [List.length_append, List.length_cons, List.length_nil, natToLEn_length]
  all_goals omega

/-! ### one instruction of the interpreter -/

section eval
variable {σ : Type}

/-- a script consisting of a single instruction that succeeds runs to completion -/
theorem runWith_one (ex : Nat → Op → St σ → Outcome (Bool × St σ)) (script : Bytes) (st st' : St σ)
    (hlen : 1 ≤ script.length) (hb : st.branch = [])
    (hex : ex 0 (decodeOp (script.getD 0 0)) st = .ok (false, st'))
    (hnext : nextOp 0 script = script.length) (hb' : st'.branch = []) :
    runWith ex script none (script.length + 1) 0 st = .ok (st', script.length) := by
  obtain ⟨n, hn⟩ : ∃ n, script.length = n + 1 := ⟨script.length - 1, by omega⟩
  rw [hn]
  simp only [runWith, hb]
  rw [if_pos (by omega), if_neg (by omega)]
  simp only [hex, hnext, hn]
  simp [runWith, finish, hb']

theorem nextOp_push (s : Bytes) (i : Nat) (hi : i < s.length) (h1 : 1 ≤ byteAt s i) (h2 : byteAt s i ≤ 75)
    (h3 : i + 1 + byteAt s i ≤ s.length) : nextOp i s = i + 1 + byteAt s i := by
  unfold nextOp
  rw [if_neg (by omega)]
  simp only []
  rw [if_pos ⟨h1, h2⟩]
  simp only []
  rw [if_neg (by omega)]

theorem nextOp_single (s : Bytes) (i : Nat) (hi : i < s.length) (h : byteAt s i = 0 ∨ 79 ≤ byteAt s i) :
    nextOp i s = i + 1 := by
  unfold nextOp
  rw [if_neg (by omega)]
  simp only []
  rw [if_neg (by omega), if_neg (by omega), if_neg (by omega), if_neg (by omega)]
  simp only []
  rw [if_neg (by omega)]

theorem decodeOp_push (n : Nat) (h1 : 1 ≤ n) (h2 : n ≤ 75) : decodeOp (UInt8.ofNat n) = .push n := by
  unfold decodeOp
  simp only [ofNat_toNat_lt (show n < 256 by omega)]
  rw [if_neg (by omega), if_pos h2]

theorem take_drop_mid (a d r : Bytes) : ((a ++ d ++ r).drop a.length).take d.length = d := by
  simp

theorem coreEval_one (H : Hashes) (C : Checker σ) (c0 : σ) (script : Bytes) (flags : Nat) (st' : St σ)
    (hlen : 1 ≤ script.length)
    (hex : exec H C (decide (flags % 2 = 1)) script 0 (decodeOp (script.getD 0 0))
             { stack := [], alt := [], branch := [], checkIndex := 0, chk := c0 } = .ok (false, st'))
    (hnext : nextOp 0 script = script.length) (hb' : st'.branch = []) :
    coreEval H C c0 script flags none none none none
      = .ok { stack := st'.stack, alt := st'.alt, pos := none, chk := st'.chk } := by
  unfold coreEval run
  simp only [Option.getD_none]
  rw [runWith_one (exec H C (decide (flags % 2 = 1)) script) script _ st' hlen rfl hex hnext hb']
  rfl

theorem pushSlice_ok (script : Bytes) (off len : Nat) (st : St σ) (h : off + len ≤ script.length) :
    pushSlice script off len st = .ok (false, { st with stack := ((script.drop off).take len) :: st.stack }) := by
  unfold pushSlice
  rw [if_neg (by omega)]

theorem eval_empty (H : Hashes) (C : Checker σ) (c0 : σ) (flags : Nat) :
    coreEval H C c0 [0] flags none none none none = .ok { stack := [[]], alt := [], pos := none, chk := c0 } := by
  rw [coreEval_one H C c0 [0] flags { stack := [[]], alt := [], branch := [], checkIndex := 0, chk := c0 } (by simp) _ _ rfl]
  · simp [decodeOp, exec, encodeNum]
  · simp [nextOp, byteAt]

theorem eval_direct (H : Hashes) (C : Checker σ) (c0 : σ) (flags : Nat) (d : Bytes)
    (h1 : 1 ≤ d.length) (h2 : d.length ≤ 75) :
    coreEval H C c0 (UInt8.ofNat d.length :: d) flags none none none none
      = .ok { stack := [d], alt := [], pos := none, chk := c0 } := by
  rw [coreEval_one H C c0 _ flags { stack := [d], alt := [], branch := [], checkIndex := 0, chk := c0 } (by simp) _ _ rfl]
  · simp only [List.getD_cons_zero, decodeOp_push _ h1 h2, exec]
    rw [pushSlice_ok _ _ _ _ (by simp; omega)]
    simp
  · rw [nextOp_push _ 0 (by simp)] <;> simp [byteAt_cons_zero, ofNat_toNat_lt (show d.length < 256 by omega)] <;> omega

theorem nextOp_pd1 (l : UInt8) (r : Bytes) (h : l.toNat ≤ r.length) :
    nextOp 0 (76 :: l :: r) = 2 + l.toNat := by
  unfold nextOp
  simp [byteAt]
  rw [if_neg (by omega)]
  simp; omega

theorem nextOp_pd2 (l0 l1 : UInt8) (r : Bytes) (h : l0.toNat + l1.toNat * 256 ≤ r.length) :
    nextOp 0 (77 :: l0 :: l1 :: r) = 3 + l0.toNat + l1.toNat * 256 := by
  unfold nextOp
  simp [byteAt]
  rw [if_neg (by omega)]
  simp; omega

theorem nextOp_pd4 (l0 l1 l2 l3 : UInt8) (r : Bytes)
    (h : l0.toNat + l1.toNat * 256 + l2.toNat * 65536 + l3.toNat * 16777216 ≤ r.length) :
    nextOp 0 (78 :: l0 :: l1 :: l2 :: l3 :: r) = 5 + l0.toNat + l1.toNat * 256 + l2.toNat * 65536 + l3.toNat * 16777216 := by
  unfold nextOp
  simp [byteAt]
  rw [if_neg (by omega)]
  simp; omega

theorem eval_pd1' (H : Hashes) (C : Checker σ) (c0 : σ) (flags : Nat) (l : UInt8) (d : Bytes) (hl : l.toNat = d.length) :
    coreEval H C c0 (76 :: l :: d) flags none none none none
      = .ok { stack := [d], alt := [], pos := none, chk := c0 } := by
  rw [coreEval_one H C c0 _ flags { stack := [d], alt := [], branch := [], checkIndex := 0, chk := c0 } (by simp) _ _ rfl]
  · have hd : decodeOp (76 : UInt8) = .pushdata1 := by decide
    simp [hd, exec, pushSlice, byteAt, hl]
    rw [if_neg (by omega), if_neg (by omega)]
  · rw [nextOp_pd1 _ _ (by omega)]
    simp; omega

theorem eval_pd2' (H : Hashes) (C : Checker σ) (c0 : σ) (flags : Nat) (l0 l1 : UInt8) (d : Bytes)
    (hl : l0.toNat + l1.toNat * 256 = d.length) :
    coreEval H C c0 (77 :: l0 :: l1 :: d) flags none none none none
      = .ok { stack := [d], alt := [], pos := none, chk := c0 } := by
  rw [coreEval_one H C c0 _ flags { stack := [d], alt := [], branch := [], checkIndex := 0, chk := c0 } (by simp) _ _ rfl]
  · have hd : decodeOp (77 : UInt8) = .pushdata2 := by decide
    simp [hd, exec, pushSlice, byteAt, hl]
    rw [if_neg (by omega), if_neg (by omega)]
  · rw [nextOp_pd2 _ _ _ (by omega)]
    simp; omega

theorem eval_pd4' (H : Hashes) (C : Checker σ) (c0 : σ) (flags : Nat) (l0 l1 l2 l3 : UInt8) (d : Bytes)
    (hl : l0.toNat + l1.toNat * 256 + l2.toNat * 65536 + l3.toNat * 16777216 = d.length) :
    coreEval H C c0 (78 :: l0 :: l1 :: l2 :: l3 :: d) flags none none none none
      = .ok { stack := [d], alt := [], pos := none, chk := c0 } := by
  rw [coreEval_one H C c0 _ flags { stack := [d], alt := [], branch := [], checkIndex := 0, chk := c0 } (by simp) _ _ rfl]
  · have hd : decodeOp (78 : UInt8) = .pushdata4 := by decide
    simp [hd, exec, pushSlice, byteAt, hl]
    rw [if_neg (by omega), if_neg (by omega)]
  · rw [nextOp_pd4 _ _ _ _ _ (by omega)]
    simp; omega

theorem eval_pd1 (H : Hashes) (C : Checker σ) (c0 : σ) (flags : Nat) (d : Bytes) (h2 : d.length ≤ 255) :
    coreEval H C c0 (76 :: (natToLEn 1 d.length ++ d)) flags none none none none
      = .ok { stack := [d], alt := [], pos := none, chk := c0 } := by
  have hl : (UInt8.ofNat (d.length % 256)).toNat = d.length := by rw [ofNat_toNat_lt (by omega)]; omega
  exact eval_pd1' H C c0 flags _ d hl

theorem eval_pd2 (H : Hashes) (C : Checker σ) (c0 : σ) (flags : Nat) (d : Bytes) (h2 : d.length ≤ 65535) :
    coreEval H C c0 (77 :: (natToLEn 2 d.length ++ d)) flags none none none none
      = .ok { stack := [d], alt := [], pos := none, chk := c0 } := by
  have hl0 : (UInt8.ofNat (d.length % 256)).toNat = d.length % 256 := by rw [ofNat_toNat_lt (by omega)]
  have hl1 : (UInt8.ofNat (d.length / 256 % 256)).toNat = d.length / 256 := by rw [ofNat_toNat_lt (by omega)]; omega
  exact eval_pd2' H C c0 flags _ _ d (by rw [hl0, hl1]; omega)

theorem eval_pd4 (H : Hashes) (C : Checker σ) (c0 : σ) (flags : Nat) (d : Bytes) (h2 : d.length < 4294967296) :
    coreEval H C c0 (78 :: (natToLEn 4 d.length ++ d)) flags none none none none
      = .ok { stack := [d], alt := [], pos := none, chk := c0 } := by
  have hl0 : (UInt8.ofNat (d.length % 256)).toNat = d.length % 256 := by rw [ofNat_toNat_lt (by omega)]
  have hl1 : (UInt8.ofNat (d.length / 256 % 256)).toNat = d.length / 256 % 256 := by rw [ofNat_toNat_lt (by omega)]
  have hl2 : (UInt8.ofNat (d.length / 256 / 256 % 256)).toNat = d.length / 256 / 256 % 256 := by rw [ofNat_toNat_lt (by omega)]
  have hl3 : (UInt8.ofNat (d.length / 256 / 256 / 256 % 256)).toNat = d.length / 256 / 256 / 256 := by rw [ofNat_toNat_lt (by omega)]; omega
  exact eval_pd4' H C c0 flags _ _ _ _ d (by rw [hl0, hl1, hl2, hl3]; omega)

theorem coreEval_push (H : Hashes) (C : Checker σ) (c0 : σ) (flags : Nat) (d : Bytes) (h : d.length < 4294967296) :
    coreEval H C c0 (appendData [] d) flags none none none none
      = .ok { stack := [d], alt := [], pos := none, chk := c0 } := by
  by_cases h0 : d.length = 0
  · rw [appendData_empty _ _ h0]
    have : d = [] := List.eq_nil_of_length_eq_zero h0
    subst this
    exact eval_empty H C c0 flags
  · by_cases h1 : d.length ≤ 75
    · rw [appendData_direct _ _ (by omega) h1]; exact eval_direct H C c0 flags d (by omega) h1
    · by_cases h2 : d.length ≤ 255
      · rw [appendData_pd1 _ _ (by omega) h2]; exact eval_pd1 H C c0 flags d h2
      · by_cases h3 : d.length ≤ 65535
        · rw [appendData_pd2 _ _ (by omega) h3]; exact eval_pd2 H C c0 flags d h3
        · rw [appendData_pd4 _ _ (by omega)]; exact eval_pd4 H C c0 flags d h


theorem encodeNum_length {v : Int} {b : Bytes} (h : encodeNum v = .ok b) : b.length ≤ 4 := by
  unfold encodeNum at h
  split at h
  · contradiction
  · simp only [] at h
    repeat' split at h
    all_goals (injection h with h; subst h; simp)

theorem encodeNum_out_of_range (v : Int) (h : v < -2147483647 ∨ v > 2147483647) : encodeNum v = .err "ScriptError" := by
  unfold encodeNum; rw [if_pos h]

/-- number push: decodes back -/
theorem push_num (H : Hashes) (C : Checker σ) (c0 : σ) (flags : Nat) (n : Int) (h : n.natAbs ≤ 2147483647) :
    ∃ s t, appendNum [] n = .ok s ∧
      coreEval H C c0 s flags none none none none = .ok { stack := [t], alt := [], pos := none, chk := c0 } ∧
      decodeNum t = .ok n := by
  have he := CG.Proofs.ScriptNum.encodeNum_eq n h
  refine ⟨appendData [] (encodeBig n), encodeBig n, ?_, ?_, ?_⟩
  · simp [appendNum, he]
  · have hl := encodeNum_length he
    exact coreEval_push H C c0 flags _ (by omega)
  · rw [CG.Proofs.ScriptNum.decodeNum_small _ (encodeNum_length he), CG.Proofs.ScriptNum.decode_encode]

/-! ### templates -/

theorem createLockScript_eq (h : Bytes) (hl : h.length = 20) :
    createLockScript h = 118 :: 169 :: 20 :: (h ++ [136, 172]) := by
  unfold createLockScript
  rw [appendData_direct _ _ (by omega) (by omega), hl]
  rfl

theorem lock_recognised (h : Bytes) (hl : h.length = 20) :
    checkLockScript (createLockScript h) = true ∧ extractPubkeyhash (createLockScript h) = .ok h ∧
    ∀ h' : Bytes, checkLockScriptAddr h' (createLockScript h) = .ok (decide (h = h')) := by
  rw [createLockScript_eq h hl]
  have hc : checkLockScript (118 :: 169 :: 20 :: (h ++ [136, 172])) = true := by
    simp [checkLockScript, hl, OP_DUP, OP_HASH160, OP_EQUALVERIFY, OP_CHECKSIG, List.getD_eq_getElem?_getD]
  refine ⟨hc, ?_, ?_⟩
  · simp [extractPubkeyhash, hc, hl]
  · intro h'
    simp [checkLockScriptAddr, hc, hl]


theorem createUnlockScript_eq (sig pk : Bytes) (h1 : 1 ≤ sig.length) (h2 : sig.length ≤ 75)
    (hp : pk.length = 33) :
    createUnlockScript sig pk = (UInt8.ofNat sig.length :: sig) ++ (33 :: pk) := by
  unfold createUnlockScript
  rw [appendData_prefix, appendData_direct [] sig h1 h2, appendData_direct [] pk (by omega) (by omega), hp]
  rfl

/-- the facts about the script `<sig> <pk>` that the recognisers look at -/
theorem unlock_shape (sig pk : Bytes) (h1 : 1 ≤ sig.length) (h2 : sig.length ≤ 75) (hp : pk.length = 33) :
    let S := (UInt8.ofNat sig.length :: sig) ++ (33 :: pk)
    S.length = sig.length + 35 ∧ byteAt S 0 = sig.length ∧ nextOp 0 S = 1 + sig.length ∧
    byteAt S (1 + sig.length) = 33 ∧ nextOp (1 + sig.length) S = S.length ∧
    S.drop (1 + sig.length + 1) = pk := by
  intro S
  have hlen : S.length = sig.length + 35 := by simp [S, hp]
  have hb0 : byteAt S 0 = sig.length := by
    simp [S, byteAt, ofNat_toNat_lt (show sig.length < 256 by omega)]
  have hn0 : nextOp 0 S = 1 + sig.length := by
    rw [nextOp_push S 0 (by omega) (by omega) (by omega) (by omega), hb0]
  have hbi : byteAt S (1 + sig.length) = 33 := by
    have := byteAt_append_right (UInt8.ofNat sig.length :: sig) (33 :: pk) 0
    simp only [List.length_cons, Nat.add_zero] at this
    rw [show 1 + sig.length = sig.length + 1 by omega]
    exact this
  have hni : nextOp (1 + sig.length) S = S.length := by
    rw [nextOp_push S _ (by omega) (by omega) (by omega) (by omega), hbi]; omega
  refine ⟨hlen, hb0, hn0, hbi, hni, ?_⟩
  have : S = (UInt8.ofNat sig.length :: sig ++ [33]) ++ pk := by simp [S]
  rw [this]
  exact List.drop_left' (by simp; omega)

theorem unlock_recognised (sig pk : Bytes) (h1 : 9 ≤ sig.length) (h2 : sig.length ≤ 73) (hp : pk.length = 33) :
    checkUnlockScript (createUnlockScript sig pk) = true ∧
    extractPubkey (createUnlockScript sig pk) = .ok pk ∧
    ∀ pk' : Bytes, checkUnlockScriptAddr pk' (createUnlockScript sig pk) = .ok (decide (pk = pk')) := by
  rw [createUnlockScript_eq sig pk (by omega) (by omega) hp]
  obtain ⟨hlen, hb0, hn0, hbi, hni, hdrop⟩ := unlock_shape sig pk (by omega) (by omega) hp
  generalize (UInt8.ofNat sig.length :: sig) ++ (33 :: pk) = S at *
  have hne : S.isEmpty = false := by
    cases S with
    | nil => simp at hlen
    | cons _ _ => rfl
  have hc : checkUnlockScriptW 9 S = true := by
    unfold checkUnlockScriptW
    rw [if_neg (by rw [hb0, hne]; simp; omega)]
    simp only [hn0]
    rw [if_neg (by rw [hbi, hlen]; simp; omega), hni]
    simp
  refine ⟨hc, ?_, ?_⟩
  · unfold extractPubkey extractPubkeyW
    simp only [hc, hn0, Bool.not_true, Bool.false_eq_true, if_false]
    rw [if_neg (by rw [hlen]; omega), hdrop]
  · intro pk'
    unfold checkUnlockScriptAddr checkUnlockScriptAddrW
    simp only [hc, hn0, Bool.not_true, Bool.false_eq_true, if_false]
    rw [if_neg (by rw [hlen]; omega), hdrop]

/-- the pinned window: a signature push of 70 bytes or fewer is not recognised -/
theorem unlock_pinned_rejects (sig pk : Bytes) (h2 : sig.length ≤ 70) :
    checkUnlockScriptPinned (createUnlockScript sig pk) = false ∧
    extractPubkeyW 71 (createUnlockScript sig pk) = .err "BadData" := by
  have hb : byteAt (createUnlockScript sig pk) 0 < 71 := by
    unfold createUnlockScript
    rw [appendData_prefix]
    by_cases h0 : sig.length = 0
    · rw [appendData_empty _ _ h0]; simp [byteAt]
    · rw [appendData_direct _ _ (by omega) (by omega)]
      simp [byteAt, ofNat_toNat_lt (show sig.length < 256 by omega)]; omega
  have hc : checkUnlockScriptW 71 (createUnlockScript sig pk) = false := by
    unfold checkUnlockScriptW
    rw [if_pos (Or.inr (Or.inl hb))]
  exact ⟨hc, by simp [extractPubkeyW, hc]⟩

theorem addr_ne_panic (lo : Nat) (pk s : Bytes) (p : String) : checkUnlockScriptAddrW lo pk s ≠ .panic p := by
  unfold checkUnlockScriptAddrW
  split
  · simp
  · rename_i hc
    have hc : checkUnlockScriptW lo s = true := by simpa using hc
    unfold checkUnlockScriptW at hc
    split at hc
    · simp at hc
    · simp only [] at hc
      split at hc
      · simp at hc
      · rename_i h
        simp only []
        rw [if_neg (by omega)]
        simp

theorem extract_ne_panic (lo : Nat) (s : Bytes) (p : String) : extractPubkeyW lo s ≠ .panic p := by
  unfold extractPubkeyW
  split
  · simp
  · rename_i hc
    have hc : checkUnlockScriptW lo s = true := by simpa using hc
    unfold checkUnlockScriptW at hc
    split at hc
    · simp at hc
    · simp only [] at hc
      split at hc
      · simp at hc
      · rename_i h
        simp only []
        rw [if_neg (by omega)]
        simp

end eval

end CG.Proofs.ScriptBuild

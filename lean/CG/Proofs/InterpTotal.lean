import CG.Model.Interp
/-!
Helper lemmas for C07 (script evaluation is total): progress of `nextOp`, bounds and
fuel-independence of `skipBranchLoop` / `removeSigLoop`, absence of panics in every combinator of
`exec`, preservation of the `checkIndex ≤ script.length` invariant, and fuel sufficiency of `runWith`.
-/
namespace CG.Model.Interp
open CG CG.Model.ScriptNum

/-! ### `nextOp` -/

theorem nextOp_of_ge {i : Nat} {script : Bytes} (h : i ≥ script.length) :
    nextOp i script = script.length := by
  unfold nextOp; simp [h]

theorem nextOp_bounds {i : Nat} {script : Bytes} (h : i < script.length) :
    i < nextOp i script ∧ nextOp i script ≤ script.length := by
  unfold nextOp
  rw [if_neg (by omega)]
  simp only []
  split
  · omega
  · rename_i n heq
    repeat' split at heq
    all_goals first | contradiction | (simp only [Option.some.injEq] at heq; subst heq; split <;> omega)

theorem nextOp_le (i : Nat) (script : Bytes) : nextOp i script ≤ script.length := by
  by_cases h : i < script.length
  · exact (nextOp_bounds h).2
  · rw [nextOp_of_ge (by omega)]; omega

theorem nextOp_gt {i : Nat} {script : Bytes} (h : i < script.length) : i < nextOp i script :=
  (nextOp_bounds h).1

/-! ### `skipBranchLoop` -/

theorem skipBranchLoop_le (script : Bytes) (fuel i sub : Nat) :
    skipBranchLoop script fuel i sub ≤ script.length := by
  induction fuel generalizing i sub with
  | zero => simp [skipBranchLoop]
  | succ f ih =>
    unfold skipBranchLoop
    simp only []
    repeat' split
    all_goals first | exact ih _ _ | omega

theorem skipBranchLoop_ge (script : Bytes) (fuel i sub : Nat) (hi : i ≤ script.length) :
    i ≤ skipBranchLoop script fuel i sub := by
  induction fuel generalizing i sub with
  | zero => simpa [skipBranchLoop] using hi
  | succ f ih =>
    unfold skipBranchLoop
    split
    · rename_i hlt
      have h1 := nextOp_gt hlt
      have h2 := nextOp_le i script
      have h3 := fun s => ih (nextOp i script) s h2
      simp only []
      repeat' split
      all_goals first | omega | (rename_i s; have := h3 s; omega) | (have := h3 sub; have := h3 (sub+1); have := h3 (sub-1); omega)
    · omega

theorem skipBranchLoop_of_gt (script : Bytes) (fuel i sub : Nat) (hi : script.length ≤ i) :
    skipBranchLoop script fuel i sub = script.length := by
  cases fuel with
  | zero => rfl
  | succ f => unfold skipBranchLoop; rw [if_neg (by omega)]

/-- one more unit of fuel changes nothing once `fuel + i ≥ script.length + 1` -/
theorem skipBranchLoop_fuel_succ (script : Bytes) (fuel i sub : Nat)
    (h : script.length + 1 ≤ fuel + i) :
    skipBranchLoop script (fuel + 1) i sub = skipBranchLoop script fuel i sub := by
  induction fuel generalizing i sub with
  | zero => rw [skipBranchLoop_of_gt _ _ _ _ (by omega), skipBranchLoop_of_gt _ _ _ _ (by omega)]
  | succ f ih =>
    by_cases hlt : i < script.length
    · have h1 := nextOp_gt hlt
      have e : ∀ s, skipBranchLoop script (f + 1) (nextOp i script) s
                  = skipBranchLoop script f (nextOp i script) s := fun s => ih _ s (by omega)
      rw [skipBranchLoop.eq_2 script i sub (f + 1), skipBranchLoop.eq_2 script i sub f]
      simp only [e]
    · rw [skipBranchLoop_of_gt _ _ _ _ (by omega), skipBranchLoop_of_gt _ _ _ _ (by omega)]

theorem skipBranchLoop_fuel_add (script : Bytes) (fuel k i sub : Nat)
    (h : script.length + 1 ≤ fuel + i) :
    skipBranchLoop script (fuel + k) i sub = skipBranchLoop script fuel i sub := by
  induction k with
  | zero => rfl
  | succ k ih => rw [← Nat.add_assoc, skipBranchLoop_fuel_succ _ _ _ _ (by omega), ih]

theorem skipBranchLoop_fuel_indep (script : Bytes) (f1 f2 i sub : Nat)
    (h1 : script.length + 1 ≤ f1 + i) (h2 : script.length + 1 ≤ f2 + i) :
    skipBranchLoop script f1 i sub = skipBranchLoop script f2 i sub := by
  rcases Nat.le_total f1 f2 with h | h
  · obtain ⟨k, rfl⟩ := Nat.exists_eq_add_of_le h
    exact (skipBranchLoop_fuel_add _ _ _ _ _ h1).symm
  · obtain ⟨k, rfl⟩ := Nat.exists_eq_add_of_le h
    exact skipBranchLoop_fuel_add _ _ _ _ _ h2

theorem skipBranch_le (script : Bytes) (i : Nat) : skipBranch script i ≤ script.length :=
  skipBranchLoop_le _ _ _ _

theorem skipBranch_ge (script : Bytes) (i : Nat) (hi : i ≤ script.length) : i ≤ skipBranch script i :=
  skipBranchLoop_ge _ _ _ _ hi

theorem skipBranch_of_ge (script : Bytes) (i : Nat) (hi : script.length ≤ i) :
    skipBranch script i = script.length :=
  skipBranchLoop_of_gt _ _ _ _ hi

/-! ### `removeSigLoop` -/

theorem removeSigLoop_stop (sig script : Bytes) (fuel i start : Nat) (acc : Bytes)
    (h : ¬ i + sig.length ≤ script.length) :
    removeSigLoop sig script fuel i start acc = acc ++ script.drop start := by
  cases fuel with
  | zero => rfl
  | succ f => unfold removeSigLoop; rw [if_neg h]

theorem removeSigLoop_fuel_succ (sig script : Bytes) (hs : sig ≠ []) (fuel i start : Nat) (acc : Bytes)
    (h : script.length + 1 ≤ fuel + i) :
    removeSigLoop sig script (fuel + 1) i start acc = removeSigLoop sig script fuel i start acc := by
  have hl : 0 < sig.length := List.length_pos_iff.mpr hs
  induction fuel generalizing i start acc with
  | zero => rw [removeSigLoop_stop _ _ _ _ _ _ (by omega), removeSigLoop_stop _ _ _ _ _ _ (by omega)]
  | succ f ih =>
    by_cases hle : i + sig.length ≤ script.length
    · have h1 := nextOp_gt (show i < script.length by omega)
      rw [removeSigLoop.eq_2 sig script i start acc (f + 1), removeSigLoop.eq_2 sig script i start acc f]
      rw [ih (nextOp i script) start acc (by omega), ih (i + sig.length) _ _ (by omega)]
    · rw [removeSigLoop_stop _ _ _ _ _ _ hle, removeSigLoop_stop _ _ _ _ _ _ hle]

theorem removeSigLoop_fuel_add (sig script : Bytes) (hs : sig ≠ []) (fuel k i start : Nat) (acc : Bytes)
    (h : script.length + 1 ≤ fuel + i) :
    removeSigLoop sig script (fuel + k) i start acc = removeSigLoop sig script fuel i start acc := by
  induction k with
  | zero => rfl
  | succ k ih => rw [← Nat.add_assoc, removeSigLoop_fuel_succ _ _ hs _ _ _ _ (by omega), ih]

theorem removeSigLoop_fuel_indep (sig script : Bytes) (hs : sig ≠ []) (f1 f2 i start : Nat) (acc : Bytes)
    (h1 : script.length + 1 ≤ f1 + i) (h2 : script.length + 1 ≤ f2 + i) :
    removeSigLoop sig script f1 i start acc = removeSigLoop sig script f2 i start acc := by
  rcases Nat.le_total f1 f2 with h | h
  · obtain ⟨k, rfl⟩ := Nat.exists_eq_add_of_le h
    exact (removeSigLoop_fuel_add _ _ hs _ _ _ _ _ h1).symm
  · obtain ⟨k, rfl⟩ := Nat.exists_eq_add_of_le h
    exact removeSigLoop_fuel_add _ _ hs _ _ _ _ _ h2

/-! ### checker oracles that never panic -/

/-- the oracle never answers with a panic (the three concrete checkers are covered by
    `C07_checker_no_panic`) -/
def Checker.NeverPanics {σ : Type} (C : Checker σ) : Prop :=
  (∀ c sig pk scr s, (C.checkSig c sig pk scr).1 ≠ .panic s) ∧
  (∀ c t s, C.checkLocktime c t ≠ .panic s) ∧
  (∀ c t s, C.checkSequence c t ≠ .panic s)

/-! ### number codecs and pops -/

theorem decodeNum_ne_panic (b : Bytes) (p : String) : decodeNum b ≠ .panic p := by
  unfold decodeNum
  repeat' split
  all_goals simp

theorem encodeNum_ne_panic (v : Int) (p : String) : encodeNum v ≠ .panic p := by
  unfold encodeNum
  simp only []
  repeat' split
  all_goals simp

theorem encodeNum_cases (v : Int) : (∃ b, encodeNum v = .ok b) ∨ (∃ e, encodeNum v = .err e) := by
  cases h : encodeNum v with
  | ok b => exact .inl ⟨b, rfl⟩
  | err e => exact .inr ⟨e, rfl⟩
  | panic p => exact absurd h (encodeNum_ne_panic v p)

theorem popNum_cases (s : Stack) :
    (∃ e, popNum s = .err e) ∨ (∃ v t r, s = t :: r ∧ popNum s = .ok (v, r)) := by
  cases s with
  | nil => exact .inl ⟨_, rfl⟩
  | cons t r =>
    unfold popNum
    simp only []
    split
    · exact .inl ⟨_, rfl⟩
    · cases h : decodeNum t with
      | ok v => exact .inr ⟨v, t, r, rfl, rfl⟩
      | err e => exact .inl ⟨e, rfl⟩
      | panic p => exact absurd h (decodeNum_ne_panic t p)

theorem popBool_cases (s : Stack) :
    (∃ e, popBool s = .err e) ∨ (∃ v t r, s = t :: r ∧ popBool s = .ok (v, r)) := by
  cases s with
  | nil => exact .inl ⟨_, rfl⟩
  | cons t r =>
    unfold popBool
    simp only []
    split
    · exact .inl ⟨_, rfl⟩
    · exact .inr ⟨_, t, r, rfl, rfl⟩

theorem popBig_cases (s : Stack) :
    (∃ e, popBig s = .err e) ∨ (∃ v t r, s = t :: r ∧ popBig s = .ok (v, r)) := by
  cases s with
  | nil => exact .inl ⟨_, rfl⟩
  | cons t r => exact .inr ⟨_, t, r, rfl, rfl⟩

theorem popNum_ne_panic (s : Stack) (p : String) : popNum s ≠ .panic p := by
  rcases popNum_cases s with ⟨e, h⟩ | ⟨v, t, r, _, h⟩ <;> simp [h]

theorem popBool_ne_panic (s : Stack) (p : String) : popBool s ≠ .panic p := by
  rcases popBool_cases s with ⟨e, h⟩ | ⟨v, t, r, _, h⟩ <;> simp [h]

theorem popBig_ne_panic (s : Stack) (p : String) : popBig s ≠ .panic p := by
  rcases popBig_cases s with ⟨e, h⟩ | ⟨v, t, r, _, h⟩ <;> simp [h]

/-- `pop().unwrap()` after a successful `check_stack_size(n)` with `n ≥ 1` -/
theorem popU_of_length_pos (s : Stack) (h : 1 ≤ s.length) : ∃ t r, s = t :: r ∧ popU s = .ok (t, r) := by
  cases s with
  | nil => simp at h
  | cons t r => exact ⟨t, r, rfl, rfl⟩

/-! ### the "good outcome" predicate: not a panic, and `checkIndex` stays inside the script -/

/-- an `exec` outcome is good for bound `n` when it is not a panic and, if it is a new state, that
    state's `checkIndex` is at most `n` -/
def Good {σ : Type} (n : Nat) : Outcome (Bool × St σ) → Prop
  | .ok (_, st') => st'.checkIndex ≤ n
  | .err _ => True
  | .panic _ => False

section good
variable {σ : Type} {n : Nat}

@[simp] theorem good_ok (b : Bool) (st' : St σ) : Good n (.ok (b, st')) ↔ st'.checkIndex ≤ n := Iff.rfl
@[simp] theorem good_err (e : String) : Good n (.err e : Outcome (Bool × St σ)) := trivial
@[simp] theorem good_scriptErr : Good n (scriptErr : Outcome (Bool × St σ)) := trivial
@[simp] theorem good_panic (p : String) : ¬ Good n (.panic p : Outcome (Bool × St σ)) := id

theorem Good.ne_panic {o : Outcome (Bool × St σ)} (h : Good n o) (p : String) : o ≠ .panic p := by
  intro e; subst e; exact h

theorem Good.checkIndex_le {o : Outcome (Bool × St σ)} (h : Good n o) {b : Bool} {st' : St σ}
    (e : o = .ok (b, st')) : st'.checkIndex ≤ n := by
  subst e; exact h

theorem good_checkSize {m : Nat} {s : Stack} {k : Outcome (Bool × St σ)}
    (h : m ≤ s.length → Good n k) : Good n (checkSize m s k) := by
  unfold checkSize
  split
  · exact good_scriptErr
  · exact h (by omega)

theorem good_pushSlice (script : Bytes) (off len : Nat) (st : St σ) (h : st.checkIndex ≤ n) :
    Good n (pushSlice script off len st) := by
  unfold pushSlice
  split <;> simp [h]

theorem good_unaryBig (st : St σ) (f : Int → Int) (h : st.checkIndex ≤ n) : Good n (unaryBig st f) := by
  unfold unaryBig
  rcases popBig_cases st.stack with ⟨e, h1⟩ | ⟨v, t, r, _, h1⟩ <;> simp [h1, h]

theorem good_binaryBig (st : St σ) (f : Int → Int → Outcome Bytes) (h : st.checkIndex ≤ n)
    (hf : ∀ a b p, f a b ≠ .panic p) : Good n (binaryBig st f) := by
  unfold binaryBig
  rcases popBig_cases st.stack with ⟨e, h1⟩ | ⟨b, t, r, _, h1⟩
  · simp [h1]
  · rcases popBig_cases r with ⟨e, h2⟩ | ⟨a, t2, r2, _, h2⟩
    · simp [h1, h2]
    · simp only [h1, h2]
      cases h3 : f a b with
      | ok v => simpa using h
      | err e => simp
      | panic p => exact absurd h3 (hf a b p)

theorem good_bitwise (st : St σ) (f : UInt8 → UInt8 → UInt8) (h : st.checkIndex ≤ n) :
    Good n (bitwise st f) := by
  unfold bitwise
  apply good_checkSize
  intro hl
  rcases hs : st.stack with _ | ⟨a, _ | ⟨b, r⟩⟩
  · simp [hs] at hl
  · simp [hs] at hl
  · simp only [popU]
    split <;> simp [h]

theorem good_hashOp (st : St σ) (hf : Bytes → Bytes) (h : st.checkIndex ≤ n) : Good n (hashOp st hf) := by
  unfold hashOp
  apply good_checkSize
  intro hl
  obtain ⟨t, r, _, h1⟩ := popU_of_length_pos _ hl
  simp [h1, h]

end good

/-! ### OP_NUM2BIN -/

theorem num2bin_ne_panic (m : Int) (b : Bytes) (p : String) : num2bin m b ≠ .panic p := by
  unfold num2bin
  split
  · simp [scriptErr]
  split
  · simp [scriptErr]
  split
  · simp [scriptErr]
  rename_i h1 h2 h3
  simp only []
  split
  · rename_i heq
    -- the padded vector has length `m ≥ 1`
    have hlen := congrArg List.length heq
    simp only [List.length_append, List.length_replicate, List.length_nil] at hlen
    exfalso
    cases hb : b.getLast? with
    | none =>
      have : b = [] := List.getLast?_eq_none_iff.mp hb
      subst this
      simp at hlen; omega
    | some l =>
      simp only [hb, List.length_append, List.length_dropLast, List.length_cons, List.length_nil] at hlen
      omega
  · simp

/-! ### signature checks -/

theorem msLoop_ne_panic {σ : Type} (C : Checker σ) (hC : C.NeverPanics) (script : Bytes) (c : σ)
    (sigs keys : List Bytes) (p : String) : (msLoop C script c sigs keys).1 ≠ .panic p := by
  induction keys generalizing c sigs with
  | nil => cases sigs <;> simp [msLoop]
  | cons k ks ih =>
    cases sigs with
    | nil => simp [msLoop]
    | cons s ss =>
      unfold msLoop
      split
      · exact ih _ _
      · exact ih _ _
      · simp
      · rename_i p' c' heq
        exact absurd (congrArg Prod.fst heq) (hC.1 _ _ _ _ _)

theorem checkMultisig_ne_panic {σ : Type} (C : Checker σ) (hC : C.NeverPanics) (c : σ) (stack : Stack)
    (sub : Bytes) (p : String) : (checkMultisig C c stack sub).1 ≠ .panic p := by
  unfold checkMultisig
  rcases popNum_cases stack with ⟨e, h1⟩ | ⟨total, t, s1, _, h1⟩
  · simp [h1]
  simp only [h1]
  split
  · simp [scriptErr]
  split
  · simp [scriptErr]
  rcases popNum_cases (List.drop total.toNat s1) with ⟨e, h2⟩ | ⟨req, t2, s3, _, h2⟩
  · simp [h2]
  simp only [h2]
  split
  · simp [scriptErr]
  split
  · simp [scriptErr]
  split
  · simp [scriptErr]
  split
  · simp
  · simp
  · rename_i p' c' heq
    exact absurd (congrArg Prod.fst heq) (msLoop_ne_panic C hC _ _ _ _ _)

section good2
variable {σ : Type} {n : Nat}

theorem good_sigCheck (C : Checker σ) (hC : C.NeverPanics) (script : Bytes) (st : St σ) (v : Bool)
    (h : st.checkIndex ≤ n) (hs : st.checkIndex ≤ script.length) : Good n (sigCheck C script st v) := by
  unfold sigCheck
  apply good_checkSize
  intro hl
  rcases hst : st.stack with _ | ⟨a, _ | ⟨b, r⟩⟩
  · simp [hst] at hl
  · simp [hst] at hl
  · simp only [popU]
    rw [if_neg (by omega)]
    split
    · repeat' split
      all_goals simp [h]
    · simp
    · rename_i p' c' heq
      exact absurd (congrArg Prod.fst heq) (hC.1 _ _ _ _ _)

theorem good_multisigOp (C : Checker σ) (hC : C.NeverPanics) (script : Bytes) (st : St σ) (v : Bool)
    (h : st.checkIndex ≤ n) (hs : st.checkIndex ≤ script.length) : Good n (multisigOp C script st v) := by
  unfold multisigOp
  rw [if_neg (by omega)]
  split
  · repeat' split
    all_goals simp [h]
  · simp
  · rename_i p' c' heq
    exact absurd (congrArg Prod.fst heq) (checkMultisig_ne_panic C hC _ _ _ _)

end good2

/-! ### `exec`: every arm is good -/

section exec
variable {σ : Type} {n : Nat}

/-- arms that only shuffle the main stack behind a `check_stack_size` -/
theorem good_exec_stack (H : Hashes) (C : Checker σ) (pg : Bool) (script : Bytes) (i : Nat) (st : St σ)
    (h : st.checkIndex ≤ n) (op : Op)
    (hop : op ∈ [Op.nop, .ifdup, .drop, .dup, .nip, .over, .rot, .swap, .tuck, .drop2, .dup2, .dup3,
                 .over2, .rot2, .swap2, .cat, .equal, .equalverify, .invert, .toalt, .bad, .return_]) :
    Good n (exec H C pg script i op st) := by
  obtain ⟨stack, alt, branch, ci, chk⟩ := st
  simp only [List.mem_cons, List.not_mem_nil, or_false] at hop
  rcases hop with rfl | rfl | rfl | rfl | rfl | rfl | rfl | rfl | rfl | rfl | rfl | rfl | rfl | rfl
    | rfl | rfl | rfl | rfl | rfl | rfl | rfl | rfl
  all_goals
    rcases stack with _ | ⟨a, _ | ⟨b, _ | ⟨c, _ | ⟨d, _ | ⟨e, _ | ⟨f, r⟩⟩⟩⟩⟩⟩
    all_goals simp [exec, checkSize, popU, scriptErr]
    all_goals (repeat' split) <;> simp_all
/-- push arms -/
theorem good_exec_push (H : Hashes) (C : Checker σ) (pg : Bool) (script : Bytes) (i : Nat) (st : St σ)
    (h : st.checkIndex ≤ n) (op : Op)
    (hop : (∃ v, op = .pushNum v) ∨ (∃ l, op = .push l) ∨ op = .pushdata1 ∨ op = .pushdata2
            ∨ op = .pushdata4 ∨ op = .depth ∨ op = .size) :
    Good n (exec H C pg script i op st) := by
  rcases hop with ⟨v, rfl⟩ | ⟨l, rfl⟩ | rfl | rfl | rfl | rfl | rfl
  · simp only [exec]
    rcases encodeNum_cases v with ⟨b, hb⟩ | ⟨e, hb⟩ <;> simp [hb, h]
  · exact good_pushSlice _ _ _ _ h
  · simp only [exec]; split
    · exact good_scriptErr
    · exact good_pushSlice _ _ _ _ h
  · simp only [exec]; split
    · exact good_scriptErr
    · exact good_pushSlice _ _ _ _ h
  · simp only [exec]; split
    · exact good_scriptErr
    · exact good_pushSlice _ _ _ _ h
  · simp only [exec]
    rcases encodeNum_cases (st.stack.length : Int) with ⟨b, hb⟩ | ⟨e, hb⟩ <;> simp [hb, h]
  · simp only [exec]
    apply good_checkSize
    intro hl
    rcases hs : st.stack with _ | ⟨t, r⟩
    · simp [hs] at hl
    · simp only []
      rcases encodeNum_cases (t.length : Int) with ⟨b, hb⟩ | ⟨e, hb⟩ <;> simp [hb, h]

/-- flow-control arms and OP_FROMALTSTACK -/
theorem good_exec_flow (H : Hashes) (C : Checker σ) (pg : Bool) (script : Bytes) (i : Nat) (st : St σ)
    (h : st.checkIndex ≤ n) (op : Op)
    (hop : op ∈ [Op.if_, .notif, .else_, .endif, .verify, .fromalt]) :
    Good n (exec H C pg script i op st) := by
  simp only [List.mem_cons, List.not_mem_nil, or_false] at hop
  rcases hop with rfl | rfl | rfl | rfl | rfl | rfl
  · simp only [exec]
    rcases popBool_cases st.stack with ⟨e, h1⟩ | ⟨v, t, r, _, h1⟩ <;> simp [h1, h]
  · simp only [exec]
    rcases popBool_cases st.stack with ⟨e, h1⟩ | ⟨v, t, r, _, h1⟩ <;> simp [h1, h]
  · simp only [exec]; split <;> simp [h]
  · simp only [exec]; split <;> simp [h]
  · simp only [exec]
    rcases popBool_cases st.stack with ⟨e, h1⟩ | ⟨v, t, r, _, h1⟩
    · simp [h1]
    · cases v <;> simp [h1, h]
  · simp only [exec]
    apply good_checkSize
    intro hl
    obtain ⟨t, r, _, h1⟩ := popU_of_length_pos _ hl
    simp [h1, h]

/-- arms that pop a script number and use it as an index / length / shift count -/
theorem good_exec_index (H : Hashes) (C : Checker σ) (pg : Bool) (script : Bytes) (i : Nat) (st : St σ)
    (h : st.checkIndex ≤ n) (op : Op)
    (hop : op ∈ [Op.pick, .roll, .split, .lshift, .rshift]) :
    Good n (exec H C pg script i op st) := by
  simp only [List.mem_cons, List.not_mem_nil, or_false] at hop
  rcases hop with rfl | rfl | rfl | rfl | rfl
  · simp only [exec]
    rcases popNum_cases st.stack with ⟨e, h1⟩ | ⟨v, t, r, _, h1⟩
    · simp [h1]
    · simp only [h1]
      split
      · exact good_scriptErr
      · apply good_checkSize
        intro hl
        have : v.toNat < r.length := by omega
        simp [List.getElem?_eq_getElem this, h]
  · simp only [exec]
    rcases popNum_cases st.stack with ⟨e, h1⟩ | ⟨v, t, r, _, h1⟩
    · simp [h1]
    · simp only [h1]
      split
      · exact good_scriptErr
      · apply good_checkSize
        intro hl
        have : v.toNat < r.length := by omega
        simp [List.getElem?_eq_getElem this, h]
  · simp only [exec]
    apply good_checkSize
    intro hl
    rcases popNum_cases st.stack with ⟨e, h1⟩ | ⟨v, t, r, hs, h1⟩
    · simp [h1]
    · simp only [h1]
      have hr : 1 ≤ r.length := by simp [hs] at hl; omega
      obtain ⟨x, r', _, h2⟩ := popU_of_length_pos _ hr
      simp only [h2]
      repeat' split
      all_goals simp [h]
  · simp only [exec]
    apply good_checkSize
    intro hl
    rcases popNum_cases st.stack with ⟨e, h1⟩ | ⟨v, t, r, hs, h1⟩
    · simp [h1]
    · simp only [h1]
      have hr : 1 ≤ r.length := by simp [hs] at hl; omega
      obtain ⟨x, r', _, h2⟩ := popU_of_length_pos _ hr
      simp only [h2]
      split <;> simp [h]
  · simp only [exec]
    apply good_checkSize
    intro hl
    rcases popNum_cases st.stack with ⟨e, h1⟩ | ⟨v, t, r, hs, h1⟩
    · simp [h1]
    · simp only [h1]
      have hr : 1 ≤ r.length := by simp [hs] at hl; omega
      obtain ⟨x, r', _, h2⟩ := popU_of_length_pos _ hr
      simp only [h2]
      split <;> simp [h]

/-- big-number arithmetic, bitwise and hash arms -/
theorem good_exec_arith (H : Hashes) (C : Checker σ) (pg : Bool) (script : Bytes) (i : Nat) (st : St σ)
    (h : st.checkIndex ≤ n) (op : Op)
    (hop : op ∈ [Op.and_, .or_, .xor_, .add1, .sub1, .negate, .abs, .not_, .notequal0, .add, .sub, .mul,
                 .mul2, .div, .div2, .mod_, .booland, .boolor, .numequal, .numnotequal, .lt, .gt, .le,
                 .ge, .min, .max, .ripemd160, .sha1, .sha256, .hash160, .hash256]) :
    Good n (exec H C pg script i op st) := by
  simp only [List.mem_cons, List.not_mem_nil, or_false] at hop
  rcases hop with rfl | rfl | rfl | rfl | rfl | rfl | rfl | rfl | rfl | rfl | rfl | rfl | rfl | rfl
    | rfl | rfl | rfl | rfl | rfl | rfl | rfl | rfl | rfl | rfl | rfl | rfl | rfl | rfl | rfl | rfl | rfl
  all_goals simp only [exec]
  all_goals first
    | exact good_bitwise _ _ h
    | exact good_unaryBig _ _ h
    | exact good_hashOp _ _ h
    | (apply good_binaryBig _ _ h; intro a b p; first | (simp; done) | (split <;> simp [scriptErr]))

/-- the remaining number arms -/
theorem good_exec_num (H : Hashes) (C : Checker σ) (pg : Bool) (script : Bytes) (i : Nat) (st : St σ)
    (h : st.checkIndex ≤ n) (op : Op)
    (hop : op ∈ [Op.numequalverify, .within, .num2bin, .bin2num]) :
    Good n (exec H C pg script i op st) := by
  simp only [List.mem_cons, List.not_mem_nil, or_false] at hop
  rcases hop with rfl | rfl | rfl | rfl
  · simp only [exec]
    rcases popBig_cases st.stack with ⟨e, h1⟩ | ⟨b, t, r, _, h1⟩
    · simp [h1]
    rcases popBig_cases r with ⟨e, h2⟩ | ⟨a, t2, r2, _, h2⟩
    · simp [h1, h2]
    simp only [h1, h2]
    split <;> simp [h]
  · simp only [exec]
    rcases popBig_cases st.stack with ⟨e, h1⟩ | ⟨b, t, r, _, h1⟩
    · simp [h1]
    rcases popBig_cases r with ⟨e, h2⟩ | ⟨a, t2, r2, _, h2⟩
    · simp [h1, h2]
    rcases popBig_cases r2 with ⟨e, h3⟩ | ⟨x, t3, r3, _, h3⟩
    · simp [h1, h2, h3]
    simp [h1, h2, h3, h]
  · simp only [exec]
    apply good_checkSize
    intro hl
    rcases popBig_cases st.stack with ⟨e, h1⟩ | ⟨m, t, r, hs, h1⟩
    · simp [h1]
    simp only [h1]
    have hr : 1 ≤ r.length := by simp [hs] at hl; omega
    obtain ⟨x, r', _, h2⟩ := popU_of_length_pos _ hr
    simp only [h2]
    cases h3 : num2bin m x with
    | ok v => simpa using h
    | err e => simp
    | panic p => exact absurd h3 (num2bin_ne_panic _ _ _)
  · simp only [exec]
    apply good_checkSize
    intro hl
    obtain ⟨t, r, _, h1⟩ := popU_of_length_pos _ hl
    simp [h1, h]

/-- arms that call the checker, and OP_CODESEPARATOR -/
theorem good_exec_checker (H : Hashes) (C : Checker σ) (hC : C.NeverPanics) (pg : Bool) (script : Bytes)
    (i : Nat) (st : St σ) (h : st.checkIndex ≤ n) (hin : i + 1 ≤ n) (hs : st.checkIndex ≤ script.length)
    (op : Op)
    (hop : op ∈ [Op.codesep, .checksig, .checksigverify, .checkmultisig, .checkmultisigverify, .cltv, .csv]) :
    Good n (exec H C pg script i op st) := by
  simp only [List.mem_cons, List.not_mem_nil, or_false] at hop
  rcases hop with rfl | rfl | rfl | rfl | rfl | rfl | rfl
  · simpa [exec] using hin
  · exact good_sigCheck C hC script st false h hs
  · exact good_sigCheck C hC script st true h hs
  · exact good_multisigOp C hC script st false h hs
  · exact good_multisigOp C hC script st true h hs
  · simp only [exec]
    split
    · rcases popNum_cases st.stack with ⟨e, h1⟩ | ⟨v, t, r, _, h1⟩
      · simp [h1]
      simp only [h1]
      cases h2 : C.checkLocktime st.chk v with
      | ok b => cases b <;> simp [h]
      | err e => simp
      | panic p => exact absurd h2 (hC.2.1 _ _ _)
    · simpa using h
  · simp only [exec]
    split
    · rcases popNum_cases st.stack with ⟨e, h1⟩ | ⟨v, t, r, _, h1⟩
      · simp [h1]
      simp only [h1]
      cases h2 : C.checkSequence st.chk v with
      | ok b => cases b <;> simp [h]
      | err e => simp
      | panic p => exact absurd h2 (hC.2.2 _ _ _)
    · simpa using h

/-- every arm of the opcode dispatch is good: it never panics, and it keeps `checkIndex` within any
    bound `n ≥ i + 1` that held before.  The only hypothesis about the state is the invariant
    `checkIndex ≤ script.length` (needed by `script[check_index..]`). -/
theorem good_exec (H : Hashes) (C : Checker σ) (hC : C.NeverPanics) (pg : Bool) (script : Bytes)
    (i : Nat) (op : Op) (st : St σ) (h : st.checkIndex ≤ n) (hin : i + 1 ≤ n)
    (hs : st.checkIndex ≤ script.length) : Good n (exec H C pg script i op st) := by
  cases op
  case pushNum v => exact good_exec_push H C pg script i st h _ (.inl ⟨v, rfl⟩)
  case push l => exact good_exec_push H C pg script i st h _ (.inr (.inl ⟨l, rfl⟩))
  all_goals first
    | (refine good_exec_stack H C pg script i st h _ ?_; simp; done)
    | (refine good_exec_push H C pg script i st h _ ?_; simp; done)
    | (refine good_exec_flow H C pg script i st h _ ?_; simp; done)
    | (refine good_exec_index H C pg script i st h _ ?_; simp; done)
    | (refine good_exec_arith H C pg script i st h _ ?_; simp; done)
    | (refine good_exec_num H C pg script i st h _ ?_; simp; done)
    | (refine good_exec_checker H C hC pg script i st h hin hs _ ?_; simp; done)

end exec

/-! ### the main loop -/

section loop
variable {σ : Type}

/-- the position the loop looks at after skipping a branch that is not taken -/
def advance (script : Bytes) (st : St σ) (i : Nat) : Nat :=
  match st.branch with
  | false :: _ => skipBranch script i
  | _ => i

theorem advance_ge (script : Bytes) (st : St σ) (i : Nat) (hi : i ≤ script.length) :
    i ≤ advance script st i := by
  unfold advance
  split
  · exact skipBranch_ge _ _ hi
  · omega

theorem finish_ne_panic (st : St σ) (i : Nat) (p : String) : finish st i ≠ .panic p := by
  unfold finish; split <;> simp [scriptErr]

theorem finish_ok {st st' : St σ} {i j : Nat} (h : finish st i = .ok (st', j)) : st' = st ∧ j = i := by
  unfold finish at h
  split at h
  · simp at h; exact ⟨h.1.symm, h.2.symm⟩
  · simp [scriptErr] at h

/-- the debugger's break test -/
def brkHit (breakAt : Option Nat) (i : Nat) : Bool :=
  match breakAt with | some v => decide (i ≥ v) | none => false

/-- one turn of the loop, with the recursive call abstracted -/
def loopBody (ex : Nat → Op → St σ → Outcome (Bool × St σ)) (script : Bytes) (breakAt : Option Nat)
    (k : Nat → St σ → Outcome (St σ × Nat)) (i : Nat) (st : St σ) : Outcome (St σ × Nat) :=
  if i < script.length then
    let i := advance script st i
    if i ≥ script.length then finish st i
    else if brkHit breakAt i then finish st i
    else
      match ex i (decodeOp (script.getD i 0)) st with
      | .ok (true, st') => finish st' i
      | .ok (false, st') => k (nextOp i script) st'
      | .err e => .err e
      | .panic p => .panic p
  else finish st i

theorem runWith_succ (ex : Nat → Op → St σ → Outcome (Bool × St σ)) (script : Bytes)
    (breakAt : Option Nat) (fuel i : Nat) (st : St σ) :
    runWith ex script breakAt (fuel + 1) i st
      = loopBody ex script breakAt (runWith ex script breakAt fuel) i st := rfl

/-- the body only ever calls its continuation at a strictly larger position inside the script -/
theorem loopBody_congr (ex : Nat → Op → St σ → Outcome (Bool × St σ)) (script : Bytes)
    (breakAt : Option Nat) (k k' : Nat → St σ → Outcome (St σ × Nat)) (i : Nat) (st : St σ)
    (h : ∀ j st', i < j → j ≤ script.length → k j st' = k' j st') :
    loopBody ex script breakAt k i st = loopBody ex script breakAt k' i st := by
  unfold loopBody
  split
  · rename_i hlt
    have h0 := advance_ge script st i (by omega)
    generalize advance script st i = i0 at h0
    simp only []
    split
    · rfl
    · rename_i hge
      have h1 := nextOp_gt (show i0 < script.length by omega)
      have h2 := nextOp_le i0 script
      split
      · rfl
      · cases hex : ex i0 (decodeOp (script.getD i0 0)) st with
        | ok bs =>
          obtain ⟨b, st'⟩ := bs
          cases b
          · exact h _ _ (by omega) h2
          · rfl
        | err e => rfl
        | panic p => rfl
  · rfl

theorem runWith_fuel_succ (ex : Nat → Op → St σ → Outcome (Bool × St σ)) (script : Bytes)
    (breakAt : Option Nat) (fuel i : Nat) (st : St σ)
    (h1 : 1 ≤ fuel) (h2 : script.length + 1 ≤ fuel + i) :
    runWith ex script breakAt (fuel + 1) i st = runWith ex script breakAt fuel i st := by
  induction fuel generalizing i st with
  | zero => omega
  | succ f ih =>
    rw [runWith_succ _ _ _ (f + 1), runWith_succ _ _ _ f]
    apply loopBody_congr
    intro j st' hij hj
    exact ih j st' (by omega) (by omega)

theorem runWith_fuel_add (ex : Nat → Op → St σ → Outcome (Bool × St σ)) (script : Bytes)
    (breakAt : Option Nat) (fuel k i : Nat) (st : St σ)
    (h1 : 1 ≤ fuel) (h2 : script.length + 1 ≤ fuel + i) :
    runWith ex script breakAt (fuel + k) i st = runWith ex script breakAt fuel i st := by
  induction k with
  | zero => rfl
  | succ k ih => rw [← Nat.add_assoc, runWith_fuel_succ _ _ _ _ _ _ (by omega) (by omega), ih]

/-- with enough fuel the loop never reports "out of fuel" of its own: if the per-opcode semantics
    is good (never panics, keeps the `checkIndex` invariant), neither does the loop -/
theorem runWith_ne_panic (ex : Nat → Op → St σ → Outcome (Bool × St σ)) (script : Bytes)
    (breakAt : Option Nat)
    (hex : ∀ i op st, i < script.length → st.checkIndex ≤ script.length →
            Good script.length (ex i op st))
    (fuel i : Nat) (st : St σ) (h1 : 1 ≤ fuel) (h2 : script.length + 1 ≤ fuel + i)
    (hs : st.checkIndex ≤ script.length) (p : String) :
    runWith ex script breakAt fuel i st ≠ .panic p := by
  induction fuel generalizing i st with
  | zero => omega
  | succ f ih =>
    rw [runWith_succ]
    unfold loopBody
    split
    · rename_i hlt
      have h0 := advance_ge script st i (by omega)
      generalize advance script st i = i0 at h0
      simp only []
      split
      · exact finish_ne_panic _ _ _
      · rename_i hge
        have hlt0 : i0 < script.length := by omega
        have hn1 := nextOp_gt hlt0
        split
        · exact finish_ne_panic _ _ _
        · have hg := hex i0 (decodeOp (script.getD i0 0)) st hlt0 hs
          cases heq : ex i0 (decodeOp (script.getD i0 0)) st with
          | ok bs =>
            obtain ⟨b, st'⟩ := bs
            rw [heq] at hg
            cases b
            · exact ih _ st' (by omega) (by omega) hg
            · exact finish_ne_panic _ _ _
          | err e => simp
          | panic p' =>
            rw [heq] at hg
            exact absurd hg (good_panic _)
    · exact finish_ne_panic _ _ _

theorem runWith_fuel_indep (ex : Nat → Op → St σ → Outcome (Bool × St σ)) (script : Bytes)
    (breakAt : Option Nat) (f1 f2 i : Nat) (st : St σ)
    (h1 : script.length - i + 1 ≤ f1) (h2 : script.length - i + 1 ≤ f2) :
    runWith ex script breakAt f1 i st = runWith ex script breakAt f2 i st := by
  rcases Nat.le_total f1 f2 with h | h
  · obtain ⟨k, rfl⟩ := Nat.exists_eq_add_of_le h
    exact (runWith_fuel_add _ _ _ _ _ _ _ (by omega) (by omega)).symm
  · obtain ⟨k, rfl⟩ := Nat.exists_eq_add_of_le h
    exact runWith_fuel_add _ _ _ _ _ _ _ (by omega) (by omega)

end loop

end CG.Model.Interp

import CG.Model.Rx
import CG.Spec.EventSpec
/-!
C13 — helper lemmas and invariants for the model of `util::rx` (`CG.Model.Rx`).

Part 1: state-update algebra.
Part 2: settledness (no marker at the head of a continuation after a step) — any algorithm.
Part 3: the repaired algorithm: instruction family, lock-holder shape, latch protocol
        → deadlock freedom, no lost wake-up.
Part 4 (`CG.Proofs.RxOnce`): the repaired algorithm, plain subject: exactly-once.
Part 5 (`CG.Proofs.RxSingle`): the repaired algorithm, single-shot subject: exactly-once.
-/
namespace CG.Model.Rx

/-! ## Part 1 — state-update algebra -/

@[simp] theorem upd_same {α : Type} (f : Nat → α) (i : Nat) (v : α) : upd f i v i = v := by simp [upd]
theorem upd_apply {α : Type} (f : Nat → α) (i j : Nat) (v : α) : upd f i v j = if j = i then v else f j := rfl
@[simp] theorem upd_other {α : Type} (f : Nat → α) (i j : Nat) (v : α) (h : j ≠ i) : upd f i v j = f j := by
  simp [upd, h]
theorem upd2_apply {α : Type} (f : Nat → Nat → α) (i k a b : Nat) (v : α) :
    upd2 f i k v a b = if a = i ∧ b = k then v else f a b := rfl
@[simp] theorem upd2_same {α : Type} (f : Nat → Nat → α) (i k : Nat) (v : α) : upd2 f i k v i k = v := by
  simp [upd2]

namespace Sys
variable (s : Sys) (t : Tid) (th : Thread) (c : List Instr) (ev : HEv)

@[simp] theorem setThr_thr : (s.setThr t th).thr = upd s.thr t th := rfl
@[simp] theorem setThr_algo : (s.setThr t th).algo = s.algo := rfl
@[simp] theorem setThr_kind : (s.setThr t th).kind = s.kind := rfl
@[simp] theorem setThr_behs : (s.setThr t th).behs = s.behs := rfl
@[simp] theorem setThr_n : (s.setThr t th).n = s.n := rfl
@[simp] theorem setThr_owner : (s.setThr t th).owner = s.owner := rfl
@[simp] theorem setThr_observers : (s.setThr t th).observers = s.observers := rfl
@[simp] theorem setThr_pending : (s.setThr t th).pending = s.pending := rfl
@[simp] theorem setThr_value : (s.setThr t th).value = s.value := rfl
@[simp] theorem setThr_lockM : (s.setThr t th).lockM = s.lockM := rfl
@[simp] theorem setThr_lockV : (s.setThr t th).lockV = s.lockV := rfl
@[simp] theorem setThr_lockO : (s.setThr t th).lockO = s.lockO := rfl
@[simp] theorem setThr_lockP : (s.setThr t th).lockP = s.lockP := rfl
@[simp] theorem setThr_lockL : (s.setThr t th).lockL = s.lockL := rfl
@[simp] theorem setThr_lockR : (s.setThr t th).lockR = s.lockR := rfl
@[simp] theorem setThr_lOpen : (s.setThr t th).lOpen = s.lOpen := rfl
@[simp] theorem setThr_rVal : (s.setThr t th).rVal = s.rVal := rfl
@[simp] theorem setThr_nextId : (s.setThr t th).nextId = s.nextId := rfl
@[simp] theorem setThr_hist : (s.setThr t th).hist = s.hist := rfl

theorem setCont_eq : s.setCont t c = s.setThr t { s.thr t with cont := c } := rfl

@[simp] theorem log_thr : (s.log ev).thr = s.thr := rfl
@[simp] theorem log_algo : (s.log ev).algo = s.algo := rfl
@[simp] theorem log_kind : (s.log ev).kind = s.kind := rfl
@[simp] theorem log_behs : (s.log ev).behs = s.behs := rfl
@[simp] theorem log_n : (s.log ev).n = s.n := rfl
@[simp] theorem log_owner : (s.log ev).owner = s.owner := rfl
@[simp] theorem log_observers : (s.log ev).observers = s.observers := rfl
@[simp] theorem log_pending : (s.log ev).pending = s.pending := rfl
@[simp] theorem log_value : (s.log ev).value = s.value := rfl
@[simp] theorem log_lockM : (s.log ev).lockM = s.lockM := rfl
@[simp] theorem log_lockV : (s.log ev).lockV = s.lockV := rfl
@[simp] theorem log_lockO : (s.log ev).lockO = s.lockO := rfl
@[simp] theorem log_lockP : (s.log ev).lockP = s.lockP := rfl
@[simp] theorem log_lockL : (s.log ev).lockL = s.lockL := rfl
@[simp] theorem log_lockR : (s.log ev).lockR = s.lockR := rfl
@[simp] theorem log_lOpen : (s.log ev).lOpen = s.lOpen := rfl
@[simp] theorem log_rVal : (s.log ev).rVal = s.rVal := rfl
@[simp] theorem log_nextId : (s.log ev).nextId = s.nextId := rfl
@[simp] theorem log_hist : (s.log ev).hist = s.hist ++ [ev] := rfl

end Sys


/-- the event(s) recorded by the first lock operation of a `subscribe` call -/
def beginEvs (t : Tid) (o : Ob) (c : Nat) : List HEv :=
  match o with
  | .user _ => [.subBegin t o c]
  | .poller _ k => [.pollBegin t k, .subBegin t o c]

namespace Sys
variable (s : Sys) (t : Tid) (o : Ob) (c : Nat)
@[simp] theorem recBegin_hist : (s.recBegin t o c).hist = s.hist ++ beginEvs t o c := by
  cases o <;> simp [recBegin, beginEvs]
@[simp] theorem recBegin_thr : (s.recBegin t o c).thr = s.thr := by cases o <;> rfl
@[simp] theorem recBegin_algo : (s.recBegin t o c).algo = s.algo := by cases o <;> rfl
@[simp] theorem recBegin_kind : (s.recBegin t o c).kind = s.kind := by cases o <;> rfl
@[simp] theorem recBegin_behs : (s.recBegin t o c).behs = s.behs := by cases o <;> rfl
@[simp] theorem recBegin_n : (s.recBegin t o c).n = s.n := by cases o <;> rfl
@[simp] theorem recBegin_owner : (s.recBegin t o c).owner = s.owner := by cases o <;> rfl
@[simp] theorem recBegin_observers : (s.recBegin t o c).observers = s.observers := by cases o <;> rfl
@[simp] theorem recBegin_pending : (s.recBegin t o c).pending = s.pending := by cases o <;> rfl
@[simp] theorem recBegin_value : (s.recBegin t o c).value = s.value := by cases o <;> rfl
@[simp] theorem recBegin_lockM : (s.recBegin t o c).lockM = s.lockM := by cases o <;> rfl
@[simp] theorem recBegin_lockV : (s.recBegin t o c).lockV = s.lockV := by cases o <;> rfl
@[simp] theorem recBegin_lockO : (s.recBegin t o c).lockO = s.lockO := by cases o <;> rfl
@[simp] theorem recBegin_lockP : (s.recBegin t o c).lockP = s.lockP := by cases o <;> rfl
@[simp] theorem recBegin_lockL : (s.recBegin t o c).lockL = s.lockL := by cases o <;> rfl
@[simp] theorem recBegin_lockR : (s.recBegin t o c).lockR = s.lockR := by cases o <;> rfl
@[simp] theorem recBegin_lOpen : (s.recBegin t o c).lOpen = s.lOpen := by cases o <;> rfl
@[simp] theorem recBegin_rVal : (s.recBegin t o c).rVal = s.rVal := by cases o <;> rfl
@[simp] theorem recBegin_nextId : (s.recBegin t o c).nextId = s.nextId := by cases o <;> rfl
end Sys

/-- head of the continuation of thread `u` -/
def hd (s : Sys) (u : Tid) : Option Instr := (s.thr u).cont.head?

/-! ## Part 2 — instruction classes, settledness -/

def Instr.isMarker : Instr → Bool
  | .mSubRet _ _ | .mSnapDrop _ | .mPubEnd _ _ | .mPollRet _ | .pIter _ _ _ _ _ => true
  | _ => false

/-- instructions of the repaired algorithm (and the algorithm-independent ones) -/
def Instr.isRep : Instr → Bool
  | .pTryO _ | .pTryOIn _ _ | .pRelO | .pWritePPush _ _ | .pRelP | .pReadO _ | .pReadOIn _ _ | .pWriteORetain
  | .pReadP | .pWriteO | .pWritePAppend | .pqWriteV _ | .pqReadV _ | .pIter _ _ _ _ _ => false
  | _ => true

/-- instructions that are only ever created at the head of a continuation, by the step that acquired
    the lock they are going to release (or hand on) -/
def Instr.headOnly : Instr → Bool
  | .relM | .relMR | .relSnap _ _ _ | .acqPushR _ _ | .relRead | .relWrite
  | .getWait _ _ | .getReacq _ _ | .getUnlockL _ _ | .getLockR _ _ | .getUnlockR _ _
  | .putLockL _ _ | .putNotify _ _ | .putUnlockL _ _ | .putUnlockR _ _ => true
  | _ => false

def Instr.holdsM : Instr → Bool
  | .relM | .relMR | .relSnap _ _ _ => true
  | _ => false
def Instr.holdsVr : Instr → Bool
  | .acqPushR _ _ | .relMR | .relRead => true
  | _ => false
def Instr.holdsVw : Instr → Bool
  | .relWrite => true
  | _ => false
def Instr.holdsL (a k : Nat) (i : Instr) : Bool :=
  i = .getUnlockL a k || i = .getWait a k || i = .putNotify a k || i = .putUnlockL a k
def Instr.holdsR (a k : Nat) (i : Instr) : Bool :=
  i = .getUnlockR a k || i = .putLockL a k || i = .putNotify a k || i = .putUnlockL a k || i = .putUnlockR a k

/-- thread `t` is at rest: its continuation does not start with a marker, and is empty only when the
    program is used up -/
def SettledAt (s : Sys) (t : Tid) : Prop :=
  match (s.thr t).cont with
  | [] => (s.thr t).prog = []
  | i :: _ => i.isMarker = false

end CG.Model.Rx
namespace CG.Model.Rx

/-- the four plain markers: what popping one does -/
def popMark (s : Sys) (t : Tid) (m : Instr) (k : List Instr) : Sys :=
  match m with
  | .mSubRet o c => (s.log (.subRet t o c)).setCont t k
  | .mSnapDrop _ => s.setCont t k
  | .mPubEnd e p => (s.log (.pubEnd t e p)).setCont t k
  | .mPollRet i => (s.log (.pollRet t i (s.thr t).reg)).setCont t k
  | _ => s

/-- Induction principle for `settle` on a continuation of the repaired family: a property preserved by
    popping a plain marker and by starting the next operation survives `settle`. -/
theorem settle_ind (P : Sys → Prop) (t : Tid)
    (hpop : ∀ s m k, P s → (s.thr t).cont = m :: k → m.isMarker = true → m.isRep = true → P (popMark s t m k))
    (hexp : ∀ s, P s → (s.thr t).cont = [] → P (expand s t))
    (hrep : ∀ s m k, P s → (s.thr t).cont = m :: k → m.isRep = true) :
    ∀ fuel s, P s → P (settle fuel s t) := by
  intro fuel
  induction fuel with
  | zero => intro s h; simpa [settle] using h
  | succ f ih =>
    intro s h
    unfold settle
    split
    · rename_i hc; exact hexp s h hc
    · rename_i o c k hc; exact ih _ (hpop s _ k h hc rfl rfl)
    · rename_i sn k hc; exact ih _ (hpop s _ k h hc rfl rfl)
    · rename_i e p k hc; exact ih _ (hpop s _ k h hc rfl rfl)
    · rename_i i k hc; exact ih _ (hpop s _ k h hc rfl rfl)
    · rename_i cur xs e p any k hc
      have := hrep s _ k h hc
      simp [Instr.isRep] at this
    · exact h

end CG.Model.Rx

namespace CG.Model.Rx

@[simp] theorem popMark_cont (s : Sys) (t : Tid) (m : Instr) (k : List Instr) (hm : m.isMarker = true) (hr : m.isRep = true) :
    ((popMark s t m k).thr t).cont = k := by
  cases m <;> simp [Instr.isMarker, Instr.isRep] at hm hr <;> simp [popMark, Sys.setCont_eq]

/-- the instructions of an operation, as laid down by `expand` -/
def opInstrs (s : Sys) (t : Tid) (op : Op) : List Instr :=
  match op with
  | .sub o => if s.owner o then subInstrs s.algo s.kind (.user o) else [.noop]
  | .pub e => pubInstrs s.algo s.kind e
  | .poll => subInstrs s.algo s.kind (.poller t (s.thr t).opIdx) ++
      [Instr.getLockL t (s.thr t).opIdx, Instr.mPollRet (s.thr t).opIdx]
  | .drop o => [.dropO o]

theorem expand_nil (s : Sys) (t : Tid) (h : (s.thr t).prog = []) : expand s t = s := by
  simp [expand, h]

theorem expand_cons (s : Sys) (t : Tid) (op : Op) (ops : List Op) (h : (s.thr t).prog = op :: ops) :
    expand s t = s.setThr t
      { s.thr t with prog := ops, opIdx := (s.thr t).opIdx + 1, cont := opInstrs s t op } := by
  cases op with
  | sub o => by_cases ho : s.owner o = true <;> simp [expand, h, ho, opInstrs]
  | pub e => simp [expand, h, opInstrs]
  | poll => simp [expand, h, opInstrs]
  | drop o => simp [expand, h, opInstrs]

theorem opInstrs_head_not_marker (s : Sys) (t : Tid) (op : Op) :
    ∃ i k, opInstrs s t op = i :: k ∧ i.isMarker = false := by
  cases op with
  | sub o =>
    by_cases ho : s.owner o = true
    · cases ha : s.algo <;> cases hk : s.kind <;> simp [opInstrs, ho, subInstrs, Instr.isMarker, ha, hk]
    · simp [opInstrs, ho, Instr.isMarker]
  | pub e => cases ha : s.algo <;> cases hk : s.kind <;> simp [opInstrs, pubInstrs, Instr.isMarker, ha, hk]
  | poll => cases ha : s.algo <;> cases hk : s.kind <;> simp [opInstrs, subInstrs, Instr.isMarker, ha, hk]
  | drop o => simp [opInstrs, Instr.isMarker]

theorem expand_settledAt (s : Sys) (t : Tid) (hc : (s.thr t).cont = []) : SettledAt (expand s t) t := by
  cases hp : (s.thr t).prog with
  | nil => rw [expand_nil s t hp]; simp [SettledAt, hc, hp]
  | cons op ops =>
    rw [expand_cons s t op ops hp]
    obtain ⟨i, k, h1, h2⟩ := opInstrs_head_not_marker s t op
    simp [SettledAt, h1, h2]

theorem settle_settledAt (t : Tid) : ∀ fuel (s : Sys), (s.thr t).cont.length < fuel →
    (∀ i ∈ (s.thr t).cont, i.isRep = true) → SettledAt (settle fuel s t) t := by
  intro fuel
  induction fuel with
  | zero => intro s h; omega
  | succ f ih =>
    intro s hlen hrep
    unfold settle
    split
    · rename_i hc; exact expand_settledAt s t hc
    · rename_i o c k hc
      apply ih
      · simp [Sys.setCont_eq]; simp [hc] at hlen; omega
      · intro i hi; simp [Sys.setCont_eq] at hi; exact hrep i (by simp [hc, hi])
    · rename_i sn k hc
      apply ih
      · simp [Sys.setCont_eq]; simp [hc] at hlen; omega
      · intro i hi; simp [Sys.setCont_eq] at hi; exact hrep i (by simp [hc, hi])
    · rename_i e p k hc
      apply ih
      · simp [Sys.setCont_eq]; simp [hc] at hlen; omega
      · intro i hi; simp [Sys.setCont_eq] at hi; exact hrep i (by simp [hc, hi])
    · rename_i j k hc
      apply ih
      · simp [Sys.setCont_eq]; simp [hc] at hlen; omega
      · intro i hi; simp [Sys.setCont_eq] at hi; exact hrep i (by simp [hc, hi])
    · rename_i cur xs e p any k hc
      have := hrep (.pIter cur xs e p any) (by simp [hc])
      simp [Instr.isRep] at this
    · rename_i h1 h2 h3 h4 h5 h6
      unfold SettledAt
      cases hc : (s.thr t).cont with
      | nil => exact absurd hc h1
      | cons i k =>
        cases i <;> simp [Instr.isMarker]
        · exact h2 _ _ _ hc
        · exact h3 _ _ hc
        · exact h4 _ _ _ hc
        · exact h5 _ _ hc
        · exact h6 _ _ _ _ _ _ hc

end CG.Model.Rx
namespace CG.Model.Rx

theorem execE_thr {s s1 : Sys} {t : Tid} {i : Instr} {new : List Instr} (h : execE s t i = some (s1, new)) (u : Tid) :
    (s1.thr u).cont = (s.thr u).cont ∧ (s1.thr u).prog = (s.thr u).prog ∧ (s1.thr u).opIdx = (s.thr u).opIdx := by
  cases i <;> simp only [execE] at h
  all_goals ((try split at h) <;> (try split at h) <;> (try simp at h))
  all_goals (try (obtain ⟨rfl, rfl⟩ := h))
  all_goals (try simp)
  all_goals (simp [upd_apply]; try split <;> simp_all)

end CG.Model.Rx
namespace CG.Model.Rx

/-- the thread whose latch / future a `get…` instruction works on -/
def Instr.getOwner : Instr → Option Nat
  | .getLockL a _ | .getWait a _ | .getReacq a _ | .getUnlockL a _ | .getLockR a _ | .getUnlockR a _ => some a
  | _ => none

/-- Part 3, structural half: instruction family, threads beyond `n`, head-only instructions, latch owners. -/
structure HA (s : Sys) : Prop where
  rep : s.algo = .repaired
  fam : ∀ t, ∀ i ∈ (s.thr t).cont, i.isRep = true
  beyond : ∀ t, s.n ≤ t → (s.thr t).cont = [] ∧ (s.thr t).prog = []
  tf : ∀ t, ∀ i ∈ (s.thr t).cont.tail, i.headOnly = false
  go : ∀ t, ∀ i ∈ (s.thr t).cont, ∀ a, i.getOwner = some a → a = t

theorem deliverInstrs_props (x : Entry) (e p : Nat) :
    ∀ j ∈ deliverInstrs x e p, j.isRep = true ∧ j.headOnly = false ∧ j.getOwner = none ∧ j.isMarker = false := by
  cases x with | mk ob c => cases ob <;> simp [deliverInstrs, Instr.isRep, Instr.headOnly, Instr.getOwner, Instr.isMarker]

theorem deliverSub_props (x : Entry) (e p : Nat) (o : Ob) (c : Nat) :
    ∀ j ∈ deliverInstrs x e p ++ [Instr.mSubRet o c], j.isRep = true ∧ j.headOnly = false ∧ j.getOwner = none := by
  intro j hj
  rcases List.mem_append.1 hj with hj | hj
  · have := deliverInstrs_props x e p j hj; exact ⟨this.1, this.2.1, this.2.2.1⟩
  · simp at hj; subst hj; simp [Instr.isRep, Instr.headOnly, Instr.getOwner]

theorem subInstrs_props (kd : Kind) (o : Ob) :
    ∀ j ∈ subInstrs .repaired kd o, j.isRep = true ∧ j.headOnly = false ∧ j.getOwner = none := by
  cases kd <;> simp [subInstrs, Instr.isRep, Instr.headOnly, Instr.getOwner]

theorem new_props_of_all {new : List Instr} {i : Instr}
    (hall : ∀ j ∈ new, j.isRep = true ∧ j.headOnly = false ∧ j.getOwner = none) :
    (∀ j ∈ new, j.isRep = true) ∧ (∀ j ∈ new.tail, j.headOnly = false) ∧
    (∀ j ∈ new, ∀ a, j.getOwner = some a → i.getOwner = some a) := by
  refine ⟨fun j hj => (hall j hj).1, fun j hj => (hall j (List.mem_of_mem_tail hj)).2.1, fun j hj a h => ?_⟩
  rw [(hall j hj).2.2] at h; cases h

theorem new_props_cons {new : List Instr} {i j0 : Instr} (h0 : j0.isRep = true) (h1 : j0.getOwner = none)
    (hall : ∀ j ∈ new, j.isRep = true ∧ j.headOnly = false ∧ j.getOwner = none) :
    (∀ j ∈ j0 :: new, j.isRep = true) ∧ (∀ j ∈ (j0 :: new).tail, j.headOnly = false) ∧
    (∀ j ∈ j0 :: new, ∀ a, j.getOwner = some a → i.getOwner = some a) := by
  refine ⟨fun j hj => ?_, fun j hj => (hall j hj).2.1, fun j hj a h => ?_⟩
  · rcases List.mem_cons.1 hj with rfl | hj
    · exact h0
    · exact (hall j hj).1
  · rcases List.mem_cons.1 hj with rfl | hj
    · rw [h1] at h; cases h
    · rw [(hall j hj).2.2] at h; cases h

/-- what `execE` puts at the head, for the repaired family -/
theorem execE_new {s s1 : Sys} {t : Tid} {i : Instr} {new : List Instr} (ha : s.algo = .repaired)
    (hi : i.isRep = true) (h : execE s t i = some (s1, new)) :
    (∀ j ∈ new, j.isRep = true) ∧ (∀ j ∈ new.tail, j.headOnly = false) ∧
    (∀ j ∈ new, ∀ a, j.getOwner = some a → i.getOwner = some a) := by
  cases i <;> simp [Instr.isRep] at hi <;> simp only [execE] at h
  all_goals ((try split at h) <;> (try split at h) <;> (try simp at h))
  all_goals (try (obtain ⟨rfl, rfl⟩ := h))
  all_goals (try (simp [Instr.isRep, Instr.headOnly, Instr.getOwner]; done))
  · -- deliver with a subscribing callback
    rw [ha]
    exact new_props_of_all (fun j hj => subInstrs_props _ _ j hj)
  · -- relSnap
    apply new_props_of_all
    intro j hj
    simp only [List.mem_append, List.mem_flatMap, List.mem_singleton] at hj
    rcases hj with ⟨x, _, hx⟩ | rfl
    · have := deliverInstrs_props x _ _ j hx; exact ⟨this.1, this.2.1, this.2.2.1⟩
    · simp [Instr.isRep, Instr.headOnly, Instr.getOwner]
  · -- acqRead, value present
    apply new_props_cons (by simp [Instr.isRep]) (by simp [Instr.getOwner])
    exact deliverSub_props _ _ _ _ _

end CG.Model.Rx
namespace CG.Model.Rx

theorem setCont_cont (s : Sys) (t u : Tid) (c : List Instr) :
    ((s.setCont t c).thr u).cont = if u = t then c else (s.thr u).cont := by
  simp [Sys.setCont_eq, upd_apply]; split <;> simp

theorem setCont_prog (s : Sys) (t u : Tid) (c : List Instr) : ((s.setCont t c).thr u).prog = (s.thr u).prog := by
  simp [Sys.setCont_eq, upd_apply]; split <;> simp_all

theorem setCont_woken (s : Sys) (t u : Tid) (c : List Instr) : ((s.setCont t c).thr u).woken = (s.thr u).woken := by
  simp [Sys.setCont_eq, upd_apply]; split <;> simp_all

theorem execE_static {s s1 : Sys} {t : Tid} {i : Instr} {new : List Instr} (h : execE s t i = some (s1, new)) :
    s1.algo = s.algo ∧ s1.kind = s.kind ∧ s1.behs = s.behs ∧ s1.n = s.n := by
  cases i <;> simp only [execE] at h
  all_goals ((try split at h) <;> (try split at h) <;> (try simp at h))
  all_goals (try (obtain ⟨rfl, rfl⟩ := h))
  all_goals (try simp)
  all_goals (split <;> simp)

theorem exec_eq {s s' : Sys} {t : Tid} {i : Instr} {rest : List Instr} (h : exec s t i rest = some s') :
    ∃ s1 new, execE s t i = some (s1, new) ∧ s' = s1.setCont t (new ++ rest) := by
  unfold exec at h
  split at h
  · cases h
  · rename_i s1 new he; simp at h; exact ⟨s1, new, he, h.symm⟩

theorem HA_exec {s s' : Sys} {t : Tid} {i : Instr} {rest : List Instr} (H : HA s) (ht : t < s.n)
    (hc : (s.thr t).cont = i :: rest) (h : exec s t i rest = some s') : HA s' := by
  obtain ⟨s1, new, he, rfl⟩ := exec_eq h
  have hst := execE_static he
  have hi : i.isRep = true := H.fam t i (by simp [hc])
  obtain ⟨n1, n2, n3⟩ := execE_new H.rep hi he
  have hrest_tail : ∀ j ∈ rest, j.headOnly = false := fun j hj => H.tf t j (by simp [hc, hj])
  refine ⟨by simp [Sys.setCont_eq, hst.1, H.rep], ?_, ?_, ?_, ?_⟩
  · intro u j hj
    rw [setCont_cont] at hj
    split at hj
    · rcases List.mem_append.1 hj with hj | hj
      · exact n1 j hj
      · exact H.fam t j (by simp [hc, hj])
    · rw [(execE_thr he u).1] at hj; exact H.fam u j hj
  · intro u hu
    have hn : (s1.setCont t (new ++ rest)).n = s.n := by simp [Sys.setCont_eq, hst.2.2.2]
    rw [hn] at hu
    have hut : u ≠ t := fun h => by subst h; exact Nat.lt_irrefl _ (Nat.lt_of_lt_of_le ht hu)
    rw [setCont_cont, setCont_prog, if_neg hut, (execE_thr he u).1, (execE_thr he u).2.1]
    exact H.beyond u hu
  · intro u j hj
    rw [setCont_cont] at hj
    split at hj
    · cases new with
      | nil => simp at hj; exact hrest_tail j (List.mem_of_mem_tail hj)
      | cons j0 new' =>
        simp at hj
        rcases hj with hj | hj
        · exact n2 j (by simpa using hj)
        · exact hrest_tail j hj
    · rw [(execE_thr he u).1] at hj; exact H.tf u j hj
  · intro u j hj a hja
    rw [setCont_cont] at hj
    split at hj
    · rename_i hut; subst hut
      rcases List.mem_append.1 hj with hj | hj
      · exact H.go u i (by simp [hc]) a (n3 j hj a hja)
      · exact H.go u j (by simp [hc, hj]) a hja
    · rw [(execE_thr he u).1] at hj; exact H.go u j hj a hja

end CG.Model.Rx
namespace CG.Model.Rx

theorem pubInstrs_props (kd : Kind) (e : Nat) :
    ∀ j ∈ pubInstrs .repaired kd e, j.isRep = true ∧ j.headOnly = false ∧ j.getOwner = none := by
  cases kd <;> simp [pubInstrs, Instr.isRep, Instr.headOnly, Instr.getOwner]

theorem opInstrs_props (s : Sys) (t : Tid) (op : Op) (ha : s.algo = .repaired) :
    ∀ j ∈ opInstrs s t op, j.isRep = true ∧ j.headOnly = false ∧ ∀ a, j.getOwner = some a → a = t := by
  intro j hj
  cases op with
  | sub o =>
    simp only [opInstrs, ha] at hj
    split at hj
    · have := subInstrs_props _ _ j hj; exact ⟨this.1, this.2.1, by simp [this.2.2]⟩
    · simp at hj; subst hj; simp [Instr.isRep, Instr.headOnly, Instr.getOwner]
  | pub e =>
    simp only [opInstrs, ha] at hj
    have := pubInstrs_props _ _ j hj; exact ⟨this.1, this.2.1, by simp [this.2.2]⟩
  | poll =>
    simp only [opInstrs, ha, List.mem_append] at hj
    rcases hj with hj | hj
    · have := subInstrs_props _ _ j hj; exact ⟨this.1, this.2.1, by simp [this.2.2]⟩
    · simp at hj; rcases hj with rfl | rfl <;> simp [Instr.isRep, Instr.headOnly, Instr.getOwner]
  | drop o => simp [opInstrs] at hj; subst hj; simp [Instr.isRep, Instr.headOnly, Instr.getOwner]

theorem popMark_thr_other (s : Sys) (t u : Tid) (m : Instr) (k : List Instr) (h : u ≠ t) :
    (popMark s t m k).thr u = s.thr u := by
  cases m <;> simp [popMark, Sys.setCont_eq, upd_apply, h]

theorem popMark_static (s : Sys) (t : Tid) (m : Instr) (k : List Instr) :
    (popMark s t m k).algo = s.algo ∧ (popMark s t m k).kind = s.kind ∧ (popMark s t m k).behs = s.behs ∧
    (popMark s t m k).n = s.n := by
  cases m <;> simp [popMark, Sys.setCont_eq]

theorem popMark_prog (s : Sys) (t u : Tid) (m : Instr) (k : List Instr) :
    ((popMark s t m k).thr u).prog = (s.thr u).prog := by
  cases m <;> simp [popMark, Sys.setCont_eq, upd_apply] <;> split <;> simp_all

theorem HA_pop {s : Sys} {t : Tid} {m : Instr} {k : List Instr} (H : HA s) (hc : (s.thr t).cont = m :: k)
    (hm : m.isMarker = true) (hr : m.isRep = true) : HA (popMark s t m k) := by
  have hcont : ∀ u, ((popMark s t m k).thr u).cont = if u = t then k else (s.thr u).cont := by
    intro u; by_cases h : u = t
    · subst h; simp [popMark_cont s u m k hm hr]
    · simp [popMark_thr_other s t u m k h, h]
  have hst := popMark_static s t m k
  refine ⟨by rw [hst.1, H.rep], ?_, ?_, ?_, ?_⟩
  · intro u j hj
    rw [hcont] at hj; split at hj
    · exact H.fam t j (by simp [hc, hj])
    · exact H.fam u j hj
  · intro u hu
    rw [hst.2.2.2] at hu
    have hut : u ≠ t := fun h => by subst h; have := (H.beyond u hu).1; rw [hc] at this; cases this
    rw [hcont, if_neg hut, popMark_prog]; exact H.beyond u hu
  · intro u j hj
    rw [hcont] at hj; split at hj
    · exact H.tf t j (by simp [hc]; exact List.mem_of_mem_tail hj)
    · exact H.tf u j hj
  · intro u j hj a hja
    rw [hcont] at hj; split at hj
    · rename_i h; subst h; exact H.go u j (by simp [hc, hj]) a hja
    · exact H.go u j hj a hja

theorem HA_expand {s : Sys} {t : Tid} (H : HA s) (hc : (s.thr t).cont = []) : HA (expand s t) := by
  cases hp : (s.thr t).prog with
  | nil => rw [expand_nil s t hp]; exact H
  | cons op ops =>
    rw [expand_cons s t op ops hp]
    have hprops := opInstrs_props s t op H.rep
    have hcont : ∀ u, ((s.setThr t
        { s.thr t with prog := ops, opIdx := (s.thr t).opIdx + 1, cont := opInstrs s t op }).thr u).cont =
        if u = t then opInstrs s t op else (s.thr u).cont := by
      intro u; simp [upd_apply]; split <;> simp
    refine ⟨by simp [H.rep], ?_, ?_, ?_, ?_⟩
    · intro u j hj
      rw [hcont] at hj; split at hj
      · exact (hprops j hj).1
      · exact H.fam u j hj
    · intro u hu
      simp at hu
      have hut : u ≠ t := fun h => by subst h; have := (H.beyond u hu).2; rw [hp] at this; cases this
      rw [hcont, if_neg hut]; simp [upd_apply, hut]; exact H.beyond u hu
    · intro u j hj
      rw [hcont] at hj; split at hj
      · exact (hprops j (List.mem_of_mem_tail hj)).2.1
      · exact H.tf u j hj
    · intro u j hj a hja
      rw [hcont] at hj; split at hj
      · rename_i h; subst h; exact (hprops j hj).2.2 a hja
      · exact H.go u j hj a hja

theorem HA_settle {s : Sys} {t : Tid} (H : HA s) (fuel : Nat) : HA (settle fuel s t) := by
  apply settle_ind HA t _ _ _ fuel s H
  · intro s m k H hc hm hr; exact HA_pop H hc hm hr
  · intro s H hc; exact HA_expand H hc
  · intro s m k H hc; exact H.fam t m (by simp [hc])

end CG.Model.Rx
namespace CG.Model.Rx

/-- Part 3, lock half: who holds a lock is visible at the head of its continuation; the latch protocol. -/
structure HL (s : Sys) : Prop where
  mR : s.lockM.readers = []
  mW : ∀ u, s.lockM.writer = some u → ∃ i, hd s u = some i ∧ i.holdsM = true
  vW : ∀ u, s.lockV.writer = some u → ∃ i, hd s u = some i ∧ i.holdsVw = true
  vR : ∀ u, u ∈ s.lockV.readers → ∃ i, hd s u = some i ∧ i.holdsVr = true
  vN : s.lockV.readers.Nodup
  lL : ∀ a k u, s.lockL a k = some u ↔ (hd s u).any (Instr.holdsL a k) = true
  lR : ∀ a k u, s.lockR a k = some u ↔ (hd s u).any (Instr.holdsR a k) = true
  gw : ∀ t a k, hd s t = some (.getWait a k) → s.lOpen a k = false
  hw : ∀ t a k, hd s t = some (.getReacq a k) → s.lOpen a k = true → (s.thr t).woken = false →
        ∃ u, hd s u = some (.putNotify a k)

theorem hd_setCont (s : Sys) (t u : Tid) (c : List Instr) :
    hd (s.setCont t c) u = if u = t then c.head? else hd s u := by
  unfold hd; rw [setCont_cont]; split <;> rfl

theorem headOnly_of_holdsM {i : Instr} (h : i.holdsM = true) : i.headOnly = true := by
  cases i <;> simp_all [Instr.holdsM, Instr.headOnly]

theorem HL_exec_M {s s' : Sys} {t : Tid} {i : Instr} {rest : List Instr} (A : HA s) (H : HL s) (ht : t < s.n)
    (hc : (s.thr t).cont = i :: rest) (h : exec s t i rest = some s') :
    s'.lockM.readers = [] ∧ ∀ u, s'.lockM.writer = some u → ∃ j, hd s' u = some j ∧ j.holdsM = true := by
  obtain ⟨s1, new, he, rfl⟩ := exec_eq h
  have hi : i.isRep = true := A.fam t i (by simp [hc])
  have hdt : hd s t = some i := by simp [hd, hc]
  have hrest : ∀ j, rest.head? = some j → j.headOnly = false := fun j hj =>
    A.tf t j (by simp [hc]; exact List.mem_of_mem_head? hj)
  have hmR := H.mR
  have hmW := H.mW
  have hhd : ∀ u, hd s1 u = hd s u := fun u => by unfold hd; rw [(execE_thr he u).1]
  cases i <;> simp [Instr.isRep] at hi <;> simp only [execE] at he
  all_goals ((try split at he) <;> (try split at he) <;> (try simp at he))
  all_goals (try (obtain ⟨rfl, rfl⟩ := he))
  -- instructions that do not touch M
  all_goals try (
    refine ⟨by simpa [Sys.setCont_eq] using hmR, fun u hu => ?_⟩
    obtain ⟨j, hj, hjm⟩ := hmW u (by simpa [Sys.setCont_eq] using hu)
    by_cases hut : u = t
    · subst hut; rw [hdt] at hj; cases hj; simp [Instr.holdsM] at hjm
    · exact ⟨j, by rw [hd_setCont, if_neg hut, hhd]; exact hj, hjm⟩)
  -- acquisitions
  all_goals try (
    rename_i hfree
    refine ⟨by simpa [Sys.setCont_eq, RW.lockW] using hmR, fun u hu => ?_⟩
    have hut : u = t := by simpa [Sys.setCont_eq, RW.lockW, eq_comm] using hu
    subst hut
    exact ⟨_, by rw [hd_setCont, if_pos rfl]; rfl, by simp [Instr.holdsM]⟩)
  -- releases
  all_goals (
    have hun : (s.lockM.unlock t).readers = [] ∧ ∀ u, (s.lockM.unlock t).writer = some u → s.lockM.writer = some u ∧ u ≠ t := by
      unfold RW.unlock
      split
      · rename_i hw; simp [hmR]
      · rename_i hw; simp [hmR]; intro u hu; exact ⟨hu, fun h => hw (by rw [hu, h])⟩
    refine ⟨by simpa [Sys.setCont_eq] using hun.1, fun u hu => ?_⟩
    obtain ⟨hu1, hut⟩ := hun.2 u (by simpa [Sys.setCont_eq] using hu)
    obtain ⟨j, hj, hjm⟩ := hmW u hu1
    exact ⟨j, by rw [hd_setCont, if_neg hut, hhd]; exact hj, hjm⟩)

end CG.Model.Rx

namespace CG.Model.Rx

theorem HL_exec_V {s s' : Sys} {t : Tid} {i : Instr} {rest : List Instr} (A : HA s) (H : HL s) (ht : t < s.n)
    (hc : (s.thr t).cont = i :: rest) (h : exec s t i rest = some s') :
    (∀ u, s'.lockV.writer = some u → ∃ j, hd s' u = some j ∧ j.holdsVw = true) ∧
    (∀ u, u ∈ s'.lockV.readers → ∃ j, hd s' u = some j ∧ j.holdsVr = true) ∧ s'.lockV.readers.Nodup := by
  obtain ⟨s1, new, he, rfl⟩ := exec_eq h
  have hi : i.isRep = true := A.fam t i (by simp [hc])
  have hdt : hd s t = some i := by simp [hd, hc]
  have hvW := H.vW
  have hvR := H.vR
  have hvN := H.vN
  have hhd : ∀ u, hd s1 u = hd s u := fun u => by unfold hd; rw [(execE_thr he u).1]
  cases i <;> simp [Instr.isRep] at hi <;> simp only [execE] at he
  all_goals ((try split at he) <;> (try split at he) <;> (try simp at he))
  all_goals (try (obtain ⟨rfl, rfl⟩ := he))
  -- instructions that do not touch V
  all_goals try (
    refine ⟨fun u hu => ?_, fun u hu => ?_, by simpa [Sys.setCont_eq] using hvN⟩
    · obtain ⟨j, hj, hjm⟩ := hvW u (by simpa [Sys.setCont_eq] using hu)
      by_cases hut : u = t
      · subst hut; rw [hdt] at hj; cases hj; simp [Instr.holdsVw] at hjm
      · exact ⟨j, by rw [hd_setCont, if_neg hut, hhd]; exact hj, hjm⟩
    · obtain ⟨j, hj, hjm⟩ := hvR u (by simpa [Sys.setCont_eq] using hu)
      by_cases hut : u = t
      · subst hut; rw [hdt] at hj; cases hj
        first
          | (simp [Instr.holdsVr] at hjm; done)
          | exact ⟨_, by rw [hd_setCont, if_pos rfl]; rfl, by simp [Instr.holdsVr]⟩
      · exact ⟨j, by rw [hd_setCont, if_neg hut, hhd]; exact hj, hjm⟩)
  -- acqRead (two branches)
  iterate 2 (
    · have hcan : s.lockV.canRead = true := by assumption
      have hw : s.lockV.writer = none := by simpa [RW.canRead] using hcan
      have htn : t ∉ s.lockV.readers := by
        intro hin; obtain ⟨j, hj, hjm⟩ := hvR t hin; rw [hdt] at hj; cases hj; simp [Instr.holdsVr] at hjm
      refine ⟨fun u hu => ?_, fun u hu => ?_, ?_⟩
      · simp [Sys.setCont_eq, RW.lockR, hw] at hu
      · simp only [Sys.setCont_eq, RW.lockR, Sys.setThr_lockV, List.mem_cons] at hu
        by_cases hut : u = t
        · subst hut; exact ⟨_, by rw [hd_setCont, if_pos rfl]; rfl, by simp [Instr.holdsVr]⟩
        · obtain ⟨j, hj, hjm⟩ := hvR u (by rcases hu with h | h; exact absurd h hut; exact h)
          exact ⟨j, by rw [hd_setCont, if_neg hut, hhd]; exact hj, hjm⟩
      · simp only [Sys.setCont_eq, RW.lockR, Sys.setThr_lockV]; exact List.nodup_cons.2 ⟨htn, hvN⟩)
  · -- relRead
    have hw : s.lockV.writer ≠ some t := by
      intro hw; obtain ⟨j, hj, hjm⟩ := hvW t hw; rw [hdt] at hj; cases hj; simp [Instr.holdsVw] at hjm
    have hun : s.lockV.unlock t = { s.lockV with readers := s.lockV.readers.erase t } := by
      unfold RW.unlock; rw [if_neg hw]
    refine ⟨fun u hu => ?_, fun u hu => ?_, ?_⟩
    · simp only [Sys.setCont_eq, Sys.setThr_lockV, hun] at hu
      obtain ⟨j, hj, hjm⟩ := hvW u hu
      have hut : u ≠ t := fun h => hw (h ▸ hu)
      exact ⟨j, by rw [hd_setCont, if_neg hut, hhd]; exact hj, hjm⟩
    · simp only [Sys.setCont_eq, Sys.setThr_lockV, hun] at hu
      have := (List.Nodup.mem_erase_iff hvN).1 hu
      obtain ⟨j, hj, hjm⟩ := hvR u this.2
      exact ⟨j, by rw [hd_setCont, if_neg this.1, hhd]; exact hj, hjm⟩
    · simp only [Sys.setCont_eq, Sys.setThr_lockV, hun]; exact hvN.erase t
  -- acqWrite (two branches)
  iterate 2 (
    · have hfree : s.lockV.free = true := by assumption
      have hw : s.lockV.writer = none ∧ s.lockV.readers = [] := by simpa [RW.free] using hfree
      refine ⟨fun u hu => ?_, fun u hu => ?_, ?_⟩
      · have hut : u = t := by simpa [Sys.setCont_eq, RW.lockW, eq_comm] using hu
        subst hut; exact ⟨_, by rw [hd_setCont, if_pos rfl]; rfl, by simp [Instr.holdsVw]⟩
      · simp [Sys.setCont_eq, RW.lockW, hw.2] at hu
      · simp [Sys.setCont_eq, RW.lockW, hw.2])
  · -- relWrite
    have htn : t ∉ s.lockV.readers := by
      intro hin; obtain ⟨j, hj, hjm⟩ := hvR t hin; rw [hdt] at hj; cases hj; simp [Instr.holdsVr] at hjm
    have hun : (s.lockV.unlock t).readers = s.lockV.readers ∧
        ∀ u, (s.lockV.unlock t).writer = some u → s.lockV.writer = some u ∧ u ≠ t := by
      unfold RW.unlock
      split
      · simp
      · rename_i hw
        refine ⟨by simp [List.erase_of_not_mem htn], fun u hu => ⟨hu, fun h => hw ?_⟩⟩
        simp only at hu; rw [hu, h]
    refine ⟨fun u hu => ?_, fun u hu => ?_, ?_⟩
    · obtain ⟨hu1, hut⟩ := hun.2 u (by simpa [Sys.setCont_eq] using hu)
      obtain ⟨j, hj, hjm⟩ := hvW u hu1
      exact ⟨j, by rw [hd_setCont, if_neg hut, hhd]; exact hj, hjm⟩
    · simp only [Sys.setCont_eq, Sys.setThr_lockV, hun.1] at hu
      have hut : u ≠ t := fun h => htn (h ▸ hu)
      obtain ⟨j, hj, hjm⟩ := hvR u hu
      exact ⟨j, by rw [hd_setCont, if_neg hut, hhd]; exact hj, hjm⟩
    · simp only [Sys.setCont_eq, Sys.setThr_lockV, hun.1]; exact hvN

end CG.Model.Rx
namespace CG.Model.Rx

def Instr.touchesL : Instr → Bool
  | .getLockL _ _ | .getWait _ _ | .getReacq _ _ | .getUnlockL _ _ | .putLockL _ _ | .putNotify _ _ | .putUnlockL _ _ => true
  | _ => false
def Instr.touchesR : Instr → Bool
  | .getLockR _ _ | .getUnlockR _ _ | .putLockR _ _ _ _ _ | .putLockL _ _ | .putNotify _ _ | .putUnlockL _ _ | .putUnlockR _ _ => true
  | _ => false

theorem headOnly_of_holdsL {a k : Nat} {i : Instr} (h : i.holdsL a k = true) : i.headOnly = true := by
  simp [Instr.holdsL] at h; rcases h with ((rfl | rfl) | rfl) | rfl <;> rfl
theorem headOnly_of_holdsR {a k : Nat} {i : Instr} (h : i.holdsR a k = true) : i.headOnly = true := by
  simp [Instr.holdsR] at h; rcases h with (((rfl | rfl) | rfl) | rfl) | rfl <;> rfl

theorem execE_new_noLR {s s1 : Sys} {t : Tid} {i : Instr} {new : List Instr} (ha : s.algo = .repaired)
    (hi : i.isRep = true) (h : execE s t i = some (s1, new)) (a k : Nat) :
    (i.touchesL = false → ∀ j ∈ new, j.holdsL a k = false) ∧ (i.touchesR = false → ∀ j ∈ new, j.holdsR a k = false) := by
  have key : ∀ l : List Instr, (∀ j ∈ l, j.isRep = true ∧ j.headOnly = false) →
      (∀ j ∈ l, j.holdsL a k = false) ∧ (∀ j ∈ l, j.holdsR a k = false) := by
    intro l hl
    refine ⟨fun j hj => ?_, fun j hj => ?_⟩
    · cases hh : j.holdsL a k with
      | false => rfl
      | true => have := headOnly_of_holdsL hh; rw [(hl j hj).2] at this; cases this
    · cases hh : j.holdsR a k with
      | false => rfl
      | true => have := headOnly_of_holdsR hh; rw [(hl j hj).2] at this; cases this
  cases i <;> simp [Instr.isRep] at hi <;> simp only [execE] at h
  all_goals ((try split at h) <;> (try split at h) <;> (try simp at h))
  all_goals (try (obtain ⟨rfl, rfl⟩ := h))
  all_goals (try (simp [Instr.touchesL, Instr.touchesR, Instr.holdsL, Instr.holdsR]; done))
  · -- deliver with a subscribing callback
    rw [ha]
    refine ⟨fun _ => (key _ ?_).1, fun _ => (key _ ?_).2⟩ <;>
      exact fun j hj => ⟨(subInstrs_props _ _ j hj).1, (subInstrs_props _ _ j hj).2.1⟩
  · -- relSnap
    refine ⟨fun _ => (key _ ?_).1, fun _ => (key _ ?_).2⟩ <;> (
      intro j hj
      simp only [List.mem_append, List.mem_flatMap, List.mem_singleton] at hj
      rcases hj with ⟨x, _, hx⟩ | rfl
      · have := deliverInstrs_props x _ _ j hx; exact ⟨this.1, this.2.1⟩
      · simp [Instr.isRep, Instr.headOnly])
  · -- acqRead, value present
    refine ⟨fun _ j hj => ?_, fun _ j hj => ?_⟩
    · rcases List.mem_cons.1 hj with rfl | hj
      · simp [Instr.holdsL]
      · exact (key _ (fun j hj => ⟨(deliverSub_props _ _ _ _ _ j hj).1, (deliverSub_props _ _ _ _ _ j hj).2.1⟩)).1 j hj
    · rcases List.mem_cons.1 hj with rfl | hj
      · simp [Instr.holdsR]
      · exact (key _ (fun j hj => ⟨(deliverSub_props _ _ _ _ _ j hj).1, (deliverSub_props _ _ _ _ _ j hj).2.1⟩)).2 j hj

end CG.Model.Rx
namespace CG.Model.Rx

theorem head?_append_cases {new rest : List Instr} {j : Instr} (h : (new ++ rest).head? = some j) :
    j ∈ new ∨ (new = [] ∧ rest.head? = some j) := by
  cases new with
  | nil => right; exact ⟨rfl, by simpa using h⟩
  | cons x xs => left; simp at h; simp [h]

theorem touchesL_shape {i : Instr} (h : i.touchesL = true) : ∃ a0 k0, i = .getLockL a0 k0 ∨ i = .getWait a0 k0 ∨
    i = .getReacq a0 k0 ∨ i = .getUnlockL a0 k0 ∨ i = .putLockL a0 k0 ∨ i = .putNotify a0 k0 ∨ i = .putUnlockL a0 k0 := by
  cases i with
  | getLockL a k => exact ⟨a, k, .inl rfl⟩
  | getWait a k => exact ⟨a, k, .inr (.inl rfl)⟩
  | getReacq a k => exact ⟨a, k, .inr (.inr (.inl rfl))⟩
  | getUnlockL a k => exact ⟨a, k, .inr (.inr (.inr (.inl rfl)))⟩
  | putLockL a k => exact ⟨a, k, .inr (.inr (.inr (.inr (.inl rfl))))⟩
  | putNotify a k => exact ⟨a, k, .inr (.inr (.inr (.inr (.inr (.inl rfl)))))⟩
  | putUnlockL a k => exact ⟨a, k, .inr (.inr (.inr (.inr (.inr (.inr rfl)))))⟩
  | _ => simp [Instr.touchesL] at h

set_option hygiene false in
/-- closes the `lockL` clause for one latch-mutex instruction on latch `(a0, k0)` -/
local macro "latchL_tac" : tactic => `(tactic| (
      rw [hd_setCont]
      simp only [Sys.setCont_eq, Sys.setThr_lockL, upd2_apply, hhd]
      have holdu := hlL a k u
      have holdt := hlL a k t; rw [hdt] at holdt
      have holdt0 := hlL a0 k0 t; rw [hdt] at holdt0
      have holdu0 := hlL a0 k0 u
      by_cases hut : u = t
      · subst hut
        by_cases hak : a = a0 ∧ k = k0
        · obtain ⟨rfl, rfl⟩ := hak
          simp [Instr.holdsL] at holdt0 ⊢
          try simp [holdt0]
        · have hak' : ¬ (a0 = a ∧ k0 = k) := fun h => hak ⟨h.1.symm, h.2.symm⟩
          simp [Instr.holdsL, hak'] at holdt
          simp [Instr.holdsL, hak, hak', holdt]
      · have hut' : ¬ t = u := fun h => hut h.symm
        by_cases hak : a = a0 ∧ k = k0
        · obtain ⟨rfl, rfl⟩ := hak
          simp [Instr.holdsL] at holdt0
          rw [if_neg hut, ← holdu0] <;> (
            clear holdu holdu0 holdt
            cases hl : s.lockL a k with
            | none => simp_all
            | some w => simp_all)
        · rw [if_neg hut, ← holdu] <;> simp [hak]))

theorem HL_exec_L {s s' : Sys} {t : Tid} {i : Instr} {rest : List Instr} (A : HA s) (H : HL s) (ht : t < s.n)
    (hc : (s.thr t).cont = i :: rest) (h : exec s t i rest = some s') :
    ∀ a k u, s'.lockL a k = some u ↔ (hd s' u).any (Instr.holdsL a k) = true := by
  obtain ⟨s1, new, he, rfl⟩ := exec_eq h
  have hi : i.isRep = true := A.fam t i (by simp [hc])
  have hdt : hd s t = some i := by simp [hd, hc]
  have hrest : ∀ a k, (rest.head?).any (Instr.holdsL a k) = false := by
    intro a k
    cases hr : rest.head? with
    | none => rfl
    | some j =>
      have : j.headOnly = false := A.tf t j (by simp [hc]; exact List.mem_of_mem_head? hr)
      cases hh : j.holdsL a k with
      | false => simp [hh]
      | true => rw [headOnly_of_holdsL hh] at this; cases this
  have hlL := H.lL
  have hhd : ∀ u, hd s1 u = hd s u := fun u => by unfold hd; rw [(execE_thr he u).1]
  have hnoL := fun a k => (execE_new_noLR A.rep hi he a k).1
  intro a k u
  by_cases hT : i.touchesL = true
  · -- the seven latch-mutex instructions
    obtain ⟨a0, k0, hshape⟩ := touchesL_shape hT
    rcases hshape with rfl | rfl | rfl | rfl | rfl | rfl | rfl <;> simp only [execE] at he
    all_goals ((try split at he) <;> (try split at he) <;> (try simp at he))
    all_goals (try (obtain ⟨rfl, rfl⟩ := he))
    all_goals latchL_tac
  · -- everything else leaves the latch mutexes alone
    have hT' : i.touchesL = false := by simpa using hT
    have hl1 : s1.lockL = s.lockL := by
      cases i <;> simp [Instr.touchesL] at hT' <;> simp [Instr.isRep] at hi <;> simp only [execE] at he
      all_goals ((try split at he) <;> (try split at he) <;> (try simp at he))
      all_goals (try (obtain ⟨rfl, rfl⟩ := he))
      all_goals (try rfl)
      all_goals (split <;> rfl)
    have hold : i.holdsL a k = false := by
      cases hh : i.holdsL a k with
      | false => rfl
      | true =>
        exfalso
        simp [Instr.holdsL] at hh
        rcases hh with ((rfl | rfl) | rfl) | rfl <;> simp [Instr.touchesL] at hT'
    simp only [Sys.setCont_eq, Sys.setThr_lockL, hl1]
    rw [← Sys.setCont_eq, hd_setCont]
    by_cases hut : u = t
    · subst hut
      rw [if_pos rfl]
      have h1 : ¬ s.lockL a k = some u := by
        rw [hlL a k u, hdt]; simp [hold]
      have h2 : ((new ++ rest).head?).any (Instr.holdsL a k) = false := by
        cases hh : (new ++ rest).head? with
        | none => rfl
        | some j =>
          rcases head?_append_cases hh with hj | ⟨_, hj⟩
          · simp [hnoL a k hT' j hj]
          · have := hrest a k; rw [hj] at this; exact this
      rw [h2]; constructor
      · intro hx; exact absurd hx h1
      · intro hx; cases hx
    · rw [if_neg hut, hhd]; exact hlL a k u

end CG.Model.Rx
namespace CG.Model.Rx

theorem touchesR_shape {i : Instr} (h : i.touchesR = true) : ∃ a0 k0, i = .getLockR a0 k0 ∨ i = .getUnlockR a0 k0 ∨
    (∃ c e p, i = .putLockR a0 k0 c e p) ∨ i = .putLockL a0 k0 ∨ i = .putNotify a0 k0 ∨ i = .putUnlockL a0 k0 ∨
    i = .putUnlockR a0 k0 := by
  cases i with
  | getLockR a k => exact ⟨a, k, .inl rfl⟩
  | getUnlockR a k => exact ⟨a, k, .inr (.inl rfl)⟩
  | putLockR a k c e p => exact ⟨a, k, .inr (.inr (.inl ⟨c, e, p, rfl⟩))⟩
  | putLockL a k => exact ⟨a, k, .inr (.inr (.inr (.inl rfl)))⟩
  | putNotify a k => exact ⟨a, k, .inr (.inr (.inr (.inr (.inl rfl))))⟩
  | putUnlockL a k => exact ⟨a, k, .inr (.inr (.inr (.inr (.inr (.inl rfl)))))⟩
  | putUnlockR a k => exact ⟨a, k, .inr (.inr (.inr (.inr (.inr (.inr rfl)))))⟩
  | _ => simp [Instr.touchesR] at h

set_option hygiene false in
/-- closes the `lockR` clause for one future-mutex instruction on future `(a0, k0)` -/
local macro "latchR_tac" : tactic => `(tactic| (
      rw [hd_setCont]
      simp only [Sys.setCont_eq, Sys.setThr_lockR, Sys.log_lockR, upd2_apply, hhd]
      have holdu := hlR a k u
      have holdt := hlR a k t; rw [hdt] at holdt
      have holdt0 := hlR a0 k0 t; rw [hdt] at holdt0
      have holdu0 := hlR a0 k0 u
      by_cases hut : u = t
      · subst hut
        by_cases hak : a = a0 ∧ k = k0
        · obtain ⟨rfl, rfl⟩ := hak
          simp [Instr.holdsR, hrest] at holdt0 ⊢
          try simp [holdt0]
        · have hak' : ¬ (a0 = a ∧ k0 = k) := fun h => hak ⟨h.1.symm, h.2.symm⟩
          simp [Instr.holdsR, hak'] at holdt
          simp [Instr.holdsR, hak, hak', holdt, hrest]
      · have hut' : ¬ t = u := fun h => hut h.symm
        by_cases hak : a = a0 ∧ k = k0
        · obtain ⟨rfl, rfl⟩ := hak
          simp [Instr.holdsR] at holdt0
          rw [if_neg hut, ← holdu0] <;> (
            clear holdu holdu0 holdt
            cases hl : s.lockR a k with
            | none => simp_all
            | some w => simp_all)
        · rw [if_neg hut, ← holdu] <;> simp [hak]))

theorem HL_exec_R {s s' : Sys} {t : Tid} {i : Instr} {rest : List Instr} (A : HA s) (H : HL s) (ht : t < s.n)
    (hc : (s.thr t).cont = i :: rest) (h : exec s t i rest = some s') :
    ∀ a k u, s'.lockR a k = some u ↔ (hd s' u).any (Instr.holdsR a k) = true := by
  obtain ⟨s1, new, he, rfl⟩ := exec_eq h
  have hi : i.isRep = true := A.fam t i (by simp [hc])
  have hdt : hd s t = some i := by simp [hd, hc]
  have hrest : ∀ a k, (rest.head?).any (Instr.holdsR a k) = false := by
    intro a k
    cases hr : rest.head? with
    | none => rfl
    | some j =>
      have : j.headOnly = false := A.tf t j (by simp [hc]; exact List.mem_of_mem_head? hr)
      cases hh : j.holdsR a k with
      | false => simp [hh]
      | true => rw [headOnly_of_holdsR hh] at this; cases this
  have hlR := H.lR
  have hhd : ∀ u, hd s1 u = hd s u := fun u => by unfold hd; rw [(execE_thr he u).1]
  have hnoR := fun a k => (execE_new_noLR A.rep hi he a k).2
  intro a k u
  by_cases hT : i.touchesR = true
  · obtain ⟨a0, k0, hshape⟩ := touchesR_shape hT
    rcases hshape with rfl | rfl | ⟨c, e, p, rfl⟩ | rfl | rfl | rfl | rfl <;> simp only [execE] at he
    all_goals ((try split at he) <;> (try split at he) <;> (try simp at he))
    all_goals (try (obtain ⟨rfl, rfl⟩ := he))
    all_goals latchR_tac
  · have hT' : i.touchesR = false := by simpa using hT
    have hl1 : s1.lockR = s.lockR := by
      cases i <;> simp [Instr.touchesR] at hT' <;> simp [Instr.isRep] at hi <;> simp only [execE] at he
      all_goals ((try split at he) <;> (try split at he) <;> (try simp at he))
      all_goals (try (obtain ⟨rfl, rfl⟩ := he))
      all_goals (try rfl)
      all_goals (split <;> rfl)
    have hold : i.holdsR a k = false := by
      cases hh : i.holdsR a k with
      | false => rfl
      | true =>
        exfalso
        simp [Instr.holdsR] at hh
        rcases hh with (((rfl | rfl) | rfl) | rfl) | rfl <;> simp [Instr.touchesR] at hT'
    simp only [Sys.setCont_eq, Sys.setThr_lockR, hl1]
    rw [← Sys.setCont_eq, hd_setCont]
    by_cases hut : u = t
    · subst hut
      rw [if_pos rfl]
      have h1 : ¬ s.lockR a k = some u := by
        rw [hlR a k u, hdt]; simp [hold]
      have h2 : ((new ++ rest).head?).any (Instr.holdsR a k) = false := by
        cases hh : (new ++ rest).head? with
        | none => rfl
        | some j =>
          rcases head?_append_cases hh with hj | ⟨_, hj⟩
          · simp [hnoR a k hT' j hj]
          · have := hrest a k; rw [hj] at this; exact this
      rw [h2]; constructor
      · intro hx; exact absurd hx h1
      · intro hx; cases hx
    · rw [if_neg hut, hhd]; exact hlR a k u

end CG.Model.Rx
namespace CG.Model.Rx

/-- instructions outside the latch-mutex protocol change neither the latch flags nor any `woken` bit -/
theorem execE_noL_frame {s s1 : Sys} {t : Tid} {i : Instr} {new : List Instr} (hi : i.isRep = true)
    (hT : i.touchesL = false) (h : execE s t i = some (s1, new)) :
    s1.lOpen = s.lOpen ∧ ∀ u, (s1.thr u).woken = (s.thr u).woken := by
  cases i <;> simp [Instr.touchesL] at hT <;> simp [Instr.isRep] at hi <;> simp only [execE] at h
  all_goals ((try split at h) <;> (try split at h) <;> (try simp at h))
  all_goals (try (obtain ⟨rfl, rfl⟩ := h))
  all_goals (try (exact ⟨rfl, fun _ => rfl⟩))
  all_goals (try (split <;> exact ⟨rfl, fun _ => rfl⟩))
  all_goals (refine ⟨rfl, fun u => ?_⟩; simp [upd_apply]; split <;> simp_all)

end CG.Model.Rx

namespace CG.Model.Rx

theorem hd_some_any {s : Sys} {u : Tid} {j : Instr} {P : Instr → Bool} (h : hd s u = some j) (hp : P j = true) :
    (hd s u).any P = true := by rw [h]; simpa using hp

theorem HL_exec_gw {s s' : Sys} {t : Tid} {i : Instr} {rest : List Instr} (A : HA s) (H : HL s) (ht : t < s.n)
    (hc : (s.thr t).cont = i :: rest) (h : exec s t i rest = some s') :
    ∀ u a k, hd s' u = some (.getWait a k) → s'.lOpen a k = false := by
  obtain ⟨s1, new, he, rfl⟩ := exec_eq h
  have hi : i.isRep = true := A.fam t i (by simp [hc])
  have hdt : hd s t = some i := by simp [hd, hc]
  have hresth : ∀ j, rest.head? = some j → j.headOnly = false := fun j hj =>
    A.tf t j (by simp [hc]; exact List.mem_of_mem_head? hj)
  have hhd : ∀ u, hd s1 u = hd s u := fun u => by unfold hd; rw [(execE_thr he u).1]
  intro u a k hu
  rw [hd_setCont] at hu
  simp only [Sys.setCont_eq, Sys.setThr_lOpen]
  by_cases hT : i.touchesL = true
  · obtain ⟨a0, k0, hshape⟩ := touchesL_shape hT
    have hlt := (H.lL a0 k0 t)
    rw [hdt] at hlt
    rcases hshape with rfl | rfl | rfl | rfl | rfl | rfl | rfl <;> simp only [execE] at he
    all_goals ((try split at he) <;> (try split at he) <;> (try simp at he))
    all_goals (try (obtain ⟨rfl, rfl⟩ := he))
    all_goals (
      by_cases hut : u = t
      · subst hut
        (simp at hu) <;> (
          first
            | (obtain ⟨rfl, rfl⟩ := hu; simp_all; done)
            | (simp_all; done))
      · rw [if_neg hut, hhd] at hu
        have hold := H.gw u a k hu
        have hlu := (H.lL a k u).2 (hd_some_any hu (by simp [Instr.holdsL]))
        first
          | (simpa using hold)
          | (simp only [Sys.setThr_lOpen, upd2_apply]
             split
             · rename_i hak; obtain ⟨rfl, rfl⟩ := hak; simp_all
             · exact hold))
  · have hT' : i.touchesL = false := by simpa using hT
    have hfr := execE_noL_frame hi hT' he
    rw [hfr.1]
    by_cases hut : u = t
    · subst hut
      rw [if_pos rfl] at hu
      exfalso
      rcases head?_append_cases hu with hj | ⟨_, hj⟩
      · have := (execE_new_noLR A.rep hi he a k).1 hT' _ hj
        simp [Instr.holdsL] at this
      · have := hresth _ hj; simp [Instr.headOnly] at this
    · rw [if_neg hut, hhd] at hu; exact H.gw u a k hu

end CG.Model.Rx

namespace CG.Model.Rx

theorem execE_new_noReacq {s s1 : Sys} {t : Tid} {i : Instr} {new : List Instr} (ha : s.algo = .repaired)
    (hi : i.isRep = true) (hT : i.touchesL = false) (h : execE s t i = some (s1, new)) :
    ∀ j ∈ new, ∀ a k, j ≠ .getReacq a k ∧ j ≠ .putNotify a k := by
  have key : ∀ l : List Instr, (∀ j ∈ l, j.headOnly = false) → ∀ j ∈ l, ∀ a k, j ≠ .getReacq a k ∧ j ≠ .putNotify a k := by
    intro l hl j hj a k
    have := hl j hj
    constructor <;> (intro hx; rw [hx] at this; simp [Instr.headOnly] at this)
  cases i <;> simp [Instr.isRep] at hi <;> simp [Instr.touchesL] at hT <;> simp only [execE] at h
  all_goals ((try split at h) <;> (try split at h) <;> (try simp at h))
  all_goals (try (obtain ⟨rfl, rfl⟩ := h))
  all_goals (try (simp; done))
  · rw [ha]; exact key _ (fun j hj => (subInstrs_props _ _ j hj).2.1)
  · apply key
    intro j hj
    simp only [List.mem_append, List.mem_flatMap, List.mem_singleton] at hj
    rcases hj with ⟨x, _, hx⟩ | rfl
    · exact (deliverInstrs_props x _ _ j hx).2.1
    · simp [Instr.headOnly]
  · intro j hj a k
    rcases List.mem_cons.1 hj with rfl | hj
    · simp
    · exact key _ (fun j hj => (deliverSub_props _ _ _ _ _ j hj).2.1) j hj a k

theorem HL_exec_hw {s s' : Sys} {t : Tid} {i : Instr} {rest : List Instr} (A : HA s) (H : HL s) (ht : t < s.n)
    (hc : (s.thr t).cont = i :: rest) (h : exec s t i rest = some s') :
    ∀ u a k, hd s' u = some (.getReacq a k) → s'.lOpen a k = true → (s'.thr u).woken = false →
      ∃ w, hd s' w = some (.putNotify a k) := by
  obtain ⟨s1, new, he, rfl⟩ := exec_eq h
  have hi : i.isRep = true := A.fam t i (by simp [hc])
  have hdt : hd s t = some i := by simp [hd, hc]
  have hresth : ∀ j, rest.head? = some j → j.headOnly = false := fun j hj =>
    A.tf t j (by simp [hc]; exact List.mem_of_mem_head? hj)
  have hhd : ∀ u, hd s1 u = hd s u := fun u => by unfold hd; rw [(execE_thr he u).1]
  intro u a k hu hopen hwok
  rw [hd_setCont] at hu
  simp only [Sys.setCont_eq, Sys.setThr_lOpen] at hopen
  rw [setCont_woken] at hwok
  by_cases hT : i.touchesL = true
  · obtain ⟨a0, k0, hshape⟩ := touchesL_shape hT
    have hgw := H.gw t
    have hgo := A.go u
    rcases hshape with rfl | rfl | rfl | rfl | rfl | rfl | rfl <;> simp only [execE] at he
    all_goals ((try split at he) <;> (try split at he) <;> (try simp at he))
    all_goals (try (obtain ⟨rfl, rfl⟩ := he))
    -- the acting thread itself: its new head is `getReacq` only after `getWait`, and then the latch is closed
    all_goals (
      by_cases hut : u = t
      · subst hut
        (simp at hu) <;> (
          obtain ⟨rfl, rfl⟩ := hu
          have := hgw _ _ hdt
          simp_all)
      · rw [if_neg hut, hhd] at hu
        have hold := H.hw u a k hu
        have hua : a = u := hgo (.getReacq a k) (List.mem_of_mem_head? hu) a rfl
        try simp [upd_apply, hut] at hwok
        by_cases hak : a = a0 ∧ k = k0
        · obtain ⟨rfl, rfl⟩ := hak
          first
            | -- putLockL on this latch: `t` is about to notify
              exact ⟨t, by rw [hd_setCont, if_pos rfl]; rfl⟩
            | -- putNotify on this latch: `u` has just been woken
              (subst hua; simp_all [hd]; done)
            | -- otherwise nothing relevant changed
              (have hopen' : s.lOpen a k = true := by first | exact hopen | simpa [upd2_apply] using hopen
               have hwok' : (s.thr u).woken = false := by
                 first
                   | exact hwok
                   | (split at hwok; simp at hwok; exact hwok)
               obtain ⟨w, hw⟩ := hold hopen' hwok'
               have hwt : w ≠ t := by intro hwt; subst hwt; rw [hdt] at hw; cases hw
               exact ⟨w, by rw [hd_setCont, if_neg hwt, hhd]; exact hw⟩)
        · have hopen' : s.lOpen a k = true := by first | exact hopen | simpa [upd2_apply, hak] using hopen
          have hwok' : (s.thr u).woken = false := by
            first
              | exact hwok
              | (split at hwok; simp at hwok; exact hwok)
          obtain ⟨w, hw⟩ := hold hopen' hwok'
          have hwt : w ≠ t := by
            intro hwt; subst hwt; rw [hdt] at hw
            first
              | (cases hw; done)
              | (simp at hw; exact hak ⟨hw.1.symm, hw.2.symm⟩)
          exact ⟨w, by rw [hd_setCont, if_neg hwt, hhd]; exact hw⟩)
  · have hT' : i.touchesL = false := by simpa using hT
    have hfr := execE_noL_frame hi hT' he
    rw [hfr.1] at hopen
    rw [hfr.2 u] at hwok
    by_cases hut : u = t
    · subst hut
      rw [if_pos rfl] at hu
      exfalso
      rcases head?_append_cases hu with hj | ⟨_, hj⟩
      · exact (execE_new_noReacq A.rep hi hT' he _ hj a k).1 rfl
      · have := hresth _ hj; simp [Instr.headOnly] at this
    · rw [if_neg hut, hhd] at hu
      obtain ⟨w, hw⟩ := H.hw u a k hu hopen hwok
      have hwt : w ≠ t := by
        intro hwt; subst hwt; rw [hdt] at hw; cases hw; simp [Instr.touchesL] at hT'
      exact ⟨w, by rw [hd_setCont, if_neg hwt, hhd]; exact hw⟩

end CG.Model.Rx
namespace CG.Model.Rx

theorem HL_exec {s s' : Sys} {t : Tid} {i : Instr} {rest : List Instr} (A : HA s) (H : HL s) (ht : t < s.n)
    (hc : (s.thr t).cont = i :: rest) (h : exec s t i rest = some s') : HL s' := by
  have hM := HL_exec_M A H ht hc h
  have hV := HL_exec_V A H ht hc h
  exact ⟨hM.1, hM.2, hV.1, hV.2.1, hV.2.2, HL_exec_L A H ht hc h, HL_exec_R A H ht hc h,
    HL_exec_gw A H ht hc h, HL_exec_hw A H ht hc h⟩

theorem headOnly_of_holdsVr {i : Instr} (h : i.holdsVr = true) : i.headOnly = true := by
  cases i <;> simp_all [Instr.holdsVr, Instr.headOnly]
theorem headOnly_of_holdsVw {i : Instr} (h : i.holdsVw = true) : i.headOnly = true := by
  cases i <;> simp_all [Instr.holdsVw, Instr.headOnly]

/-- `HL` survives a change of thread `t`'s continuation that leaves all locks, latch flags and `woken` bits
    alone and involves no head-only instruction at the head, before or after. -/
theorem HL_rehead {s s' : Sys} {t : Tid} (H : HL s)
    (hM : s'.lockM = s.lockM) (hV : s'.lockV = s.lockV) (hL : s'.lockL = s.lockL) (hR : s'.lockR = s.lockR)
    (hO : s'.lOpen = s.lOpen) (hthr : ∀ u, u ≠ t → s'.thr u = s.thr u)
    (hwk : (s'.thr t).woken = (s.thr t).woken)
    (hold : ∀ j, hd s t = some j → j.headOnly = false) (hnew : ∀ j, hd s' t = some j → j.headOnly = false) :
    HL s' := by
  have hhd : ∀ u, u ≠ t → hd s' u = hd s u := fun u hu => by unfold hd; rw [hthr u hu]
  have notT : ∀ (P : Instr → Bool), (∀ j, P j = true → j.headOnly = true) → ∀ u j, hd s u = some j → P j = true → u ≠ t := by
    intro P hP u j hj hpj hut; subst hut
    have := hold j hj; rw [hP j hpj] at this; cases this
  have anyF : ∀ (P : Instr → Bool), (∀ j, P j = true → j.headOnly = true) →
      (hd s t).any P = false ∧ (hd s' t).any P = false := by
    intro P hP
    constructor
    · cases hh : hd s t with
      | none => rfl
      | some j =>
        cases hp : P j with
        | false => simp [hp]
        | true => have := hold j hh; rw [hP j hp] at this; cases this
    · cases hh : hd s' t with
      | none => rfl
      | some j =>
        cases hp : P j with
        | false => simp [hp]
        | true => have := hnew j hh; rw [hP j hp] at this; cases this
  refine ⟨by rw [hM]; exact H.mR, ?_, ?_, ?_, by rw [hV]; exact H.vN, ?_, ?_, ?_, ?_⟩
  · intro u hu; rw [hM] at hu
    obtain ⟨j, hj, hp⟩ := H.mW u hu
    have hut := notT _ (fun j => headOnly_of_holdsM) u j hj hp
    exact ⟨j, by rw [hhd u hut]; exact hj, hp⟩
  · intro u hu; rw [hV] at hu
    obtain ⟨j, hj, hp⟩ := H.vW u hu
    have hut := notT _ (fun j => headOnly_of_holdsVw) u j hj hp
    exact ⟨j, by rw [hhd u hut]; exact hj, hp⟩
  · intro u hu; rw [hV] at hu
    obtain ⟨j, hj, hp⟩ := H.vR u hu
    have hut := notT _ (fun j => headOnly_of_holdsVr) u j hj hp
    exact ⟨j, by rw [hhd u hut]; exact hj, hp⟩
  · intro a k u; rw [hL]
    by_cases hut : u = t
    · subst hut
      have := anyF (Instr.holdsL a k) (fun j => headOnly_of_holdsL)
      rw [this.2]; have h1 := H.lL a k u; rw [this.1] at h1
      exact ⟨fun h => (by simpa using h1.1 h), fun h => by cases h⟩
    · rw [hhd u hut]; exact H.lL a k u
  · intro a k u; rw [hR]
    by_cases hut : u = t
    · subst hut
      have := anyF (Instr.holdsR a k) (fun j => headOnly_of_holdsR)
      rw [this.2]; have h1 := H.lR a k u; rw [this.1] at h1
      exact ⟨fun h => (by simpa using h1.1 h), fun h => by cases h⟩
    · rw [hhd u hut]; exact H.lR a k u
  · intro u a k hu; rw [hO]
    by_cases hut : u = t
    · subst hut; have := hnew _ hu; simp [Instr.headOnly] at this
    · rw [hhd u hut] at hu; exact H.gw u a k hu
  · intro u a k hu hopen hwok; rw [hO] at hopen
    by_cases hut : u = t
    · subst hut; have := hnew _ hu; simp [Instr.headOnly] at this
    · rw [hhd u hut] at hu; rw [hthr u hut] at hwok
      obtain ⟨w, hw⟩ := H.hw u a k hu hopen hwok
      have hwt : w ≠ t := by
        intro hwt; subst hwt; have := hold _ hw; simp [Instr.headOnly] at this
      exact ⟨w, by rw [hhd w hwt]; exact hw⟩

end CG.Model.Rx
namespace CG.Model.Rx

theorem popMark_frame (s : Sys) (t : Tid) (m : Instr) (k : List Instr) :
    (popMark s t m k).lockM = s.lockM ∧ (popMark s t m k).lockV = s.lockV ∧ (popMark s t m k).lockL = s.lockL ∧
    (popMark s t m k).lockR = s.lockR ∧ (popMark s t m k).lOpen = s.lOpen ∧
    ((popMark s t m k).thr t).woken = (s.thr t).woken := by
  cases m <;> simp [popMark, Sys.setCont_eq]

theorem headOnly_of_isMarker {i : Instr} (h : i.isMarker = true) : i.headOnly = false := by
  cases i <;> simp_all [Instr.isMarker, Instr.headOnly]

theorem HL_pop {s : Sys} {t : Tid} {m : Instr} {k : List Instr} (A : HA s) (H : HL s) (hc : (s.thr t).cont = m :: k)
    (hm : m.isMarker = true) (hr : m.isRep = true) : HL (popMark s t m k) := by
  obtain ⟨f1, f2, f3, f4, f5, f6⟩ := popMark_frame s t m k
  refine HL_rehead H f1 f2 f3 f4 f5 (fun u hu => popMark_thr_other s t u m k hu) f6 ?_ ?_
  · intro j hj; simp [hd, hc] at hj; subst hj; exact headOnly_of_isMarker hm
  · intro j hj
    simp only [hd, popMark_cont s t m k hm hr] at hj
    exact A.tf t j (by simp [hc]; exact List.mem_of_mem_head? hj)

theorem HL_expand {s : Sys} {t : Tid} (A : HA s) (H : HL s) (hc : (s.thr t).cont = []) : HL (expand s t) := by
  cases hp : (s.thr t).prog with
  | nil => rw [expand_nil s t hp]; exact H
  | cons op ops =>
    rw [expand_cons s t op ops hp]
    refine HL_rehead (t := t) H rfl rfl rfl rfl rfl (fun u hu => by simp [upd_apply, hu]) (by simp) ?_ ?_
    · intro j hj; simp [hd, hc] at hj
    · intro j hj
      simp [hd] at hj
      exact (opInstrs_props s t op A.rep j (List.mem_of_mem_head? hj)).2.1

/-- the invariant of Part 3 -/
structure Good (s : Sys) : Prop where
  a : HA s
  l : HL s

theorem Good_settle {s : Sys} {t : Tid} (G : Good s) (fuel : Nat) : Good (settle fuel s t) := by
  apply settle_ind Good t _ _ _ fuel s G
  · intro s m k G hc hm hr; exact ⟨HA_pop G.a hc hm hr, HL_pop G.a G.l hc hm hr⟩
  · intro s G hc; exact ⟨HA_expand G.a hc, HL_expand G.a G.l hc⟩
  · intro s m k G hc; exact G.a.fam t m (by simp [hc])

theorem step_eq {s s' : Sys} {t : Tid} (h : step s t = some s') :
    t < s.n ∧ ∃ i rest s1, (s.thr t).cont = i :: rest ∧ exec s t i rest = some s1 ∧ s' = settle (settleFuel s1 t) s1 t := by
  unfold step at h
  split at h
  · rename_i ht
    refine ⟨ht, ?_⟩
    split at h
    · cases h
    · rename_i i rest hc
      split at h
      · cases h
      · rename_i s1 he; simp at h; exact ⟨i, rest, s1, hc, he, h.symm⟩
  · cases h

theorem Good_step {s s' : Sys} {t : Tid} (G : Good s) (h : step s t = some s') : Good s' := by
  obtain ⟨ht, i, rest, s1, hc, he, rfl⟩ := step_eq h
  exact Good_settle ⟨HA_exec G.a ht hc he, HL_exec G.a G.l ht hc he⟩ _

end CG.Model.Rx
namespace CG.Model.Rx

theorem spur_eq {s s' : Sys} {t : Tid} (h : spur s t = some s') :
    ∃ a k rest, (s.thr t).cont = .getReacq a k :: rest ∧ s' = s.setThr t { s.thr t with woken := true } := by
  unfold spur at h
  split at h
  · split at h
    · rename_i a k rest hc; simp at h; exact ⟨a, k, rest, hc, by rw [← h]; congr 1; simp [hc]⟩
    · cases h
  · cases h

theorem Good_spur {s s' : Sys} {t : Tid} (G : Good s) (h : spur s t = some s') : Good s' := by
  obtain ⟨a, k, rest, hc, rfl⟩ := spur_eq h
  have hcont : ∀ u, ((s.setThr t { s.thr t with woken := true }).thr u).cont = (s.thr u).cont := by
    intro u; simp [upd_apply]; split <;> simp_all
  have hprog : ∀ u, ((s.setThr t { s.thr t with woken := true }).thr u).prog = (s.thr u).prog := by
    intro u; simp [upd_apply]; split <;> simp_all
  have hhd : ∀ u, hd (s.setThr t { s.thr t with woken := true }) u = hd s u := fun u => by unfold hd; rw [hcont]
  constructor
  · exact ⟨G.a.rep, fun u => by rw [hcont]; exact G.a.fam u, fun u hu => by rw [hcont, hprog]; exact G.a.beyond u hu,
      fun u => by rw [hcont]; exact G.a.tf u, fun u => by rw [hcont]; exact G.a.go u⟩
  · refine ⟨G.l.mR, ?_, ?_, ?_, G.l.vN, ?_, ?_, ?_, ?_⟩
    · intro u hu; rw [hhd]; exact G.l.mW u hu
    · intro u hu; rw [hhd]; exact G.l.vW u hu
    · intro u hu; rw [hhd]; exact G.l.vR u hu
    · intro a k u; rw [hhd]; exact G.l.lL a k u
    · intro a k u; rw [hhd]; exact G.l.lR a k u
    · intro u a k hu; rw [hhd] at hu; exact G.l.gw u a k hu
    · intro u a' k' hu hopen hwok
      rw [hhd] at hu
      by_cases hut : u = t
      · subst hut; simp at hwok
      · simp [upd_apply, hut] at hwok
        obtain ⟨w, hw⟩ := G.l.hw u a' k' hu hopen hwok
        exact ⟨w, by rw [hhd]; exact hw⟩

/-- every thread is at rest -/
def AllSettled (s : Sys) : Prop := ∀ t, SettledAt s t

theorem expand_thr_other (s : Sys) (t u : Tid) (hut : u ≠ t) : (expand s t).thr u = s.thr u := by
  cases hp : (s.thr t).prog with
  | nil => rw [expand_nil s t hp]
  | cons op ops => rw [expand_cons s t op ops hp]; simp [upd_apply, hut]

theorem setCont_thr_other (s : Sys) (t u : Tid) (c : List Instr) (hut : u ≠ t) : (s.setCont t c).thr u = s.thr u := by
  simp [Sys.setCont_eq, upd_apply, hut]

theorem settle_other (t u : Tid) (hut : u ≠ t) : ∀ fuel (s : Sys), (settle fuel s t).thr u = s.thr u := by
  intro fuel
  induction fuel with
  | zero => intro s; rfl
  | succ f ih =>
    intro s
    unfold settle
    split
    · exact expand_thr_other s t u hut
    · rw [ih, setCont_thr_other _ _ _ _ hut]; rfl
    · rw [ih, setCont_thr_other _ _ _ _ hut]
    · rw [ih, setCont_thr_other _ _ _ _ hut]; rfl
    · rw [ih, setCont_thr_other _ _ _ _ hut]; rfl
    · simp only []
      split <;> rw [setCont_thr_other _ _ _ _ hut, setCont_thr_other _ _ _ _ hut]
    · rfl

end CG.Model.Rx
namespace CG.Model.Rx

theorem step_other {s s' : Sys} {t u : Tid} (h : step s t = some s') (hut : u ≠ t) :
    (s'.thr u).cont = (s.thr u).cont ∧ (s'.thr u).prog = (s.thr u).prog := by
  obtain ⟨ht, i, rest, s1, hc, he, rfl⟩ := step_eq h
  obtain ⟨s0, new, he0, rfl⟩ := exec_eq he
  rw [settle_other t u hut, setCont_thr_other _ _ _ _ hut]
  exact ⟨(execE_thr he0 u).1, (execE_thr he0 u).2.1⟩

theorem SettledAt_congr {s s' : Sys} {u : Tid} (hc : (s'.thr u).cont = (s.thr u).cont)
    (hp : (s'.thr u).prog = (s.thr u).prog) (h : SettledAt s u) : SettledAt s' u := by
  unfold SettledAt at *; rw [hc, hp]; exact h

theorem AllSettled_step {s s' : Sys} {t : Tid} (G : Good s) (S : AllSettled s) (h : step s t = some s') :
    AllSettled s' := by
  intro u
  by_cases hut : u = t
  · subst hut
    obtain ⟨ht, i, rest, s1, hc, he, rfl⟩ := step_eq h
    have A1 := HA_exec G.a ht hc he
    exact settle_settledAt u _ s1 (by unfold settleFuel; omega) (A1.fam u)
  · have := step_other h hut
    exact SettledAt_congr this.1 this.2 (S u)

theorem AllSettled_spur {s s' : Sys} {t : Tid} (S : AllSettled s) (h : spur s t = some s') : AllSettled s' := by
  obtain ⟨a, k, rest, hc, rfl⟩ := spur_eq h
  intro u
  apply SettledAt_congr _ _ (S u)
  · simp [upd_apply]; split <;> simp_all
  · simp [upd_apply]; split <;> simp_all

/-- the invariant carried along every schedule of the repaired algorithm -/
structure Inv3 (s : Sys) : Prop where
  g : Good s
  st : AllSettled s

theorem Inv3_act {s s' : Sys} {a : Act} (I : Inv3 s) (h : act s a = some s') : Inv3 s' := by
  cases a with
  | run t => exact ⟨Good_step I.g h, AllSettled_step I.g I.st h⟩
  | spur t => exact ⟨Good_spur I.g h, AllSettled_spur I.st h⟩

theorem runActs_inv (P : Sys → Prop) (hP : ∀ s a s', P s → act s a = some s' → P s') :
    ∀ (sched : List Act) (s : Sys), P s → P (runActs s sched) := by
  intro sched
  induction sched with
  | nil => intro s h; exact h
  | cons a as ih =>
    intro s h
    unfold runActs
    simp only [List.foldl_cons]
    apply ih
    cases ha : act s a with
    | none => simpa using h
    | some s' => simpa using hP s a s' h ha

end CG.Model.Rx
namespace CG.Model.Rx

/-- the state before any operation has been started -/
def init0 (a : Algo) (kd : Kind) (behs : List Beh) (progs : List (List Op)) : Sys :=
  { algo := a, kind := kd, behs := behs, n := progs.length,
    thr := fun t => { prog := progs.getD t [] }, owner := fun _ => true }

theorem init_eq (a : Algo) (kd : Kind) (behs : List Beh) (progs : List (List Op)) :
    init a kd behs progs = startAll progs.length (init0 a kd behs progs) := rfl

theorem startAll_thr_ge (s : Sys) : ∀ k t, k ≤ t → (startAll k s).thr t = s.thr t := by
  intro k
  induction k with
  | zero => intro t _; rfl
  | succ k ih =>
    intro t hkt
    have hne : t ≠ k := fun h => by subst h; exact Nat.lt_irrefl _ hkt
    show (expand (startAll k s) k).thr t = s.thr t
    rw [expand_thr_other _ _ _ hne, ih t (Nat.le_of_succ_le hkt)]

theorem Good_init0 (kd : Kind) (behs : List Beh) (progs : List (List Op)) : Good (init0 .repaired kd behs progs) := by
  constructor
  · refine ⟨rfl, ?_, ?_, ?_, ?_⟩
    · intro t i hi; simp [init0] at hi
    · intro t ht; simp only [init0] at ht ⊢; simp [List.getD_eq_getElem?_getD, List.getElem?_eq_none ht]
    · intro t i hi; simp [init0] at hi
    · intro t i hi; simp [init0] at hi
  · refine ⟨rfl, ?_, ?_, ?_, List.nodup_nil, ?_, ?_, ?_, ?_⟩ <;> simp [init0, hd]

theorem Good_startAll {s : Sys} (G : Good s) (hc : ∀ t, (s.thr t).cont = []) : ∀ k, Good (startAll k s) := by
  intro k
  induction k with
  | zero => exact G
  | succ k ih =>
    have h0 : ((startAll k s).thr k).cont = [] := by rw [startAll_thr_ge s k k (Nat.le_refl _)]; exact hc k
    exact ⟨HA_expand ih.a h0, HL_expand ih.a ih.l h0⟩

theorem AllSettled_startAll {s : Sys} (hc : ∀ t, (s.thr t).cont = []) :
    ∀ k t, t < k → SettledAt (startAll k s) t := by
  intro k
  induction k with
  | zero => intro t ht; cases ht
  | succ k ih =>
    intro t ht
    by_cases htk : t = k
    · subst htk
      have h0 : ((startAll t s).thr t).cont = [] := by rw [startAll_thr_ge s t t (Nat.le_refl _)]; exact hc t
      exact expand_settledAt _ t h0
    · have : t < k := Nat.lt_of_le_of_ne (Nat.le_of_lt_succ ht) htk
      have hthr : (startAll (k + 1) s).thr t = (startAll k s).thr t := expand_thr_other _ _ _ htk
      exact SettledAt_congr (by rw [hthr]) (by rw [hthr]) (ih t this)

theorem Inv3_init (kd : Kind) (behs : List Beh) (progs : List (List Op)) : Inv3 (init .repaired kd behs progs) := by
  rw [init_eq]
  have hc : ∀ t, ((init0 Algo.repaired kd behs progs).thr t).cont = [] := fun t => rfl
  refine ⟨Good_startAll (Good_init0 kd behs progs) hc _, ?_⟩
  intro t
  by_cases ht : t < progs.length
  · exact AllSettled_startAll hc _ t ht
  · have hge : progs.length ≤ t := Nat.le_of_not_lt ht
    unfold SettledAt
    rw [startAll_thr_ge _ _ _ hge]
    simp [init0, List.getD_eq_getElem?_getD, List.getElem?_eq_none hge]

/-- every state reached by any schedule of the repaired algorithm satisfies the Part-3 invariant -/
theorem Inv3_reach (kd : Kind) (behs : List Beh) (progs : List (List Op)) (sched : List Act) :
    Inv3 (runActs (init .repaired kd behs progs) sched) :=
  runActs_inv Inv3 (fun _ _ _ I h => Inv3_act I h) sched _ (Inv3_init kd behs progs)

end CG.Model.Rx
namespace CG.Model.Rx

/-- instructions that can always be executed (they release, signal, or touch no lock) -/
def Instr.alwaysOn : Instr → Bool
  | .noop | .dropO _ | .deliver _ _ _ _ | .relM | .relMR | .relSnap _ _ _ | .relRead | .relWrite
  | .getWait _ _ | .getUnlockL _ _ | .getUnlockR _ _ | .putNotify _ _ | .putUnlockL _ _ | .putUnlockR _ _ => true
  | _ => false

theorem execE_alwaysOn (s : Sys) (t : Tid) {i : Instr} (h : i.alwaysOn = true) : (execE s t i).isSome = true := by
  cases i <;> simp [Instr.alwaysOn] at h <;> simp [execE]
  split <;> (try split) <;> simp

theorem enabled_of_execE {s : Sys} {t : Tid} {i : Instr} {rest : List Instr} (ht : t < s.n)
    (hc : (s.thr t).cont = i :: rest) (h : (execE s t i).isSome = true) : enabled s t = true := by
  unfold enabled step
  rw [if_pos ht, hc]
  simp only [exec]
  cases he : execE s t i with
  | none => rw [he] at h; cases h
  | some r => simp

theorem execE_none_of_not_enabled {s : Sys} {t : Tid} {i : Instr} {rest : List Instr} (ht : t < s.n)
    (hc : (s.thr t).cont = i :: rest) (h : enabled s t = false) : execE s t i = none := by
  cases he : execE s t i with
  | none => rfl
  | some r =>
    have := enabled_of_execE ht hc (by rw [he]; rfl)
    rw [h] at this; cases this

theorem lt_n_of_cont {s : Sys} (A : HA s) {u : Tid} {j : Instr} (h : hd s u = some j) : u < s.n := by
  apply Nat.lt_of_not_le
  intro hle
  have := (A.beyond u hle).1
  simp [hd, this] at h

theorem enabled_of_hd_alwaysOn {s : Sys} (A : HA s) {u : Tid} {j : Instr} (h : hd s u = some j)
    (hj : j.alwaysOn = true) : ∃ u, u < s.n ∧ enabled s u = true := by
  have hu := lt_n_of_cont A h
  cases hc : (s.thr u).cont with
  | nil => simp [hd, hc] at h
  | cons j' rest =>
    have : j' = j := by simpa [hd, hc] using h
    subst this
    exact ⟨u, hu, enabled_of_execE hu hc (execE_alwaysOn s u hj)⟩

end CG.Model.Rx

namespace CG.Model.Rx

theorem alwaysOn_of_holdsM {j : Instr} (h : j.holdsM = true) : j.alwaysOn = true := by
  cases j <;> simp_all [Instr.holdsM, Instr.alwaysOn]
theorem alwaysOn_of_holdsVw {j : Instr} (h : j.holdsVw = true) : j.alwaysOn = true := by
  cases j <;> simp_all [Instr.holdsVw, Instr.alwaysOn]
theorem alwaysOn_of_holdsL {a k : Nat} {j : Instr} (h : j.holdsL a k = true) : j.alwaysOn = true := by
  simp [Instr.holdsL] at h; rcases h with ((rfl | rfl) | rfl) | rfl <;> rfl

theorem any_elim {P : Instr → Bool} {o : Option Instr} (h : o.any P = true) : ∃ j, o = some j ∧ P j = true := by
  cases o with
  | none => cases h
  | some j => exact ⟨j, rfl, by simpa using h⟩

/-- Deadlock freedom, as a property of every state satisfying the invariant: either some thread can move,
    or every unfinished thread sits in a condvar wait on a closed latch that nobody has signalled. -/
theorem enabled_or_legit {s : Sys} (I : Inv3 s) :
    (∃ t, t < s.n ∧ enabled s t = true) ∨ (∀ t, finished s t = true ∨ legitWait s t = true) := by
  by_cases hex : ∃ t, t < s.n ∧ enabled s t = true
  · exact .inl hex
  · right
    intro t
    have A := I.g.a
    have L := I.g.l
    cases hc : (s.thr t).cont with
    | nil => left; simp [finished, hc]
    | cons i rest =>
      right
      have hdt : hd s t = some i := by simp [hd, hc]
      have ht := lt_n_of_cont A hdt
      have hne : enabled s t = false := by
        cases he : enabled s t with
        | false => rfl
        | true => exact absurd ⟨t, ht, he⟩ hex
      have hnone := execE_none_of_not_enabled ht hc hne
      have kill : ∀ u j, hd s u = some j → j.alwaysOn = true → False :=
        fun u j h hj => hex (enabled_of_hd_alwaysOn A h hj)
      have killM : s.lockM.free = false → False := by
        intro hf
        cases hw : s.lockM.writer with
        | none => simp [RW.free, hw, L.mR] at hf
        | some u =>
          obtain ⟨j, hj, hp⟩ := L.mW u hw
          exact kill u j hj (alwaysOn_of_holdsM hp)
      have killVw : ∀ u, s.lockV.writer = some u → False := by
        intro u hw
        obtain ⟨j, hj, hp⟩ := L.vW u hw
        exact kill u j hj (alwaysOn_of_holdsVw hp)
      have killL : ∀ a k, s.lockL a k ≠ none → False := by
        intro a k hn
        cases hl : s.lockL a k with
        | none => exact hn hl
        | some u =>
          obtain ⟨j, hj, hp⟩ := any_elim ((L.lL a k u).1 hl)
          exact kill u j hj (alwaysOn_of_holdsL hp)
      have killR : ∀ a k, s.lockR a k ≠ none → False := by
        intro a k hn
        cases hl : s.lockR a k with
        | none => exact hn hl
        | some u =>
          obtain ⟨j, hj, hp⟩ := any_elim ((L.lR a k u).1 hl)
          simp [Instr.holdsR] at hp
          rcases hp with (((rfl | rfl) | rfl) | rfl) | rfl
          · exact kill u _ hj rfl
          · -- the holder wants the latch mutex
            have hu := lt_n_of_cont A hj
            cases hcu : (s.thr u).cont with
            | nil => simp [hd, hcu] at hj
            | cons j' r' =>
              have : j' = .putLockL a k := by simpa [hd, hcu] using hj
              subst this
              by_cases hLn : s.lockL a k = none
              · exact hex ⟨u, hu, enabled_of_execE hu hcu (by simp [execE, hLn])⟩
              · exact killL a k hLn
          · exact kill u _ hj rfl
          · exact kill u _ hj rfl
          · exact kill u _ hj rfl
      have hsett := I.st t
      unfold SettledAt at hsett; rw [hc] at hsett; simp only at hsett
      have hrep := A.fam t i (by simp [hc])
      cases i <;> simp [Instr.isRep] at hrep <;> simp [Instr.isMarker] at hsett <;> simp [execE] at hnone
      case deliver => split at hnone <;> (try split at hnone) <;> simp at hnone
      case acqPush => exact (killM hnone).elim
      case acqPushR => exact (killM hnone).elim
      case acqSnap => exact (killM hnone).elim
      case acqSnapS => exact (killM hnone).elim
      case getLockL => exact (killL _ _ hnone).elim
      case getLockR => exact (killR _ _ hnone).elim
      case putLockR => exact (killR _ _ hnone).elim
      case putLockL => exact (killL _ _ hnone).elim
      case acqRead =>
        by_cases hcr : s.lockV.canRead = true
        · have := hnone hcr; split at this <;> simp at this
        · cases hw : s.lockV.writer with
          | none => simp [RW.canRead, hw] at hcr
          | some u => exact (killVw u hw).elim
      case acqWrite =>
        by_cases hcr : s.lockV.free = true
        · have := hnone hcr; split at this <;> simp at this
        · cases hw : s.lockV.writer with
          | some u => exact (killVw u hw).elim
          | none =>
            cases hr : s.lockV.readers with
            | nil => simp [RW.free, hw, hr] at hcr
            | cons u us =>
              obtain ⟨j, hj, hp⟩ := L.vR u (by simp [hr])
              exfalso
              cases j <;> simp [Instr.holdsVr] at hp
              · -- acqPushR: wants M
                rename_i o' c'
                have hu := lt_n_of_cont A hj
                cases hcu : (s.thr u).cont with
                | nil => simp [hd, hcu] at hj
                | cons j' r' =>
                  have hj' : j' = Instr.acqPushR o' c' := by simpa [hd, hcu] using hj
                  subst hj'
                  by_cases hMf : s.lockM.free = true
                  · exact hex ⟨u, hu, enabled_of_execE hu hcu (by simp [execE, hMf])⟩
                  · exact killM (by simpa using hMf)
              · exact kill u _ hj rfl
              · exact kill u _ hj rfl
      case getReacq a k =>
        simp only [legitWait, waitingOn, hc]
        cases hwk : (s.thr t).woken with
        | true => exact (killL _ _ (hnone hwk)).elim
        | false =>
          cases hop : s.lOpen a k with
          | false => rfl
          | true =>
            obtain ⟨w, hw⟩ := L.hw t a k hdt hop hwk
            exact (kill w _ hw rfl).elim

end CG.Model.Rx

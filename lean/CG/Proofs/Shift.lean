import CG.Model.Shift
import CG.Spec.ScriptSem
/-! Lemmas about `lshift` / `rshift` (`src/util/bits.rs`): the mask-and-carry formulation equals the
    shift of the big-endian number. -/
namespace CG.Proofs.Shift
open CG CG.Model.Shift CG.Spec.ScriptSem

/-! ## one-byte facts (exhaustive over the 8 bit-shift amounts and 256 byte values) -/

theorem lval_fin : ∀ s : Fin 8, ∀ i : Fin 256,
    (((UInt8.ofNat i.val) &&& LSHIFT_MASK.getD s.val 0) <<< UInt8.ofNat s.val).toNat
      = (i.val * 2 ^ s.val) % 256 := by decide +kernel
theorem lcarry_fin : ∀ s : Fin 8, ∀ i : Fin 256,
    (((UInt8.ofNat i.val) &&& ~~~ (LSHIFT_MASK.getD s.val 0)) >>> UInt8.ofNat ((8 - s.val) % 8)).toNat
      = i.val * 2 ^ s.val / 256 := by decide +kernel
theorem rval_fin : ∀ s : Fin 8, ∀ i : Fin 256,
    (((UInt8.ofNat i.val) &&& RSHIFT_MASK.getD s.val 0) >>> UInt8.ofNat s.val).toNat
      = i.val / 2 ^ s.val := by decide +kernel
theorem rcarry_fin : ∀ s : Fin 8, ∀ i : Fin 256,
    (((UInt8.ofNat i.val) &&& ~~~ (RSHIFT_MASK.getD s.val 0)) <<< UInt8.ofNat ((8 - s.val) % 8)).toNat
      = (i.val * 256 / 2 ^ s.val) % 256 := by decide +kernel

theorem lval (s : Nat) (hs : s < 8) (x : UInt8) :
    ((x &&& LSHIFT_MASK.getD s 0) <<< UInt8.ofNat s).toNat = (x.toNat * 2 ^ s) % 256 := by
  have := lval_fin ⟨s, hs⟩ ⟨x.toNat, x.toNat_lt⟩; simpa using this
theorem lcarry (s : Nat) (hs : s < 8) (x : UInt8) :
    ((x &&& ~~~ (LSHIFT_MASK.getD s 0)) >>> UInt8.ofNat ((8 - s) % 8)).toNat = x.toNat * 2 ^ s / 256 := by
  have := lcarry_fin ⟨s, hs⟩ ⟨x.toNat, x.toNat_lt⟩; simpa using this
theorem rval (s : Nat) (hs : s < 8) (x : UInt8) :
    ((x &&& RSHIFT_MASK.getD s 0) >>> UInt8.ofNat s).toNat = x.toNat / 2 ^ s := by
  have := rval_fin ⟨s, hs⟩ ⟨x.toNat, x.toNat_lt⟩; simpa using this
theorem rcarry (s : Nat) (hs : s < 8) (x : UInt8) :
    ((x &&& ~~~ (RSHIFT_MASK.getD s 0)) <<< UInt8.ofNat ((8 - s) % 8)).toNat
      = (x.toNat * 256 / 2 ^ s) % 256 := by
  have := rcarry_fin ⟨s, hs⟩ ⟨x.toNat, x.toNat_lt⟩; simpa using this

/-- OR of two bytes occupying disjoint bit ranges is their sum (arithmetic, no enumeration) -/
theorem or_toNat_add (a b : UInt8) (e : Nat) (ha : a.toNat % 2 ^ e = 0) (hb : b.toNat < 2 ^ e) :
    (a ||| b).toNat = a.toNat + b.toNat := by
  rw [UInt8.toNat_or]
  have h : a.toNat = (a.toNat / 2 ^ e) <<< e := by
    rw [Nat.shiftLeft_eq, Nat.div_mul_cancel (Nat.dvd_of_mod_eq_zero ha)]
  rw [h, ← Nat.shiftLeft_add_eq_or_of_lt hb]

theorem eight_cases (s : Nat) (hs : s < 8) :
    s = 0 ∨ s = 1 ∨ s = 2 ∨ s = 3 ∨ s = 4 ∨ s = 5 ∨ s = 6 ∨ s = 7 := by omega

/-- the byte `lshift` ORs together, as a number -/
theorem lbyte (s : Nat) (hs : s < 8) (x y : UInt8) :
    (((x &&& LSHIFT_MASK.getD s 0) <<< UInt8.ofNat s) |||
      ((y &&& ~~~ (LSHIFT_MASK.getD s 0)) >>> UInt8.ofNat ((8 - s) % 8))).toNat
      = (x.toNat * 2 ^ s) % 256 + y.toNat * 2 ^ s / 256 := by
  have hy := y.toNat_lt
  rw [or_toNat_add _ _ s, lval s hs, lcarry s hs]
  · rw [lval s hs]
    rcases eight_cases s hs with h | h | h | h | h | h | h | h <;> subst h <;> omega
  · rw [lcarry s hs]
    rcases eight_cases s hs with h | h | h | h | h | h | h | h <;> subst h <;> omega

/-- the byte `rshift` ORs together, as a number -/
theorem rbyte (s : Nat) (hs : s < 8) (x y : UInt8) :
    (((x &&& RSHIFT_MASK.getD s 0) >>> UInt8.ofNat s) |||
      ((y &&& ~~~ (RSHIFT_MASK.getD s 0)) <<< UInt8.ofNat ((8 - s) % 8))).toNat
      = x.toNat / 2 ^ s + (y.toNat * 256 / 2 ^ s) % 256 := by
  have hx := x.toNat_lt
  have hor : ∀ a b : UInt8, (a ||| b) = (b ||| a) := fun a b => UInt8.or_comm a b
  rw [hor, or_toNat_add _ _ (8 - s), rval s hs, rcarry s hs, Nat.add_comm]
  · rw [rcarry s hs]
    rcases eight_cases s hs with h | h | h | h | h | h | h | h <;> subst h <;> omega
  · rw [rval s hs]
    rcases eight_cases s hs with h | h | h | h | h | h | h | h <;> subst h <;> omega

/-! ## base-256 digits -/

theorem p256_pos (k : Nat) : 0 < 256 ^ k := Nat.pow_pos (by decide)

theorem natToLEn_getElem : ∀ (n x k : Nat) (h : k < (natToLEn n x).length),
    (natToLEn n x)[k] = UInt8.ofNat (x / 256 ^ k % 256) := by
  intro n
  induction n with
  | zero => intro x k h; simp [natToLEn] at h
  | succ n ih =>
    intro x k h
    cases k with
    | zero => simp [natToLEn]
    | succ k =>
      simp only [natToLEn, List.getElem_cons_succ]
      rw [ih, Nat.div_div_eq_div_mul, Nat.pow_succ, Nat.mul_comm]

theorem leToNat_digit : ∀ (w : Bytes) (k : Nat), leToNat w / 256 ^ k % 256 = (w.getD k 0).toNat := by
  intro w
  induction w with
  | nil => intro k; simp [leToNat]
  | cons x xs ih =>
    intro k
    have hx := x.toNat_lt
    cases k with
    | zero => simp [leToNat]
    | succ k =>
      simp only [leToNat, List.getD_cons_succ]
      have e : (x.toNat + 256 * leToNat xs) / 256 = leToNat xs := by omega
      rw [← ih k, show (256 : Nat) ^ (k + 1) = 256 * 256 ^ k by rw [Nat.pow_succ, Nat.mul_comm],
        ← Nat.div_div_eq_div_mul, e]

theorem foldl_be (v : Bytes) : ∀ acc : Nat,
    v.foldl (fun acc b => acc * 256 + b.toNat) acc = acc * 256 ^ v.length + leToNat v.reverse := by
  induction v with
  | nil => intro acc; simp [leToNat]
  | cons x xs ih =>
    intro acc
    simp only [List.foldl_cons, ih, List.reverse_cons, leToNat_append, List.length_reverse,
      List.length_cons, leToNat, Nat.pow_succ, Nat.add_mul, Nat.mul_zero, Nat.add_zero]
    rw [Nat.mul_assoc, Nat.mul_comm 256, Nat.mul_comm x.toNat]; omega

theorem beToNat_eq (v : Bytes) : beToNat v = leToNat v.reverse := by
  simp [beToNat, foldl_be]

theorem beToNat_lt (v : Bytes) : beToNat v < 256 ^ v.length := by
  rw [beToNat_eq]; simpa using leToNat_lt v.reverse

/-- digit `L-1-i` of the big-endian number is byte `i` -/
theorem be_digit (v : Bytes) (i : Nat) (hi : i < v.length) :
    beToNat v / 256 ^ (v.length - 1 - i) % 256 = (byteAt v i).toNat := by
  rw [beToNat_eq, leToNat_digit, byteAt]
  congr 1
  simp only [List.getD_eq_getElem?_getD]
  rw [List.getElem?_reverse (by omega)]
  congr 2; omega

theorem be_digit_high (v : Bytes) (m : Nat) (hm : v.length ≤ m) : beToNat v / 256 ^ m % 256 = 0 := by
  have h1 := beToNat_lt v
  have h2 : 256 ^ v.length ≤ 256 ^ m := Nat.pow_le_pow_right (by decide) hm
  rw [Nat.div_eq_of_lt (by omega)]

theorem byteAt_high (v : Bytes) (i : Nat) (hi : v.length ≤ i) : byteAt v i = 0 := by
  simp [byteAt, List.getD_eq_getElem?_getD, List.getElem?_eq_none hi]

/-- a byte string whose bytes are the base-256 digits of `X` is `natToBEn` of `X` -/
theorem eq_natToBEn (x : Bytes) (X : Nat)
    (h : ∀ j (hj : j < x.length), x[j].toNat = X / 256 ^ (x.length - 1 - j) % 256) :
    x = natToBEn x.length X := by
  apply List.ext_getElem
  · simp [natToBEn]
  · intro j h1 h2
    simp only [natToBEn, List.getElem_reverse, natToLEn_getElem, natToLEn_length]
    rw [← h j h1]; simp

theorem eq_replicate_zero (x : Bytes) (h : ∀ j (hj : j < x.length), x[j] = 0) :
    x = List.replicate x.length 0 := by
  apply List.ext_getElem
  · simp
  · intro j h1 h2; simp [h j h1]

/-! ## arithmetic of digits under shifts -/

/-- digits below position `L` are not affected by reduction mod `256^L` -/
theorem digit_mod (a L k : Nat) (h : k < L) : (a % 256 ^ L) / 256 ^ k % 256 = a / 256 ^ k % 256 := by
  have e : 256 ^ L = 256 ^ k * (256 * 256 ^ (L - k - 1)) := by
    rw [← Nat.pow_succ', ← Nat.pow_add]; congr 1; omega
  rw [e, Nat.mod_mul_right_div_self, Nat.mod_mul_right_mod]

theorem digit_mul_low (W b k : Nat) (h : k < b) : (W * 256 ^ b) / 256 ^ k % 256 = 0 := by
  have e : 256 ^ b = 256 ^ k * (256 ^ (b - k - 1) * 256) := by
    rw [← Nat.pow_succ, ← Nat.pow_add]; congr 1; omega
  rw [e, Nat.mul_comm W, Nat.mul_assoc, Nat.mul_div_cancel_left _ (p256_pos k), Nat.mul_right_comm,
    Nat.mul_mod_left]

theorem digit_mul_high (W b k : Nat) (h : b ≤ k) : (W * 256 ^ b) / 256 ^ k = W / 256 ^ (k - b) := by
  have e : 256 ^ k = 256 ^ (k - b) * 256 ^ b := by rw [← Nat.pow_add]; congr 1; omega
  rw [e, Nat.mul_div_mul_right _ _ (p256_pos b)]

theorem shl_core (s Q t : Nat) (hs : s < 8) (ht : t < 2 ^ s) :
    (Q * 2 ^ s + t) / 256 % 256 = ((Q / 256 % 256) * 2 ^ s) % 256 + (Q % 256) * 2 ^ s / 256 := by
  rcases eight_cases s hs with h | h | h | h | h | h | h | h <;> subst h <;> omega

/-- digit `k ≥ 1` of `V * 2^s` from digits `k` and `k-1` of `V` -/
theorem digit_shl (V s k : Nat) (hs : s < 8) (hk : 1 ≤ k) :
    (V * 2 ^ s) / 256 ^ k % 256 =
      ((V / 256 ^ k % 256) * 2 ^ s) % 256 + (V / 256 ^ (k - 1) % 256) * 2 ^ s / 256 := by
  obtain ⟨k, rfl⟩ : ∃ k', k = k' + 1 := ⟨k - 1, by omega⟩
  simp only [Nat.add_sub_cancel]
  have hP := p256_pos k
  generalize hPd : 256 ^ k = P at *
  have e1 : (256 : Nat) ^ (k + 1) = P * 256 := by rw [Nat.pow_succ, hPd]
  rw [e1, ← Nat.div_div_eq_div_mul, ← Nat.div_div_eq_div_mul]
  have hV : V * 2 ^ s = P * (V / P * 2 ^ s) + V % P * 2 ^ s := by
    rw [← Nat.mul_assoc, ← Nat.add_mul, Nat.div_add_mod]
  have ht : V % P * 2 ^ s / P < 2 ^ s :=
    Nat.div_lt_of_lt_mul (Nat.mul_lt_mul_of_pos_right (Nat.mod_lt _ hP) (Nat.two_pow_pos s))
  rw [hV, Nat.mul_add_div hP]
  exact shl_core s (V / P) _ hs ht

theorem shr_core (s W : Nat) (hs : s < 8) :
    (W / 2 ^ s) % 256 = (W % 256) / 2 ^ s + ((W / 256 % 256) * 256 / 2 ^ s) % 256 := by
  rcases eight_cases s hs with h | h | h | h | h | h | h | h <;> subst h <;> omega

/-! ## `lshift` -/

theorem guard_drop (c : Prop) [Decidable c] (f : UInt8 → UInt8) (v : Bytes) (i : Nat)
    (hf : f 0 = 0) (hc : ¬ c → v.length ≤ i) :
    (if c then f (byteAt v i) else 0) = f (byteAt v i) := by
  by_cases h : c
  · rw [if_pos h]
  · rw [if_neg h, byteAt_high v i (hc h), hf]

theorem toNat_eq_zero {x : UInt8} (h : x.toNat = 0) : x = 0 := UInt8.toNat_inj.mp (by simpa using h)

theorem lshift_getElem_toNat (v : Bytes) (n j : Nat) (hj : j < (lshift v n).length) :
    ((lshift v n)[j]).toNat =
      ((byteAt v (j + n / 8)).toNat * 2 ^ (n % 8)) % 256
        + (byteAt v (j + n / 8 + 1)).toNat * 2 ^ (n % 8) / 256 := by
  have hs : n % 8 < 8 := Nat.mod_lt _ (by decide)
  simp only [lshift, List.getElem_map, List.getElem_range]
  rw [guard_drop (j + n / 8 < v.length)
        (fun x => (x &&& LSHIFT_MASK.getD (n % 8) 0) <<< UInt8.ofNat (n % 8)) v (j + n / 8)
        (toNat_eq_zero (by rw [lval _ hs]; simp)) (by omega),
      guard_drop (j + n / 8 + 1 < v.length)
        (fun x => (x &&& ~~~ (LSHIFT_MASK.getD (n % 8) 0)) >>> UInt8.ofNat ((8 - n % 8) % 8)) v
        (j + n / 8 + 1) (toNat_eq_zero (by rw [lcarry _ hs]; simp)) (by omega)]
  exact lbyte _ hs _ _

theorem two_pow_split (n : Nat) : 2 ^ n = 2 ^ (n % 8) * 256 ^ (n / 8) := by
  rw [show (256 : Nat) = 2 ^ 8 by rfl, ← Nat.pow_mul, ← Nat.pow_add]
  congr 1; omega

/-- numeric reading: `lshift` multiplies the big-endian number by `2^n` modulo the width -/
theorem lshift_eq_natToBEn (v : Bytes) (n : Nat) :
    lshift v n = natToBEn v.length ((beToNat v * 2 ^ n) % 2 ^ (8 * v.length)) := by
  have hlen := lshift_length v n
  have hs : n % 8 < 8 := Nat.mod_lt _ (by decide)
  have key := eq_natToBEn (lshift v n) ((beToNat v * 2 ^ n) % 2 ^ (8 * v.length)) ?_
  · rw [hlen] at key; exact key
  intro j hj
  rw [lshift_getElem_toNat v n j hj, hlen]
  rw [hlen] at hj
  rw [show (2 : Nat) ^ (8 * v.length) = 256 ^ v.length by
        rw [show (256 : Nat) = 2 ^ 8 by rfl, ← Nat.pow_mul],
      digit_mod _ _ _ (by omega), two_pow_split n, ← Nat.mul_assoc]
  generalize hb : n / 8 = b
  generalize hsd : n % 8 = s at *
  by_cases hlow : v.length - 1 - j < b
  · rw [digit_mul_low _ _ _ hlow, byteAt_high v (j + b) (by omega),
      byteAt_high v (j + b + 1) (by omega)]
    simp
  · rw [digit_mul_high _ _ _ (by omega)]
    by_cases heq : v.length - 1 - j - b = 0
    · rw [heq, byteAt_high v (j + b + 1) (by omega), ← be_digit v (j + b) (by omega),
        show v.length - 1 - (j + b) = 0 by omega]
      simp only [Nat.pow_zero, Nat.div_one, UInt8.toNat_zero, Nat.zero_mul, Nat.zero_div,
        Nat.add_zero]
      conv => rhs; rw [Nat.mul_mod]
      conv => lhs; rw [Nat.mul_mod, Nat.mod_mod]
    · rw [digit_shl _ _ _ hs (by omega), ← be_digit v (j + b) (by omega),
        ← be_digit v (j + b + 1) (by omega),
        show v.length - 1 - (j + b) = v.length - 1 - j - b by omega,
        show v.length - 1 - (j + b + 1) = v.length - 1 - j - b - 1 by omega]

/-- `lshift v n` is the shift of the big-endian number by `n` bits, length preserved -/
theorem lshift_eq_shl (v : Bytes) (n : Nat) : lshift v n = shl v n := by
  unfold shl
  split
  · next h =>
    have hs : n % 8 < 8 := Nat.mod_lt _ (by decide)
    have key := eq_replicate_zero (lshift v n) ?_
    · rw [lshift_length] at key; exact key
    intro j hj
    apply toNat_eq_zero
    rw [lshift_getElem_toNat v n j hj, byteAt_high v (j + n / 8) (by omega),
      byteAt_high v (j + n / 8 + 1) (by omega)]
    simp
  · exact lshift_eq_natToBEn v n

theorem beToNat_lshift (v : Bytes) (n : Nat) :
    beToNat (lshift v n) = (beToNat v * 2 ^ n) % 2 ^ (8 * v.length) := by
  rw [lshift_eq_natToBEn, natToBEn, beToNat_eq, List.reverse_reverse, leToNat_natToLEn,
    show (2 : Nat) ^ (8 * v.length) = 256 ^ v.length by
      rw [show (256 : Nat) = 2 ^ 8 by rfl, ← Nat.pow_mul], Nat.mod_mod]

/-! ## `rshift` -/

theorem guard_in (c : Prop) [Decidable c] (f : UInt8 → UInt8) (x : UInt8) (hf : f 0 = 0) :
    (if c then f x else 0) = f (if c then x else 0) := by
  by_cases h : c
  · rw [if_pos h, if_pos h]
  · rw [if_neg h, if_neg h, hf]

theorem rshift_getElem_toNat (v : Bytes) (n j : Nat) (hj : j < (rshift v n).length) :
    ((rshift v n)[j]).toNat =
      (if n / 8 ≤ j then byteAt v (j - n / 8) else 0).toNat / 2 ^ (n % 8)
        + ((if n / 8 + 1 ≤ j then byteAt v (j - n / 8 - 1) else 0).toNat * 256 / 2 ^ (n % 8)) % 256 := by
  have hs : n % 8 < 8 := Nat.mod_lt _ (by decide)
  simp only [rshift, List.getElem_map, List.getElem_range]
  rw [guard_in (n / 8 ≤ j)
        (fun x => (x &&& RSHIFT_MASK.getD (n % 8) 0) >>> UInt8.ofNat (n % 8)) _
        (toNat_eq_zero (by rw [rval _ hs]; simp)),
      guard_in (n / 8 + 1 ≤ j)
        (fun x => (x &&& ~~~ (RSHIFT_MASK.getD (n % 8) 0)) <<< UInt8.ofNat ((8 - n % 8) % 8)) _
        (toNat_eq_zero (by rw [rcarry _ hs]; simp))]
  exact rbyte _ hs _ _

/-- numeric reading: `rshift` divides the big-endian number by `2^n` -/
theorem rshift_eq_natToBEn (v : Bytes) (n : Nat) :
    rshift v n = natToBEn v.length (beToNat v / 2 ^ n) := by
  have hlen := rshift_length v n
  have hs : n % 8 < 8 := Nat.mod_lt _ (by decide)
  have key := eq_natToBEn (rshift v n) (beToNat v / 2 ^ n) ?_
  · rw [hlen] at key; exact key
  intro j hj
  rw [rshift_getElem_toNat v n j hj, hlen]
  rw [hlen] at hj
  generalize hb : n / 8 = b
  have hX : (if b ≤ j then byteAt v (j - b) else 0).toNat
      = beToNat v / 256 ^ (v.length - 1 - j + b) % 256 := by
    by_cases h : b ≤ j
    · rw [if_pos h, ← be_digit v (j - b) (by omega)]; congr 3; omega
    · rw [if_neg h, be_digit_high v _ (by omega)]; rfl
  have hY : (if b + 1 ≤ j then byteAt v (j - b - 1) else 0).toNat
      = beToNat v / 256 ^ (v.length - 1 - j + b + 1) % 256 := by
    by_cases h : b + 1 ≤ j
    · rw [if_pos h, ← be_digit v (j - b - 1) (by omega)]; congr 3; omega
    · rw [if_neg h, be_digit_high v _ (by omega)]; rfl
  rw [hX, hY]
  have e : beToNat v / 2 ^ n / 256 ^ (v.length - 1 - j)
      = beToNat v / 256 ^ (v.length - 1 - j + b) / 2 ^ (n % 8) := by
    rw [two_pow_split n, hb, Nat.div_div_eq_div_mul, Nat.div_div_eq_div_mul, Nat.pow_add]
    congr 1
    rw [Nat.mul_comm (2 ^ (n % 8)), Nat.mul_comm (256 ^ (v.length - 1 - j)), Nat.mul_right_comm]
  rw [e, Nat.pow_succ, ← Nat.div_div_eq_div_mul]
  exact (shr_core _ _ hs).symm

/-- `rshift v n` is the shift of the big-endian number by `n` bits, length preserved -/
theorem rshift_eq_shr (v : Bytes) (n : Nat) : rshift v n = shr v n := by
  unfold shr
  split
  · next h =>
    rw [rshift_eq_natToBEn]
    have h1 := beToNat_lt v
    have h2 : 256 ^ v.length ≤ 2 ^ n := by
      rw [show (256 : Nat) = 2 ^ 8 by rfl, ← Nat.pow_mul]
      exact Nat.pow_le_pow_right (by decide) h
    rw [Nat.div_eq_of_lt (by omega)]
    have key := eq_natToBEn (List.replicate v.length (0 : UInt8)) 0 (by intro j hj; simp)
    simp only [List.length_replicate] at key
    exact key.symm
  · exact rshift_eq_natToBEn v n

theorem beToNat_natToBEn (L X : Nat) : beToNat (natToBEn L X) = X % 256 ^ L := by
  rw [natToBEn, beToNat_eq, List.reverse_reverse, leToNat_natToLEn]

theorem beToNat_rshift (v : Bytes) (n : Nat) : beToNat (rshift v n) = beToNat v / 2 ^ n := by
  rw [rshift_eq_natToBEn, beToNat_natToBEn]
  have h1 := beToNat_lt v
  have h2 : beToNat v / 2 ^ n ≤ beToNat v := Nat.div_le_self _ _
  exact Nat.mod_eq_of_lt (by omega)

end CG.Proofs.Shift

import CG.Model.TxValidate
import CG.Spec.Conservation
/-! Helper lemmas for C04. -/
namespace CG.Proofs.TxValidate
open CG CG.Model.TxValidate
open CG.Spec.Conservation (total)

theorem MAX_eq : MAX = 2100000000000000 := by decide

theorem MAX_eq_spec : MAX = CG.Spec.Conservation.MAX_MONEY := by decide

/-- Below the limit the `i64` addition is exact in both profiles. -/
theorem addI64_small (p : Profile) {a x : Int} (ha0 : 0 ≤ a) (haM : a ≤ MAX) (hx0 : 0 ≤ x)
    (hxM : x ≤ MAX) : addI64 p a x = .ok (a + x) := by
  have := MAX_eq
  unfold addI64
  rw [if_pos]
  constructor <;> omega

theorem total_append (a b : List Int) : total (a ++ b) = total a + total b := by
  induction a with
  | nil => simp [total]
  | cons x xs ih => simp [total, ih]; omega

/-- **Loop invariant of the repaired summation**: started with `0 ≤ acc ≤ MAX` it never panics (in
    either profile) and, if it completes, every element was present and non-negative, the result is
    the exact sum, and `0 ≤ result ≤ MAX`. -/
theorem sumLoop_repaired (p : Profile) : ∀ (xs : List (Option Int)) (acc : Int), 0 ≤ acc → acc ≤ MAX →
    (∀ s, sumLoop .repaired p acc xs ≠ .panic s) ∧
    (∀ tot, sumLoop .repaired p acc xs = .ok tot →
      ∃ ys : List Int, xs = ys.map some ∧ (∀ y ∈ ys, 0 ≤ y) ∧ tot = acc + total ys ∧
        0 ≤ tot ∧ tot ≤ MAX) := by
  intro xs
  induction xs with
  | nil =>
    intro acc h0 hM
    refine ⟨by simp [sumLoop], ?_⟩
    intro tot h
    simp only [sumLoop, Outcome.ok.injEq] at h
    subst h
    exact ⟨[], rfl, by simp, by simp [total], h0, hM⟩
  | cons x xs ih =>
    intro acc h0 hM
    cases x with
    | none => simp [sumLoop]
    | some x =>
      unfold sumLoop
      by_cases hx0 : x < 0
      · simp [hx0]
      · by_cases hxM : x > MAX
        · simp [hx0, hxM]
        · have hx0' : 0 ≤ x := by omega
          have hxM' : x ≤ MAX := by omega
          simp only [hx0, if_false, true_and, hxM, addI64_small p h0 hM hx0' hxM']
          by_cases haM : acc + x > MAX
          · simp [haM]
          · simp only [haM, if_false]
            obtain ⟨ih1, ih2⟩ := ih (acc + x) (by omega) (by omega)
            refine ⟨ih1, ?_⟩
            intro tot h
            obtain ⟨ys, e, hn, ht, ht0, htM⟩ := ih2 tot h
            refine ⟨x :: ys, by simp [e], ?_, ?_, ht0, htM⟩
            · intro y hy
              rcases List.mem_cons.mp hy with rfl | hy
              · exact hx0'
              · exact hn y hy
            · simp only [total]; omega

theorem sumLoop_repaired_profile (xs : List (Option Int)) : ∀ (acc : Int), 0 ≤ acc → acc ≤ MAX →
    sumLoop .repaired .dev acc xs = sumLoop .repaired .release acc xs := by
  induction xs with
  | nil => intros; rfl
  | cons x xs ih =>
    intro acc h0 hM
    cases x with
    | none => rfl
    | some x =>
      unfold sumLoop
      by_cases hx0 : x < 0
      · simp [hx0]
      · by_cases hxM : x > MAX
        · simp [hx0, hxM]
        · have hx0' : 0 ≤ x := by omega
          have hxM' : x ≤ MAX := by omega
          simp only [hx0, if_false, true_and, hxM, addI64_small _ h0 hM hx0' hxM']
          by_cases haM : acc + x > MAX
          · simp [haM]
          · simp only [haM, if_false]
            exact ih (acc + x) (by omega) (by omega)

/-- converse of the invariant: on present, non-negative amounts whose exact total stays within the
    limit the repaired loop completes with the exact sum -/
theorem sumLoop_repaired_complete (p : Profile) : ∀ (ys : List Int) (acc : Int), 0 ≤ acc →
    (∀ y ∈ ys, 0 ≤ y) → acc + total ys ≤ MAX →
    sumLoop .repaired p acc (ys.map some) = .ok (acc + total ys) := by
  intro ys
  induction ys with
  | nil => intro acc _ _ _; simp [sumLoop, total]
  | cons y ys ih =>
    intro acc h0 hn hM
    have hy0 : 0 ≤ y := hn y (by simp)
    have hn' : ∀ z ∈ ys, 0 ≤ z := fun z hz => hn z (by simp [hz])
    have htot : 0 ≤ total ys := by
      clear ih hM hn
      induction ys with
      | nil => simp [total]
      | cons z zs ihz =>
        have := hn' z (by simp)
        have := ihz (fun w hw => hn' w (by simp [hw]))
        simp only [total]; omega
    simp only [total] at hM
    simp only [List.map_cons, sumLoop]
    have h1 : ¬ y < 0 := by omega
    have h2 : ¬ y > MAX := by omega
    have h3 : ¬ acc + y > MAX := by omega
    simp only [h1, if_false, true_and, h2, addI64_small p h0 (by omega) hy0 (by omega), h3]
    rw [ih (acc + y) (by omega) hn' (by omega)]
    simp only [total]
    congr 1; omega

theorem checkedSum_repaired (p : Profile) (xs : List (Option Int)) :
    (∀ s, checkedSum .repaired p xs ≠ .panic s) ∧
    (∀ tot, checkedSum .repaired p xs = .ok tot →
      ∃ ys : List Int, xs = ys.map some ∧ (∀ y ∈ ys, 0 ≤ y) ∧ tot = total ys ∧
        0 ≤ tot ∧ tot ≤ MAX) := by
  have hM : (0 : Int) ≤ MAX := by rw [MAX_eq]; omega
  obtain ⟨h1, h2⟩ := sumLoop_repaired p xs 0 (by omega) hM
  unfold checkedSum
  constructor
  · intro s
    cases h : sumLoop .repaired p 0 xs with
    | ok t => simp
    | err e => simp
    | panic s' => exact absurd h (h1 s')
  · intro tot
    cases h : sumLoop .repaired p 0 xs with
    | ok t =>
      simp only [reduceCtorEq, false_and, if_false, Outcome.ok.injEq]
      intro e; subst e
      obtain ⟨ys, e, hn, ht, ht0, htM⟩ := h2 t h
      exact ⟨ys, e, hn, by omega, ht0, htM⟩
    | err e => simp
    | panic s' => simp

theorem checkedSum_repaired_profile (xs : List (Option Int)) :
    checkedSum .repaired .dev xs = checkedSum .repaired .release xs := by
  have hM : (0 : Int) ≤ MAX := by rw [MAX_eq]; omega
  unfold checkedSum
  rw [sumLoop_repaired_profile xs 0 (by omega) hM]

theorem checkedSum_repaired_complete (p : Profile) (ys : List Int) (hn : ∀ y ∈ ys, 0 ≤ y)
    (hM : total ys ≤ MAX) : checkedSum .repaired p (ys.map some) = .ok (total ys) := by
  unfold checkedSum
  rw [sumLoop_repaired_complete p ys 0 (by omega) hn (by omega)]
  simp

/-- the seen-set loop rejects exactly the lists with a repeated element (or one already seen) -/
theorem dupLoop_false_iff (l : List OutPoint) : ∀ seen : List OutPoint,
    dupLoop seen l = false ↔ (l.Pairwise (· ≠ ·) ∧ ∀ x ∈ l, x ∉ seen) := by
  induction l with
  | nil => intro seen; simp [dupLoop]
  | cons x xs ih =>
    intro seen
    unfold dupLoop
    by_cases hc : seen.contains x = true
    · simp only [hc, if_true, Bool.true_eq_false, false_iff]
      rintro ⟨_, h⟩
      exact h x (by simp) (by simpa using hc)
    · have hx : x ∉ seen := by simpa using hc
      simp only [hc, Bool.false_eq_true, if_false, ih, List.pairwise_cons, List.mem_cons]
      constructor
      · rintro ⟨hp, hs⟩
        refine ⟨⟨?_, hp⟩, ?_⟩
        · intro a ha e
          subst e
          exact hs x ha (by simp)
        · intro y hy
          rcases hy with rfl | hy
          · exact hx
          · intro hys
            exact hs y hy (by simp [hys])
      · rintro ⟨⟨hne, hp⟩, hs⟩
        refine ⟨hp, ?_⟩
        intro y hy hys
        rcases hys with rfl | hys
        · exact hne y hy rfl
        · exact hs y (Or.inr hy) hys

theorem dupLoop_nil_false_iff (l : List OutPoint) :
    dupLoop [] l = false ↔ l.Pairwise (· ≠ ·) := by
  rw [dupLoop_false_iff]; simp

/-- the script loop: if every input is in the map it cannot panic unless the oracle does, and it
    succeeds exactly when the oracle says `ok true` for every index -/
theorem scriptLoop_spec (utxos : Utxos) (ok : Nat → Outcome Bool) : ∀ (ins : List TxIn) (i : Nat),
    (∀ t ∈ ins, (utxos t.prevOutput).isSome = true) →
    ((∀ j s, ok j ≠ .panic s) → ∀ s, scriptLoop utxos ok i ins ≠ .panic s) ∧
    (scriptLoop utxos ok i ins = .ok () ↔ ∀ j, j < ins.length → ok (i + j) = .ok true) := by
  intro ins
  induction ins with
  | nil => intro i _; simp [scriptLoop]
  | cons t rest ih =>
    intro i hp
    have hpt := hp t (by simp)
    obtain ⟨ih1, ih2⟩ := ih (i + 1) (fun t' ht' => hp t' (by simp [ht']))
    unfold scriptLoop
    cases hu : utxos t.prevOutput with
    | none => simp [hu] at hpt
    | some o =>
      simp only
      constructor
      · intro hnp s
        cases hk : ok i with
        | ok b => cases b <;> simp [ih1 hnp]
        | err e => simp
        | panic s' => exact absurd hk (hnp i s')
      · cases hk : ok i with
        | ok b =>
          cases b
          · simp only [reduceCtorEq, false_iff]
            intro h
            have := h 0 (by simp)
            simp [hk] at this
          · simp only [ih2, List.length_cons]
            constructor
            · intro h j hj
              cases j with
              | zero => simpa using hk
              | succ j =>
                have := h j (by omega)
                rw [show i + (j + 1) = i + 1 + j by omega]; exact this
            · intro h j hj
              have := h (j + 1) (by omega)
              rw [show i + 1 + j = i + (j + 1) by omega]; exact this
        | err e =>
          simp only [reduceCtorEq, false_iff]
          intro h
          have := h 0 (by simp)
          simp [hk] at this
        | panic s' =>
          simp only [reduceCtorEq, false_iff]
          intro h
          have := h 0 (by simp)
          simp [hk] at this

/-! ### the view of a model transaction taken by the specification -/
open CG.Spec.Conservation (View Accepts PayloadAccepts Ref coinbaseRef inputAmounts MAX_MONEY)

def refOf (o : OutPoint) : Ref := (o.hash, o.index)

def passes : Outcome Bool → Bool
  | .ok true => true
  | _ => false

def viewOf (tx : Tx) (utxos : Utxos) (scriptOk : Nat → Outcome Bool) : View where
  inputs := tx.inputs.map (fun i => refOf i.prevOutput)
  spent := fun r => (utxos ⟨r.1, r.2⟩).map (·.satoshis)
  outputs := tx.outputs.map (·.satoshis)
  lockTime := tx.lockTime
  scriptPass := fun i => passes (scriptOk i)

theorem refOf_inj {a b : OutPoint} (h : refOf a = refOf b) : a = b := by
  cases a; cases b; simp [refOf] at h; simp [h]

theorem map_eq_map_some {α β} (f : α → Option β) : ∀ (l : List α) (ys : List β),
    l.map f = ys.map some → l.filterMap f = ys ∧ ∀ x ∈ l, (f x).isSome = true := by
  intro l
  induction l with
  | nil => intro ys h; cases ys <;> simp_all
  | cons a l ih =>
    intro ys h
    cases ys with
    | nil => simp at h
    | cons y ys =>
      simp only [List.map_cons, List.cons.injEq] at h
      obtain ⟨h1, h2⟩ := ih ys h.2
      refine ⟨by simp [h.1, h1], ?_⟩
      intro x hx
      rcases List.mem_cons.mp hx with rfl | hx
      · simp [h.1]
      · exact h2 x hx

theorem map_some_filterMap {α β} (f : α → Option β) : ∀ (l : List α),
    (∀ x ∈ l, (f x).isSome = true) → l.map f = (l.filterMap f).map some := by
  intro l
  induction l with
  | nil => simp
  | cons a l ih =>
    intro h
    have ha := h a (by simp)
    cases hf : f a with
    | none => simp [hf] at ha
    | some b =>
      simp only [List.map_cons, List.filterMap_cons, hf, List.cons.injEq, true_and]
      exact ih (fun x hx => h x (by simp [hx]))

theorem inputAmounts_view (tx : Tx) (utxos : Utxos) (sok : Nat → Outcome Bool) :
    inputAmounts (viewOf tx utxos sok)
      = tx.inputs.filterMap (fun i => (utxos i.prevOutput).map (·.satoshis)) := by
  simp only [inputAmounts, viewOf, List.filterMap_map]
  rfl

theorem isCoinbaseRef_iff (o : OutPoint) : isCoinbaseRef o = true ↔ refOf o = coinbaseRef := by
  cases o with
  | mk h i =>
    simp only [isCoinbaseRef, refOf, coinbaseRef, COINBASE_HASH, COINBASE_INDEX, Prod.mk.injEq]
    have : (2 : Nat) ^ 32 - 1 = 0xffffffff := by decide
    rw [this]
    exact decide_eq_true_iff

theorem passes_iff (o : Outcome Bool) : passes o = true ↔ o = .ok true := by
  cases o with
  | ok b => cases b <;> simp [passes]
  | err e => simp [passes]
  | panic s => simp [passes]

/-- **Characterisation of acceptance** by the repaired model, for every transaction, map, oracle,
    profile and rule set. -/
theorem validate_ok_iff (p : Profile) (g : Bool) (tx : Tx) (utxos : Utxos) (sok : Nat → Outcome Bool) :
    validate p g tx utxos sok = .ok () ↔
      (tx.inputs ≠ [] ∧ tx.outputs ≠ [] ∧ Accepts (viewOf tx utxos sok) ∧
        ¬ (g = true ∧ tx.outputs.any (fun o => isP2sh o.lockScript) = true)) := by
  have hMM := MAX_eq_spec
  obtain ⟨_, hOutOk⟩ := checkedSum_repaired p (outAmounts tx.outputs)
  obtain ⟨_, hInOk⟩ := checkedSum_repaired p (inAmounts utxos tx.inputs)
  constructor
  · intro h
    unfold validate validateWith at h
    split at h
    · simp at h
    rename_i hin
    split at h
    · simp at h
    rename_i hout
    split at h
    · simp at h
    · simp at h
    rename_i totalOut hOut
    split at h
    · simp at h
    rename_i hcb
    split at h
    · simp at h
    rename_i hdup
    split at h
    · simp at h
    rename_i hlt
    split at h
    · simp at h
    · simp at h
    rename_i totalIn hIn
    split at h
    · simp at h
    rename_i hcons
    split at h
    · simp at h
    · simp at h
    rename_i hscr
    split at h
    · simp at h
    rename_i hp2sh
    obtain ⟨ysO, eO, hnO, htO, _, hMO⟩ := hOutOk totalOut hOut
    obtain ⟨ysI, eI, hnI, htI, _, hMI⟩ := hInOk totalIn hIn
    have eO' : tx.outputs.map (·.satoshis) = ysO := by
      have := congrArg (List.filterMap id) eO
      simpa [outAmounts, List.filterMap_map] using this
    obtain ⟨eI', hpres⟩ := map_eq_map_some _ _ _ eI
    refine ⟨by simpa using hin, by simpa using hout, ?_, hp2sh⟩
    have hpres : ∀ t ∈ tx.inputs, (utxos t.prevOutput).isSome = true := by
      intro t ht; simpa using hpres t ht
    have hscr' := (scriptLoop_spec utxos sok tx.inputs 0 hpres).2.mp hscr
    constructor
    · intro r hr
      simp only [viewOf, List.mem_map] at hr
      obtain ⟨i, hi, rfl⟩ := hr
      have := hpres i hi
      simpa [viewOf, refOf] using this
    · simp only [viewOf, List.pairwise_map]
      have hd : dupLoop [] (tx.inputs.map (·.prevOutput)) = false := by
        cases hc : dupLoop [] (tx.inputs.map (·.prevOutput)) with
        | false => rfl
        | true => exact absurd ⟨rfl, hc⟩ hdup
      rw [dupLoop_nil_false_iff, List.pairwise_map] at hd
      exact hd.imp (fun hne e => hne (refOf_inj e))
    · intro a ha
      simp only [viewOf] at ha
      rw [eO'] at ha
      exact hnO a ha
    · rw [inputAmounts_view, eI']
      exact hnI
    · rw [inputAmounts_view, eI', ← hMM, ← htI]; exact hMI
    · simp only [viewOf]; rw [eO', ← hMM, ← htO]; exact hMO
    · rw [inputAmounts_view, eI']; simp only [viewOf]; rw [eO', ← htO, ← htI]; omega
    · simp only [viewOf]; omega
    · intro r hr
      simp only [viewOf, List.mem_map] at hr
      obtain ⟨i, hi, rfl⟩ := hr
      intro e
      have := (isCoinbaseRef_iff i.prevOutput).mpr e
      apply hcb
      simp only [List.any_eq_true]
      exact ⟨i, hi, this⟩
    · intro i hi
      simp only [viewOf, List.length_map] at hi ⊢
      rw [passes_iff]
      simpa using hscr' i hi
  · rintro ⟨hin, hout, hacc, hp2sh⟩
    obtain ⟨hpres, hdist, hoN, hiN, hiS, hoS, hcons, hlt, hncb, hscr⟩ := hacc
    have hpres' : ∀ t ∈ tx.inputs, (utxos t.prevOutput).isSome = true := by
      intro t ht
      have := hpres (refOf t.prevOutput) (by simp only [viewOf, List.mem_map]; exact ⟨t, ht, rfl⟩)
      simpa [viewOf, refOf] using this
    have hpres'' : ∀ t ∈ tx.inputs, ((utxos t.prevOutput).map (·.satoshis)).isSome = true := by
      intro t ht; simpa using hpres' t ht
    rw [inputAmounts_view] at hiN hiS hcons
    have eO : outAmounts tx.outputs = (tx.outputs.map (·.satoshis)).map some := by
      simp [outAmounts, List.map_map]
    have eI : inAmounts utxos tx.inputs
        = (tx.inputs.filterMap (fun i => (utxos i.prevOutput).map (·.satoshis))).map some :=
      map_some_filterMap _ _ hpres''
    have hoN' : ∀ a ∈ tx.outputs.map (fun o : TxOut => o.satoshis), 0 ≤ a := hoN
    have hoS' : total (tx.outputs.map (fun o : TxOut => o.satoshis)) ≤ MAX_MONEY := hoS
    have hO := checkedSum_repaired_complete p (tx.outputs.map (fun o : TxOut => o.satoshis)) hoN'
      (by rw [hMM]; exact hoS')
    have hI := checkedSum_repaired_complete p _ hiN (by rw [hMM]; exact hiS)
    rw [← eO] at hO
    rw [← eI] at hI
    have h1 : tx.inputs.isEmpty = false := by cases h : tx.inputs <;> simp_all
    have h2 : tx.outputs.isEmpty = false := by cases h : tx.outputs <;> simp_all
    have h3 : tx.inputs.any (fun i => isCoinbaseRef i.prevOutput) = false := by
      rw [Bool.eq_false_iff]
      intro h
      simp only [List.any_eq_true] at h
      obtain ⟨i, hi, hc⟩ := h
      exact hncb (refOf i.prevOutput) (by simp only [viewOf, List.mem_map]; exact ⟨i, hi, rfl⟩)
        ((isCoinbaseRef_iff _).mp hc)
    have h4 : dupLoop [] (tx.inputs.map (·.prevOutput)) = false := by
      rw [dupLoop_nil_false_iff, List.pairwise_map]
      simp only [viewOf, List.pairwise_map] at hdist
      exact hdist.imp (fun hne e => hne (by rw [e]))
    have h5 : ¬ tx.lockTime > 2147483647 := by simp only [viewOf] at hlt; omega
    have h6 : scriptLoop utxos sok 0 tx.inputs = .ok () := by
      rw [(scriptLoop_spec utxos sok tx.inputs 0 hpres').2]
      intro j hj
      have := hscr j (by simpa [viewOf] using hj)
      simp only [viewOf] at this
      simpa using (passes_iff _).mp this
    unfold validate validateWith
    simp only [h1, h2, Bool.false_eq_true, if_false, hO, h3, h4, and_false, h5, hI, h6]
    have h7 : ¬ (total (tx.inputs.filterMap fun i => (utxos i.prevOutput).map (·.satoshis))
        < total (tx.outputs.map (·.satoshis))) := by
      simp only [viewOf] at hcons; omega
    simp only [h7, if_false]
    rw [if_neg hp2sh]

/-- the repaired `Tx::validate` panics only if the script oracle does -/
theorem validate_no_panic (p : Profile) (g : Bool) (tx : Tx) (utxos : Utxos) (sok : Nat → Outcome Bool)
    (hsok : ∀ j s, sok j ≠ .panic s) : ∀ s, validate p g tx utxos sok ≠ .panic s := by
  obtain ⟨hOutNP, _⟩ := checkedSum_repaired p (outAmounts tx.outputs)
  obtain ⟨hInNP, hInOk⟩ := checkedSum_repaired p (inAmounts utxos tx.inputs)
  intro s
  unfold validate validateWith
  split
  · simp
  split
  · simp
  split
  · simp
  · rename_i s' h; exact absurd h (hOutNP s')
  split
  · simp
  split
  · simp
  split
  · simp
  split
  · simp
  · rename_i s' h; exact absurd h (hInNP s')
  rename_i totalIn hIn
  split
  · simp
  obtain ⟨ysI, eI, _⟩ := hInOk totalIn hIn
  obtain ⟨_, hpres⟩ := map_eq_map_some _ _ _ eI
  have hpres' : ∀ t ∈ tx.inputs, (utxos t.prevOutput).isSome = true := by
    intro t ht; simpa using hpres t ht
  split
  · simp
  · rename_i s' h
    exact absurd h ((scriptLoop_spec utxos sok tx.inputs 0 hpres').1 hsok s')
  split <;> simp

theorem validate_profile (g : Bool) (tx : Tx) (utxos : Utxos) (sok : Nat → Outcome Bool) :
    validate .dev g tx utxos sok = validate .release g tx utxos sok := by
  unfold validate validateWith
  rw [checkedSum_repaired_profile (outAmounts tx.outputs),
    checkedSum_repaired_profile (inAmounts utxos tx.inputs)]

/-! ### payload validators -/

theorem payloadTx_ok_iff (p : Profile) (tx : Tx) :
    payloadTxWith .repaired p tx = .ok () ↔
      (tx.inputs ≠ [] ∧ tx.outputs ≠ [] ∧ PayloadAccepts (tx.outputs.map (·.satoshis))) := by
  have hMM := MAX_eq_spec
  obtain ⟨_, hOutOk⟩ := checkedSum_repaired p (outAmounts tx.outputs)
  constructor
  · intro h
    unfold payloadTxWith at h
    split at h
    · simp at h
    rename_i hin
    split at h
    · simp at h
    rename_i hout
    split at h
    · simp at h
    · simp at h
    rename_i totalOut hOut
    obtain ⟨ysO, eO, hnO, htO, _, hMO⟩ := hOutOk totalOut hOut
    have eO' : tx.outputs.map (·.satoshis) = ysO := by
      have := congrArg (List.filterMap id) eO
      simpa [outAmounts, List.filterMap_map] using this
    refine ⟨by simpa using hin, by simpa using hout, ?_, ?_⟩
    · rw [eO']; exact hnO
    · rw [eO', ← hMM, ← htO]; exact hMO
  · rintro ⟨hin, hout, hoN, hoS⟩
    have eO : outAmounts tx.outputs = (tx.outputs.map (·.satoshis)).map some := by
      simp [outAmounts, List.map_map]
    have hO := checkedSum_repaired_complete p (tx.outputs.map (fun o : TxOut => o.satoshis)) hoN
      (by rw [hMM]; exact hoS)
    rw [← eO] at hO
    have h1 : tx.inputs.isEmpty = false := by cases h : tx.inputs <;> simp_all
    have h2 : tx.outputs.isEmpty = false := by cases h : tx.outputs <;> simp_all
    unfold payloadTxWith
    simp [h1, h2, hO]

theorem payloadTx_no_panic (p : Profile) (tx : Tx) : ∀ s, payloadTxWith .repaired p tx ≠ .panic s := by
  obtain ⟨hOutNP, _⟩ := checkedSum_repaired p (outAmounts tx.outputs)
  intro s
  unfold payloadTxWith
  split
  · simp
  split
  · simp
  split
  · simp
  · rename_i s' h; exact absurd h (hOutNP s')
  · simp

theorem payloadLoop_spec (p : Profile) : ∀ txs : List Tx,
    (∀ s, payloadLoop .repaired p txs ≠ .panic s) ∧
    (payloadLoop .repaired p txs = .ok () ↔
      ∀ tx ∈ txs, tx.inputs ≠ [] ∧ tx.outputs ≠ [] ∧ PayloadAccepts (tx.outputs.map (·.satoshis))) := by
  intro txs
  induction txs with
  | nil => simp [payloadLoop]
  | cons tx rest ih =>
    unfold payloadLoop
    cases h : payloadTxWith .repaired p tx with
    | ok u =>
      cases u
      have := (payloadTx_ok_iff p tx).mp h
      simp only [List.mem_cons, forall_eq_or_imp]
      exact ⟨ih.1, by rw [ih.2]; exact ⟨fun hr => ⟨this, hr⟩, fun hr => hr.2⟩⟩
    | err e =>
      refine ⟨by simp, ?_⟩
      simp only [reduceCtorEq, false_iff, List.mem_cons, forall_eq_or_imp, not_and]
      intro hc
      have := (payloadTx_ok_iff p tx).mpr hc
      simp [h] at this
    | panic s => exact absurd h (payloadTx_no_panic p tx s)

theorem payloadLoop_profile : ∀ txs : List Tx,
    payloadLoop .repaired .dev txs = payloadLoop .repaired .release txs := by
  intro txs
  induction txs with
  | nil => rfl
  | cons tx rest ih =>
    unfold payloadLoop payloadTxWith
    rw [checkedSum_repaired_profile, ih]

end CG.Proofs.TxValidate

import CG.Proofs.WireSpecEq
import CG.Model.Wire.Header
/-!
`Message::write` followed by `Message::read` (model): header layout, dispatch, checksum, payload.
-/
namespace CG.Model.Wire
open CG CG.Spec

theorem messageHeaderC_lawful : Lawful messageHeaderC :=
  iso_lawful
    (pair_lawful (bytesN_lawful 4) (pair_lawful (bytesN_lawful 12) (pair_lawful u32_lawful (bytesN_lawful 4))))
    (fun _ => rfl) (fun _ _ => rfl)

theorem messageHeader_enc (h : MessageHeader) :
    messageHeaderC.enc h = h.magic ++ h.command ++ WireSpec.le32 h.payloadSize ++ h.checksum := by
  simp [messageHeaderC, u32_enc]

theorem arm_lawfulEnd {α} {c : Codec α} (hc : LawfulEnd c) (v : α → Outcome Unit) {mk : α → Msg}
    {un : Msg → Option α} (d : α) (h1 : ∀ b a, un b = some a → mk a = b) (h2 : ∀ a, un (mk a) = some a) :
    LawfulEnd (arm c v mk un d) :=
  inj_lawfulEnd (validated_lawfulEnd hc v) h1 (fun a _ => h2 a)

theorem aAddr_lawful : LawfulEnd aAddr :=
  arm_lawfulEnd addrC_lawful.toEnd _ _ (by intro b a h; cases b <;> simp [unAddr] at h <;> (subst h; rfl)) (fun _ => rfl)

theorem aAddrV2_lawful : LawfulEnd aAddrV2 :=
  arm_lawfulEnd addrV2C_lawful.toEnd _ _ (by intro b a h; cases b <;> simp [unAddrV2] at h <;> (subst h; rfl)) (fun _ => rfl)

theorem aBlock_lawful : LawfulEnd aBlock :=
  arm_lawfulEnd blockC_lawful.toEnd _ _ (by intro b a h; cases b <;> simp [unBlock] at h <;> (subst h; rfl)) (fun _ => rfl)

theorem aFeeFilter_lawful : LawfulEnd aFeeFilter :=
  arm_lawfulEnd feeFilterC_lawful.toEnd _ _ (by intro b a h; cases b <;> simp [unFeeFilter] at h <;> (subst h; rfl)) (fun _ => rfl)

theorem aFilterAdd_lawful : LawfulEnd aFilterAdd :=
  arm_lawfulEnd filterAddC_lawful.toEnd _ _ (by intro b a h; cases b <;> simp [unFilterAdd] at h <;> (subst h; rfl)) (fun _ => rfl)

theorem aFilterLoad_lawful : LawfulEnd aFilterLoad :=
  arm_lawfulEnd filterLoadC_lawful.toEnd _ _ (by intro b a h; cases b <;> simp [unFilterLoad] at h <;> (subst h; rfl)) (fun _ => rfl)

theorem aGetBlocks_lawful : LawfulEnd aGetBlocks :=
  arm_lawfulEnd blockLocatorC_lawful.toEnd _ _ (by intro b a h; cases b <;> simp [unGetBlocks] at h <;> (subst h; rfl)) (fun _ => rfl)

theorem aGetData_lawful : LawfulEnd aGetData :=
  arm_lawfulEnd invC_lawful.toEnd _ _ (by intro b a h; cases b <;> simp [unGetData] at h <;> (subst h; rfl)) (fun _ => rfl)

theorem aGetHeaders_lawful : LawfulEnd aGetHeaders :=
  arm_lawfulEnd blockLocatorC_lawful.toEnd _ _ (by intro b a h; cases b <;> simp [unGetHeaders] at h <;> (subst h; rfl)) (fun _ => rfl)

theorem aHeaders_lawful : LawfulEnd aHeaders :=
  arm_lawfulEnd headersC_lawful.toEnd _ _ (by intro b a h; cases b <;> simp [unHeaders] at h <;> (subst h; rfl)) (fun _ => rfl)

theorem aInv_lawful : LawfulEnd aInv :=
  arm_lawfulEnd invC_lawful.toEnd _ _ (by intro b a h; cases b <;> simp [unInv] at h <;> (subst h; rfl)) (fun _ => rfl)

theorem aMerkleBlock_lawful : LawfulEnd aMerkleBlock :=
  arm_lawfulEnd merkleBlockC_lawful.toEnd _ _ (by intro b a h; cases b <;> simp [unMerkleBlock] at h <;> (subst h; rfl)) (fun _ => rfl)

theorem aNotFound_lawful : LawfulEnd aNotFound :=
  arm_lawfulEnd invC_lawful.toEnd _ _ (by intro b a h; cases b <;> simp [unNotFound] at h <;> (subst h; rfl)) (fun _ => rfl)

theorem aPing_lawful : LawfulEnd aPing :=
  arm_lawfulEnd pingC_lawful.toEnd _ _ (by intro b a h; cases b <;> simp [unPing] at h <;> (subst h; rfl)) (fun _ => rfl)

theorem aPong_lawful : LawfulEnd aPong :=
  arm_lawfulEnd pingC_lawful.toEnd _ _ (by intro b a h; cases b <;> simp [unPong] at h <;> (subst h; rfl)) (fun _ => rfl)

theorem aReject_lawful : LawfulEnd aReject :=
  arm_lawfulEnd rejectC_lawful.toEnd _ _ (by intro b a h; cases b <;> simp [unReject] at h <;> (subst h; rfl)) (fun _ => rfl)

theorem aSendCmpct_lawful : LawfulEnd aSendCmpct :=
  arm_lawfulEnd sendCmpctC_lawful.toEnd _ _ (by intro b a h; cases b <;> simp [unSendCmpct] at h <;> (subst h; rfl)) (fun _ => rfl)

theorem aTx_lawful : LawfulEnd aTx :=
  arm_lawfulEnd txC_lawful.toEnd _ _ (by intro b a h; cases b <;> simp [unTx] at h <;> (subst h; rfl)) (fun _ => rfl)

theorem aVersion_lawful : LawfulEnd aVersion :=
  arm_lawfulEnd versionC_lawfulEnd _ _ (by intro b a h; cases b <;> simp [unVersion] at h <;> (subst h; rfl)) (fun _ => rfl)

theorem aProtoconf_lawful : LawfulEnd aProtoconf :=
  arm_lawfulEnd protoconfC_lawful.toEnd _ _ (by intro b a h; cases b <;> simp [unProtoconf] at h <;> (subst h; rfl)) (fun _ => rfl)

theorem aAuthch_lawful : LawfulEnd aAuthch :=
  arm_lawfulEnd authchC_lawful.toEnd _ _ (by intro b a h; cases b <;> simp [unAuthch] at h <;> (subst h; rfl)) (fun _ => rfl)

theorem aCreatestrm_lawful : LawfulEnd aCreatestrm :=
  arm_lawfulEnd createstrmC_lawfulEnd _ _ (by intro b a h; cases b <;> simp [unCreatestrm] at h <;> (subst h; rfl)) (fun _ => rfl)

theorem aStreamack_lawful : LawfulEnd aStreamack :=
  arm_lawfulEnd streamackC_lawful.toEnd _ _ (by intro b a h; cases b <;> simp [unStreamack] at h <;> (subst h; rfl)) (fun _ => rfl)

theorem aCmpctblock_lawful : LawfulEnd aCmpctblock :=
  arm_lawfulEnd cmpctblockC_lawful.toEnd _ _ (by intro b a h; cases b <;> simp [unCmpctblock] at h <;> (subst h; rfl)) (fun _ => rfl)

theorem aGetblocktxn_lawful : LawfulEnd aGetblocktxn :=
  arm_lawfulEnd getblocktxnC_lawful.toEnd _ _ (by intro b a h; cases b <;> simp [unGetblocktxn] at h <;> (subst h; rfl)) (fun _ => rfl)

theorem aBlocktxn_lawful : LawfulEnd aBlocktxn :=
  arm_lawfulEnd blocktxnC_lawful.toEnd _ _ (by intro b a h; cases b <;> simp [unBlocktxn] at h <;> (subst h; rfl)) (fun _ => rfl)

/-- every arm with a payload is an end-of-payload lawful codec on `Msg` -/
theorem entry_lawful (m : Msg) (e : Entry) (c : Codec Msg) (he : entryOf m = some e)
    (hb : e.body = some c) : LawfulEnd c := by
  cases m with
  | addr p =>
    simp only [entryOf, Option.some.injEq] at he; subst he
    simp only [eAddr, Option.some.injEq] at hb; subst hb
    exact aAddr_lawful
  | addrV2 p =>
    simp only [entryOf, Option.some.injEq] at he; subst he
    simp only [eAddrV2, Option.some.injEq] at hb; subst hb
    exact aAddrV2_lawful
  | block p =>
    simp only [entryOf, Option.some.injEq] at he; subst he
    simp only [eBlock, Option.some.injEq] at hb; subst hb
    exact aBlock_lawful
  | feeFilter p =>
    simp only [entryOf, Option.some.injEq] at he; subst he
    simp only [eFeeFilter, Option.some.injEq] at hb; subst hb
    exact aFeeFilter_lawful
  | filterAdd p =>
    simp only [entryOf, Option.some.injEq] at he; subst he
    simp only [eFilterAdd, Option.some.injEq] at hb; subst hb
    exact aFilterAdd_lawful
  | filterClear =>
    simp only [entryOf, Option.some.injEq] at he; subst he
    simp [eFilterClear] at hb
  | filterLoad p =>
    simp only [entryOf, Option.some.injEq] at he; subst he
    simp only [eFilterLoad, Option.some.injEq] at hb; subst hb
    exact aFilterLoad_lawful
  | getAddr =>
    simp only [entryOf, Option.some.injEq] at he; subst he
    simp [eGetAddr] at hb
  | getBlocks p =>
    simp only [entryOf, Option.some.injEq] at he; subst he
    simp only [eGetBlocks, Option.some.injEq] at hb; subst hb
    exact aGetBlocks_lawful
  | getData p =>
    simp only [entryOf, Option.some.injEq] at he; subst he
    simp only [eGetData, Option.some.injEq] at hb; subst hb
    exact aGetData_lawful
  | getHeaders p =>
    simp only [entryOf, Option.some.injEq] at he; subst he
    simp only [eGetHeaders, Option.some.injEq] at hb; subst hb
    exact aGetHeaders_lawful
  | headers p =>
    simp only [entryOf, Option.some.injEq] at he; subst he
    simp only [eHeaders, Option.some.injEq] at hb; subst hb
    exact aHeaders_lawful
  | inv p =>
    simp only [entryOf, Option.some.injEq] at he; subst he
    simp only [eInv, Option.some.injEq] at hb; subst hb
    exact aInv_lawful
  | mempool =>
    simp only [entryOf, Option.some.injEq] at he; subst he
    simp [eMempool] at hb
  | merkleBlock p =>
    simp only [entryOf, Option.some.injEq] at he; subst he
    simp only [eMerkleBlock, Option.some.injEq] at hb; subst hb
    exact aMerkleBlock_lawful
  | notFound p =>
    simp only [entryOf, Option.some.injEq] at he; subst he
    simp only [eNotFound, Option.some.injEq] at hb; subst hb
    exact aNotFound_lawful
  | ping p =>
    simp only [entryOf, Option.some.injEq] at he; subst he
    simp only [ePing, Option.some.injEq] at hb; subst hb
    exact aPing_lawful
  | pong p =>
    simp only [entryOf, Option.some.injEq] at he; subst he
    simp only [ePong, Option.some.injEq] at hb; subst hb
    exact aPong_lawful
  | reject p =>
    simp only [entryOf, Option.some.injEq] at he; subst he
    simp only [eReject, Option.some.injEq] at hb; subst hb
    exact aReject_lawful
  | sendCmpct p =>
    simp only [entryOf, Option.some.injEq] at he; subst he
    simp only [eSendCmpct, Option.some.injEq] at hb; subst hb
    exact aSendCmpct_lawful
  | sendHeaders =>
    simp only [entryOf, Option.some.injEq] at he; subst he
    simp [eSendHeaders] at hb
  | tx p =>
    simp only [entryOf, Option.some.injEq] at he; subst he
    simp only [eTx, Option.some.injEq] at hb; subst hb
    exact aTx_lawful
  | version p =>
    simp only [entryOf, Option.some.injEq] at he; subst he
    simp only [eVersion, Option.some.injEq] at hb; subst hb
    exact aVersion_lawful
  | verack =>
    simp only [entryOf, Option.some.injEq] at he; subst he
    simp [eVerack] at hb
  | protoconf p =>
    simp only [entryOf, Option.some.injEq] at he; subst he
    simp only [eProtoconf, Option.some.injEq] at hb; subst hb
    exact aProtoconf_lawful
  | authch p =>
    simp only [entryOf, Option.some.injEq] at he; subst he
    simp only [eAuthch, Option.some.injEq] at hb; subst hb
    exact aAuthch_lawful
  | createstrm p =>
    simp only [entryOf, Option.some.injEq] at he; subst he
    simp only [eCreatestrm, Option.some.injEq] at hb; subst hb
    exact aCreatestrm_lawful
  | streamack p =>
    simp only [entryOf, Option.some.injEq] at he; subst he
    simp only [eStreamack, Option.some.injEq] at hb; subst hb
    exact aStreamack_lawful
  | cmpctblock p =>
    simp only [entryOf, Option.some.injEq] at he; subst he
    simp only [eCmpctblock, Option.some.injEq] at hb; subst hb
    exact aCmpctblock_lawful
  | getblocktxn p =>
    simp only [entryOf, Option.some.injEq] at he; subst he
    simp only [eGetblocktxn, Option.some.injEq] at hb; subst hb
    exact aGetblocktxn_lawful
  | blocktxn p =>
    simp only [entryOf, Option.some.injEq] at he; subst he
    simp only [eBlocktxn, Option.some.injEq] at hb; subst hb
    exact aBlocktxn_lawful
  | sendAddrV2 =>
    simp only [entryOf, Option.some.injEq] at he; subst he
    simp [eSendAddrV2] at hb
  | other c => simp [entryOf] at he

/-! ### dispatch -/

theorem table_cmds_nodup : (table.map (·.cmd)).Nodup := by decide

theorem table_cmds_len : ∀ e ∈ table, e.cmd.length = 12 := by decide

theorem entryOf_mem (m : Msg) (e : Entry) (he : entryOf m = some e) : e ∈ table := by
  cases m with
  | addr p => simp only [entryOf, Option.some.injEq] at he; subst he; simp [table]
  | addrV2 p => simp only [entryOf, Option.some.injEq] at he; subst he; simp [table]
  | block p => simp only [entryOf, Option.some.injEq] at he; subst he; simp [table]
  | feeFilter p => simp only [entryOf, Option.some.injEq] at he; subst he; simp [table]
  | filterAdd p => simp only [entryOf, Option.some.injEq] at he; subst he; simp [table]
  | filterClear => simp only [entryOf, Option.some.injEq] at he; subst he; simp [table]
  | filterLoad p => simp only [entryOf, Option.some.injEq] at he; subst he; simp [table]
  | getAddr => simp only [entryOf, Option.some.injEq] at he; subst he; simp [table]
  | getBlocks p => simp only [entryOf, Option.some.injEq] at he; subst he; simp [table]
  | getData p => simp only [entryOf, Option.some.injEq] at he; subst he; simp [table]
  | getHeaders p => simp only [entryOf, Option.some.injEq] at he; subst he; simp [table]
  | headers p => simp only [entryOf, Option.some.injEq] at he; subst he; simp [table]
  | inv p => simp only [entryOf, Option.some.injEq] at he; subst he; simp [table]
  | mempool => simp only [entryOf, Option.some.injEq] at he; subst he; simp [table]
  | merkleBlock p => simp only [entryOf, Option.some.injEq] at he; subst he; simp [table]
  | notFound p => simp only [entryOf, Option.some.injEq] at he; subst he; simp [table]
  | ping p => simp only [entryOf, Option.some.injEq] at he; subst he; simp [table]
  | pong p => simp only [entryOf, Option.some.injEq] at he; subst he; simp [table]
  | reject p => simp only [entryOf, Option.some.injEq] at he; subst he; simp [table]
  | sendCmpct p => simp only [entryOf, Option.some.injEq] at he; subst he; simp [table]
  | sendHeaders => simp only [entryOf, Option.some.injEq] at he; subst he; simp [table]
  | tx p => simp only [entryOf, Option.some.injEq] at he; subst he; simp [table]
  | version p => simp only [entryOf, Option.some.injEq] at he; subst he; simp [table]
  | verack => simp only [entryOf, Option.some.injEq] at he; subst he; simp [table]
  | protoconf p => simp only [entryOf, Option.some.injEq] at he; subst he; simp [table]
  | authch p => simp only [entryOf, Option.some.injEq] at he; subst he; simp [table]
  | createstrm p => simp only [entryOf, Option.some.injEq] at he; subst he; simp [table]
  | streamack p => simp only [entryOf, Option.some.injEq] at he; subst he; simp [table]
  | cmpctblock p => simp only [entryOf, Option.some.injEq] at he; subst he; simp [table]
  | getblocktxn p => simp only [entryOf, Option.some.injEq] at he; subst he; simp [table]
  | blocktxn p => simp only [entryOf, Option.some.injEq] at he; subst he; simp [table]
  | sendAddrV2 => simp only [entryOf, Option.some.injEq] at he; subst he; simp [table]
  | other c => simp [entryOf] at he

theorem entryOf_unit (m : Msg) (e : Entry) (he : entryOf m = some e) (hb : e.body = none) : e.unit = m := by
  cases m with
  | addr p => simp only [entryOf, Option.some.injEq] at he; subst he; simp [eAddr] at hb
  | addrV2 p => simp only [entryOf, Option.some.injEq] at he; subst he; simp [eAddrV2] at hb
  | block p => simp only [entryOf, Option.some.injEq] at he; subst he; simp [eBlock] at hb
  | feeFilter p => simp only [entryOf, Option.some.injEq] at he; subst he; simp [eFeeFilter] at hb
  | filterAdd p => simp only [entryOf, Option.some.injEq] at he; subst he; simp [eFilterAdd] at hb
  | filterClear => simp only [entryOf, Option.some.injEq] at he; subst he; rfl
  | filterLoad p => simp only [entryOf, Option.some.injEq] at he; subst he; simp [eFilterLoad] at hb
  | getAddr => simp only [entryOf, Option.some.injEq] at he; subst he; rfl
  | getBlocks p => simp only [entryOf, Option.some.injEq] at he; subst he; simp [eGetBlocks] at hb
  | getData p => simp only [entryOf, Option.some.injEq] at he; subst he; simp [eGetData] at hb
  | getHeaders p => simp only [entryOf, Option.some.injEq] at he; subst he; simp [eGetHeaders] at hb
  | headers p => simp only [entryOf, Option.some.injEq] at he; subst he; simp [eHeaders] at hb
  | inv p => simp only [entryOf, Option.some.injEq] at he; subst he; simp [eInv] at hb
  | mempool => simp only [entryOf, Option.some.injEq] at he; subst he; rfl
  | merkleBlock p => simp only [entryOf, Option.some.injEq] at he; subst he; simp [eMerkleBlock] at hb
  | notFound p => simp only [entryOf, Option.some.injEq] at he; subst he; simp [eNotFound] at hb
  | ping p => simp only [entryOf, Option.some.injEq] at he; subst he; simp [ePing] at hb
  | pong p => simp only [entryOf, Option.some.injEq] at he; subst he; simp [ePong] at hb
  | reject p => simp only [entryOf, Option.some.injEq] at he; subst he; simp [eReject] at hb
  | sendCmpct p => simp only [entryOf, Option.some.injEq] at he; subst he; simp [eSendCmpct] at hb
  | sendHeaders => simp only [entryOf, Option.some.injEq] at he; subst he; rfl
  | tx p => simp only [entryOf, Option.some.injEq] at he; subst he; simp [eTx] at hb
  | version p => simp only [entryOf, Option.some.injEq] at he; subst he; simp [eVersion] at hb
  | verack => simp only [entryOf, Option.some.injEq] at he; subst he; rfl
  | protoconf p => simp only [entryOf, Option.some.injEq] at he; subst he; simp [eProtoconf] at hb
  | authch p => simp only [entryOf, Option.some.injEq] at he; subst he; simp [eAuthch] at hb
  | createstrm p => simp only [entryOf, Option.some.injEq] at he; subst he; simp [eCreatestrm] at hb
  | streamack p => simp only [entryOf, Option.some.injEq] at he; subst he; simp [eStreamack] at hb
  | cmpctblock p => simp only [entryOf, Option.some.injEq] at he; subst he; simp [eCmpctblock] at hb
  | getblocktxn p => simp only [entryOf, Option.some.injEq] at he; subst he; simp [eGetblocktxn] at hb
  | blocktxn p => simp only [entryOf, Option.some.injEq] at he; subst he; simp [eBlocktxn] at hb
  | sendAddrV2 => simp only [entryOf, Option.some.injEq] at he; subst he; rfl
  | other c => simp [entryOf] at he

theorem find_of_nodup (l : List Entry) (hn : (l.map (·.cmd)).Nodup) (e : Entry) (he : e ∈ l) :
    l.find? (fun x => x.cmd == e.cmd) = some e := by
  induction l with
  | nil => simp at he
  | cons x xs ih =>
    simp only [List.map_cons, List.nodup_cons, List.mem_map, not_exists, not_and] at hn
    rcases List.mem_cons.mp he with rfl | he'
    · simp [List.find?]
    · have hne : (x.cmd == e.cmd) = false := by
        apply beq_false_of_ne
        intro h
        exact hn.1 e he' h.symm
      simp only [List.find?, hne]
      exact ih hn.2 he'

theorem find_entry (m : Msg) (e : Entry) (he : entryOf m = some e) :
    table.find? (fun x => x.cmd == e.cmd) = some e :=
  find_of_nodup table table_cmds_nodup e (entryOf_mem m e he)

/-! ### `Message::read ∘ Message::write` -/

theorem headerSize_eq : HEADER_SIZE = 24 := by decide

theorem checksum_len (H : Bytes → Bytes) (hH : ∀ x, (H x).length = 32) (p : Bytes) :
    (checksumOf H p).length = 4 := by
  simp [checksumOf, hH]

theorem readMessage_writeMessage (H : Bytes → Bytes) (hH : ∀ x, (H x).length = 32) (magic : Bytes)
    (hm : magic.length = 4) (hnc : NO_CHECKSUM.length = 4) (m : Msg) (hr : Msg.InRange m) (bytes : Bytes)
    (hw : writeMessage H magic m = some bytes) (r : Bytes) :
    readMessage H magic (bytes ++ r) = .ok (m, r) := by
  unfold Msg.InRange at hr
  unfold writeMessage at hw
  cases he : entryOf m with
  | none => simp [he] at hr
  | some e =>
    simp only [he] at hr hw
    have hcl : e.cmd.length = 12 := table_cmds_len e (entryOf_mem m e he)
    have hfind := find_entry m e he
    cases hb : e.body with
    | none =>
      simp only [hb] at hw
      injection hw with hw
      subst hw
      have hdr : headerFor H magic e m = ⟨magic, e.cmd, 0, NO_CHECKSUM⟩ := by simp [headerFor, hb]
      have hwf : messageHeaderC.wf (headerFor H magic e m) := by
        rw [hdr]
        exact ⟨hm, hcl, by show (0 : Nat) < 256 ^ 4; decide, hnc⟩
      have hlen : (messageHeaderC.enc (headerFor H magic e m)).length = 24 :=
        messageHeaderC_lawful.size_eq _ hwf
      have ht := takeExact_append (messageHeaderC.enc (headerFor H magic e m)) r
      rw [hlen] at ht
      have hd := messageHeaderC_lawful.toEnd.dec_enc _ hwf
      simp only [readMessage, headerSize_eq, ht, hd, bind_ok]
      rw [hdr]
      simp only [headerValidate, ne_eq, not_true_eq_false, if_false, gt_iff_lt]
      simp only [Nat.not_lt_zero, and_false, if_false, bind_ok, readPartial, hfind, hb,
        entryOf_unit m e he hb]
      simp
    | some c =>
      simp only [hb] at hw hr
      obtain ⟨hwf, hsz, hmax⟩ := hr
      injection hw with hw
      subst hw
      have hlaw := entry_lawful m e c he hb
      have hplen : (c.enc m).length = c.size m := hlaw.size_eq m hwf
      have hmod : c.size m % 2 ^ 32 = c.size m := Nat.mod_eq_of_lt hsz
      have hdr : headerFor H magic e m = ⟨magic, e.cmd, c.size m, checksumOf H (c.enc m)⟩ := by
        simp [headerFor, hb, hmod]
      have hhwf : messageHeaderC.wf (headerFor H magic e m) := by
        rw [hdr]
        exact ⟨hm, hcl, by show c.size m < 256 ^ 4; omega, checksum_len H hH _⟩
      have hlen : (messageHeaderC.enc (headerFor H magic e m)).length = 24 :=
        messageHeaderC_lawful.size_eq _ hhwf
      have ht := takeExact_append (messageHeaderC.enc (headerFor H magic e m)) (c.enc m ++ r)
      rw [hlen] at ht
      have hd := messageHeaderC_lawful.toEnd.dec_enc _ hhwf
      have hp := takeExact_append (c.enc m) r
      rw [hplen] at hp
      simp only [readMessage, headerSize_eq, List.append_assoc, ht, hd, bind_ok]
      rw [hdr]
      have hv : headerValidate ⟨magic, e.cmd, c.size m, checksumOf H (c.enc m)⟩ magic = .ok () := by
        simp only [headerValidate, ne_eq, not_true_eq_false, if_false, gt_iff_lt]
        rcases hmax with h | h
        · simp [h]
        · have : ¬ (MAX_PAYLOAD_SIZE < c.size m) := by omega
          simp [this]
      simp only [hv, bind_ok, readPartial, hfind, hb, payload, hp, if_true, hlaw.dec_enc m hwf]

/-! ### `Message::write` = the reference framing -/

theorem write_arm_eq (H : Bytes → Bytes) (magic : Bytes) (e : Entry) (c : Codec Msg) (m : Msg)
    (name : String) (pl : Bytes) (he : entryOf m = some e) (hb : e.body = some c)
    (hcmd : e.cmd = WireSpec.commandBytes name) (henc : c.enc m = pl) (hr : Msg.InRange m)
    (hsp : WireSpec.commandAndPayload m = some (name, pl)) :
    writeMessage H magic m = WireSpec.message H magic m := by
  unfold Msg.InRange at hr
  simp only [he, hb] at hr
  obtain ⟨hwf, hsz, _⟩ := hr
  have hlaw := entry_lawful m e c he hb
  have hplen : pl.length = c.size m := by rw [← henc]; exact hlaw.size_eq m hwf
  have hmod : c.size m % 2 ^ 32 = c.size m := Nat.mod_eq_of_lt hsz
  simp only [writeMessage, he, hb, headerFor, messageHeader_enc, henc, hmod, WireSpec.message, hsp,
    Option.map_some, WireSpec.frame, hcmd, hplen, checksumOf]

theorem write_unit_eq (H : Bytes → Bytes) (hH0 : (H (H [])).take 4 = NO_CHECKSUM) (magic : Bytes)
    (e : Entry) (m : Msg) (name : String) (he : entryOf m = some e) (hb : e.body = none)
    (hcmd : e.cmd = WireSpec.commandBytes name) (hsp : WireSpec.commandAndPayload m = some (name, [])) :
    writeMessage H magic m = WireSpec.message H magic m := by
  simp only [writeMessage, he, hb, headerFor, messageHeader_enc, WireSpec.message, hsp, Option.map_some,
    WireSpec.frame, hcmd, hH0, List.length_nil, List.append_nil]

/-- the model of `Message::write` produces the reference framing of the reference payload, for
    every in-range message of every kind -/
theorem writeMessage_eq_spec (H : Bytes → Bytes) (hH0 : (H (H [])).take 4 = NO_CHECKSUM) (magic : Bytes)
    (m : Msg) (hr : Msg.InRange m) : writeMessage H magic m = WireSpec.message H magic m := by
  cases m with
  | addr p =>
    have hp : (validated addrC noValidate).wf p := hr.1
    exact write_arm_eq H magic eAddr aAddr (.addr p) "addr" (WireSpec.addr p) rfl rfl (by decide)
      (by show addrC.enc p = _; exact addr_enc p) hr rfl
  | addrV2 p =>
    have hp : (validated addrV2C noValidate).wf p := hr.1
    exact write_arm_eq H magic eAddrV2 aAddrV2 (.addrV2 p) "addrv2" (WireSpec.addrV2 p) rfl rfl (by decide)
      (by show addrV2C.enc p = _; exact addrV2_enc p hp.1) hr rfl
  | block p =>
    have hp : (validated blockC noValidate).wf p := hr.1
    exact write_arm_eq H magic eBlock aBlock (.block p) "block" (WireSpec.block p) rfl rfl (by decide)
      (by show blockC.enc p = _; exact block_enc p hp.1) hr rfl
  | feeFilter p =>
    have hp : (validated feeFilterC noValidate).wf p := hr.1
    exact write_arm_eq H magic eFeeFilter aFeeFilter (.feeFilter p) "feefilter" (WireSpec.feeFilter p) rfl rfl (by decide)
      (by show feeFilterC.enc p = _; exact feeFilter_enc p) hr rfl
  | filterAdd p =>
    have hp : (validated filterAddC filterAddValidate).wf p := hr.1
    exact write_arm_eq H magic eFilterAdd aFilterAdd (.filterAdd p) "filteradd" (WireSpec.filterAdd p) rfl rfl (by decide)
      (by show filterAddC.enc p = _; exact filterAdd_enc p) hr rfl
  | filterClear => exact write_unit_eq H hH0 magic eFilterClear .filterClear "filterclear" rfl rfl (by decide) rfl
  | filterLoad p =>
    have hp : (validated filterLoadC filterLoadValidate).wf p := hr.1
    exact write_arm_eq H magic eFilterLoad aFilterLoad (.filterLoad p) "filterload" (WireSpec.filterLoad p) rfl rfl (by decide)
      (by show filterLoadC.enc p = _; exact filterLoad_enc p) hr rfl
  | getAddr => exact write_unit_eq H hH0 magic eGetAddr .getAddr "getaddr" rfl rfl (by decide) rfl
  | getBlocks p =>
    have hp : (validated blockLocatorC noValidate).wf p := hr.1
    exact write_arm_eq H magic eGetBlocks aGetBlocks (.getBlocks p) "getblocks" (WireSpec.blockLocator p) rfl rfl (by decide)
      (by show blockLocatorC.enc p = _; exact blockLocator_enc p) hr rfl
  | getData p =>
    have hp : (validated invC noValidate).wf p := hr.1
    exact write_arm_eq H magic eGetData aGetData (.getData p) "getdata" (WireSpec.inv p) rfl rfl (by decide)
      (by show invC.enc p = _; exact inv_enc p) hr rfl
  | getHeaders p =>
    have hp : (validated blockLocatorC noValidate).wf p := hr.1
    exact write_arm_eq H magic eGetHeaders aGetHeaders (.getHeaders p) "getheaders" (WireSpec.blockLocator p) rfl rfl (by decide)
      (by show blockLocatorC.enc p = _; exact blockLocator_enc p) hr rfl
  | headers p =>
    have hp : (validated headersC noValidate).wf p := hr.1
    exact write_arm_eq H magic eHeaders aHeaders (.headers p) "headers" (WireSpec.headers p) rfl rfl (by decide)
      (by show headersC.enc p = _; exact headers_enc p) hr rfl
  | inv p =>
    have hp : (validated invC noValidate).wf p := hr.1
    exact write_arm_eq H magic eInv aInv (.inv p) "inv" (WireSpec.inv p) rfl rfl (by decide)
      (by show invC.enc p = _; exact inv_enc p) hr rfl
  | mempool => exact write_unit_eq H hH0 magic eMempool .mempool "mempool" rfl rfl (by decide) rfl
  | merkleBlock p =>
    have hp : (validated merkleBlockC noValidate).wf p := hr.1
    exact write_arm_eq H magic eMerkleBlock aMerkleBlock (.merkleBlock p) "merkleblock" (WireSpec.merkleBlock p) rfl rfl (by decide)
      (by show merkleBlockC.enc p = _; exact merkleBlock_enc p) hr rfl
  | notFound p =>
    have hp : (validated invC noValidate).wf p := hr.1
    exact write_arm_eq H magic eNotFound aNotFound (.notFound p) "notfound" (WireSpec.inv p) rfl rfl (by decide)
      (by show invC.enc p = _; exact inv_enc p) hr rfl
  | ping p =>
    have hp : (validated pingC noValidate).wf p := hr.1
    exact write_arm_eq H magic ePing aPing (.ping p) "ping" (WireSpec.ping p) rfl rfl (by decide)
      (by show pingC.enc p = _; exact ping_enc p) hr rfl
  | pong p =>
    have hp : (validated pingC noValidate).wf p := hr.1
    exact write_arm_eq H magic ePong aPong (.pong p) "pong" (WireSpec.ping p) rfl rfl (by decide)
      (by show pingC.enc p = _; exact ping_enc p) hr rfl
  | reject p =>
    have hp : (validated rejectC noValidate).wf p := hr.1
    exact write_arm_eq H magic eReject aReject (.reject p) "reject" (WireSpec.reject p) rfl rfl (by decide)
      (by show rejectC.enc p = _; exact reject_enc p) hr rfl
  | sendCmpct p =>
    have hp : (validated sendCmpctC noValidate).wf p := hr.1
    exact write_arm_eq H magic eSendCmpct aSendCmpct (.sendCmpct p) "sendcmpct" (WireSpec.sendCmpct p) rfl rfl (by decide)
      (by show sendCmpctC.enc p = _; exact sendCmpct_enc p) hr rfl
  | sendHeaders => exact write_unit_eq H hH0 magic eSendHeaders .sendHeaders "sendheaders" rfl rfl (by decide) rfl
  | tx p =>
    have hp : (validated txC noValidate).wf p := hr.1
    exact write_arm_eq H magic eTx aTx (.tx p) "tx" (WireSpec.tx p) rfl rfl (by decide)
      (by show txC.enc p = _; exact tx_enc p hp.1) hr rfl
  | version p =>
    have hp : (validated versionC versionValidate).wf p := hr.1
    exact write_arm_eq H magic eVersion aVersion (.version p) "version" (WireSpec.version p) rfl rfl (by decide)
      (by show versionC.enc p = _; exact version_enc p hp.1) hr rfl
  | verack => exact write_unit_eq H hH0 magic eVerack .verack "verack" rfl rfl (by decide) rfl
  | protoconf p =>
    have hp : (validated protoconfC protoconfValidate).wf p := hr.1
    exact write_arm_eq H magic eProtoconf aProtoconf (.protoconf p) "protoconf" (WireSpec.protoconf p) rfl rfl (by decide)
      (by show protoconfC.enc p = _; exact protoconf_enc p hp.1) hr rfl
  | authch p =>
    have hp : (validated authchC authchValidate).wf p := hr.1
    exact write_arm_eq H magic eAuthch aAuthch (.authch p) "authch" (WireSpec.authch p) rfl rfl (by decide)
      (by show authchC.enc p = _; exact authch_enc p hp.1) hr rfl
  | createstrm p =>
    have hp : (validated createstrmC createstrmValidate).wf p := hr.1
    exact write_arm_eq H magic eCreatestrm aCreatestrm (.createstrm p) "createstrm" (WireSpec.createstrm p) rfl rfl (by decide)
      (by show createstrmC.enc p = _; exact createstrm_enc p) hr rfl
  | streamack p =>
    have hp : (validated streamackC streamackValidate).wf p := hr.1
    exact write_arm_eq H magic eStreamack aStreamack (.streamack p) "streamack" (WireSpec.streamack p) rfl rfl (by decide)
      (by show streamackC.enc p = _; exact streamack_enc p) hr rfl
  | cmpctblock p =>
    have hp : (validated cmpctblockC cmpctblockValidate).wf p := hr.1
    exact write_arm_eq H magic eCmpctblock aCmpctblock (.cmpctblock p) "cmpctblock" (WireSpec.cmpctblock p) rfl rfl (by decide)
      (by show cmpctblockC.enc p = _; exact cmpctblock_enc p hp.1) hr rfl
  | getblocktxn p =>
    have hp : (validated getblocktxnC noValidate).wf p := hr.1
    exact write_arm_eq H magic eGetblocktxn aGetblocktxn (.getblocktxn p) "getblocktxn" (WireSpec.getblocktxn p) rfl rfl (by decide)
      (by show getblocktxnC.enc p = _; exact getblocktxn_enc p) hr rfl
  | blocktxn p =>
    have hp : (validated blocktxnC noValidate).wf p := hr.1
    exact write_arm_eq H magic eBlocktxn aBlocktxn (.blocktxn p) "blocktxn" (WireSpec.blocktxn p) rfl rfl (by decide)
      (by show blocktxnC.enc p = _; exact blocktxn_enc p hp.1) hr rfl
  | sendAddrV2 => exact write_unit_eq H hH0 magic eSendAddrV2 .sendAddrV2 "sendaddrv2" rfl rfl (by decide) rfl
  | other c => exact hr.elim

/-! ### whatever `Message::read` returns can be written and read again -/

theorem aAddr_dec_entry (p : Bytes) (m : Msg) (x : Bytes) (h : aAddr.dec p = .ok (m, x)) :
    entryOf m = some eAddr := by
  simp only [aAddr, arm, inj, bind_eq_ok] at h
  obtain ⟨a, _, h⟩ := h
  injection h with h; injection h with h1 _
  subst h1; rfl

theorem aAddrV2_dec_entry (p : Bytes) (m : Msg) (x : Bytes) (h : aAddrV2.dec p = .ok (m, x)) :
    entryOf m = some eAddrV2 := by
  simp only [aAddrV2, arm, inj, bind_eq_ok] at h
  obtain ⟨a, _, h⟩ := h
  injection h with h; injection h with h1 _
  subst h1; rfl

theorem aBlock_dec_entry (p : Bytes) (m : Msg) (x : Bytes) (h : aBlock.dec p = .ok (m, x)) :
    entryOf m = some eBlock := by
  simp only [aBlock, arm, inj, bind_eq_ok] at h
  obtain ⟨a, _, h⟩ := h
  injection h with h; injection h with h1 _
  subst h1; rfl

theorem aFeeFilter_dec_entry (p : Bytes) (m : Msg) (x : Bytes) (h : aFeeFilter.dec p = .ok (m, x)) :
    entryOf m = some eFeeFilter := by
  simp only [aFeeFilter, arm, inj, bind_eq_ok] at h
  obtain ⟨a, _, h⟩ := h
  injection h with h; injection h with h1 _
  subst h1; rfl

theorem aFilterAdd_dec_entry (p : Bytes) (m : Msg) (x : Bytes) (h : aFilterAdd.dec p = .ok (m, x)) :
    entryOf m = some eFilterAdd := by
  simp only [aFilterAdd, arm, inj, bind_eq_ok] at h
  obtain ⟨a, _, h⟩ := h
  injection h with h; injection h with h1 _
  subst h1; rfl

theorem aFilterLoad_dec_entry (p : Bytes) (m : Msg) (x : Bytes) (h : aFilterLoad.dec p = .ok (m, x)) :
    entryOf m = some eFilterLoad := by
  simp only [aFilterLoad, arm, inj, bind_eq_ok] at h
  obtain ⟨a, _, h⟩ := h
  injection h with h; injection h with h1 _
  subst h1; rfl

theorem aGetBlocks_dec_entry (p : Bytes) (m : Msg) (x : Bytes) (h : aGetBlocks.dec p = .ok (m, x)) :
    entryOf m = some eGetBlocks := by
  simp only [aGetBlocks, arm, inj, bind_eq_ok] at h
  obtain ⟨a, _, h⟩ := h
  injection h with h; injection h with h1 _
  subst h1; rfl

theorem aGetData_dec_entry (p : Bytes) (m : Msg) (x : Bytes) (h : aGetData.dec p = .ok (m, x)) :
    entryOf m = some eGetData := by
  simp only [aGetData, arm, inj, bind_eq_ok] at h
  obtain ⟨a, _, h⟩ := h
  injection h with h; injection h with h1 _
  subst h1; rfl

theorem aGetHeaders_dec_entry (p : Bytes) (m : Msg) (x : Bytes) (h : aGetHeaders.dec p = .ok (m, x)) :
    entryOf m = some eGetHeaders := by
  simp only [aGetHeaders, arm, inj, bind_eq_ok] at h
  obtain ⟨a, _, h⟩ := h
  injection h with h; injection h with h1 _
  subst h1; rfl

theorem aHeaders_dec_entry (p : Bytes) (m : Msg) (x : Bytes) (h : aHeaders.dec p = .ok (m, x)) :
    entryOf m = some eHeaders := by
  simp only [aHeaders, arm, inj, bind_eq_ok] at h
  obtain ⟨a, _, h⟩ := h
  injection h with h; injection h with h1 _
  subst h1; rfl

theorem aInv_dec_entry (p : Bytes) (m : Msg) (x : Bytes) (h : aInv.dec p = .ok (m, x)) :
    entryOf m = some eInv := by
  simp only [aInv, arm, inj, bind_eq_ok] at h
  obtain ⟨a, _, h⟩ := h
  injection h with h; injection h with h1 _
  subst h1; rfl

theorem aMerkleBlock_dec_entry (p : Bytes) (m : Msg) (x : Bytes) (h : aMerkleBlock.dec p = .ok (m, x)) :
    entryOf m = some eMerkleBlock := by
  simp only [aMerkleBlock, arm, inj, bind_eq_ok] at h
  obtain ⟨a, _, h⟩ := h
  injection h with h; injection h with h1 _
  subst h1; rfl

theorem aNotFound_dec_entry (p : Bytes) (m : Msg) (x : Bytes) (h : aNotFound.dec p = .ok (m, x)) :
    entryOf m = some eNotFound := by
  simp only [aNotFound, arm, inj, bind_eq_ok] at h
  obtain ⟨a, _, h⟩ := h
  injection h with h; injection h with h1 _
  subst h1; rfl

theorem aPing_dec_entry (p : Bytes) (m : Msg) (x : Bytes) (h : aPing.dec p = .ok (m, x)) :
    entryOf m = some ePing := by
  simp only [aPing, arm, inj, bind_eq_ok] at h
  obtain ⟨a, _, h⟩ := h
  injection h with h; injection h with h1 _
  subst h1; rfl

theorem aPong_dec_entry (p : Bytes) (m : Msg) (x : Bytes) (h : aPong.dec p = .ok (m, x)) :
    entryOf m = some ePong := by
  simp only [aPong, arm, inj, bind_eq_ok] at h
  obtain ⟨a, _, h⟩ := h
  injection h with h; injection h with h1 _
  subst h1; rfl

theorem aReject_dec_entry (p : Bytes) (m : Msg) (x : Bytes) (h : aReject.dec p = .ok (m, x)) :
    entryOf m = some eReject := by
  simp only [aReject, arm, inj, bind_eq_ok] at h
  obtain ⟨a, _, h⟩ := h
  injection h with h; injection h with h1 _
  subst h1; rfl

theorem aSendCmpct_dec_entry (p : Bytes) (m : Msg) (x : Bytes) (h : aSendCmpct.dec p = .ok (m, x)) :
    entryOf m = some eSendCmpct := by
  simp only [aSendCmpct, arm, inj, bind_eq_ok] at h
  obtain ⟨a, _, h⟩ := h
  injection h with h; injection h with h1 _
  subst h1; rfl

theorem aTx_dec_entry (p : Bytes) (m : Msg) (x : Bytes) (h : aTx.dec p = .ok (m, x)) :
    entryOf m = some eTx := by
  simp only [aTx, arm, inj, bind_eq_ok] at h
  obtain ⟨a, _, h⟩ := h
  injection h with h; injection h with h1 _
  subst h1; rfl

theorem aVersion_dec_entry (p : Bytes) (m : Msg) (x : Bytes) (h : aVersion.dec p = .ok (m, x)) :
    entryOf m = some eVersion := by
  simp only [aVersion, arm, inj, bind_eq_ok] at h
  obtain ⟨a, _, h⟩ := h
  injection h with h; injection h with h1 _
  subst h1; rfl

theorem aProtoconf_dec_entry (p : Bytes) (m : Msg) (x : Bytes) (h : aProtoconf.dec p = .ok (m, x)) :
    entryOf m = some eProtoconf := by
  simp only [aProtoconf, arm, inj, bind_eq_ok] at h
  obtain ⟨a, _, h⟩ := h
  injection h with h; injection h with h1 _
  subst h1; rfl

theorem aAuthch_dec_entry (p : Bytes) (m : Msg) (x : Bytes) (h : aAuthch.dec p = .ok (m, x)) :
    entryOf m = some eAuthch := by
  simp only [aAuthch, arm, inj, bind_eq_ok] at h
  obtain ⟨a, _, h⟩ := h
  injection h with h; injection h with h1 _
  subst h1; rfl

theorem aCreatestrm_dec_entry (p : Bytes) (m : Msg) (x : Bytes) (h : aCreatestrm.dec p = .ok (m, x)) :
    entryOf m = some eCreatestrm := by
  simp only [aCreatestrm, arm, inj, bind_eq_ok] at h
  obtain ⟨a, _, h⟩ := h
  injection h with h; injection h with h1 _
  subst h1; rfl

theorem aStreamack_dec_entry (p : Bytes) (m : Msg) (x : Bytes) (h : aStreamack.dec p = .ok (m, x)) :
    entryOf m = some eStreamack := by
  simp only [aStreamack, arm, inj, bind_eq_ok] at h
  obtain ⟨a, _, h⟩ := h
  injection h with h; injection h with h1 _
  subst h1; rfl

theorem aCmpctblock_dec_entry (p : Bytes) (m : Msg) (x : Bytes) (h : aCmpctblock.dec p = .ok (m, x)) :
    entryOf m = some eCmpctblock := by
  simp only [aCmpctblock, arm, inj, bind_eq_ok] at h
  obtain ⟨a, _, h⟩ := h
  injection h with h; injection h with h1 _
  subst h1; rfl

theorem aGetblocktxn_dec_entry (p : Bytes) (m : Msg) (x : Bytes) (h : aGetblocktxn.dec p = .ok (m, x)) :
    entryOf m = some eGetblocktxn := by
  simp only [aGetblocktxn, arm, inj, bind_eq_ok] at h
  obtain ⟨a, _, h⟩ := h
  injection h with h; injection h with h1 _
  subst h1; rfl

theorem aBlocktxn_dec_entry (p : Bytes) (m : Msg) (x : Bytes) (h : aBlocktxn.dec p = .ok (m, x)) :
    entryOf m = some eBlocktxn := by
  simp only [aBlocktxn, arm, inj, bind_eq_ok] at h
  obtain ⟨a, _, h⟩ := h
  injection h with h; injection h with h1 _
  subst h1; rfl

theorem table_dec_entry : ∀ e ∈ table, ∀ c, e.body = some c → ∀ (p : Bytes) (m : Msg) (x : Bytes),
    c.dec p = .ok (m, x) → entryOf m = some e := by
  intro e he
  simp only [table, List.mem_cons, List.not_mem_nil, or_false] at he
  rcases he with rfl | rfl | rfl | rfl | rfl | rfl | rfl | rfl | rfl | rfl | rfl | rfl | rfl | rfl | rfl | rfl | rfl | rfl | rfl | rfl | rfl | rfl | rfl | rfl | rfl | rfl | rfl | rfl | rfl | rfl | rfl | rfl
  · intro c hb p m x h; simp only [eAddr, Option.some.injEq] at hb; subst hb; exact aAddr_dec_entry p m x h
  · intro c hb p m x h; simp only [eAddrV2, Option.some.injEq] at hb; subst hb; exact aAddrV2_dec_entry p m x h
  · intro c hb p m x h; simp only [eBlock, Option.some.injEq] at hb; subst hb; exact aBlock_dec_entry p m x h
  · intro c hb p m x h; simp only [eFeeFilter, Option.some.injEq] at hb; subst hb; exact aFeeFilter_dec_entry p m x h
  · intro c hb p m x h; simp only [eFilterAdd, Option.some.injEq] at hb; subst hb; exact aFilterAdd_dec_entry p m x h
  · intro c hb; simp [eFilterClear] at hb
  · intro c hb p m x h; simp only [eFilterLoad, Option.some.injEq] at hb; subst hb; exact aFilterLoad_dec_entry p m x h
  · intro c hb; simp [eGetAddr] at hb
  · intro c hb p m x h; simp only [eGetBlocks, Option.some.injEq] at hb; subst hb; exact aGetBlocks_dec_entry p m x h
  · intro c hb p m x h; simp only [eGetData, Option.some.injEq] at hb; subst hb; exact aGetData_dec_entry p m x h
  · intro c hb p m x h; simp only [eGetHeaders, Option.some.injEq] at hb; subst hb; exact aGetHeaders_dec_entry p m x h
  · intro c hb p m x h; simp only [eHeaders, Option.some.injEq] at hb; subst hb; exact aHeaders_dec_entry p m x h
  · intro c hb p m x h; simp only [eInv, Option.some.injEq] at hb; subst hb; exact aInv_dec_entry p m x h
  · intro c hb; simp [eMempool] at hb
  · intro c hb p m x h; simp only [eMerkleBlock, Option.some.injEq] at hb; subst hb; exact aMerkleBlock_dec_entry p m x h
  · intro c hb p m x h; simp only [eNotFound, Option.some.injEq] at hb; subst hb; exact aNotFound_dec_entry p m x h
  · intro c hb p m x h; simp only [ePing, Option.some.injEq] at hb; subst hb; exact aPing_dec_entry p m x h
  · intro c hb p m x h; simp only [ePong, Option.some.injEq] at hb; subst hb; exact aPong_dec_entry p m x h
  · intro c hb p m x h; simp only [eReject, Option.some.injEq] at hb; subst hb; exact aReject_dec_entry p m x h
  · intro c hb p m x h; simp only [eSendCmpct, Option.some.injEq] at hb; subst hb; exact aSendCmpct_dec_entry p m x h
  · intro c hb; simp [eSendHeaders] at hb
  · intro c hb p m x h; simp only [eTx, Option.some.injEq] at hb; subst hb; exact aTx_dec_entry p m x h
  · intro c hb p m x h; simp only [eVersion, Option.some.injEq] at hb; subst hb; exact aVersion_dec_entry p m x h
  · intro c hb; simp [eVerack] at hb
  · intro c hb p m x h; simp only [eProtoconf, Option.some.injEq] at hb; subst hb; exact aProtoconf_dec_entry p m x h
  · intro c hb p m x h; simp only [eAuthch, Option.some.injEq] at hb; subst hb; exact aAuthch_dec_entry p m x h
  · intro c hb p m x h; simp only [eCreatestrm, Option.some.injEq] at hb; subst hb; exact aCreatestrm_dec_entry p m x h
  · intro c hb p m x h; simp only [eStreamack, Option.some.injEq] at hb; subst hb; exact aStreamack_dec_entry p m x h
  · intro c hb p m x h; simp only [eCmpctblock, Option.some.injEq] at hb; subst hb; exact aCmpctblock_dec_entry p m x h
  · intro c hb p m x h; simp only [eGetblocktxn, Option.some.injEq] at hb; subst hb; exact aGetblocktxn_dec_entry p m x h
  · intro c hb p m x h; simp only [eBlocktxn, Option.some.injEq] at hb; subst hb; exact aBlocktxn_dec_entry p m x h
  · intro c hb; simp [eSendAddrV2] at hb

theorem table_unit_entry : ∀ e ∈ table, e.body = none → entryOf e.unit = some e := by
  intro e he
  simp only [table, List.mem_cons, List.not_mem_nil, or_false] at he
  rcases he with rfl | rfl | rfl | rfl | rfl | rfl | rfl | rfl | rfl | rfl | rfl | rfl | rfl | rfl | rfl | rfl | rfl | rfl | rfl | rfl | rfl | rfl | rfl | rfl | rfl | rfl | rfl | rfl | rfl | rfl | rfl | rfl
  · intro hb; simp [eAddr] at hb
  · intro hb; simp [eAddrV2] at hb
  · intro hb; simp [eBlock] at hb
  · intro hb; simp [eFeeFilter] at hb
  · intro hb; simp [eFilterAdd] at hb
  · intro _; rfl
  · intro hb; simp [eFilterLoad] at hb
  · intro _; rfl
  · intro hb; simp [eGetBlocks] at hb
  · intro hb; simp [eGetData] at hb
  · intro hb; simp [eGetHeaders] at hb
  · intro hb; simp [eHeaders] at hb
  · intro hb; simp [eInv] at hb
  · intro _; rfl
  · intro hb; simp [eMerkleBlock] at hb
  · intro hb; simp [eNotFound] at hb
  · intro hb; simp [ePing] at hb
  · intro hb; simp [ePong] at hb
  · intro hb; simp [eReject] at hb
  · intro hb; simp [eSendCmpct] at hb
  · intro _; rfl
  · intro hb; simp [eTx] at hb
  · intro hb; simp [eVersion] at hb
  · intro _; rfl
  · intro hb; simp [eProtoconf] at hb
  · intro hb; simp [eAuthch] at hb
  · intro hb; simp [eCreatestrm] at hb
  · intro hb; simp [eStreamack] at hb
  · intro hb; simp [eCmpctblock] at hb
  · intro hb; simp [eGetblocktxn] at hb
  · intro hb; simp [eBlocktxn] at hb
  · intro _; rfl

/-- a message returned by `Message::read` (other than `Other`) belongs to the arm that decoded it,
    is in range for that arm, and the reader consumed a prefix of the input -/
theorem readMessage_ok (H : Bytes → Bytes) (magic b : Bytes) (m : Msg) (r : Bytes)
    (h : readMessage H magic b = .ok (m, r)) (hno : ∀ c, m ≠ .other c) :
    ∃ e, entryOf m = some e ∧ (∀ c, e.body = some c → c.wf m) ∧ ∃ p, b = p ++ r := by
  unfold readMessage at h
  split at h
  · simp at h
  · rename_i h24 r0 ht
    obtain ⟨hb24, _⟩ := takeExact_some ht
    simp only [bind_eq_ok] at h
    obtain ⟨⟨hdr, x0⟩, _, u, _, h⟩ := h
    unfold readPartial at h
    split at h
    · rename_i e hf
      have hmem : e ∈ table := List.mem_of_find?_eq_some hf
      split at h
      · rename_i hb
        split at h
        · simp at h
        · injection h with h; injection h with h1 h2
          subst h1 h2
          exact ⟨e, table_unit_entry e hmem hb, by intro c hc; rw [hb] at hc; simp at hc, h24, hb24⟩
      · rename_i c hb
        simp only [bind_eq_ok] at h
        obtain ⟨⟨p, r1⟩, hp, ⟨m', x⟩, hd, h⟩ := h
        injection h with h; injection h with h1 h2
        dsimp only at h1 h2 hd
        subst h1 h2
        have hent := table_dec_entry e hmem c hb p m' x hd
        have hlaw := entry_lawful m' e c hent hb
        refine ⟨e, hent, ?_, ?_⟩
        · intro c' hc'
          rw [hb] at hc'
          injection hc' with hc'
          subst hc'
          exact hlaw.dec_wf p m' x hd
        · unfold payload at hp
          split at hp
          · simp at hp
          · rename_i p' r' htp
            obtain ⟨hr0, _⟩ := takeExact_some htp
            split at hp
            · injection hp with hp; injection hp with e1 e2
              subst e1 e2
              exact ⟨h24 ++ p', by rw [hb24, hr0, List.append_assoc]⟩
            · simp at hp
    · split at h
      · simp only [bind_eq_ok] at h
        obtain ⟨_, _, h⟩ := h
        injection h with h; injection h with h1 _
        exact absurd h1.symm (hno _)
      · injection h with h; injection h with h1 _
        exact absurd h1.symm (hno _)

end CG.Model.Wire

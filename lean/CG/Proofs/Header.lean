import CG.Model.Header
import CG.Spec.Pow
/-! Helper lemmas for C19. -/
namespace CG.Proofs.Header
open CG CG.Model.Header

/-- value of a byte string read from its *reversed* (most-significant-first) form -/
theorem leToNat_snoc (init : Bytes) (d : UInt8) :
    leToNat (init ++ [d]) = leToNat init + 256 ^ init.length * d.toNat := by
  simp [leToNat_append, leToNat]

/-- value of a most-significant-first byte string -/
def beVal : Bytes → Nat
  | [] => 0
  | x :: xs => x.toNat * 256 ^ xs.length + beVal xs

theorem beVal_lt (b : Bytes) : beVal b < 256 ^ b.length := by
  induction b with
  | nil => simp [beVal]
  | cons x xs ih =>
    simp only [beVal, List.length_cons, Nat.pow_succ]
    have := x.toNat_lt
    have : x.toNat * 256 ^ xs.length + 256 ^ xs.length ≤ 256 * 256 ^ xs.length := by
      have : (x.toNat + 1) * 256 ^ xs.length ≤ 256 * 256 ^ xs.length := Nat.mul_le_mul_right _ (by omega)
      rw [Nat.add_mul] at this; omega
    omega

theorem beVal_append (a b : Bytes) : beVal (a ++ b) = beVal a * 256 ^ b.length + beVal b := by
  induction a with
  | nil => simp [beVal]
  | cons x xs ih =>
    simp only [List.cons_append, beVal, ih, List.length_append, Nat.pow_add, Nat.add_mul]
    have : x.toNat * (256 ^ xs.length * 256 ^ b.length) = x.toNat * 256 ^ xs.length * 256 ^ b.length := by ac_rfl
    omega

theorem leToNat_eq_beVal_reverse (l : Bytes) : leToNat l = beVal l.reverse := by
  induction l with
  | nil => rfl
  | cons x xs ih =>
    simp only [leToNat, List.reverse_cons, beVal_append, beVal, List.length_singleton, List.length_nil, ih]
    omega

theorem cmpFromTop_beVal (a b : Bytes) (h : a.length = b.length) :
    cmpFromTop a b = compare (beVal a) (beVal b) := by
  induction a generalizing b with
  | nil =>
    cases b with
    | nil => simp [cmpFromTop, beVal]
    | cons _ _ => simp at h
  | cons x as ih =>
    cases b with
    | nil => simp at h
    | cons y bs =>
      simp only [List.length_cons, Nat.add_right_cancel_iff] at h
      simp only [cmpFromTop, beVal]
      have ha := beVal_lt as
      have hb := beVal_lt bs
      rw [← h] at hb ⊢
      generalize 256 ^ as.length = P at *
      split
      · rename_i hgt
        have : (y.toNat + 1) * P ≤ x.toNat * P := Nat.mul_le_mul_right _ hgt
        rw [Nat.add_mul] at this
        have hlt : y.toNat * P + beVal bs < x.toNat * P + beVal as := by omega
        rw [Nat.compare_eq_gt.mpr hlt]
      · split
        · rename_i hlt
          have : (x.toNat + 1) * P ≤ y.toNat * P := Nat.mul_le_mul_right _ hlt
          rw [Nat.add_mul] at this
          have hlt : x.toNat * P + beVal as < y.toNat * P + beVal bs := by omega
          rw [Nat.compare_eq_lt.mpr hlt]
        · rename_i h1 h2
          have hxy : x.toNat = y.toNat := by omega
          rw [ih bs h, hxy]
          simp only [Nat.compare_eq_ite_lt, Nat.add_lt_add_iff_left]
          

/-- comparing from the top byte = comparing the little-endian values (equal lengths) -/
theorem cmpFromTop_reverse (a b : Bytes) (h : a.length = b.length) :
    cmpFromTop a.reverse b.reverse = compare (leToNat a) (leToNat b) := by
  rw [leToNat_eq_beVal_reverse, leToNat_eq_beVal_reverse]
  exact cmpFromTop_beVal _ _ (by simpa using h)

theorem leToNat_replicate_zero (n : Nat) : leToNat (List.replicate n 0) = 0 := by
  induction n with
  | zero => rfl
  | succ n ih => simp [List.replicate_succ, leToNat, ih]

theorem leToNat_set (l : Bytes) (i : Nat) (x : UInt8) (h : i < l.length) :
    leToNat (l.set i x) + 256 ^ i * l[i].toNat = leToNat l + 256 ^ i * x.toNat := by
  induction l generalizing i with
  | nil => simp at h
  | cons y ys ih =>
    cases i with
    | zero => simp [leToNat]; omega
    | succ j =>
      simp only [List.set_cons_succ, leToNat, List.getElem_cons_succ]
      have hj : j < ys.length := by simpa using h
      have := ih j hj
      rw [Nat.pow_succ]
      have e1 : 256 ^ j * 256 * ys[j].toNat = 256 * (256 ^ j * ys[j].toNat) := by ac_rfl
      have e2 : 256 ^ j * 256 * x.toNat = 256 * (256 ^ j * x.toNat) := by ac_rfl
      rw [e1, e2]; omega

/-- the integer value of the array built by `difficulty_target` (array length `n` generic) -/
theorem target_value (n e : Nat) (h3 : 3 ≤ e) (h32 : e ≤ n) (a b c : UInt8) :
    leToNat ((((List.replicate n (0:UInt8)).set (e - 1) c).set (e - 2) b).set (e - 3) a)
      = (a.toNat + 256 * b.toNat + 65536 * c.toNat) * 256 ^ (e - 3) := by
  obtain ⟨k, rfl⟩ : ∃ k, e = k + 3 := ⟨e - 3, by omega⟩
  have p1 : k + 3 - 1 = k + 2 := by omega
  have p2 : k + 3 - 2 = k + 1 := by omega
  have p3 : k + 3 - 3 = k := by omega
  rw [p1, p2, p3]
  generalize hz : List.replicate n (0:UInt8) = z
  have hzl : z.length = n := by rw [← hz]; simp
  have hz0 : ∀ i (h : i < z.length), z[i] = 0 := by intro i h; subst hz; simp
  have hzv : leToNat z = 0 := by rw [← hz]; exact leToNat_replicate_zero n
  have s1 := leToNat_set z (k + 2) c (by omega)
  have s2 := leToNat_set (z.set (k + 2) c) (k + 1) b (by simp; omega)
  have s3 := leToNat_set ((z.set (k + 2) c).set (k + 1) b) k a (by simp; omega)
  have g1 : (z.set (k + 2) c)[k + 1]'(by simp; omega) = 0 := by
    rw [List.getElem_set_ne (by omega)]; exact hz0 _ _
  have g2 : ((z.set (k + 2) c).set (k + 1) b)[k]'(by simp; omega) = 0 := by
    rw [List.getElem_set_ne (by omega), List.getElem_set_ne (by omega)]; exact hz0 _ _
  rw [g2] at s3; rw [g1] at s2; rw [hz0, hzv] at s1
  simp only [UInt8.toNat_zero, Nat.mul_zero, Nat.add_zero, Nat.zero_add] at s1 s2 s3
  have q2 : 256 ^ (k + 2) = 65536 * 256 ^ k := by rw [Nat.pow_add]; omega
  have q1 : 256 ^ (k + 1) = 256 * 256 ^ k := by rw [Nat.pow_succ]; omega
  rw [s3, s2, s1, q2, q1, Nat.add_mul, Nat.add_mul]
  have e1 : 65536 * 256 ^ k * c.toNat = 65536 * c.toNat * 256 ^ k := by ac_rfl
  have e2 : 256 * 256 ^ k * b.toNat = 256 * b.toNat * 256 ^ k := by ac_rfl
  have e3 : 256 ^ k * a.toNat = a.toNat * 256 ^ k := by ac_rfl
  rw [e1, e2, e3]; omega

/-- insertion sort facts -/
theorem insert_perm (x : Nat) (l : List Nat) : (Spec.Pow.insert x l).Perm (x :: l) := by
  induction l with
  | nil => simp [Spec.Pow.insert]
  | cons y ys ih =>
    simp only [Spec.Pow.insert]
    split
    · exact List.Perm.refl _
    · exact (List.Perm.cons y ih).trans (List.Perm.swap x y ys)

theorem isort_perm (l : List Nat) : (Spec.Pow.isort l).Perm l := by
  induction l with
  | nil => simp [Spec.Pow.isort]
  | cons x xs ih => exact (insert_perm x _).trans (List.Perm.cons x ih)

theorem insert_sorted (x : Nat) (l : List Nat) (h : l.Pairwise (· ≤ ·)) :
    (Spec.Pow.insert x l).Pairwise (· ≤ ·) := by
  induction l with
  | nil => simp [Spec.Pow.insert]
  | cons y ys ih =>
    simp only [Spec.Pow.insert]
    rw [List.pairwise_cons] at h
    split
    · rename_i hxy
      refine List.pairwise_cons.mpr ⟨?_, List.pairwise_cons.mpr h⟩
      intro z hz
      rcases List.mem_cons.mp hz with rfl | hz
      · exact hxy
      · exact Nat.le_trans hxy (h.1 z hz)
    · rename_i hxy
      refine List.pairwise_cons.mpr ⟨?_, ih h.2⟩
      intro z hz
      have := (insert_perm x ys).subset hz
      rcases List.mem_cons.mp this with rfl | hz'
      · omega
      · exact h.1 z hz'

theorem isort_sorted (l : List Nat) : (Spec.Pow.isort l).Pairwise (· ≤ ·) := by
  induction l with
  | nil => simp [Spec.Pow.isort]
  | cons x xs ih => exact insert_sorted x _ ih

theorem mergeSort_eq_isort (l : List Nat) :
    l.mergeSort (fun a b => decide (a ≤ b)) = Spec.Pow.isort l := by
  have hs : (l.mergeSort (fun a b => decide (a ≤ b))).Pairwise (fun a b => decide (a ≤ b) = true) :=
    List.pairwise_mergeSort (by intro a b c; simp; omega) (by intro a b; simp; omega) l
  have hp : (l.mergeSort (fun a b => decide (a ≤ b))).Perm (Spec.Pow.isort l) :=
    (List.mergeSort_perm l _).trans (isort_perm l).symm
  have hs' : (l.mergeSort (fun a b => decide (a ≤ b))).Pairwise (· ≤ ·) := by
    simpa using hs
  exact List.Perm.eq_of_pairwise (le := (· ≤ ·)) (by intro a b _ _ h1 h2; omega) hs' (isort_sorted l) hp

end CG.Proofs.Header

import CG.Proofs.Framing
import CG.Proofs.WireHeader
import CG.Proofs.ScriptNum
import CG.Model.TxSer
import CG.Model.Header
import CG.Model.Bloom
import CG.Model.TxValidate
import CG.Model.TxChecker
import CG.Model.Merkle
import CG.Model.PyGlue
import CG.Spec.Bip143
import CG.Spec.Bip37Bloom
/-!
Helper definitions and lemmas for `CG.Props.Compose`.

Part A: the framing model of C11 (`CG.Model.Framing`, abstract payload codecs) instantiated with the
real codecs of C05 (`CG.Model.Wire`: the `table` of `read_partial` arms), and the proof that the two
independently written models of `message_header.rs` / `Message::read` agree on EVERY byte string.
-/
namespace CG.Proofs.Compose
open CG CG.Model.Wire CG.Proofs.Framing
open CG.Spec.Reassembly (Step step stepBody parseAll Wire)

/-! ## The real instantiation of C11's abstract configuration -/

/-- the arm of `read_partial`'s if-chain a command selects -/
def lookup (cmd : Bytes) : Option Entry := table.find? (fun e => e.cmd == cmd)

/-- the shape of the arm: payload-carrying, payload-less, or the final "unknown" case -/
def realKind (cmd : Bytes) : CG.Model.Framing.CmdKind :=
  match lookup cmd with
  | some e => (match e.body with | some _ => .payload | none => .bare)
  | none => .other

/-- C11 carries errors as canonical outcome strings `err:<Variant>` -/
def errStr (e : String) : String := "err:" ++ e

/-- the payload decoder of the arm (with its `validate()`); what the cursor leaves unread is dropped,
    as `read_partial` does -/
def realDecode (cmd p : Bytes) : Except String Msg :=
  match lookup cmd with
  | some e =>
    match e.body with
    | some c =>
      match c.dec p with
      | .ok (m, _) => .ok m
      | .err e => .error (errStr e)
      | .panic s => .error ("panic:" ++ s)
    | none => .error "unreachable"
  | none => .error "unreachable"

def realBare (cmd : Bytes) : Msg :=
  match lookup cmd with
  | some e => e.unit
  | none => .getAddr

/-- C11's configuration with C05's codecs: magic, `MAX_PAYLOAD_SIZE`, `block`, the double hash
    `H ∘ H`, the command table and the payload codecs of `CG.Model.Wire`. -/
def realCfg (H : Bytes → Bytes) (magic : Bytes) : CG.Model.Framing.Cfg Msg :=
  { magic := magic, maxPayload := MAX_PAYLOAD_SIZE, blockCmd := eBlock.cmd,
    H := fun p => H (H p), kind := realKind, decode := realDecode, bare := realBare,
    other := fun cmd => .other (otherName cmd) }

/-- a C11 header as a C05 header -/
@[reducible] def toWireHdr (h : CG.Model.Framing.Header) : MessageHeader :=
  ⟨h.magic, h.command, h.payloadSize, h.checksum⟩

/-- what C11's reference says for an outcome of C05's `readMessage`, up to the name of the error -/
def Agree (o : Outcome (Msg × Bytes)) (s : Step Msg) : Prop :=
  match o with
  | .ok (m, r) => s = .msg m r
  | .err e => ∃ e', s = .stop e' ∧ (e' = errStr e ∨ (e = "IoError" ∧ e' = CG.Spec.Reassembly.DISCONNECTED))
  | .panic p => s = .stop ("panic:" ++ p)

/-! ## Header layout -/

theorem hdr_dec (p : Bytes) (hp : p.length = 24) :
    messageHeaderC.dec p = .ok (toWireHdr (CG.Model.Framing.parseHeader p), []) := by
  have e : p = p.take 4 ++ ((p.drop 4).take 12 ++ (natToLEn 4 (leToNat ((p.drop 16).take 4)) ++ (p.drop 20).take 4)) := by
    have h4 : ((p.drop 16).take 4).length = 4 := by simp; omega
    have := natToLEn_leToNat ((p.drop 16).take 4)
    rw [h4] at this
    rw [this]
    have a := List.take_append_drop 4 p
    have b := List.take_append_drop 12 (p.drop 4)
    have c := List.take_append_drop 4 (p.drop 16)
    have d : (p.drop 20).take 4 = p.drop 20 := List.take_of_length_le (by simp; omega)
    simp only [List.drop_drop] at b c
    rw [d]
    conv => lhs; rw [← a, ← b, ← c]
  have hl := messageHeaderC_lawful.dec_enc
    (toWireHdr (CG.Model.Framing.parseHeader p)) []
  have hwf : messageHeaderC.wf (toWireHdr (CG.Model.Framing.parseHeader p)) := by
    simp only [messageHeaderC, iso, pair, dpair, bytesN, u32, uLE, toWireHdr,
      CG.Model.Framing.parseHeader]
    refine ⟨by simp; omega, by simp; omega, ?_, by simp; omega⟩
    have := leToNat_lt ((p.drop 16).take 4)
    have h4 : ((p.drop 16).take 4).length = 4 := by simp; omega
    rw [h4] at this
    simpa using this
  have henc : messageHeaderC.enc (toWireHdr (CG.Model.Framing.parseHeader p)) = p := by
    rw [messageHeader_enc, ← natToLEn4]
    simp only [CG.Model.Framing.parseHeader, List.drop_drop]
    conv => rhs; rw [e]
    simp
  have := hl hwf
  rw [henc] at this
  simpa using this


/-! ## `validate` -/

theorem validate_agree (H : Bytes → Bytes) (magic : Bytes) (h : CG.Model.Framing.Header) :
    (headerValidate (toWireHdr h) magic = .ok () ∧
      CG.Model.Framing.validate (realCfg H magic) h = .ok ()) ∨
    (headerValidate (toWireHdr h) magic = .err "BadData" ∧
      CG.Model.Framing.validate (realCfg H magic) h = .error "err:BadData") := by
  obtain ⟨hm, hc, hs, hk⟩ := h
  have e1 : headerValidate (toWireHdr ⟨hm, hc, hs, hk⟩) magic =
      if hm ≠ magic then .err "BadData"
      else if hc ≠ eBlock.cmd ∧ hs > MAX_PAYLOAD_SIZE then .err "BadData" else .ok () := rfl
  have e2 : CG.Model.Framing.validate (realCfg H magic) ⟨hm, hc, hs, hk⟩ =
      if hm ≠ magic then .error "err:BadData"
      else if hc ≠ eBlock.cmd ∧ hs > MAX_PAYLOAD_SIZE then .error "err:BadData" else .ok () := rfl
  rw [e1, e2]
  by_cases h1 : hm ≠ magic
  · right; rw [if_pos h1, if_pos h1]; exact ⟨rfl, rfl⟩
  · by_cases h2 : hc ≠ eBlock.cmd ∧ hs > MAX_PAYLOAD_SIZE
    · right; rw [if_neg h1, if_pos h2, if_neg h1, if_pos h2]; exact ⟨rfl, rfl⟩
    · left; rw [if_neg h1, if_neg h2, if_neg h1, if_neg h2]; exact ⟨rfl, rfl⟩

/-! ## `read_partial` -/

theorem payload_agree (H : Bytes → Bytes) (hdr : MessageHeader) (Y : Bytes) :
    CG.Model.Wire.payload H hdr Y =
      if Y.length < hdr.payloadSize then .err "IoError"
      else if (H (H (Y.take hdr.payloadSize))).take 4 ≠ hdr.checksum then .err "BadData"
      else .ok (Y.take hdr.payloadSize, Y.drop hdr.payloadSize) := by
  unfold CG.Model.Wire.payload takeExact checksumOf
  by_cases h : Y.length < hdr.payloadSize
  · have : ¬ hdr.payloadSize ≤ Y.length := by omega
    simp [h, this]
  · have : hdr.payloadSize ≤ Y.length := by omega
    simp only [this, if_true, h, if_false]
    by_cases h2 : (H (H (Y.take hdr.payloadSize))).take 4 = hdr.checksum
    · simp [h2]
    · simp [h2]

theorem body_agree (H : Bytes → Bytes) (magic : Bytes) (h : CG.Model.Framing.Header) (Y : Bytes) :
    Agree (CG.Model.Wire.readPartial H (toWireHdr h) Y)
      (stepBody (toWire (realCfg H magic)) h.command h.payloadSize h.checksum Y) := by
  unfold CG.Model.Wire.readPartial stepBody
  have hk : (toWire (realCfg H magic)).kind h.command = toKind (realKind h.command) := rfl
  have hl : table.find? (fun e => e.cmd == (toWireHdr h).command) = lookup h.command := rfl
  rw [hk, hl, payload_agree]
  cases hlk : lookup h.command with
  | none =>
    simp only [realKind, hlk, toKind]
    by_cases h0 : h.payloadSize = 0
    · simp [h0, Agree, toWire, realCfg]
    · have hp : h.payloadSize > 0 := by omega
      simp only [hp, if_true, h0, if_false]
      by_cases h1 : Y.length < h.payloadSize
      · simp [h1, Agree, CG.Spec.Reassembly.DISCONNECTED]
      · simp only [h1, if_false]
        by_cases h2 : (H (H (Y.take h.payloadSize))).take 4 = h.checksum
        · simp [h2, Agree, toWire, realCfg]
        · simp [h2, Agree, toWire, realCfg, errStr, CG.Spec.Reassembly.BAD_DATA]
  | some e =>
    cases hb : e.body with
    | none =>
      simp only [realKind, hlk, hb, toKind]
      by_cases h0 : h.payloadSize = 0
      · simp [h0, Agree, toWire, realCfg, realBare, hlk]
      · simp [h0, Agree, errStr, CG.Spec.Reassembly.BAD_DATA]
    | some c =>
      simp only [realKind, hlk, hb, toKind]
      by_cases h1 : Y.length < h.payloadSize
      · simp [h1, Agree, CG.Spec.Reassembly.DISCONNECTED]
      · simp only [h1, if_false]
        by_cases h2 : (H (H (Y.take h.payloadSize))).take 4 = h.checksum
        · have hd : (toWire (realCfg H magic)).decode h.command (Y.take h.payloadSize) =
              realDecode h.command (Y.take h.payloadSize) := rfl
          have hH : (toWire (realCfg H magic)).H (Y.take h.payloadSize) = H (H (Y.take h.payloadSize)) := rfl
          simp only [hH, h2, ne_eq, not_true_eq_false, if_false, bind_ok, hd, realDecode, hlk, hb]
          cases hdec : c.dec (Y.take h.payloadSize) with
          | ok p => obtain ⟨m, x⟩ := p; simp [Agree]
          | err e => simp [Agree]
          | panic s => simp [Agree]
        · simp [h2, Agree, toWire, realCfg, errStr, CG.Spec.Reassembly.BAD_DATA]

/-! ## `Message::read` against the reference step, for every byte string -/

theorem read_step (H : Bytes → Bytes) (magic : Bytes) (X : Bytes) :
    Agree (readMessage H magic X) (step (toWire (realCfg H magic)) X) := by
  unfold readMessage
  rw [headerSize_eq]
  by_cases hlen : X.length < 24
  · have : takeExact 24 X = none := by simp [takeExact]; omega
    rw [this, step_short _ _ hlen]
    simp [Agree, CG.Model.Framing.DISCONNECTED, CG.Spec.Reassembly.DISCONNECTED]
  · have ht : takeExact 24 X = some (X.take 24, X.drop 24) := by simp [takeExact]; omega
    have hp : (X.take 24).length = 24 := by simp; omega
    have hX : X = X.take 24 ++ X.drop 24 := (List.take_append_drop 24 X).symm
    rw [ht]
    simp only [hdr_dec _ hp, bind_ok]
    rcases validate_agree H magic (CG.Model.Framing.parseHeader (X.take 24)) with ⟨a, b⟩ | ⟨a, b⟩
    · rw [a, hX, step_accept _ _ _ hp b]
      simp only [bind_ok, ← hX]
      exact body_agree H magic _ _
    · rw [a, hX, step_reject _ _ _ hp b]
      simp [Agree, errStr]


theorem Agree_ok {o : Outcome (Msg × Bytes)} {s : Step Msg} {m r} (h : Agree o s) (ho : o = .ok (m, r)) :
    s = .msg m r := by
  subst ho; exact h

theorem Agree_msg {o : Outcome (Msg × Bytes)} {s : Step Msg} {m r} (h : Agree o s) (hs : s = .msg m r) :
    o = .ok (m, r) := by
  subst hs
  cases o with
  | ok p => obtain ⟨m', r'⟩ := p; simp [Agree] at h; simp [h]
  | err e => simp [Agree] at h
  | panic p => simp [Agree] at h

/-! ## Reference-level facts that need no reader: strict prefixes, concatenated messages -/

variable {M : Type}

theorem stepBody_strict_prefix (w : Wire M) (cmd : Bytes) (size : Nat) (ck : Bytes) (Y rest : Bytes) (m : M)
    (h : stepBody w cmd size ck (Y ++ rest) = .msg m []) (hr : rest ≠ []) :
    stepBody w cmd size ck Y = .stop CG.Spec.Reassembly.DISCONNECTED := by
  have hrl : 0 < rest.length := List.length_pos_iff.mpr hr
  unfold stepBody at h ⊢
  split at h
  · split at h
    · simp at h
    · simp at h; exact absurd h.2.2 hr
  · split at h
    · simp at h; exact absurd h.2.2 hr
    · split at h
      · simp at h
      · split at h
        · simp at h
        · rename_i h0 h1 h2
          simp only [Step.msg.injEq] at h
          have := congrArg List.length h.2
          simp at this
          simp at h1
          have : Y.length < size := by omega
          simp [h0, this]
  · split at h
    · simp at h
    · split at h
      · simp at h
      · split at h
        · rename_i h1 h2 m' hd
          simp only [Step.msg.injEq] at h
          have := congrArg List.length h.2
          simp at this
          simp at h1
          have : Y.length < size := by omega
          simp [this]
        · simp at h

/-- a message that parses to the very end of its bytes: every strict prefix of those bytes is an
    end of stream for the reference -/
theorem step_strict_prefix (w : Wire M) (t rest : Bytes) (m : M)
    (h : step w (t ++ rest) = .msg m []) (hr : rest ≠ []) :
    step w t = .stop CG.Spec.Reassembly.DISCONNECTED := by
  by_cases hl : t.length < 24
  · exact step_short w t hl
  · have hp : (t.take 24).length = 24 := by simp; omega
    have ht : t = t.take 24 ++ t.drop 24 := (List.take_append_drop 24 t).symm
    have e : t ++ rest = t.take 24 ++ (t.drop 24 ++ rest) := by
      rw [← List.append_assoc, List.take_append_drop]
    rw [e, step_header w _ _ hp] at h
    rw [ht, step_header w _ _ hp]
    split at h
    · simp at h
    · split at h
      · simp at h
      · rename_i h1 h2
        rw [if_neg h1, if_neg h2]
        exact stepBody_strict_prefix w _ _ _ _ rest m h hr

theorem parseAll_msgs (w : Wire M) (bytes : M → Bytes)
    (ms : List M) (hs : ∀ m ∈ ms, ∀ Y, step w (bytes m ++ Y) = .msg m Y) (Y : Bytes) :
    parseAll w (ms.flatMap bytes ++ Y) = (ms ++ (parseAll w Y).1, (parseAll w Y).2) := by
  induction ms with
  | nil => simp
  | cons m ms ih =>
    have e : (m :: ms).flatMap bytes ++ Y = bytes m ++ (ms.flatMap bytes ++ Y) := by simp
    rw [e, parseAll_eq, hs m (by simp)]
    simp only
    rw [ih (fun g hg => hs g (by simp [hg]))]
    simp


/-! ## The sender's side: C05's `writeMessage` against C11's `Frame.bytes` -/
open CG.Spec.Reassembly (Frame)

/-- the bytes of an in-range message (`[]` for `Other`, which `write` refuses) -/
def wireBytes (H : Bytes → Bytes) (magic : Bytes) (m : Msg) : Bytes := (writeMessage H magic m).getD []

/-- the C11 frame (command, payload) of a message -/
def frameOf (m : Msg) : Frame :=
  match entryOf m with
  | some e => ⟨e.cmd, match e.body with | some c => c.enc m | none => []⟩
  | none => ⟨[], []⟩

theorem write_eq_frame_payload (H : Bytes → Bytes) (magic : Bytes) (m : Msg) (e : Entry) (c : Codec Msg)
    (he : entryOf m = some e) (hb : e.body = some c) (hr : Msg.InRange m) :
    writeMessage H magic m = some (Frame.bytes (toWire (realCfg H magic)) (frameOf m)) := by
  unfold Msg.InRange at hr
  simp only [he, hb] at hr
  obtain ⟨hwf, hsz, _⟩ := hr
  have hlaw := entry_lawful m e c he hb
  have hplen : (c.enc m).length = c.size m := hlaw.size_eq m hwf
  have hmod : c.size m % 2 ^ 32 = c.size m := Nat.mod_eq_of_lt hsz
  simp only [writeMessage, he, hb, headerFor, messageHeader_enc, hmod, Frame.bytes, frameOf, hplen,
    checksumOf, ← natToLEn4, toWire, realCfg]

theorem write_bare (H : Bytes → Bytes) (magic : Bytes) (m : Msg) (e : Entry)
    (he : entryOf m = some e) (hb : e.body = none) :
    writeMessage H magic m = some (magic ++ e.cmd ++ natToLEn 4 0 ++ NO_CHECKSUM) ∧
    Frame.bytes (toWire (realCfg H magic)) (frameOf m) =
      magic ++ e.cmd ++ natToLEn 4 0 ++ (H (H [])).take 4 := by
  simp only [writeMessage, he, hb, headerFor, messageHeader_enc, Frame.bytes, frameOf, ← natToLEn4,
    toWire, realCfg, List.length_nil, List.append_nil, and_self]


/-! # Part B: conversions between duplicate structures -/

namespace Conv
open CG.Model

/-! ### `Wire.Tx` ↔ `TxSer.Tx` (C05 ↔ C02), `TxValidate.Tx` → `Wire.Tx` (C04 → C05) -/

def serOutPoint (o : Wire.OutPoint) : TxSer.OutPoint := ⟨o.hash, o.index⟩
def serTxIn (i : Wire.TxIn) : TxSer.TxIn := ⟨serOutPoint i.prevOutput, i.unlockScript, i.sequence⟩
def serTxOut (o : Wire.TxOut) : TxSer.TxOut := ⟨o.satoshis, o.lockScript⟩
def serTx (t : Wire.Tx) : TxSer.Tx := ⟨t.version, t.inputs.map serTxIn, t.outputs.map serTxOut, t.lockTime⟩

def wireOutPoint (o : TxSer.OutPoint) : Wire.OutPoint := ⟨o.hash, o.index⟩
def wireTxIn (i : TxSer.TxIn) : Wire.TxIn := ⟨wireOutPoint i.prevOutput, i.unlockScript, i.sequence⟩
def wireTxOut (o : TxSer.TxOut) : Wire.TxOut := ⟨o.satoshis, o.lockScript⟩
def wireTx (t : TxSer.Tx) : Wire.Tx := ⟨t.version, t.inputs.map wireTxIn, t.outputs.map wireTxOut, t.lockTime⟩

theorem wire_ser (t : Wire.Tx) : wireTx (serTx t) = t := by
  obtain ⟨v, ins, outs, lt⟩ := t
  simp only [wireTx, serTx, List.map_map, Wire.Tx.mk.injEq, true_and, and_true]
  constructor
  · conv => rhs; rw [← List.map_id ins]
    apply List.map_congr_left; intro a _; rfl
  · conv => rhs; rw [← List.map_id outs]
    apply List.map_congr_left; intro a _; rfl

theorem ser_wire (t : TxSer.Tx) : serTx (wireTx t) = t := by
  obtain ⟨v, ins, outs, lt⟩ := t
  simp only [wireTx, serTx, List.map_map, TxSer.Tx.mk.injEq, true_and, and_true]
  constructor
  · conv => rhs; rw [← List.map_id ins]
    apply List.map_congr_left; intro a _; rfl
  · conv => rhs; rw [← List.map_id outs]
    apply List.map_congr_left; intro a _; rfl

/-- C04's transaction as a C05 transaction -/
def vOutPoint (o : TxValidate.OutPoint) : Wire.OutPoint := ⟨o.hash, o.index⟩
def vTxIn (i : TxValidate.TxIn) : Wire.TxIn := ⟨vOutPoint i.prevOutput, i.unlockScript, i.sequence⟩
def vTxOut (o : TxValidate.TxOut) : Wire.TxOut := ⟨o.satoshis, o.lockScript⟩
def vTx (t : TxValidate.Tx) : Wire.Tx := ⟨t.version, t.inputs.map vTxIn, t.outputs.map vTxOut, t.lockTime⟩

/-- C05's transaction as a C04 transaction -/
def toVOutPoint (o : Wire.OutPoint) : TxValidate.OutPoint := ⟨o.hash, o.index⟩
def toVTxIn (i : Wire.TxIn) : TxValidate.TxIn := ⟨toVOutPoint i.prevOutput, i.unlockScript, i.sequence⟩
def toVTxOut (o : Wire.TxOut) : TxValidate.TxOut := ⟨o.satoshis, o.lockScript⟩
def toVTx (t : Wire.Tx) : TxValidate.Tx := ⟨t.version, t.inputs.map toVTxIn, t.outputs.map toVTxOut, t.lockTime⟩

/-! ### block header (C05 ↔ C19), filterload (C05 ↔ C20) -/

def hdr (h : Wire.BlockHeader) : Header.BlockHeader :=
  ⟨h.version, h.prevHash, h.merkleRoot, h.timestamp, h.bits, h.nonce⟩
def wireHdr (h : Header.BlockHeader) : Wire.BlockHeader :=
  ⟨h.version, h.prevHash, h.merkleRoot, h.timestamp, h.bits, h.nonce⟩

def fl (f : Wire.FilterLoad) : Bloom.FilterLoad := ⟨⟨f.filter, f.numHashFuncs, f.tweak⟩, f.flags⟩
def wireFl (f : Bloom.FilterLoad) : Wire.FilterLoad :=
  ⟨f.bloom.filter, f.bloom.numHashFuncs, f.bloom.tweak, f.flags⟩

end Conv

/-! ### var-int -/

theorem ofNat_mod (n : Nat) : UInt8.ofNat (n % 256) = UInt8.ofNat n :=
  CG.Model.Wire.ofNat_congr (by omega)

theorem txser_varInt_eq (n : Nat) : CG.Model.TxSer.varInt n = varint.enc n := by
  simp only [CG.Model.TxSer.varInt, varint]
  by_cases h : n ≤ 252
  · simp [h, natToLEn, ofNat_mod]
  · simp [h]

theorem bloom_varIntWrite_eq (n : Nat) : CG.Model.Bloom.varIntWrite n = varint.enc n := by
  simp only [CG.Model.Bloom.varIntWrite, varint]
  by_cases h : n ≤ 252
  · simp [h, natToLEn, ofNat_mod]
  · simp [h]

theorem bip143_compactSize_eq (n : Nat) : CG.Spec.Bip143.compactSize n = varint.enc n := by
  have e1 : (n < 0xfd) = (n ≤ 252) := propext (by omega)
  have e2 : (n < 0x10000) = (n ≤ 0xffff) := propext (by omega)
  have e3 : (n < 0x100000000) = (n ≤ 0xffffffff) := propext (by omega)
  simp only [CG.Spec.Bip143.compactSize, varint, e1, e2, e3]
  by_cases h : n ≤ 252
  · simp [h, natToLEn, ofNat_mod]
  · simp [h]

theorem bip37_compactSize_eq (n : Nat) : CG.Spec.Bip37Bloom.compactSize n = varint.enc n := by
  have e1 : (n < 0xfd) = (n ≤ 252) := propext (by omega)
  have e2 : (n < 0x10000) = (n ≤ 0xffff) := propext (by omega)
  have e3 : (n < 0x100000000) = (n ≤ 0xffffffff) := propext (by omega)
  simp only [CG.Spec.Bip37Bloom.compactSize, varint, e1, e2, e3]
  by_cases h : n ≤ 252
  · simp [h, natToLEn, ofNat_mod]
  · simp only [h, if_false]
    by_cases h2 : n ≤ 0xffff
    · simp only [h2, if_true, natToLEn]
      have : n / 256 % 256 = n / 256 := by omega
      simp [this]
    · simp only [h2, if_false]
      by_cases h3 : n ≤ 0xffffffff
      · simp only [h3, if_true, natToLEn]
        have : n / 256 / 256 / 256 % 256 = n / 16777216 := by omega
        have a : n / 256 / 256 % 256 = n / 65536 % 256 := by omega
        simp [this, a]
      · simp only [h3, if_false, natToLEn]
        simp [List.range, List.range.loop, Nat.div_div_eq_div_mul]

theorem bloom_readLE_eq (n : Nat) (b : Bytes) : CG.Model.Bloom.readLE n b = (uLE n).dec b := rfl

theorem bloom_varIntRead_eq (b : Bytes) : CG.Model.Bloom.varIntRead b = varint.dec b := by
  cases b with
  | nil => rfl
  | cons x r =>
    have hd : u8.dec (x :: r) = .ok (x.toNat, r) := by
      simp [u8, uLE, takeExact, leToNat]
    simp only [CG.Model.Bloom.varIntRead, varint, hd, bind_ok, bloom_readLE_eq, u64, u32, u16]

end CG.Proofs.Compose

import CG.Model.Interp
import CG.Spec.ScriptSem
/-!
Structured control flow (C01 stretch): for scripts that parse into a well-nested program tree, the
flag machine of `core_eval` (flag stack + `skip_branch`) computes the big-step semantics of the tree,
which executes exactly one arm of every conditional.
Self-contained (re-proves the few progress / fuel facts it needs).
-/
namespace CG.Proofs.InterpFlow
open CG CG.Model.ScriptNum CG.Model.Interp

/-! ### `nextOp` -/

theorem nextOp_bounds {i : Nat} {script : Bytes} (h : i < script.length) :
    i < nextOp i script ∧ nextOp i script ≤ script.length := by
  unfold nextOp
  rw [if_neg (by omega)]
  simp only []
  split
  · omega
  · rename_i n heq
    repeat' split at heq
    all_goals first | contradiction | (simp only [Option.some.injEq] at heq; subst heq; split <;> omega)

/-- a flow-control byte is a one-byte instruction -/
theorem nextOp_single {i : Nat} {script : Bytes} (h : i < script.length)
    (hb : 78 < Model.Interp.byteAt script i) : nextOp i script = i + 1 := by
  unfold nextOp
  rw [if_neg (by omega)]
  simp only []
  rw [if_neg (by omega), if_neg (by omega), if_neg (by omega), if_neg (by omega)]
  simp only []
  rw [if_neg (by omega)]

/-! ### fuel-free views of the two loops -/

/-- `skip_branch`'s loop with the canonical fuel -/
def skipFrom (script : Bytes) (i sub : Nat) : Nat := skipBranchLoop script (script.length + 1) i sub

theorem skipBranchLoop_of_ge (script : Bytes) (fuel i sub : Nat) (hi : script.length ≤ i) :
    skipBranchLoop script fuel i sub = script.length := by
  cases fuel with
  | zero => rfl
  | succ f => unfold skipBranchLoop; rw [if_neg (by omega)]

theorem skipBranchLoop_fuel_succ (script : Bytes) (fuel i sub : Nat)
    (h : script.length + 1 ≤ fuel + i) :
    skipBranchLoop script (fuel + 1) i sub = skipBranchLoop script fuel i sub := by
  induction fuel generalizing i sub with
  | zero => rw [skipBranchLoop_of_ge _ _ _ _ (by omega), skipBranchLoop_of_ge _ _ _ _ (by omega)]
  | succ f ih =>
    by_cases hlt : i < script.length
    · have h1 := (nextOp_bounds hlt).1
      have e : ∀ s, skipBranchLoop script (f + 1) (nextOp i script) s
                  = skipBranchLoop script f (nextOp i script) s := fun s => ih _ s (by omega)
      rw [skipBranchLoop.eq_2 script i sub (f + 1), skipBranchLoop.eq_2 script i sub f]
      simp only [e]
    · rw [skipBranchLoop_of_ge _ _ _ _ (by omega), skipBranchLoop_of_ge _ _ _ _ (by omega)]

/-- unfolding equation of the skip loop, without fuel -/
theorem skipFrom_step (script : Bytes) (i sub : Nat) (h : i < script.length) :
    skipFrom script i sub =
      (let b := Model.Interp.byteAt script i
       if b = 99 ∨ b = 100 then skipFrom script (nextOp i script) (sub + 1)
       else if b = 103 then (if sub = 0 then i else skipFrom script (nextOp i script) sub)
       else if b = 104 then (if sub = 0 then i else skipFrom script (nextOp i script) (sub - 1))
       else skipFrom script (nextOp i script) sub) := by
  have h1 := (nextOp_bounds h).1
  have e : ∀ s, skipBranchLoop script script.length (nextOp i script) s
      = skipFrom script (nextOp i script) s := fun s =>
    (skipBranchLoop_fuel_succ script script.length (nextOp i script) s (by omega)).symm
  unfold skipFrom
  rw [skipBranchLoop.eq_2 script i sub script.length, if_pos h]
  simp only [e]
  rfl

/-- the interpreter loop with the canonical fuel and no break offset -/
def runFrom {σ : Type} (ex : Nat → Op → St σ → Outcome (Bool × St σ)) (script : Bytes)
    (i : Nat) (st : St σ) : Outcome (St σ × Nat) :=
  runWith ex script none (script.length + 1) i st

/-- one turn of the loop with the recursive call abstracted -/
def body {σ : Type} (ex : Nat → Op → St σ → Outcome (Bool × St σ)) (script : Bytes)
    (k : Nat → St σ → Outcome (St σ × Nat)) (i : Nat) (st : St σ) : Outcome (St σ × Nat) :=
  let i := match st.branch with
    | false :: _ => skipBranch script i
    | _ => i
  if i ≥ script.length then finish st i
  else
    match ex i (decodeOp (script.getD i 0)) st with
    | .ok (true, st') => finish st' i
    | .ok (false, st') => k (nextOp i script) st'
    | .err e => .err e
    | .panic p => .panic p

theorem runWith_succ_lt {σ : Type} (ex : Nat → Op → St σ → Outcome (Bool × St σ)) (script : Bytes)
    (fuel i : Nat) (st : St σ) (h : i < script.length) :
    runWith ex script none (fuel + 1) i st = body ex script (runWith ex script none fuel) i st := by
  rw [runWith, if_pos h]
  simp only [body, Bool.false_eq_true, if_false]
  rfl

theorem runWith_succ_ge {σ : Type} (ex : Nat → Op → St σ → Outcome (Bool × St σ)) (script : Bytes)
    (fuel i : Nat) (st : St σ) (h : ¬ i < script.length) :
    runWith ex script none (fuel + 1) i st = finish st i := by
  rw [runWith, if_neg h]

theorem skipBranchLoop_ge (script : Bytes) (fuel i sub : Nat) (hi : i ≤ script.length) :
    i ≤ skipBranchLoop script fuel i sub := by
  induction fuel generalizing i sub with
  | zero => simpa [skipBranchLoop] using hi
  | succ f ih =>
    unfold skipBranchLoop
    split
    · rename_i hlt
      have h1 := (nextOp_bounds hlt).1
      have h2 := (nextOp_bounds hlt).2
      have h3 := fun s => ih (nextOp i script) s h2
      simp only []
      repeat' split
      all_goals first | omega | (have := h3 sub; have := h3 (sub+1); have := h3 (sub-1); omega)
    · omega

theorem body_congr {σ : Type} (ex : Nat → Op → St σ → Outcome (Bool × St σ)) (script : Bytes)
    (k k' : Nat → St σ → Outcome (St σ × Nat)) (i : Nat) (st : St σ) (hi : i < script.length)
    (h : ∀ j st', i < j → j ≤ script.length → k j st' = k' j st') :
    body ex script k i st = body ex script k' i st := by
  unfold body
  have h0 : i ≤ (match st.branch with | false :: _ => skipBranch script i | _ => i) := by
    split
    · exact skipBranchLoop_ge _ _ _ _ (by omega)
    · omega
  generalize (match st.branch with | false :: _ => skipBranch script i | _ => i) = i0 at h0
  simp only []
  split
  · rfl
  · rename_i hge
    have hb := nextOp_bounds (show i0 < script.length by omega)
    cases hex : ex i0 (decodeOp (script.getD i0 0)) st with
    | ok bs =>
      obtain ⟨b, st'⟩ := bs
      cases b
      · exact h _ _ (by omega) hb.2
      · rfl
    | err e => rfl
    | panic p => rfl

theorem runWith_fuel_succ {σ : Type} (ex : Nat → Op → St σ → Outcome (Bool × St σ)) (script : Bytes)
    (fuel i : Nat) (st : St σ) (h1 : 1 ≤ fuel) (h2 : script.length + 1 ≤ fuel + i) :
    runWith ex script none (fuel + 1) i st = runWith ex script none fuel i st := by
  induction fuel generalizing i st with
  | zero => omega
  | succ f ih =>
    by_cases hlt : i < script.length
    · rw [runWith_succ_lt _ _ _ _ _ hlt, runWith_succ_lt _ _ _ _ _ hlt]
      apply body_congr _ _ _ _ _ _ hlt
      intro j st' hij hj
      exact ih j st' (by omega) (by omega)
    · rw [runWith_succ_ge _ _ _ _ _ hlt, runWith_succ_ge _ _ _ _ _ hlt]

/-- unfolding equation of the interpreter loop, without fuel -/
theorem runFrom_step {σ : Type} (ex : Nat → Op → St σ → Outcome (Bool × St σ)) (script : Bytes)
    (i : Nat) (st : St σ) (h : i < script.length) :
    runFrom ex script i st = body ex script (runFrom ex script) i st := by
  unfold runFrom
  rw [runWith_succ_lt _ _ _ _ _ h]
  apply body_congr _ _ _ _ _ _ h
  intro j st' hij hj
  exact (runWith_fuel_succ ex script script.length j st' (by omega) (by omega)).symm

theorem runFrom_end {σ : Type} (ex : Nat → Op → St σ → Outcome (Bool × St σ)) (script : Bytes)
    (i : Nat) (st : St σ) (h : script.length ≤ i) : runFrom ex script i st = finish st i :=
  runWith_succ_ge _ _ _ _ _ (by omega)

/-! ### program trees -/

/-- shape of a well-nested script: a sequence of plain instructions and conditionals -/
inductive Prog
  | done
  | op (rest : Prog)
  | cond (neg hasElse : Bool) (thn els rest : Prog)
deriving Repr

abbrev bAt (script : Bytes) (i : Nat) : Nat := Model.Interp.byteAt script i

def isFlow (b : Nat) : Prop := b = 99 ∨ b = 100 ∨ b = 103 ∨ b = 104

instance (b : Nat) : Decidable (isFlow b) := by unfold isFlow; infer_instance

/-- `Parses script a T b`: the bytes `script[a..b)` are the program `T` — every plain instruction
    spans `[i, nextOp i)` and is not IF/NOTIF/ELSE/ENDIF; every conditional is
    `IF|NOTIF thn [ELSE els] ENDIF` with well-nested arms (at most one ELSE) -/
inductive Parses (script : Bytes) : Nat → Prog → Nat → Prop
  | done (a : Nat) (h : a ≤ script.length) : Parses script a .done a
  | op (a b : Nat) (rest : Prog) (h : a < script.length) (hb : ¬ isFlow (bAt script a))
      (hr : Parses script (nextOp a script) rest b) : Parses script a (.op rest) b
  | condNoElse (a m b : Nat) (neg : Bool) (thn rest : Prog) (h : a < script.length)
      (hb : bAt script a = if neg then 100 else 99)
      (ht : Parses script (a + 1) thn m) (hm : m < script.length) (hmb : bAt script m = 104)
      (hr : Parses script (m + 1) rest b) : Parses script a (.cond neg false thn .done rest) b
  | condElse (a m e b : Nat) (neg : Bool) (thn els rest : Prog) (h : a < script.length)
      (hb : bAt script a = if neg then 100 else 99)
      (ht : Parses script (a + 1) thn m) (hm : m < script.length) (hmb : bAt script m = 103)
      (he : Parses script (m + 1) els e) (hel : e < script.length) (heb : bAt script e = 104)
      (hr : Parses script (e + 1) rest b) : Parses script a (.cond neg true thn els rest) b

/-- end position of a program laid out from `a` -/
def endPos (script : Bytes) : Prog → Nat → Nat
  | .done, a => a
  | .op rest, a => endPos script rest (nextOp a script)
  | .cond _ hasElse thn els rest, a =>
    let m := endPos script thn (a + 1)
    let e := if hasElse then endPos script els (m + 1) else m
    endPos script rest (e + 1)

theorem endPos_eq {script : Bytes} {a b : Nat} {T : Prog} (h : Parses script a T b) :
    endPos script T a = b := by
  induction h with
  | done a h => rfl
  | op a b rest h hb hr ih => simpa [endPos] using ih
  | condNoElse a m b neg thn rest h hb ht hm hmb hr iht ihr => simp [endPos, iht, ihr]
  | condElse a m e b neg thn els rest h hb ht hm hmb he hel heb hr iht ihe ihr =>
    simp [endPos, iht, ihe, ihr]

theorem Parses.le {script : Bytes} {a b : Nat} {T : Prog} (h : Parses script a T b) :
    a ≤ b ∧ b ≤ script.length := by
  induction h with
  | done a h => omega
  | op a b rest h hb hr ih => have := nextOp_bounds h; omega
  | condNoElse a m b neg thn rest h hb ht hm hmb hr iht ihr => omega
  | condElse a m e b neg thn els rest h hb ht hm hmb he hel heb hr iht ihe ihr => omega

/-- skipping over a well-nested block does not change the nesting counter -/
theorem skip_block {script : Bytes} {a b : Nat} {T : Prog} (h : Parses script a T b) :
    ∀ sub, skipFrom script a sub = skipFrom script b sub := by
  induction h with
  | done a h => intro sub; rfl
  | op a b rest h hb hr ih =>
    intro sub
    rw [skipFrom_step script a sub h]
    simp only [isFlow, bAt] at hb
    simp only []
    rw [if_neg (by omega), if_neg (by omega), if_neg (by omega)]
    exact ih sub
  | condNoElse a m b neg thn rest h hb ht hm hmb hr iht ihr =>
    intro sub
    have hb' : bAt script a = 99 ∨ bAt script a = 100 := by cases neg <;> simp [hb]
    rw [skipFrom_step script a sub h]
    simp only []
    rw [if_pos hb', nextOp_single h (by rcases hb' with h | h <;> simp only [bAt] at h <;> omega), iht]
    rw [skipFrom_step script m (sub + 1) hm]
    simp only [bAt] at hmb
    simp [hmb, nextOp_single hm (by omega)]
    exact ihr sub
  | condElse a m e b neg thn els rest h hb ht hm hmb he hel heb hr iht ihe ihr =>
    intro sub
    have hb' : bAt script a = 99 ∨ bAt script a = 100 := by cases neg <;> simp [hb]
    rw [skipFrom_step script a sub h]
    simp only []
    rw [if_pos hb', nextOp_single h (by rcases hb' with h | h <;> simp only [bAt] at h <;> omega), iht]
    rw [skipFrom_step script m (sub + 1) hm]
    simp only [bAt] at hmb heb
    simp [hmb, nextOp_single hm (by omega)]
    rw [ihe, skipFrom_step script e (sub + 1) hel]
    simp [heb, nextOp_single hel (by omega)]
    exact ihr sub

/-- `skip_branch` started at the beginning of a well-nested block that is followed by ELSE or ENDIF
    stops exactly there -/
theorem skipBranch_block {script : Bytes} {a m : Nat} {T : Prog} (h : Parses script a T m)
    (hm : m < script.length) (hmb : bAt script m = 103 ∨ bAt script m = 104) :
    skipBranch script a = m := by
  show skipFrom script a 0 = m
  rw [skip_block h 0, skipFrom_step script m 0 hm]
  simp only [bAt] at hmb
  rcases hmb with hmb | hmb <;> simp [hmb]

/-! ### big-step semantics of a program tree -/

/-- the model's arms for the four flow-control opcodes -/
def flowExec {σ : Type} (op : Op) (st : St σ) : Outcome (Bool × St σ) :=
  match op with
  | .if_ =>
    match popBool st.stack with
    | .ok (b, r) => .ok (false, { st with stack := r, branch := b :: st.branch })
    | .err e => .err e | .panic p => .panic p
  | .notif =>
    match popBool st.stack with
    | .ok (b, r) => .ok (false, { st with stack := r, branch := (!b) :: st.branch })
    | .err e => .err e | .panic p => .panic p
  | .else_ =>
    match st.branch with
    | [] => scriptErr
    | b :: bs => .ok (false, { st with branch := (!b) :: bs })
  | .endif =>
    match st.branch with
    | [] => scriptErr
    | _ :: bs => .ok (false, { st with branch := bs })
  | _ => scriptErr

/-- what the theorem needs of a per-opcode semantics: the four flow opcodes act on the flag stack as
    in `core_eval`, and no other opcode touches the flag stack -/
structure FlowSem {σ : Type} (ex : Nat → Op → St σ → Outcome (Bool × St σ)) : Prop where
  if_ : ∀ i st, ex i .if_ st = flowExec .if_ st
  notif : ∀ i st, ex i .notif st = flowExec .notif st
  else_ : ∀ i st, ex i .else_ st = flowExec .else_ st
  endif : ∀ i st, ex i .endif st = flowExec .endif st
  frame : ∀ i op st r, op ≠ .if_ → op ≠ .notif → op ≠ .else_ → op ≠ .endif →
    ex i op st = .ok r → r.2.branch = st.branch

def andThen {σ : Type} (r : Outcome (Bool × St σ × Nat))
    (k : St σ → Outcome (Bool × St σ × Nat)) : Outcome (Bool × St σ × Nat) :=
  match r with
  | .ok (false, st2, _) => k st2
  | .ok (true, st2, p) => .ok (true, st2, p)
  | .err e => .err e
  | .panic p => .panic p

/-- big-step semantics: run the instructions in order; at a conditional pop the condition and run
    exactly ONE arm (with the flag `true` on the flag stack), then the rest.  The result is
    `(stopped, state, position)`; `stopped` = an OP_RETURN ended the run at `position`. -/
def big {σ : Type} (ex : Nat → Op → St σ → Outcome (Bool × St σ)) (script : Bytes) :
    Prog → Nat → St σ → Outcome (Bool × St σ × Nat)
  | .done, a, st => .ok (false, st, a)
  | .op rest, a, st =>
    match ex a (decodeOp (script.getD a 0)) st with
    | .ok (true, st') => .ok (true, st', a)
    | .ok (false, st') => big ex script rest (nextOp a script) st'
    | .err e => .err e
    | .panic p => .panic p
  | .cond neg hasElse thn els rest, a, st =>
    match popBool st.stack with
    | .err e => .err e
    | .panic p => .panic p
    | .ok (c, r) =>
      let m := endPos script thn (a + 1)
      let e := if hasElse then endPos script els (m + 1) else m
      let st1 : St σ := { st with stack := r, branch := true :: st.branch }
      if c != neg then
        andThen (big ex script thn (a + 1) st1)
          (fun st2 => big ex script rest (e + 1) { st2 with branch := st.branch })
      else
        andThen (big ex script els (m + 1) st1)
          (fun st2 => big ex script rest (e + 1) { st2 with branch := st.branch })

/-- how the flag machine goes on after a block that ends at `b` -/
def cont {σ : Type} (ex : Nat → Op → St σ → Outcome (Bool × St σ)) (script : Bytes) (b : Nat)
    (r : Outcome (Bool × St σ × Nat)) : Outcome (St σ × Nat) :=
  match r with
  | .ok (false, st', _) => runFrom ex script b st'
  | .ok (true, st', p) => finish st' p
  | .err e => .err e
  | .panic p => .panic p

theorem decodeOp_flow_fin : ∀ i : Fin 256,
    (i.val = 99 → decodeOp (UInt8.ofNat i.val) = .if_) ∧
    (i.val = 100 → decodeOp (UInt8.ofNat i.val) = .notif) ∧
    (i.val = 103 → decodeOp (UInt8.ofNat i.val) = .else_) ∧
    (i.val = 104 → decodeOp (UInt8.ofNat i.val) = .endif) ∧
    (decodeOp (UInt8.ofNat i.val) = .if_ → i.val = 99) ∧
    (decodeOp (UInt8.ofNat i.val) = .notif → i.val = 100) ∧
    (decodeOp (UInt8.ofNat i.val) = .else_ → i.val = 103) ∧
    (decodeOp (UInt8.ofNat i.val) = .endif → i.val = 104) := by decide +kernel

theorem decodeOp_flow (b : UInt8) :
    (b.toNat = 99 → decodeOp b = .if_) ∧ (b.toNat = 100 → decodeOp b = .notif) ∧
    (b.toNat = 103 → decodeOp b = .else_) ∧ (b.toNat = 104 → decodeOp b = .endif) ∧
    (decodeOp b = .if_ → b.toNat = 99) ∧ (decodeOp b = .notif → b.toNat = 100) ∧
    (decodeOp b = .else_ → b.toNat = 103) ∧ (decodeOp b = .endif → b.toNat = 104) := by
  have := decodeOp_flow_fin ⟨b.toNat, b.toNat_lt⟩
  simpa using this

/-- one turn of the loop that executes an opcode and goes on -/
theorem run_step_ok {σ : Type} (ex : Nat → Op → St σ → Outcome (Bool × St σ)) (script : Bytes)
    (a i : Nat) (st st' : St σ) (ha : a < script.length)
    (hadv : (match st.branch with | false :: _ => skipBranch script a | _ => a) = i)
    (hi : i < script.length) (hex : ex i (decodeOp (script.getD i 0)) st = .ok (false, st')) :
    runFrom ex script a st = runFrom ex script (nextOp i script) st' := by
  rw [runFrom_step _ _ _ _ ha]
  unfold body
  simp only [hadv]
  rw [if_neg (by omega), hex]

theorem adv_id {σ : Type} (script : Bytes) (a : Nat) (st : St σ) (hnf : ∀ bs, st.branch ≠ false :: bs) :
    (match st.branch with | false :: _ => skipBranch script a | _ => a) = a := by
  split
  · rename_i bs h; exact absurd h (hnf bs)
  · rfl

section steps
variable {σ : Type} (ex : Nat → Op → St σ → Outcome (Bool × St σ)) (script : Bytes) (hs : FlowSem ex)
include hs

theorem run_if (a : Nat) (neg : Bool) (st : St σ) (ha : a < script.length)
    (hb : bAt script a = if neg then 100 else 99) (hnf : ∀ bs, st.branch ≠ false :: bs) :
    runFrom ex script a st =
      match popBool st.stack with
      | .ok (c, r) => runFrom ex script (a + 1) { st with stack := r, branch := (c != neg) :: st.branch }
      | .err e => .err e
      | .panic p => .panic p := by
  have hd := decodeOp_flow (script.getD a 0)
  have hn : nextOp a script = a + 1 := nextOp_single ha (by simp only [bAt] at hb; cases neg <;> simp at hb <;> omega)
  rw [runFrom_step _ _ _ _ ha]
  unfold body
  simp only [adv_id script a st hnf]
  rw [if_neg (by omega), hn]
  cases neg
  · rw [hd.1 (by simpa [bAt, Model.Interp.byteAt] using hb), hs.if_]
    unfold flowExec
    simp only []
    cases popBool st.stack with
    | ok cr => obtain ⟨c, r⟩ := cr; simp
    | err e => rfl
    | panic p => rfl
  · rw [hd.2.1 (by simpa [bAt, Model.Interp.byteAt] using hb), hs.notif]
    unfold flowExec
    simp only []
    cases popBool st.stack with
    | ok cr => obtain ⟨c, r⟩ := cr; simp
    | err e => rfl
    | panic p => rfl

theorem run_else_true (m : Nat) (st : St σ) (bs : List Bool) (hm : m < script.length)
    (hb : bAt script m = 103) (hbr : st.branch = true :: bs) :
    runFrom ex script m st = runFrom ex script (m + 1) { st with branch := false :: bs } := by
  have hd := decodeOp_flow (script.getD m 0)
  have hn : nextOp m script = m + 1 := nextOp_single hm (by simp only [bAt] at hb; omega)
  rw [run_step_ok ex script m m st { st with branch := false :: bs } hm
    (adv_id script m st (by rw [hbr]; intro bs' h; cases h)) hm
    (by rw [hd.2.2.1 (by simpa [bAt, Model.Interp.byteAt] using hb), hs.else_]; simp [flowExec, hbr]), hn]

theorem run_endif_true (e : Nat) (st : St σ) (bs : List Bool) (he : e < script.length)
    (hb : bAt script e = 104) (hbr : st.branch = true :: bs) :
    runFrom ex script e st = runFrom ex script (e + 1) { st with branch := bs } := by
  have hd := decodeOp_flow (script.getD e 0)
  have hn : nextOp e script = e + 1 := nextOp_single he (by simp only [bAt] at hb; omega)
  rw [run_step_ok ex script e e st { st with branch := bs } he
    (adv_id script e st (by rw [hbr]; intro bs' h; cases h)) he
    (by rw [hd.2.2.2.1 (by simpa [bAt, Model.Interp.byteAt] using hb), hs.endif]; simp [flowExec, hbr]), hn]

theorem run_skip_else (a m : Nat) (st : St σ) (bs : List Bool) (ha : a < script.length)
    (hbr : st.branch = false :: bs) (hsk : skipBranch script a = m) (hm : m < script.length)
    (hb : bAt script m = 103) :
    runFrom ex script a st = runFrom ex script (m + 1) { st with branch := true :: bs } := by
  have hd := decodeOp_flow (script.getD m 0)
  have hn : nextOp m script = m + 1 := nextOp_single hm (by simp only [bAt] at hb; omega)
  rw [run_step_ok ex script a m st { st with branch := true :: bs } ha
    (by rw [hbr]; exact hsk) hm
    (by rw [hd.2.2.1 (by simpa [bAt, Model.Interp.byteAt] using hb), hs.else_]; simp [flowExec, hbr]), hn]

theorem run_skip_endif (a m : Nat) (st : St σ) (bs : List Bool) (ha : a < script.length)
    (hbr : st.branch = false :: bs) (hsk : skipBranch script a = m) (hm : m < script.length)
    (hb : bAt script m = 104) :
    runFrom ex script a st = runFrom ex script (m + 1) { st with branch := bs } := by
  have hd := decodeOp_flow (script.getD m 0)
  have hn : nextOp m script = m + 1 := nextOp_single hm (by simp only [bAt] at hb; omega)
  rw [run_step_ok ex script a m st { st with branch := bs } ha
    (by rw [hbr]; exact hsk) hm
    (by rw [hd.2.2.2.1 (by simpa [bAt, Model.Interp.byteAt] using hb), hs.endif]; simp [flowExec, hbr]), hn]

end steps

theorem andThen_ok_false {σ : Type} (r : Outcome (Bool × St σ × Nat))
    (k : St σ → Outcome (Bool × St σ × Nat)) (st' : St σ) (q : Nat)
    (h : andThen r k = .ok (false, st', q)) :
    ∃ st2 p, r = .ok (false, st2, p) ∧ k st2 = .ok (false, st', q) := by
  unfold andThen at h
  split at h
  · exact ⟨_, _, rfl, h⟩
  · simp at h
  · simp at h
  · simp at h

/-- after the arm of a conditional has been run (flag `true` on top), the machine and the big-step
    semantics continue alike: shared tail of the four cases below -/
theorem arm_tail {σ : Type} (ex : Nat → Op → St σ → Outcome (Bool × St σ)) (script : Bytes)
    (x e b : Nat) (rest : Prog) (st st1 : St σ) (armRes : Outcome (Bool × St σ × Nat))
    (hbr1 : st1.branch = true :: st.branch)
    (harm : ∀ st2 q, armRes = .ok (false, st2, q) → st2.branch = st1.branch)
    (hjoin : ∀ st2, st2.branch = true :: st.branch →
      runFrom ex script x st2 = runFrom ex script (e + 1) { st2 with branch := st.branch })
    (ihr : ∀ st' : St σ, (∀ bs, st'.branch ≠ false :: bs) →
      runFrom ex script (e + 1) st' = cont ex script b (big ex script rest (e + 1) st') ∧
      ∀ st'' q, big ex script rest (e + 1) st' = .ok (false, st'', q) → st''.branch = st'.branch)
    (hnf : ∀ bs, st.branch ≠ false :: bs) :
    cont ex script x armRes =
      cont ex script b (andThen armRes
        (fun st2 => big ex script rest (e + 1) { st2 with branch := st.branch })) ∧
    ∀ st'' q, andThen armRes
        (fun st2 => big ex script rest (e + 1) { st2 with branch := st.branch }) = .ok (false, st'', q) →
      st''.branch = st.branch := by
  constructor
  · cases armRes with
    | ok res =>
      obtain ⟨s, st2, q⟩ := res
      cases s
      · have h2 := (harm st2 q rfl).trans hbr1
        simp only [cont, andThen]
        rw [hjoin st2 h2]
        exact (ihr { st2 with branch := st.branch } hnf).1
      · rfl
    | err e => rfl
    | panic p => rfl
  · intro st'' q hq
    obtain ⟨st2, p, h1, h2⟩ := andThen_ok_false _ _ _ _ hq
    exact (ihr { st2 with branch := st.branch } hnf).2 st'' q h2

/-- **structured control flow**: on a script that parses into a program tree, the flag machine
    started at the beginning of a block (innermost flag not `false`) behaves as the big-step
    semantics of the block followed by the machine from the end of the block; and a block that
    completes leaves the flag stack as it found it. -/
theorem flow_main {σ : Type} (ex : Nat → Op → St σ → Outcome (Bool × St σ)) (script : Bytes)
    (hs : FlowSem ex) {a b : Nat} {T : Prog} (h : Parses script a T b) :
    ∀ st : St σ, (∀ bs, st.branch ≠ false :: bs) →
      runFrom ex script a st = cont ex script b (big ex script T a st) ∧
      ∀ st' q, big ex script T a st = .ok (false, st', q) → st'.branch = st.branch := by
  induction h with
  | done a h =>
    intro st hnf
    refine ⟨rfl, ?_⟩
    intro st' q hq
    simp only [big, Outcome.ok.injEq, Prod.mk.injEq, true_and] at hq
    rw [← hq.1]
  | op a b rest h hb hr ih =>
    intro st hnf
    have hd := decodeOp_flow (script.getD a 0)
    have hbb : Model.Interp.byteAt script a = (script.getD a 0).toNat := rfl
    simp only [isFlow, bAt, hbb] at hb
    have hframe := hs.frame a (decodeOp (script.getD a 0)) st
    rw [runFrom_step _ _ _ _ h]
    unfold body
    simp only [adv_id script a st hnf, big]
    rw [if_neg (by omega)]
    cases hex : ex a (decodeOp (script.getD a 0)) st with
    | ok r =>
      obtain ⟨s, st'⟩ := r
      have hbr : st'.branch = st.branch :=
        hframe (s, st') (fun hc => hb (Or.inl (hd.2.2.2.2.1 hc)))
          (fun hc => hb (Or.inr (Or.inl (hd.2.2.2.2.2.1 hc))))
          (fun hc => hb (Or.inr (Or.inr (Or.inl (hd.2.2.2.2.2.2.1 hc)))))
          (fun hc => hb (Or.inr (Or.inr (Or.inr (hd.2.2.2.2.2.2.2 hc))))) hex
      cases s
      · obtain ⟨i1, i2⟩ := ih st' (by rw [hbr]; exact hnf)
        exact ⟨i1, fun st'' q hq => (i2 st'' q hq).trans hbr⟩
      · exact ⟨rfl, by intro st'' q hq; simp at hq⟩
    | err e => exact ⟨rfl, by intro st'' q hq; simp at hq⟩
    | panic p => exact ⟨rfl, by intro st'' q hq; simp at hq⟩
  | condNoElse a m b neg thn rest h hb ht hm hmb hr iht ihr =>
    intro st hnf
    have hlt := ht.le
    rw [run_if ex script hs a neg st h hb hnf]
    simp only [big, endPos_eq ht, Bool.false_eq_true, if_false]
    cases hp : popBool st.stack with
    | err e => exact ⟨rfl, by intro st'' q hq; simp at hq⟩
    | panic p => exact ⟨rfl, by intro st'' q hq; simp at hq⟩
    | ok cr =>
      obtain ⟨c, r⟩ := cr
      simp only []
      by_cases hc : (c != neg) = true
      · simp only [hc, if_true]
        obtain ⟨t1, t2⟩ := iht { st with stack := r, branch := true :: st.branch }
          (by intro bs hh; cases hh)
        rw [t1]
        exact arm_tail ex script m m b rest st _ _ rfl t2
          (fun st2 h2 => run_endif_true ex script hs m st2 st.branch hm hmb h2) ihr hnf
      · have hc' : (c != neg) = false := by simpa using hc
        simp only [hc', Bool.false_eq_true, if_false]
        rw [run_skip_endif ex script hs (a + 1) m
          { st with stack := r, branch := false :: st.branch } st.branch (by omega) rfl
          (skipBranch_block ht hm (Or.inr hmb)) hm hmb]
        have := ihr { st with stack := r } hnf
        exact this
  | condElse a m e b neg thn els rest h hb ht hm hmb he hel heb hr iht ihe ihr =>
    intro st hnf
    have hlt := ht.le
    have hle := he.le
    rw [run_if ex script hs a neg st h hb hnf]
    simp only [big, endPos_eq ht, endPos_eq he, if_true]
    cases hp : popBool st.stack with
    | err e => exact ⟨rfl, by intro st'' q hq; simp at hq⟩
    | panic p => exact ⟨rfl, by intro st'' q hq; simp at hq⟩
    | ok cr =>
      obtain ⟨c, r⟩ := cr
      simp only []
      by_cases hc : (c != neg) = true
      · simp only [hc, if_true]
        obtain ⟨t1, t2⟩ := iht { st with stack := r, branch := true :: st.branch }
          (by intro bs hh; cases hh)
        rw [t1]
        refine arm_tail ex script m e b rest st _ _ rfl t2 ?_ ihr hnf
        intro st2 h2
        rw [run_else_true ex script hs m st2 st.branch hm hmb h2,
          run_skip_endif ex script hs (m + 1) e { st2 with branch := false :: st.branch } st.branch
            (by omega) rfl (skipBranch_block he hel (Or.inr heb)) hel heb]
      · have hc' : (c != neg) = false := by simpa using hc
        simp only [hc', Bool.false_eq_true, if_false]
        rw [run_skip_else ex script hs (a + 1) m
          { st with stack := r, branch := false :: st.branch } st.branch (by omega) rfl
          (skipBranch_block ht hm (Or.inl hmb)) hm hmb]
        obtain ⟨t1, t2⟩ := ihe { st with stack := r, branch := true :: st.branch }
          (by intro bs hh; cases hh)
        rw [show ({ ({ st with stack := r, branch := false :: st.branch } : St σ) with
              branch := true :: st.branch } : St σ)
            = { st with stack := r, branch := true :: st.branch } from rfl, t1]
        exact arm_tail ex script e e b rest st _ _ rfl t2
          (fun st2 h2 => run_endif_true ex script hs e st2 st.branch hel heb h2) ihr hnf

/-! ### the model's and the reference's opcode semantics are flow semantics -/

theorem exec_frame {σ : Type} (H : Hashes) (C : Checker σ) (pre : Bool) (script : Bytes) (i : Nat)
    (op : Op) (st : St σ) (r : Bool × St σ)
    (h1 : op ≠ .if_) (h2 : op ≠ .notif) (h3 : op ≠ .else_) (h4 : op ≠ .endif)
    (h : exec H C pre script i op st = .ok r) : r.2.branch = st.branch := by
  cases op
  case if_ => exact absurd rfl h1
  case notif => exact absurd rfl h2
  case else_ => exact absurd rfl h3
  case endif => exact absurd rfl h4
  all_goals
    simp only [exec, checkSize, scriptErr, pushSlice, unaryBig, binaryBig, bitwise, hashOp, sigCheck,
      multisigOp, popU, popBig, popNum, popBool] at h
    repeat' split at h
    all_goals first
      | (simp only [Outcome.ok.injEq, reduceCtorEq] at h; subst h; rfl)
      | (simp at h)

theorem model_flowSem {σ : Type} (H : Hashes) (C : Checker σ) (pre : Bool) (script : Bytes) :
    FlowSem (exec H C pre script) where
  if_ := fun _ _ => rfl
  notif := fun _ _ => rfl
  else_ := fun _ _ => rfl
  endif := fun _ _ => rfl
  frame := fun i op st r h1 h2 h3 h4 h => exec_frame H C pre script i op st r h1 h2 h3 h4 h

open CG.Spec.ScriptSem in
theorem spec_exec_frame {σ : Type} (H : Hashes) (C : Checker σ) (pre : Bool) (script : Bytes) (i : Nat)
    (op : Op) (st : St σ) (r : Bool × St σ)
    (h1 : op ≠ .if_) (h2 : op ≠ .notif) (h3 : op ≠ .else_) (h4 : op ≠ .endif)
    (h : Spec.ScriptSem.exec H C pre script i op st = .ok r) : r.2.branch = st.branch := by
  by_cases hfall : Spec.ScriptSem.exec H C pre script i op st = Model.Interp.exec H C pre script i op st
  · rw [hfall] at h; exact exec_frame H C pre script i op st r h1 h2 h3 h4 h
  · cases op
    all_goals first
      | (simp only [Spec.ScriptSem.exec, un, bin, popVal, scriptErr] at h
         repeat' split at h
         all_goals first
           | (simp only [Outcome.ok.injEq, reduceCtorEq] at h; subst h; rfl)
           | (simp at h; done))
      | exact absurd rfl hfall

theorem spec_flowSem {σ : Type} (H : Hashes) (C : Checker σ) (pre : Bool) (script : Bytes) :
    FlowSem (Spec.ScriptSem.exec H C pre script) where
  if_ := fun _ _ => rfl
  notif := fun _ _ => rfl
  else_ := fun _ _ => rfl
  endif := fun _ _ => rfl
  frame := fun i op st r h1 h2 h3 h4 h => spec_exec_frame H C pre script i op st r h1 h2 h3 h4 h

/-- whole-run form: from the start of a block that extends to the end of the script, with an empty
    flag stack, the interpreter loop returns what the big-step semantics returns -/
theorem run_structured {σ : Type} (ex : Nat → Op → St σ → Outcome (Bool × St σ)) (script : Bytes)
    (hs : FlowSem ex) {a : Nat} {T : Prog} (h : Parses script a T script.length)
    (st : St σ) (hbr : st.branch = []) :
    runWith ex script none (script.length + 1) a st =
      match big ex script T a st with
      | .ok (false, st', _) => .ok (st', script.length)
      | .ok (true, st', p) => finish st' p
      | .err e => .err e
      | .panic p => .panic p := by
  obtain ⟨h1, h2⟩ := flow_main ex script hs h st (by rw [hbr]; intro bs hh; cases hh)
  show runFrom ex script a st = _
  rw [h1]
  cases hb : big ex script T a st with
  | ok res =>
    obtain ⟨s, st', q⟩ := res
    cases s
    · have := (h2 st' q hb).trans hbr
      simp only [cont]
      rw [runFrom_end _ _ _ _ (Nat.le_refl _)]
      simp [finish, this]
    · rfl
  | err e => rfl
  | panic p => rfl

end CG.Proofs.InterpFlow

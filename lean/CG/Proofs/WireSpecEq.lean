import CG.Proofs.WireMessages
import CG.Spec.WireSpec
/-!
The model encoders produce exactly the reference layout of `CG.Spec.WireSpec`, for in-range values.
-/
namespace CG.Model.Wire
open CG CG.Spec

/-! ### unfolding the combinators' encoders -/

@[simp] theorem enc_iso {α β} (c : Codec α) (f : α → β) (g : β → α) (b : β) :
    (iso c f g).enc b = c.enc (g b) := rfl
@[simp] theorem enc_dpair {α β} (ca : Codec α) (cb : α → Codec β) (p : α × β) :
    (dpair ca cb).enc p = ca.enc p.1 ++ (cb p.1).enc p.2 := rfl
@[simp] theorem enc_pair {α β} (ca : Codec α) (cb : Codec β) (p : α × β) :
    (ca ⊗ cb).enc p = ca.enc p.1 ++ cb.enc p.2 := rfl
@[simp] theorem enc_bytesN (n : Nat) (a : Bytes) : (bytesN n).enc a = a := rfl
@[simp] theorem enc_vecBytes (n : Nat) (a : Bytes) : (vecBytes n).enc a = a := rfl
@[simp] theorem enc_hash32 (a : Bytes) : hash32.enc a = a := rfl
@[simp] theorem enc_refine {α} (c : Codec α) (p : α → Bool) (e : String) (a : α) :
    (refine c p e).enc a = c.enc a := rfl
@[simp] theorem enc_validated {α} (c : Codec α) (v : α → Outcome Unit) (a : α) :
    (validated c v).enc a = c.enc a := rfl
@[simp] theorem enc_lenPrefixed {β} (cl : Codec Nat) (body : Nat → Codec β) (len : β → Nat) (d : β) (b : β) :
    (lenPrefixed cl body len d).enc b = cl.enc (len b) ++ (body (len b)).enc b := rfl
@[simp] theorem enc_repeatN {α} (c : Codec α) (n : Nat) (l : List α) :
    (repeatN c n).enc l = (l.map c.enc).flatten := rfl

/-! ### integers -/

theorem ofNat_congr {a b : Nat} (h : a % 256 = b % 256) : UInt8.ofNat a = UInt8.ofNat b := by
  apply UInt8.toNat_inj.mp
  simp only [UInt8.toNat_ofNat']
  exact h

theorem u8_enc (x : Nat) : u8.enc x = [WireSpec.byte x] := by
  simp [u8, uLE, natToLEn, WireSpec.byte]

theorem u16_enc (x : Nat) : u16.enc x = WireSpec.le16 x := by
  simp [u16, uLE, natToLEn, WireSpec.le16, WireSpec.byte]

theorem cons_eq {a b : UInt8} {l m : Bytes} (h1 : a = b) (h2 : l = m) : a :: l = b :: m := by
  rw [h1, h2]

theorem natToLEn4 (x : Nat) : natToLEn 4 x = WireSpec.le32 x := by
  simp only [natToLEn, WireSpec.le32, WireSpec.byte]
  refine cons_eq (ofNat_congr ?_) (cons_eq (ofNat_congr ?_) (cons_eq (ofNat_congr ?_)
    (cons_eq (ofNat_congr ?_) rfl))) <;> omega

theorem u32_enc (x : Nat) : u32.enc x = WireSpec.le32 x := natToLEn4 x

theorem natToLEn8 (x : Nat) : natToLEn 8 x = WireSpec.le64 x := by
  simp only [natToLEn, WireSpec.le64, WireSpec.le32, WireSpec.byte, List.cons_append, List.nil_append]
  refine cons_eq (ofNat_congr ?_) (cons_eq (ofNat_congr ?_) (cons_eq (ofNat_congr ?_)
    (cons_eq (ofNat_congr ?_) (cons_eq (ofNat_congr ?_) (cons_eq (ofNat_congr ?_)
    (cons_eq (ofNat_congr ?_) (cons_eq (ofNat_congr ?_) rfl))))))) <;> omega

theorem u64_enc (x : Nat) : u64.enc x = WireSpec.le64 x := natToLEn8 x

theorem u16be_enc (x : Nat) : u16be.enc x = WireSpec.be16 x := by
  simp [u16be, uBE, natToLEn, WireSpec.be16, WireSpec.byte]

theorem ofSigned_eq_twos (k : Nat) (x : Int) (h1 : -((2 ^ k : Nat) : Int) ≤ 2 * x)
    (h2 : 2 * x < ((2 ^ k : Nat) : Int)) : ofSigned (2 ^ k) x = WireSpec.twos k x := by
  have hM : (0 : Int) < ((2 ^ k : Nat) : Int) := by omega
  have hc : ((2 ^ k : Nat) : Int) = (2 : Int) ^ k := by simp
  unfold ofSigned WireSpec.twos
  by_cases hx : 0 ≤ x
  · rw [Int.emod_eq_of_lt hx (by omega), if_neg (by omega)]
  · have e : x % ((2 ^ k : Nat) : Int) = x + ((2 ^ k : Nat) : Int) := by
      rw [← Int.add_emod_right x _]
      exact Int.emod_eq_of_lt (by omega) (by omega)
    rw [e, if_pos (by omega), hc]

theorem i32_enc (x : Int) (h : i32.wf x) : i32.enc x = WireSpec.sle32 x := by
  have e : (256 : Nat) ^ 4 = 2 ^ 32 := by decide
  have h : -((256 ^ 4 : Nat) : Int) ≤ 2 * x ∧ 2 * x < ((256 ^ 4 : Nat) : Int) := h
  rw [e] at h
  show natToLEn 4 (ofSigned (256 ^ 4) x) = _
  rw [e, ofSigned_eq_twos 32 x h.1 h.2, natToLEn4]
  rfl

theorem i64_enc (x : Int) (h : i64.wf x) : i64.enc x = WireSpec.sle64 x := by
  have e : (256 : Nat) ^ 8 = 2 ^ 64 := by decide
  have h : -((256 ^ 8 : Nat) : Int) ≤ 2 * x ∧ 2 * x < ((256 ^ 8 : Nat) : Int) := h
  rw [e] at h
  show natToLEn 8 (ofSigned (256 ^ 8) x) = _
  rw [e, ofSigned_eq_twos 64 x h.1 h.2, natToLEn8]
  rfl

theorem varint_enc (n : Nat) : varint.enc n = WireSpec.compactSize n := by
  have e : (n < 0xfd) = (n ≤ 252) := propext (by omega)
  simp only [varint, WireSpec.compactSize, e]
  by_cases h1 : n ≤ 252
  · simp only [h1, if_true]
    simp [natToLEn, WireSpec.byte]
  · simp only [h1, if_false]
    by_cases h2 : n ≤ 0xffff
    · simp only [h2, if_true]
      simp [natToLEn, WireSpec.le16, WireSpec.byte]
    · simp only [h2, if_false]
      by_cases h3 : n ≤ 0xffffffff
      · simp only [h3, if_true, natToLEn4]
      · simp only [h3, if_false, natToLEn8]

/-! ### bytes, lists -/

theorem flatten_map_eq {α} (f g : α → Bytes) (l : List α) (h : ∀ a ∈ l, f a = g a) :
    (l.map f).flatten = l.flatMap g := by
  rw [List.flatMap_def]
  congr 1
  exact List.map_congr_left h

theorem varBytes_enc (b : Bytes) : varBytes.enc b = WireSpec.varBytes b := by
  simp only [varBytes, enc_lenPrefixed, enc_vecBytes, varint_enc, WireSpec.varBytes]

theorem varStr_enc (b : Bytes) : varStr.enc b = WireSpec.varBytes b := varBytes_enc b

theorem listPush_enc {α} (c : Codec α) (g : α → Bytes) (l : List α) (h : ∀ a ∈ l, c.enc a = g a) :
    (listPush c).enc l = WireSpec.vector g l := by
  simp only [listPush, enc_lenPrefixed, enc_repeatN, varint_enc, WireSpec.vector, flatten_map_eq _ _ l h]

theorem listCap_enc {α} (c : Codec α) (g : α → Bytes) (l : List α) (h : ∀ a ∈ l, c.enc a = g a) :
    (listCap c).enc l = WireSpec.vector g l := listPush_enc c g l h

theorem listMax_enc {α} (m : Nat) (c : Codec α) (g : α → Bytes) (l : List α) (h : ∀ a ∈ l, c.enc a = g a) :
    (listMax m c).enc l = WireSpec.vector g l := by
  simp only [listMax, enc_lenPrefixed, enc_refine, enc_repeatN, varint_enc, WireSpec.vector,
    flatten_map_eq _ _ l h]

theorem listTry_enc {α} (c : Codec α) (g : α → Bytes) (l : List α) (h : ∀ a ∈ l, c.enc a = g a) :
    (listTry c).enc l = WireSpec.vector g l := by
  simp only [listTry, varint_enc, WireSpec.vector, flatten_map_eq _ _ l h]

/-- the elements of an in-range list are in range -/
theorem lenPrefixed_wf_all {α} {cl : Codec Nat} {c : Codec α} {l : List α}
    (h : (lenPrefixed cl (repeatN c) List.length []).wf l) : ∀ a ∈ l, c.wf a := h.2.2

theorem listTry_wf_all {α} {c : Codec α} {l : List α} (h : (listTry c).wf l) : ∀ a ∈ l, c.wf a := h.2

/-! ### payload types -/

theorem outPoint_enc (o : OutPoint) : outPointC.enc o = WireSpec.outPoint o := by
  simp [outPointC, WireSpec.outPoint, u32_enc]

theorem txIn_enc (t : TxIn) : txInC.enc t = WireSpec.txIn t := by
  simp [txInC, WireSpec.txIn, outPoint_enc, varBytes_enc, u32_enc]

theorem txOut_enc (t : TxOut) (h : txOutC.wf t) : txOutC.enc t = WireSpec.txOut t := by
  simp [txOutC, WireSpec.txOut, i64_enc _ h.1, varBytes_enc]

theorem tx_enc (t : Tx) (h : txC.wf t) : txC.enc t = WireSpec.tx t := by
  obtain ⟨_, _, ho, _⟩ := h
  have e1 := listCap_enc txInC WireSpec.txIn t.inputs (fun a _ => txIn_enc a)
  have e2 := listCap_enc txOutC WireSpec.txOut t.outputs
    (fun a ha => txOut_enc a (lenPrefixed_wf_all ho a ha))
  simp [txC, WireSpec.tx, u32_enc, e1, e2]

theorem blockHeader_enc (h : BlockHeader) : blockHeaderC.enc h = WireSpec.blockHeader h := by
  simp [blockHeaderC, WireSpec.blockHeader, u32_enc]

theorem invVect_enc (v : InvVect) : invVectC.enc v = WireSpec.invVect v := by
  simp [invVectC, WireSpec.invVect, u32_enc]

theorem inv_enc (v : Inv) : invC.enc v = WireSpec.inv v := by
  simp [invC, WireSpec.inv, listMax_enc _ invVectC WireSpec.invVect v.objects (fun a _ => invVect_enc a)]

theorem blockLocator_enc (v : BlockLocator) : blockLocatorC.enc v = WireSpec.blockLocator v := by
  simp [blockLocatorC, WireSpec.blockLocator, u32_enc,
    listPush_enc hash32 id v.blockLocatorHashes (fun _ _ => rfl)]

theorem ping_enc (v : Ping) : pingC.enc v = WireSpec.ping v := by simp [pingC, WireSpec.ping, u64_enc]
theorem feeFilter_enc (v : FeeFilter) : feeFilterC.enc v = WireSpec.feeFilter v := by
  simp [feeFilterC, WireSpec.feeFilter, u64_enc]
theorem sendCmpct_enc (v : SendCmpct) : sendCmpctC.enc v = WireSpec.sendCmpct v := by
  simp [sendCmpctC, WireSpec.sendCmpct, u64_enc, u8_enc]

theorem nodeAddr_enc (v : NodeAddr) : nodeAddrC.enc v = WireSpec.nodeAddr v := by
  simp [nodeAddrC, WireSpec.nodeAddr, u64_enc, u16be_enc]

theorem nodeAddrEx_enc (v : NodeAddrEx) : nodeAddrExC.enc v = WireSpec.nodeAddrEx v := by
  simp [nodeAddrExC, WireSpec.nodeAddrEx, u32_enc, nodeAddr_enc]

theorem assocOpt_enc (a : Bytes) :
    assocOpt.enc a = if a = [] then [] else WireSpec.byte a.length :: a := by
  cases a with
  | nil => rfl
  | cons x xs => simp [assocOpt, natToLEn, WireSpec.byte]

theorem boolByte_enc (b : Bool) : boolByte.enc b = [if b then 1 else 0] := rfl

theorem version_enc (v : Version) (h : versionC.wf v) : versionC.enc v = WireSpec.version v := by
  obtain ⟨_, _, ht, _, _, _, _, hh, _, _⟩ := h
  simp [versionC, WireSpec.version, u32_enc, u64_enc, i64_enc _ ht, i32_enc _ hh, nodeAddr_enc, varStr_enc,
    boolByte_enc, assocOpt_enc]

theorem addr_enc (v : Addr) : addrC.enc v = WireSpec.addr v := by
  simp [addrC, WireSpec.addr, listMax_enc _ nodeAddrExC WireSpec.nodeAddrEx v.addrs (fun a _ => nodeAddrEx_enc a)]

theorem headers_enc (v : Headers) : headersC.enc v = WireSpec.headers v := by
  have e := listPush_enc (blockHeaderC ⊗ skipByte) (fun x => WireSpec.blockHeader x.1 ++ [0])
    (v.headers.map fun x => (x, ())) (fun a _ => by simp [blockHeader_enc, skipByte])
  simp only [headersC, enc_iso, e, WireSpec.headers, WireSpec.vector, List.length_map, List.flatMap_map]

theorem block_enc (v : Block) (h : blockC.wf v) : blockC.enc v = WireSpec.block v := by
  obtain ⟨_, ht⟩ := h
  have e := listCap_enc txC WireSpec.tx v.txns (fun a ha => tx_enc a (lenPrefixed_wf_all ht a ha))
  simp [blockC, WireSpec.block, blockHeader_enc, e]

theorem merkleBlock_enc (v : MerkleBlock) : merkleBlockC.enc v = WireSpec.merkleBlock v := by
  simp [merkleBlockC, WireSpec.merkleBlock, blockHeader_enc, u32_enc, varBytes_enc,
    listCap_enc hash32 id v.hashes (fun _ _ => rfl)]

theorem filterLoad_enc (v : FilterLoad) : filterLoadC.enc v = WireSpec.filterLoad v := by
  simp [filterLoadC, WireSpec.filterLoad, varBytes_enc, u32_enc, u8_enc]

theorem filterAdd_enc (v : FilterAdd) : filterAddC.enc v = WireSpec.filterAdd v := by
  simp [filterAddC, WireSpec.filterAdd, varBytes_enc]

theorem reject_enc (v : Reject) : rejectC.enc v = WireSpec.reject v := by
  simp [rejectC, WireSpec.reject, varStr_enc, u8_enc]

theorem protoconf_enc (v : Protoconf) (h : protoconfC.wf v) : protoconfC.enc v = WireSpec.protoconf v := by
  obtain ⟨_, _, hp⟩ := h
  cases v with
  | mk ver mx pol =>
    simp only [protoconfC, enc_iso, enc_dpair, enc_pair, varint_enc, u32_enc, WireSpec.protoconf]
    simp only at hp
    by_cases hv : ver > 1
    · simp only [optionC, hv, decide_true, if_true] at hp ⊢
      obtain ⟨s, hs, _⟩ := optWf_some hp
      have hs : pol = some s := hs
      subst hs
      simp [inj, varStr_enc]
    · simp only [optionC, hv, decide_false, Bool.false_eq_true, if_false] at hp ⊢
      have hp : pol = none := hp
      subst hp
      simp

theorem authch_enc (v : Authch) (h : authchC.wf v) : authchC.enc v = WireSpec.authch v := by
  simp [authchC, WireSpec.authch, i32_enc _ h.1, u32_enc]

theorem assocAlways_enc (a : Bytes) : assocAlways.enc a = WireSpec.assocId a := by
  simp [assocAlways, natToLEn, WireSpec.assocId, WireSpec.byte]

theorem policyOpt_enc (a : Bytes) :
    policyOpt.enc a = if a = [] then [] else WireSpec.varBytes a := by
  cases a with
  | nil => rfl
  | cons x xs => simp [policyOpt, varint_enc, WireSpec.varBytes]

theorem createstrm_enc (v : Createstrm) : createstrmC.enc v = WireSpec.createstrm v := by
  simp [createstrmC, WireSpec.createstrm, assocAlways_enc, u8_enc, policyOpt_enc]

theorem streamack_enc (v : Streamack) : streamackC.enc v = WireSpec.streamack v := by
  simp [streamackC, WireSpec.streamack, assocAlways_enc, u8_enc]

theorem prefilled_enc (v : PrefilledTx) (h : prefilledC.wf v) : prefilledC.enc v = WireSpec.prefilled v := by
  simp [prefilledC, WireSpec.prefilled, varint_enc, tx_enc _ h.2]

theorem cmpctblock_enc (v : Cmpctblock) (h : cmpctblockC.wf v) : cmpctblockC.enc v = WireSpec.cmpctblock v := by
  obtain ⟨_, _, _, hp⟩ := h
  have e1 := listTry_enc (bytesN SHORT_TX_ID_LEN) id v.shortids (fun _ _ => rfl)
  have e2 := listTry_enc prefilledC WireSpec.prefilled v.prefilledtxn
    (fun a ha => prefilled_enc a (listTry_wf_all hp a ha))
  simp [cmpctblockC, WireSpec.cmpctblock, blockHeader_enc, u64_enc, e1, e2]

theorem getblocktxn_enc (v : Getblocktxn) : getblocktxnC.enc v = WireSpec.getblocktxn v := by
  simp [getblocktxnC, WireSpec.getblocktxn,
    listTry_enc varint WireSpec.compactSize v.indexes (fun a _ => varint_enc a)]

theorem blocktxn_enc (v : Blocktxn) (h : blocktxnC.wf v) : blocktxnC.enc v = WireSpec.blocktxn v := by
  obtain ⟨_, ht⟩ := h
  have e := listTry_enc txC WireSpec.tx v.transactions (fun a ha => tx_enc a (listTry_wf_all ht a ha))
  simp [blocktxnC, WireSpec.blocktxn, e]

theorem bip155_enc (p : Nat × Bytes) (h : bip155C.wf p) :
    bip155C.enc p = [WireSpec.byte p.1] ++ WireSpec.varBytes p.2 := by
  obtain ⟨id, a⟩ := p
  obtain ⟨_, h2⟩ := h
  simp only [bip155C, enc_dpair, u8_enc] at h2 ⊢
  by_cases hid : 1 ≤ id ∧ id ≤ 6
  · simp only [hid, and_self, if_true] at h2 ⊢
    have hw : (constC varint (bip155Len id) "BadData" ⊗ bytesN (bip155Len id)).wf ((), a) := h2
    have hl : a.length = bip155Len id := hw.2
    simp [inj, constC, varint_enc, WireSpec.varBytes, hl]
  · simp only [hid, if_false] at h2
    exact h2.elim

theorem nodeAddrExV2_enc (v : NodeAddrExV2) (h : nodeAddrExV2C.wf v) :
    nodeAddrExV2C.enc v = WireSpec.nodeAddrExV2 v := by
  obtain ⟨_, _, hb, _⟩ := h
  have e := bip155_enc (v.networkId, v.addr) hb
  simp only at e
  simp [nodeAddrExV2C, WireSpec.nodeAddrExV2, u32_enc, varint_enc, e, u16be_enc]

theorem addrV2_enc (v : AddrV2) (h : addrV2C.wf v) : addrV2C.enc v = WireSpec.addrV2 v := by
  have e := listMax_enc MAX_ADDR_COUNT nodeAddrExV2C WireSpec.nodeAddrExV2 v.addrs
    (fun a ha => nodeAddrExV2_enc a (lenPrefixed_wf_all h a ha))
  simp [addrV2C, WireSpec.addrV2, e]

end CG.Model.Wire

import CG.Proofs.WireCodec
import CG.Model.Wire.Messages
/-!
Every payload codec of `CG.Model.Wire.Messages` is lawful: a term built from the combinator laws,
mirroring the combinator expression that defines the codec.
-/
namespace CG.Model.Wire
open CG

theorem hash32_lawful : Lawful hash32 := bytesN_lawful 32

theorem outPointC_lawful : Lawful outPointC :=
  iso_lawful (pair_lawful hash32_lawful u32_lawful) (fun _ => rfl) (fun _ _ => rfl)

theorem txInC_lawful : Lawful txInC :=
  iso_lawful (pair_lawful outPointC_lawful (pair_lawful varBytes_lawful u32_lawful))
    (fun _ => rfl) (fun _ _ => rfl)

theorem txOutC_lawful : Lawful txOutC :=
  iso_lawful (pair_lawful i64_lawful varBytes_lawful) (fun _ => rfl) (fun _ _ => rfl)

theorem txC_lawful : Lawful txC :=
  iso_lawful
    (pair_lawful u32_lawful (pair_lawful (listCap_lawful txInC_lawful)
      (pair_lawful (listCap_lawful txOutC_lawful) u32_lawful)))
    (fun _ => rfl) (fun _ _ => rfl)

theorem blockHeaderC_lawful : Lawful blockHeaderC :=
  iso_lawful
    (pair_lawful u32_lawful (pair_lawful hash32_lawful (pair_lawful hash32_lawful
      (pair_lawful u32_lawful (pair_lawful u32_lawful u32_lawful)))))
    (fun _ => rfl) (fun _ _ => rfl)

theorem invVectC_lawful : Lawful invVectC :=
  iso_lawful (pair_lawful u32_lawful hash32_lawful) (fun _ => rfl) (fun _ _ => rfl)

theorem invC_lawful : Lawful invC :=
  iso_lawful (listMax_lawful invVectC_lawful _) (fun _ => rfl) (fun _ _ => rfl)

theorem blockLocatorC_lawful : Lawful blockLocatorC :=
  iso_lawful (pair_lawful u32_lawful (pair_lawful (listPush_lawful hash32_lawful) hash32_lawful))
    (fun _ => rfl) (fun _ _ => rfl)

theorem pingC_lawful : Lawful pingC := iso_lawful u64_lawful (fun _ => rfl) (fun _ _ => rfl)
theorem feeFilterC_lawful : Lawful feeFilterC := iso_lawful u64_lawful (fun _ => rfl) (fun _ _ => rfl)
theorem sendCmpctC_lawful : Lawful sendCmpctC :=
  iso_lawful (pair_lawful u8_lawful u64_lawful) (fun _ => rfl) (fun _ _ => rfl)

theorem nodeAddrC_lawful : Lawful nodeAddrC :=
  iso_lawful (pair_lawful u64_lawful (pair_lawful (bytesN_lawful 16) u16be_lawful))
    (fun _ => rfl) (fun _ _ => rfl)

theorem nodeAddrExC_lawful : Lawful nodeAddrExC :=
  iso_lawful (pair_lawful u32_lawful nodeAddrC_lawful) (fun _ => rfl) (fun _ _ => rfl)

theorem versionC_lawfulEnd : LawfulEnd versionC :=
  iso_lawfulEnd
    (pair_lawfulEnd u32_lawful (pair_lawfulEnd u64_lawful (pair_lawfulEnd i64_lawful
      (pair_lawfulEnd nodeAddrC_lawful (pair_lawfulEnd nodeAddrC_lawful (pair_lawfulEnd u64_lawful
        (pair_lawfulEnd varStr_lawful (pair_lawfulEnd i32_lawful
          (pair_lawfulEnd boolByte_lawful assocOpt_lawfulEnd)))))))))
    (fun _ => rfl) (fun _ _ => rfl)

theorem addrC_lawful : Lawful addrC :=
  iso_lawful (listMax_lawful nodeAddrExC_lawful _) (fun _ => rfl) (fun _ _ => rfl)

theorem headersC_lawful : Lawful headersC :=
  iso_lawful (listPush_lawful (pair_lawful blockHeaderC_lawful skipByte_lawful))
    (fun b => by
      cases b with
      | mk hs =>
        simp only [List.map_map]
        congr 1
        exact List.map_id' hs)
    (fun a _ => by
      simp only [List.map_map]
      exact List.map_id' a)

theorem blockC_lawful : Lawful blockC :=
  iso_lawful (pair_lawful blockHeaderC_lawful (listCap_lawful txC_lawful)) (fun _ => rfl) (fun _ _ => rfl)

theorem merkleBlockC_lawful : Lawful merkleBlockC :=
  iso_lawful
    (pair_lawful blockHeaderC_lawful (pair_lawful u32_lawful
      (pair_lawful (listCap_lawful hash32_lawful) varBytes_lawful)))
    (fun _ => rfl) (fun _ _ => rfl)

theorem filterLoadC_lawful : Lawful filterLoadC :=
  iso_lawful (pair_lawful varBytes_lawful (pair_lawful u32_lawful (pair_lawful u32_lawful u8_lawful)))
    (fun _ => rfl) (fun _ _ => rfl)

theorem filterAddC_lawful : Lawful filterAddC := iso_lawful varBytes_lawful (fun _ => rfl) (fun _ _ => rfl)

theorem rejectC_lawful : Lawful rejectC :=
  iso_lawful
    (dpair_lawful varStr_lawful fun _ =>
      pair_lawful u8_lawful (pair_lawful varStr_lawful (vecBytes_lawful _)))
    (fun _ => rfl) (fun _ _ => rfl)

theorem protoconfC_lawful : Lawful protoconfC :=
  iso_lawful
    (dpair_lawful varint_lawful fun _ => pair_lawful u32_lawful (optionC_lawful varStr_lawful _ _))
    (fun _ => rfl) (fun _ _ => rfl)

theorem authchC_lawful : Lawful authchC :=
  iso_lawful (pair_lawful i32_lawful (dpair_lawful u32_lawful vecBytes_lawful))
    (fun _ => rfl) (fun _ _ => rfl)

theorem createstrmC_lawfulEnd : LawfulEnd createstrmC :=
  iso_lawfulEnd (pair_lawfulEnd assocAlways_lawful (pair_lawfulEnd u8_lawful policyOpt_lawfulEnd))
    (fun _ => rfl) (fun _ _ => rfl)

theorem streamackC_lawful : Lawful streamackC :=
  iso_lawful (pair_lawful assocAlways_lawful u8_lawful) (fun _ => rfl) (fun _ _ => rfl)

theorem prefilledC_lawful : Lawful prefilledC :=
  iso_lawful (pair_lawful varint_lawful txC_lawful) (fun _ => rfl) (fun _ _ => rfl)

theorem cmpctblockC_lawful : Lawful cmpctblockC :=
  iso_lawful
    (pair_lawful blockHeaderC_lawful (pair_lawful u64_lawful
      (pair_lawful (listTry_lawful (bytesN_lawful _)) (listTry_lawful prefilledC_lawful))))
    (fun _ => rfl) (fun _ _ => rfl)

theorem getblocktxnC_lawful : Lawful getblocktxnC :=
  iso_lawful (pair_lawful hash32_lawful (listTry_lawful varint_lawful)) (fun _ => rfl) (fun _ _ => rfl)

theorem blocktxnC_lawful : Lawful blocktxnC :=
  iso_lawful (pair_lawful hash32_lawful (listTry_lawful txC_lawful)) (fun _ => rfl) (fun _ _ => rfl)

theorem bip155C_lawful : Lawful bip155C :=
  dpair_lawful u8_lawful fun id => by
    by_cases h : 1 ≤ id ∧ id ≤ 6
    · simp only [h, and_self, if_true]
      exact inj_lawful (pair_lawful (constC_lawful varint_lawful _ _) (bytesN_lawful _))
        (fun b a e => by
          injection e with e
          subst e
          rfl)
        (fun a _ => rfl)
    · simp only [h, if_false]
      exact failAfter_lawful _ _

theorem nodeAddrExV2C_lawful : Lawful nodeAddrExV2C :=
  iso_lawful
    (pair_lawful u32_lawful (pair_lawful varint_lawful (pair_lawful bip155C_lawful u16be_lawful)))
    (fun _ => rfl) (fun _ _ => rfl)

theorem addrV2C_lawful : Lawful addrV2C :=
  iso_lawful (listMax_lawful nodeAddrExV2C_lawful _) (fun _ => rfl) (fun _ _ => rfl)

end CG.Model.Wire

import CG.Model.Wire.Codec
/-!
Laws of the wire codec combinators, proved once.

`Lawful c`    — `c` can be followed by anything:  `dec (enc a ++ r) = ok (a, r)`.
`LawfulEnd c` — `c` is only used as the last field of a payload: `dec (enc a) = ok (a, [])`
                (Version's optional association id, Createstrm's optional policy).
Both carry `size_eq`, `dec_wf` (whatever decodes is in range — hence decode → encode → decode is a
fixpoint) and `dec_suffix` (the decoder consumes a prefix).
-/
namespace CG.Model.Wire
open CG

structure Lawful {α} (c : Codec α) : Prop where
  dec_enc : ∀ a r, c.wf a → c.dec (c.enc a ++ r) = .ok (a, r)
  size_eq : ∀ a, c.wf a → (c.enc a).length = c.size a
  dec_wf : ∀ b a r, c.dec b = .ok (a, r) → c.wf a
  dec_suffix : ∀ b a r, c.dec b = .ok (a, r) → ∃ p, b = p ++ r

structure LawfulEnd {α} (c : Codec α) : Prop where
  dec_enc : ∀ a, c.wf a → c.dec (c.enc a) = .ok (a, [])
  size_eq : ∀ a, c.wf a → (c.enc a).length = c.size a
  dec_wf : ∀ b a r, c.dec b = .ok (a, r) → c.wf a
  dec_suffix : ∀ b a r, c.dec b = .ok (a, r) → ∃ p, b = p ++ r

theorem Lawful.toEnd {α} {c : Codec α} (h : Lawful c) : LawfulEnd c where
  dec_enc a hw := by simpa using h.dec_enc a [] hw
  size_eq := h.size_eq
  dec_wf := h.dec_wf
  dec_suffix := h.dec_suffix

/-- decode → encode → decode is a fixpoint, and the re-encoding is stable -/
theorem LawfulEnd.fixpoint {α} {c : Codec α} (h : LawfulEnd c) {b a r} (hd : c.dec b = .ok (a, r)) :
    c.dec (c.enc a) = .ok (a, []) := h.dec_enc a (h.dec_wf b a r hd)

theorem Lawful.fixpoint {α} {c : Codec α} (h : Lawful c) {b a r} (hd : c.dec b = .ok (a, r))
    (r' : Bytes) : c.dec (c.enc a ++ r') = .ok (a, r') := h.dec_enc a r' (h.dec_wf b a r hd)

/-- a lawful encoder is injective on in-range values -/
theorem LawfulEnd.enc_inj {α} {c : Codec α} (h : LawfulEnd c) {a a' : α} (ha : c.wf a) (ha' : c.wf a')
    (e : c.enc a = c.enc a') : a = a' := by
  have h1 := h.dec_enc a ha
  rw [e, h.dec_enc a' ha'] at h1
  injection h1 with h1
  injection h1 with h1
  exact h1.symm

/-! ## integers -/

theorem takeExact_none_or {n : Nat} {b : Bytes} :
    takeExact n b = none ∨ ∃ x r, takeExact n b = some (x, r) := by
  cases h : takeExact n b with
  | none => exact .inl rfl
  | some p => exact .inr ⟨p.1, p.2, rfl⟩

theorem uLE_lawful (n : Nat) : Lawful (uLE n) where
  dec_enc a r h := by
    have := takeExact_append (natToLEn n a) r
    simp only [natToLEn_length] at this
    simp only [uLE, this, leToNat_natToLEn]
    rw [Nat.mod_eq_of_lt h]
  size_eq a _ := by simp [uLE]
  dec_wf b a r h := by
    simp only [uLE] at h
    split at h
    · rename_i x r' hx
      obtain ⟨_, hl⟩ := takeExact_some hx
      injection h with h; injection h with h1 h2
      subst h1
      have := leToNat_lt x
      rw [hl] at this
      exact this
    · simp at h
  dec_suffix b a r h := by
    simp only [uLE] at h
    split at h
    · rename_i x r' hx
      obtain ⟨hb, _⟩ := takeExact_some hx
      injection h with h; injection h with h1 h2
      subst h2
      exact ⟨x, hb⟩
    · simp at h

theorem u8_lawful : Lawful u8 := uLE_lawful 1
theorem u16_lawful : Lawful u16 := uLE_lawful 2
theorem u32_lawful : Lawful u32 := uLE_lawful 4
theorem u64_lawful : Lawful u64 := uLE_lawful 8

theorem uBE_lawful (n : Nat) : Lawful (uBE n) where
  dec_enc a r h := by
    have := takeExact_append (natToLEn n a).reverse r
    simp only [List.length_reverse, natToLEn_length] at this
    simp only [uBE, this, List.reverse_reverse, leToNat_natToLEn]
    rw [Nat.mod_eq_of_lt h]
  size_eq a _ := by simp [uBE]
  dec_wf b a r h := by
    simp only [uBE] at h
    split at h
    · rename_i x r' hx
      obtain ⟨_, hl⟩ := takeExact_some hx
      injection h with h; injection h with h1 h2
      subst h1
      have := leToNat_lt x.reverse
      rw [List.length_reverse, hl] at this
      exact this
    · simp at h
  dec_suffix b a r h := by
    simp only [uBE] at h
    split at h
    · rename_i x r' hx
      obtain ⟨hb, _⟩ := takeExact_some hx
      injection h with h; injection h with h1 h2
      subst h2
      exact ⟨x, hb⟩
    · simp at h

theorem u16be_lawful : Lawful u16be := uBE_lawful 2

theorem toSigned_ofSigned (M : Nat) (x : Int) (h1 : -(M : Int) ≤ 2 * x) (h2 : 2 * x < (M : Int)) :
    toSigned M (ofSigned M x) = x ∧ ofSigned M x < M := by
  have hM : (0 : Int) < M := by omega
  unfold toSigned ofSigned
  by_cases hx : 0 ≤ x
  · have e : x % (M : Int) = x := Int.emod_eq_of_lt hx (by omega)
    rw [e]
    constructor
    · split <;> omega
    · omega
  · have e : x % (M : Int) = x + M := by
      rw [← Int.add_emod_right x M]
      exact Int.emod_eq_of_lt (by omega) (by omega)
    rw [e]
    constructor
    · split <;> omega
    · omega

theorem toSigned_range (M u : Nat) (hu : u < M) :
    -(M : Int) ≤ 2 * toSigned M u ∧ 2 * toSigned M u < (M : Int) := by
  unfold toSigned
  split <;> omega

theorem iLE_lawful (n : Nat) : Lawful (iLE n) where
  dec_enc a r h := by
    obtain ⟨e1, e2⟩ := toSigned_ofSigned (256 ^ n) a h.1 h.2
    have e : (uLE n).dec (natToLEn n (ofSigned (256 ^ n) a) ++ r) = .ok (ofSigned (256 ^ n) a, r) :=
      (uLE_lawful n).dec_enc _ r e2
    simp only [iLE, e, bind_ok, e1]
  size_eq a _ := by simp [iLE]
  dec_wf b a r h := by
    simp only [iLE, bind_eq_ok] at h
    obtain ⟨⟨u, r'⟩, hu, h⟩ := h
    injection h with h; injection h with h1 h2
    subst h1
    exact toSigned_range _ _ ((uLE_lawful n).dec_wf _ _ _ hu)
  dec_suffix b a r h := by
    simp only [iLE, bind_eq_ok] at h
    obtain ⟨⟨u, r'⟩, hu, h⟩ := h
    injection h with h; injection h with h1 h2
    subst h2
    exact (uLE_lawful n).dec_suffix _ _ _ hu

theorem i32_lawful : Lawful i32 := iLE_lawful 4
theorem i64_lawful : Lawful i64 := iLE_lawful 8

theorem u8_dec_cons (x : UInt8) (r : Bytes) : u8.dec (x :: r) = .ok (x.toNat, r) := by
  simp [u8, uLE, takeExact, leToNat]

theorem u8_dec_nil : u8.dec [] = .err "IoError" := by
  simp [u8, uLE, takeExact]

theorem boolByte_lawful : Lawful boolByte where
  dec_enc a r _ := by
    cases a <;> simp [boolByte, u8_dec_cons]
  size_eq a _ := by simp [boolByte]
  dec_wf _ _ _ _ := trivial
  dec_suffix b a r h := by
    simp only [boolByte, bind_eq_ok] at h
    obtain ⟨⟨u, r'⟩, hu, h⟩ := h
    injection h with h; injection h with h1 h2
    subst h2
    exact u8_lawful.dec_suffix _ _ _ hu

theorem varint_lawful : Lawful varint where
  dec_enc n r h := by
    have h : n < 18446744073709551616 := h
    simp only [varint]
    split
    · have e := u8_lawful.dec_enc n r (show n < 256 ^ 1 by omega)
      simp only [u8, uLE] at e
      simp only [u8, uLE, e, bind_ok]
      rw [if_neg (by omega), if_neg (by omega), if_neg (by omega)]
    · split
      · simp only [List.cons_append, u8_dec_cons, bind_ok]
        rw [if_neg (by decide), if_neg (by decide), if_pos (by decide)]
        exact u16_lawful.dec_enc n r (show n < 256 ^ 2 by omega)
      · split
        · simp only [List.cons_append, u8_dec_cons, bind_ok]
          rw [if_neg (by decide), if_pos (by decide)]
          exact u32_lawful.dec_enc n r (show n < 256 ^ 4 by omega)
        · simp only [List.cons_append, u8_dec_cons, bind_ok]
          rw [if_pos (by decide)]
          exact u64_lawful.dec_enc n r (show n < 256 ^ 8 by omega)
  size_eq n _ := by
    simp only [varint]
    split
    · simp
    · split
      · simp
      · split <;> simp
  dec_wf b n r h := by
    simp only [varint, bind_eq_ok] at h
    obtain ⟨⟨n0, r0⟩, h0, h⟩ := h
    have w0 : n0 < 256 ^ 1 := u8_lawful.dec_wf _ _ _ h0
    show n < 2 ^ 64
    split at h
    · have : n < 256 ^ 8 := u64_lawful.dec_wf _ _ _ h
      omega
    · split at h
      · have : n < 256 ^ 4 := u32_lawful.dec_wf _ _ _ h
        omega
      · split at h
        · have : n < 256 ^ 2 := u16_lawful.dec_wf _ _ _ h
          omega
        · injection h with h; injection h with h1 h2
          omega
  dec_suffix b n r h := by
    simp only [varint, bind_eq_ok] at h
    obtain ⟨⟨n0, r0⟩, h0, h⟩ := h
    obtain ⟨p0, e0⟩ := u8_lawful.dec_suffix _ _ _ h0
    have step : ∀ {c : Codec Nat}, Lawful c → c.dec r0 = .ok (n, r) → ∃ p, b = p ++ r := by
      intro c hc hd
      obtain ⟨p1, e1⟩ := hc.dec_suffix _ _ _ hd
      exact ⟨p0 ++ p1, by rw [e0, e1, List.append_assoc]⟩
    split at h
    · exact step u64_lawful h
    · split at h
      · exact step u32_lawful h
      · split at h
        · exact step u16_lawful h
        · injection h with h; injection h with h1 h2
          subst h2
          exact ⟨p0, e0⟩

/-- the size class boundaries: 1, 3, 5 or 9 bytes -/
theorem varint_size_classes (n : Nat) :
    varint.size n = if n ≤ 252 then 1 else if n ≤ 65535 then 3 else if n ≤ 4294967295 then 5 else 9 := rfl

/-! ## bytes -/

theorem bytesN_lawful (n : Nat) : Lawful (bytesN n) where
  dec_enc a r h := by
    have h : a.length = n := h
    have := takeExact_append a r
    rw [h] at this
    simp [bytesN, this]
  size_eq a h := h
  dec_wf b a r h := by
    simp only [bytesN] at h
    split at h
    · rename_i x r' hx
      obtain ⟨_, hl⟩ := takeExact_some hx
      injection h with h; injection h with h1 h2
      subst h1
      exact hl
    · simp at h
  dec_suffix b a r h := by
    simp only [bytesN] at h
    split at h
    · rename_i x r' hx
      obtain ⟨hb, _⟩ := takeExact_some hx
      injection h with h; injection h with h1 h2
      subst h2
      exact ⟨x, hb⟩
    · simp at h

theorem vecBytes_lawful (n : Nat) : Lawful (vecBytes n) where
  dec_enc := (bytesN_lawful n).dec_enc
  size_eq _ _ := rfl
  dec_wf := (bytesN_lawful n).dec_wf
  dec_suffix := (bytesN_lawful n).dec_suffix

theorem skipByte_lawful : Lawful skipByte where
  dec_enc a r _ := by simp [skipByte]
  size_eq a _ := by simp [skipByte]
  dec_wf _ _ _ _ := trivial
  dec_suffix b a r h := by
    simp only [skipByte] at h
    split at h
    · injection h with h; injection h with h1 h2
      subst h2
      exact ⟨[], rfl⟩
    · rename_i x r'
      injection h with h; injection h with h1 h2
      subst h2
      exact ⟨[x], rfl⟩

/-! ## sequencing -/

theorem dpair_lawful {α β} {ca : Codec α} {cb : α → Codec β} (ha : Lawful ca)
    (hb : ∀ a, Lawful (cb a)) : Lawful (dpair ca cb) where
  dec_enc p r h := by
    simp only [dpair, List.append_assoc, ha.dec_enc p.1 _ h.1, bind_ok, (hb p.1).dec_enc p.2 r h.2]
  size_eq p h := by
    simp only [dpair, List.length_append, ha.size_eq p.1 h.1, (hb p.1).size_eq p.2 h.2]
  dec_wf b p r h := by
    simp only [dpair, bind_eq_ok] at h
    obtain ⟨⟨a, r1⟩, h1, ⟨x, r2⟩, h2, h⟩ := h
    injection h with h; injection h with e1 e2
    subst e1
    exact ⟨ha.dec_wf _ _ _ h1, (hb a).dec_wf _ _ _ h2⟩
  dec_suffix b p r h := by
    simp only [dpair, bind_eq_ok] at h
    obtain ⟨⟨a, r1⟩, h1, ⟨x, r2⟩, h2, h⟩ := h
    injection h with h; injection h with e1 e2
    subst e2
    dsimp only at h2 ⊢
    obtain ⟨p1, q1⟩ := ha.dec_suffix _ _ _ h1
    obtain ⟨p2, q2⟩ := (hb a).dec_suffix _ _ _ h2
    exact ⟨p1 ++ p2, by rw [q1, q2, List.append_assoc]⟩

/-- a composable prefix followed by an end-of-payload codec is an end-of-payload codec -/
theorem dpair_lawfulEnd {α β} {ca : Codec α} {cb : α → Codec β} (ha : Lawful ca)
    (hb : ∀ a, LawfulEnd (cb a)) : LawfulEnd (dpair ca cb) where
  dec_enc p h := by
    simp only [dpair, ha.dec_enc p.1 _ h.1, bind_ok, (hb p.1).dec_enc p.2 h.2]
  size_eq p h := by
    simp only [dpair, List.length_append, ha.size_eq p.1 h.1, (hb p.1).size_eq p.2 h.2]
  dec_wf b p r h := by
    simp only [dpair, bind_eq_ok] at h
    obtain ⟨⟨a, r1⟩, h1, ⟨x, r2⟩, h2, h⟩ := h
    injection h with h; injection h with e1 e2
    subst e1
    exact ⟨ha.dec_wf _ _ _ h1, (hb a).dec_wf _ _ _ h2⟩
  dec_suffix b p r h := by
    simp only [dpair, bind_eq_ok] at h
    obtain ⟨⟨a, r1⟩, h1, ⟨x, r2⟩, h2, h⟩ := h
    injection h with h; injection h with e1 e2
    subst e2
    dsimp only at h2 ⊢
    obtain ⟨p1, q1⟩ := ha.dec_suffix _ _ _ h1
    obtain ⟨p2, q2⟩ := (hb a).dec_suffix _ _ _ h2
    exact ⟨p1 ++ p2, by rw [q1, q2, List.append_assoc]⟩

theorem pair_lawful {α β} {ca : Codec α} {cb : Codec β} (ha : Lawful ca) (hb : Lawful cb) :
    Lawful (ca ⊗ cb) := dpair_lawful ha (fun _ => hb)

theorem pair_lawfulEnd {α β} {ca : Codec α} {cb : Codec β} (ha : Lawful ca) (hb : LawfulEnd cb) :
    LawfulEnd (ca ⊗ cb) := dpair_lawfulEnd ha (fun _ => hb)

theorem optWf_some {α} {p : α → Prop} {o : Option α} (h : optWf p o) : ∃ a, o = some a ∧ p a := by
  cases o with
  | none => exact h.elim
  | some a => exact ⟨a, rfl, h⟩

theorem inj_lawful {α β} {c : Codec α} {f : α → β} {g : β → Option α} {d : α} (hc : Lawful c)
    (h1 : ∀ b a, g b = some a → f a = b) (h2 : ∀ a, c.wf a → g (f a) = some a) :
    Lawful (inj c f g d) where
  dec_enc b r h := by
    obtain ⟨a, e, hw⟩ := optWf_some h
    simp only [inj, e, Option.getD_some, hc.dec_enc a r hw, bind_ok, h1 b a e]
  size_eq b h := by
    obtain ⟨a, e, hw⟩ := optWf_some h
    simp only [inj, e, Option.getD_some, hc.size_eq a hw]
  dec_wf x b r h := by
    simp only [inj, bind_eq_ok] at h
    obtain ⟨⟨a, r1⟩, hd, h⟩ := h
    injection h with h; injection h with e1 e2
    subst e1
    have hw := hc.dec_wf _ _ _ hd
    show optWf c.wf (g (f a))
    rw [h2 a hw]
    exact hw
  dec_suffix x b r h := by
    simp only [inj, bind_eq_ok] at h
    obtain ⟨⟨a, r1⟩, hd, h⟩ := h
    injection h with h; injection h with e1 e2
    subst e2
    exact hc.dec_suffix _ _ _ hd

theorem inj_lawfulEnd {α β} {c : Codec α} {f : α → β} {g : β → Option α} {d : α} (hc : LawfulEnd c)
    (h1 : ∀ b a, g b = some a → f a = b) (h2 : ∀ a, c.wf a → g (f a) = some a) :
    LawfulEnd (inj c f g d) where
  dec_enc b h := by
    obtain ⟨a, e, hw⟩ := optWf_some h
    simp only [inj, e, Option.getD_some, hc.dec_enc a hw, bind_ok, h1 b a e]
  size_eq b h := by
    obtain ⟨a, e, hw⟩ := optWf_some h
    simp only [inj, e, Option.getD_some, hc.size_eq a hw]
  dec_wf x b r h := by
    simp only [inj, bind_eq_ok] at h
    obtain ⟨⟨a, r1⟩, hd, h⟩ := h
    injection h with h; injection h with e1 e2
    subst e1
    have hw := hc.dec_wf _ _ _ hd
    show optWf c.wf (g (f a))
    rw [h2 a hw]
    exact hw
  dec_suffix x b r h := by
    simp only [inj, bind_eq_ok] at h
    obtain ⟨⟨a, r1⟩, hd, h⟩ := h
    injection h with h; injection h with e1 e2
    subst e2
    exact hc.dec_suffix _ _ _ hd

theorem iso_lawful {α β} {c : Codec α} {f : α → β} {g : β → α} (hc : Lawful c)
    (h1 : ∀ b, f (g b) = b) (h2 : ∀ a, c.wf a → g (f a) = a) : Lawful (iso c f g) where
  dec_enc b r h := by
    simp only [iso, hc.dec_enc (g b) r h, bind_ok, h1]
  size_eq b h := hc.size_eq (g b) h
  dec_wf x b r h := by
    simp only [iso, bind_eq_ok] at h
    obtain ⟨⟨a, r1⟩, hd, h⟩ := h
    injection h with h; injection h with e1 e2
    subst e1
    have hw := hc.dec_wf _ _ _ hd
    show c.wf (g (f a))
    rw [h2 a hw]
    exact hw
  dec_suffix x b r h := by
    simp only [iso, bind_eq_ok] at h
    obtain ⟨⟨a, r1⟩, hd, h⟩ := h
    injection h with h; injection h with e1 e2
    subst e2
    exact hc.dec_suffix _ _ _ hd

theorem iso_lawfulEnd {α β} {c : Codec α} {f : α → β} {g : β → α} (hc : LawfulEnd c)
    (h1 : ∀ b, f (g b) = b) (h2 : ∀ a, c.wf a → g (f a) = a) : LawfulEnd (iso c f g) where
  dec_enc b h := by
    simp only [iso, hc.dec_enc (g b) h, bind_ok, h1]
  size_eq b h := hc.size_eq (g b) h
  dec_wf x b r h := by
    simp only [iso, bind_eq_ok] at h
    obtain ⟨⟨a, r1⟩, hd, h⟩ := h
    injection h with h; injection h with e1 e2
    subst e1
    have hw := hc.dec_wf _ _ _ hd
    show c.wf (g (f a))
    rw [h2 a hw]
    exact hw
  dec_suffix x b r h := by
    simp only [iso, bind_eq_ok] at h
    obtain ⟨⟨a, r1⟩, hd, h⟩ := h
    injection h with h; injection h with e1 e2
    subst e2
    exact hc.dec_suffix _ _ _ hd

theorem refine_lawful {α} {c : Codec α} (hc : Lawful c) (p : α → Bool) (e : String) :
    Lawful (refine c p e) where
  dec_enc a r h := by
    simp only [refine, hc.dec_enc a r h.1, bind_ok, h.2, if_true]
  size_eq a h := hc.size_eq a h.1
  dec_wf b a r h := by
    simp only [refine, bind_eq_ok] at h
    obtain ⟨⟨a', r1⟩, hd, h⟩ := h
    split at h
    · rename_i hp
      injection h with h; injection h with e1 e2
      subst e1
      exact ⟨hc.dec_wf _ _ _ hd, hp⟩
    · simp at h
  dec_suffix b a r h := by
    simp only [refine, bind_eq_ok] at h
    obtain ⟨⟨a', r1⟩, hd, h⟩ := h
    split at h
    · injection h with h; injection h with e1 e2
      subst e2
      exact hc.dec_suffix _ _ _ hd
    · simp at h

theorem refine_lawfulEnd {α} {c : Codec α} (hc : LawfulEnd c) (p : α → Bool) (e : String) :
    LawfulEnd (refine c p e) where
  dec_enc a h := by
    simp only [refine, hc.dec_enc a h.1, bind_ok, h.2, if_true]
  size_eq a h := hc.size_eq a h.1
  dec_wf b a r h := by
    simp only [refine, bind_eq_ok] at h
    obtain ⟨⟨a', r1⟩, hd, h⟩ := h
    split at h
    · rename_i hp
      injection h with h; injection h with e1 e2
      subst e1
      exact ⟨hc.dec_wf _ _ _ hd, hp⟩
    · simp at h
  dec_suffix b a r h := by
    simp only [refine, bind_eq_ok] at h
    obtain ⟨⟨a', r1⟩, hd, h⟩ := h
    split at h
    · injection h with h; injection h with e1 e2
      subst e2
      exact hc.dec_suffix _ _ _ hd
    · simp at h

theorem validated_lawfulEnd {α} {c : Codec α} (hc : LawfulEnd c) (v : α → Outcome Unit) :
    LawfulEnd (validated c v) where
  dec_enc a h := by
    simp only [validated, hc.dec_enc a h.1, bind_ok, h.2]
  size_eq a h := hc.size_eq a h.1
  dec_wf b a r h := by
    simp only [validated, bind_eq_ok] at h
    obtain ⟨⟨a', r1⟩, hd, u, hv, h⟩ := h
    injection h with h; injection h with e1 e2
    subst e1
    exact ⟨hc.dec_wf _ _ _ hd, hv⟩
  dec_suffix b a r h := by
    simp only [validated, bind_eq_ok] at h
    obtain ⟨⟨a', r1⟩, hd, u, hv, h⟩ := h
    injection h with h; injection h with e1 e2
    subst e2
    exact hc.dec_suffix _ _ _ hd

theorem failAfter_lawful {α β} (c : Codec α) (e : String) : Lawful (failAfter c e : Codec β) where
  dec_enc _ _ h := h.elim
  size_eq _ h := h.elim
  dec_wf b a r h := by
    simp only [failAfter, bind_eq_ok] at h
    obtain ⟨_, _, h⟩ := h
    simp at h
  dec_suffix b a r h := by
    simp only [failAfter, bind_eq_ok] at h
    obtain ⟨_, _, h⟩ := h
    simp at h

theorem constC_lawful {c : Codec Nat} (hc : Lawful c) (k : Nat) (e : String) :
    Lawful (constC c k e) where
  dec_enc a r h := by
    simp only [constC, hc.dec_enc k r h, bind_ok, if_true]
  size_eq a h := hc.size_eq k h
  dec_wf b a r h := by
    simp only [constC, bind_eq_ok] at h
    obtain ⟨⟨n, r1⟩, hd, h⟩ := h
    split at h
    · rename_i hk
      have hk : n = k := hk
      subst hk
      exact hc.dec_wf _ _ _ hd
    · simp at h
  dec_suffix b a r h := by
    simp only [constC, bind_eq_ok] at h
    obtain ⟨⟨n, r1⟩, hd, h⟩ := h
    split at h
    · injection h with h; injection h with e1 e2
      subst e2
      exact hc.dec_suffix _ _ _ hd
    · simp at h

theorem optionC_lawful {α} {c : Codec α} (hc : Lawful c) (present : Bool) (d : α) :
    Lawful (optionC present c d) := by
  unfold optionC
  cases present with
  | true =>
    simp only [if_true]
    exact inj_lawful hc (fun b a h => by simpa using h.symm) (fun a _ => rfl)
  | false =>
    simp only [Bool.false_eq_true, if_false]
    exact {
      dec_enc := fun a r h => by
        have h : a = none := h
        subst h; rfl
      size_eq := fun a _ => rfl
      dec_wf := fun b a r h => by
        injection h with h; injection h with h1 h2
        exact h1.symm
      dec_suffix := fun b a r h => by
        injection h with h; injection h with h1 h2
        exact ⟨[], by simp [h2]⟩ }

/-! ## repetition -/

theorem decN_enc {α} {c : Codec α} (hc : Lawful c) (l : List α) (hw : ∀ a ∈ l, c.wf a) (r : Bytes) :
    decN c l.length ((l.map c.enc).flatten ++ r) = .ok (l, r) := by
  induction l with
  | nil => simp [decN]
  | cons a as ih =>
    simp only [List.map_cons, List.flatten_cons, List.append_assoc, List.length_cons, decN,
      hc.dec_enc a _ (hw a (by simp)), ih (fun x hx => hw x (by simp [hx]))]

theorem decN_ok {α} {c : Codec α} (hc : Lawful c) :
    ∀ (n : Nat) (b : Bytes) (l : List α) (r : Bytes), decN c n b = .ok (l, r) →
      l.length = n ∧ (∀ a ∈ l, c.wf a) ∧ ∃ p, b = p ++ r := by
  intro n
  induction n with
  | zero =>
    intro b l r h
    simp only [decN] at h
    injection h with h; injection h with h1 h2
    subst h1 h2
    exact ⟨rfl, by simp, [], rfl⟩
  | succ n ih =>
    intro b l r h
    simp only [decN] at h
    split at h
    · rename_i a r1 h1
      split at h
      · rename_i as r2 h2
        injection h with h; injection h with e1 e2
        subst e1 e2
        obtain ⟨hl, hw, p2, q2⟩ := ih _ _ _ h2
        obtain ⟨p1, q1⟩ := hc.dec_suffix _ _ _ h1
        refine ⟨by simp [hl], ?_, p1 ++ p2, by rw [q1, q2, List.append_assoc]⟩
        intro x hx
        rcases List.mem_cons.mp hx with rfl | hx
        · exact hc.dec_wf _ _ _ h1
        · exact hw x hx
      · simp at h
      · simp at h
    · simp at h
    · simp at h

theorem length_flatten_map {α} (f : α → Bytes) (g : α → Nat) (l : List α)
    (h : ∀ a ∈ l, (f a).length = g a) : ((l.map f).flatten).length = (l.map g).sum := by
  induction l with
  | nil => rfl
  | cons a as ih =>
    simp only [List.map_cons, List.flatten_cons, List.length_append, List.sum_cons,
      h a (by simp), ih (fun x hx => h x (by simp [hx]))]

theorem repeatN_lawful {α} {c : Codec α} (hc : Lawful c) (n : Nat) : Lawful (repeatN c n) where
  dec_enc l r h := by
    obtain ⟨hl, hw⟩ := h
    subst hl
    exact decN_enc hc l hw r
  size_eq l h := length_flatten_map _ _ l (fun a ha => hc.size_eq a (h.2 a ha))
  dec_wf b l r h := by
    obtain ⟨hl, hw, _⟩ := decN_ok hc n b l r h
    exact ⟨hl, hw⟩
  dec_suffix b l r h := (decN_ok hc n b l r h).2.2

theorem lenPrefixed_lawful {β} {cl : Codec Nat} {body : Nat → Codec β} {len : β → Nat} {d : β}
    (hl : Lawful cl) (hb : ∀ n, Lawful (body n)) (hlen : ∀ n b, (body n).wf b → len b = n) :
    Lawful (lenPrefixed cl body len d) :=
  inj_lawful (dpair_lawful hl hb)
    (fun b a h => by
      injection h with h
      subst h
      rfl)
    (fun a h => by
      obtain ⟨n, b⟩ := a
      have : len b = n := hlen n b h.2
      simp [this])

theorem varBytes_lawful : Lawful varBytes :=
  lenPrefixed_lawful varint_lawful vecBytes_lawful (fun _ _ h => h)

theorem u8Bytes_lawful : Lawful u8Bytes :=
  lenPrefixed_lawful u8_lawful vecBytes_lawful (fun _ _ h => h)

theorem listPush_lawful {α} {c : Codec α} (hc : Lawful c) : Lawful (listPush c) :=
  lenPrefixed_lawful varint_lawful (repeatN_lawful hc) (fun _ _ h => h.1)

theorem listCap_lawful {α} {c : Codec α} (hc : Lawful c) : Lawful (listCap c) := listPush_lawful hc

theorem listMax_lawful {α} {c : Codec α} (hc : Lawful c) (max : Nat) : Lawful (listMax max c) :=
  lenPrefixed_lawful (refine_lawful varint_lawful _ _) (repeatN_lawful hc) (fun _ _ h => h.1)

theorem varStr_lawful : Lawful varStr := refine_lawful varBytes_lawful _ _

theorem listTry_lawful {α} {c : Codec α} (hc : Lawful c) : Lawful (listTry c) where
  dec_enc l r h := by
    simp only [listTry, List.append_assoc, varint_lawful.dec_enc l.length _ h.1]
    exact decN_enc hc l h.2 r
  size_eq l h := by
    simp only [listTry, List.length_append, varint_lawful.size_eq l.length h.1,
      length_flatten_map _ _ l (fun a ha => hc.size_eq a (h.2 a ha))]
  dec_wf b l r h := by
    simp only [listTry] at h
    split at h
    · rename_i n r1 h1
      obtain ⟨hl, hw, _⟩ := decN_ok hc n r1 l r h
      have : n < 2 ^ 64 := varint_lawful.dec_wf _ _ _ h1
      exact ⟨by show l.length < 2 ^ 64; omega, hw⟩
    · injection h with h; injection h with e1 e2
      subst e1
      exact ⟨by show ([] : List α).length < 2 ^ 64; simp, by simp⟩
  dec_suffix b l r h := by
    simp only [listTry] at h
    split at h
    · rename_i n r1 h1
      obtain ⟨_, _, p2, q2⟩ := decN_ok hc n r1 l r h
      obtain ⟨p1, q1⟩ := varint_lawful.dec_suffix _ _ _ h1
      exact ⟨p1 ++ p2, by rw [q1, q2, List.append_assoc]⟩
    · injection h with h; injection h with e1 e2
      subst e2
      exact ⟨b, by simp⟩

/-! ## irregular trailing fields -/

theorem assocDec_ok {b a r} (h : assocDec b = .ok (a, r)) : a.length < 256 ∧ ∃ p, b = p ++ r := by
  simp only [assocDec] at h
  split at h
  · rename_i n r1 h1
    have hn : n < 256 ^ 1 := u8_lawful.dec_wf _ _ _ h1
    obtain ⟨p1, q1⟩ := u8_lawful.dec_suffix _ _ _ h1
    split at h
    · have hl : a.length = n := (vecBytes_lawful n).dec_wf _ _ _ h
      obtain ⟨p2, q2⟩ := (vecBytes_lawful n).dec_suffix _ _ _ h
      exact ⟨by omega, p1 ++ p2, by rw [q1, q2, List.append_assoc]⟩
    · injection h with h; injection h with e1 e2
      subst e1 e2
      exact ⟨by simp, p1, q1⟩
  · injection h with h; injection h with e1 e2
    subst e1 e2
    exact ⟨by simp, b, by simp⟩

theorem assocDec_enc (a r : Bytes) (h : a.length < 256) :
    assocDec (natToLEn 1 a.length ++ a ++ r) = .ok (a, r) := by
  have e := u8_lawful.dec_enc a.length (a ++ r) (show a.length < 256 ^ 1 by omega)
  simp only [u8, uLE] at e
  simp only [assocDec, u8, uLE, List.append_assoc, e]
  split
  · exact (vecBytes_lawful a.length).dec_enc a r rfl
  · rename_i h0
    have : a = [] := List.eq_nil_of_length_eq_zero (by omega)
    subst this
    rfl

theorem assocAlways_lawful : Lawful assocAlways where
  dec_enc a r h := assocDec_enc a r h
  size_eq a _ := by simp [assocAlways]
  dec_wf b a r h := (assocDec_ok h).1
  dec_suffix b a r h := (assocDec_ok h).2

theorem assocOpt_lawfulEnd : LawfulEnd assocOpt where
  dec_enc a h := by
    simp only [assocOpt]
    split
    · rename_i he
      have : a = [] := by simpa using he
      subst this
      simp [assocDec, u8_dec_nil]
    · simpa using assocDec_enc a [] h
  size_eq a _ := by
    simp only [assocOpt]
    split <;> simp <;> omega
  dec_wf b a r h := (assocDec_ok h).1
  dec_suffix b a r h := (assocDec_ok h).2

theorem policyOpt_lawfulEnd : LawfulEnd policyOpt where
  dec_enc a h := by
    by_cases he : a = []
    · subst he
      simp [policyOpt, varint, u8_dec_nil]
    · have hi : a.isEmpty = false := by cases a <;> simp_all
      have e := varint_lawful.dec_enc a.length a h.1
      have e2 := (vecBytes_lawful a.length).dec_enc a [] rfl
      simp only [List.append_nil] at e2
      have e3 : (vecBytes a.length).enc a = a := rfl
      rw [e3] at e2
      simp only [policyOpt, hi, Bool.false_eq_true, if_false, e, e2, bind_ok, h.2, if_true]
  size_eq a h := by
    by_cases he : a = []
    · subst he
      rfl
    · have hi : a.isEmpty = false := by cases a <;> simp_all
      simp only [policyOpt, hi, Bool.false_eq_true, if_false, List.length_append,
        varint_lawful.size_eq a.length h.1]
  dec_wf b a r h := by
    simp only [policyOpt] at h
    split at h
    · rename_i n r1 h1
      simp only [bind_eq_ok] at h
      obtain ⟨⟨x, r2⟩, h2, h⟩ := h
      split at h
      · rename_i hu
        injection h with h; injection h with e1 e2
        subst e1
        have hl : x.length = n := (vecBytes_lawful n).dec_wf _ _ _ h2
        have : n < 2 ^ 64 := varint_lawful.dec_wf _ _ _ h1
        exact ⟨by show x.length < 2 ^ 64; omega, hu⟩
      · simp at h
    · injection h with h; injection h with e1 e2
      subst e1
      exact ⟨by show ([] : Bytes).length < 2 ^ 64; simp, by simp [validUtf8, validUtf8Go]⟩
  dec_suffix b a r h := by
    simp only [policyOpt] at h
    split at h
    · rename_i n r1 h1
      simp only [bind_eq_ok] at h
      obtain ⟨⟨x, r2⟩, h2, h⟩ := h
      split at h
      · injection h with h; injection h with e1 e2
        subst e2
        obtain ⟨p1, q1⟩ := varint_lawful.dec_suffix _ _ _ h1
        obtain ⟨p2, q2⟩ := (vecBytes_lawful n).dec_suffix _ _ _ h2
        exact ⟨p1 ++ p2, by rw [q1, q2, List.append_assoc]⟩
      · simp at h
    · injection h with h; injection h with e1 e2
      subst e2
      exact ⟨b, by simp⟩

end CG.Model.Wire

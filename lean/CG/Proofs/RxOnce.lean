import CG.Proofs.Rx
/-!
C13 — Part 4: the repaired algorithm on a plain subject delivers exactly once.
Invariants over all reachable states, any number of threads, any programs, any schedule.
-/
namespace CG.Model.Rx

/-! ### vocabulary -/

/-- instructions that occur on a plain subject (repaired algorithm) -/
def Instr.isSubj : Instr → Bool
  | .acqRead _ | .relRead | .acqWrite _ | .relWrite | .acqPushR _ _ | .relMR | .acqSnapS _ _ => false
  | i => i.isRep

def Instr.isPubEnd : Instr → Bool
  | .mPubEnd _ _ => true
  | _ => false

/-- `mPubEnd` occurs at most as the last instruction -/
def endOk : List Instr → Bool
  | [] => true
  | [_] => true
  | x :: y :: r => !x.isPubEnd && endOk (y :: r)

/-- deliveries an instruction still owes: (observer, subscription, event, publication) -/
def Instr.pend : Instr → List (Ob × Nat × Nat × Nat)
  | .deliver o c e p => [(.user o, c, e, p)]
  | .putLockR a k c e p => [(.poller a k, c, e, p)]
  | .relSnap snap e p => snap.map fun x => (x.ob, x.c, e, p)
  | _ => []

def contPend (c : List Instr) : List (Ob × Nat × Nat × Nat) := c.flatMap Instr.pend

/-- ghost identifiers mentioned by an instruction -/
def Instr.ids : Instr → List Nat
  | .deliver _ c _ p => [c, p]
  | .putLockR _ _ c _ p => [c, p]
  | .relSnap snap _ p => p :: snap.map (·.c)
  | .mSnapDrop snap => snap.map (·.c)
  | .mSubRet _ c => [c]
  | .mPubEnd _ p => [p]
  | .acqPushR _ c => [c]
  | .acqSnapS _ p => [p]
  | _ => []

def HEv.ids : HEv → List Nat
  | .subBegin _ _ c => [c]
  | .subRet _ _ c => [c]
  | .pubBegin _ _ p => [p]
  | .pubEnd _ _ p => [p]
  | .deliver _ _ c _ p => [c, p]
  | _ => []

/-- the event is a delivery for subscription `c`, publication `p` -/
def HEv.isDel (c p : Nat) : HEv → Bool
  | .deliver _ _ c' _ p' => c' == c && p' == p
  | _ => false

theorem endOk_tail {i : Instr} {r : List Instr} (h : endOk (i :: r) = true) : endOk r = true := by
  cases r with
  | nil => rfl
  | cons y r => simp [endOk] at h; exact h.2

theorem endOk_pubEnd_head {e p : Nat} {k : List Instr} (h : endOk (.mPubEnd e p :: k) = true) : k = [] := by
  cases k with
  | nil => rfl
  | cons y r => simp [endOk, Instr.isPubEnd] at h

theorem endOk_append {new rest : List Instr} (hn : ∀ j ∈ new, j.isPubEnd = false) (hr : endOk rest = true) :
    endOk (new ++ rest) = true := by
  induction new with
  | nil => simpa using hr
  | cons x xs ih =>
    have ihx := ih (fun j hj => hn j (List.mem_cons_of_mem _ hj))
    cases hxs : xs ++ rest with
    | nil => simp [hxs, endOk]
    | cons y r =>
      simp only [List.cons_append, hxs, endOk]
      rw [hxs] at ihx
      simp [hn x (List.mem_cons_self), ihx]

theorem contPend_append (a b : List Instr) : contPend (a ++ b) = contPend a ++ contPend b := by
  simp [contPend]

theorem contPend_cons (i : Instr) (r : List Instr) : contPend (i :: r) = i.pend ++ contPend r := by
  simp [contPend]

end CG.Model.Rx

namespace CG.Model.Rx

/-- Part 4, structural invariant (plain subject) -/
structure E1 (s : Sys) : Prop where
  subj : s.kind = .subject
  fam : ∀ t, ∀ i ∈ (s.thr t).cont, i.isSubj = true
  snapAlone : ∀ t e, Instr.acqSnap e ∈ (s.thr t).cont → (s.thr t).cont = [Instr.acqSnap e]
  eok : ∀ t, endOk (s.thr t).cont = true
  pendEnd : ∀ t ob c e p, (ob, c, e, p) ∈ contPend (s.thr t).cont → Instr.mPubEnd e p ∈ (s.thr t).cont
  bObs : ∀ x ∈ s.observers, x.c < s.nextId
  bHist : ∀ ev ∈ s.hist, ∀ id ∈ ev.ids, id < s.nextId
  bCont : ∀ t, ∀ i ∈ (s.thr t).cont, ∀ id ∈ i.ids, id < s.nextId

theorem isRep_of_isSubj {i : Instr} (h : i.isSubj = true) : i.isRep = true := by
  cases i <;> simp_all [Instr.isSubj, Instr.isRep]

theorem deliverInstrs_subj (x : Entry) (e p : Nat) :
    ∀ j ∈ deliverInstrs x e p, j.isSubj = true ∧ j.isPubEnd = false ∧ (∀ e', j ≠ .acqSnap e') ∧ j.ids = [x.c, p] ∧
      j.pend = [(x.ob, x.c, e, p)] := by
  cases x with | mk ob c => cases ob <;> simp [deliverInstrs, Instr.isSubj, Instr.isRep, Instr.isPubEnd, Instr.ids, Instr.pend]

theorem mem_flatMap_deliver {snap : List Entry} {e p : Nat} {j : Instr}
    (h : j ∈ snap.flatMap (fun x => deliverInstrs x e p)) : ∃ x ∈ snap, j ∈ deliverInstrs x e p := by
  simpa [List.mem_flatMap] using h

theorem contPend_flatMap_deliver (snap : List Entry) (e p : Nat) :
    contPend (snap.flatMap (fun x => deliverInstrs x e p)) = snap.map (fun x => (x.ob, x.c, e, p)) := by
  induction snap with
  | nil => rfl
  | cons x xs ih =>
    simp only [List.flatMap_cons, contPend_append, ih, List.map_cons]
    cases x with | mk ob c => cases ob <;> simp [deliverInstrs, contPend, Instr.pend]

/-- `E1` across a micro-transition of thread `t` that replaces the head `i` of its continuation by `new` -/
theorem E1_of {s s' : Sys} {t : Tid} {i : Instr} {rest new : List Instr} (E : E1 s)
    (hc : (s.thr t).cont = i :: rest)
    (hkind : s'.kind = s.kind)
    (hcont : ∀ u, (s'.thr u).cont = if u = t then new ++ rest else (s.thr u).cont)
    (hnext : s.nextId ≤ s'.nextId)
    (hobs : ∀ x ∈ s'.observers, x ∈ s.observers ∨ x.c < s'.nextId)
    (hhist' : ∃ evs, s'.hist = s.hist ++ evs ∧ ∀ ev ∈ evs, ∀ id ∈ ev.ids, id < s'.nextId)
    (hnSubj : ∀ j ∈ new, j.isSubj = true)
    (hnSnap : ∀ j ∈ new, ∀ e, j ≠ Instr.acqSnap e)
    (hnEnd : endOk (new ++ rest) = true)
    (hnPend : ∀ ob c e p, (ob, c, e, p) ∈ contPend new → Instr.mPubEnd e p ∈ new ++ rest)
    (hnIds : ∀ j ∈ new, ∀ id ∈ j.ids, id < s'.nextId)
    (hiEnd : i.isPubEnd = true → rest = []) : E1 s' := by
  obtain ⟨evs, hhist, hevs⟩ := hhist'
  have hrestmem : ∀ j, j ∈ rest → j ∈ (s.thr t).cont := fun j hj => by simp [hc, hj]
  refine ⟨by rw [hkind]; exact E.subj, ?_, ?_, ?_, ?_, ?_, ?_, ?_⟩
  · intro u j hj
    rw [hcont] at hj; split at hj
    · rcases List.mem_append.1 hj with hj | hj
      · exact hnSubj j hj
      · exact E.fam t j (hrestmem j hj)
    · exact E.fam u j hj
  · intro u e hj
    rw [hcont] at hj ⊢; split at hj
    · rename_i hut; subst hut
      rcases List.mem_append.1 hj with hj | hj
      · exact absurd rfl (hnSnap _ hj e)
      · have := E.snapAlone u e (hrestmem _ hj)
        rw [hc] at this
        have h2 : rest = [] := by injection this
        subst h2; cases hj
    · rename_i hut; rw [if_neg hut]; exact E.snapAlone u e hj
  · intro u
    rw [hcont]; split
    · exact hnEnd
    · exact E.eok u
  · intro u ob c e p hj
    rw [hcont] at hj ⊢; split at hj
    · rename_i hut; subst hut; rw [if_pos rfl]
      rw [contPend_append] at hj
      rcases List.mem_append.1 hj with hj | hj
      · exact hnPend ob c e p hj
      · have : (ob, c, e, p) ∈ contPend (s.thr u).cont := by
          rw [hc, contPend_cons]; exact List.mem_append_right _ hj
        have := E.pendEnd u ob c e p this
        rw [hc] at this
        rcases List.mem_cons.1 this with h | h
        · have := hiEnd (by rw [← h]; rfl)
          subst this; simp [contPend] at hj
        · exact List.mem_append_right _ h
    · rename_i hut; rw [if_neg hut]; exact E.pendEnd u ob c e p hj
  · intro x hx
    rcases hobs x hx with h | h
    · exact Nat.lt_of_lt_of_le (E.bObs x h) hnext
    · exact h
  · intro ev hev id hid
    rw [hhist] at hev
    rcases List.mem_append.1 hev with h | h
    · exact Nat.lt_of_lt_of_le (E.bHist ev h id hid) hnext
    · exact hevs ev h id hid
  · intro u j hj id hid
    rw [hcont] at hj; split at hj
    · rcases List.mem_append.1 hj with hj | hj
      · exact hnIds j hj id hid
      · exact Nat.lt_of_lt_of_le (E.bCont t j (hrestmem j hj) id hid) hnext
    · exact Nat.lt_of_lt_of_le (E.bCont u j hj id hid) hnext

theorem beginEvs_ids (t : Tid) (o : Ob) (c : Nat) : ∀ ev ∈ beginEvs t o c, ∀ id ∈ ev.ids, id = c := by
  intro ev hev id hid
  cases o <;> simp [beginEvs] at hev
  · subst hev; simpa [HEv.ids] using hid
  · rcases hev with rfl | rfl <;> simp [HEv.ids] at hid; exact hid

theorem E1_exec {s s' : Sys} {t : Tid} {i : Instr} {rest : List Instr} (A : HA s) (E : E1 s) (ht : t < s.n)
    (hc : (s.thr t).cont = i :: rest) (h : exec s t i rest = some s') : E1 s' := by
  obtain ⟨s1, new, he, rfl⟩ := exec_eq h
  have hi : i.isSubj = true := E.fam t i (by simp [hc])
  have hst := execE_static he
  have hcont : ∀ u, ((s1.setCont t (new ++ rest)).thr u).cont = if u = t then new ++ rest else (s.thr u).cont := by
    intro u; rw [setCont_cont]; split
    · rfl
    · exact (execE_thr he u).1
  have hrestmem : ∀ j, j ∈ rest → j ∈ (s.thr t).cont := fun j hj => by simp [hc, hj]
  have heok : endOk rest = true := endOk_tail (by have := E.eok t; rwa [hc] at this)
  have hk := E.subj
  have hbi : ∀ id ∈ i.ids, id < s.nextId := E.bCont t i (by simp [hc])
  cases i <;> simp [Instr.isSubj, Instr.isRep] at hi <;> simp only [execE] at he
  all_goals ((try split at he) <;> (try split at he) <;> (try simp at he))
  all_goals (try (obtain ⟨rfl, rfl⟩ := he))
  all_goals (
    refine E1_of E hc ?gKind hcont ?gNext ?gObs ?gHist ?gSubj ?gSnap ?gEndok ?gPend ?gIds (by simp [Instr.isPubEnd])
    case gKind => simp [Sys.setCont_eq]
    case gNext => simp [Sys.setCont_eq]
    case gHist =>
      first
        | exact ⟨[], (List.append_nil _).symm, by simp⟩
        | (refine ⟨_, rfl, ?_⟩
           intro ev hev id hid
           first
             | (have := beginEvs_ids _ _ _ ev hev id hid; subst this; simp [Sys.setCont_eq]; done)
             | (simp at hev; subst hev; simp [HEv.ids] at hid; done)
             | (simp at hev; subst hev; simp [HEv.ids, Instr.ids, Sys.setCont_eq] at hid hbi ⊢
                rcases hid with rfl | rfl <;> omega)
             | (simp at hev; subst hev; simp [HEv.ids, Sys.setCont_eq] at hid ⊢; omega))
    case gObs =>
      intro x hx
      simp [Sys.setCont_eq] at hx
      first
        | exact .inl hx
        | exact .inl hx.1
        | (rcases hx with hx | hx
           · exact .inl hx
           · right; subst hx; simp [Sys.setCont_eq])
    case gSubj =>
      first
        | (intro j hj; simp at hj; done)
        | (intro j hj; simp at hj; (try rcases hj with rfl | rfl) <;> (try subst hj) <;> simp [Instr.isSubj, Instr.isRep]; done)
        | (intro j hj; rw [A.rep, hk] at hj; simp [subInstrs] at hj; subst hj; simp [Instr.isSubj, Instr.isRep]; done)
        | (intro j hj
           rcases List.mem_append.1 hj with hj | hj
           · obtain ⟨x, _, hx⟩ := mem_flatMap_deliver hj; exact (deliverInstrs_subj x _ _ j hx).1
           · simp at hj; subst hj; simp [Instr.isSubj, Instr.isRep])
    case gSnap =>
      first
        | (intro j hj; simp at hj; done)
        | (intro j hj e; simp at hj; (try rcases hj with rfl | rfl) <;> (try subst hj) <;> simp; done)
        | (intro j hj e; rw [A.rep, hk] at hj; simp [subInstrs] at hj; subst hj; simp; done)
        | (intro j hj e
           rcases List.mem_append.1 hj with hj | hj
           · obtain ⟨x, _, hx⟩ := mem_flatMap_deliver hj; exact (deliverInstrs_subj x _ _ j hx).2.2.1 e
           · simp at hj; subst hj; simp)
    case gEndok =>
      first
        | (apply endOk_append _ heok; intro j hj; simp at hj; done)
        | (apply endOk_append _ heok; intro j hj; simp at hj
           (try rcases hj with rfl | rfl) <;> (try subst hj) <;> simp [Instr.isPubEnd]; done)
        | (apply endOk_append _ heok; intro j hj; rw [A.rep, hk] at hj; simp [subInstrs] at hj; subst hj
           simp [Instr.isPubEnd]; done)
        | (apply endOk_append _ heok; intro j hj
           rcases List.mem_append.1 hj with hj | hj
           · obtain ⟨x, _, hx⟩ := mem_flatMap_deliver hj; exact (deliverInstrs_subj x _ _ j hx).2.1
           · simp at hj; subst hj; simp [Instr.isPubEnd])
        | (have := E.snapAlone t _ (by rw [hc]; exact List.mem_cons_self)
           rw [hc] at this
           have h2 : rest = [] := by injection this
           subst h2; simp [endOk, Instr.isPubEnd])
    case gPend =>
      first
        | (intro ob c e p hj; simp [contPend, Instr.pend] at hj; done)
        | (intro ob c e p hj; rw [A.rep, hk] at hj; simp [subInstrs, contPend, Instr.pend] at hj; done)
        | (-- acqSnap
           intro ob c e p hj
           simp [contPend, Instr.pend] at hj
           obtain ⟨x, _, _, _, rfl, rfl⟩ := hj
           simp; done)
        | (-- relSnap
           intro ob c e p hj
           rw [contPend_append, contPend_flatMap_deliver] at hj
           simp [contPend, Instr.pend] at hj
           obtain ⟨x, hx, rfl, rfl, rfl, rfl⟩ := hj
           have := E.pendEnd t x.ob x.c _ _ (by
             rw [hc, contPend_cons]; apply List.mem_append_left; simp [Instr.pend]; exact ⟨x, hx, rfl, rfl, rfl, rfl⟩)
           rw [hc] at this
           rcases List.mem_cons.1 this with h | h
           · cases h
           · exact List.mem_append_right _ h)
    case gIds =>
      first
        | (intro j hj; simp at hj; done)
        | (intro j hj id hid; simp at hj
           (try rcases hj with rfl | rfl) <;> (try subst hj) <;> simp [Instr.ids, Sys.setCont_eq] at hid ⊢ <;> omega)
        | (intro j hj id hid; rw [A.rep, hk] at hj; simp [subInstrs] at hj; subst hj; simp [Instr.ids] at hid; done)
        | (-- relSnap
           intro j hj id hid
           simp only [Sys.setCont_eq, Sys.setThr_nextId]
           apply hbi id
           rcases List.mem_append.1 hj with hj | hj
           · obtain ⟨x, hx, hjx⟩ := mem_flatMap_deliver hj
             rw [(deliverInstrs_subj x _ _ j hjx).2.2.2.1] at hid
             simp at hid
             rcases hid with rfl | rfl
             · simp [Instr.ids]; right; exact ⟨x, hx, rfl⟩
             · simp [Instr.ids]
           · simp at hj; subst hj; simp [Instr.ids] at hid ⊢; right; exact hid)
        | (-- acqSnap
           intro j hj id hid
           simp at hj
           rcases hj with rfl | rfl
           · simp [Instr.ids, Sys.setCont_eq] at hid ⊢
             rcases hid with rfl | ⟨x, hx, rfl⟩
             · omega
             · have := E.bObs x hx.1; omega
           · simp [Instr.ids, Sys.setCont_eq] at hid ⊢; omega))

end CG.Model.Rx

namespace CG.Model.Rx

theorem popMark_hist (s : Sys) (t : Tid) (m : Instr) (k : List Instr) (hm : m.isMarker = true) (hr : m.isRep = true) :
    ∃ evs, (popMark s t m k).hist = s.hist ++ evs ∧ (∀ ev ∈ evs, ∀ id ∈ ev.ids, id ∈ m.ids) ∧
      (popMark s t m k).nextId = s.nextId ∧ (popMark s t m k).observers = s.observers ∧
      (popMark s t m k).owner = s.owner := by
  cases m <;> simp [Instr.isMarker, Instr.isRep] at hm hr
  · exact ⟨[_], rfl, by simp [HEv.ids, Instr.ids], rfl, rfl, rfl⟩
  · exact ⟨[], by simp [popMark, Sys.setCont_eq], by simp, rfl, rfl, rfl⟩
  · exact ⟨[_], rfl, by simp [HEv.ids, Instr.ids], rfl, rfl, rfl⟩
  · exact ⟨[_], rfl, by simp [HEv.ids], rfl, rfl, rfl⟩

theorem E1_pop {s : Sys} {t : Tid} {m : Instr} {k : List Instr} (E : E1 s) (hc : (s.thr t).cont = m :: k)
    (hm : m.isMarker = true) (hr : m.isRep = true) : E1 (popMark s t m k) := by
  obtain ⟨evs, h1, h2, h3, h4, _⟩ := popMark_hist s t m k hm hr
  have hcont : ∀ u, ((popMark s t m k).thr u).cont = if u = t then [] ++ k else (s.thr u).cont := by
    intro u; by_cases h : u = t
    · subst h; simp [popMark_cont s u m k hm hr]
    · simp [popMark_thr_other s t u m k h, h]
  have heok : endOk k = true := endOk_tail (by have := E.eok t; rwa [hc] at this)
  refine E1_of (new := []) E hc (popMark_static s t m k).2.1 hcont (by rw [h3]; exact Nat.le_refl _)
    (fun x hx => .inl (by rwa [h4] at hx)) ⟨evs, h1, ?_⟩ (by simp) (by simp) (by simpa using heok)
    (by simp [contPend]) (by simp) ?_
  · intro ev hev id hid
    rw [h3]; exact E.bCont t m (by simp [hc]) id (h2 ev hev id hid)
  · intro hpe
    cases m <;> simp [Instr.isPubEnd] at hpe
    have := E.eok t; rw [hc] at this; exact endOk_pubEnd_head this

end CG.Model.Rx

namespace CG.Model.Rx

theorem opInstrs_subj (s : Sys) (t : Tid) (op : Op) (ha : s.algo = .repaired) (hk : s.kind = .subject) :
    (∀ j ∈ opInstrs s t op, j.isSubj = true ∧ j.isPubEnd = false ∧ j.pend = [] ∧ j.ids = []) ∧
    (∀ e, Instr.acqSnap e ∈ opInstrs s t op → opInstrs s t op = [Instr.acqSnap e]) := by
  cases op with
  | sub o =>
    by_cases ho : s.owner o = true <;>
      simp [opInstrs, ho, ha, hk, subInstrs, Instr.isSubj, Instr.isRep, Instr.isPubEnd, Instr.pend, Instr.ids]
  | pub e => simp [opInstrs, ha, hk, pubInstrs, Instr.isSubj, Instr.isRep, Instr.isPubEnd, Instr.pend, Instr.ids]
  | poll => simp [opInstrs, ha, hk, subInstrs, Instr.isSubj, Instr.isRep, Instr.isPubEnd, Instr.pend, Instr.ids]
  | drop o => simp [opInstrs, Instr.isSubj, Instr.isRep, Instr.isPubEnd, Instr.pend, Instr.ids]

theorem endOk_of_no_pubEnd {l : List Instr} (h : ∀ j ∈ l, j.isPubEnd = false) : endOk l = true := by
  have := endOk_append (rest := []) h rfl
  simpa using this

theorem E1_expand {s : Sys} {t : Tid} (A : HA s) (E : E1 s) (hc : (s.thr t).cont = []) : E1 (expand s t) := by
  cases hp : (s.thr t).prog with
  | nil => rw [expand_nil s t hp]; exact E
  | cons op ops =>
    rw [expand_cons s t op ops hp]
    obtain ⟨hprops, hsnap⟩ := opInstrs_subj s t op A.rep E.subj
    have hcont : ∀ u, ((s.setThr t
        { s.thr t with prog := ops, opIdx := (s.thr t).opIdx + 1, cont := opInstrs s t op }).thr u).cont =
        if u = t then opInstrs s t op else (s.thr u).cont := by
      intro u; simp [upd_apply]; split <;> simp
    refine ⟨E.subj, ?_, ?_, ?_, ?_, E.bObs, E.bHist, ?_⟩
    · intro u j hj; rw [hcont] at hj; split at hj
      · exact (hprops j hj).1
      · exact E.fam u j hj
    · intro u e hj; rw [hcont] at hj ⊢; split at hj
      · rename_i h; rw [if_pos h]; exact hsnap e hj
      · rename_i h; rw [if_neg h]; exact E.snapAlone u e hj
    · intro u; rw [hcont]; split
      · exact endOk_of_no_pubEnd (fun j hj => (hprops j hj).2.1)
      · exact E.eok u
    · intro u ob c e p hj; rw [hcont] at hj ⊢; split at hj
      · exfalso
        simp only [contPend, List.mem_flatMap] at hj
        obtain ⟨j, hj1, hj2⟩ := hj
        rw [(hprops j hj1).2.2.1] at hj2; cases hj2
      · rename_i h; rw [if_neg h]; exact E.pendEnd u ob c e p hj
    · intro u j hj id hid; rw [hcont] at hj; split at hj
      · rw [(hprops j hj).2.2.2] at hid; cases hid
      · exact E.bCont u j hj id hid

theorem E1_settle {s : Sys} {t : Tid} (A : HA s) (E : E1 s) (fuel : Nat) : E1 (settle fuel s t) ∧ HA (settle fuel s t) := by
  have := settle_ind (fun s => E1 s ∧ HA s) t
    (by intro s m k ⟨E, A⟩ hc hm hr; exact ⟨E1_pop E hc hm hr, HA_pop A hc hm hr⟩)
    (by intro s ⟨E, A⟩ hc; exact ⟨E1_expand A E hc, HA_expand A hc⟩)
    (by intro s m k ⟨E, A⟩ hc; exact A.fam t m (by simp [hc]))
    fuel s ⟨E, A⟩
  exact this

theorem E1_step {s s' : Sys} {t : Tid} (G : Good s) (E : E1 s) (h : step s t = some s') : E1 s' := by
  obtain ⟨ht, i, rest, s1, hc, he, rfl⟩ := step_eq h
  exact (E1_settle (HA_exec G.a ht hc he) (E1_exec G.a E ht hc he) _).1

theorem E1_spur {s s' : Sys} {t : Tid} (E : E1 s) (h : spur s t = some s') : E1 s' := by
  obtain ⟨a, k, rest, hc, rfl⟩ := spur_eq h
  have hcont : ∀ u, ((s.setThr t { s.thr t with woken := true }).thr u).cont = (s.thr u).cont := by
    intro u; simp [upd_apply]; split <;> simp_all
  exact ⟨E.subj, fun u => by rw [hcont]; exact E.fam u, fun u e => by rw [hcont]; exact E.snapAlone u e,
    fun u => by rw [hcont]; exact E.eok u, fun u => by rw [hcont]; exact E.pendEnd u, E.bObs, E.bHist,
    fun u => by rw [hcont]; exact E.bCont u⟩

end CG.Model.Rx
namespace CG.Model.Rx
open CG.Spec.EventSpec

/-! ### list lemmas about the specification -/

theorem getElem?_append_lt {α : Type} (h : List α) (e : List α) (i : Nat) (hi : i < h.length) : (h ++ e)[i]? = h[i]? :=
  List.getElem?_append_left hi

theorem lt_of_getElem?_some {α : Type} {h : List α} {i : Nat} {x : α} (hx : h[i]? = some x) : i < h.length := by
  apply Nat.lt_of_not_le
  intro hn
  rw [List.getElem?_eq_none hn] at hx; cases hx

theorem getElem?_snoc {α : Type} {h : List α} {x y : α} {i : Nat} (hx : (h ++ [x])[i]? = some y) :
    h[i]? = some y ∨ (i = h.length ∧ y = x) := by
  by_cases hi : i < h.length
  · left; rwa [getElem?_append_lt h [x] i hi] at hx
  · right
    have hlt := lt_of_getElem?_some hx
    simp at hlt
    have : i = h.length := by omega
    subst this; simp at hx; exact ⟨rfl, hx.symm⟩

theorem getElem?_snoc_old {α : Type} {h : List α} {x y : α} {i : Nat} (hx : h[i]? = some y) :
    (h ++ [x])[i]? = some y := by
  rw [getElem?_append_lt h [x] i (lt_of_getElem?_some hx)]; exact hx

theorem aliveUntil_snoc {h : Hist} {ev : HEv} {o j : Nat} (hj : j ≤ h.length) (ha : AliveUntil (h ++ [ev]) o j) :
    AliveUntil h o j := by
  intro m t hm
  have := ha m t hm
  rwa [getElem?_append_lt h [ev] m (by omega)] at this

/-- appending an event that is neither a delivery nor the end of a publication -/
theorem exactlyOnce_snoc_other {h : Hist} (H : ExactlyOnce h) (ev : HEv)
    (hd : ∀ t o c e p, ev ≠ HEv.deliver t o c e p) (hp : ∀ t e p, ev ≠ HEv.pubEnd t e p) : ExactlyOnce (h ++ [ev]) := by
  constructor
  · intro i j t e p hi hj hij k t' o c hk hks hal
    rcases getElem?_snoc hj with hj | ⟨_, hj⟩
    · have hjl := lt_of_getElem?_some hj
      have hi' : h[i]? = some (HEv.pubBegin t e p) := by
        rwa [getElem?_append_lt h [ev] i (by omega)] at hi
      have hks' : h[k]? = some (HEv.subRet t' (Ob.user o) c) := by
        rwa [getElem?_append_lt h [ev] k (by omega)] at hks
      obtain ⟨m, t'', h1, h2, h3⟩ := H.neverLost i j t e p hi' hj hij k t' o c hk hks'
        (aliveUntil_snoc (Nat.le_of_lt hjl) hal)
      exact ⟨m, t'', h1, h2, getElem?_snoc_old h3⟩
    · exact absurd hj.symm (hp t e p)
  · intro m₁ m₂ t₁ t₂ o c e₁ e₂ p h1 h2
    rcases getElem?_snoc h1 with h1 | ⟨_, h1⟩
    · rcases getElem?_snoc h2 with h2 | ⟨_, h2⟩
      · exact H.neverDup m₁ m₂ t₁ t₂ o c e₁ e₂ p h1 h2
      · exact absurd h2.symm (hd _ _ _ _ _)
    · exact absurd h1.symm (hd _ _ _ _ _)
  · intro m t o c e p hm
    rcases getElem?_snoc hm with hm | ⟨_, hm⟩
    · obtain ⟨⟨k, t', hk1, hk2⟩, ⟨i, hi1, hi2⟩, h3⟩ := H.noInvention m t o c e p hm
      have hml := lt_of_getElem?_some hm
      refine ⟨⟨k, t', hk1, getElem?_snoc_old hk2⟩, ⟨i, hi1, getElem?_snoc_old hi2⟩, ?_⟩
      intro j hj
      rw [getElem?_append_lt h [ev] j (by omega)]; exact h3 j hj
    · exact absurd hm.symm (hd _ _ _ _ _)
  · intro j t e p hj
    rcases getElem?_snoc hj with hj | ⟨_, hj⟩
    · obtain ⟨i, hi1, hi2⟩ := H.endAfterBegin j t e p hj
      exact ⟨i, hi1, getElem?_snoc_old hi2⟩
    · exact absurd hj.symm (hp t e p)

/-- appending a delivery -/
theorem exactlyOnce_snoc_deliver {h : Hist} (H : ExactlyOnce h) (t : Nat) (o : Ob) (c e p : Nat)
    (hfresh : ∀ (m t' e' : Nat), h[m]? ≠ some (HEv.deliver t' o c e' p))
    (hsub : ∃ (k t' : Nat), h[k]? = some (HEv.subBegin t' o c))
    (hpub : ∃ (i : Nat), h[i]? = some (HEv.pubBegin t e p))
    (hnoend : ∀ (j : Nat), h[j]? ≠ some (HEv.pubEnd t e p)) : ExactlyOnce (h ++ [HEv.deliver t o c e p]) := by
  constructor
  · intro i j t₀ e₀ p₀ hi hj hij k t' o' c' hk hks hal
    rcases getElem?_snoc hj with hj | ⟨_, hj⟩
    · have hjl := lt_of_getElem?_some hj
      have hi' : h[i]? = some (HEv.pubBegin t₀ e₀ p₀) := by
        rwa [getElem?_append_lt h _ i (by omega)] at hi
      have hks' : h[k]? = some (HEv.subRet t' (Ob.user o') c') := by
        rwa [getElem?_append_lt h _ k (by omega)] at hks
      obtain ⟨m, t'', h1, h2, h3⟩ := H.neverLost i j t₀ e₀ p₀ hi' hj hij k t' o' c' hk hks'
        (aliveUntil_snoc (Nat.le_of_lt hjl) hal)
      exact ⟨m, t'', h1, h2, getElem?_snoc_old h3⟩
    · cases hj
  · intro m₁ m₂ t₁ t₂ o' c' e₁ e₂ p' h1 h2
    rcases getElem?_snoc h1 with g1 | ⟨hm1, g1⟩
    · rcases getElem?_snoc h2 with g2 | ⟨hm2, g2⟩
      · exact H.neverDup m₁ m₂ t₁ t₂ o' c' e₁ e₂ p' g1 g2
      · injection g2 with _ ho hc _ hp; subst ho hc hp
        exact absurd g1 (hfresh _ _ _)
    · rcases getElem?_snoc h2 with g2 | ⟨hm2, g2⟩
      · injection g1 with _ ho hc _ hp; subst ho hc hp
        exact absurd g2 (hfresh _ _ _)
      · rw [hm1, hm2]
  · intro m t₀ o' c' e' p' hm
    rcases getElem?_snoc hm with hm | ⟨hml, hm⟩
    · obtain ⟨⟨k, t', hk1, hk2⟩, ⟨i, hi1, hi2⟩, h3⟩ := H.noInvention m t₀ o' c' e' p' hm
      have hml := lt_of_getElem?_some hm
      refine ⟨⟨k, t', hk1, getElem?_snoc_old hk2⟩, ⟨i, hi1, getElem?_snoc_old hi2⟩, ?_⟩
      intro j hj
      rw [getElem?_append_lt h _ j (by omega)]; exact h3 j hj
    · injection hm with ht ho hc he hp; subst ht ho hc he hp hml
      obtain ⟨k, t', hk⟩ := hsub
      obtain ⟨i, hi⟩ := hpub
      refine ⟨⟨k, t', lt_of_getElem?_some hk, getElem?_snoc_old hk⟩, ⟨i, lt_of_getElem?_some hi, getElem?_snoc_old hi⟩, ?_⟩
      intro j hj
      rw [getElem?_append_lt h _ j hj]; exact hnoend j
  · intro j t₀ e₀ p₀ hj
    rcases getElem?_snoc hj with hj | ⟨_, hj⟩
    · obtain ⟨i, hi1, hi2⟩ := H.endAfterBegin j t₀ e₀ p₀ hj
      exact ⟨i, hi1, getElem?_snoc_old hi2⟩
    · cases hj

/-- appending the end of a publication -/
theorem exactlyOnce_snoc_pubEnd {h : Hist} (H : ExactlyOnce h) (t e p : Nat)
    (hbeg : ∃ (i : Nat), h[i]? = some (HEv.pubBegin t e p))
    (hall : ∀ (i : Nat), h[i]? = some (HEv.pubBegin t e p) → ∀ (k t' o c : Nat), k < i → h[k]? = some (HEv.subRet t' (Ob.user o) c) →
      AliveUntil h o h.length → ∃ (m t'' : Nat), i < m ∧ h[m]? = some (HEv.deliver t'' (Ob.user o) c e p)) :
    ExactlyOnce (h ++ [HEv.pubEnd t e p]) := by
  constructor
  · intro i j t₀ e₀ p₀ hi hj hij k t' o' c' hk hks hal
    rcases getElem?_snoc hj with hj | ⟨hjl, hj⟩
    · have hjl := lt_of_getElem?_some hj
      have hi' : h[i]? = some (HEv.pubBegin t₀ e₀ p₀) := by
        rwa [getElem?_append_lt h _ i (by omega)] at hi
      have hks' : h[k]? = some (HEv.subRet t' (Ob.user o') c') := by
        rwa [getElem?_append_lt h _ k (by omega)] at hks
      obtain ⟨m, t'', h1, h2, h3⟩ := H.neverLost i j t₀ e₀ p₀ hi' hj hij k t' o' c' hk hks'
        (aliveUntil_snoc (Nat.le_of_lt hjl) hal)
      exact ⟨m, t'', h1, h2, getElem?_snoc_old h3⟩
    · injection hj with ht he hp; subst ht he hp hjl
      have hi' : h[i]? = some (HEv.pubBegin t₀ e₀ p₀) := by
        rwa [getElem?_append_lt h _ i hij] at hi
      have hks' : h[k]? = some (HEv.subRet t' (Ob.user o') c') := by
        rwa [getElem?_append_lt h _ k (by omega)] at hks
      obtain ⟨m, t'', h1, h3⟩ := hall i hi' k t' o' c' hk hks' (aliveUntil_snoc (Nat.le_refl _) hal)
      exact ⟨m, t'', h1, lt_of_getElem?_some h3, getElem?_snoc_old h3⟩
  · intro m₁ m₂ t₁ t₂ o' c' e₁ e₂ p' h1 h2
    rcases getElem?_snoc h1 with h1 | ⟨_, h1⟩
    · rcases getElem?_snoc h2 with h2 | ⟨_, h2⟩
      · exact H.neverDup m₁ m₂ t₁ t₂ o' c' e₁ e₂ p' h1 h2
      · cases h2
    · cases h1
  · intro m t₀ o' c' e' p' hm
    rcases getElem?_snoc hm with hm | ⟨_, hm⟩
    · obtain ⟨⟨k, t', hk1, hk2⟩, ⟨i, hi1, hi2⟩, h3⟩ := H.noInvention m t₀ o' c' e' p' hm
      have hml := lt_of_getElem?_some hm
      refine ⟨⟨k, t', hk1, getElem?_snoc_old hk2⟩, ⟨i, hi1, getElem?_snoc_old hi2⟩, ?_⟩
      intro j hj
      rw [getElem?_append_lt h _ j (by omega)]; exact h3 j hj
    · cases hm
  · intro j t₀ e₀ p₀ hj
    rcases getElem?_snoc hj with hj | ⟨hjl, hj⟩
    · obtain ⟨i, hi1, hi2⟩ := H.endAfterBegin j t₀ e₀ p₀ hj
      exact ⟨i, hi1, getElem?_snoc_old hi2⟩
    · injection hj with ht he hp; subst ht he hp hjl
      obtain ⟨i, hi⟩ := hbeg
      exact ⟨i, lt_of_getElem?_some hi, getElem?_snoc_old hi⟩

end CG.Model.Rx
namespace CG.Model.Rx
open CG.Spec.EventSpec

/-- an instruction that neither owes a delivery nor marks the end of a call -/
def Instr.bland (j : Instr) : Prop :=
  j.pend = [] ∧ j.isPubEnd = false ∧ (∀ o c, j ≠ Instr.mSubRet o c) ∧ j.ids = []

/-- What one step of a plain-subject instruction does to the parts of the state the exactly-once argument
    looks at (history, observer list, owner table, ghost counter) and what it puts at the head. -/
inductive Tr (s : Sys) (t : Tid) : Instr → Sys → List Instr → Prop
  /-- lock hand-offs, latch protocol, `noop`: at most a `noop` event -/
  | quiet {i : Instr} {s1 : Sys} {new : List Instr} (hi : i.bland)
      (hh : s1.hist = s.hist ∨ s1.hist = s.hist ++ [HEv.noop t])
      (ho : s1.observers = s.observers) (hw : s1.owner = s.owner) (hn : s1.nextId = s.nextId)
      (hnew : ∀ j ∈ new, j.bland ∧ ∀ e, j ≠ Instr.acqSnap e) : Tr s t i s1 new
  | dropO {s1 : Sys} (o : Nat) (hh : s1.hist = s.hist ++ [HEv.dropO t o])
      (ho : s1.observers = s.observers) (hw : s1.owner = upd s.owner o false) (hn : s1.nextId = s.nextId) :
      Tr s t (.dropO o) s1 []
  | deliver {s1 : Sys} {new : List Instr} (o c e p : Nat) (hh : s1.hist = s.hist ++ [HEv.deliver t (.user o) c e p])
      (ho : s1.observers = s.observers) (hw : s1.owner = s.owner) (hn : s1.nextId = s.nextId)
      (hnew : new = [] ∨ ∃ k, new = [Instr.acqPush (.user k)]) : Tr s t (.deliver o c e p) s1 new
  | putR {s1 : Sys} (a k c e p : Nat) (hh : s1.hist = s.hist ++ [HEv.deliver t (.poller a k) c e p])
      (ho : s1.observers = s.observers) (hw : s1.owner = s.owner) (hn : s1.nextId = s.nextId) :
      Tr s t (.putLockR a k c e p) s1 [.putLockL a k]
  | push {s1 : Sys} (o : Ob) (hh : s1.hist = s.hist ++ beginEvs t o s.nextId)
      (ho : s1.observers = s.observers ++ [⟨o, s.nextId⟩]) (hw : s1.owner = s.owner) (hn : s1.nextId = s.nextId + 1) :
      Tr s t (.acqPush o) s1 [.relM, .mSubRet o s.nextId]
  | snap {s1 : Sys} (e : Nat) (hh : s1.hist = s.hist ++ [HEv.pubBegin t e s.nextId])
      (ho : s1.observers = s.observers.filter (fun x => physAlive s x.ob)) (hw : s1.owner = s.owner)
      (hn : s1.nextId = s.nextId + 1) :
      Tr s t (.acqSnap e) s1 [.relSnap (s.observers.filter (fun x => physAlive s x.ob)) e s.nextId, .mPubEnd e s.nextId]
  | rel {s1 : Sys} (snap : List Entry) (e p : Nat) (hh : s1.hist = s.hist)
      (ho : s1.observers = s.observers) (hw : s1.owner = s.owner) (hn : s1.nextId = s.nextId) :
      Tr s t (.relSnap snap e p) s1 (snap.flatMap (fun x => deliverInstrs x e p) ++ [Instr.mSnapDrop snap])

theorem execE_tr {s s1 : Sys} {t : Tid} {i : Instr} {new : List Instr} (ha : s.algo = .repaired) (hk : s.kind = .subject)
    (hi : i.isSubj = true) (h : execE s t i = some (s1, new)) : Tr s t i s1 new := by
  cases i <;> simp [Instr.isSubj, Instr.isRep] at hi <;> simp only [execE] at h
  all_goals ((try split at h) <;> (try split at h) <;> (try simp at h))
  all_goals (try (obtain ⟨rfl, rfl⟩ := h))
  all_goals first
    | (refine Tr.quiet ?_ ?_ rfl rfl rfl ?_
       · simp [Instr.bland, Instr.pend, Instr.isPubEnd, Instr.ids]
       · first | exact .inl rfl | exact .inr rfl
       · intro j hj; (simp at hj) <;> ((try subst hj); simp [Instr.bland, Instr.pend, Instr.isPubEnd, Instr.ids]))
    | exact Tr.dropO _ rfl rfl rfl rfl
    | exact Tr.deliver _ _ _ _ rfl rfl rfl rfl (.inl rfl)
    | (rw [ha, hk]; exact Tr.deliver _ _ _ _ rfl rfl rfl rfl (.inr ⟨_, rfl⟩))
    | exact Tr.putR _ _ _ _ _ rfl rfl rfl rfl
    | exact Tr.push _ (by simp) rfl (by simp) rfl
    | exact Tr.snap _ rfl rfl rfl rfl
    | exact Tr.rel _ _ _ rfl rfl rfl rfl
    | (refine Tr.quiet ?_ (.inl ?_) ?_ ?_ ?_ ?_
       · simp [Instr.bland, Instr.pend, Instr.isPubEnd, Instr.ids]
       · split <;> rfl
       · split <;> rfl
       · split <;> rfl
       · split <;> rfl
       · intro j hj; simp at hj; subst hj; simp [Instr.bland, Instr.pend, Instr.isPubEnd, Instr.ids])

end CG.Model.Rx
namespace CG.Model.Rx
open CG.Spec.EventSpec

/-- Part 4, the exactly-once invariant (plain subject, repaired algorithm) -/
structure EO (s : Sys) : Prop where
  endNot : ∀ t e p, Instr.mPubEnd e p ∈ (s.thr t).cont → HEv.pubEnd t e p ∉ s.hist
  begun : ∀ t e p, Instr.mPubEnd e p ∈ (s.thr t).cont → HEv.pubBegin t e p ∈ s.hist
  pubUniq : ∀ (i i' t t' e e' p : Nat), s.hist[i]? = some (HEv.pubBegin t e p) →
    s.hist[i']? = some (HEv.pubBegin t' e' p) → i = i' ∧ t = t'
  subOf : ∀ x ∈ s.observers, ∃ t', HEv.subBegin t' x.ob x.c ∈ s.hist
  pendSub : ∀ t ob c e p, (ob, c, e, p) ∈ contPend (s.thr t).cont → ∃ t', HEv.subBegin t' ob c ∈ s.hist
  retSub : ∀ t o c, Instr.mSubRet o c ∈ (s.thr t).cont → HEv.subBegin t o c ∈ s.hist
  retHist : ∀ t o c, HEv.subRet t o c ∈ s.hist → HEv.subBegin t o c ∈ s.hist
  dropped : ∀ o, s.owner o = false → ∃ t, HEv.dropO t o ∈ s.hist
  obsNodup : (s.observers.map (·.c)).Nodup
  pendNodup : ∀ t, ((contPend (s.thr t).cont).map (fun x => x.2.1)).Nodup
  pendFresh : ∀ t ob c e p, (ob, c, e, p) ∈ contPend (s.thr t).cont → ∀ ev ∈ s.hist, ev.isDel c p = false
  inList : ∀ t' o c, HEv.subBegin t' (.user o) c ∈ s.hist → s.owner o = true → (⟨.user o, c⟩ : Entry) ∈ s.observers
  prog : ∀ (t e p i : Nat), s.hist[i]? = some (HEv.pubBegin t e p) → Instr.mPubEnd e p ∈ (s.thr t).cont →
    ∀ (k t' o c : Nat), k < i → s.hist[k]? = some (HEv.subRet t' (.user o) c) → s.owner o = true →
      (∃ m, i < m ∧ s.hist[m]? = some (HEv.deliver t (.user o) c e p)) ∨ (Ob.user o, c, e, p) ∈ contPend (s.thr t).cont
  spec : ExactlyOnce s.hist

/-- the pieces of an `exec` transition the clause lemmas need -/
structure ExecCtx (s s' : Sys) (t : Tid) (i : Instr) (rest new : List Instr) (s1 : Sys) : Prop where
  hc : (s.thr t).cont = i :: rest
  tr : Tr s t i s1 new
  cont : ∀ u, (s'.thr u).cont = if u = t then new ++ rest else (s.thr u).cont
  hist : s'.hist = s1.hist
  obs : s'.observers = s1.observers
  own : s'.owner = s1.owner
  nid : s'.nextId = s1.nextId

theorem execCtx_of {s s' : Sys} {t : Tid} {i : Instr} {rest : List Instr} (A : HA s) (E : E1 s)
    (hc : (s.thr t).cont = i :: rest) (h : exec s t i rest = some s') :
    ∃ new s1, ExecCtx s s' t i rest new s1 := by
  obtain ⟨s1, new, he, rfl⟩ := exec_eq h
  refine ⟨new, s1, hc, execE_tr A.rep E.subj (E.fam t i (by simp [hc])) he, ?_, rfl, rfl, rfl, rfl⟩
  intro u; rw [setCont_cont]; split
  · rfl
  · exact (execE_thr he u).1

/-- the history only grows -/
theorem Tr.hist_ext {s s1 : Sys} {t : Tid} {i : Instr} {new : List Instr} (h : Tr s t i s1 new) :
    ∃ evs, s1.hist = s.hist ++ evs := by
  cases h with
  | quiet _ hh => rcases hh with hh | hh; exact ⟨[], by simp [hh]⟩; exact ⟨_, hh⟩
  | dropO _ hh => exact ⟨_, hh⟩
  | deliver _ _ _ _ hh => exact ⟨_, hh⟩
  | putR _ _ _ _ _ hh => exact ⟨_, hh⟩
  | push _ hh => exact ⟨_, hh⟩
  | snap _ hh => exact ⟨_, hh⟩
  | rel _ _ _ hh => exact ⟨[], by simp [hh]⟩

end CG.Model.Rx

namespace CG.Model.Rx
open CG.Spec.EventSpec

def HEv.isEnd : HEv → Bool
  | .pubEnd _ _ _ | .subRet _ _ _ | .pollRet _ _ _ => true
  | _ => false

theorem beginEvs_noEnd (t : Tid) (o : Ob) (c : Nat) : ∀ ev ∈ beginEvs t o c, ev.isEnd = false := by
  intro ev hev; cases o <;> simp [beginEvs] at hev
  · subst hev; rfl
  · rcases hev with rfl | rfl <;> rfl

/-- an `exec` step appends no end-of-call event -/
theorem Tr.hist_ext' {s s1 : Sys} {t : Tid} {i : Instr} {new : List Instr} (h : Tr s t i s1 new) :
    ∃ evs, s1.hist = s.hist ++ evs ∧ ∀ ev ∈ evs, ev.isEnd = false := by
  cases h with
  | quiet _ hh =>
    rcases hh with hh | hh
    · exact ⟨[], by simp [hh], by simp⟩
    · exact ⟨_, hh, by simp [HEv.isEnd]⟩
  | dropO _ hh => exact ⟨_, hh, by simp [HEv.isEnd]⟩
  | deliver _ _ _ _ hh => exact ⟨_, hh, by simp [HEv.isEnd]⟩
  | putR _ _ _ _ _ hh => exact ⟨_, hh, by simp [HEv.isEnd]⟩
  | push _ hh => exact ⟨_, hh, beginEvs_noEnd _ _ _⟩
  | snap _ hh => exact ⟨_, hh, by simp [HEv.isEnd]⟩
  | rel _ _ _ hh => exact ⟨[], by simp [hh], by simp⟩

/-- what `exec` puts at the head contains `mPubEnd` only in the `acqSnap` case -/
theorem Tr.new_pubEnd {s s1 : Sys} {t : Tid} {i : Instr} {new : List Instr} (h : Tr s t i s1 new) {e p : Nat}
    (hm : Instr.mPubEnd e p ∈ new) :
    i = .acqSnap e ∧ p = s.nextId ∧ s1.hist = s.hist ++ [HEv.pubBegin t e s.nextId] := by
  cases h with
  | quiet _ _ _ _ _ hnew => have := (hnew _ hm).1.2.1; simp [Instr.isPubEnd] at this
  | dropO => cases hm
  | deliver _ _ _ _ _ _ _ _ hnew => rcases hnew with rfl | ⟨k, rfl⟩ <;> simp at hm
  | putR => simp at hm
  | push => simp at hm
  | snap e' hh => simp at hm; obtain ⟨rfl, rfl⟩ := hm; exact ⟨rfl, rfl, hh⟩
  | rel snap e' p' =>
    rcases List.mem_append.1 hm with hm | hm
    · obtain ⟨x, _, hx⟩ := mem_flatMap_deliver hm
      have := (deliverInstrs_subj x _ _ _ hx).2.1; simp [Instr.isPubEnd] at this
    · simp at hm

theorem eo_endNot {s s' s1 : Sys} {t : Tid} {i : Instr} {rest new : List Instr} (E : E1 s) (O : EO s)
    (C : ExecCtx s s' t i rest new s1) :
    ∀ u e p, Instr.mPubEnd e p ∈ (s'.thr u).cont → HEv.pubEnd u e p ∉ s'.hist := by
  obtain ⟨evs, hevs, hne⟩ := C.tr.hist_ext'
  intro u e p hm hin
  rw [C.hist, hevs] at hin
  have hin' : HEv.pubEnd u e p ∈ s.hist := by
    rcases List.mem_append.1 hin with h | h
    · exact h
    · have := hne _ h; simp [HEv.isEnd] at this
  rw [C.cont] at hm
  split at hm
  · rename_i hut; subst hut
    rcases List.mem_append.1 hm with hm | hm
    · obtain ⟨_, rfl, _⟩ := C.tr.new_pubEnd hm
      have := E.bHist _ hin' s.nextId (by simp [HEv.ids])
      exact Nat.lt_irrefl _ this
    · exact O.endNot u e p (by rw [C.hc]; exact List.mem_cons_of_mem _ hm) hin'
  · exact O.endNot u e p hm hin'

end CG.Model.Rx

namespace CG.Model.Rx
open CG.Spec.EventSpec

theorem beginEvs_mem (t : Tid) (o : Ob) (c : Nat) : HEv.subBegin t o c ∈ beginEvs t o c := by
  cases o <;> simp [beginEvs]

theorem contPend_bland {l : List Instr} (h : ∀ j ∈ l, j.bland) : contPend l = [] := by
  induction l with
  | nil => rfl
  | cons x xs ih =>
    rw [contPend_cons, (h x List.mem_cons_self).1, ih (fun j hj => h j (List.mem_cons_of_mem _ hj))]; rfl

/-- the deliveries owed by what `exec` puts at the head were owed by the instruction executed, or are the
    snapshot just taken -/
theorem Tr.new_pend {s s1 : Sys} {t : Tid} {i : Instr} {new : List Instr} (h : Tr s t i s1 new)
    {ob : Ob} {c e p : Nat} (hm : (ob, c, e, p) ∈ contPend new) :
    (ob, c, e, p) ∈ i.pend ∨ (i = .acqSnap e ∧ p = s.nextId ∧ (⟨ob, c⟩ : Entry) ∈ s.observers ∧ physAlive s ob = true) := by
  cases h with
  | quiet _ _ _ _ _ hnew => rw [contPend_bland (fun j hj => (hnew j hj).1)] at hm; cases hm
  | dropO => cases hm
  | deliver _ _ _ _ _ _ _ _ hnew => rcases hnew with rfl | ⟨k, rfl⟩ <;> simp [contPend, Instr.pend] at hm
  | putR => simp [contPend, Instr.pend] at hm
  | push => simp [contPend, Instr.pend] at hm
  | snap e' =>
    right
    simp [contPend, Instr.pend] at hm
    obtain ⟨x, ⟨hx1, hx2⟩, rfl, rfl, rfl, rfl⟩ := hm
    exact ⟨rfl, rfl, hx1, hx2⟩
  | rel snap e' p' =>
    left
    rw [contPend_append, contPend_flatMap_deliver] at hm
    simpa [contPend, Instr.pend] using hm

theorem Tr.new_subRet {s s1 : Sys} {t : Tid} {i : Instr} {new : List Instr} (h : Tr s t i s1 new) {o : Ob} {c : Nat}
    (hm : Instr.mSubRet o c ∈ new) : i = .acqPush o ∧ c = s.nextId ∧ s1.hist = s.hist ++ beginEvs t o s.nextId := by
  cases h with
  | quiet _ _ _ _ _ hnew => exact absurd rfl ((hnew _ hm).1.2.2.1 o c)
  | dropO => cases hm
  | deliver _ _ _ _ _ _ _ _ hnew => rcases hnew with rfl | ⟨k, rfl⟩ <;> simp at hm
  | putR => simp at hm
  | push o' hh => simp at hm; obtain ⟨rfl, rfl⟩ := hm; exact ⟨rfl, rfl, hh⟩
  | snap => simp at hm
  | rel snap e' p' =>
    rcases List.mem_append.1 hm with hm | hm
    · obtain ⟨x, _, hx⟩ := mem_flatMap_deliver hm
      cases x with | mk ob c' => cases ob <;> simp [deliverInstrs] at hx
    · simp at hm

theorem mem_cont_of_rest {s : Sys} {t : Tid} {i j : Instr} {rest : List Instr} (hc : (s.thr t).cont = i :: rest)
    (hj : j ∈ rest) : j ∈ (s.thr t).cont := by rw [hc]; exact List.mem_cons_of_mem _ hj

theorem pend_of_rest {s : Sys} {t : Tid} {i : Instr} {rest : List Instr} (hc : (s.thr t).cont = i :: rest)
    {x : Ob × Nat × Nat × Nat} (hx : x ∈ contPend rest) : x ∈ contPend (s.thr t).cont := by
  rw [hc, contPend_cons]; exact List.mem_append_right _ hx

theorem pend_of_head {s : Sys} {t : Tid} {i : Instr} {rest : List Instr} (hc : (s.thr t).cont = i :: rest)
    {x : Ob × Nat × Nat × Nat} (hx : x ∈ i.pend) : x ∈ contPend (s.thr t).cont := by
  rw [hc, contPend_cons]; exact List.mem_append_left _ hx

theorem eo_members {s s' s1 : Sys} {t : Tid} {i : Instr} {rest new : List Instr} (E : E1 s) (O : EO s)
    (C : ExecCtx s s' t i rest new s1) :
    (∀ u e p, Instr.mPubEnd e p ∈ (s'.thr u).cont → HEv.pubBegin u e p ∈ s'.hist) ∧
    (∀ x ∈ s'.observers, ∃ t', HEv.subBegin t' x.ob x.c ∈ s'.hist) ∧
    (∀ u ob c e p, (ob, c, e, p) ∈ contPend (s'.thr u).cont → ∃ t', HEv.subBegin t' ob c ∈ s'.hist) ∧
    (∀ u o c, Instr.mSubRet o c ∈ (s'.thr u).cont → HEv.subBegin u o c ∈ s'.hist) ∧
    (∀ u o c, HEv.subRet u o c ∈ s'.hist → HEv.subBegin u o c ∈ s'.hist) ∧
    (∀ o, s'.owner o = false → ∃ u, HEv.dropO u o ∈ s'.hist) := by
  obtain ⟨evs, hevs, hne⟩ := C.tr.hist_ext'
  have mono : ∀ ev, ev ∈ s.hist → ev ∈ s'.hist := fun ev h => by rw [C.hist, hevs]; exact List.mem_append_left _ h
  have hsubOf : ∀ x ∈ s.observers, ∃ t', HEv.subBegin t' x.ob x.c ∈ s'.hist := fun x hx => by
    obtain ⟨t', h⟩ := O.subOf x hx; exact ⟨t', mono _ h⟩
  refine ⟨?_, ?_, ?_, ?_, ?_, ?_⟩
  · intro u e p hm
    rw [C.cont] at hm; split at hm
    · rename_i hut; subst hut
      rcases List.mem_append.1 hm with hm | hm
      · obtain ⟨rfl, rfl, hh⟩ := C.tr.new_pubEnd hm
        rw [C.hist, hh]; simp
      · exact mono _ (O.begun u e p (mem_cont_of_rest C.hc hm))
    · exact mono _ (O.begun u e p hm)
  · intro x hx
    rw [C.obs] at hx
    cases C.tr with
    | quiet _ _ ho => rw [ho] at hx; exact hsubOf x hx
    | dropO _ _ ho => rw [ho] at hx; exact hsubOf x hx
    | deliver _ _ _ _ _ ho => rw [ho] at hx; exact hsubOf x hx
    | putR _ _ _ _ _ _ ho => rw [ho] at hx; exact hsubOf x hx
    | push o hh ho =>
      rw [ho] at hx
      rcases List.mem_append.1 hx with hx | hx
      · exact hsubOf x hx
      · simp at hx; subst hx
        exact ⟨t, by rw [C.hist, hh]; exact List.mem_append_right _ (beginEvs_mem _ _ _)⟩
    | snap _ _ ho => rw [ho] at hx; exact hsubOf x (List.mem_filter.1 hx).1
    | rel _ _ _ _ ho => rw [ho] at hx; exact hsubOf x hx
  · intro u ob c e p hm
    rw [C.cont] at hm; split at hm
    · rename_i hut; subst hut
      rw [contPend_append] at hm
      rcases List.mem_append.1 hm with hm | hm
      · rcases C.tr.new_pend hm with h | ⟨_, _, hx, _⟩
        · obtain ⟨t', h⟩ := O.pendSub u ob c e p (pend_of_head C.hc h); exact ⟨t', mono _ h⟩
        · exact hsubOf ⟨ob, c⟩ hx
      · obtain ⟨t', h⟩ := O.pendSub u ob c e p (pend_of_rest C.hc hm); exact ⟨t', mono _ h⟩
    · obtain ⟨t', h⟩ := O.pendSub u ob c e p hm; exact ⟨t', mono _ h⟩
  · intro u o c hm
    rw [C.cont] at hm; split at hm
    · rename_i hut; subst hut
      rcases List.mem_append.1 hm with hm | hm
      · obtain ⟨rfl, rfl, hh⟩ := C.tr.new_subRet hm
        rw [C.hist, hh]; exact List.mem_append_right _ (beginEvs_mem _ _ _)
      · exact mono _ (O.retSub u o c (mem_cont_of_rest C.hc hm))
    · exact mono _ (O.retSub u o c hm)
  · intro u o c hm
    rw [C.hist, hevs] at hm
    rcases List.mem_append.1 hm with h | h
    · exact mono _ (O.retHist u o c h)
    · have := hne _ h; simp [HEv.isEnd] at this
  · intro o ho
    rw [C.own] at ho
    cases C.tr with
    | quiet _ _ _ hw => rw [hw] at ho; obtain ⟨u, h⟩ := O.dropped o ho; exact ⟨u, mono _ h⟩
    | dropO o' hh _ hw =>
      rw [hw] at ho
      by_cases hoo : o = o'
      · subst hoo; exact ⟨t, by rw [C.hist, hh]; simp⟩
      · rw [upd_other _ _ _ _ hoo] at ho; obtain ⟨u, h⟩ := O.dropped o ho; exact ⟨u, mono _ h⟩
    | deliver _ _ _ _ _ _ hw => rw [hw] at ho; obtain ⟨u, h⟩ := O.dropped o ho; exact ⟨u, mono _ h⟩
    | putR _ _ _ _ _ _ _ hw => rw [hw] at ho; obtain ⟨u, h⟩ := O.dropped o ho; exact ⟨u, mono _ h⟩
    | push _ _ _ hw => rw [hw] at ho; obtain ⟨u, h⟩ := O.dropped o ho; exact ⟨u, mono _ h⟩
    | snap _ _ _ hw => rw [hw] at ho; obtain ⟨u, h⟩ := O.dropped o ho; exact ⟨u, mono _ h⟩
    | rel _ _ _ _ _ hw => rw [hw] at ho; obtain ⟨u, h⟩ := O.dropped o ho; exact ⟨u, mono _ h⟩

end CG.Model.Rx
namespace CG.Model.Rx
open CG.Spec.EventSpec

def HEv.isPubBegin : HEv → Bool
  | .pubBegin _ _ _ => true
  | _ => false

theorem getElem?_append_ge_mem {α : Type} {h evs : List α} {i : Nat} {x : α} (hx : (h ++ evs)[i]? = some x)
    (hi : h.length ≤ i) : x ∈ evs := by
  rw [List.getElem?_append_right hi] at hx
  exact List.mem_of_getElem? hx

/-- `pubBegin` identifiers stay unique when no `pubBegin` is appended -/
theorem pubUniq_append {h evs : Hist}
    (hold : ∀ (i i' t t' e e' p : Nat), h[i]? = some (HEv.pubBegin t e p) → h[i']? = some (HEv.pubBegin t' e' p) → i = i' ∧ t = t')
    (hno : ∀ ev ∈ evs, ev.isPubBegin = false) :
    ∀ (i i' t t' e e' p : Nat), (h ++ evs)[i]? = some (HEv.pubBegin t e p) →
      (h ++ evs)[i']? = some (HEv.pubBegin t' e' p) → i = i' ∧ t = t' := by
  intro i i' t t' e e' p h1 h2
  by_cases hi : i < h.length
  · by_cases hi' : i' < h.length
    · rw [getElem?_append_lt h evs i hi] at h1; rw [getElem?_append_lt h evs i' hi'] at h2
      exact hold i i' t t' e e' p h1 h2
    · have := hno _ (getElem?_append_ge_mem h2 (Nat.le_of_not_lt hi')); simp [HEv.isPubBegin] at this
  · have := hno _ (getElem?_append_ge_mem h1 (Nat.le_of_not_lt hi)); simp [HEv.isPubBegin] at this

/-- … and when one with a fresh identifier is -/
theorem pubUniq_snoc {h : Hist} {t₀ e₀ p₀ : Nat}
    (hold : ∀ (i i' t t' e e' p : Nat), h[i]? = some (HEv.pubBegin t e p) → h[i']? = some (HEv.pubBegin t' e' p) → i = i' ∧ t = t')
    (hfresh : ∀ ev ∈ h, p₀ ∉ ev.ids) :
    ∀ (i i' t t' e e' p : Nat), (h ++ [HEv.pubBegin t₀ e₀ p₀])[i]? = some (HEv.pubBegin t e p) →
      (h ++ [HEv.pubBegin t₀ e₀ p₀])[i']? = some (HEv.pubBegin t' e' p) → i = i' ∧ t = t' := by
  intro i i' t t' e e' p h1 h2
  rcases getElem?_snoc h1 with g1 | ⟨hi, g1⟩
  · rcases getElem?_snoc h2 with g2 | ⟨hi', g2⟩
    · exact hold i i' t t' e e' p g1 g2
    · injection g2 with _ _ hp; subst hp
      exact absurd (by simp [HEv.ids]) (hfresh _ (List.mem_of_getElem? g1))
  · rcases getElem?_snoc h2 with g2 | ⟨hi', g2⟩
    · injection g1 with _ _ hp; subst hp
      exact absurd (by simp [HEv.ids]) (hfresh _ (List.mem_of_getElem? g2))
    · injection g1 with ht _ _; injection g2 with ht' _ _
      exact ⟨by rw [hi, hi'], by rw [ht, ht']⟩

theorem beginEvs_noPubBegin (t : Tid) (o : Ob) (c : Nat) : ∀ ev ∈ beginEvs t o c, ev.isPubBegin = false := by
  intro ev hev; cases o <;> simp [beginEvs] at hev
  · subst hev; rfl
  · rcases hev with rfl | rfl <;> rfl

theorem eo_pubUniq {s s' s1 : Sys} {t : Tid} {i : Instr} {rest new : List Instr} (E : E1 s) (O : EO s)
    (C : ExecCtx s s' t i rest new s1) :
    ∀ (i i' t t' e e' p : Nat), s'.hist[i]? = some (HEv.pubBegin t e p) →
      s'.hist[i']? = some (HEv.pubBegin t' e' p) → i = i' ∧ t = t' := by
  rw [C.hist]
  cases C.tr with
  | quiet _ hh =>
    rcases hh with hh | hh
    · rw [hh]; exact O.pubUniq
    · rw [hh]; exact pubUniq_append O.pubUniq (by simp [HEv.isPubBegin])
  | dropO _ hh => rw [hh]; exact pubUniq_append O.pubUniq (by simp [HEv.isPubBegin])
  | deliver _ _ _ _ hh => rw [hh]; exact pubUniq_append O.pubUniq (by simp [HEv.isPubBegin])
  | putR _ _ _ _ _ hh => rw [hh]; exact pubUniq_append O.pubUniq (by simp [HEv.isPubBegin])
  | push _ hh => rw [hh]; exact pubUniq_append O.pubUniq (beginEvs_noPubBegin _ _ _)
  | snap _ hh =>
    rw [hh]
    exact pubUniq_snoc O.pubUniq (fun ev hev hin => Nat.lt_irrefl _ (E.bHist ev hev _ hin))
  | rel _ _ _ hh => rw [hh]; exact O.pubUniq

theorem eo_obsNodup {s s' s1 : Sys} {t : Tid} {i : Instr} {rest new : List Instr} (E : E1 s) (O : EO s)
    (C : ExecCtx s s' t i rest new s1) : (s'.observers.map (·.c)).Nodup := by
  rw [C.obs]
  cases C.tr with
  | quiet _ _ ho => rw [ho]; exact O.obsNodup
  | dropO _ _ ho => rw [ho]; exact O.obsNodup
  | deliver _ _ _ _ _ ho => rw [ho]; exact O.obsNodup
  | putR _ _ _ _ _ _ ho => rw [ho]; exact O.obsNodup
  | push _ _ ho =>
    rw [ho, List.map_append, List.nodup_append]
    refine ⟨O.obsNodup, by simp, ?_⟩
    intro a ha b hb
    simp at hb; subst hb
    obtain ⟨x, hx, rfl⟩ := List.mem_map.1 ha
    exact Nat.ne_of_lt (E.bObs x hx)
  | snap _ _ ho => rw [ho]; exact O.obsNodup.sublist ((List.filter_sublist).map _)
  | rel _ _ _ _ ho => rw [ho]; exact O.obsNodup

end CG.Model.Rx

namespace CG.Model.Rx
open CG.Spec.EventSpec

theorem eo_pendNodup {s s' s1 : Sys} {t : Tid} {i : Instr} {rest new : List Instr} (E : E1 s) (O : EO s)
    (C : ExecCtx s s' t i rest new s1) :
    ∀ u, ((contPend (s'.thr u).cont).map (fun x => x.2.1)).Nodup := by
  intro u
  rw [C.cont]
  split
  · rename_i hut; subst hut
    have hold := O.pendNodup u
    rw [C.hc, contPend_cons, List.map_append] at hold
    rw [contPend_append, List.map_append]
    cases C.tr with
    | quiet hi _ _ _ _ hnew =>
      rw [contPend_bland (fun j hj => (hnew j hj).1)]; rw [hi.1] at hold; simpa using hold
    | dropO => simpa [contPend, Instr.pend] using hold
    | deliver _ _ _ _ _ _ _ _ hnew =>
      have : contPend new = [] := by rcases hnew with rfl | ⟨k, rfl⟩ <;> simp [contPend, Instr.pend]
      rw [this]; simp only [List.map_nil, List.nil_append]
      exact (List.nodup_append.1 hold).2.1
    | putR =>
      simp only [contPend, Instr.pend, List.flatMap_cons, List.flatMap_nil, List.append_nil, List.map_nil, List.nil_append]
      exact (List.nodup_append.1 hold).2.1
    | push => simpa [contPend, Instr.pend] using hold
    | snap e =>
      have hrest : rest = [] := by
        have := E.snapAlone u e (by rw [C.hc]; exact List.mem_cons_self)
        rw [C.hc] at this; injection this
      subst hrest
      simp only [contPend, Instr.pend, List.flatMap_cons, List.flatMap_nil, List.append_nil, List.map_map, List.map_nil]
      exact O.obsNodup.sublist ((List.filter_sublist).map _)
    | rel snap e p =>
      rw [contPend_append, contPend_flatMap_deliver]
      simpa [contPend, Instr.pend] using hold
  · exact O.pendNodup u

theorem physAlive_of_owner {s : Sys} {o : Nat} (h : s.owner o = true) : physAlive s (.user o) = true := by
  simp [physAlive, h]

theorem eo_inList {s s' s1 : Sys} {t : Tid} {i : Instr} {rest new : List Instr} (O : EO s)
    (C : ExecCtx s s' t i rest new s1) :
    ∀ t' o c, HEv.subBegin t' (.user o) c ∈ s'.hist → s'.owner o = true → (⟨.user o, c⟩ : Entry) ∈ s'.observers := by
  intro t' o c hm ho
  rw [C.hist] at hm; rw [C.own] at ho; rw [C.obs]
  cases C.tr with
  | quiet _ hh hob hw =>
    rw [hw] at ho; rw [hob]
    rcases hh with hh | hh
    · rw [hh] at hm; exact O.inList t' o c hm ho
    · rw [hh] at hm; simp at hm; exact O.inList t' o c hm ho
  | dropO o' hh hob hw =>
    rw [hob]; rw [hh] at hm; simp at hm
    have : s.owner o = true := by
      rw [hw] at ho; by_cases h : o = o'
      · subst h; simp at ho
      · rwa [upd_other _ _ _ _ h] at ho
    exact O.inList t' o c hm this
  | deliver _ _ _ _ hh hob hw => rw [hw] at ho; rw [hob]; rw [hh] at hm; simp at hm; exact O.inList t' o c hm ho
  | putR _ _ _ _ _ hh hob hw => rw [hw] at ho; rw [hob]; rw [hh] at hm; simp at hm; exact O.inList t' o c hm ho
  | push ob hh hob hw =>
    rw [hw] at ho; rw [hob]; rw [hh] at hm
    rcases List.mem_append.1 hm with hm | hm
    · exact List.mem_append_left _ (O.inList t' o c hm ho)
    · apply List.mem_append_right
      cases ob <;> simp [beginEvs] at hm
      · obtain ⟨_, rfl, rfl⟩ := hm; simp
  | snap _ hh hob hw =>
    rw [hw] at ho; rw [hob]; rw [hh] at hm; simp at hm
    exact List.mem_filter.2 ⟨O.inList t' o c hm ho, by simpa using physAlive_of_owner ho⟩
  | rel _ _ _ hh hob hw => rw [hw] at ho; rw [hob]; rw [hh] at hm; exact O.inList t' o c hm ho

end CG.Model.Rx

namespace CG.Model.Rx
open CG.Spec.EventSpec

theorem isDel_ids {ev : HEv} {c p : Nat} (h : ev.isDel c p = true) : p ∈ ev.ids := by
  cases ev <;> simp [HEv.isDel] at h
  simp [HEv.ids, h.2]

theorem beginEvs_noDel (t : Tid) (o : Ob) (c c' p : Nat) : ∀ ev ∈ beginEvs t o c, ev.isDel c' p = false := by
  intro ev hev; cases o <;> simp [beginEvs] at hev
  · subst hev; rfl
  · rcases hev with rfl | rfl <;> rfl

/-- two threads cannot both owe deliveries of the same publication -/
theorem pend_same_pub_same_thread {s : Sys} (E : E1 s) (O : EO s) {u t : Tid} {ob ob' : Ob} {c c' e e' p : Nat}
    (hu : (ob, c, e, p) ∈ contPend (s.thr u).cont) (ht : (ob', c', e', p) ∈ contPend (s.thr t).cont) : u = t := by
  have h1 := O.begun u e p (E.pendEnd u ob c e p hu)
  have h2 := O.begun t e' p (E.pendEnd t ob' c' e' p ht)
  obtain ⟨i, hi⟩ := List.mem_iff_getElem?.1 h1
  obtain ⟨i', hi'⟩ := List.mem_iff_getElem?.1 h2
  exact (O.pubUniq i i' u t e e' p hi hi').2

theorem eo_pendFresh {s s' s1 : Sys} {t : Tid} {i : Instr} {rest new : List Instr} (E : E1 s) (O : EO s)
    (C : ExecCtx s s' t i rest new s1) :
    ∀ u ob c e p, (ob, c, e, p) ∈ contPend (s'.thr u).cont → ∀ ev ∈ s'.hist, ev.isDel c p = false := by
  intro u ob c e p hm ev hev
  rw [C.hist] at hev
  -- where does the owed delivery come from?
  have hsrc : (ob, c, e, p) ∈ contPend (s.thr u).cont ∧ (u = t → (ob, c, e, p) ∈ i.pend ∨ (ob, c, e, p) ∈ contPend rest) ∨
      (u = t ∧ i = .acqSnap e ∧ p = s.nextId) := by
    rw [C.cont] at hm; split at hm
    · rename_i hut; subst hut
      rw [contPend_append] at hm
      rcases List.mem_append.1 hm with hm | hm
      · rcases C.tr.new_pend hm with h | ⟨h1, h2, _, _⟩
        · exact .inl ⟨pend_of_head C.hc h, fun _ => .inl h⟩
        · exact .inr ⟨rfl, h1, h2⟩
      · exact .inl ⟨pend_of_rest C.hc hm, fun _ => .inr hm⟩
    · rename_i hut; exact .inl ⟨hm, fun h => absurd h hut⟩
  cases hdel : ev.isDel c p with
  | false => rfl
  | true =>
    exfalso
    rcases hsrc with ⟨hold, hwhere⟩ | ⟨rfl, hi, hp⟩
    · -- an old obligation
      have hnotold : ev ∉ s.hist := fun h => by
        have := O.pendFresh u ob c e p hold ev h; rw [hdel] at this; cases this
      cases C.tr with
      | quiet _ hh =>
        rcases hh with hh | hh
        · rw [hh] at hev; exact hnotold hev
        · rw [hh] at hev; simp at hev; rcases hev with h | rfl
          · exact hnotold h
          · simp [HEv.isDel] at hdel
      | dropO _ hh =>
        rw [hh] at hev; simp at hev; rcases hev with h | rfl
        · exact hnotold h
        · simp [HEv.isDel] at hdel
      | deliver o' c' e' p' hh _ _ _ hnew =>
        rw [hh] at hev; simp at hev; rcases hev with h | rfl
        · exact hnotold h
        · simp [HEv.isDel] at hdel
          obtain ⟨rfl, rfl⟩ := hdel
          have hhead : (Ob.user o', c', e', p') ∈ contPend (s.thr t).cont := pend_of_head C.hc (by simp [Instr.pend])
          have hut : u = t := pend_same_pub_same_thread E O hold hhead
          rcases hwhere hut with h | h
          · -- it is the head's own obligation: but the head has been consumed
            subst hut
            have hnd := O.pendNodup u
            rw [C.hc, contPend_cons] at hnd
            simp [Instr.pend] at h
            obtain ⟨rfl, rfl, rfl⟩ := h
            -- the obligation still present after the step must sit in `rest`
            rw [C.cont, if_pos rfl, contPend_append] at hm
            have hnewp : contPend new = [] := by rcases hnew with rfl | ⟨k, rfl⟩ <;> simp [contPend, Instr.pend]
            rw [hnewp] at hm
            simp [Instr.pend] at hnd
            simp at hm
            exact hnd.1 _ _ _ hm
          · subst hut
            have hnd := O.pendNodup u
            rw [C.hc, contPend_cons] at hnd
            simp [Instr.pend] at hnd
            exact hnd.1 _ _ _ h
      | putR a' k' c' e' p' hh =>
        rw [hh] at hev; simp at hev; rcases hev with h | rfl
        · exact hnotold h
        · simp [HEv.isDel] at hdel
          obtain ⟨rfl, rfl⟩ := hdel
          have hhead : (Ob.poller a' k', c', e', p') ∈ contPend (s.thr t).cont := pend_of_head C.hc (by simp [Instr.pend])
          have hut : u = t := pend_same_pub_same_thread E O hold hhead
          subst hut
          have hnd := O.pendNodup u
          rw [C.hc, contPend_cons] at hnd
          simp [Instr.pend] at hnd
          rw [C.cont, if_pos rfl, contPend_append] at hm
          have hm' : (ob, c', e, p') ∈ contPend rest := by simpa [contPend, Instr.pend] using hm
          exact hnd.1 _ _ _ hm' 
      | push _ hh =>
        rw [hh] at hev; rcases List.mem_append.1 hev with h | h
        · exact hnotold h
        · have := beginEvs_noDel _ _ _ c p ev h; rw [hdel] at this; cases this
      | snap _ hh =>
        rw [hh] at hev; simp at hev; rcases hev with h | rfl
        · exact hnotold h
        · simp [HEv.isDel] at hdel
      | rel _ _ _ hh => rw [hh] at hev; exact hnotold hev
    · -- the snapshot just taken: its publication identifier is fresh
      subst hi hp
      obtain ⟨evs, hevs, _⟩ := C.tr.hist_ext'
      have hrest : rest = [] := by
        have := E.snapAlone u e (by rw [C.hc]; exact List.mem_cons_self)
        rw [C.hc] at this; injection this
      rw [hevs] at hev
      rcases List.mem_append.1 hev with h | h
      · exact Nat.lt_irrefl _ (E.bHist ev h _ (isDel_ids hdel))
      · cases C.tr with
        | quiet hib hh =>
          rcases hh with hh | hh
          · rw [hh] at hevs
            have : evs = [] := by simpa using hevs
            subst this; cases h
          · rw [hh] at hevs
            have : evs = [HEv.noop u] := by simpa using hevs.symm
            subst this; simp at h; subst h; simp [HEv.isDel] at hdel
        | snap _ hh =>
          rw [hh] at hevs
          have : evs = [HEv.pubBegin u e s.nextId] := by simpa using hevs.symm
          subst this; simp at h; subst h; simp [HEv.isDel] at hdel

end CG.Model.Rx
namespace CG.Model.Rx
open CG.Spec.EventSpec

theorem eo_spec {s s' s1 : Sys} {t : Tid} {i : Instr} {rest new : List Instr} (E : E1 s) (O : EO s)
    (C : ExecCtx s s' t i rest new s1) : ExactlyOnce s'.hist := by
  rw [C.hist]
  -- facts about a delivery owed by the head instruction
  have hdel : ∀ (ob : Ob) (c e p : Nat), (ob, c, e, p) ∈ i.pend →
      ExactlyOnce (s.hist ++ [HEv.deliver t ob c e p]) := by
    intro ob c e p hp
    have hpend := pend_of_head C.hc hp
    refine exactlyOnce_snoc_deliver O.spec t ob c e p ?_ ?_ ?_ ?_
    · intro m t' e' hm
      have := O.pendFresh t ob c e p hpend _ (List.mem_of_getElem? hm)
      simp [HEv.isDel] at this
    · obtain ⟨t', h⟩ := O.pendSub t ob c e p hpend
      obtain ⟨k, hk⟩ := List.mem_iff_getElem?.1 h
      exact ⟨k, t', hk⟩
    · exact List.mem_iff_getElem?.1 (O.begun t e p (E.pendEnd t ob c e p hpend))
    · intro j hj
      exact O.endNot t e p (E.pendEnd t ob c e p hpend) (List.mem_of_getElem? hj)
  cases C.tr with
  | quiet _ hh =>
    rcases hh with hh | hh
    · rw [hh]; exact O.spec
    · rw [hh]; exact exactlyOnce_snoc_other O.spec _ (by simp) (by simp)
  | dropO _ hh => rw [hh]; exact exactlyOnce_snoc_other O.spec _ (by simp) (by simp)
  | deliver o c e p hh => rw [hh]; exact hdel _ _ _ _ (by simp [Instr.pend])
  | putR a k c e p hh => rw [hh]; exact hdel _ _ _ _ (by simp [Instr.pend])
  | push ob hh =>
    rw [hh]
    cases ob with
    | user o => exact exactlyOnce_snoc_other O.spec _ (by simp) (by simp)
    | poller a k =>
      have : beginEvs t (Ob.poller a k) s.nextId = [HEv.pollBegin t k] ++ [HEv.subBegin t (Ob.poller a k) s.nextId] := rfl
      rw [this, ← List.append_assoc]
      exact exactlyOnce_snoc_other (exactlyOnce_snoc_other O.spec _ (by simp) (by simp)) _ (by simp) (by simp)
  | snap _ hh => rw [hh]; exact exactlyOnce_snoc_other O.spec _ (by simp) (by simp)
  | rel _ _ _ hh => rw [hh]; exact O.spec

end CG.Model.Rx

namespace CG.Model.Rx
open CG.Spec.EventSpec

theorem getElem?_append_old {α : Type} {h evs : List α} {i : Nat} {x : α} (hx : h[i]? = some x) :
    (h ++ evs)[i]? = some x := by
  rw [getElem?_append_lt h evs i (lt_of_getElem?_some hx)]; exact hx

theorem eo_prog {s s' s1 : Sys} {t : Tid} {i : Instr} {rest new : List Instr} (E : E1 s) (O : EO s)
    (C : ExecCtx s s' t i rest new s1) :
    ∀ (u e p i₀ : Nat), s'.hist[i₀]? = some (HEv.pubBegin u e p) → Instr.mPubEnd e p ∈ (s'.thr u).cont →
    ∀ (k t' o c : Nat), k < i₀ → s'.hist[k]? = some (HEv.subRet t' (.user o) c) → s'.owner o = true →
      (∃ m, i₀ < m ∧ s'.hist[m]? = some (HEv.deliver u (.user o) c e p)) ∨
      (Ob.user o, c, e, p) ∈ contPend (s'.thr u).cont := by
  obtain ⟨evs, hevs, hne⟩ := C.tr.hist_ext'
  intro u e p i₀ hb hm k t' o c hk hks ho
  rw [C.hist, hevs] at hb hks
  have hown : s.owner o = true := by
    rw [C.own] at ho
    cases C.tr with
    | quiet _ _ _ hw => rwa [hw] at ho
    | dropO o' _ _ hw =>
      rw [hw] at ho; by_cases h : o = o'
      · subst h; simp at ho
      · rwa [upd_other _ _ _ _ h] at ho
    | deliver _ _ _ _ _ _ hw => rwa [hw] at ho
    | putR _ _ _ _ _ _ _ hw => rwa [hw] at ho
    | push _ _ _ hw => rwa [hw] at ho
    | snap _ _ _ hw => rwa [hw] at ho
    | rel _ _ _ _ _ hw => rwa [hw] at ho
  by_cases hi0 : i₀ < s.hist.length
  · -- a publication that had begun before this step
    rw [getElem?_append_lt _ _ _ hi0] at hb
    rw [getElem?_append_lt _ _ _ (by omega)] at hks
    have hmold : Instr.mPubEnd e p ∈ (s.thr u).cont := by
      rw [C.cont] at hm; split at hm
      · rename_i hut; subst hut
        rcases List.mem_append.1 hm with hm | hm
        · obtain ⟨_, rfl, _⟩ := C.tr.new_pubEnd hm
          exact absurd (E.bHist _ (List.mem_of_getElem? hb) s.nextId (by simp [HEv.ids])) (Nat.lt_irrefl _)
        · exact mem_cont_of_rest C.hc hm
      · exact hm
    rcases O.prog u e p i₀ hb hmold k t' o c hk hks hown with ⟨m, hm1, hm2⟩ | hp
    · exact .inl ⟨m, hm1, by rw [C.hist, hevs]; exact getElem?_append_old hm2⟩
    · by_cases hut : u = t
      · subst hut
        rw [C.hc, contPend_cons] at hp
        rw [C.cont, if_pos rfl, contPend_append]
        rcases List.mem_append.1 hp with hp | hp
        · -- owed by the instruction just executed
          cases C.tr with
          | quiet hib => rw [hib.1] at hp; cases hp
          | dropO => simp [Instr.pend] at hp
          | deliver o' c' e' p' hh =>
            simp [Instr.pend] at hp
            obtain ⟨rfl, rfl, rfl, rfl⟩ := hp
            left
            refine ⟨s.hist.length, hi0, ?_⟩
            rw [C.hist, hh]; simp
          | putR => simp [Instr.pend] at hp
          | push => simp [Instr.pend] at hp
          | snap => simp [Instr.pend] at hp
          | rel snap e' p' =>
            right
            apply List.mem_append_left
            rw [contPend_append, contPend_flatMap_deliver]
            apply List.mem_append_left
            simpa [Instr.pend] using hp
        · exact .inr (List.mem_append_right _ hp)
      · right; rw [C.cont, if_neg hut]; exact hp
  · -- the publication begins with this very step: the snapshot contains every returned subscription
    have hin := getElem?_append_ge_mem hb (Nat.le_of_not_lt hi0)
    cases C.tr with
    | quiet _ hh =>
      rcases hh with hh | hh
      · rw [hh] at hevs
        have hevs' := List.append_cancel_left (hevs.symm.trans (List.append_nil _).symm)
        subst hevs'; cases hin
      · rw [hh] at hevs; have hevs' := List.append_cancel_left hevs
        subst hevs'; simp at hin
    | dropO _ hh => rw [hh] at hevs; have hevs' := List.append_cancel_left hevs
                    subst hevs'; simp at hin
    | deliver _ _ _ _ hh => rw [hh] at hevs; have hevs' := List.append_cancel_left hevs
                            subst hevs'; simp at hin
    | putR _ _ _ _ _ hh => rw [hh] at hevs; have hevs' := List.append_cancel_left hevs
                           subst hevs'; simp at hin
    | push ob hh =>
      rw [hh] at hevs; have hevs' := List.append_cancel_left hevs
      subst hevs'
      have := beginEvs_noPubBegin _ _ _ _ hin; simp [HEv.isPubBegin] at this
    | rel _ _ _ hh =>
      rw [hh] at hevs
      have hevs' := List.append_cancel_left (hevs.symm.trans (List.append_nil _).symm)
      subst hevs'; cases hin
    | snap e₀ hh =>
      rw [hh] at hevs; have hevs' := List.append_cancel_left hevs
      subst hevs'
      simp at hin
      obtain ⟨rfl, rfl, rfl⟩ := hin
      have hi0' : i₀ = s.hist.length := by
        have := lt_of_getElem?_some hb; simp at this; omega
      subst hi0'
      rw [getElem?_append_lt _ _ _ hk] at hks
      have hsb := O.retHist t' (.user o) c (List.mem_of_getElem? hks)
      have hinl := O.inList t' o c hsb hown
      right
      rw [C.cont, if_pos rfl, contPend_append]
      apply List.mem_append_left
      simp only [contPend, Instr.pend, List.flatMap_cons, List.flatMap_nil, List.append_nil, List.mem_map]
      exact ⟨⟨.user o, c⟩, List.mem_filter.2 ⟨hinl, by simpa using physAlive_of_owner hown⟩, rfl⟩

end CG.Model.Rx
namespace CG.Model.Rx
open CG.Spec.EventSpec

theorem EO_exec {s s' : Sys} {t : Tid} {i : Instr} {rest : List Instr} (A : HA s) (E : E1 s) (O : EO s)
    (hc : (s.thr t).cont = i :: rest) (h : exec s t i rest = some s') : EO s' := by
  obtain ⟨new, s1, C⟩ := execCtx_of A E hc h
  obtain ⟨m1, m2, m3, m4, m5, m6⟩ := eo_members E O C
  exact ⟨eo_endNot E O C, m1, eo_pubUniq E O C, m2, m3, m4, m5, m6, eo_obsNodup E O C, eo_pendNodup E O C,
    eo_pendFresh E O C, eo_inList O C, eo_prog E O C, eo_spec E O C⟩

/-- `EO` across a change of thread `t`'s continuation that appends at most one harmless event, keeps the
    observer list, the owner table and the ghost counter, and introduces no obligation. -/
theorem EO_shrink {s s' : Sys} {t : Tid} {c' : List Instr} {evs : Hist} (O : EO s)
    (hcont : ∀ u, (s'.thr u).cont = if u = t then c' else (s.thr u).cont)
    (hhist : s'.hist = s.hist ++ evs) (hobs : s'.observers = s.observers) (hown : s'.owner = s.owner)
    (hmem : ∀ j ∈ c', j ∈ (s.thr t).cont ∨ j.bland)
    (hpend : ∀ x ∈ contPend c', x ∈ contPend (s.thr t).cont)
    (hpend' : ∀ x ∈ contPend (s.thr t).cont, x ∈ contPend c')
    (hnd : ((contPend c').map (fun x => x.2.1)).Nodup)
    (hev : ∀ ev ∈ evs, ev.isPubBegin = false ∧ (∀ c p, ev.isDel c p = false) ∧ (∀ u o c, ev ≠ HEv.subBegin u o c) ∧
      (∀ u e p, ev = HEv.pubEnd u e p → u = t ∧ c' = []) ∧
      (∀ u o c, ev = HEv.subRet u o c → u = t ∧ Instr.mSubRet o c ∈ (s.thr t).cont))
    (hspec : ExactlyOnce (s.hist ++ evs)) : EO s' := by
  have mono : ∀ ev, ev ∈ s.hist → ev ∈ s'.hist := fun ev h => by rw [hhist]; exact List.mem_append_left _ h
  have memold : ∀ u j, j ∈ (s'.thr u).cont → (∀ o c, j = Instr.mSubRet o c ∨ True) →
      j ∈ (s.thr u).cont ∨ (u = t ∧ j.bland) := by
    intro u j hj _
    rw [hcont] at hj; split at hj
    · rename_i hut; subst hut
      rcases hmem j hj with h | h
      · exact .inl h
      · exact .inr ⟨rfl, h⟩
    · exact .inl hj
  have pendold : ∀ u x, x ∈ contPend (s'.thr u).cont → x ∈ contPend (s.thr u).cont := by
    intro u x hx
    rw [hcont] at hx; split at hx
    · rename_i hut; subst hut; exact hpend x hx
    · exact hx
  have pubEndOld : ∀ u e p, Instr.mPubEnd e p ∈ (s'.thr u).cont → Instr.mPubEnd e p ∈ (s.thr u).cont := by
    intro u e p hj
    rcases memold u _ hj (fun _ _ => .inr trivial) with h | ⟨_, h⟩
    · exact h
    · have := h.2.1; simp [Instr.isPubEnd] at this
  refine ⟨?_, ?_, ?_, ?_, ?_, ?_, ?_, ?_, ?_, ?_, ?_, ?_, ?_, ?_⟩
  · intro u e p hm hin
    rw [hhist] at hin
    rcases List.mem_append.1 hin with h | h
    · exact O.endNot u e p (pubEndOld u e p hm) h
    · obtain ⟨rfl, hc'⟩ := (hev _ h).2.2.2.1 u e p rfl
      rw [hcont, if_pos rfl, hc'] at hm; cases hm
  · intro u e p hm; exact mono _ (O.begun u e p (pubEndOld u e p hm))
  · rw [hhist]; exact pubUniq_append O.pubUniq (fun ev h => (hev ev h).1)
  · intro x hx; rw [hobs] at hx; obtain ⟨t', h⟩ := O.subOf x hx; exact ⟨t', mono _ h⟩
  · intro u ob c e p hm; obtain ⟨t', h⟩ := O.pendSub u ob c e p (pendold u _ hm); exact ⟨t', mono _ h⟩
  · intro u o c hm
    rcases memold u _ hm (fun _ _ => .inr trivial) with h | ⟨_, h⟩
    · exact mono _ (O.retSub u o c h)
    · exact absurd rfl (h.2.2.1 o c)
  · intro u o c hm
    rw [hhist] at hm
    rcases List.mem_append.1 hm with h | h
    · exact mono _ (O.retHist u o c h)
    · obtain ⟨rfl, hin⟩ := (hev _ h).2.2.2.2 u o c rfl
      exact mono _ (O.retSub u o c hin)
  · intro o ho; rw [hown] at ho; obtain ⟨u, h⟩ := O.dropped o ho; exact ⟨u, mono _ h⟩
  · rw [hobs]; exact O.obsNodup
  · intro u; rw [hcont]; split
    · exact hnd
    · exact O.pendNodup u
  · intro u ob c e p hm ev hin
    rw [hhist] at hin
    rcases List.mem_append.1 hin with h | h
    · exact O.pendFresh u ob c e p (pendold u _ hm) ev h
    · exact (hev ev h).2.1 c p
  · intro t' o c hm ho
    rw [hown] at ho; rw [hobs]
    rw [hhist] at hm
    rcases List.mem_append.1 hm with h | h
    · exact O.inList t' o c h ho
    · exact absurd rfl ((hev _ h).2.2.1 t' (.user o) c)
  · intro u e p i₀ hb hm k t' o c hk hks ho
    rw [hhist] at hb hks; rw [hown] at ho
    have hi0 : i₀ < s.hist.length := by
      apply Nat.lt_of_not_le; intro hle
      have := (hev _ (getElem?_append_ge_mem hb hle)).1; simp [HEv.isPubBegin] at this
    rw [getElem?_append_lt _ _ _ hi0] at hb
    rw [getElem?_append_lt _ _ _ (by omega)] at hks
    rcases O.prog u e p i₀ hb (pubEndOld u e p hm) k t' o c hk hks ho with ⟨m, hm1, hm2⟩ | hp
    · exact .inl ⟨m, hm1, by rw [hhist]; exact getElem?_append_old hm2⟩
    · right
      rw [hcont]; split
      · rename_i hut; subst hut; exact hpend' _ hp
      · exact hp
  · rw [hhist]; exact hspec

end CG.Model.Rx

namespace CG.Model.Rx
open CG.Spec.EventSpec

theorem marker_pend {m : Instr} (hm : m.isMarker = true) (hr : m.isRep = true) : m.pend = [] := by
  cases m <;> simp [Instr.isMarker, Instr.isRep] at hm hr <;> rfl

theorem EO_pop {s : Sys} {t : Tid} {m : Instr} {k : List Instr} (E : E1 s) (O : EO s) (hc : (s.thr t).cont = m :: k)
    (hm : m.isMarker = true) (hr : m.isRep = true) : EO (popMark s t m k) := by
  have hcont : ∀ u, ((popMark s t m k).thr u).cont = if u = t then k else (s.thr u).cont := by
    intro u; by_cases h : u = t
    · subst h; simp [popMark_cont s u m k hm hr]
    · simp [popMark_thr_other s t u m k h, h]
  have hpk : contPend (s.thr t).cont = contPend k := by rw [hc, contPend_cons, marker_pend hm hr]; rfl
  have hmemk : ∀ j ∈ k, j ∈ (s.thr t).cont ∨ j.bland := fun j hj => .inl (by rw [hc]; exact List.mem_cons_of_mem _ hj)
  have hnd : ((contPend k).map (fun x => x.2.1)).Nodup := by rw [← hpk]; exact O.pendNodup t
  cases m <;> simp [Instr.isMarker, Instr.isRep] at hm hr
  case mSubRet o c =>
    refine EO_shrink (evs := [HEv.subRet t o c]) O hcont rfl rfl rfl hmemk (by rw [hpk]; exact fun x h => h)
      (by rw [hpk]; exact fun x h => h) hnd ?_ (exactlyOnce_snoc_other O.spec _ (by simp) (by simp))
    intro ev hev; simp at hev; subst hev
    refine ⟨rfl, fun _ _ => rfl, by simp, by simp, ?_⟩
    intro u o' c' h; injection h with h1 h2 h3; subst h1 h2 h3
    exact ⟨rfl, by rw [hc]; exact List.mem_cons_self⟩
  case mSnapDrop snap =>
    refine EO_shrink (evs := []) O hcont (by simp [popMark, Sys.setCont_eq]) rfl rfl hmemk
      (by rw [hpk]; exact fun x h => h) (by rw [hpk]; exact fun x h => h) hnd (by simp) (by simpa using O.spec)
  case mPubEnd e p =>
    have hk : k = [] := endOk_pubEnd_head (by have := E.eok t; rwa [hc] at this)
    have hin : Instr.mPubEnd e p ∈ (s.thr t).cont := by rw [hc]; exact List.mem_cons_self
    refine EO_shrink (evs := [HEv.pubEnd t e p]) O hcont rfl rfl rfl hmemk (by rw [hpk]; exact fun x h => h)
      (by rw [hpk]; exact fun x h => h) hnd ?_ ?_
    · intro ev hev; simp at hev; subst hev
      refine ⟨rfl, fun _ _ => rfl, by simp, ?_, by simp⟩
      intro u e' p' h; injection h with h1 h2 h3; subst h1 h2 h3; exact ⟨rfl, hk⟩
    · refine exactlyOnce_snoc_pubEnd O.spec t e p (List.mem_iff_getElem?.1 (O.begun t e p hin)) ?_
      intro i hi kk t' o c hkk hks hal
      have hown : s.owner o = true := by
        cases ho : s.owner o with
        | true => rfl
        | false =>
          obtain ⟨u, hu⟩ := O.dropped o ho
          obtain ⟨m, hm⟩ := List.mem_iff_getElem?.1 hu
          exact absurd hm (hal m u (lt_of_getElem?_some hm))
      rcases O.prog t e p i hi hin kk t' o c hkk hks hown with ⟨m, hm1, hm2⟩ | hp
      · exact ⟨m, t, hm1, hm2⟩
      · rw [hpk, hk] at hp; simp [contPend] at hp
  case mPollRet i =>
    refine EO_shrink (evs := [HEv.pollRet t i (s.thr t).reg]) O hcont rfl rfl rfl hmemk (by rw [hpk]; exact fun x h => h)
      (by rw [hpk]; exact fun x h => h) hnd ?_ (exactlyOnce_snoc_other O.spec _ (by simp) (by simp))
    intro ev hev; simp at hev; subst hev
    exact ⟨rfl, fun _ _ => rfl, by simp, by simp, by simp⟩

end CG.Model.Rx

namespace CG.Model.Rx
open CG.Spec.EventSpec

theorem EO_expand {s : Sys} {t : Tid} (A : HA s) (E : E1 s) (O : EO s) (hc : (s.thr t).cont = []) :
    EO (expand s t) := by
  cases hp : (s.thr t).prog with
  | nil => rw [expand_nil s t hp]; exact O
  | cons op ops =>
    rw [expand_cons s t op ops hp]
    obtain ⟨hprops, _⟩ := opInstrs_subj s t op A.rep E.subj
    have hbl : ∀ j ∈ opInstrs s t op, j.bland := by
      intro j hj
      obtain ⟨_, h2, h3, h4⟩ := hprops j hj
      refine ⟨h3, h2, ?_, h4⟩
      intro o c hjc; rw [hjc] at h4; simp [Instr.ids] at h4
    have hcont : ∀ u, ((s.setThr t
        { s.thr t with prog := ops, opIdx := (s.thr t).opIdx + 1, cont := opInstrs s t op }).thr u).cont =
        if u = t then opInstrs s t op else (s.thr u).cont := by
      intro u; simp [upd_apply]; split <;> simp
    refine EO_shrink (evs := []) O hcont (by simp) rfl rfl (fun j hj => .inr (hbl j hj)) ?_ ?_ ?_ (by simp)
      (by simpa using O.spec)
    · rw [contPend_bland hbl]; intro x hx; cases hx
    · rw [hc]; intro x hx; simp [contPend] at hx
    · rw [contPend_bland hbl]; exact List.nodup_nil

/-- Part 4 invariant bundle -/
structure Inv4 (s : Sys) : Prop where
  g : Good s
  e : E1 s
  o : EO s

theorem Inv4_settle {s : Sys} {t : Tid} (I : Inv4 s) (fuel : Nat) : Inv4 (settle fuel s t) := by
  apply settle_ind Inv4 t _ _ _ fuel s I
  · intro s m k I hc hm hr
    exact ⟨⟨HA_pop I.g.a hc hm hr, HL_pop I.g.a I.g.l hc hm hr⟩, E1_pop I.e hc hm hr, EO_pop I.e I.o hc hm hr⟩
  · intro s I hc
    exact ⟨⟨HA_expand I.g.a hc, HL_expand I.g.a I.g.l hc⟩, E1_expand I.g.a I.e hc, EO_expand I.g.a I.e I.o hc⟩
  · intro s m k I hc; exact I.g.a.fam t m (by simp [hc])

theorem Inv4_step {s s' : Sys} {t : Tid} (I : Inv4 s) (h : step s t = some s') : Inv4 s' := by
  obtain ⟨ht, i, rest, s1, hc, he, rfl⟩ := step_eq h
  exact Inv4_settle ⟨⟨HA_exec I.g.a ht hc he, HL_exec I.g.a I.g.l ht hc he⟩, E1_exec I.g.a I.e ht hc he,
    EO_exec I.g.a I.e I.o hc he⟩ _

theorem EO_spur {s s' : Sys} {t : Tid} (O : EO s) (h : spur s t = some s') : EO s' := by
  obtain ⟨a, k, rest, hc, rfl⟩ := spur_eq h
  have hcont : ∀ u, ((s.setThr t { s.thr t with woken := true }).thr u).cont = (s.thr u).cont := by
    intro u; simp [upd_apply]; split <;> simp_all
  exact ⟨fun u => by rw [hcont]; exact O.endNot u, fun u => by rw [hcont]; exact O.begun u, O.pubUniq, O.subOf,
    fun u => by rw [hcont]; exact O.pendSub u, fun u => by rw [hcont]; exact O.retSub u, O.retHist, O.dropped,
    O.obsNodup, fun u => by rw [hcont]; exact O.pendNodup u, fun u => by rw [hcont]; exact O.pendFresh u, O.inList,
    fun u e p i hb hm => by rw [hcont] at hm ⊢; exact O.prog u e p i hb hm, O.spec⟩

theorem Inv4_act {s s' : Sys} {a : Act} (I : Inv4 s) (h : act s a = some s') : Inv4 s' := by
  cases a with
  | run t => exact Inv4_step I h
  | spur t => exact ⟨Good_spur I.g h, E1_spur I.e h, EO_spur I.o h⟩

end CG.Model.Rx

namespace CG.Model.Rx
open CG.Spec.EventSpec

theorem exactlyOnce_nil : ExactlyOnce [] := by
  constructor <;> intros <;> simp_all

theorem Inv4_init0 (behs : List Beh) (progs : List (List Op)) : Inv4 (init0 .repaired .subject behs progs) := by
  refine ⟨Good_init0 .subject behs progs, ?_, ?_⟩
  · refine ⟨rfl, ?_, ?_, ?_, ?_, ?_, ?_, ?_⟩ <;> intros <;> simp_all [init0, contPend, endOk]
  · refine ⟨?_, ?_, ?_, ?_, ?_, ?_, ?_, ?_, ?_, ?_, ?_, ?_, ?_, exactlyOnce_nil⟩ <;> intros <;>
      simp_all [init0, contPend]

theorem Inv4_startAll {s : Sys} (I : Inv4 s) (hc : ∀ t, (s.thr t).cont = []) : ∀ k, Inv4 (startAll k s) := by
  intro k
  induction k with
  | zero => exact I
  | succ k ih =>
    have h0 : ((startAll k s).thr k).cont = [] := by rw [startAll_thr_ge s k k (Nat.le_refl _)]; exact hc k
    exact ⟨⟨HA_expand ih.g.a h0, HL_expand ih.g.a ih.g.l h0⟩, E1_expand ih.g.a ih.e h0, EO_expand ih.g.a ih.e ih.o h0⟩

theorem Inv4_init (behs : List Beh) (progs : List (List Op)) : Inv4 (init .repaired .subject behs progs) := by
  rw [init_eq]
  exact Inv4_startAll (Inv4_init0 behs progs) (fun t => rfl) _

/-- every history of the repaired algorithm on a plain subject satisfies `ExactlyOnce` — any number of
    threads, any programs, any schedule (including spurious wake-ups) -/
theorem exactlyOnce_reach (behs : List Beh) (progs : List (List Op)) (sched : List Act) :
    ExactlyOnce (runActs (init .repaired .subject behs progs) sched).hist :=
  (runActs_inv Inv4 (fun _ _ _ I h => Inv4_act I h) sched _ (Inv4_init behs progs)).o.spec

end CG.Model.Rx
namespace CG.Model.Rx

/-- a thread inside `Condvar::wait` of a latch whose flag is set is not blocked for good: it can move, or
    a thread holding the latch mutex (the notifier, or whoever will release the mutex) can -/
theorem waiter_not_blocked {s : Sys} (I : Inv3 s) {t : Tid} {a k : Nat} (hw : waitingOn s t = some (a, k))
    (ho : s.lOpen a k = true) :
    enabled s t = true ∨ ∃ u, u < s.n ∧ s.lockL a k = some u ∧ enabled s u = true := by
  have A := I.g.a
  have L := I.g.l
  have hh : hd s t = some (.getReacq a k) := by
    unfold waitingOn at hw
    split at hw
    · rename_i a' k' r hc; simp at hw; obtain ⟨rfl, rfl⟩ := hw; simp [hd, hc]
    · cases hw
  have holder : ∀ u, s.lockL a k = some u → u < s.n ∧ enabled s u = true := by
    intro u hu
    obtain ⟨j, hj, hp⟩ := any_elim ((L.lL a k u).1 hu)
    have hun := lt_n_of_cont A hj
    cases hc : (s.thr u).cont with
    | nil => simp [hd, hc] at hj
    | cons j' r =>
      have : j' = j := by simpa [hd, hc] using hj
      subst this
      exact ⟨hun, enabled_of_execE hun hc (execE_alwaysOn s u (alwaysOn_of_holdsL hp))⟩
  cases hwk : (s.thr t).woken with
  | true =>
    cases hl : s.lockL a k with
    | none =>
      left
      have ht := lt_n_of_cont A hh
      cases hc : (s.thr t).cont with
      | nil => simp [hd, hc] at hh
      | cons j r =>
        have : j = .getReacq a k := by simpa [hd, hc] using hh
        subst this
        exact enabled_of_execE ht hc (by simp [execE, hwk, hl])
    | some u => exact .inr ⟨u, (holder u hl).1, rfl, (holder u hl).2⟩
  | false =>
    obtain ⟨u, hu⟩ := L.hw t a k hh ho hwk
    have hlu : s.lockL a k = some u := (L.lL a k u).2 (hd_some_any hu (by simp [Instr.holdsL]))
    exact .inr ⟨u, (holder u hlu).1, hlu, (holder u hlu).2⟩

end CG.Model.Rx

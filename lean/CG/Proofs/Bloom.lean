import CG.Model.Bloom
import CG.Spec.Bip37Bloom
/-!
Helper lemmas for C20: byte-level bit facts, the loops of `add`/`contains` against the BIP-37
reference, the `var_int`/`filterload` codec.
-/
namespace CG.Proofs.Bloom
open CG CG.Model.Bloom
open CG.Spec.Bip37Bloom (getBit setBitAt position positions seed)

/-! ### one-byte facts -/

theorem bitMask_toNat (k : Nat) (hk : k < 8) : (bitMask k).toNat = 2 ^ k := by
  have : ∀ k : Fin 8, (bitMask k.val).toNat = 2 ^ k.val := by decide
  exact this ⟨k, hk⟩

theorem setBit_toNat (b : UInt8) (k : Nat) (hk : k < 8) : (setBit b k).toNat = b.toNat ||| 2 ^ k := by
  simp [setBit, bitMask_toNat k hk]

theorem setBit_eq (b : UInt8) (k : Nat) (hk : k < 8) :
    setBit b k = UInt8.ofNat (b.toNat ||| 2 ^ k) := by
  rw [← setBit_toNat b k hk]; simp

theorem bitClear_eq (b : UInt8) (k : Nat) (hk : k < 8) : bitClear b k = !(b.toNat.testBit k) := by
  have h : ∀ (b : Fin 256) (k : Fin 8),
      bitClear (UInt8.ofNat b.val) k.val = !(b.val.testBit k.val) := by decide +kernel
  have := h ⟨b.toNat, b.toNat_lt⟩ ⟨k, hk⟩
  simpa using this

/-! ### bit fields -/

theorem setBitAt_length (flt : Bytes) (idx : Nat) : (setBitAt flt idx).length = flt.length := by
  unfold setBitAt; split <;> simp

theorem or_pow_lt (b : UInt8) (k : Nat) (hk : k < 8) : b.toNat ||| 2 ^ k < 256 := by
  have h1 : b.toNat < 2 ^ 8 := b.toNat_lt
  have h2 : 2 ^ k < 2 ^ 8 := Nat.pow_lt_pow_right (by decide) hk
  exact Nat.or_lt_two_pow h1 h2

theorem getBit_setBitAt (flt : Bytes) (idx j : Nat) (h : idx < 8 * flt.length) :
    getBit (setBitAt flt idx) j = (getBit flt j || decide (j = idx)) := by
  have hp : idx / 8 < flt.length := by omega
  have hk : idx % 8 < 8 := Nat.mod_lt _ (by decide)
  unfold setBitAt
  rw [List.getElem?_eq_getElem hp]
  simp only [getBit, List.getD_eq_getElem?_getD, List.getElem?_set]
  by_cases hj : idx / 8 = j / 8
  · have hp' : j / 8 < flt.length := by omega
    simp only [hj, if_true, hp', List.getElem?_eq_getElem hp', Option.getD_some]
    have hlt := or_pow_lt flt[idx / 8] (idx % 8) hk
    simp only [hj] at hlt
    rw [UInt8.toNat_ofNat', Nat.mod_eq_of_lt (by simpa using hlt), Nat.testBit_or, Nat.testBit_two_pow]
    congr 1
    have : (idx % 8 = j % 8) ↔ (j = idx) := by omega
    simp [this]
  · have : j ≠ idx := by intro e; subst e; exact hj rfl
    simp [hj, this]
theorem foldl_setBitAt_length (ps : List Nat) (flt : Bytes) :
    (ps.foldl setBitAt flt).length = flt.length := by
  induction ps generalizing flt with
  | nil => rfl
  | cons p ps ih => simp [List.foldl_cons, ih, setBitAt_length]

theorem getBit_foldl (ps : List Nat) (flt : Bytes) (j : Nat) (h : ∀ p ∈ ps, p < 8 * flt.length) :
    getBit (ps.foldl setBitAt flt) j = (getBit flt j || decide (j ∈ ps)) := by
  induction ps generalizing flt with
  | nil => simp
  | cons p ps ih =>
    rw [List.foldl_cons, ih]
    · rw [getBit_setBitAt _ _ _ (h p (by simp))]
      simp [Bool.or_assoc]
    · intro q hq
      rw [setBitAt_length]
      exact h q (by simp [hq])

theorem seedOf_eq (i tweak : Nat) : seedOf i tweak = seed i tweak := by
  unfold seedOf seed
  omega

theorem modulus_eq (dbg : Bool) (len : Nat) (hl : len < 2 ^ 29) : modulus dbg len = .ok (8 * len) := by
  unfold modulus
  have : len % 2 ^ 32 = len := Nat.mod_eq_of_lt (by omega)
  simp only [this]
  rw [if_pos (by omega)]
  congr 1
  omega

theorem bitIndex_eq (H : HashFn) (dbg : Bool) (len tweak : Nat) (data : Bytes) (i : Nat)
    (h0 : 0 < len) (hl : len < 2 ^ 29) :
    bitIndex H dbg len tweak data i = .ok (position H (8 * len) tweak data i) := by
  unfold bitIndex
  rw [modulus_eq dbg len hl]
  simp only
  rw [if_neg (by omega), seedOf_eq]
  rfl

theorem position_lt (H : HashFn) (n tweak : Nat) (data : Bytes) (i : Nat) (h : 0 < n) :
    position H n tweak data i < n := Nat.mod_lt _ h

theorem addStep_eq (H : HashFn) (dbg : Bool) (tweak : Nat) (data flt : Bytes) (i : Nat)
    (h0 : 0 < flt.length) (hl : flt.length < 2 ^ 29) :
    addStep H dbg tweak data flt i = .ok (setBitAt flt (position H (8 * flt.length) tweak data i)) := by
  unfold addStep
  rw [bitIndex_eq H dbg _ tweak data i h0 hl]
  have hp := position_lt H (8 * flt.length) tweak data i (by omega)
  have hq : position H (8 * flt.length) tweak data i / 8 < flt.length := by omega
  simp only [setBitAt, List.getElem?_eq_getElem hq]
  rw [setBit_eq _ _ (Nat.mod_lt _ (by decide))]

theorem addLoop_eq (H : HashFn) (dbg : Bool) (tweak : Nat) (data : Bytes) (k i : Nat) (flt : Bytes)
    (h0 : 0 < flt.length) (hl : flt.length < 2 ^ 29) :
    addLoop H dbg tweak data k i flt =
      .ok (((List.range' i k).map (position H (8 * flt.length) tweak data)).foldl setBitAt flt) := by
  induction k generalizing i flt with
  | zero => simp [addLoop]
  | succ k ih =>
    unfold addLoop
    rw [addStep_eq H dbg tweak data flt i h0 hl]
    simp only
    rw [ih (i + 1) _ (by rw [setBitAt_length]; exact h0) (by rw [setBitAt_length]; exact hl)]
    simp [List.range'_succ, setBitAt_length]

theorem containsLoop_eq (H : HashFn) (dbg : Bool) (tweak : Nat) (data flt : Bytes) (k i : Nat)
    (h0 : 0 < flt.length) (hl : flt.length < 2 ^ 29) :
    containsLoop H dbg tweak data flt k i =
      .ok (((List.range' i k).map (position H (8 * flt.length) tweak data)).all (getBit flt)) := by
  induction k generalizing i with
  | zero => simp [containsLoop]
  | succ k ih =>
    unfold containsLoop
    rw [bitIndex_eq H dbg _ tweak data i h0 hl]
    have hp := position_lt H (8 * flt.length) tweak data i (by omega)
    have hq : position H (8 * flt.length) tweak data i / 8 < flt.length := by omega
    simp only [List.getElem?_eq_getElem hq]
    rw [bitClear_eq _ _ (Nat.mod_lt _ (by decide)), ih (i + 1)]
    have hg : getBit flt (position H (8 * flt.length) tweak data i) =
        flt[position H (8 * flt.length) tweak data i / 8].toNat.testBit
          (position H (8 * flt.length) tweak data i % 8) := by
      simp [getBit, List.getD_eq_getElem?_getD, List.getElem?_eq_getElem hq]
    simp only [List.range'_succ, List.map_cons, List.all_cons, hg]
    cases flt[position H (8 * flt.length) tweak data i / 8].toNat.testBit
          (position H (8 * flt.length) tweak data i % 8) <;> simp

/-! ### `add` / `contains` against the reference -/

theorem add_eq_spec (H : HashFn) (dbg : Bool) (f : BloomFilter) (data : Bytes)
    (hl : f.filter.length < 2 ^ 29) :
    add H dbg f data =
      .ok { f with filter := Spec.Bip37Bloom.insert H f.filter f.numHashFuncs f.tweak data } := by
  unfold add addWith Spec.Bip37Bloom.insert
  by_cases he : f.filter = []
  · cases f with
    | mk flt n t => simp at he; subst he; simp
  · have h0 : 0 < f.filter.length := List.length_pos_iff.mpr he
    have : f.filter.isEmpty = false := by simp [he]
    simp only [this, Bool.and_false, Bool.false_eq_true, if_false]
    rw [addLoop_eq H dbg f.tweak data _ 0 f.filter h0 hl]
    simp [positions, List.range_eq_range']

theorem contains_eq_spec (H : HashFn) (dbg : Bool) (f : BloomFilter) (data : Bytes)
    (hl : f.filter.length < 2 ^ 29) :
    contains H dbg f data =
      .ok (Spec.Bip37Bloom.contains H f.filter f.numHashFuncs f.tweak data) := by
  unfold contains containsWith Spec.Bip37Bloom.contains
  by_cases he : f.filter = []
  · simp [he]
  · have h0 : 0 < f.filter.length := List.length_pos_iff.mpr he
    have : f.filter.isEmpty = false := by simp [he]
    simp only [this, Bool.and_false, Bool.false_eq_true, if_false]
    rw [containsLoop_eq H dbg f.tweak data f.filter _ 0 h0 hl]
    simp [positions, List.range_eq_range']

theorem positions_lt (H : HashFn) (n nHash tweak : Nat) (data : Bytes) (h : 0 < n) :
    ∀ p ∈ positions H n nHash tweak data, p < n := by
  intro p hp
  simp only [positions, List.mem_map] at hp
  obtain ⟨i, _, rfl⟩ := hp
  exact position_lt H n tweak data i h

theorem insert_length (H : HashFn) (flt : Bytes) (n tweak : Nat) (data : Bytes) :
    (Spec.Bip37Bloom.insert H flt n tweak data).length = flt.length := by
  unfold Spec.Bip37Bloom.insert
  split
  · rfl
  · exact foldl_setBitAt_length _ _

/-- the bits of the field after an insertion: the old ones and the element's positions -/
theorem getBit_insert (H : HashFn) (flt : Bytes) (n tweak : Nat) (data : Bytes) (j : Nat)
    (h0 : 0 < flt.length) :
    getBit (Spec.Bip37Bloom.insert H flt n tweak data) j =
      (getBit flt j || decide (j ∈ positions H (8 * flt.length) n tweak data)) := by
  unfold Spec.Bip37Bloom.insert
  have : flt.isEmpty = false := by
    cases flt with
    | nil => simp at h0
    | cons _ _ => rfl
  simp only [this, Bool.false_eq_true, if_false]
  exact getBit_foldl _ _ _ (positions_lt H _ n tweak data (by omega))

/-- bits are only ever set -/
theorem getBit_insert_mono (H : HashFn) (flt : Bytes) (n tweak : Nat) (data : Bytes) (j : Nat)
    (h : getBit flt j = true) : getBit (Spec.Bip37Bloom.insert H flt n tweak data) j = true := by
  by_cases h0 : 0 < flt.length
  · rw [getBit_insert H flt n tweak data j h0, h]; rfl
  · have : flt = [] := by
      cases flt with
      | nil => rfl
      | cons _ _ => simp at h0
    subst this
    simpa [Spec.Bip37Bloom.insert] using h

/-- `addAll` is total below 2^29 bytes and keeps length, function count and tweak; bits persist -/
theorem addAll_spec (H : HashFn) (dbg : Bool) (f : BloomFilter) (ds : List Bytes)
    (hl : f.filter.length < 2 ^ 29) :
    ∃ f', addAll H dbg f ds = .ok f' ∧ f'.filter.length = f.filter.length ∧
      f'.numHashFuncs = f.numHashFuncs ∧ f'.tweak = f.tweak ∧
      ∀ j, getBit f.filter j = true → getBit f'.filter j = true := by
  induction ds generalizing f with
  | nil => exact ⟨f, rfl, rfl, rfl, rfl, fun _ h => h⟩
  | cons d ds ih =>
    unfold addAll
    rw [add_eq_spec H dbg f d hl]
    simp only
    obtain ⟨f', h1, h2, h3, h4, h5⟩ :=
      ih { f with filter := Spec.Bip37Bloom.insert H f.filter f.numHashFuncs f.tweak d }
        (by simp only [insert_length]; exact hl)
    refine ⟨f', h1, ?_, h3, h4, ?_⟩
    · rw [h2]; exact insert_length ..
    · intro j hj
      exact h5 j (getBit_insert_mono H _ _ _ d j hj)

/-! ### the integer tail of `new` -/

theorem ceilDiv_spec (n : Int) (d : Nat) :
    n ≤ ceilDiv n d * ((d : Int) + 1) ∧ (ceilDiv n d - 1) * ((d : Int) + 1) < n := by
  unfold ceilDiv
  have hpos : (0 : Int) < (d : Int) + 1 := by omega
  have h1 := Int.ediv_mul_le (-n) (Int.ne_of_gt hpos)
  have h2 := Int.lt_ediv_add_one_mul_self (-n) hpos
  rw [Int.add_mul] at h2
  rw [Int.sub_mul, Int.neg_mul]
  omega

theorem ceilDiv_le (n : Int) (d m : Nat) (h : n ≤ (m : Int) * ((d : Int) + 1)) : ceilDiv n d ≤ m := by
  unfold ceilDiv
  have hpos : (0 : Int) < (d : Int) + 1 := by omega
  have : -(m : Int) ≤ (-n) / ((d : Int) + 1) := by
    rw [Int.le_ediv_iff_mul_le hpos, Int.neg_mul]; omega
  omega

theorem ceilDiv_int (m : Nat) : ceilDiv m 0 = m := by
  simp [ceilDiv]

theorem minConst_ceil_le (x : F64v) (m : Nat) (hm : m < 2 ^ 64) : (x.minConst m).ceilAsUsize ≤ m := by
  have hfin : (F64v.fin m 0).ceilAsUsize ≤ m := by
    simp only [F64v.ceilAsUsize, ceilDiv_int]
    split
    · omega
    · split <;> omega
  cases x with
  | nan => exact hfin
  | posInf => exact hfin
  | negInf => simp [F64v.minConst, F64v.ceilAsUsize]
  | fin n d =>
    simp only [F64v.minConst]
    by_cases h : n ≤ (m : Int) * ((d : Int) + 1)
    · rw [if_pos h]
      have := ceilDiv_le n d m h
      simp only [F64v.ceilAsUsize]
      split
      · omega
      · split <;> omega
    · rw [if_neg h]; exact hfin

/-! ### `var_int` and `filterload` -/

theorem takeExact_append' {a r : Bytes} {n : Nat} (h : a.length = n) :
    takeExact n (a ++ r) = some (a, r) := by subst h; exact takeExact_append a r

theorem readLE_append (n x : Nat) (r : Bytes) (hx : x < 256 ^ n) :
    readLE n (natToLEn n x ++ r) = .ok (x, r) := by
  unfold readLE
  rw [takeExact_append' (natToLEn_length n x)]
  simp [leToNat_natToLEn, Nat.mod_eq_of_lt hx]

theorem varIntSize_eq (n : Nat) : (varIntWrite n).length = varIntSize n := by
  unfold varIntWrite varIntSize
  split
  · rfl
  · split
    · simp
    · split <;> simp

theorem varIntRead_write (n : Nat) (r : Bytes) (h : n < 2 ^ 64) :
    varIntRead (varIntWrite n ++ r) = .ok (n, r) := by
  unfold varIntWrite
  split
  · rename_i h1
    have : (UInt8.ofNat n).toNat = n := by simp; omega
    simp only [List.cons_append, List.nil_append, varIntRead, this]
    rw [if_neg (by omega), if_neg (by omega), if_neg (by omega)]
  · split
    · simp only [List.cons_append, varIntRead]
      rw [if_neg (by decide), if_neg (by decide), if_pos (by decide)]
      exact readLE_append 2 n r (by omega)
    · split
      · simp only [List.cons_append, varIntRead]
        rw [if_neg (by decide), if_pos (by decide)]
        exact readLE_append 4 n r (by omega)
      · simp only [List.cons_append, varIntRead]
        rw [if_pos (by decide)]
        exact readLE_append 8 n r (by omega)

theorem flSize_eq (m : FilterLoad) : (flWrite m).length = flSize m := by
  simp [flWrite, flSize, varIntSize_eq]; omega

theorem flRead_write (m : FilterLoad) (rest : Bytes) (hlen : m.bloom.filter.length < 2 ^ 64)
    (hn : m.bloom.numHashFuncs < 2 ^ 32) (ht : m.bloom.tweak < 2 ^ 32) (hf : m.flags < 256) :
    flRead (flWrite m ++ rest) = .ok (m, rest) := by
  obtain ⟨⟨flt, n, tw⟩, fl⟩ := m
  simp only at hlen hn ht hf
  unfold flRead flWrite
  simp only [List.append_assoc]
  rw [varIntRead_write _ _ hlen]
  simp only
  rw [takeExact_append]
  simp only
  rw [readLE_append 4 n _ (by omega)]
  simp only
  rw [readLE_append 4 tw _ (by omega)]
  have : (UInt8.ofNat fl).toNat = fl := by simp; omega
  simp [this]

theorem readLE_ok {n : Nat} {b r : Bytes} {x : Nat} (h : readLE n b = .ok (x, r)) :
    x < 256 ^ n ∧ b.length = n + r.length := by
  unfold readLE at h
  split at h
  · rename_i y r' hy
    obtain ⟨h1, h2⟩ := takeExact_some hy
    injection h with h
    simp only [Prod.mk.injEq] at h
    obtain ⟨hx, hr⟩ := h
    subst hx hr h1
    refine ⟨?_, by simp [h2]⟩
    have := leToNat_lt y
    rw [h2] at this
    exact this
  · simp at h

theorem varIntRead_ok {b r : Bytes} {n : Nat} (h : varIntRead b = .ok (n, r)) : r.length < b.length := by
  cases b with
  | nil => simp [varIntRead] at h
  | cons x xs =>
    simp only [varIntRead] at h
    split at h
    · have := (readLE_ok h).2; simp; omega
    · split at h
      · have := (readLE_ok h).2; simp; omega
      · split at h
        · have := (readLE_ok h).2; simp; omega
        · injection h with h
          simp only [Prod.mk.injEq] at h
          simp [← h.2]

/-- what a successful decode guarantees about the value -/
theorem flRead_ok {b r : Bytes} {m : FilterLoad} (h : flRead b = .ok (m, r)) :
    m.bloom.filter.length < b.length ∧ m.bloom.numHashFuncs < 2 ^ 32 ∧ m.bloom.tweak < 2 ^ 32 ∧
      m.flags < 256 := by
  unfold flRead at h
  split at h
  · rename_i n r1 h1
    have hv := varIntRead_ok h1
    split at h
    · rename_i flt r2 h2
      obtain ⟨e2, l2⟩ := takeExact_some h2
      split at h
      · rename_i nh r3 h3
        have ⟨b3, _⟩ := readLE_ok h3
        split at h
        · rename_i tw r4 h4
          have ⟨b4, _⟩ := readLE_ok h4
          split at h
          · injection h with h
            simp only [Prod.mk.injEq] at h
            obtain ⟨hm, _⟩ := h
            subst hm
            simp only
            refine ⟨?_, by omega, by omega, UInt8.toNat_lt _⟩
            have : r1.length = flt.length + r2.length := by rw [e2]; simp
            omega
          · simp at h
        · simp at h
        · simp at h
      · simp at h
      · simp at h
    · simp at h
  · simp at h
  · simp at h

theorem readLE_ne_panic (n : Nat) (b : Bytes) (s : String) : readLE n b ≠ .panic s := by
  unfold readLE; split <;> simp

theorem varIntRead_ne_panic (b : Bytes) (s : String) : varIntRead b ≠ .panic s := by
  cases b with
  | nil => simp [varIntRead]
  | cons x xs =>
    simp only [varIntRead]
    split
    · exact readLE_ne_panic _ _ _
    · split
      · exact readLE_ne_panic _ _ _
      · split
        · exact readLE_ne_panic _ _ _
        · simp

theorem flRead_ne_panic (b : Bytes) (s : String) : flRead b ≠ .panic s := by
  unfold flRead
  split
  · split
    · split
      · split
        · split <;> simp
        · simp
        · rename_i h; exact absurd h (readLE_ne_panic _ _ _)
      · simp
      · rename_i h; exact absurd h (readLE_ne_panic _ _ _)
    · simp
  · simp
  · rename_i h; exact absurd h (varIntRead_ne_panic _ _)

end CG.Proofs.Bloom

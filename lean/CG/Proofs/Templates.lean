import CG.Proofs.InterpFlow
import CG.Model.TxScript
/-!
Symbolic execution of the three key-locked templates (P2PKH, P2PK, m-of-n multisig) on an ARBITRARY
initial stack, alt stack, checker and rule set: the exact value of `core_eval` on each template as a
function of the initial stack (helper lemmas for C03).
-/
namespace CG.Proofs.Templates
open CG CG.Model.ScriptNum CG.Model.Interp CG.Proofs.InterpFlow

/-! ### bytes of a script at a known split point -/

theorem getD_split (pre post : Bytes) (b : UInt8) : (pre ++ b :: post).getD pre.length 0 = b := by
  simp [List.getD_eq_getElem?_getD]

theorem byteAt_split (pre post : Bytes) (b : UInt8) : byteAt (pre ++ b :: post) pre.length = b.toNat := by
  unfold byteAt; rw [getD_split]

/-- what the loop does with the result of one opcode -/
def stepK {σ : Type} (r : Outcome (Bool × St σ)) (i : Nat) (k : St σ → Outcome (St σ × Nat)) :
    Outcome (St σ × Nat) :=
  match r with
  | .ok (true, st') => finish st' i
  | .ok (false, st') => k st'
  | .err e => .err e
  | .panic p => .panic p

@[simp] theorem stepK_ok_false {σ : Type} (st' : St σ) (i : Nat) (k : St σ → Outcome (St σ × Nat)) :
    stepK (.ok (false, st')) i k = k st' := rfl
@[simp] theorem stepK_err {σ : Type} (e : String) (i : Nat) (k : St σ → Outcome (St σ × Nat)) :
    stepK (.err e) i k = .err e := rfl
@[simp] theorem stepK_scriptErr {σ : Type} (i : Nat) (k : St σ → Outcome (St σ × Nat)) :
    stepK scriptErr i k = scriptErr := rfl
@[simp] theorem stepK_panic {σ : Type} (p : String) (i : Nat) (k : St σ → Outcome (St σ × Nat)) :
    stepK (.panic p) i k = .panic p := rfl

section steps
variable {σ : Type} (ex : Nat → Op → St σ → Outcome (Bool × St σ))

/-- one turn of the loop outside any conditional -/
theorem runFrom_op (script : Bytes) (i : Nat) (st : St σ) (hi : i < script.length)
    (hbr : st.branch = []) :
    runFrom ex script i st
      = stepK (ex i (decodeOp (script.getD i 0)) st) i (runFrom ex script (nextOp i script)) := by
  rw [runFrom_step _ _ _ _ hi]
  unfold body
  simp only [hbr]
  rw [if_neg (by omega)]
  unfold stepK
  rfl

/-- a one-byte opcode (anything above OP_PUSHDATA4) at a known split point -/
theorem runFrom_simple (script pre post : Bytes) (b : UInt8) (i : Nat) (st : St σ)
    (hs : script = pre ++ b :: post) (hi : i = pre.length) (hb : 78 < b.toNat) (hbr : st.branch = []) :
    runFrom ex script i st = stepK (ex i (decodeOp b) st) i (runFrom ex script (i + 1)) := by
  subst hs hi
  have hlt : pre.length < (pre ++ b :: post).length := by simp
  rw [runFrom_op ex _ _ _ hlt hbr, getD_split,
    nextOp_single hlt (by rw [byteAt_split]; exact hb)]

/-- the end of the script outside any conditional -/
theorem runFrom_done (script : Bytes) (i : Nat) (st : St σ) (hi : script.length ≤ i)
    (hbr : st.branch = []) : runFrom ex script i st = .ok (st, i) := by
  rw [runFrom_end _ _ _ _ hi]
  simp [finish, hbr]

end steps

/-! ### direct pushes -/

/-- the direct push `len ‖ data` of 1 to 75 bytes -/
def pushOf (k : Bytes) : Bytes := UInt8.ofNat k.length :: k

theorem pushOf_length (k : Bytes) : (pushOf k).length = k.length + 1 := by simp [pushOf]

theorem ofNat_toNat_small {n : Nat} (h : n < 256) : (UInt8.ofNat n).toNat = n := by
  simp [UInt8.toNat_ofNat']; omega

theorem decodeOp_push {n : Nat} (h1 : 1 ≤ n) (h2 : n ≤ 75) : decodeOp (UInt8.ofNat n) = .push n := by
  unfold decodeOp
  simp only [ofNat_toNat_small (show n < 256 by omega)]
  rw [if_neg (by omega), if_pos h2]

section push
variable {σ : Type} (H : Hashes) (C : Checker σ) (pg : Bool)

/-- a direct push at a known split point pushes its data and moves past it -/
theorem runFrom_push (script pre post k : Bytes) (i : Nat) (st : St σ)
    (hs : script = pre ++ pushOf k ++ post) (hi : i = pre.length)
    (h1 : 1 ≤ k.length) (h2 : k.length ≤ 75) (hbr : st.branch = []) :
    runFrom (exec H C pg script) script i st
      = runFrom (exec H C pg script) script (i + 1 + k.length) { st with stack := k :: st.stack } := by
  have hs' : script = pre ++ UInt8.ofNat k.length :: (k ++ post) := by simp [hs, pushOf]
  have hlen : script.length = pre.length + 1 + k.length + post.length := by
    rw [hs']; simp; omega
  have hlt : i < script.length := by omega
  have hb : byteAt script i = k.length := by
    rw [hs', hi, byteAt_split, ofNat_toNat_small (by omega)]
  have hn : nextOp i script = i + 1 + k.length := by
    unfold nextOp
    rw [if_neg (by omega)]
    simp only [hb]
    rw [if_pos ⟨h1, h2⟩]
    simp only []
    rw [if_neg (by omega)]
  have hd : script.getD i 0 = UInt8.ofNat k.length := by rw [hs', hi, getD_split]
  rw [runFrom_op _ _ _ _ hlt hbr, hd, decodeOp_push h1 h2, hn]
  have hsl : (script.drop (i + 1)).take k.length = k := by
    rw [hs', hi]
    have : pre ++ UInt8.ofNat k.length :: (k ++ post) = (pre ++ [UInt8.ofNat k.length]) ++ (k ++ post) := by
      simp
    rw [this, List.drop_left' (by simp), List.take_left' rfl]
  simp only [exec, pushSlice]
  rw [if_neg (by omega), hsl]
  rfl

end push


/-! ### `core_eval` through the fuel-free loop -/

/-- repackaging of the loop result done by `core_eval` -/
def pack {σ : Type} (r : Outcome (St σ × Nat)) : Outcome (EvalResult σ) :=
  match r with
  | .ok (st, _) => .ok { stack := st.stack, alt := st.alt, pos := none, chk := st.chk }
  | .err e => .err e
  | .panic p => .panic p

theorem coreEval_eq {σ : Type} (H : Hashes) (C : Checker σ) (c0 : σ) (script : Bytes) (flags : Nat)
    (stack alt : Option Stack) :
    coreEval H C c0 script flags none none stack alt
      = pack (runFrom (exec H C (flags % 2 = 1) script) script 0
          { stack := stack.getD [], alt := alt.getD [], branch := [], checkIndex := 0, chk := c0 }) := by
  unfold coreEval pack run runFrom
  simp only [Option.getD_none, Option.map_none]
  rfl

/-! ### the signature check at the end of a template -/

/-- outcome of a final OP_CHECKSIG with script code `script[0..]` -/
def sigResult {σ : Type} (C : Checker σ) (c0 : σ) (script sig pk : Bytes) (rest alt : Stack)
    (stop : Nat) : Outcome (St σ × Nat) :=
  match C.checkSig c0 sig pk (cleaned script 0 sig) with
  | (.ok b, c') => .ok ({ stack := boolItem b :: rest, alt := alt, branch := [], checkIndex := 0, chk := c' }, stop)
  | (.err e, _) => .err e
  | (.panic p, _) => .panic p

section templates
variable {σ : Type} (H : Hashes) (C : Checker σ) (pg : Bool)

/-- a final OP_CHECKSIG (last byte of the script) on a stack `pk :: sig :: rest` -/
theorem runFrom_final_checksig (script pre : Bytes) (i : Nat) (pk sig : Bytes) (rest alt : Stack) (c0 : σ)
    (hs : script = pre ++ [0xac]) (hi : i = pre.length) :
    runFrom (exec H C pg script) script i
        { stack := pk :: sig :: rest, alt := alt, branch := [], checkIndex := 0, chk := c0 }
      = sigResult C c0 script sig pk rest alt (i + 1) := by
  rw [runFrom_simple _ script pre [] 0xac i _ hs hi (by decide) rfl]
  have hd : decodeOp 0xac = .checksig := by decide
  rw [hd]
  simp only [exec, sigCheck, checkSize, popU, sigResult]
  simp only [List.length_cons, if_neg (show ¬ (rest.length + 1 + 1 < 2) by omega)]
  rw [if_neg (by omega)]
  rcases hc : C.checkSig c0 sig pk (cleaned script 0 sig) with ⟨r, c'⟩
  cases r with
  | ok b =>
    simp only [Bool.false_eq_true, if_false, stepK_ok_false]
    rw [runFrom_done _ _ _ _ (by simp [hs, hi]) rfl]
  | err e => rfl
  | panic p => rfl

/-- a final OP_CHECKSIG with fewer than two items fails -/
theorem runFrom_final_checksig_short (script pre : Bytes) (i : Nat) (s : Stack) (alt : Stack) (c0 : σ)
    (hs : script = pre ++ [0xac]) (hi : i = pre.length) (hl : s.length < 2) :
    runFrom (exec H C pg script) script i
        { stack := s, alt := alt, branch := [], checkIndex := 0, chk := c0 } = scriptErr := by
  rw [runFrom_simple _ script pre [] 0xac i _ hs hi (by decide) rfl]
  have hd : decodeOp 0xac = .checksig := by decide
  rw [hd]
  simp only [exec, sigCheck, checkSize, if_pos hl, stepK_scriptErr]

/-! ### P2PKH -/

def p2pkhLock (h : Bytes) : Bytes := [0x76, 0xa9, 0x14] ++ h ++ [0x88, 0xac]

/-- the exact value of the loop on `OP_DUP OP_HASH160 <h> OP_EQUALVERIFY OP_CHECKSIG`, for every
    initial stack -/
theorem p2pkh_run (h : Bytes) (hh : h.length = 20) (s0 alt : Stack) (c0 : σ) :
    runFrom (exec H C pg (p2pkhLock h)) (p2pkhLock h) 0
        { stack := s0, alt := alt, branch := [], checkIndex := 0, chk := c0 }
      = match s0 with
        | pk :: sig :: rest =>
          if h = H.hash160 pk then sigResult C c0 (p2pkhLock h) sig pk rest alt 25 else scriptErr
        | _ => scriptErr := by
  have e0 : p2pkhLock h = [] ++ 0x76 :: ([0xa9, 0x14] ++ h ++ [0x88, 0xac]) := by simp [p2pkhLock]
  have e1 : p2pkhLock h = [0x76] ++ 0xa9 :: ([0x14] ++ h ++ [0x88, 0xac]) := by simp [p2pkhLock]
  have e2 : p2pkhLock h = [0x76, 0xa9] ++ pushOf h ++ [0x88, 0xac] := by simp [p2pkhLock, pushOf, hh]
  have e3 : p2pkhLock h = ([0x76, 0xa9, 0x14] ++ h) ++ 0x88 :: [0xac] := by simp [p2pkhLock]
  have e4 : p2pkhLock h = ([0x76, 0xa9, 0x14] ++ h ++ [0x88]) ++ [0xac] := by simp [p2pkhLock]
  have d0 : decodeOp 0x76 = .dup := by decide
  have d1 : decodeOp 0xa9 = .hash160 := by decide
  have d3 : decodeOp 0x88 = .equalverify := by decide
  rw [runFrom_simple _ _ _ _ _ 0 _ e0 rfl (by decide) rfl, d0]
  cases s0 with
  | nil => simp [exec, checkSize]
  | cons pk r =>
    simp only [exec, checkSize, List.length_cons, if_neg (show ¬ (r.length + 1 < 1) by omega),
      stepK_ok_false]
    rw [runFrom_simple _ _ _ _ _ (0 + 1) _ e1 rfl (by decide) rfl, d1]
    simp only [exec, hashOp, checkSize, popU, List.length_cons,
      if_neg (show ¬ (r.length + 1 + 1 < 1) by omega), stepK_ok_false]
    rw [runFrom_push H C pg _ _ _ h (0 + 1 + 1) _ e2 rfl (by omega) (by omega) rfl]
    rw [runFrom_simple _ _ _ _ _ (0 + 1 + 1 + 1 + h.length) _ e3 (by simp; omega) (by decide) rfl, d3]
    simp only [exec, checkSize, List.length_cons,
      if_neg (show ¬ (r.length + 1 + 1 + 1 < 2) by omega)]
    by_cases heq : h = H.hash160 pk
    · simp only [if_pos heq, stepK_ok_false]
      cases r with
      | nil =>
        rw [runFrom_final_checksig_short H C pg _ _ _ _ _ _ e4 (by simp; omega) (by simp)]
      | cons sig rest =>
        rw [runFrom_final_checksig H C pg _ _ _ _ _ _ _ _ e4 (by simp; omega)]
        simp only [if_pos heq, hh]
    · simp only [if_neg heq, stepK_scriptErr]
      cases r with
      | nil => rfl
      | cons sig rest => simp [heq]


/-! ### P2PK -/

/-- `<pk> OP_CHECKSIG` (`[33] ++ pk ++ [0xac]` for a compressed key, `[65] ++ …` uncompressed) -/
def p2pkLock (pk : Bytes) : Bytes := pushOf pk ++ [0xac]

theorem p2pk_run (pk : Bytes) (h1 : 1 ≤ pk.length) (h2 : pk.length ≤ 75) (s0 alt : Stack) (c0 : σ) :
    runFrom (exec H C pg (p2pkLock pk)) (p2pkLock pk) 0
        { stack := s0, alt := alt, branch := [], checkIndex := 0, chk := c0 }
      = match s0 with
        | sig :: rest => sigResult C c0 (p2pkLock pk) sig pk rest alt (pk.length + 2)
        | [] => scriptErr := by
  have e0 : p2pkLock pk = [] ++ pushOf pk ++ [0xac] := by simp [p2pkLock]
  have e1 : p2pkLock pk = pushOf pk ++ [0xac] := rfl
  rw [runFrom_push H C pg _ _ _ pk 0 _ e0 rfl h1 h2 rfl]
  cases s0 with
  | nil => rw [runFrom_final_checksig_short H C pg _ _ _ _ _ _ e1 (by simp [pushOf]; omega) (by simp)]
  | cons sig rest =>
    rw [runFrom_final_checksig H C pg _ _ _ _ _ _ _ _ e1 (by simp [pushOf]; omega)]
    simp only [show 0 + 1 + pk.length + 1 = pk.length + 2 by omega]

/-! ### a run of direct pushes -/

theorem runFrom_pushes (script : Bytes) (keys : List Bytes)
    (hk : ∀ k ∈ keys, 1 ≤ k.length ∧ k.length ≤ 75) :
    ∀ (pre post : Bytes) (i : Nat) (st : St σ), script = pre ++ keys.flatMap pushOf ++ post →
      i = pre.length → st.branch = [] →
      runFrom (exec H C pg script) script i st
        = runFrom (exec H C pg script) script (i + (keys.flatMap pushOf).length)
            { st with stack := keys.reverse ++ st.stack } := by
  induction keys with
  | nil => intro pre post i st _ _ _; simp
  | cons k ks ih =>
    intro pre post i st hs hi hbr
    have hk1 := hk k (by simp)
    have hs1 : script = pre ++ pushOf k ++ (ks.flatMap pushOf ++ post) := by
      rw [hs]; simp
    rw [runFrom_push H C pg script pre _ k i st hs1 hi hk1.1 hk1.2 hbr]
    have hs2 : script = (pre ++ pushOf k) ++ ks.flatMap pushOf ++ post := by
      rw [hs]; simp
    rw [ih (fun k' hk' => hk k' (by simp [hk'])) (pre ++ pushOf k) post (i + 1 + k.length)
      { st with stack := k :: st.stack } hs2
      (by simp [pushOf, hi]; omega) hbr]
    have hpos : i + 1 + k.length + (ks.flatMap pushOf).length
        = i + ((k :: ks).flatMap pushOf).length := by
      simp [pushOf]; omega
    rw [hpos]
    simp

end templates


/-! ### small numbers -/

theorem decodeOp_small {m : Nat} (h1 : 1 ≤ m) (h2 : m ≤ 16) :
    decodeOp (UInt8.ofNat (80 + m)) = .pushNum (m : Int) := by
  unfold decodeOp
  simp only [ofNat_toNat_small (show 80 + m < 256 by omega)]
  rw [if_neg (by omega), if_neg (by omega), if_neg (by omega), if_neg (by omega), if_neg (by omega),
    if_neg (by omega), if_pos (by omega)]
  congr 1
  simp

theorem encodeNum_small {m : Nat} (h1 : 1 ≤ m) (h2 : m < 128) :
    encodeNum (m : Int) = .ok [UInt8.ofNat m] := by
  unfold encodeNum
  rw [if_neg (by omega)]
  simp only [Int.natAbs_natCast]
  rw [if_neg (by omega), if_pos h2, if_neg (by omega)]
  rfl

theorem decodeNum_small {m : Nat} (h2 : m < 128) : decodeNum [UInt8.ofNat m] = .ok (m : Int) := by
  have hc : (clearSign (UInt8.ofNat m)).toNat = m := by
    rw [clearSign_toNat, ofNat_toNat_small (by omega)]; omega
  have hs : signSet (UInt8.ofNat m) = false := by
    rw [signSet_iff, ofNat_toNat_small (by omega)]; simp; omega
  simp [decodeNum, hs, leToNat, hc]

theorem popNum_small {m : Nat} (h2 : m < 128) (s : Stack) :
    popNum ([UInt8.ofNat m] :: s) = .ok ((m : Int), s) := by
  simp [popNum, decodeNum_small h2]

/-! ### `check_multisig` on the stack a multisig template builds -/

/-- the script code handed to the checker by `check_multisig`: every pre-fork signature removed -/
def msCleaned (sub : Bytes) (sigs : List Bytes) : Bytes :=
  sigs.foldl (fun acc sg => if prefork sg then removeSig sg acc else acc) sub

/-- result of the matching loop, repackaged as `check_multisig` does -/
def msResult {σ : Type} (r : Outcome Bool × σ) (rest : Stack) : Outcome (Bool × Stack) × σ :=
  match r with
  | (.ok b, c') => (.ok (b, rest), c')
  | (.err e, c') => (.err e, c')
  | (.panic p, c') => (.panic p, c')

theorem checkMultisig_template {σ : Type} (C : Checker σ) (c0 : σ) (m : Nat) (keys : List Bytes)
    (s0 : Stack) (sub : Bytes) (hn : keys.length < 128) (hm : m ≤ keys.length) :
    checkMultisig C c0 ([UInt8.ofNat keys.length] :: (keys ++ [UInt8.ofNat m] :: s0)) sub
      = if s0.length < m + 1 then (scriptErr, c0)
        else msResult (msLoop C (msCleaned sub (s0.take m)) c0 (s0.take m) keys) (s0.drop (m + 1)) := by
  unfold checkMultisig
  rw [popNum_small hn]
  simp only []
  rw [if_neg (by omega), if_neg (by simp)]
  simp only [Int.toNat_natCast, List.take_left', List.drop_left']
  rw [popNum_small (by omega)]
  simp only []
  rw [if_neg (by omega)]
  simp only [Int.toNat_natCast]
  by_cases h1 : s0.length < m
  · rw [if_pos h1, if_pos (by omega)]
  · rw [if_neg h1]
    by_cases h2 : (s0.drop m).length < 1
    · rw [if_pos h2, if_pos (by simp at h2; omega)]
    · rw [if_neg h2, if_neg (by simp at h2; omega)]
      simp only [List.drop_drop, msCleaned, msResult]
      rfl

section multisig
variable {σ : Type} (H : Hashes) (C : Checker σ) (pg : Bool)

/-- `OP_m <k1> … <kn> OP_n OP_CHECKMULTISIG` -/
def multisigLock (m : Nat) (keys : List Bytes) : Bytes :=
  [UInt8.ofNat (80 + m)] ++ keys.flatMap pushOf ++ [UInt8.ofNat (80 + keys.length), 0xae]

/-- outcome of the final OP_CHECKMULTISIG of the template -/
def msOutcome (r : Outcome Bool × σ) (rest alt : Stack) (stop : Nat) : Outcome (St σ × Nat) :=
  match r with
  | (.ok b, c') => .ok ({ stack := boolItem b :: rest, alt := alt, branch := [], checkIndex := 0, chk := c' }, stop)
  | (.err e, _) => .err e
  | (.panic p, _) => .panic p

/-- the exact value of the loop on the m-of-n template, for every initial stack: the top `m` items
    are the signatures (top first), the next one is the dummy, and the keys are tried from the last
    one pushed -/
theorem multisig_run (m : Nat) (keys : List Bytes) (h1 : 1 ≤ m) (h2 : m ≤ keys.length)
    (h3 : keys.length ≤ 16) (hk : ∀ k ∈ keys, 1 ≤ k.length ∧ k.length ≤ 75)
    (s0 alt : Stack) (c0 : σ) :
    runFrom (exec H C pg (multisigLock m keys)) (multisigLock m keys) 0
        { stack := s0, alt := alt, branch := [], checkIndex := 0, chk := c0 }
      = if s0.length < m + 1 then scriptErr
        else msOutcome (msLoop C (msCleaned (multisigLock m keys) (s0.take m)) c0 (s0.take m) keys.reverse)
              (s0.drop (m + 1)) alt (multisigLock m keys).length := by
  have e0 : multisigLock m keys = [] ++ UInt8.ofNat (80 + m) ::
      (keys.flatMap pushOf ++ [UInt8.ofNat (80 + keys.length), 0xae]) := by simp [multisigLock]
  have e1 : multisigLock m keys = [UInt8.ofNat (80 + m)] ++ keys.flatMap pushOf ++
      [UInt8.ofNat (80 + keys.length), 0xae] := rfl
  have e2 : multisigLock m keys = ([UInt8.ofNat (80 + m)] ++ keys.flatMap pushOf) ++
      UInt8.ofNat (80 + keys.length) :: [0xae] := by simp [multisigLock]
  have e3 : multisigLock m keys = ([UInt8.ofNat (80 + m)] ++ keys.flatMap pushOf ++
      [UInt8.ofNat (80 + keys.length)]) ++ 0xae :: [] := by simp [multisigLock]
  have hlen : (multisigLock m keys).length = 0 + 1 + (keys.flatMap pushOf).length + 1 + 1 := by
    simp [multisigLock]; omega
  have d3 : decodeOp 0xae = .checkmultisig := by decide
  rw [runFrom_simple _ _ _ _ _ 0 _ e0 rfl (by rw [ofNat_toNat_small (by omega)]; omega) rfl,
    decodeOp_small h1 (by omega)]
  simp only [exec, encodeNum_small h1 (show m < 128 by omega), stepK_ok_false]
  rw [runFrom_pushes H C pg _ keys hk _ _ (0 + 1) _ e1 rfl rfl]
  by_cases hn0 : keys.length = 0
  · omega
  rw [runFrom_simple _ _ _ _ _ (0 + 1 + (keys.flatMap pushOf).length) _ e2 (by simp; omega)
    (by rw [ofNat_toNat_small (by omega)]; omega) rfl,
    decodeOp_small (show 1 ≤ keys.length by omega) h3]
  simp only [exec, encodeNum_small (show 1 ≤ keys.length by omega) (show keys.length < 128 by omega),
    stepK_ok_false]
  rw [runFrom_simple _ _ _ _ _ (0 + 1 + (keys.flatMap pushOf).length + 1) _ e3 (by simp; omega)
    (by decide) rfl, d3]
  simp only [exec, multisigOp]
  rw [if_neg (by omega)]
  have hkl : keys.length = keys.reverse.length := by simp
  simp only [List.drop_zero]
  rw [hkl, checkMultisig_template C c0 m keys.reverse s0 _ (by simp; omega) (by simp; omega)]
  by_cases hs : s0.length < m + 1
  · simp only [if_pos hs]; rfl
  · simp only [if_neg hs]
    rcases hl : msLoop C (msCleaned (multisigLock m keys) (s0.take m)) c0 (s0.take m) keys.reverse
      with ⟨r, c'⟩
    cases r with
    | ok b =>
      simp only [msResult, msOutcome, Bool.false_eq_true, if_false, stepK_ok_false]
      rw [runFrom_done _ _ _ _ (by rw [hlen]; omega) rfl, hlen]
    | err e => rfl
    | panic p => rfl

end multisig

/-! ### the matching loop of `check_multisig` -/

/-- `Matches C scr c sigs keys c'`: walking the key list once, every signature is accepted
    (`check_sig = Ok(true)`) under a key strictly later than the key that accepted the previous
    signature; `c` is the checker state before and `c'` after.  Keys that are passed over answered
    `Ok(false)` for the signature that was current at that point. -/
inductive Matches {σ : Type} (C : Checker σ) (scr : Bytes) : σ → List Bytes → List Bytes → σ → Prop
  | done (c : σ) (keys : List Bytes) : Matches C scr c [] keys c
  | hit {c c' c'' : σ} {s k : Bytes} {ss ks : List Bytes} :
      C.checkSig c s k scr = (.ok true, c') → Matches C scr c' ss ks c'' →
      Matches C scr c (s :: ss) (k :: ks) c''
  | miss {c c' c'' : σ} {s k : Bytes} {ss ks : List Bytes} :
      C.checkSig c s k scr = (.ok false, c') → Matches C scr c' (s :: ss) ks c'' →
      Matches C scr c (s :: ss) (k :: ks) c''

theorem msLoop_true_iff {σ : Type} (C : Checker σ) (scr : Bytes) (c c' : σ) (sigs keys : List Bytes) :
    msLoop C scr c sigs keys = (.ok true, c') ↔ Matches C scr c sigs keys c' := by
  constructor
  · intro h
    induction keys generalizing c sigs with
    | nil =>
      cases sigs with
      | nil => simp [msLoop] at h; subst h; exact .done _ _
      | cons s ss => simp [msLoop] at h
    | cons k ks ih =>
      cases sigs with
      | nil => simp [msLoop] at h; subst h; exact .done _ _
      | cons s ss =>
        rw [msLoop] at h
        rcases hc : C.checkSig c s k scr with ⟨r, c1⟩
        rw [hc] at h
        cases r with
        | ok b =>
          cases b with
          | true => exact .hit hc (ih _ _ h)
          | false => exact .miss hc (ih _ _ h)
        | err e => simp at h
        | panic p => simp at h
  · intro h
    induction h with
    | done c keys => cases keys <;> simp [msLoop]
    | hit hc _ ih => rw [msLoop, hc]; exact ih
    | miss hc _ ih => rw [msLoop, hc]; exact ih

theorem Matches.length_le {σ : Type} {C : Checker σ} {scr : Bytes} {c c' : σ} {sigs keys : List Bytes}
    (h : Matches C scr c sigs keys c') : sigs.length ≤ keys.length := by
  induction h with
  | done => simp
  | hit _ _ ih => simp; omega
  | miss _ _ ih => simp at ih ⊢; omega

/-- the accepting keys form a subsequence of the key list (strictly increasing positions), one per
    signature, in order -/
theorem Matches.sublist {σ : Type} {C : Checker σ} {scr : Bytes} {c c' : σ} {sigs keys : List Bytes}
    (h : Matches C scr c sigs keys c') :
    ∃ used : List Bytes, used.Sublist keys ∧ used.length = sigs.length ∧
      ∀ p ∈ sigs.zip used, ∃ c1, (C.checkSig c1 p.1 p.2 scr).1 = .ok true := by
  induction h with
  | done c keys => exact ⟨[], List.nil_sublist _, rfl, by simp⟩
  | @hit c c' c'' s k ss ks hc _ ih =>
    obtain ⟨used, hsub, hlen, hall⟩ := ih
    refine ⟨k :: used, hsub.cons_cons k, by simp [hlen], ?_⟩
    intro p hp
    simp only [List.zip_cons_cons, List.mem_cons] at hp
    rcases hp with rfl | hp
    · exact ⟨c, by rw [hc]⟩
    · exact hall p hp
  | miss _ _ ih =>
    obtain ⟨used, hsub, hlen, hall⟩ := ih
    exact ⟨used, hsub.cons _, hlen, hall⟩

end CG.Proofs.Templates

import CG.Proofs.Peer
/-!
The state-machine model against the cut-based reference (`CG.Spec.PeerSpec.expected`): for every
session in the reference's scope the observable log of the model is the expected one.
-/
set_option linter.unusedSimpArgs false
namespace CG.Proofs.Peer
open CG CG.Model.Peer CG.Spec.PeerSpec

/-! ### Small list facts -/

theorem dropWhile_head {α : Type} (p : α → Bool) (l : List α) :
    l.dropWhile p = [] ∨ ∃ t r, l.dropWhile p = t :: r ∧ p t = false := by
  induction l with
  | nil => exact Or.inl rfl
  | cons a l ih =>
    by_cases h : p a = true
    · simpa [List.dropWhile_cons, h] using ih
    · right
      have h' : p a = false := by simpa using h
      exact ⟨a, l, by simp [List.dropWhile_cons, h'], h'⟩

theorem handshakePart_append (p live : List Event) : handshakePart (p ++ live) live = p := by
  simp [handshakePart]

def isSend : Event → Bool
  | .localSend _ => true
  | _ => false

theorem local_no_disc {pre : List Event} (hl : ∀ x ∈ pre, x.isLocal = true) (hd : hasLocalDisconnect pre = false) :
    ∀ x ∈ pre, isSend x = true := by
  intro x hx
  have h1 := hl x hx
  cases x with
  | localSend m => rfl
  | localDisconnect =>
    exfalso
    have : hasLocalDisconnect pre = true := by
      simp only [hasLocalDisconnect, List.any_eq_true]
      exact ⟨_, hx, rfl⟩
    rw [hd] at this
    cases this
  | _ => simp [Event.isLocal] at h1

theorem hasLocalDisconnect_append (a b : List Event) :
    hasLocalDisconnect (a ++ b) = (hasLocalDisconnect a || hasLocalDisconnect b) := by
  simp [hasLocalDisconnect]

theorem sendCalls_append (a b : List Event) : sendCalls (a ++ b) = sendCalls a + sendCalls b := by
  simp [sendCalls]

theorem sendErrs_append (a b : List Event) : sendErrs (a ++ b) = sendErrs a ++ sendErrs b := by
  simp [sendErrs]

theorem obsOf_append (a b : List Output) : obsOf (a ++ b) = obsOf a ++ obsOf b := by
  simp [obsOf]

/-! ### `send` calls during the handshake -/

theorem hs_send_step (f : VersionInfo → Bool) (s : State) (e : Event) (h : invB s = true)
    (hp : inHandshake s = true) (he : isSend e = true) :
    step f s e = (s, sendErrs [e]) := by
  unfold isSend at he
  peer_step f s e

theorem hs_sends_run (f : VersionInfo → Bool) (pre : List Event) (s : State) (h : invB s = true)
    (hp : inHandshake s = true) (he : ∀ x ∈ pre, isSend x = true) :
    runFrom f s pre = (s, sendErrs pre) := by
  induction pre with
  | nil => rfl
  | cons e es ih =>
    have h1 := hs_send_step f s e h hp (he e (List.mem_cons_self ..))
    rw [runFrom_cons, h1]
    simp only
    rw [ih (fun x hx => he x (List.mem_cons_of_mem _ hx)), sendErrs_cons e es]

/-! ### A live session up to its first terminating event -/

/-- the outputs of one non-terminating event in a live session -/
def liveOut : Event → List Output
  | .remoteFrame m =>
    (match pingNonce m with
     | some n => [.wrote (.pong n)]
     | none => []) ++ [.deliver m]
  | .localSend m => [.wrote (.msg m), .sendResult none]
  | _ => []

theorem live_step_exact (f : VersionInfo → Bool) (s : State) (e : Event) (h : live s = true)
    (ht : terminates e = false) :
    (step f s e).2 = liveOut e ∧ live (step f s e).1 = true ∧ (step f s e).1.discFired = s.discFired := by
  unfold terminates at ht
  unfold liveOut
  peer_step f s e

theorem live_run_exact (f : VersionInfo → Bool) (before : List Event) (s : State) (h : live s = true)
    (ht : ∀ x ∈ before, terminates x = false) :
    (runFrom f s before).2 = before.flatMap liveOut ∧ live (runFrom f s before).1 = true ∧
    (runFrom f s before).1.discFired = s.discFired := by
  induction before generalizing s with
  | nil => simp [runFrom_nil, h]
  | cons e es ih =>
    have h1 := live_step_exact f s e h (ht e (List.mem_cons_self ..))
    have h2 := ih _ h1.2.1 (fun x hx => ht x (List.mem_cons_of_mem _ hx))
    refine ⟨by simp [runFrom_cons, h1.1, h2.1], by simpa [runFrom_cons] using h2.2.1, ?_⟩
    simp only [runFrom_cons]
    rw [h2.2.2, h1.2.2]

theorem liveOut_obs (before : List Event) :
    obsOf (before.flatMap liveOut) = (before.filterMap frameOf).map .message ∧
    delivered (before.flatMap liveOut) = before.filterMap frameOf := by
  induction before with
  | nil => exact ⟨rfl, rfl⟩
  | cons e es ih =>
    simp only [List.flatMap_cons, obsOf_append, delivered_append, ih.1, ih.2]
    cases e with
    | remoteFrame m =>
      cases hn : pingNonce m <;> simp [liveOut, hn, obsOf, delivered, frameOf, List.filterMap_cons]
    | _ => simp [liveOut, obsOf, delivered, frameOf, List.filterMap_cons]

theorem liveOut_wires (before : List Event) (ht : ∀ x ∈ before, terminates x = false) :
    wires (before.flatMap liveOut) = before.filterMap wireOf ∧
    sendResults (before.flatMap liveOut) = List.replicate (sendCalls before) none := by
  induction before with
  | nil => exact ⟨rfl, rfl⟩
  | cons e es ih =>
    have ih' := ih (fun x hx => ht x (List.mem_cons_of_mem _ hx))
    have he := ht e (List.mem_cons_self ..)
    simp only [List.flatMap_cons, wires_append, sendResults_append, ih'.1, ih'.2]
    cases e with
    | remoteFrame m =>
      cases hn : pingNonce m <;> simp [liveOut, hn, wires, sendResults, wireOf, sendCalls, List.filterMap_cons]
    | localSend m =>
      have hw : m.writable = true := by simpa [terminates] using he
      simp [liveOut, wires, sendResults, wireOf, sendCalls, hw, List.replicate_succ, List.filterMap_cons]
    | _ => simp [liveOut, wires, sendResults, wireOf, sendCalls, List.filterMap_cons]

/-- the outputs of the terminating event of a live session whose disconnected event is unpublished -/
def termOut : Event → List Output
  | .localSend _ => [.emitDisconnected, .sendResult (some .io)]
  | _ => [.emitDisconnected]

theorem term_step_exact (f : VersionInfo → Bool) (s : State) (e : Event) (h : live s = true)
    (hd : s.discFired = false) (ht : terminates e = true) :
    (step f s e).2 = termOut e ∧ quiet (step f s e).1 = true ∧ annState (step f s e).1 = annState s := by
  unfold terminates at ht
  unfold termOut
  peer_step f s e

theorem quiet_closed (s : State) (h : invB s = true) (hq : quiet s = true) :
    s.closed = true ∧ s.flag = false := by
  obtain ⟨ph, fl, wr, cf, df, mf, sh, sc⟩ := s
  cases ph <;> cases fl <;> cases wr <;> cases cf <;> cases df <;> simp_all [invB, quiet, State.closed]

theorem live_open (s : State) (h : live s = true) : s.closed = false ∧ s.flag = true := by
  obtain ⟨ph, fl, wr, cf, df, mf, sh, sc⟩ := s
  cases ph <;> cases fl <;> cases wr <;> simp_all [live, State.closed]

/-! ### The handshake, exactly -/

theorem version_step_exact (f : VersionInfo → Bool) (s : State) (m : Msg) (h : invB s = true)
    (hp : s.phase = .awaitVersion) (hv : acceptable f m = true) :
    step f s (.remoteFrame m) = ({ s with phase := .awaitVerack }, []) := by
  obtain ⟨ph, fl, wr, cf, df, mf, sh, sc⟩ := s
  obtain ⟨k, t, w⟩ := m
  cases k with
  | version v => cases hf : f v <;> peer_states ph fl wr cf df
  | _ => peer_states ph fl wr cf df

theorem verack_step_exact (f : VersionInfo → Bool) (s : State) (m : Msg) (h : invB s = true)
    (hp : s.phase = .awaitVerack) (hv : isVerack m = true) :
    step f s (.remoteFrame m) =
      ({ s with phase := .connected, writer := true, flag := true, connFired := true },
       [.wrote .verack, .wrote .hsPing, .emitConnected]) := by
  obtain ⟨ph, fl, wr, cf, df, mf, sh, sc⟩ := s
  obtain ⟨k, t, w⟩ := m
  cases k <;> peer_states ph fl wr cf df

/-- shape of a session whose handshake completes -/
theorem afterHandshake_shape (f : VersionInfo → Bool) (evs live : List Event) (h : afterHandshake f evs = some live) :
    ∃ pre1 vm pre2 am, evs = (pre1 ++ .remoteFrame vm :: pre2 ++ [.remoteFrame am]) ++ live ∧
      (∀ x ∈ pre1, x.isLocal = true) ∧ (∀ x ∈ pre2, x.isLocal = true) ∧
      acceptable f vm = true ∧ isVerack am = true := by
  unfold afterHandshake versionAccepted at h
  cases h1 : nextRemote evs with
  | none => simp [h1] at h
  | some p =>
    obtain ⟨e, rest⟩ := p
    rw [h1] at h
    cases e with
    | remoteFrame vm =>
      simp only at h
      by_cases hv : acceptable f vm = true
      · simp only [hv, if_true] at h
        cases h2 : nextRemote rest with
        | none => simp [h2] at h
        | some q =>
          obtain ⟨e2, live'⟩ := q
          rw [h2] at h
          cases e2 with
          | remoteFrame am =>
            simp only at h
            by_cases ha : isVerack am = true
            · simp only [ha, if_true, Option.some.injEq] at h
              subst h
              obtain ⟨-, -, pre1, he1, hl1⟩ := nextRemote_some h1
              obtain ⟨-, -, pre2, he2, hl2⟩ := nextRemote_some h2
              exact ⟨pre1, vm, pre2, am, by rw [he1, he2]; simp, hl1, hl2, hv, ha⟩
            · simp [ha] at h
          | _ => simp at h
      · simp [hv] at h
    | _ => simp at h

/-- the run of the handshake part, exactly -/
theorem handshake_run_exact (f : VersionInfo → Bool) (pre1 pre2 : List Event) (vm am : Msg)
    (hl1 : ∀ x ∈ pre1, isSend x = true) (hl2 : ∀ x ∈ pre2, isSend x = true)
    (hv : acceptable f vm = true) (ha : isVerack am = true) :
    runFrom f init (pre1 ++ .remoteFrame vm :: pre2 ++ [.remoteFrame am]) =
      ({ init with phase := .connected, writer := true, flag := true, connFired := true },
       sendErrs (pre1 ++ .remoteFrame vm :: pre2 ++ [.remoteFrame am]) ++ [.wrote .verack, .wrote .hsPing, .emitConnected]) := by
  let sV : State := { init with phase := .awaitVerack }
  let sC : State := { init with phase := .connected, writer := true, flag := true, connFired := true }
  have r1 := hs_sends_run f pre1 init inv_init rfl hl1
  have r2 : runFrom f init (pre1 ++ [.remoteFrame vm]) = (sV, sendErrs pre1) := by
    rw [runFrom_append, r1]
    simp [runFrom_cons, runFrom_nil, version_step_exact f init vm inv_init rfl hv, sV]
  have r3 : runFrom f init (pre1 ++ [.remoteFrame vm] ++ pre2) = (sV, sendErrs pre1 ++ sendErrs pre2) := by
    rw [runFrom_append, r2]
    simp [hs_sends_run f pre2 sV rfl rfl hl2]
  have r4 : runFrom f init (pre1 ++ [.remoteFrame vm] ++ pre2 ++ [.remoteFrame am]) =
      (sC, sendErrs pre1 ++ sendErrs pre2 ++ [.wrote .verack, .wrote .hsPing, .emitConnected]) := by
    rw [runFrom_append, r3]
    simp [runFrom_cons, runFrom_nil, verack_step_exact f sV am rfl rfl ha, sV, sC]
  have e1 : pre1 ++ .remoteFrame vm :: pre2 ++ [.remoteFrame am] = pre1 ++ [.remoteFrame vm] ++ pre2 ++ [.remoteFrame am] := by simp
  have e2 : sendErrs (pre1 ++ [.remoteFrame vm] ++ pre2 ++ [.remoteFrame am]) = sendErrs pre1 ++ sendErrs pre2 := by
    simp [sendErrs_append, sendErrs]
  rw [e1, r4, e2]

theorem no_disc_mem {l : List Event} (hd : hasLocalDisconnect l = false) {x : Event} (hx : x ∈ l)
    (hl : x.isLocal = true) : isSend x = true := by
  cases x with
  | localSend m => rfl
  | localDisconnect =>
    exfalso
    have : hasLocalDisconnect l = true := by
      simp only [hasLocalDisconnect, List.any_eq_true]
      exact ⟨_, hx, rfl⟩
    rw [hd] at this
    cases this
  | _ => simp [Event.isLocal] at hl

theorem termOut_proj (t : Event) :
    obsOf (termOut t) = [.disconnected] ∧ wires (termOut t) = [] ∧ delivered (termOut t) = [] ∧
    sendResults (termOut t) = (match t with | .localSend _ => [some .io] | _ => []) := by
  cases t <;> simp [termOut, obsOf, wires, delivered, sendResults]

theorem span_terminates (l : List Event) :
    (∀ x ∈ l.takeWhile (fun e => !terminates e), terminates x = false) ∧
    (l.dropWhile (fun e => !terminates e) = [] ∨
      ∃ t post, l.dropWhile (fun e => !terminates e) = t :: post ∧ terminates t = true) := by
  constructor
  · intro x hx
    have := List.all_eq_true.mp (List.all_takeWhile (l := l) (p := fun e => !terminates e)) x hx
    simpa using this
  · rcases dropWhile_head (fun e => !terminates e) l with h | ⟨t, post, h, ht⟩
    · exact Or.inl h
    · exact Or.inr ⟨t, post, h, by simpa using ht⟩

/-- projections of the outputs of a session whose handshake completed; `T` = what the terminating
    event and everything after it produce -/
theorem connected_outputs_proj (hs before : List Event) (T : List Output)
    (hb : ∀ x ∈ before, terminates x = false) :
    let O := Output.wrote .version ::
      (sendErrs hs ++ [.wrote .verack, .wrote .hsPing, .emitConnected] ++ (before.flatMap liveOut ++ T))
    obsOf O = .connected :: (before.filterMap frameOf).map .message ++ obsOf T ∧
    wires O = [.version, .verack, .hsPing] ++ before.filterMap wireOf ++ wires T ∧
    sendResults O = illegal (sendCalls hs) ++ List.replicate (sendCalls before) none ++ sendResults T ∧
    delivered O = before.filterMap frameOf ++ delivered T := by
  have hse := sendErrs_silent hs
  have hsr := sendErrs_sendResults hs
  have hlo := liveOut_obs before
  have hlw := liveOut_wires before hb
  have c1 : ∀ l : List Output, obsOf (Output.wrote .version :: l) = obsOf l := fun l => rfl
  have c2 : ∀ l : List Output, wires (Output.wrote .version :: l) = .version :: wires l := fun l => rfl
  have c3 : ∀ l : List Output, sendResults (Output.wrote .version :: l) = sendResults l := fun l => rfl
  have c4 : ∀ l : List Output, delivered (Output.wrote .version :: l) = delivered l := fun l => rfl
  have d1 : obsOf [Output.wrote .verack, .wrote .hsPing, .emitConnected] = [.connected] := rfl
  have d2 : wires [Output.wrote .verack, .wrote .hsPing, .emitConnected] = [.verack, .hsPing] := rfl
  have d3 : sendResults [Output.wrote .verack, .wrote .hsPing, .emitConnected] = [] := rfl
  have d4 : delivered [Output.wrote .verack, .wrote .hsPing, .emitConnected] = [] := rfl
  refine ⟨?_, ?_, ?_, ?_⟩
  · simp only [c1, obsOf_append, hse.2.2.2.2.2, d1, hlo.1]
    simp
  · simp only [c2, wires_append, hse.2.1, d2, hlw.1]
    simp
  · simp only [c3, sendResults_append, hsr, d3, hlw.2, illegal]
    simp
  · simp only [c4, delivered_append, hse.1, d4, hlo.2]
    simp

/-- a session whose handshake completes, in scope of the reference -/
theorem matches_connected (f : VersionInfo → Bool) (evs live : List Event) (log : Log)
    (hah : afterHandshake f evs = some live) (h : expected f evs = some log) :
    observe (run f evs) = log := by
  obtain ⟨pre1, vm, pre2, am, hev, hl1, hl2, hv, ha⟩ := afterHandshake_shape f evs live hah
  generalize hhs : pre1 ++ .remoteFrame vm :: pre2 ++ [.remoteFrame am] = hs at hev
  have hpart : handshakePart evs live = hs := by rw [hev]; exact handshakePart_append _ _
  unfold expected at h
  rw [hah] at h
  simp only at h
  rw [hpart] at h
  cases hd : hasLocalDisconnect hs with
  | true => rw [hd] at h; simp at h
  | false =>
  rw [hd] at h
  simp only [Bool.false_eq_true, if_false, Option.some.injEq] at h
  subst h
  have hs1 : ∀ x ∈ pre1, isSend x = true := fun x hx => no_disc_mem hd (by rw [← hhs]; simp [hx]) (hl1 x hx)
  have hs2 : ∀ x ∈ pre2, isSend x = true := fun x hx => no_disc_mem hd (by rw [← hhs]; simp [hx]) (hl2 x hx)
  let sC : State := { init with phase := .connected, writer := true, flag := true, connFired := true }
  have rH : runFrom f init hs = (sC, sendErrs hs ++ [.wrote .verack, .wrote .hsPing, .emitConnected]) := by
    rw [← hhs]; exact handshake_run_exact f pre1 pre2 vm am hs1 hs2 hv ha
  obtain ⟨hbefore, hrestc⟩ := span_terminates live
  have hsplit : live = live.takeWhile (fun e => !terminates e) ++ live.dropWhile (fun e => !terminates e) :=
    (List.takeWhile_append_dropWhile).symm
  have hinvAll := inv_runFrom f evs init inv_init
  have hann := ann_run f evs init
  unfold connectedLog
  simp only
  generalize live.takeWhile (fun e => !terminates e) = before at *
  generalize live.dropWhile (fun e => !terminates e) = rest at *
  have rB := live_run_exact f before sC rfl hbefore
  have hrun : runFrom f init evs =
      ((runFrom f (runFrom f sC before).1 rest).1,
       sendErrs hs ++ [.wrote .verack, .wrote .hsPing, .emitConnected] ++
         (before.flatMap liveOut ++ (runFrom f (runFrom f sC before).1 rest).2)) := by
    rw [hev, runFrom_append, rH, hsplit]
    simp only
    rw [runFrom_append, rB.1]
  rcases hrestc with hnil | ⟨t, post, hcons, hterm⟩
  · -- nothing terminates the session
    subst hnil
    have hopen := live_open _ rB.2.1
    simp only [runFrom_nil] at hrun
    have hP := connected_outputs_proj hs before [] hbefore
    simp only at hP
    rw [hrun] at hann
    have hdel : delivered (sendErrs hs ++ [Output.wrote .verack, .wrote .hsPing, .emitConnected] ++ (before.flatMap liveOut ++ [])) =
        before.filterMap frameOf := by
      refine (show delivered _ = delivered (Output.wrote .version :: _) from rfl).trans (hP.2.2.2.trans ?_)
      simp
    simp only at hann
    rw [hdel] at hann
    simp only [observe, run, Log.mk.injEq, hrun]
    refine ⟨?_, ?_, ?_, ?_, ?_, ?_, ?_, ?_⟩
    · rw [hP.1]; simp [obsOf]
    · rw [hP.2.1]; simp [wires]
    · rw [hP.2.2.1]; simp [sendResults, illegal, sendCalls]
    · simpa using hopen.2
    · have := congrArg (·.1) hann; simpa [annState, annOf, init] using this
    · have := congrArg (·.2.1) hann; simpa [annState, annOf, init] using this
    · have := congrArg (·.2.2) hann; simpa [annState, annOf, init] using this
    · simpa using hopen.1
  · -- the first terminating event, and everything after it
    subst hcons
    have rT := term_step_exact f (runFrom f sC before).1 t rB.2.1 (by rw [rB.2.2]; rfl) hterm
    have rQ := quiet_run f post _ rT.2.1
    have hrest : runFrom f (runFrom f sC before).1 (t :: post) =
        ((runFrom f (step f (runFrom f sC before).1 t).1 post).1, termOut t ++ sendErrs post) := by
      rw [runFrom_cons, rT.1, rQ.2.1]
    rw [hrest] at hrun
    simp only at hrun
    have hq : quiet (runFrom f init evs).1 = true := by rw [hrun]; exact rQ.1
    have hcl := quiet_closed _ hinvAll hq
    have htp := termOut_proj t
    have hsp := sendErrs_silent post
    have hP := connected_outputs_proj hs before (termOut t ++ sendErrs post) hbefore
    simp only at hP
    have hann' := hann
    rw [hrun] at hann'
    have hdel : delivered (sendErrs hs ++ [Output.wrote .verack, .wrote .hsPing, .emitConnected] ++
        (before.flatMap liveOut ++ (termOut t ++ sendErrs post))) = before.filterMap frameOf := by
      refine (show delivered _ = delivered (Output.wrote .version :: _) from rfl).trans (hP.2.2.2.trans ?_)
      rw [delivered_append, htp.2.2.1, hsp.1]
      simp
    simp only at hann'
    rw [hdel] at hann'
    have hfl : (runFrom f init evs).1.flag = false := hcl.2
    have hcd : (runFrom f init evs).1.closed = true := hcl.1
    simp only [observe, run, Log.mk.injEq]
    refine ⟨?_, ?_, ?_, ?_, ?_, ?_, ?_, ?_⟩
    · rw [hrun, hP.1]; simp [obsOf_append, htp.1, hsp.2.2.2.2.2]
    · rw [hrun, hP.2.1]; simp [wires_append, htp.2.1, hsp.2.1]
    · rw [hrun, hP.2.2.1]
      simp only [sendResults_append, htp.2.2.2, sendErrs_sendResults, illegal, List.drop_one, List.tail_cons]
      cases t <;> simp
    · simpa using hfl
    · rw [hrun]; have := congrArg (·.1) hann'; simpa [annState, annOf, init] using this
    · rw [hrun]; have := congrArg (·.2.1) hann'; simpa [annState, annOf, init] using this
    · rw [hrun]; have := congrArg (·.2.2) hann'; simpa [annState, annOf, init] using this
    · simpa using hcd

/-! ### Sessions whose handshake does not complete -/

theorem nextRemote_none_local {l : List Event} (h : nextRemote l = none) : ∀ x ∈ l, x.isLocal = true := by
  induction l with
  | nil => intro x hx; cases hx
  | cons e es ih =>
    by_cases hl : e.isLocal = true
    · simp only [nextRemote, hl, if_true] at h
      intro x hx
      rcases List.mem_cons.mp hx with rfl | hx
      · exact hl
      · exact ih h x hx
    · simp [nextRemote, hl] at h

theorem hs_fault_step_exact (f : VersionInfo → Bool) (s : State) (e : Event) (h : invB s = true)
    (hp : inHandshake s = true) (hd : s.discFired = false) (hf : remoteFault f s e = true) :
    (step f s e).2 = [.emitDisconnected] ∧ quiet (step f s e).1 = true ∧ annState (step f s e).1 = annState s := by
  peer_step f s e

/-- `send` calls, then a fault of the remote, during the handshake -/
theorem hs_fault_run_exact (f : VersionInfo → Bool) (pre : List Event) (e : Event) (s : State) (h : invB s = true)
    (hp : inHandshake s = true) (hd : s.discFired = false) (hl : ∀ x ∈ pre, isSend x = true)
    (he : e.isLocal = false) (hf : remoteFault f s e = true) :
    (runFrom f s (pre ++ [e])).2 = sendErrs (pre ++ [e]) ++ [.emitDisconnected] ∧
    quiet (runFrom f s (pre ++ [e])).1 = true ∧ annState (runFrom f s (pre ++ [e])).1 = annState s := by
  have r1 := hs_sends_run f pre s h hp hl
  have r2 := hs_fault_step_exact f s e h hp hd hf
  have e0 : sendErrs [e] = [] := by cases e <;> simp_all [sendErrs, Event.isLocal]
  rw [runFrom_append, r1]
  simp only [runFrom_cons, runFrom_nil, List.append_nil, r2.1, sendErrs_append, e0]
  exact ⟨trivial, r2.2.1, r2.2.2⟩

theorem sendResults_illegal (l : List Event) : sendResults (sendErrs l) = illegal (sendCalls l) :=
  sendErrs_sendResults l

theorem illegal_add (a b : Nat) : illegal a ++ illegal b = illegal (a + b) := by
  simp [illegal, List.replicate_append_replicate]

/-- the log of a run that consists of failing `send` calls around at most one disconnected event -/
theorem unconnected_observe (f : VersionInfo → Bool) (evs : List Event) (s : State) (mid : List Output)
    (a b : List Event) (hsc : sendCalls evs = sendCalls a + sendCalls b)
    (hrun : runFrom f init evs = (s, sendErrs a ++ mid ++ sendErrs b))
    (hmid : mid = [] ∨ mid = [.emitDisconnected]) (hann : annState s = annState init)
    (hflag : s.flag = false) (hcl : s.closed = !mid.isEmpty) :
    observe (run f evs) = unconnectedLog evs (!mid.isEmpty) := by
  have ha := sendErrs_silent a
  have hb := sendErrs_silent b
  simp only [observe, run, unconnectedLog, hrun, Log.mk.injEq]
  have c1 : ∀ l : List Output, obsOf (Output.wrote .version :: l) = obsOf l := fun l => rfl
  have c2 : ∀ l : List Output, wires (Output.wrote .version :: l) = .version :: wires l := fun l => rfl
  have c3 : ∀ l : List Output, sendResults (Output.wrote .version :: l) = sendResults l := fun l => rfl
  have hA : s.minfee = 0 ∧ s.sendheaders = false ∧ s.sendcmpct = false := by
    simp only [annState, init, Prod.mk.injEq] at hann
    exact hann
  refine ⟨?_, ?_, ?_, hflag, hA.1, hA.2.1, hA.2.2, hcl⟩
  · rw [c1, obsOf_append, obsOf_append, ha.2.2.2.2.2, hb.2.2.2.2.2]
    rcases hmid with rfl | rfl <;> simp [obsOf]
  · rw [c2, wires_append, wires_append, ha.2.1, hb.2.1]
    rcases hmid with rfl | rfl <;> simp [wires]
  · rw [c3, sendResults_append, sendResults_append, sendResults_illegal, sendResults_illegal, hsc]
    rcases hmid with rfl | rfl <;> simp [sendResults, illegal_add]

theorem sendCalls_remote (e : Event) (h : e.isLocal = false) : sendCalls [e] = 0 := by
  cases e <;> simp_all [sendCalls, Event.isLocal]

theorem init_props : inHandshake init = true ∧ init.discFired = false ∧ init.closed = false ∧ init.flag = false :=
  ⟨rfl, rfl, rfl, rfl⟩

/-- a session whose handshake is still pending or was broken by the remote -/
theorem matches_unconnected (f : VersionInfo → Bool) (evs : List Event) (log : Log)
    (hah : afterHandshake f evs = none) (h : expected f evs = some log) :
    observe (run f evs) = log := by
  unfold expected at h
  rw [hah] at h
  simp only at h
  let sV : State := { init with phase := .awaitVerack }
  cases hpend : handshakePending f evs with
  | true =>
    rw [hpend] at h
    simp only [if_true] at h
    cases hd : hasLocalDisconnect evs with
    | true => rw [hd] at h; simp at h
    | false =>
    rw [hd] at h
    simp only [Bool.false_eq_true, if_false, Option.some.injEq] at h
    subst h
    unfold handshakePending at hpend
    cases h1 : nextRemote evs with
    | none =>
      have hl := nextRemote_none_local h1
      have hs : ∀ x ∈ evs, isSend x = true := fun x hx => no_disc_mem hd hx (hl x hx)
      have r := hs_sends_run f evs init inv_init rfl hs
      exact unconnected_observe f evs init [] evs [] (by simp [sendCalls]) (by rw [r]; simp [sendErrs]) (Or.inl rfl) rfl rfl rfl
    | some p =>
      obtain ⟨e, rest⟩ := p
      rw [h1] at hpend
      cases e with
      | remoteFrame m =>
        simp only [Bool.and_eq_true, Option.isNone_iff_eq_none] at hpend
        obtain ⟨-, -, pre1, hev, hl1⟩ := nextRemote_some h1
        have hl2 := nextRemote_none_local hpend.2
        have hs1 : ∀ x ∈ pre1, isSend x = true := fun x hx => no_disc_mem hd (by rw [hev]; simp [hx]) (hl1 x hx)
        have hs2 : ∀ x ∈ rest, isSend x = true := fun x hx => no_disc_mem hd (by rw [hev]; simp [hx]) (hl2 x hx)
        have r : runFrom f init evs = (sV, sendErrs pre1 ++ [] ++ sendErrs rest) := by
          rw [hev, runFrom_append, hs_sends_run f pre1 init inv_init rfl hs1]
          simp only [runFrom_cons, version_step_exact f init m inv_init rfl hpend.1]
          rw [hs_sends_run f rest _ rfl rfl hs2]
          simp [sV]
        refine unconnected_observe f evs sV [] pre1 rest ?_ r (Or.inl rfl) rfl rfl rfl
        rw [hev, sendCalls_append]
        simp [sendCalls]
      | _ => simp at hpend
  | false =>
    rw [hpend] at h
    simp only [Bool.false_eq_true, if_false] at h
    cases hd : hasLocalDisconnect (brokenPart f evs) with
    | true => rw [hd] at h; simp at h
    | false =>
    rw [hd] at h
    simp only [Bool.false_eq_true, if_false, Option.some.injEq] at h
    subst h
    unfold handshakePending at hpend
    unfold afterHandshake at hah
    unfold brokenPart at hd
    cases h1 : nextRemote evs with
    | none => rw [h1] at hpend; simp at hpend
    | some p =>
      obtain ⟨e, tail⟩ := p
      obtain ⟨-, he, pre1, hev, hl1⟩ := nextRemote_some h1
      -- is the first remote event an acceptable version?
      cases hva : versionAccepted f evs with
      | none =>
        rw [hva] at hd
        simp only [h1, Option.map_some, Option.getD_some] at hd
        have hbad : handshakePart evs tail = pre1 ++ [e] := by
          rw [hev]
          have : pre1 ++ e :: tail = (pre1 ++ [e]) ++ tail := by simp
          rw [this]; exact handshakePart_append _ _
        rw [hbad] at hd
        have hs1 : ∀ x ∈ pre1, isSend x = true := fun x hx => no_disc_mem hd (by simp [hx]) (hl1 x hx)
        have hf : remoteFault f init e = true := by
          unfold versionAccepted at hva
          rw [h1] at hva
          cases e <;> simp_all [remoteFault, init, Event.isLocal]
        have r := hs_fault_run_exact f pre1 e init inv_init rfl rfl hs1 he hf
        have rq := quiet_run f tail _ r.2.1
        have hrun : runFrom f init evs = ((runFrom f (runFrom f init (pre1 ++ [e])).1 tail).1,
            sendErrs (pre1 ++ [e]) ++ [.emitDisconnected] ++ sendErrs tail) := by
          have : evs = (pre1 ++ [e]) ++ tail := by rw [hev]; simp
          rw [this, runFrom_append, r.1, rq.2.1]
        have hinvF := inv_runFrom f evs init inv_init
        rw [hrun] at hinvF
        have hq := quiet_closed _ hinvF rq.1
        refine unconnected_observe f evs _ [.emitDisconnected] (pre1 ++ [e]) tail ?_ hrun (Or.inr rfl) ?_ hq.2 (by simpa using hq.1)
        · have : evs = (pre1 ++ [e]) ++ tail := by rw [hev]; simp
          rw [this, sendCalls_append]
        · rw [rq.2.2, r.2.2]
      | some rest =>
        have hrest : rest = tail ∧ ∃ vm, e = .remoteFrame vm ∧ acceptable f vm = true := by
          unfold versionAccepted at hva
          rw [h1] at hva
          cases e with
          | remoteFrame vm =>
            simp only at hva
            by_cases hv : acceptable f vm = true
            · simp only [hv, if_true, Option.some.injEq] at hva
              exact ⟨hva.symm, vm, rfl, hv⟩
            · simp [hv] at hva
          | _ => simp at hva
        obtain ⟨rfl, vm, rfl, hv⟩ := hrest
        rw [hva] at hah hd
        simp only at hah hd
        rw [h1] at hpend
        simp only [hv, Bool.true_and, Option.isNone_iff_eq_none] at hpend
        cases h2 : nextRemote rest with
        | none => rw [h2] at hpend; simp at hpend
        | some q =>
          obtain ⟨e2, tail2⟩ := q
          obtain ⟨-, he2, pre2, hev2, hl2⟩ := nextRemote_some h2
          simp only [h2, Option.map_some, Option.getD_some] at hd
          have hev' : evs = (pre1 ++ [.remoteFrame vm]) ++ (pre2 ++ [e2]) ++ tail2 := by rw [hev, hev2]; simp
          have hbad : handshakePart evs tail2 = (pre1 ++ [.remoteFrame vm]) ++ (pre2 ++ [e2]) := by
            rw [hev']; exact handshakePart_append _ _
          rw [hbad] at hd
          have hs1 : ∀ x ∈ pre1, isSend x = true := fun x hx => no_disc_mem hd (by simp [hx]) (hl1 x hx)
          have hs2 : ∀ x ∈ pre2, isSend x = true := fun x hx => no_disc_mem hd (by simp [hx]) (hl2 x hx)
          have hf : remoteFault f sV e2 = true := by
            rw [h2] at hah
            cases e2 with
            | remoteFrame am =>
              simp only at hah
              by_cases hak : isVerack am = true
              · simp [hak] at hah
              · simp [remoteFault, sV, hak]
            | _ => simp_all [remoteFault, sV, Event.isLocal, init]
          have r1 : runFrom f init (pre1 ++ [.remoteFrame vm]) = (sV, sendErrs (pre1 ++ [.remoteFrame vm])) := by
            rw [runFrom_append, hs_sends_run f pre1 init inv_init rfl hs1]
            simp [runFrom_cons, runFrom_nil, version_step_exact f init vm inv_init rfl hv, sV, sendErrs_append, sendErrs]
          have r := hs_fault_run_exact f pre2 e2 sV rfl rfl rfl hs2 he2 hf
          have rq := quiet_run f tail2 _ r.2.1
          have hrun : runFrom f init evs = ((runFrom f (runFrom f sV (pre2 ++ [e2])).1 tail2).1,
              sendErrs ((pre1 ++ [.remoteFrame vm]) ++ (pre2 ++ [e2])) ++ [.emitDisconnected] ++ sendErrs tail2) := by
            rw [hev', runFrom_append, runFrom_append, r1]
            simp only
            rw [r.1, rq.2.1]
            simp only [sendErrs_append, List.append_assoc]
          have hinvF := inv_runFrom f evs init inv_init
          rw [hrun] at hinvF
          have hq := quiet_closed _ hinvF rq.1
          refine unconnected_observe f evs _ [.emitDisconnected] ((pre1 ++ [.remoteFrame vm]) ++ (pre2 ++ [e2])) tail2 ?_ hrun
            (Or.inr rfl) ?_ hq.2 (by simpa using hq.1)
          · rw [hev', sendCalls_append]
          · rw [rq.2.2, r.2.2]; rfl

/-- **The model refines the reference.** -/
theorem model_matches_reference (f : VersionInfo → Bool) (evs : List Event) (log : Log)
    (h : expected f evs = some log) : observe (run f evs) = log := by
  cases hah : afterHandshake f evs with
  | some live => exact matches_connected f evs live log hah h
  | none => exact matches_unconnected f evs log hah h

end CG.Proofs.Peer

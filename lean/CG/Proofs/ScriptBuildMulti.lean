import CG.Proofs.ScriptBuild
/-!
Several pushes in a row: the interpreter model evaluates `appendData` applied repeatedly — every push at
whatever offset it lands — to exactly the data, first datum at the bottom.
-/
namespace CG.Proofs.ScriptBuild
open CG CG.Model.ScriptNum CG.Model.Interp CG.Model.ScriptBuild

section multi
variable {σ : Type}

theorem getD_mid (pre : Bytes) (b : UInt8) (rest : Bytes) : (pre ++ b :: rest).getD pre.length 0 = b := by
  rw [List.getD_eq_getElem?_getD, List.getElem?_append_right (by omega)]
  simp

theorem byteAt_mid (pre rest : Bytes) (k : Nat) : byteAt (pre ++ rest) (pre.length + k) = byteAt rest k :=
  byteAt_append_right pre rest k

theorem slice_mid (pre hdr d post : Bytes) :
    ((pre ++ (hdr ++ (d ++ post))).drop (pre.length + hdr.length)).take d.length = d := by
  have : pre ++ (hdr ++ (d ++ post)) = (pre ++ hdr) ++ (d ++ post) := by simp
  rw [this, show pre.length + hdr.length = (pre ++ hdr).length by simp, List.drop_left]
  simp

/-- what one push instruction does, wherever it stands -/
structure PushStep (H : Hashes) (C : Checker σ) (pg : Bool) (script : Bytes) (i len : Nat) (d : Bytes) : Prop where
  inside : i < script.length
  exec : ∀ st : St σ, exec H C pg script i (decodeOp (script.getD i 0)) st = .ok (false, { st with stack := d :: st.stack })
  next : nextOp i script = i + len

theorem step_empty (H : Hashes) (C : Checker σ) (pg : Bool) (pre post : Bytes) :
    PushStep H C pg (pre ++ (0 :: post)) pre.length 1 [] := by
  refine ⟨by simp, fun st => ?_, ?_⟩
  · rw [getD_mid]
    simp [decodeOp, exec, encodeNum]
  · rw [nextOp_single _ _ (by simp)]
    left
    have := byteAt_mid pre (0 :: post) 0
    simpa [byteAt_cons_zero] using this

theorem step_direct (H : Hashes) (C : Checker σ) (pg : Bool) (pre post d : Bytes)
    (h1 : 1 ≤ d.length) (h2 : d.length ≤ 75) :
    PushStep H C pg (pre ++ (UInt8.ofNat d.length :: (d ++ post))) pre.length (1 + d.length) d := by
  have hb : byteAt (pre ++ (UInt8.ofNat d.length :: (d ++ post))) pre.length = d.length := by
    have := byteAt_mid pre (UInt8.ofNat d.length :: (d ++ post)) 0
    rw [Nat.add_zero] at this
    rw [this, byteAt_cons_zero, ofNat_toNat_lt (by omega)]
  refine ⟨by simp, fun st => ?_, ?_⟩
  · rw [getD_mid, decodeOp_push _ h1 h2]
    simp only [exec]
    rw [pushSlice_ok _ _ _ _ (by simp <;> omega)]
    have := slice_mid pre [UInt8.ofNat d.length] d post
    simp only [List.length_singleton, List.singleton_append] at this
    rw [this]
  · rw [nextOp_push _ _ (by simp) (by omega) (by omega) (by rw [hb]; simp; omega), hb]
    omega

theorem step_pd1 (H : Hashes) (C : Checker σ) (pg : Bool) (pre post d : Bytes) (l : UInt8) (hl : l.toNat = d.length) :
    PushStep H C pg (pre ++ (76 :: l :: (d ++ post))) pre.length (2 + d.length) d := by
  have hb0 : byteAt (pre ++ (76 :: l :: (d ++ post))) pre.length = 76 := by
    have := byteAt_mid pre (76 :: l :: (d ++ post)) 0
    rw [Nat.add_zero] at this
    rw [this]; rfl
  have hb1 : byteAt (pre ++ (76 :: l :: (d ++ post))) (pre.length + 1) = d.length := by
    rw [byteAt_mid]; simp [byteAt, hl]
  refine ⟨by simp, fun st => ?_, ?_⟩
  · rw [getD_mid]
    have hd : decodeOp (76 : UInt8) = .pushdata1 := by decide
    rw [hd]
    simp only [exec]
    rw [if_neg (by simp <;> omega), hb1, pushSlice_ok _ _ _ _ (by simp <;> omega)]
    have := slice_mid pre [76, l] d post
    simp only [List.length_cons, List.length_nil, List.cons_append, List.nil_append] at this
    rw [show pre.length + 2 = pre.length + (0 + 1 + 1) by omega, this]
  · unfold nextOp
    rw [if_neg (by simp), hb0]
    simp only [hb1]
    rw [if_neg (by omega), if_pos trivial, if_neg (by simp <;> omega)]
    simp only []
    rw [if_neg (by simp <;> omega)]
    omega

theorem step_pd2 (H : Hashes) (C : Checker σ) (pg : Bool) (pre post d : Bytes) (l0 l1 : UInt8)
    (hl : l0.toNat + l1.toNat * 256 = d.length) :
    PushStep H C pg (pre ++ (77 :: l0 :: l1 :: (d ++ post))) pre.length (3 + d.length) d := by
  have hb0 : byteAt (pre ++ (77 :: l0 :: l1 :: (d ++ post))) pre.length = 77 := by
    have := byteAt_mid pre (77 :: l0 :: l1 :: (d ++ post)) 0
    rw [Nat.add_zero] at this
    rw [this]; rfl
  have hb1 : byteAt (pre ++ (77 :: l0 :: l1 :: (d ++ post))) (pre.length + 1) = l0.toNat := by
    rw [byteAt_mid]; rfl
  have hb2 : byteAt (pre ++ (77 :: l0 :: l1 :: (d ++ post))) (pre.length + 2) = l1.toNat := by
    rw [byteAt_mid]; rfl
  refine ⟨by simp, fun st => ?_, ?_⟩
  · rw [getD_mid]
    have hd : decodeOp (77 : UInt8) = .pushdata2 := by decide
    rw [hd]
    simp only [exec]
    rw [if_neg (by simp <;> omega), hb1, hb2, hl, pushSlice_ok _ _ _ _ (by simp <;> omega)]
    have := slice_mid pre [77, l0, l1] d post
    simp only [List.length_cons, List.length_nil, List.cons_append, List.nil_append] at this
    rw [show pre.length + 3 = pre.length + (0 + 1 + 1 + 1) by omega, this]
  · unfold nextOp
    rw [if_neg (by simp), hb0]
    simp only [hb1, hb2]
    rw [if_neg (by omega), if_neg (by omega), if_pos trivial, if_neg (by simp <;> omega)]
    simp only []
    rw [if_neg (by simp <;> omega)]
    omega

theorem step_pd4 (H : Hashes) (C : Checker σ) (pg : Bool) (pre post d : Bytes) (l0 l1 l2 l3 : UInt8)
    (hl : l0.toNat + l1.toNat * 256 + l2.toNat * 65536 + l3.toNat * 16777216 = d.length) :
    PushStep H C pg (pre ++ (78 :: l0 :: l1 :: l2 :: l3 :: (d ++ post))) pre.length (5 + d.length) d := by
  have hb0 : byteAt (pre ++ (78 :: l0 :: l1 :: l2 :: l3 :: (d ++ post))) pre.length = 78 := by
    have := byteAt_mid pre (78 :: l0 :: l1 :: l2 :: l3 :: (d ++ post)) 0
    rw [Nat.add_zero] at this
    rw [this]; rfl
  have hb1 : byteAt (pre ++ (78 :: l0 :: l1 :: l2 :: l3 :: (d ++ post))) (pre.length + 1) = l0.toNat := by
    rw [byteAt_mid]; rfl
  have hb2 : byteAt (pre ++ (78 :: l0 :: l1 :: l2 :: l3 :: (d ++ post))) (pre.length + 2) = l1.toNat := by
    rw [byteAt_mid]; rfl
  have hb3 : byteAt (pre ++ (78 :: l0 :: l1 :: l2 :: l3 :: (d ++ post))) (pre.length + 3) = l2.toNat := by
    rw [byteAt_mid]; rfl
  have hb4 : byteAt (pre ++ (78 :: l0 :: l1 :: l2 :: l3 :: (d ++ post))) (pre.length + 4) = l3.toNat := by
    rw [byteAt_mid]; rfl
  refine ⟨by simp, fun st => ?_, ?_⟩
  · rw [getD_mid]
    have hd : decodeOp (78 : UInt8) = .pushdata4 := by decide
    rw [hd]
    simp only [exec]
    rw [if_neg (by simp <;> omega), hb1, hb2, hb3, hb4, hl, pushSlice_ok _ _ _ _ (by simp <;> omega)]
    have := slice_mid pre [78, l0, l1, l2, l3] d post
    simp only [List.length_cons, List.length_nil, List.cons_append, List.nil_append] at this
    rw [show pre.length + 5 = pre.length + (0 + 1 + 1 + 1 + 1 + 1) by omega, this]
  · unfold nextOp
    rw [if_neg (by simp), hb0]
    simp only [hb1, hb2, hb3, hb4]
    rw [if_neg (by omega), if_neg (by omega), if_neg (by omega), if_pos trivial, if_neg (by simp <;> omega)]
    simp only []
    rw [if_neg (by simp <;> omega)]
    omega

theorem PushStep.len_eq {H : Hashes} {C : Checker σ} {pg : Bool} {script : Bytes} {i len len' : Nat} {d : Bytes}
    (h : PushStep H C pg script i len d) (e : len = len') : PushStep H C pg script i len' d := e ▸ h

/-- every push built by `appendData` is one `PushStep`, wherever it stands in a script -/
theorem step_appendData (H : Hashes) (C : Checker σ) (pg : Bool) (pre post d : Bytes) (h : d.length < 4294967296) :
    PushStep H C pg (pre ++ (appendData [] d ++ post)) pre.length (appendData [] d).length d := by
  by_cases h0 : d.length = 0
  · have hd : d = [] := List.eq_nil_of_length_eq_zero h0
    subst hd
    simpa [appendData] using step_empty H C pg pre post
  · by_cases h1 : d.length ≤ 75
    · rw [appendData_direct _ _ (by omega) h1]
      have hs : pre ++ (([] : Bytes) ++ UInt8.ofNat d.length :: d ++ post) = pre ++ (UInt8.ofNat d.length :: (d ++ post)) := by simp
      rw [hs]
      exact (step_direct H C pg pre post d (by omega) h1).len_eq (by simp; omega)
    · by_cases h2 : d.length ≤ 255
      · rw [appendData_pd1 _ _ (by omega) h2, natToLEn1]
        have hl : (UInt8.ofNat (d.length % 256)).toNat = d.length := by rw [ofNat_toNat_lt (by omega)]; omega
        have hs : pre ++ (([] : Bytes) ++ 76 :: ([UInt8.ofNat (d.length % 256)] ++ d) ++ post)
            = pre ++ (76 :: UInt8.ofNat (d.length % 256) :: (d ++ post)) := by simp
        rw [hs]
        exact (step_pd1 H C pg pre post d (UInt8.ofNat (d.length % 256)) hl).len_eq (by simp; omega)
      · by_cases h3 : d.length ≤ 65535
        · rw [appendData_pd2 _ _ (by omega) h3, natToLEn2]
          have hl0 : (UInt8.ofNat (d.length % 256)).toNat = d.length % 256 := by rw [ofNat_toNat_lt (by omega)]
          have hl1 : (UInt8.ofNat (d.length / 256 % 256)).toNat = d.length / 256 := by rw [ofNat_toNat_lt (by omega)]; omega
          have hs : pre ++ (([] : Bytes) ++ 77 :: ([UInt8.ofNat (d.length % 256), UInt8.ofNat (d.length / 256 % 256)] ++ d) ++ post)
              = pre ++ (77 :: UInt8.ofNat (d.length % 256) :: UInt8.ofNat (d.length / 256 % 256) :: (d ++ post)) := by simp
          rw [hs]
          exact (step_pd2 H C pg pre post d (UInt8.ofNat (d.length % 256)) (UInt8.ofNat (d.length / 256 % 256))
            (by rw [hl0, hl1]; omega)).len_eq (by simp; omega)
        · rw [appendData_pd4 _ _ (by omega), natToLEn4]
          have hl0 : (UInt8.ofNat (d.length % 256)).toNat = d.length % 256 := by rw [ofNat_toNat_lt (by omega)]
          have hl1 : (UInt8.ofNat (d.length / 256 % 256)).toNat = d.length / 256 % 256 := by rw [ofNat_toNat_lt (by omega)]
          have hl2 : (UInt8.ofNat (d.length / 256 / 256 % 256)).toNat = d.length / 256 / 256 % 256 := by rw [ofNat_toNat_lt (by omega)]
          have hl3 : (UInt8.ofNat (d.length / 256 / 256 / 256 % 256)).toNat = d.length / 256 / 256 / 256 := by rw [ofNat_toNat_lt (by omega)]; omega
          have hs : pre ++ (([] : Bytes) ++ 78 :: ([UInt8.ofNat (d.length % 256), UInt8.ofNat (d.length / 256 % 256),
                UInt8.ofNat (d.length / 256 / 256 % 256), UInt8.ofNat (d.length / 256 / 256 / 256 % 256)] ++ d) ++ post)
              = pre ++ (78 :: UInt8.ofNat (d.length % 256) :: UInt8.ofNat (d.length / 256 % 256) ::
                UInt8.ofNat (d.length / 256 / 256 % 256) :: UInt8.ofNat (d.length / 256 / 256 / 256 % 256) :: (d ++ post)) := by simp
          rw [hs]
          exact (step_pd4 H C pg pre post d (UInt8.ofNat (d.length % 256)) (UInt8.ofNat (d.length / 256 % 256))
            (UInt8.ofNat (d.length / 256 / 256 % 256)) (UInt8.ofNat (d.length / 256 / 256 / 256 % 256))
            (by rw [hl0, hl1, hl2, hl3]; omega)).len_eq (by simp; omega)

/-- the bytes of several pushes built one after the other -/
def pushesBytes (ds : List Bytes) : Bytes := (ds.map (appendData [])).flatten

theorem foldl_appendData (ds : List Bytes) (s : Bytes) : ds.foldl appendData s = s ++ pushesBytes ds := by
  induction ds generalizing s with
  | nil => simp [pushesBytes]
  | cons d ds ih =>
    rw [List.foldl_cons, ih, appendData_prefix]
    simp [pushesBytes]

theorem runWith_pushes (H : Hashes) (C : Checker σ) (pg : Bool) :
    ∀ (ds : List Bytes) (pre script : Bytes) (st : St σ) (fuel : Nat),
      script = pre ++ pushesBytes ds → (∀ d ∈ ds, d.length < 4294967296) → st.branch = [] → ds.length + 1 ≤ fuel →
      runWith (exec H C pg script) script none fuel pre.length st
        = .ok ({ st with stack := ds.reverse ++ st.stack }, script.length) := by
  intro ds
  induction ds with
  | nil =>
    intro pre script st fuel hs _ hb hf
    obtain ⟨fuel, rfl⟩ : ∃ f, fuel = f + 1 := ⟨fuel - 1, by omega⟩
    obtain ⟨stack, alt, branch, ci, chk⟩ := st
    simp only at hb
    subst hb
    have hl : script.length = pre.length := by rw [hs]; simp [pushesBytes]
    simp only [runWith]
    rw [if_neg (by omega)]
    simp [finish, hl]
  | cons d ds ih =>
    intro pre script st fuel hs hd hb hf
    obtain ⟨fuel, rfl⟩ : ∃ f, fuel = f + 1 := ⟨fuel - 1, by omega⟩
    obtain ⟨stack, alt, branch, ci, chk⟩ := st
    simp only at hb
    subst hb
    have hb : (St.mk stack alt ([] : List Bool) ci chk).branch = [] := rfl
    have hs' : script = pre ++ (appendData [] d ++ pushesBytes ds) := by rw [hs]; simp [pushesBytes]
    have stp := step_appendData H C pg pre (pushesBytes ds) d (hd d (by simp))
    rw [← hs'] at stp
    simp only [runWith]
    rw [if_pos stp.inside, if_neg (by have := stp.inside; omega)]
    simp only [stp.exec, stp.next]
    have hs2 : script = (pre ++ appendData [] d) ++ pushesBytes ds := by rw [hs']; simp
    have := ih (pre ++ appendData [] d) script ⟨d :: stack, alt, [], ci, chk⟩ fuel hs2
      (fun x hx => hd x (by simp [hx])) hb (by simp at hf; omega)
    rw [List.length_append] at this
    rw [this]
    simp

theorem overhead_pos (n : Nat) : 1 ≤ Spec.ScriptBuild.overhead n := by
  unfold Spec.ScriptBuild.overhead
  split
  · omega
  · split
    · omega
    · split <;> omega

theorem pushesBytes_length (ds : List Bytes) : ds.length ≤ (pushesBytes ds).length := by
  induction ds with
  | nil => simp
  | cons d ds ih =>
    have h1 := appendData_length [] d
    have h2 := overhead_pos d.length
    simp only [pushesBytes, List.map_cons, List.flatten_cons, List.length_append, List.length_cons] at ih ⊢
    simp only [List.length_nil] at h1
    omega

/-- **several pushes**: `coreEval` of the script built by appending the data one after the other -/
theorem coreEval_pushes (H : Hashes) (C : Checker σ) (c0 : σ) (flags : Nat) (ds : List Bytes)
    (h : ∀ d ∈ ds, d.length < 4294967296) :
    coreEval H C c0 (ds.foldl appendData []) flags none none none none
      = .ok { stack := ds.reverse, alt := [], pos := none, chk := c0 } := by
  have hlen := pushesBytes_length ds
  rw [foldl_appendData, List.nil_append]
  unfold coreEval run
  simp only [Option.getD_none]
  have := runWith_pushes H C (decide (flags % 2 = 1)) ds [] (pushesBytes ds)
    { stack := [], alt := [], branch := [], checkIndex := 0, chk := c0 } ((pushesBytes ds).length + 1) (by simp) h rfl (by omega)
  simp only [List.length_nil] at this
  rw [this]
  simp

end multi
end CG.Proofs.ScriptBuild

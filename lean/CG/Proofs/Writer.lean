import CG.Model.Writer
/-! Helper lemmas for C15 (destination model, `write_all` loop, operation lists). -/
namespace CG.Proofs.Writer
open CG CG.Model.Writer

theorem writeAllFuel_nil (f : Nat) (d : Dest) : writeAllFuel f d [] = (.ok (), d) := by
  cases f <;> simp [writeAllFuel]

/-- what a `write_all` run guarantees, whatever the destination does -/
structure Delivered (d : Dest) (b : Bytes) (r : Outcome Unit) (d' : Dest) : Prop where
  noPanic : ∀ s, r ≠ .panic s
  tail_eq : d'.tail = d.tail
  sched_le : d'.sched.length ≤ d.sched.length
  /-- the destination received a prefix of the request, after what it already held -/
  pref : ∃ k, k ≤ b.length ∧ d'.buf = d.buf ++ b.take k
  /-- success means the whole request arrived -/
  ok_all : r = .ok () → d'.buf = d.buf ++ b
  /-- a destination that keeps accepting (limits ≥ 1, finitely many interruptions) gets success -/
  accept_ok : d.tail = .accept → r = .ok ()

/-- the loop invariant of `write_all`, for every destination (any schedule, any tail) -/
theorem writeAllFuel_spec (f : Nat) (d : Dest) (b : Bytes) (hf : d.sched.length < f)
    (r : Outcome Unit) (d' : Dest) (h : writeAllFuel f d b = (r, d')) : Delivered d b r d' := by
  induction f generalizing d b with
  | zero => omega
  | succ f ih =>
    unfold writeAllFuel at h
    by_cases hb : b.isEmpty
    · simp only [hb, if_true] at h
      injection h with h1 h2; subst h1; subst h2
      have : b = [] := by simpa using hb
      subst this
      exact ⟨by simp, rfl, Nat.le_refl _, ⟨0, by simp⟩, by simp, by simp⟩
    · simp only [hb, Bool.false_eq_true, if_false] at h
      have hbne : b ≠ [] := by simpa using hb
      have hbl : 0 < b.length := List.length_pos_iff.mpr hbne
      rcases hs : d.sched with _ | ⟨k, s⟩
      · -- schedule exhausted: the tail decides
        cases hta : d.tail with
        | accept =>
          simp only [Dest.write, hs, hta] at h
          have hne : b.length ≠ 0 := by omega
          simp only [hne, if_false, List.drop_length, writeAllFuel_nil] at h
          injection h with h1 h2; subst h1; subst h2
          exact ⟨by simp, by simp [hta], by simp [hs], ⟨b.length, Nat.le_refl _, by simp⟩, by simp, by simp⟩
        | fail =>
          simp only [Dest.write, hs, hta] at h
          injection h with h1 h2; subst h1; subst h2
          exact ⟨by simp, by simp [hta], by simp [hs], ⟨0, by omega, by simp⟩, by simp, by simp [hta]⟩
        | zero =>
          simp only [Dest.write, hs, hta, if_true] at h
          injection h with h1 h2; subst h1; subst h2
          exact ⟨by simp, by simp [hta], by simp [hs], ⟨0, by omega, by simp⟩, by simp, by simp [hta]⟩
      · cases k with
        | zero =>
          -- Interrupted: retry with the same buffer
          simp only [Dest.write, hs] at h
          have hlen : s.length < f := by rw [hs] at hf; simp at hf; omega
          have := ih { d with sched := s, log := b.length :: d.log } b hlen h
          obtain ⟨h1, h2, h3, h4, h5, h6⟩ := this
          exact ⟨h1, h2, by simp at h3; simp [hs]; omega, h4, h5, h6⟩
        | succ k =>
          -- a short (or full) write of n ≥ 1 bytes, then continue with the rest
          simp only [Dest.write, hs] at h
          have hn0 : min (k + 1) b.length ≠ 0 := by omega
          simp only [hn0, if_false] at h
          have hlen : s.length < f := by rw [hs] at hf; simp at hf; omega
          have := ih { d with sched := s, buf := d.buf ++ b.take (min (k + 1) b.length),
                              log := b.length :: d.log } (b.drop (min (k + 1) b.length))
            hlen h
          obtain ⟨h1, h2, h3, ⟨j, hj, hj2⟩, h5, h6⟩ := this
          refine ⟨h1, h2, by simp at h3; simp [hs]; omega,
            ⟨min (k + 1) b.length + j, ?_, ?_⟩, ?_, h6⟩
          · simp only [List.length_drop] at hj; omega
          · rw [hj2]; simp only [List.append_assoc, List.take_add]
          · intro hr
            rw [h5 hr]; simp only [List.append_assoc, List.take_append_drop]

theorem writeAll_spec (d : Dest) (b : Bytes) (r : Outcome Unit) (d' : Dest)
    (h : writeAll d b = (r, d')) : Delivered d b r d' :=
  writeAllFuel_spec _ d b (Nat.lt_succ_self _) r d' h

/-- a bare `write` delivers a prefix too — but reports success whatever the prefix is -/
theorem runOp_spec (d : Dest) (op : WOp) (r : Outcome Unit) (d' : Dest) (h : runOp d op = (r, d')) :
    (∀ s, r ≠ .panic s) ∧ d'.tail = d.tail ∧ d'.sched.length ≤ d.sched.length ∧
    (∃ k, k ≤ op.payload.length ∧ d'.buf = d.buf ++ op.payload.take k) ∧
    (op.isAll = true → r = .ok () → d'.buf = d.buf ++ op.payload) ∧
    (op.isAll = true → d.tail = .accept → r = .ok ()) := by
  cases op with
  | all b =>
    obtain ⟨h1, h2, h3, h4, h5, h6⟩ := writeAll_spec d b r d' h
    exact ⟨h1, h2, h3, h4, fun _ => h5, fun _ => h6⟩
  | raw b =>
    simp only [runOp, Dest.write] at h
    simp only [WOp.payload, WOp.isAll, Bool.false_eq_true, false_implies, and_true]
    rcases hs : d.sched with _ | ⟨k, s⟩
    · cases hta : d.tail <;> simp only [hs, hta] at h <;>
        (injection h with h1 h2; subst h1; subst h2; simp)
      · exact ⟨b.length, Nat.le_refl _, by simp⟩
      · exact ⟨0, by omega, by simp⟩
      · exact ⟨0, by omega, by simp⟩
    · cases k with
      | zero =>
        simp only [hs] at h
        injection h with h1 h2; subst h1; subst h2; simp
        exact ⟨0, by omega, by simp⟩
      | succ k =>
        simp only [hs] at h
        injection h with h1 h2; subst h1; subst h2; simp
        exact ⟨min (k + 1) b.length, by omega, by simp⟩

/-- no operation list ever panics, and `tail` is never changed -/
theorem runOps_noPanic (ops : List WOp) (d : Dest) (r : Outcome Unit) (d' : Dest)
    (h : runOps d ops = (r, d')) : (∀ s, r ≠ .panic s) ∧ d'.tail = d.tail := by
  induction ops generalizing d with
  | nil =>
    simp only [runOps] at h
    injection h with h1 h2; subst h1; subst h2
    exact ⟨by simp, rfl⟩
  | cons op rest ih =>
    simp only [runOps] at h
    cases hop : runOp d op with
    | mk r1 d1 =>
      obtain ⟨p1, t1, _⟩ := runOp_spec d op r1 d1 hop
      rw [hop] at h
      cases r1 with
      | ok u =>
        cases u
        simp only at h
        obtain ⟨p2, t2⟩ := ih d1 h
        exact ⟨p2, by rw [t2, t1]⟩
      | err e =>
        simp only at h
        injection h with h1 h2; subst h1; subst h2
        exact ⟨by simp, t1⟩
      | panic s => exact absurd rfl (p1 s)

/-- operation lists made of `write_all`s only: success means every payload arrived, in order;
    error or not, the destination holds a prefix of the requested bytes; a destination that keeps
    accepting always gets success. -/
theorem runOps_all_spec (ops : List WOp) (hall : ∀ op ∈ ops, op.isAll = true)
    (d : Dest) (r : Outcome Unit) (d' : Dest) (h : runOps d ops = (r, d')) :
    (∃ k, k ≤ (flatten ops).length ∧ d'.buf = d.buf ++ (flatten ops).take k) ∧
    (r = .ok () → d'.buf = d.buf ++ flatten ops) ∧
    (d.tail = .accept → r = .ok ()) := by
  induction ops generalizing d with
  | nil =>
    simp only [runOps] at h
    injection h with h1 h2; subst h1; subst h2
    exact ⟨⟨0, by simp⟩, by simp [flatten], by simp⟩
  | cons op rest ih =>
    simp only [runOps] at h
    have hop_all : op.isAll = true := hall op (by simp)
    have hrest : ∀ o ∈ rest, o.isAll = true := fun o ho => hall o (by simp [ho])
    cases hop : runOp d op with
    | mk r1 d1 =>
      obtain ⟨p1, t1, _, ⟨k1, hk1, hb1⟩, ok1, acc1⟩ := runOp_spec d op r1 d1 hop
      rw [hop] at h
      have hfl : flatten (op :: rest) = op.payload ++ flatten rest := by simp [flatten]
      cases r1 with
      | ok u =>
        cases u
        simp only at h
        have hfull := ok1 hop_all rfl
        obtain ⟨⟨k2, hk2, hb2⟩, ok2, acc2⟩ := ih hrest d1 h
        refine ⟨⟨op.payload.length + k2, by rw [hfl]; simp; omega, ?_⟩, ?_, ?_⟩
        · rw [hb2, hfull, hfl, List.append_assoc, List.take_length_add_append]
        · intro hr
          rw [ok2 hr, hfull, hfl, List.append_assoc]
        · intro hta
          exact acc2 (by rw [t1]; exact hta)
      | err e =>
        simp only at h
        injection h with h1 h2; subst h1; subst h2
        refine ⟨⟨k1, by rw [hfl]; simp; omega, ?_⟩, by simp, ?_⟩
        · rw [hb1, hfl, List.take_append_of_le_length hk1]
        · intro hta
          exact absurd (acc1 hop_all hta) (by simp)
      | panic s => exact absurd rfl (p1 s)

theorem opsOfTrace_all (t : List Nat) (b : Bytes) : ∀ op ∈ opsOfTrace t b, op.isAll = true := by
  induction t generalizing b with
  | nil => simp [opsOfTrace]
  | cons n ns ih =>
    intro op hop
    simp only [opsOfTrace, List.mem_cons] at hop
    rcases hop with rfl | hop
    · rfl
    · exact ih _ op hop

theorem flatten_opsOfTrace (t : List Nat) (b : Bytes) :
    flatten (opsOfTrace t b) = b.take t.sum := by
  induction t generalizing b with
  | nil => simp [opsOfTrace, flatten]
  | cons n ns ih =>
    have := ih (b.drop n)
    simp only [flatten] at this
    simp only [opsOfTrace, flatten, List.flatMap_cons, WOp.payload, List.sum_cons, this,
      List.take_add]

end CG.Proofs.Writer

import CG.Proofs.TxChecker
import CG.Props.C02
import CG.Props.C07
/-!
Helper lemmas for `CG.Props.TxChecker`, part 2: the real `TransactionChecker` model.

* its verdicts do not depend on which VALID signature-hash cache it holds, and it keeps the cache valid
  (`txChecker_insensitive`, from `C02_cache_invariant` / `C02_cache_transparent` applied to one request);
* it never panics when `input < tx.inputs.length` (`txChecker_neverPanics`, from `C02_never_panics`);
* hence the input loop of `Tx::validate` with ONE shared cache computes the same verdict as the loop of
  C04's model with the per-input verdicts computed from a FRESH cache each (`scriptLoopSt_eq`).
-/
namespace CG.Proofs.TxChecker
open CG CG.Model.Interp CG.Model.ScriptNum CG.Model.TxChecker
open CG.Model.Sighash (Cache sighash)
open CG.Proofs.Sighash (CacheOk cacheOk_empty)

/-- one `sighash` call through a valid cache: same answer as with an empty cache, cache still valid.
    This is `C02_cache_invariant` for the one-element request list. -/
theorem sighash_cache (H : Bytes → Bytes) (tx : CG.Model.TxSer.Tx) (n : Nat) (code : Bytes) (k : Nat)
    (sat : Int) (ty : UInt8) (c : Cache) (hc : CacheOk H tx c) :
    (sighash H tx n code k sat ty c).1 = (sighash H tx n code k sat ty Cache.empty).1 ∧
    CacheOk H tx (sighash H tx n code k sat ty c).2 := by
  obtain ⟨h1, h2⟩ := CG.Props.C02.C02_cache_invariant H tx [⟨.digest, n, code, k, sat, ty⟩] c hc
  have e : ∀ c0 : Cache, CG.Model.Sighash.run H tx c0 [⟨.digest, n, code, k, sat, ty⟩]
      = ((sighash H tx n code k sat ty c0).2, [(sighash H tx n code k sat ty c0).1]) := by
    intro c0
    simp only [CG.Model.Sighash.run, CG.Model.Sighash.runWith, CG.Model.Sighash.answerWith, sighash]
  rw [e c] at h1 h2
  rw [e Cache.empty] at h1
  simp only [List.cons.injEq, and_true] at h1
  exact ⟨h1, h2⟩

variable {Sig Key : Type}

theorem checkSig_fst_snd (dsha : Bytes → Bytes) (K : K256 Sig Key) (x : Ctx) (c : Cache) (sig pk scr : Bytes) :
    (∀ ty, sig.getLast? = some ty →
      ¬ (x.requireForkid = true ∧ ty &&& CG.Model.Sighash.SIGHASH_FORKID = 0) →
      (checkSig dsha K x c sig pk scr).2 = (sighash dsha x.tx x.input scr 0 x.satoshis ty c).2 ∧
      (checkSig dsha K x c sig pk scr).1 =
        match (sighash dsha x.tx x.input scr 0 x.satoshis ty c).1 with
        | .err e => .err e
        | .panic p => .panic p
        | .ok digest =>
          match K.parseSig sig.dropLast with
          | none => k256Err
          | some s =>
            match K.parseKey pk with
            | none => k256Err
            | some k => .ok (K.verify k digest s)) ∧
    (sig.getLast? = none → checkSig dsha K x c sig pk scr = (scriptErr, c)) ∧
    (∀ ty, sig.getLast? = some ty → (x.requireForkid = true ∧ ty &&& CG.Model.Sighash.SIGHASH_FORKID = 0) →
      checkSig dsha K x c sig pk scr = (scriptErr, c)) := by
  refine ⟨?_, ?_, ?_⟩
  · intro ty hty hf
    unfold checkSig
    simp only [hty, hf, if_false]
    rcases sighash dsha x.tx x.input scr 0 x.satoshis ty c with ⟨o, c1⟩
    cases o with
    | err e => exact ⟨rfl, rfl⟩
    | panic p => exact ⟨rfl, rfl⟩
    | ok d =>
      simp only []
      cases K.parseSig sig.dropLast with
      | none => exact ⟨rfl, rfl⟩
      | some s =>
        simp only []
        cases K.parseKey pk with
        | none => exact ⟨rfl, rfl⟩
        | some k => exact ⟨rfl, rfl⟩
  · intro h
    unfold checkSig
    simp only [h]
  · intro ty hty hf
    unfold checkSig
    simp only [hty, hf, and_self, if_true]

/-- the real checker: verdicts independent of the (valid) cache, cache stays valid -/
theorem txChecker_insensitive (dsha : Bytes → Bytes) (K : K256 Sig Key) (x : Ctx) :
    Insensitive (txChecker dsha K x) (CacheOk dsha x.tx) where
  sig := by
    intro c c' sg pk scr hc hc'
    show (checkSig dsha K x c sg pk scr).1 = (checkSig dsha K x c' sg pk scr).1
    obtain ⟨a1, a2, a3⟩ := checkSig_fst_snd dsha K x c sg pk scr
    obtain ⟨b1, b2, b3⟩ := checkSig_fst_snd dsha K x c' sg pk scr
    cases hl : sg.getLast? with
    | none => rw [a2 hl, b2 hl]
    | some ty =>
      by_cases hf : x.requireForkid = true ∧ ty &&& CG.Model.Sighash.SIGHASH_FORKID = 0
      · rw [a3 ty hl hf, b3 ty hl hf]
      · rw [(a1 ty hl hf).2, (b1 ty hl hf).2,
          (sighash_cache dsha x.tx x.input scr 0 x.satoshis ty c hc).1,
          (sighash_cache dsha x.tx x.input scr 0 x.satoshis ty c' hc').1]
  inv := by
    intro c sg pk scr hc
    show CacheOk dsha x.tx (checkSig dsha K x c sg pk scr).2
    obtain ⟨a1, a2, a3⟩ := checkSig_fst_snd dsha K x c sg pk scr
    cases hl : sg.getLast? with
    | none => rw [a2 hl]; exact hc
    | some ty =>
      by_cases hf : x.requireForkid = true ∧ ty &&& CG.Model.Sighash.SIGHASH_FORKID = 0
      · rw [a3 ty hl hf]; exact hc
      · rw [(a1 ty hl hf).1]
        exact (sighash_cache dsha x.tx x.input scr 0 x.satoshis ty c hc).2
  lt := fun _ _ _ => rfl
  sq := fun _ _ _ => rfl

/-- the real checker never panics when its input index is in range -/
theorem txChecker_neverPanics (dsha : Bytes → Bytes) (K : K256 Sig Key) (x : Ctx)
    (hin : x.input < x.tx.inputs.length) : (txChecker dsha K x).NeverPanics := by
  refine ⟨?_, ?_, ?_⟩
  · intro c sg pk scr s
    show (checkSig dsha K x c sg pk scr).1 ≠ .panic s
    obtain ⟨a1, a2, a3⟩ := checkSig_fst_snd dsha K x c sg pk scr
    cases hl : sg.getLast? with
    | none => rw [a2 hl]; simp [scriptErr]
    | some ty =>
      by_cases hf : x.requireForkid = true ∧ ty &&& CG.Model.Sighash.SIGHASH_FORKID = 0
      · rw [a3 ty hl hf]; simp [scriptErr]
      · rw [(a1 ty hl hf).2]
        have hnp := (CG.Props.C02.C02_never_panics dsha x.tx x.input scr 0 x.satoshis ty c).2.2
        cases hd : (sighash dsha x.tx x.input scr 0 x.satoshis ty c).1 with
        | err e => simp
        | panic p => exact absurd hd (hnp p)
        | ok d =>
          simp only []
          cases K.parseSig sg.dropLast with
          | none => simp [k256Err]
          | some sv =>
            simp only []
            cases K.parseKey pk with
            | none => simp [k256Err]
            | some kv => simp
  · intro c t s
    show checkLocktime x t ≠ .panic s
    have hi : x.tx.inputs[x.input]? = some x.tx.inputs[x.input] := List.getElem?_eq_getElem hin
    unfold checkLocktime
    simp only [hi]
    repeat' split
    all_goals simp [scriptErr]
  · intro c t s
    show checkSequence x t ≠ .panic s
    have hi : x.tx.inputs[x.input]? = some x.tx.inputs[x.input] := List.getElem?_eq_getElem hin
    unfold checkSequence
    simp only [hi]
    repeat' split
    all_goals simp [scriptErr]

/-! ### the input loop of `Tx::validate`: one shared cache = a fresh cache per input -/

theorem toSer_inputs_length (tx : CG.Model.TxValidate.Tx) : (toSer tx).inputs.length = tx.inputs.length := by
  simp [toSer]

/-- `validateInputSt` from a valid cache, in terms of C03's `validateInput` from the EMPTY cache -/
theorem validateInputSt_fresh (E : Env Sig Key) (x : Ctx) (c : Cache) (hc : CacheOk E.dsha x.tx c)
    (unlock lock : Bytes) (flags : Nat) :
    match validateInputSt E.H (txChecker E.dsha E.K x) c unlock lock flags with
    | .ok c' => CacheOk E.dsha x.tx c' ∧
        CG.Model.TxScript.validateInput E.H (txChecker E.dsha E.K x) Cache.empty unlock lock flags = .ok ()
    | .err e => CG.Model.TxScript.validateInput E.H (txChecker E.dsha E.K x) Cache.empty unlock lock flags = .err e
    | .panic p => CG.Model.TxScript.validateInput E.H (txChecker E.dsha E.K x) Cache.empty unlock lock flags = .panic p := by
  have hrel := validateInputSt_rel (txChecker_insensitive E.dsha E.K x) E.H c Cache.empty hc
    (cacheOk_empty E.dsha x.tx) unlock lock flags
  rw [validateInput_eq]
  cases h1 : validateInputSt E.H (txChecker E.dsha E.K x) c unlock lock flags <;>
    cases h2 : validateInputSt E.H (txChecker E.dsha E.K x) Cache.empty unlock lock flags <;>
    rw [h1, h2] at hrel <;> simp only [VerdictRel] at hrel
  · exact ⟨hrel.1, rfl⟩
  · subst hrel; rfl
  · subst hrel; rfl

open CG.Model.TxValidate in
/-- the loop with the shared cache, started at input `i` with any valid cache, is C04's loop over the
    fresh-cache verdicts -/
theorem scriptLoopSt_eq (E : Env Sig Key) (tx : Tx) (utxos : Utxos) :
    ∀ (ins : List TxIn) (i : Nat) (c : Cache), tx.inputs.drop i = ins → CacheOk E.dsha (toSer tx) c →
      scriptLoopSt E tx utxos i ins c = scriptLoop utxos (freshInput E tx utxos) i ins := by
  intro ins
  induction ins with
  | nil => intro i c _ _; rfl
  | cons tin rest ih =>
    intro i c hd hc
    have hi : tx.inputs[i]? = some tin := by
      have := congrArg List.head? hd
      simpa [List.head?_drop] using this
    have hrest : tx.inputs.drop (i + 1) = rest := by
      have := congrArg List.tail hd
      simpa [List.tail_drop] using this
    unfold scriptLoopSt scriptLoop
    cases hu : utxos tin.prevOutput with
    | none => rfl
    | some out =>
      simp only []
      have hf := validateInputSt_fresh E (ctxOf E tx i out) c hc tin.unlockScript out.lockScript
        (flagsFor E.useGenesis (E.pregenesis tin.prevOutput))
      have hfresh : freshInput E tx utxos i =
          match CG.Model.TxScript.validateInput E.H (txChecker E.dsha E.K (ctxOf E tx i out)) Cache.empty
              tin.unlockScript out.lockScript (flagsFor E.useGenesis (E.pregenesis tin.prevOutput)) with
          | .ok () => .ok true
          | .err e => .err e
          | .panic p => .panic p := by
        unfold freshInput
        simp only [hi, hu]
        cases CG.Model.TxScript.validateInput E.H (txChecker E.dsha E.K (ctxOf E tx i out)) Cache.empty
            tin.unlockScript out.lockScript (flagsFor E.useGenesis (E.pregenesis tin.prevOutput)) with
        | ok u => rfl
        | err e => rfl
        | panic p => rfl
      rw [hfresh]
      cases hv : validateInputSt E.H (txChecker E.dsha E.K (ctxOf E tx i out)) c tin.unlockScript
          out.lockScript (flagsFor E.useGenesis (E.pregenesis tin.prevOutput)) with
      | ok c' =>
        rw [hv] at hf
        simp only [] at hf
        rw [hf.2]
        exact ih (i + 1) c' hrest hf.1
      | err e =>
        rw [hv] at hf
        simp only [] at hf
        rw [hf]
      | panic p =>
        rw [hv] at hf
        simp only [] at hf
        rw [hf]

end CG.Proofs.TxChecker

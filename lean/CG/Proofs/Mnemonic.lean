import CG.Model.Bits
import CG.Model.Mnemonic
import CG.Spec.Bip39
/-!
Helper lemmas for C10: bit strings, the abstraction function `toBits` of the byte-packed `Bits`,
`from_slice` / `append` / `extract` against bit lists, the encode and decode loops.
-/
namespace CG.Proofs.Mnemonic
open CG CG.Model.Bits CG.Model.Mnemonic CG.Spec.Bip39

/-! ## bit strings -/

@[simp] theorem natToBits_length (w n : Nat) : (natToBits w n).length = w := by
  induction w with
  | zero => rfl
  | succ w ih => simp [natToBits, ih]

theorem bitsToNat_lt (l : List Bool) : bitsToNat l < 2 ^ l.length := by
  induction l with
  | nil => simp [bitsToNat]
  | cons b r ih =>
    simp only [bitsToNat, List.length_cons, Nat.pow_succ]
    cases b <;> simp <;> omega

theorem bitsToNat_append (a b : List Bool) :
    bitsToNat (a ++ b) = bitsToNat a * 2 ^ b.length + bitsToNat b := by
  induction a with
  | nil => simp [bitsToNat]
  | cons x r ih =>
    simp only [List.cons_append, bitsToNat, ih, List.length_append, Nat.pow_add, Nat.add_mul]
    rw [Nat.mul_assoc, Nat.add_assoc]

theorem bitsToNat_natToBits (w n : Nat) : bitsToNat (natToBits w n) = n % 2 ^ w := by
  induction w with
  | zero => simp [natToBits, bitsToNat, Nat.mod_one]
  | succ w ih =>
    simp only [natToBits, bitsToNat, natToBits_length, ih, Nat.toNat_testBit]
    rw [Nat.mod_pow_succ, Nat.mul_comm]; omega

theorem natToBits_mod (w k n : Nat) (h : w ≤ k) : natToBits w (n % 2 ^ k) = natToBits w n := by
  induction w with
  | zero => rfl
  | succ w ih =>
    simp only [natToBits, Nat.testBit_mod_two_pow]
    rw [ih (by omega)]
    have : w < k := by omega
    simp [this]

theorem natToBits_bitsToNat (l : List Bool) : natToBits l.length (bitsToNat l) = l := by
  induction l with
  | nil => rfl
  | cons b r ih =>
    have hlt := bitsToNat_lt r
    simp only [List.length_cons, natToBits, bitsToNat]
    congr 1
    · rw [Nat.testBit_eq_decide_div_mod_eq, Nat.mul_comm, Nat.mul_add_div (Nat.two_pow_pos _),
        Nat.div_eq_of_lt hlt]
      cases b <;> simp
    · rw [← natToBits_mod _ r.length _ (Nat.le_refl _), Nat.mul_comm, Nat.mul_add_mod,
        Nat.mod_eq_of_lt hlt, ih]

theorem bitsToNat_injective {a b : List Bool} (hl : a.length = b.length)
    (h : bitsToNat a = bitsToNat b) : a = b := by
  rw [← natToBits_bitsToNat a, ← natToBits_bitsToNat b, hl, h]

@[simp] theorem byteBits_length (x : UInt8) : (byteBits x).length = 8 := by simp [byteBits]

@[simp] theorem bytesToBits_nil : bytesToBits [] = [] := rfl

@[simp] theorem bytesToBits_cons (x : UInt8) (r : Bytes) :
    bytesToBits (x :: r) = byteBits x ++ bytesToBits r := by simp [bytesToBits]

@[simp] theorem bytesToBits_append (a b : Bytes) :
    bytesToBits (a ++ b) = bytesToBits a ++ bytesToBits b := by simp [bytesToBits]

@[simp] theorem bytesToBits_length (b : Bytes) : (bytesToBits b).length = 8 * b.length := by
  induction b with
  | nil => rfl
  | cons x r ih => simp [ih]; omega

theorem byteBits_injective {x y : UInt8} (h : byteBits x = byteBits y) : x = y := by
  have h2 := congrArg bitsToNat h
  simp only [byteBits, bitsToNat_natToBits] at h2
  have hx := x.toNat_lt; have hy := y.toNat_lt
  apply UInt8.toNat_inj.mp; omega

theorem bytesToBits_injective {a b : Bytes} (h : bytesToBits a = bytesToBits b) : a = b := by
  induction a generalizing b with
  | nil =>
    cases b with
    | nil => rfl
    | cons y s => have := congrArg List.length h; simp at this; omega
  | cons x r ih =>
    cases b with
    | nil => have := congrArg List.length h; simp at this
    | cons y s =>
      simp only [bytesToBits_cons] at h
      obtain ⟨h1, h2⟩ := List.append_inj h (by simp)
      rw [byteBits_injective h1, ih h2]

theorem bytesToBits_take (n : Nat) (b : Bytes) :
    bytesToBits (b.take n) = (bytesToBits b).take (8 * n) := by
  induction b generalizing n with
  | nil => simp
  | cons x r ih =>
    cases n with
    | zero => simp
    | succ n =>
      simp only [List.take_succ_cons, bytesToBits_cons, ih]
      rw [show 8 * (n + 1) = (byteBits x).length + 8 * n by simp; omega, List.take_length_add_append]


/-! ## one-byte facts -/

theorem natToBits_zero (w : Nat) : natToBits w 0 = List.replicate w false := by
  induction w with
  | zero => rfl
  | succ w ih => simp [natToBits, ih, List.replicate_succ]

/-- the `a+b` low bits are the `a` bits above position `b` followed by the `b` low bits -/
theorem natToBits_add (a b n : Nat) :
    natToBits (a + b) n = natToBits a (n / 2 ^ b) ++ natToBits b n := by
  induction a with
  | zero => simp [natToBits]
  | succ a ih =>
    rw [show a + 1 + b = (a + b) + 1 by omega]
    simp only [natToBits, ih, List.cons_append, Nat.testBit_div_two_pow]

theorem natToBits_take (w r n : Nat) (h : r ≤ w) :
    (natToBits w n).take r = natToBits r (n / 2 ^ (w - r)) := by
  rw [show w = r + (w - r) by omega, natToBits_add, List.take_left' (by simp)]
  congr 3; omega

theorem natToBits_drop (w r n : Nat) (h : r ≤ w) :
    (natToBits w n).drop r = natToBits (w - r) n := by
  conv => lhs; rw [show w = r + (w - r) by omega, natToBits_add]
  rw [List.drop_left' (by simp)]

theorem natToBits_of_lt (k w n : Nat) (h : n < 2 ^ w) :
    natToBits (k + w) n = List.replicate k false ++ natToBits w n := by
  rw [natToBits_add, Nat.div_eq_of_lt h, natToBits_zero]

theorem natToBits_mul_pow (k n : Nat) : natToBits k (n * 2 ^ k) = List.replicate k false := by
  rw [← natToBits_mod k k _ (Nat.le_refl _), Nat.mul_mod_left, natToBits_zero]

theorem byteBits_ofNat (m : Nat) : byteBits (UInt8.ofNat m) = natToBits 8 m := by
  simp only [byteBits, UInt8.toNat_ofNat']
  exact natToBits_mod 8 8 m (Nat.le_refl _)

theorem byteBits_shr8 (x : UInt8) (k : Nat) (hk : k ≤ 8) :
    byteBits (shr8 x k) = List.replicate k false ++ (byteBits x).take (8 - k) := by
  have hx := x.toNat_lt
  have hlt : x.toNat / 2 ^ k < 2 ^ (8 - k) := by
    rw [Nat.div_lt_iff_lt_mul (Nat.two_pow_pos _), ← Nat.pow_add]
    rw [show 8 - k + k = 8 by omega]; exact hx
  rw [shr8, byteBits_ofNat, byteBits, Nat.shiftRight_eq_div_pow]
  rw [natToBits_take 8 (8 - k) _ (by omega), show 8 - (8 - k) = k by omega]
  conv => lhs; rw [show 8 = k + (8 - k) by omega]
  exact natToBits_of_lt k (8 - k) _ hlt

theorem byteBits_shl8 (x : UInt8) (k : Nat) (hk : k ≤ 8) :
    byteBits (shl8 x k) = (byteBits x).drop k ++ List.replicate k false := by
  rw [shl8, byteBits_ofNat, byteBits, Nat.shiftLeft_eq]
  rw [show (256 : Nat) = 2 ^ 8 by rfl, natToBits_mod 8 8 _ (Nat.le_refl _), natToBits_drop 8 k _ hk]
  conv => lhs; rw [show 8 = (8 - k) + k by omega]
  rw [natToBits_add, Nat.mul_div_cancel _ (Nat.two_pow_pos _), natToBits_mul_pow]

theorem keep_bits_chk : (List.range 9).all (fun r =>
    natToBits 8 (255 - (2 ^ (8 - r) - 1)) == List.replicate r true ++ List.replicate (8 - r) false) = true := by
  decide +kernel

theorem zipWith_and_true (t : List Bool) :
    List.zipWith (· && ·) t (List.replicate t.length true) = t := by
  induction t with
  | nil => rfl
  | cons a r ih => simp [List.replicate_succ, ih]

theorem zipWith_and_false (t : List Bool) :
    List.zipWith (· && ·) t (List.replicate t.length false) = List.replicate t.length false := by
  induction t with
  | nil => rfl
  | cons a r ih => simp [List.replicate_succ, ih]

theorem byteBits_and (x y : UInt8) :
    byteBits (x &&& y) = List.zipWith (· && ·) (byteBits x) (byteBits y) := by
  simp [byteBits, natToBits, Nat.testBit_and, UInt8.toNat_and]

theorem byteBits_keepTop (x : UInt8) (r : Nat) (hr : r ≤ 8) :
    byteBits (keepTop x r) = (byteBits x).take r ++ List.replicate (8 - r) false := by
  have hm : natToBits 8 (255 - (2 ^ (8 - r) - 1)) = List.replicate r true ++ List.replicate (8 - r) false :=
    eq_of_beq (List.all_eq_true.mp keep_bits_chk r (List.mem_range.mpr (by omega)))
  rw [keepTop, byteBits_and, byteBits_ofNat, hm]
  conv => lhs; rw [← List.take_append_drop r (byteBits x)]
  rw [List.zipWith_append (by simp; omega)]
  have h1 : ((byteBits x).take r).length = r := by simp; omega
  have h2 : ((byteBits x).drop r).length = 8 - r := by simp
  conv => lhs; arg 1; arg 3; rw [← h1]
  conv => lhs; arg 2; arg 3; rw [← h2]
  rw [zipWith_and_true, zipWith_and_false, h2]

theorem sub_bits (x : UInt8) (r l : Nat) (h : r + l ≤ 8) :
    (x.toNat >>> (8 - r - l)) &&& (2 ^ l - 1) = bitsToNat (((byteBits x).drop r).take l) := by
  rw [byteBits, natToBits_drop 8 r _ (by omega), natToBits_take (8 - r) l _ (by omega),
    bitsToNat_natToBits, Nat.and_two_pow_sub_one_eq_mod, Nat.shiftRight_eq_div_pow]

theorem byteBits_or (x y : UInt8) :
    byteBits (x ||| y) = List.zipWith (· || ·) (byteBits x) (byteBits y) := by
  simp [byteBits, natToBits, Nat.testBit_or, UInt8.toNat_or]

theorem zipWith_or_false_right (t : List Bool) :
    List.zipWith (· || ·) t (List.replicate t.length false) = t := by
  induction t with
  | nil => rfl
  | cons a r ih => simp [List.replicate_succ, ih]

theorem zipWith_or_false_left (u : List Bool) :
    List.zipWith (· || ·) (List.replicate u.length false) u = u := by
  induction u with
  | nil => rfl
  | cons a r ih => simp [List.replicate_succ, ih]

theorem zipWith_or_split (t u : List Bool) :
    List.zipWith (· || ·) (t ++ List.replicate u.length false) (List.replicate t.length false ++ u)
      = t ++ u := by
  rw [List.zipWith_append (by simp), zipWith_or_false_right, zipWith_or_false_left]


/-! ## the abstraction function of `Bits` -/

/-- the bit string a `Bits` value stands for: the first `len` bits of its bytes -/
def toBits (b : Bits) : List Bool := (bytesToBits b.data).take b.len

/-- Well-formed: exactly the bytes needed for `len` bits, unused low bits of the last byte zero.
    (`from_slice` with a length that uses the last byte, and `append` of such values, keep it;
    `append` *requires* it of `self` — it ORs into the last byte.) -/
def WF (b : Bits) : Prop :=
  b.data.length = (b.len + 7) / 8 ∧
    bytesToBits b.data = toBits b ++ List.replicate (8 * b.data.length - b.len) false

theorem toBits_mk (d : Bytes) (n : Nat) : toBits ⟨d, n⟩ = (bytesToBits d).take n := rfl

theorem toBits_length (b : Bits) (h : b.len ≤ 8 * b.data.length) : (toBits b).length = b.len := by
  simp [toBits]; omega

theorem WF.len_le {b : Bits} (h : WF b) : b.len ≤ 8 * b.data.length := by
  have := h.1; omega

theorem wf_new : WF Bits.new := by simp [WF, Bits.new, toBits]

@[simp] theorem toBits_new : toBits Bits.new = [] := by simp [Bits.new, toBits]

theorem modifyLast_append (f : UInt8 → UInt8) (init : Bytes) (x : UInt8) :
    modifyLast f (init ++ [x]) = init ++ [f x] := by
  induction init with
  | nil => rfl
  | cons a r ih =>
    cases r with
    | nil => simp [modifyLast]
    | cons b t => simp only [List.cons_append, modifyLast] at ih ⊢; rw [ih]

@[simp] theorem modifyLast_length (f : UInt8 → UInt8) (l : Bytes) : (modifyLast f l).length = l.length := by
  induction l with
  | nil => rfl
  | cons a r ih =>
    cases r with
    | nil => rfl
    | cons b t => simp only [modifyLast, List.length_cons] at ih ⊢; rw [ih]

theorem exists_snoc {l : Bytes} (h : l ≠ []) : ∃ init x, l = init ++ [x] := by
  induction l with
  | nil => exact absurd rfl h
  | cons a r ih =>
    cases r with
    | nil => exact ⟨[], a, rfl⟩
    | cons b t =>
      obtain ⟨i, x, hx⟩ := ih (by simp)
      exact ⟨a :: i, x, by rw [hx]; rfl⟩

theorem take_min_length {α} (l : List α) (n : Nat) : l.take (min l.length n) = l.take n := by
  by_cases h : n ≤ l.length
  · rw [Nat.min_eq_right h]
  · rw [Nat.min_eq_left (by omega), List.take_of_length_le (Nat.le_refl _), List.take_of_length_le (by omega)]

theorem fromSlice_len (d : Bytes) (n : Nat) : (fromSlice d n).len = min (d.length * 8) n := by
  unfold fromSlice; simp only; split <;> rfl

theorem fromSlice_data_length (d : Bytes) (n : Nat) : (fromSlice d n).data.length = d.length := by
  unfold fromSlice; simp only; split <;> simp

/-- `from_slice(data, len)` stands for the first `len` bits of `data` -/
theorem toBits_fromSlice (d : Bytes) (n : Nat) : toBits (fromSlice d n) = (bytesToBits d).take n := by
  have hmin : (bytesToBits d).take (min (d.length * 8) n) = (bytesToBits d).take n := by
    have := take_min_length (bytesToBits d) n
    rwa [bytesToBits_length, Nat.mul_comm] at this
  unfold fromSlice
  simp only
  split
  · rename_i hrem
    have hne : d ≠ [] := by
      intro h; subst h; simp at hrem
    obtain ⟨init, x, rfl⟩ := exists_snoc hne
    rw [← hmin]
    simp only [toBits, modifyLast_append, bytesToBits_append, bytesToBits_cons, bytesToBits_nil,
      List.append_nil]
    generalize hL : min ((init ++ [x]).length * 8) n = L at hrem ⊢
    have hL8 : L ≤ 8 * init.length + 8 := by
      rw [← hL]; simp only [List.length_append, List.length_cons, List.length_nil]; omega
    by_cases hle : L ≤ 8 * init.length
    · rw [List.take_append_of_le_length (by simp; omega), List.take_append_of_le_length (by simp; omega)]
    · have hLe : L - (bytesToBits init).length = L % 8 := by simp; omega
      rw [List.take_append, List.take_append, hLe, byteBits_keepTop x (L % 8) (by omega),
        List.take_left' (by simp; omega)]
  · rw [← hmin]; rfl


/-! ## `append_byte` and `append` -/

/-- `byte` has no bit set below its top `k` bits -/
def CleanByte (byte : UInt8) (k : Nat) : Prop :=
  (byteBits byte).drop k = List.replicate (8 - k) false

theorem cleanByte_eight (byte : UInt8) : CleanByte byte 8 := by simp [CleanByte]

theorem last_or (last byte : UInt8) (e : Nat) (he : e ≤ 8) (L : List Bool) (hL : L.length = e)
    (hclean : byteBits last = L ++ List.replicate (8 - e) false) :
    byteBits (last ||| shr8 byte e) = L ++ (byteBits byte).take (8 - e) := by
  have hu : ((byteBits byte).take (8 - e)).length = 8 - e := by simp
  have h := zipWith_or_split L ((byteBits byte).take (8 - e))
  rw [hu, hL] at h
  rw [byteBits_or, hclean, byteBits_shr8 byte e he]
  exact h

theorem appendByte_spec (a : Bits) (byte : UInt8) (k : Nat) (ha : WF a) (hk1 : 1 ≤ k) (hk : k ≤ 8) :
    ∃ r, appendByte a byte k = .ok r ∧ r.len = a.len + k ∧
      toBits r = toBits a ++ (byteBits byte).take k ∧
      r.data.length = (r.len + 7) / 8 ∧ (CleanByte byte k → WF r) := by
  obtain ⟨hlen, hbits⟩ := ha
  have hAlen : (toBits a).length = a.len := toBits_length a (by omega)
  have hbb : (byteBits byte).length = 8 := byteBits_length byte
  unfold appendByte
  simp only
  split
  · -- byte aligned: push
    rename_i he
    have h8 : 8 * a.data.length = a.len := by omega
    have hA : bytesToBits a.data = toBits a := by
      rw [hbits, h8]; simp
    have hT : toBits ⟨a.data ++ [byte], a.len + k⟩ = toBits a ++ (byteBits byte).take k := by
      simp only [toBits_mk, bytesToBits_append, bytesToBits_cons, bytesToBits_nil, List.append_nil]
      rw [show a.len + k = (bytesToBits a.data).length + k by simp; omega, List.take_length_add_append,
        ← hA]
    refine ⟨_, rfl, rfl, hT, by simp; omega, ?_⟩
    · intro hc
      refine ⟨by simp; omega, ?_⟩
      rw [hT]
      simp only [bytesToBits_append, bytesToBits_cons, bytesToBits_nil, List.append_nil, hA,
        List.length_append, List.length_cons, List.length_nil]
      rw [List.append_assoc]
      congr 1
      rw [show 8 * (a.data.length + (0 + 1)) - (a.len + k) = 8 - k by omega, ← hc,
        List.take_append_drop]
  · rename_i he
    have hne : a.data ≠ [] := by
      intro h; rw [h] at hlen; simp at hlen; omega
    rw [if_neg hne]
    obtain ⟨init, last, hd⟩ := exists_snoc hne
    have hil : a.len = 8 * init.length + a.len % 8 := by
      rw [hd] at hlen; simp at hlen; omega
    generalize hE : a.len % 8 = e at he hil ⊢
    have he8 : e < 8 := by omega
    -- the last byte: `e` live bits then zeros
    have hA : toBits a = bytesToBits init ++ (byteBits last).take e := by
      simp only [toBits, hd, bytesToBits_append, bytesToBits_cons, bytesToBits_nil, List.append_nil]
      rw [hil, show 8 * init.length + e = (bytesToBits init).length + e by simp,
        List.take_length_add_append]
    have hlast : byteBits last = (byteBits last).take e ++ List.replicate (8 - e) false := by
      have h := hbits
      rw [hA, hd] at h
      simp only [bytesToBits_append, bytesToBits_cons, bytesToBits_nil, List.append_nil,
        List.length_append, List.length_cons, List.length_nil, List.append_assoc] at h
      have h2 := List.append_cancel_left h
      rw [h2]; congr 2 <;> omega
    have hor := last_or last byte e (by omega) ((byteBits last).take e) (by simp; omega) hlast
    simp only [hd, modifyLast_append]
    split
    · -- the byte straddles: one more byte is pushed
      rename_i hgt
      have hT : toBits ⟨init ++ [last ||| shr8 byte e] ++ [shl8 byte (8 - e)], a.len + k⟩ =
          toBits a ++ (byteBits byte).take k := by
        simp only [toBits_mk, bytesToBits_append, bytesToBits_cons, bytesToBits_nil, List.append_nil, hor,
          byteBits_shl8 byte (8 - e) (by omega)]
        rw [hA]
        simp only [List.append_assoc]
        rw [← List.append_assoc ((byteBits byte).take (8 - e)), List.take_append_drop,
          ← List.append_assoc, ← List.append_assoc,
          show a.len + k = (bytesToBits init ++ (byteBits last).take e).length + k by simp; omega,
          List.append_assoc (bytesToBits init ++ (byteBits last).take e),
          List.take_length_add_append,
          List.take_append_of_le_length (by simp; omega)]
        simp only [List.append_assoc]
      refine ⟨_, rfl, rfl, hT, by simp; omega, ?_⟩
      intro hc
      refine ⟨by simp; omega, ?_⟩
      rw [hT]
      simp only [bytesToBits_append, bytesToBits_cons, bytesToBits_nil, List.append_nil, hor,
        byteBits_shl8 byte (8 - e) (by omega), List.length_append, List.length_cons, List.length_nil]
      rw [hA]
      simp only [List.append_assoc]
      congr 2
      rw [← List.append_assoc ((byteBits byte).take (8 - e)), List.take_append_drop]
      conv => lhs; rw [← List.take_append_drop k (byteBits byte), hc]
      rw [List.append_assoc, List.replicate_append_replicate]
      congr 2; omega
    · rename_i hle
      have hT : toBits ⟨init ++ [last ||| shr8 byte e], a.len + k⟩ =
          toBits a ++ (byteBits byte).take k := by
        simp only [toBits_mk, bytesToBits_append, bytesToBits_cons, bytesToBits_nil, List.append_nil, hor]
        rw [hA, ← List.append_assoc,
          show a.len + k = (bytesToBits init ++ (byteBits last).take e).length + k by simp; omega,
          List.take_length_add_append, List.take_take, Nat.min_eq_left (by omega)]
      refine ⟨_, rfl, rfl, hT, by simp; omega, ?_⟩
      intro hc
      refine ⟨by simp; omega, ?_⟩
      rw [hT]
      simp only [bytesToBits_append, bytesToBits_cons, bytesToBits_nil, List.append_nil, hor,
        List.length_append, List.length_cons, List.length_nil]
      rw [hA]
      simp only [List.append_assoc]
      congr 2
      have : (byteBits byte).take (8 - e) =
          (byteBits byte).take k ++ List.replicate (8 - e - k) false := by
        conv => lhs; rw [← List.take_append_drop k (byteBits byte), hc]
        rw [List.take_append, List.take_of_length_le (by simp; omega)]
        simp only [List.length_take, hbb, List.take_replicate]
        congr 2; omega
      rw [this]; congr 2; omega


theorem appendFull_spec (other : Bits) (n i : Nat) (a : Bits) (ha : WF a)
    (hi : i + n ≤ other.data.length) :
    ∃ r, appendFull other n i a = .ok r ∧ WF r ∧ r.len = a.len + 8 * n ∧
      toBits r = toBits a ++ bytesToBits ((other.data.drop i).take n) := by
  induction n generalizing i a with
  | zero => exact ⟨a, rfl, ha, rfl, by simp⟩
  | succ n ih =>
    have hlt : i < other.data.length := by omega
    obtain ⟨r1, h1, hl1, ht1, _, hw1⟩ := appendByte_spec a other.data[i] 8 ha (by omega) (by omega)
    have hw1 := hw1 (cleanByte_eight _)
    obtain ⟨r, h2, hw2, hl2, ht2⟩ := ih (i + 1) r1 hw1 (by omega)
    refine ⟨r, ?_, hw2, by omega, ?_⟩
    · simp only [appendFull, List.getElem?_eq_getElem hlt, h1]; exact h2
    · rw [ht2, ht1, List.drop_eq_getElem_cons hlt, List.take_succ_cons, bytesToBits_cons,
        List.take_of_length_le (by simp), List.append_assoc]

theorem take_bits_split (d : Bytes) (q r : Nat) (b : UInt8) (hb : d[q]? = some b) (hr : r ≤ 8) :
    (bytesToBits d).take (8 * q + r) = bytesToBits (d.take q) ++ (byteBits b).take r := by
  obtain ⟨hlt, hbe⟩ := List.getElem?_eq_some_iff.mp hb
  have hd : d = d.take q ++ b :: d.drop (q + 1) := by
    rw [← hbe, ← List.drop_eq_getElem_cons hlt, List.take_append_drop]
  have hl : (bytesToBits (d.take q)).length = 8 * q := by simp; omega
  conv => lhs; rw [hd]
  rw [bytesToBits_append, bytesToBits_cons, ← hl, List.take_length_add_append,
    List.take_append_of_le_length (by simp; omega)]

/-- what `toBits` of a value is in terms of its full bytes and the partial byte -/
theorem toBits_split (o : Bits) (b : UInt8) (hb : o.data[o.len / 8]? = some b) :
    toBits o = bytesToBits (o.data.take (o.len / 8)) ++ (byteBits b).take (o.len % 8) := by
  have := take_bits_split o.data (o.len / 8) (o.len % 8) b hb (by omega)
  rw [show 8 * (o.len / 8) + o.len % 8 = o.len by omega] at this
  exact this

theorem toBits_split0 (o : Bits) (hr : o.len % 8 = 0) :
    toBits o = bytesToBits (o.data.take (o.len / 8)) := by
  have h8 : o.len = 8 * (o.len / 8) := by omega
  rw [bytesToBits_take, ← h8]; rfl

/-- the partial byte of a well-formed value is clean -/
theorem WF.clean_tail {o : Bits} (h : WF o) (b : UInt8) (hb : o.data[o.len / 8]? = some b)
    (_hr : o.len % 8 ≠ 0) : CleanByte b (o.len % 8) := by
  obtain ⟨hlen, hbits⟩ := h
  obtain ⟨hlt, hbe⟩ := List.getElem?_eq_some_iff.mp hb
  have hd : o.data = o.data.take (o.len / 8) ++ [b] := by
    conv => lhs; rw [← List.take_append_drop (o.len / 8) o.data, List.drop_eq_getElem_cons hlt]
    rw [List.drop_of_length_le (by omega), hbe]
  rw [toBits_split o b hb] at hbits
  conv at hbits => lhs; rw [hd]
  simp only [bytesToBits_append, bytesToBits_cons, bytesToBits_nil, List.append_nil,
    List.append_assoc] at hbits
  have h2 := List.append_cancel_left hbits
  unfold CleanByte
  rw [h2, List.drop_left' (by simp; omega)]
  congr 1; omega

/-- `append`: bit-string concatenation, provided `self` is well formed and `other` has the bytes its
    length promises -/
theorem append_spec (a o : Bits) (ha : WF a) (ho : o.len ≤ 8 * o.data.length) :
    ∃ r, append a o = .ok r ∧ r.len = a.len + o.len ∧ toBits r = toBits a ++ toBits o ∧
      r.data.length = (r.len + 7) / 8 ∧ (WF o → WF r) := by
  obtain ⟨s, hs, hws, hls, hts⟩ := appendFull_spec o (o.len / 8) 0 a ha (by omega)
  rw [List.drop_zero] at hts
  unfold append
  rw [hs]
  simp only
  split
  · rename_i hr
    have hlt : o.len / 8 < o.data.length := by omega
    have hb := List.getElem?_eq_getElem hlt
    obtain ⟨r, h1, hl1, ht1, hd1, hw1⟩ :=
      appendByte_spec s o.data[o.len / 8] (o.len % 8) hws (by omega) (by omega)
    refine ⟨r, ?_, by omega, ?_, hd1, ?_⟩
    · simp only [hb]; exact h1
    · rw [ht1, hts, toBits_split o _ hb, List.append_assoc]
    · intro hwo; exact hw1 (hwo.clean_tail _ hb hr)
  · rename_i hr
    refine ⟨s, rfl, by omega, ?_, hws.1, fun _ => hws⟩
    rw [hts, toBits_split0 o (by omega)]


/-! ## `extract_byte` and `extract` -/

theorem bits_within_byte' (d : Bytes) (q r l : Nat) (B : UInt8) (hB : d[q]? = some B)
    (hl : r + l ≤ 8) :
    ((bytesToBits d).drop (8 * q + r)).take l = ((byteBits B).drop r).take l := by
  obtain ⟨hlt, hbe⟩ := List.getElem?_eq_some_iff.mp hB
  have hd : d = d.take q ++ B :: d.drop (q + 1) := by
    rw [← hbe, ← List.drop_eq_getElem_cons hlt, List.take_append_drop]
  have hlen : (bytesToBits (d.take q)).length = 8 * q := by simp; omega
  conv => lhs; rw [hd]
  rw [bytesToBits_append, bytesToBits_cons, ← hlen, List.drop_length_add_append,
    List.drop_append_of_le_length (by simp; omega), List.take_append_of_le_length (by simp; omega)]

theorem bits_within_byte (d : Bytes) (i l : Nat) (B : UInt8) (hB : d[i / 8]? = some B)
    (hl : i % 8 + l ≤ 8) :
    ((bytesToBits d).drop i).take l = ((byteBits B).drop (i % 8)).take l := by
  have := bits_within_byte' d (i / 8) (i % 8) l B hB hl
  rwa [show 8 * (i / 8) + i % 8 = i by omega] at this

theorem extractByte_spec (b : Bits) (i l : Nat) (hl : i % 8 + l ≤ 8) (hnz : 1 ≤ l ∨ i % 8 ≠ 0)
    (hi : i / 8 < b.data.length) :
    ∃ v : UInt8, extractByte b i l = .ok v ∧
      v.toNat = bitsToNat (((bytesToBits b.data).drop i).take l) := by
  have hB := List.getElem?_eq_getElem hi
  refine ⟨UInt8.ofNat ((b.data[i / 8].toNat >>> (8 - i % 8 - l)) &&& (2 ^ l - 1)), ?_, ?_⟩
  · unfold extractByte
    rw [hB]
    simp only
    rw [if_neg (by omega), if_neg (by omega)]
  · rw [bits_within_byte b.data i l _ hB hl, ← sub_bits _ _ _ hl, UInt8.toNat_ofNat']
    apply Nat.mod_eq_of_lt
    rw [Nat.and_two_pow_sub_one_eq_mod]
    calc _ < 2 ^ l := Nat.mod_lt _ (Nat.two_pow_pos _)
      _ ≤ 2 ^ 8 := Nat.pow_le_pow_right (by omega) (by omega)

theorem or_shift_eq (curr bLen v : Nat) (hb : bLen ≤ 64) (hv : v < 2 ^ bLen) :
    ((curr <<< bLen) % 2 ^ 64 ||| v) % 2 ^ 64 = (curr * 2 ^ bLen + v) % 2 ^ 64 ∧
      ((curr <<< bLen) % 2 ^ 64 ||| v) < 2 ^ 64 := by
  have h64 : (2 : Nat) ^ 64 = 2 ^ (64 - bLen) * 2 ^ bLen := by
    rw [← Nat.pow_add]; congr 1; omega
  have hm : (curr <<< bLen) % 2 ^ 64 = (curr % 2 ^ (64 - bLen)) <<< bLen := by
    rw [Nat.shiftLeft_eq, Nat.shiftLeft_eq, h64, Nat.mul_mod_mul_right]
  have hor := Nat.shiftLeft_add_eq_or_of_lt hv (curr % 2 ^ (64 - bLen))
  constructor
  · rw [hm, ← hor, ← hm, Nat.shiftLeft_eq, Nat.mod_add_mod]
  · apply Nat.or_lt_two_pow (Nat.mod_lt _ (Nat.two_pow_pos _))
    calc v < 2 ^ bLen := hv
      _ ≤ 2 ^ 64 := Nat.pow_le_pow_right (by omega) hb

theorem mod_congr_mul_add {a a' P W M : Nat} (h : a % M = a' % M) :
    (a * P + W) % M = (a' * P + W) % M := by
  rw [Nat.add_mod, Nat.mul_mod, h, ← Nat.mul_mod, ← Nat.add_mod]

theorem extractLoop_spec (b : Bits) (end_ : Nat) (hend : end_ ≤ 8 * b.data.length) :
    ∀ n j i curr, j = i / 8 → i ≤ end_ → n = (end_ + 7) / 8 - j → curr < 2 ^ 64 →
      extractLoop b end_ n j i curr =
        .ok ((curr * 2 ^ (end_ - i) +
          bitsToNat (((bytesToBits b.data).drop i).take (end_ - i))) % 2 ^ 64) := by
  intro n
  induction n with
  | zero =>
    intro j i curr hj hi hn hc
    have : i = end_ := by omega
    subst this
    simp [extractLoop, bitsToNat, Nat.mod_eq_of_lt hc]
  | succ n ih =>
    intro j i curr hj hi hn hc
    unfold extractLoop
    rw [if_neg (by omega), if_neg (by omega), if_neg (by omega)]
    simp only
    have hij : i - j * 8 = i % 8 := by omega
    rw [hij]
    generalize hbl : min (end_ - i) (8 - i % 8) = bLen
    obtain ⟨v, hv, hvv⟩ := extractByte_spec b i bLen (by omega) (by omega) (by omega)
    rw [hv]
    simp only
    have hvlt : v.toNat < 2 ^ bLen := by
      rw [hvv]
      refine Nat.lt_of_lt_of_le (bitsToNat_lt _) (Nat.pow_le_pow_right (by omega) ?_)
      simp; omega
    obtain ⟨hcm, hclt⟩ := or_shift_eq curr bLen v.toNat (by omega) hvlt
    -- the bits [i, end) are the bits [i, i+bLen) followed by the bits [i+bLen, end)
    have hlen2 : (((bytesToBits b.data).drop (i + bLen)).take (end_ - (i + bLen))).length =
        end_ - (i + bLen) := by simp; omega
    have hsplit : bitsToNat (((bytesToBits b.data).drop i).take (end_ - i)) =
        v.toNat * 2 ^ (end_ - (i + bLen)) +
          bitsToNat (((bytesToBits b.data).drop (i + bLen)).take (end_ - (i + bLen))) := by
      rw [show end_ - i = bLen + (end_ - (i + bLen)) by omega, List.take_add, bitsToNat_append,
        List.drop_drop, hlen2, hvv]
    have hgoal : (curr * 2 ^ (end_ - i) +
          bitsToNat (((bytesToBits b.data).drop i).take (end_ - i))) % 2 ^ 64 =
        (((curr <<< bLen) % 2 ^ 64 ||| v.toNat) * 2 ^ (end_ - (i + bLen)) +
          bitsToNat (((bytesToBits b.data).drop (i + bLen)).take (end_ - (i + bLen)))) % 2 ^ 64 := by
      have e1 : ∀ V', curr * 2 ^ (end_ - i) + (v.toNat * 2 ^ (end_ - (i + bLen)) + V') =
          (curr * 2 ^ bLen + v.toNat) * 2 ^ (end_ - (i + bLen)) + V' := by
        intro V'
        rw [show end_ - i = bLen + (end_ - (i + bLen)) by omega, Nat.pow_add, Nat.add_mul,
          Nat.mul_assoc, Nat.add_assoc]
      rw [hsplit, e1]
      exact mod_congr_mul_add hcm.symm
    cases n with
    | zero =>
      have hie : i + bLen = end_ := by omega
      simp only [extractLoop]
      rw [hgoal, hie]
      simp [bitsToNat, Nat.mod_eq_of_lt hclt]
    | succ m =>
      rw [ih (j + 1) (i + bLen) _ (by omega) (by omega) (by omega) hclt, hgoal]

theorem extract_spec (b : Bits) (i len : Nat) (h : i + len ≤ 8 * b.data.length) :
    extract b i len = .ok (bitsToNat (((bytesToBits b.data).drop i).take len) % 2 ^ 64) := by
  unfold extract
  rw [extractLoop_spec b (i + len) h _ (i / 8) i 0 rfl (by omega) rfl (Nat.two_pow_pos _)]
  simp


theorem extract_toBits (b : Bits) (i len : Nat) (h : i + len ≤ b.len) (hb : b.len ≤ 8 * b.data.length) :
    extract b i len = .ok (bitsToNat (((toBits b).drop i).take len) % 2 ^ 64) := by
  rw [extract_spec b i len (by omega), toBits, List.drop_take, List.take_take,
    Nat.min_eq_left (by omega)]

/-! ## groups -/

theorem groups_nil (k f : Nat) : groups k f [] = [] := by
  cases f <;> simp [groups]

theorem groups_cons (k f : Nat) (L : List Bool) (h : L ≠ []) :
    groups k (f + 1) L = L.take k :: groups k f (L.drop k) := by
  simp [groups, h]

/-- a bit string of `k*n` bits is cut into exactly `n` groups of `k` bits that concatenate back -/
theorem groups_spec (k : Nat) (hk : 1 ≤ k) (n : Nat) : ∀ (f : Nat) (L : List Bool), L.length = k * n → n ≤ f →
    (groups k f L).length = n ∧ (∀ g ∈ groups k f L, g.length = k) ∧ (groups k f L).flatten = L := by
  induction n with
  | zero =>
    intro f L hL _
    have : L = [] := List.eq_nil_of_length_eq_zero (by simpa using hL)
    subst this
    simp [groups_nil]
  | succ n ih =>
    intro f L hL hf
    obtain ⟨f', rfl⟩ : ∃ f', f = f' + 1 := ⟨f - 1, by omega⟩
    have hne : L ≠ [] := by
      intro h; subst h; simp [Nat.mul_add] at hL; omega
    have hkn : k * (n + 1) = k + k * n := by rw [Nat.mul_add]; omega
    obtain ⟨h1, h2, h3⟩ := ih f' (L.drop k) (by simp [hL, hkn]) (by omega)
    rw [groups_cons k f' L hne]
    refine ⟨by simp [h1], ?_, ?_⟩
    · intro g hg
      rcases List.mem_cons.mp hg with rfl | hg
      · simp [hL, hkn]
      · exact h2 g hg
    · simp [h3]

/-! ## `mnemonic_encode` -/

theorem encLoop_spec (bits : Bits) (wl : List Bytes) (hwl : wl.length = 2048) :
    ∀ n i acc f, n ≤ f → 11 * (i + n) ≤ 8 * bits.data.length →
      encLoop bits wl n i acc = .ok (acc ++
        (groups 11 f (((bytesToBits bits.data).drop (11 * i)).take (11 * n))).map
          (fun g => wl.getD (bitsToNat g) [])) := by
  intro n
  induction n with
  | zero => intro i acc f _ _; simp [encLoop, groups_nil]
  | succ n ih =>
    intro i acc f hf hlen
    obtain ⟨f', rfl⟩ : ∃ f', f = f' + 1 := ⟨f - 1, by omega⟩
    have hD : (bytesToBits bits.data).length = 8 * bits.data.length := bytesToBits_length _
    have hne : ((bytesToBits bits.data).drop (11 * i)).take (11 * (n + 1)) ≠ [] := by
      intro h
      have := congrArg List.length h
      simp at this; omega
    have h11 : (((bytesToBits bits.data).drop (11 * i)).take 11).length = 11 := by simp; omega
    have hv : bitsToNat (((bytesToBits bits.data).drop (11 * i)).take 11) < 2048 := by
      have := bitsToNat_lt (((bytesToBits bits.data).drop (11 * i)).take 11)
      rw [h11] at this; exact this
    unfold encLoop
    rw [Nat.mul_comm i 11, extract_spec bits (11 * i) 11 (by omega), Nat.mod_eq_of_lt (by omega)]
    simp only
    rw [List.getElem?_eq_getElem (by omega)]
    simp only
    rw [ih (i + 1) _ f' (by omega) (by omega), groups_cons 11 f' _ hne]
    simp only [List.map_cons, List.take_take, List.drop_take, List.drop_drop]
    rw [Nat.min_eq_left (by omega), show 11 * (n + 1) - 11 = 11 * n by omega,
      show 11 * i + 11 = 11 * (i + 1) by omega, List.getD_eq_getElem?_getD,
      List.getElem?_eq_getElem (by omega)]
    simp


theorem wf_fromSlice_full (e : Bytes) : WF (fromSlice e (e.length * 8)) ∧
    toBits (fromSlice e (e.length * 8)) = bytesToBits e ∧ (fromSlice e (e.length * 8)).len = 8 * e.length := by
  have hlen := fromSlice_len e (e.length * 8)
  rw [Nat.min_self] at hlen
  have hT := toBits_fromSlice e (e.length * 8)
  rw [List.take_of_length_le (by simp; omega)] at hT
  have hd : (fromSlice e (e.length * 8)).data = e := by
    unfold fromSlice; simp
  refine ⟨⟨by rw [hd, hlen]; omega, ?_⟩, hT, by omega⟩
  rw [hT, hd, hlen, show 8 * e.length - e.length * 8 = 0 by omega]; simp

/-- the bit string `mnemonic_encode` builds, and its shape, for entropies of `4k` bytes -/
theorem encode_bits (H : Bytes → Bytes) (e : Bytes) (h4 : e.length % 4 = 0)
    (hH : e.length / 4 ≤ 8 * (H e).length) :
    ∃ bits, append (fromSlice e (e.length * 8)) (fromSlice (H e) (e.length / 4)) = .ok bits ∧
      toBits bits = sentenceBits H e ∧ bits.len = 33 * (e.length / 4) ∧
      bits.data.length = (bits.len + 7) / 8 := by
  obtain ⟨hw, hT, hl⟩ := wf_fromSlice_full e
  have hol : (fromSlice (H e) (e.length / 4)).len = e.length / 4 := by
    rw [fromSlice_len]; omega
  obtain ⟨bits, hb, hbl, hbt, hbd, _⟩ := append_spec _ (fromSlice (H e) (e.length / 4)) hw
    (by rw [hol, fromSlice_data_length]; exact hH)
  refine ⟨bits, hb, ?_, by omega, hbd⟩
  rw [hbt, hT, toBits_fromSlice, sentenceBits, checksumBits]
  congr 2; omega

theorem sentenceBits_length (H : Bytes → Bytes) (e : Bytes) (h4 : e.length % 4 = 0)
    (hH : e.length / 4 ≤ 8 * (H e).length) : (sentenceBits H e).length = 11 * (3 * (e.length / 4)) := by
  simp [sentenceBits, checksumBits]; omega

theorem mnemonicEncode_spec (H : Bytes → Bytes) (e : Bytes) (wl : List Bytes) (hwl : wl.length = 2048)
    (h4 : e.length % 4 = 0) (hH : e.length / 4 ≤ 8 * (H e).length) :
    mnemonicEncode H e wl = .ok (((groups 11 (sentenceBits H e).length (sentenceBits H e)).map
      bitsToNat).map (fun i => wl.getD i [])) := by
  obtain ⟨bits, hb, hbt, hbl, hbd⟩ := encode_bits H e h4 hH
  have hS := sentenceBits_length H e h4 hH
  unfold mnemonicEncode
  simp only [hb]
  rw [encLoop_spec bits wl hwl (bits.len / 11) 0 [] (sentenceBits H e).length (by omega) (by omega)]
  simp only
  rw [if_neg (by omega), List.drop_zero, show 11 * (bits.len / 11) = bits.len by omega, ← toBits, hbt]
  simp [List.map_map, Function.comp_def]


/-! ## word lookup -/

theorem position_eq_indexOf (w : Bytes) (l : List Bytes) : position w l = indexOf w l := by
  induction l with
  | nil => rfl
  | cons x xs ih =>
    simp only [position, indexOf, ih]
    by_cases h : x = w
    · simp [h]
    · have h' : ¬ w = x := fun e => h e.symm
      simp [h, h']

theorem indexOf_some {w : Bytes} {l : List Bytes} {v : Nat} (h : indexOf w l = some v) :
    v < l.length ∧ l[v]? = some w := by
  induction l generalizing v with
  | nil => simp [indexOf] at h
  | cons x xs ih =>
    simp only [indexOf] at h
    split at h
    · rename_i hx
      simp at h; subst h
      simp [eq_of_beq hx]
    · cases hr : indexOf w xs with
      | none => simp [hr] at h
      | some u =>
        simp [hr] at h; subst h
        obtain ⟨h1, h2⟩ := ih hr
        exact ⟨by simp; omega, by simpa using h2⟩

theorem indexOf_none {w : Bytes} {l : List Bytes} : indexOf w l = none ↔ w ∉ l := by
  induction l with
  | nil => simp [indexOf]
  | cons x xs ih =>
    simp only [indexOf, List.mem_cons, not_or]
    by_cases hx : w = x
    · simp [hx]
    · simp [hx, ih]

theorem indexOf_getElem (l : List Bytes) (hn : l.Nodup) (i : Nat) (hi : i < l.length) :
    indexOf l[i] l = some i := by
  induction l generalizing i with
  | nil => simp at hi
  | cons x xs ih =>
    rw [List.nodup_cons] at hn
    cases i with
    | zero => simp [indexOf]
    | succ i =>
      simp only [List.getElem_cons_succ, indexOf]
      have hi' : i < xs.length := by simpa using hi
      have hne : ¬ xs[i] = x := fun e => hn.1 (e ▸ List.getElem_mem hi')
      simp [hne, ih hn.2 i hi']

/-! ## `mnemonic_decode` -/

theorem wordBits_eq (v : Nat) : wordBits v =
    ⟨[UInt8.ofNat (v / 8 % 256), keepTop (UInt8.ofNat (v % 8 * 32 % 256)) 3], 11⟩ := by
  simp [wordBits, fromSlice, modifyLast]

theorem toBits_wordBits (v : Nat) : toBits (wordBits v) = natToBits 11 v := by
  rw [wordBits, toBits_fromSlice]
  simp only [bytesToBits_cons, bytesToBits_nil, List.append_nil, byteBits_ofNat]
  rw [show (11 : Nat) = (natToBits 8 (v / 8 % 256)).length + 3 by simp, List.take_length_add_append,
    natToBits_take 8 3 _ (by omega), show (256 : Nat) = 2 ^ 8 by rfl,
    natToBits_mod 8 8 _ (Nat.le_refl _), natToBits_length,
    show 8 + 3 = 11 by rfl, show (11 : Nat) = 8 + 3 by rfl, natToBits_add]
  congr 1
  rw [show v % 8 * 32 % 2 ^ 8 / 2 ^ (8 - 3) = v % 2 ^ 3 by omega, natToBits_mod 3 3 _ (Nat.le_refl _)]

theorem wf_wordBits (v : Nat) : WF (wordBits v) := by
  have hT := toBits_wordBits v
  rw [wordBits_eq] at hT ⊢
  refine ⟨by simp, ?_⟩
  rw [hT]
  simp only [bytesToBits_cons, bytesToBits_nil, List.append_nil, byteBits_keepTop _ 3 (by omega),
    byteBits_ofNat, List.length_cons, List.length_nil]
  rw [show (11 : Nat) = 8 + 3 by rfl, natToBits_add, natToBits_take 8 3 _ (by omega),
    show (256 : Nat) = 2 ^ 8 by rfl, natToBits_mod 8 8 _ (Nat.le_refl _)]
  rw [show v % 8 * 32 % 2 ^ 8 / 2 ^ (8 - 3) = v % 2 ^ 3 by omega, natToBits_mod 3 3 _ (Nat.le_refl _)]
  simp

theorem wordBits_len (v : Nat) : (wordBits v).len = 11 := by rw [wordBits_eq]

theorem decLoop_ok (wl : List Bytes) : ∀ (mn : List Bytes) (idx : List Nat) (bits : Bits),
    allSome (mn.map (indexOf · wl)) = some idx → WF bits →
    ∃ r, decLoop wl mn bits = .ok r ∧ WF r ∧ r.len = bits.len + 11 * mn.length ∧
      toBits r = toBits bits ++ idx.flatMap (natToBits 11) := by
  intro mn
  induction mn with
  | nil =>
    intro idx bits h hw
    simp [allSome] at h; subst h
    exact ⟨bits, rfl, hw, by simp, by simp⟩
  | cons w ws ih =>
    intro idx bits h hw
    simp only [List.map_cons] at h
    cases hv : indexOf w wl with
    | none => simp [hv, allSome] at h
    | some v =>
      rw [hv] at h
      simp only [allSome] at h
      cases hr : allSome (ws.map (indexOf · wl)) with
      | none => simp [hr] at h
      | some rest =>
        simp [hr] at h; subst h
        obtain ⟨b1, hb1, hl1, ht1, _, hw1⟩ := append_spec bits (wordBits v) hw
          (by rw [wordBits_len, wordBits_eq]; simp)
        obtain ⟨r, hr1, hr2, hr3, hr4⟩ := ih rest b1 hr (hw1 (wf_wordBits v))
        refine ⟨r, ?_, hr2, ?_, ?_⟩
        · simp only [decLoop, position_eq_indexOf, hv, hb1]; exact hr1
        · rw [hr3, hl1, wordBits_len]; simp; omega
        · rw [hr4, ht1, toBits_wordBits]; simp

theorem decLoop_err (wl : List Bytes) : ∀ (mn : List Bytes) (bits : Bits),
    allSome (mn.map (indexOf · wl)) = none → WF bits → decLoop wl mn bits = .err "BadArgument" := by
  intro mn
  induction mn with
  | nil => intro bits h; simp [allSome] at h
  | cons w ws ih =>
    intro bits h hw
    simp only [List.map_cons] at h
    cases hv : indexOf w wl with
    | none => simp [decLoop, position_eq_indexOf, hv]
    | some v =>
      rw [hv] at h
      simp only [allSome] at h
      cases hr : allSome (ws.map (indexOf · wl)) with
      | some rest => simp [hr] at h
      | none =>
        obtain ⟨b1, hb1, _, _, _, hw1⟩ := append_spec bits (wordBits v) hw
          (by rw [wordBits_len, wordBits_eq]; simp)
        simp only [decLoop, position_eq_indexOf, hv, hb1]
        exact ih b1 hr (hw1 (wf_wordBits v))

theorem allSome_none_iff {α} (l : List (Option α)) : allSome l = none ↔ none ∈ l := by
  induction l with
  | nil => simp [allSome]
  | cons a r ih =>
    cases a with
    | none => simp [allSome]
    | some a =>
      simp only [allSome, Option.map_eq_none_iff, ih]
      simp

theorem allSome_length {α} {l : List (Option α)} {r : List α} (h : allSome l = some r) :
    r.length = l.length := by
  induction l generalizing r with
  | nil => simp [allSome] at h; subst h; rfl
  | cons a t ih =>
    cases a with
    | none => simp [allSome] at h
    | some a =>
      simp only [allSome] at h
      cases ht : allSome t with
      | none => simp [ht] at h
      | some u => simp [ht] at h; subst h; simp [ih ht]


theorem groups8_bytes (d : Bytes) : ∀ f, d.length ≤ f →
    (groups 8 f (bytesToBits d)).map (fun g => UInt8.ofNat (bitsToNat g)) = d := by
  induction d with
  | nil => intro f _; simp [groups_nil]
  | cons x r ih =>
    intro f hf
    obtain ⟨f', rfl⟩ : ∃ f', f = f' + 1 := ⟨f - 1, by simp at hf; omega⟩
    have hne : bytesToBits (x :: r) ≠ [] := by
      intro h; have := congrArg List.length h; simp at this
    rw [groups_cons 8 f' _ hne, bytesToBits_cons, List.take_left' (by simp), List.drop_left' (by simp),
      List.map_cons, ih f' (by simp at hf; omega), byteBits, bitsToNat_natToBits]
    congr 1
    rw [Nat.mod_eq_of_lt x.toNat_lt, UInt8.ofNat_toNat]

theorem bitsToBytes_bytesToBits (d : Bytes) : bitsToBytes (bytesToBits d) = d := by
  unfold bitsToBytes
  exact groups8_bytes d _ (by simp; omega)

/-- `mnemonic_decode` on a sentence of `3k` listed words: the data bytes are the first `32k` bits of
    the concatenated 11-bit indexes; accepted iff the `u64` values of the two `k`-bit checksums agree -/
theorem decode_core (H : Bytes → Bytes) (wl mn : List Bytes) (idx : List Nat) (k : Nat)
    (hidx : allSome (mn.map (indexOf · wl)) = some idx) (hk : mn.length = 3 * k)
    (hH : ∀ x, k ≤ 8 * (H x).length) :
    mnemonicDecode H mn wl =
      if bitsToNat ((bytesToBits (H (bitsToBytes ((idx.flatMap (natToBits 11)).take (32 * k))))).take k)
            % 2 ^ 64 ≠ bitsToNat ((idx.flatMap (natToBits 11)).drop (32 * k)) % 2 ^ 64
      then .err "BadArgument"
      else .ok (bitsToBytes ((idx.flatMap (natToBits 11)).take (32 * k))) := by
  obtain ⟨r, hr, hw, hl, hT⟩ := decLoop_ok wl mn idx Bits.new hidx wf_new
  simp only [toBits_new, List.nil_append] at hT
  have hlen : r.len = 33 * k := by rw [hl, hk]; simp [Bits.new]; omega
  generalize hF : idx.flatMap (natToBits 11) = F at hT ⊢
  have hFl : F.length = 33 * k := by rw [← hT, toBits_length r hw.len_le, hlen]
  have hD := hw.2
  rw [hT] at hD
  have hdl := hw.1
  -- the data bytes
  have hd : bitsToBytes (F.take (32 * k)) = r.data.take (4 * k) := by
    rw [← bitsToBytes_bytesToBits (r.data.take (4 * k)), bytesToBits_take, hD,
      List.take_append_of_le_length (by omega)]
    congr 2; omega
  rw [hd]
  unfold mnemonicDecode
  simp only [hr]
  rw [hlen, show 33 * k * 32 / 33 = 32 * k by omega, show 33 * k / 33 = k by omega,
    show 32 * k / 8 = 4 * k by omega, if_neg (by omega)]
  have hcl : (fromSlice (H (r.data.take (4 * k))) k).len = k := by
    rw [fromSlice_len]; have := hH (r.data.take (4 * k)); omega
  rw [extract_toBits _ 0 k (by omega) (by rw [hcl, fromSlice_data_length]; exact hH _),
    extract_toBits r (32 * k) k (by omega) hw.len_le]
  simp only [toBits_fromSlice, List.drop_zero, List.take_take, Nat.min_self, hT]
  rw [List.take_of_length_le (l := F.drop (32 * k)) (by simp; omega)]


theorem flatMap_natToBits_length (idx : List Nat) : (idx.flatMap (natToBits 11)).length = 11 * idx.length := by
  induction idx with
  | nil => rfl
  | cons a r ih => simp [ih]; omega

/-- model = BIP-39 on sentences of `3k` words, `k ≤ 64` (the `u64` comparison is then exact) -/
theorem decode_eq_spec (H : Bytes → Bytes) (wl mn : List Bytes) (k : Nat)
    (hk : mn.length = 3 * k) (hk64 : k ≤ 64) (hH : ∀ x, k ≤ 8 * (H x).length) :
    mnemonicDecode H mn wl =
      match Spec.Bip39.decode H wl mn with
      | .entropy e => .ok e
      | _ => .err "BadArgument" := by
  unfold Spec.Bip39.decode
  cases hidx : allSome (mn.map (indexOf · wl)) with
  | none =>
    simp only [mnemonicDecode, decLoop_err wl mn Bits.new hidx wf_new]
  | some idx =>
    rw [decode_core H wl mn idx k hidx hk hH]
    have h3 : mn.length % 3 = 0 := by omega
    have hk' : mn.length / 3 = k := by omega
    simp only [h3, hk', ne_eq, not_true_eq_false, if_false]
    have hil : idx.length = 3 * k := by rw [allSome_length hidx]; simpa using hk
    generalize hF : idx.flatMap (natToBits 11) = F
    have hFl : F.length = 33 * k := by rw [← hF, flatMap_natToBits_length, hil]; omega
    generalize bitsToBytes (F.take (32 * k)) = e
    have hl1 : ((bytesToBits (H e)).take k).length = k := by have := hH e; simp; omega
    have hl2 : (F.drop (32 * k)).length = k := by simp; omega
    have hb1 := bitsToNat_lt ((bytesToBits (H e)).take k)
    have hb2 := bitsToNat_lt (F.drop (32 * k))
    rw [hl1] at hb1; rw [hl2] at hb2
    have hp : (2 : Nat) ^ k ≤ 2 ^ 64 := Nat.pow_le_pow_right (by omega) hk64
    rw [Nat.mod_eq_of_lt (by omega), Nat.mod_eq_of_lt (by omega)]
    by_cases heq : (bytesToBits (H e)).take k = F.drop (32 * k)
    · simp [heq]
    · have : bitsToNat ((bytesToBits (H e)).take k) ≠ bitsToNat (F.drop (32 * k)) :=
        fun h => heq (bitsToNat_injective (by rw [hl1, hl2]) h)
      simp [heq, this]

theorem allSome_indexOf_getD (wl : List Bytes) (hn : wl.Nodup) (idx : List Nat)
    (h : ∀ i ∈ idx, i < wl.length) :
    allSome ((idx.map (fun i => wl.getD i [])).map (indexOf · wl)) = some idx := by
  induction idx with
  | nil => rfl
  | cons a r ih =>
    have ha : a < wl.length := h a (by simp)
    simp only [List.map_cons, List.getD_eq_getElem?_getD, List.getElem?_eq_getElem ha, Option.getD_some,
      indexOf_getElem wl hn a ha, allSome]
    have := ih (fun i hi => h i (by simp [hi]))
    simp only [List.getD_eq_getElem?_getD] at this
    rw [this]; rfl

/-- decode ∘ encode on the bit-string level: the sentence of `e` decodes to `e`, for every length -/
theorem decode_encode (H : Bytes → Bytes) (e : Bytes) (wl : List Bytes) (hwl : wl.length = 2048)
    (hn : wl.Nodup) (h4 : e.length % 4 = 0) (hH : ∀ x, e.length / 4 ≤ 8 * (H x).length) :
    mnemonicDecode H (((groups 11 (sentenceBits H e).length (sentenceBits H e)).map bitsToNat).map
      (fun i => wl.getD i [])) wl = .ok e := by
  have hS := sentenceBits_length H e h4 (hH e)
  obtain ⟨g1, g2, g3⟩ := groups_spec 11 (by omega) (3 * (e.length / 4)) (sentenceBits H e).length
    (sentenceBits H e) hS (by omega)
  generalize hG : groups 11 (sentenceBits H e).length (sentenceBits H e) = G at g1 g2 g3 ⊢
  have hidx : ∀ i ∈ G.map bitsToNat, i < wl.length := by
    intro i hi
    obtain ⟨g, hg, rfl⟩ := List.mem_map.mp hi
    have := bitsToNat_lt g
    rw [g2 g hg] at this; omega
  have hF : (G.map bitsToNat).flatMap (natToBits 11) = sentenceBits H e := by
    rw [← g3, List.flatMap_def, List.map_map]
    congr 1
    conv => rhs; rw [← List.map_id G]
    apply List.map_congr_left
    intro g hg
    simp only [Function.comp]
    have := natToBits_bitsToNat g
    rw [g2 g hg] at this; exact this
  rw [decode_core H wl _ (G.map bitsToNat) (e.length / 4)
    (allSome_indexOf_getD wl hn _ hidx) (by simp [g1]) hH, hF]
  have h1 : (sentenceBits H e).take (32 * (e.length / 4)) = bytesToBits e := by
    rw [sentenceBits, List.take_left' (by simp; omega)]
  have h2 : (sentenceBits H e).drop (32 * (e.length / 4)) = (bytesToBits (H e)).take (e.length / 4) := by
    rw [sentenceBits, List.drop_left' (by simp; omega), checksumBits]
    congr 1; omega
  rw [h1, h2, bitsToBytes_bytesToBits]
  simp

end CG.Proofs.Mnemonic

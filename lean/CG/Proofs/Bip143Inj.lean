import CG.Spec.Bip143
/-! Unique decodability of the BIP-143 preimage layout (used by `C02_preimage_injective`). -/
namespace CG.Proofs.Bip143Inj
open CG CG.Model.TxSer CG.Spec.Bip143

theorem natToLEn_inj (n x y : Nat) (hx : x < 256 ^ n) (hy : y < 256 ^ n)
    (h : natToLEn n x = natToLEn n y) : x = y := by
  have := congrArg leToNat h
  rw [leToNat_natToLEn, leToNat_natToLEn, Nat.mod_eq_of_lt hx, Nat.mod_eq_of_lt hy] at this
  exact this

theorem le32_inj (x y : Nat) (hx : x < 2 ^ 32) (hy : y < 2 ^ 32) (h : le32 x = le32 y) : x = y :=
  natToLEn_inj 4 x y (by omega) (by omega) h

def InI64 (x : Int) : Prop := -(2 ^ 63) ≤ x ∧ x < 2 ^ 63

theorem le64s_inj (x y : Int) (hx : InI64 x) (hy : InI64 y) (h : le64s x = le64s y) : x = y := by
  unfold le64s at h
  obtain ⟨hx1, hx2⟩ := hx
  obtain ⟨hy1, hy2⟩ := hy
  have key := natToLEn_inj 8 _ _ (by split <;> omega) (by split <;> omega) h
  split at key <;> split at key <;> omega

/-- value of the first byte of a CompactSize -/
def csTag (n : Nat) : Nat :=
  if n < 0xfd then n else if n < 0x10000 then 0xfd else if n < 0x100000000 then 0xfe else 0xff

theorem cs_head (n : Nat) : ∃ t, compactSize n = UInt8.ofNat (csTag n) :: t := by
  unfold compactSize csTag
  split
  · exact ⟨[], rfl⟩
  split
  · exact ⟨_, rfl⟩
  split
  · exact ⟨_, rfl⟩
  · exact ⟨_, rfl⟩

theorem csTag_lt (n : Nat) : csTag n < 256 := by
  unfold csTag; split <;> (try split) <;> (try split) <;> omega

theorem compactSize_inj (a b : Nat) (ha : a < 2 ^ 64) (hb : b < 2 ^ 64) (x y : Bytes)
    (h : compactSize a ++ x = compactSize b ++ y) : a = b := by
  have htag : csTag a = csTag b := by
    obtain ⟨ta, ea⟩ := cs_head a
    obtain ⟨tb, eb⟩ := cs_head b
    rw [ea, eb] at h
    simp only [List.cons_append, List.cons.injEq] at h
    have := congrArg UInt8.toNat h.1
    simp only [UInt8.toNat_ofNat'] at this
    have h1 := csTag_lt a
    have h2 := csTag_lt b
    omega
  unfold csTag at htag
  unfold compactSize at h
  by_cases a1 : a < 0xfd
  · by_cases b1 : b < 0xfd
    · simp only [a1, b1, if_true] at htag; exact htag
    · simp only [a1, b1, if_true, if_false] at htag
      split at htag <;> (try split at htag) <;> omega
  · by_cases b1 : b < 0xfd
    · simp only [a1, b1, if_true, if_false] at htag
      split at htag <;> (try split at htag) <;> omega
    · simp only [a1, b1, if_false] at htag h
      by_cases a2 : a < 0x10000
      · by_cases b2 : b < 0x10000
        · simp only [a2, b2, if_true, List.cons_append, List.cons.injEq, true_and] at h
          have := (List.append_inj h (by simp)).1
          exact natToLEn_inj 2 a b (by omega) (by omega) this
        · simp only [a2, b2, if_true, if_false] at htag
          split at htag <;> omega
      · by_cases b2 : b < 0x10000
        · simp only [a2, b2, if_true, if_false] at htag
          split at htag <;> omega
        · simp only [a2, b2, if_false] at htag h
          by_cases a3 : a < 0x100000000
          · by_cases b3 : b < 0x100000000
            · simp only [a3, b3, if_true, List.cons_append, List.cons.injEq, true_and] at h
              have := (List.append_inj h (by simp)).1
              exact natToLEn_inj 4 a b (by omega) (by omega) this
            · simp only [a3, b3, if_true, if_false] at htag
              omega
          · by_cases b3 : b < 0x100000000
            · simp only [a3, b3, if_true, if_false] at htag
              omega
            · simp only [a3, b3, if_false, List.cons_append, List.cons.injEq, true_and] at h
              have := (List.append_inj h (by simp)).1
              exact natToLEn_inj 8 a b (by omega) (by omega) this

theorem hashPrevouts_len (dsha : Bytes → Bytes) (hl : ∀ b, (dsha b).length = 32) (tx : Tx) (ty : UInt8) :
    (hashPrevouts dsha tx ty).length = 32 := by
  unfold hashPrevouts; split <;> simp [hl, zeros32]
theorem hashSequence_len (dsha : Bytes → Bytes) (hl : ∀ b, (dsha b).length = 32) (tx : Tx) (ty : UInt8) :
    (hashSequence dsha tx ty).length = 32 := by
  unfold hashSequence; split <;> simp [hl, zeros32]
theorem hashOutputs_len (dsha : Bytes → Bytes) (hl : ∀ b, (dsha b).length = 32) (tx : Tx) (n : Nat) (ty : UInt8) :
    (hashOutputs dsha tx n ty).length = 32 := by
  unfold hashOutputs
  split
  · simp [hl]
  · split
    · split <;> simp [hl, zeros32]
    · simp [zeros32]

/-- the fields of a BIP-143 preimage -/
structure Fields where
  version : Nat
  hashPrevouts : Bytes
  hashSequence : Bytes
  outpoint : OutPoint
  scriptCode : Bytes
  amount : Int
  sequence : Nat
  hashOutputs : Bytes
  lockTime : Nat
  ty : UInt8

def Fields.Ok (f : Fields) : Prop :=
  f.version < 2 ^ 32 ∧ f.hashPrevouts.length = 32 ∧ f.hashSequence.length = 32 ∧
  f.outpoint.hash.length = 32 ∧ f.outpoint.index < 2 ^ 32 ∧ f.scriptCode.length < 2 ^ 64 ∧
  InI64 f.amount ∧ f.sequence < 2 ^ 32 ∧ f.hashOutputs.length = 32 ∧ f.lockTime < 2 ^ 32

/-- the ten-field layout -/
def Fields.ser (f : Fields) : Bytes :=
  le32 f.version ++ (f.hashPrevouts ++ (f.hashSequence ++ ((f.outpoint.hash ++ le32 f.outpoint.index) ++
    (compactSize f.scriptCode.length ++ (f.scriptCode ++ (le64s f.amount ++ (le32 f.sequence ++
      (f.hashOutputs ++ (le32 f.lockTime ++ le32 f.ty.toNat)))))))))

theorem le32_len (x : Nat) : (le32 x).length = 4 := by simp [le32]
theorem le64s_len (x : Int) : (le64s x).length = 8 := by simp [le64s]

/-- **unique decodability**: equal serialisations of well-sized fields have equal fields -/
theorem ser_inj (f g : Fields) (hf : f.Ok) (hg : g.Ok) (h : f.ser = g.ser) : f = g := by
  obtain ⟨f1, f2, f3, f4, f5, f6, f7, f8, f9, f10⟩ := hf
  obtain ⟨g1, g2, g3, g4, g5, g6, g7, g8, g9, g10⟩ := hg
  unfold Fields.ser at h
  obtain ⟨e1, h⟩ := List.append_inj h (by simp [le32_len])
  obtain ⟨e2, h⟩ := List.append_inj h (by rw [f2, g2])
  obtain ⟨e3, h⟩ := List.append_inj h (by rw [f3, g3])
  obtain ⟨e4, h⟩ := List.append_inj h (by simp [le32_len, f4, g4])
  obtain ⟨e4a, e4b⟩ := List.append_inj e4 (by rw [f4, g4])
  have elen : f.scriptCode.length = g.scriptCode.length := compactSize_inj _ _ f6 g6 _ _ h
  rw [elen] at h
  have h := List.append_cancel_left h
  obtain ⟨e5, h⟩ := List.append_inj h elen
  obtain ⟨e6, h⟩ := List.append_inj h (by simp [le64s_len])
  obtain ⟨e7, h⟩ := List.append_inj h (by simp [le32_len])
  obtain ⟨e8, h⟩ := List.append_inj h (by rw [f9, g9])
  obtain ⟨e9, e10⟩ := List.append_inj h (by simp [le32_len])
  have v := le32_inj _ _ f1 g1 e1
  have idx := le32_inj _ _ f5 g5 e4b
  have amt := le64s_inj _ _ f7 g7 e6
  have sq := le32_inj _ _ f8 g8 e7
  have lt := le32_inj _ _ f10 g10 e9
  have tyn := le32_inj _ _ (by have := f.ty.toNat_lt; omega) (by have := g.ty.toNat_lt; omega) e10
  have ty : f.ty = g.ty := UInt8.toNat_inj.mp tyn
  cases f with
  | mk fv fhp fhs fo fsc fa fs fho fl fty =>
    cases g with
    | mk gv ghp ghs go gsc ga gs gho gl gty =>
      cases fo; cases go
      simp_all

/-- the specification's preimage is the ten-field layout of its fields -/
def fieldsOf (dsha : Bytes → Bytes) (tx : Tx) (nIn : Nat) (inp : TxIn) (sc : Bytes) (amount : Int)
    (ty : UInt8) : Fields :=
  { version := tx.version, hashPrevouts := hashPrevouts dsha tx ty, hashSequence := hashSequence dsha tx ty,
    outpoint := inp.prevOutput, scriptCode := sc, amount := amount, sequence := inp.sequence,
    hashOutputs := hashOutputs dsha tx nIn ty, lockTime := tx.lockTime, ty := ty }

theorem preimageOf_eq_ser (dsha : Bytes → Bytes) (tx : Tx) (nIn : Nat) (inp : TxIn) (sc : Bytes)
    (amount : Int) (ty : UInt8) (h : tx.inputs[nIn]? = some inp) :
    preimageOf dsha tx nIn sc amount ty = some (fieldsOf dsha tx nIn inp sc amount ty).ser := by
  unfold preimageOf Fields.ser fieldsOf
  rw [h]
  simp [outpoint, List.append_assoc]

end CG.Proofs.Bip143Inj

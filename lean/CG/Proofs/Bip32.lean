import CG.Model.Bip32
import CG.Spec.Bip32
/-!
Helper lemmas for C08 (BIP-32).  Core Lean only (no Mathlib: importing it changes the default simp set).
-/
namespace CG.Proofs.Bip32
open CG CG.Model.Bip32

/-! ### big-endian integers -/

theorem beNat_nil : beNat [] = 0 := rfl

theorem beNat_cons (x : UInt8) (xs : Bytes) : beNat (x :: xs) = x.toNat * 256 ^ xs.length + beNat xs := by
  simp [beNat, leToNat_append, leToNat]
  rw [Nat.mul_comm]; omega

theorem beNat_lt (b : Bytes) : beNat b < 256 ^ b.length := by
  have := leToNat_lt b.reverse
  simpa [beNat] using this

@[simp] theorem natBE_length (len x : Nat) : (natBE len x).length = len := by simp [natBE]

theorem beNat_natBE (len x : Nat) : beNat (natBE len x) = x % 256 ^ len := by
  simp [beNat, natBE, leToNat_natToLEn]

theorem natBE_beNat (b : Bytes) : natBE b.length (beNat b) = b := by
  have := natToLEn_leToNat b.reverse
  simp [natBE, beNat] at *
  rw [this]; simp

theorem beNat_eq_zero_iff (b : Bytes) : beNat b = 0 ↔ ∀ x ∈ b, x = 0 := by
  induction b with
  | nil => simp [beNat_nil]
  | cons x xs ih =>
    rw [beNat_cons]
    have hp : 0 < 256 ^ xs.length := Nat.pow_pos (by decide)
    constructor
    · intro h
      have h1 : x.toNat * 256 ^ xs.length = 0 := by omega
      have h2 : beNat xs = 0 := by omega
      have hx : x.toNat = 0 := by
        rcases Nat.mul_eq_zero.mp h1 with h | h
        · exact h
        · omega
      intro y hy
      rcases List.mem_cons.mp hy with rfl | hy
      · exact UInt8.toNat_inj.mp (by simpa using hx)
      · exact (ih.mp h2) y hy
    · intro h
      have hx : x = 0 := h x (by simp)
      have h2 : beNat xs = 0 := ih.mpr (fun y hy => h y (by simp [hy]))
      subst hx; simp [h2]

/-! ### `is_private_key_valid` -/

theorem beNat_curveOrder : beNat curveOrderBytes = n := by decide

theorem anyBelow_false_le : ∀ (a b : Bytes), a.length = b.length → anyBelow a b = false → beNat b ≤ beNat a
  | [], [], _, _ => by simp [beNat_nil]
  | [], _ :: _, h, _ => by simp at h
  | _ :: _, [], h, _ => by simp at h
  | x :: xs, y :: ys, h, hb => by
    simp only [anyBelow] at hb
    split at hb
    · simp at hb
    · rename_i hxy
      have hl : xs.length = ys.length := by simpa using h
      have ih := anyBelow_false_le xs ys hl hb
      rw [beNat_cons, beNat_cons, hl]
      have hxy' : y.toNat ≤ x.toNat := by
        have : ¬ x.toNat < y.toNat := by simpa [UInt8.lt_iff_toNat_lt] using hxy
        omega
      have := Nat.mul_le_mul_right (256 ^ ys.length) hxy'
      omega

theorem any_ne_zero_iff (b : Bytes) : b.any (· != 0) = true ↔ beNat b ≠ 0 := by
  rw [Ne, beNat_eq_zero_iff]
  simp

/-- no key in range is rejected -/
theorem isPrivateKeyValid_of_range (key : Bytes) (hl : key.length = 32) (h0 : 0 < beNat key) (hn : beNat key < n) :
    isPrivateKeyValid key = true := by
  unfold isPrivateKeyValid
  have hb : anyBelow key curveOrderBytes = true := by
    cases h : anyBelow key curveOrderBytes with
    | true => rfl
    | false =>
      have := anyBelow_false_le key curveOrderBytes (by simp [hl, curveOrderBytes]) h
      rw [beNat_curveOrder] at this
      omega
  have ht : key.take 32 = key := by rw [← hl]; simp
  simp [hl, hb, ht]
  have := (any_ne_zero_iff key).mpr (by omega)
  simpa using this

theorem isPrivateKeyValid_nonzero (key : Bytes) (h : isPrivateKeyValid key = true) :
    key.length = 32 ∧ 0 < beNat key := by
  unfold isPrivateKeyValid at h
  split at h
  · simp at h
  · rename_i hl
    have hl : key.length = 32 := by simpa using hl
    split at h
    · simp at h
    · have ht : key.take 32 = key := by rw [← hl]; simp
      rw [ht] at h
      have := (any_ne_zero_iff key).mp h
      exact ⟨hl, by omega⟩


theorem secretKey_ok_iff (b : Bytes) (v : Nat) :
    secretKey b = .ok v ↔ b.length = 32 ∧ 0 < beNat b ∧ beNat b < n ∧ v = beNat b := by
  unfold secretKey
  split
  · rename_i h; simp; constructor
    · intro hv; exact ⟨h.1, h.2.1, h.2.2, hv.symm⟩
    · intro hv; exact hv.2.2.2.symm
  · rename_i h; simp; intro a b c; exact absurd ⟨a, b, c⟩ h

theorem secretKey_not_panic (b : Bytes) (s : String) : secretKey b ≠ .panic s := by
  unfold secretKey; split <;> simp

/-- the combined check at both call sites (`is_private_key_valid` then `SecretKey::from_slice`) is
    exactly the range test `0 < I_L < n` -/
theorem offsetScalar_ok_iff (I : Bytes) (hI : I.length = 64) (v : Nat) :
    offsetScalar I = .ok v ↔ 0 < beNat (I.take 32) ∧ beNat (I.take 32) < n ∧ v = beNat (I.take 32) := by
  have hl : (I.take 32).length = 32 := by simp [hI]
  unfold offsetScalar
  simp only [hI, ne_eq, not_true_eq_false, ↓reduceIte]
  constructor
  · intro h
    split at h
    · simp at h
    · exact ((secretKey_ok_iff _ _).mp h).2
  · rintro ⟨h0, hn, hv⟩
    rw [isPrivateKeyValid_of_range _ hl h0 hn]
    simp
    exact (secretKey_ok_iff _ _).mpr ⟨hl, h0, hn, hv⟩

theorem offsetScalar_not_panic (I : Bytes) (s : String) : offsetScalar I ≠ .panic s := by
  unfold offsetScalar
  split; · simp
  split; · simp
  exact secretKey_not_panic _ _

theorem outcome_cases {α} (o : Outcome α) : (∃ a, o = .ok a) ∨ (∃ e, o = .err e) ∨ (∃ s, o = .panic s) := by
  cases o <;> simp

theorem offsetScalar_err (I : Bytes) (hI : I.length = 64) (h : ¬ (0 < beNat (I.take 32) ∧ beNat (I.take 32) < n)) :
    ∃ e, offsetScalar I = .err e := by
  rcases outcome_cases (offsetScalar I) with ⟨v, hv⟩ | he | ⟨s, hs⟩
  · have := (offsetScalar_ok_iff I hI v).mp hv
    exact absurd ⟨this.1, this.2.1⟩ h
  · exact he
  · exact absurd hs (offsetScalar_not_panic _ _)

/-! ### the path parser -/

theorem splitOn_ne_nil (sep : Char) (s : List Char) : splitOn sep s ≠ [] := by
  cases s with
  | nil => simp [splitOn]
  | cons c cs =>
    simp only [splitOn]
    split
    · simp
    · split <;> simp

theorem splitOn_noSep (sep : Char) (p : List Char) (h : sep ∉ p) : splitOn sep p = [p] := by
  induction p with
  | nil => rfl
  | cons c cs ih =>
    have hc : c ≠ sep := fun e => h (by simp [e])
    have hcs : sep ∉ cs := fun e => h (by simp [e])
    simp [splitOn, hc, ih hcs]

theorem splitOn_join (sep : Char) : ∀ (ps : List (List Char)) (p : List Char), sep ∉ p → (∀ q ∈ ps, sep ∉ q) →
    splitOn sep (p ++ ps.flatMap (sep :: ·)) = p :: ps
  | [], p, hp, _ => by simpa using splitOn_noSep sep p hp
  | q :: qs, p, hp, hq => by
    induction p with
    | nil =>
      have := splitOn_join sep qs q (hq q (by simp)) (fun r hr => hq r (by simp [hr]))
      simp [splitOn, this]
    | cons c cs ih =>
      have hc : c ≠ sep := fun e => hp (by simp [e])
      have hcs : sep ∉ cs := fun e => hp (by simp [e])
      have := ih hcs
      simp only [List.cons_append, splitOn, hc, ↓reduceIte, this]

theorem splitOn_inv (sep : Char) : ∀ (s p : List Char) (ps : List (List Char)), splitOn sep s = p :: ps →
    s = p ++ ps.flatMap (sep :: ·) ∧ sep ∉ p ∧ ∀ q ∈ ps, sep ∉ q
  | [], p, ps, h => by
    simp [splitOn] at h
    obtain ⟨rfl, rfl⟩ := h
    simp
  | c :: cs, p, ps, h => by
    simp only [splitOn] at h
    split at h
    · rename_i hc
      simp at h
      obtain ⟨rfl, rfl⟩ := h
      rcases hsp : splitOn sep cs with _ | ⟨q, qs⟩
      · exact absurd hsp (splitOn_ne_nil _ _)
      · have ih := splitOn_inv sep cs q qs hsp
        refine ⟨?_, by simp, ?_⟩
        · simp [hc]; exact ih.1
        · intro r hr
          rcases List.mem_cons.mp hr with rfl | hr
          · exact ih.2.1
          · exact ih.2.2 r hr
    · rename_i hc
      rcases hsp : splitOn sep cs with _ | ⟨q, qs⟩
      · exact absurd hsp (splitOn_ne_nil _ _)
      · rw [hsp] at h
        simp at h
        obtain ⟨rfl, rfl⟩ := h
        have ih := splitOn_inv sep cs q qs hsp
        refine ⟨?_, ?_, ih.2.2⟩
        · simp; exact ih.1
        · simp; exact ⟨fun e => hc e.symm, ih.2.1⟩


open CG.Spec.Bip32 (Comp Denotes pathText)

theorem decimal_eq : Model.Bip32.decimal = Spec.Bip32.decimal := rfl

theorem digit_not_marker (c : Char) (h : c.isDigit = true) : isMarker c = false := by
  cases hm : isMarker c with
  | false => rfl
  | true =>
    simp [isMarker] at hm
    rcases hm with (rfl | rfl) | rfl <;> simp [Char.isDigit] at h

theorem digit_ne_plus (c : Char) (h : c.isDigit = true) : c ≠ '+' := by
  rintro rfl; simp [Char.isDigit] at h

theorem digit_ne_slash (c : Char) (h : c.isDigit = true) : c ≠ '/' := by
  rintro rfl; simp [Char.isDigit] at h

theorem marker_ne_slash (c : Char) (h : isMarker c = true) : c ≠ '/' := by
  rintro rfl; simp [isMarker] at h

theorem stripPlus_cons_ne (c : Char) (r : List Char) (hc : c ≠ '+') : stripPlus (c :: r) = c :: r := by
  unfold stripPlus
  split
  · rename_i heq; simp at heq; exact absurd heq.1 hc
  · rfl

/-- `u32::from_str` on a non-empty string of ASCII digits -/
theorem parseU32_digits (d : List Char) (hne : d ≠ []) (hd : d.all Char.isDigit = true) :
    parseU32 d = if decimal d < 4294967296 then .ok (decimal d) else .err "ParseIntError" := by
  cases d with
  | nil => exact absurd rfl hne
  | cons c r =>
    have hc : c ≠ '+' := digit_ne_plus c (by simp at hd; exact hd.1)
    unfold parseU32
    rw [stripPlus_cons_ne c r hc]
    simp only [hd]
    simp

theorem lastIsMarker_concat (init : List Char) (last : Char) : lastIsMarker (init ++ [last]) = isMarker last := by
  simp [lastIsMarker]

theorem parseIndexStrict_ok_iff (part : List Char) (idx : Nat) :
    parseIndexStrict part = .ok idx ↔ ∃ c : Comp, c.WF ∧ part = c.text ∧ idx = c.childNumber := by
  rcases List.eq_nil_or_concat part with rfl | ⟨init, last, rfl⟩
  · constructor
    · intro h; simp [parseIndexStrict, indexDigits, lastIsMarker] at h
    · rintro ⟨c, hwf, ht, -⟩
      have : c.digits = [] := by
        have := congrArg List.length ht
        simp [Comp.text] at this
        exact List.length_eq_zero_iff.mp (by omega)
      exact absurd this hwf.1
  · rw [List.concat_eq_append]
    unfold parseIndexStrict indexDigits
    rw [lastIsMarker_concat]
    cases hm : isMarker last with
    | true =>
      simp only [↓reduceIte, List.dropLast_concat]
      constructor
      · intro h
        split at h
        · simp at h
        · rename_i hcond
          simp only [Bool.or_eq_true, decide_eq_true_eq, Bool.not_eq_eq_eq_not, Bool.not_true, not_or, Bool.not_eq_false] at hcond
          rw [parseU32_digits init hcond.1 hcond.2] at h
          by_cases hlt : decimal init < 4294967296
          · simp only [hlt, ↓reduceIte] at h
            by_cases hh : decimal init ≥ HARDENED_KEY
            · simp [hh] at h
            · simp only [hh, ↓reduceIte] at h
              simp at h
              refine ⟨⟨init, some last⟩, ⟨hcond.1, by simpa using hcond.2, ?_⟩, by simp [Comp.text], ?_⟩
              · simp only
                refine ⟨by simp [isMarker] at hm; rcases hm with (h | h) | h <;> simp [h], ?_⟩
                rw [← decimal_eq]; simp [HARDENED_KEY] at hh; omega
              · simp [Comp.childNumber, ← decimal_eq, ← h, HARDENED_KEY]
          · simp [hlt] at h
      · rintro ⟨c, hwf, ht, hidx⟩
        obtain ⟨digits, marker⟩ := c
        obtain ⟨hne, hdig, hmk⟩ := hwf
        simp only at hne hdig hmk
        cases marker with
        | none =>
          simp [Comp.text] at ht
          have : last ∈ digits := by rw [← ht]; simp
          have := digit_not_marker last (hdig last this)
          rw [this] at hm; cases hm
        | some m =>
          simp [Comp.text] at ht
          obtain ⟨hinit, -⟩ := ht
          subst hinit
          simp only at hmk
          have hall : init.all Char.isDigit = true := by simpa using hdig
          simp only [hne, hall, decide_false, Bool.not_true, Bool.or_self, Bool.false_eq_true, ↓reduceIte]
          rw [parseU32_digits init hne hall]
          have hlt : decimal init < 2 ^ 31 := by rw [decimal_eq]; exact hmk.2
          have h1 : decimal init < 4294967296 := by omega
          simp only [h1, ↓reduceIte]
          have h2 : ¬ decimal init ≥ HARDENED_KEY := by simp [HARDENED_KEY]; omega
          simp only [h2, ↓reduceIte]
          simp [hidx, Comp.childNumber, ← decimal_eq, HARDENED_KEY]
    | false =>
      simp only [Bool.false_eq_true, ↓reduceIte]
      constructor
      · intro h
        split at h
        · simp at h
        · rename_i hcond
          simp only [Bool.or_eq_true, decide_eq_true_eq, Bool.not_eq_eq_eq_not, Bool.not_true, not_or, Bool.not_eq_false] at hcond
          rw [parseU32_digits _ hcond.1 hcond.2] at h
          by_cases hlt : decimal (init ++ [last]) < 4294967296
          · simp only [hlt, ↓reduceIte] at h
            simp at h
            refine ⟨⟨init ++ [last], none⟩, ⟨hcond.1, fun d hd => List.all_eq_true.mp hcond.2 d hd, ?_⟩, by simp [Comp.text], ?_⟩
            · simp only; rw [← decimal_eq]; omega
            · simp [Comp.childNumber, ← decimal_eq, ← h]
          · simp [hlt] at h
      · rintro ⟨c, hwf, ht, hidx⟩
        obtain ⟨digits, marker⟩ := c
        obtain ⟨hne, hdig, hmk⟩ := hwf
        simp only at hne hdig hmk
        cases marker with
        | some m =>
          simp [Comp.text] at ht
          obtain ⟨-, hl⟩ := ht
          subst hl
          simp only at hmk
          have : isMarker last = true := by
            rcases hmk.1 with rfl | rfl | rfl <;> simp [isMarker]
          rw [this] at hm; cases hm
        | none =>
          simp [Comp.text] at ht
          subst ht
          simp only at hmk
          have hall : (init ++ [last]).all Char.isDigit = true := List.all_eq_true.mpr (fun x hx => hdig x hx)
          have hne' : init ++ [last] ≠ [] := by simp
          simp only [hne', hall, decide_false, Bool.not_true, Bool.or_self, Bool.false_eq_true, ↓reduceIte]
          rw [parseU32_digits _ hne' hall]
          have hlt : decimal (init ++ [last]) < 4294967296 := by rw [decimal_eq]; simpa using hmk
          simp only [hlt, ↓reduceIte]
          simp [hidx, Comp.childNumber, ← decimal_eq]


theorem map_ok_iff {α β} (f : α → β) (o : Outcome α) (b : β) : o.map f = .ok b ↔ ∃ a, o = .ok a ∧ b = f a := by
  cases o <;> simp [Outcome.map, eq_comm]

theorem parseIndex_repaired (part : List Char) : parseIndex repaired part = parseIndexStrict part := rfl

theorem parseParts_ok_iff : ∀ (parts : List (List Char)) (idxs : List Nat),
    parseParts repaired parts = .ok idxs ↔
      ∃ cs : List Comp, (∀ c ∈ cs, c.WF) ∧ parts = cs.map Comp.text ∧ idxs = cs.map Comp.childNumber
  | [], idxs => by
    simp only [parseParts]
    constructor
    · intro h; simp at h; exact ⟨[], by simp, by simp, by simp [h]⟩
    · rintro ⟨cs, -, ht, hi⟩
      have : cs = [] := by simpa using ht.symm
      subst this; simp [hi]
  | part :: rest, idxs => by
    have ih := parseParts_ok_iff rest
    simp only [parseParts, parseIndex_repaired]
    constructor
    · intro h
      split at h
      · simp at h
      · rcases hp : parseIndexStrict part with idx | e | st
        · rw [hp] at h
          simp only at h
          obtain ⟨l, hl, rfl⟩ := (map_ok_iff _ _ _).mp h
          obtain ⟨cs, hwf, hr, hi⟩ := (ih l).mp hl
          obtain ⟨c, hc, hct, hci⟩ := (parseIndexStrict_ok_iff part idx).mp hp
          refine ⟨c :: cs, ?_, by simp [hct, hr], by simp [hci, hi]⟩
          intro c' hc'
          rcases List.mem_cons.mp hc' with rfl | h'
          · exact hc
          · exact hwf c' h'
        · rw [hp] at h; simp at h
        · rw [hp] at h; simp at h
    · rintro ⟨cs, hwf, ht, hi⟩
      cases cs with
      | nil => simp at ht
      | cons c cs =>
        simp at ht hi
        obtain ⟨rfl, rfl⟩ := ht
        have hc : c.WF := hwf c (by simp)
        have hne : c.text ≠ [] := by
          intro h
          have := congrArg List.length h
          simp [Comp.text] at this
          exact hc.1 this.1
        have hp := (parseIndexStrict_ok_iff c.text c.childNumber).mpr ⟨c, hc, rfl, rfl⟩
        have hr := (ih (cs.map Comp.childNumber)).mpr ⟨cs, fun c' h' => hwf c' (by simp [h']), rfl, rfl⟩
        simp [hne, hp, hr, Outcome.map, hi]

theorem slash_not_mem_text (c : Comp) (h : c.WF) : '/' ∉ c.text := by
  obtain ⟨digits, marker⟩ := c
  obtain ⟨-, hdig, hmk⟩ := h
  simp only at hdig hmk
  simp only [Comp.text, List.mem_append, not_or]
  constructor
  · intro hm; exact digit_ne_slash _ (hdig _ hm) rfl
  · cases marker with
    | none => simp
    | some m =>
      simp only at hmk
      rcases hmk.1 with rfl | rfl | rfl <;> simp

theorem flatMap_text (cs : List Comp) :
    (cs.map Comp.text).flatMap (fun q => '/' :: q) = cs.flatMap (fun c => '/' :: c.text) := by
  induction cs with
  | nil => rfl
  | cons c cs ih => simp [ih]

/-- the repaired parser accepts exactly the path notation, and maps it to the right child numbers -/
theorem parsePath_ok_iff (s : List Char) (kt : KeyType) (idxs : List Nat) :
    parsePath repaired s = .ok (kt, idxs) ↔ Denotes s (decide (kt = .priv)) idxs := by
  unfold parsePath
  constructor
  · intro h
    split at h
    · simp at h
    · rename_i p0 rest hsp
      obtain ⟨hs, -, -⟩ := splitOn_inv '/' s p0 rest hsp
      split at h
      · rename_i hp0
        obtain ⟨l, hl, heq⟩ := (map_ok_iff _ _ _).mp h
        simp at heq
        obtain ⟨rfl, rfl⟩ := heq
        obtain ⟨cs, hwf, hr, hi⟩ := (parseParts_ok_iff rest idxs).mp hl
        refine ⟨'m', cs, by simp, hwf, ?_, hi⟩
        rw [hs, hp0, hr, flatMap_text]; rfl
      · split at h
        · rename_i hp0
          obtain ⟨l, hl, heq⟩ := (map_ok_iff _ _ _).mp h
          simp at heq
          obtain ⟨rfl, rfl⟩ := heq
          obtain ⟨cs, hwf, hr, hi⟩ := (parseParts_ok_iff rest idxs).mp hl
          refine ⟨'M', cs, by simp, hwf, ?_, hi⟩
          rw [hs, hp0, hr, flatMap_text]; rfl
        · simp at h
  · rintro ⟨pfx, cs, hpfx, hwf, hs, hi⟩
    have hsplit : ∀ (c : Char), c ≠ '/' → splitOn '/' (pathText c cs) = [c] :: cs.map Comp.text := by
      intro c hc
      have := splitOn_join '/' (cs.map Comp.text) [c] (by simp [Ne.symm hc])
        (by intro q hq; obtain ⟨c', hc', rfl⟩ := List.mem_map.mp hq; exact slash_not_mem_text c' (hwf c' hc'))
      rw [flatMap_text] at this
      simpa [pathText] using this
    have hr := (parseParts_ok_iff (cs.map Comp.text) idxs).mpr ⟨cs, hwf, rfl, hi⟩
    rcases hpfx with ⟨rfl, hk⟩ | ⟨rfl, hk⟩
    · rw [hs, hsplit 'm' (by decide)]
      have : kt = .priv := by simpa using hk
      simp [hr, Outcome.map, this]
    · rw [hs, hsplit 'M' (by decide)]
      have : kt = .pub := by cases kt <;> simp_all
      simp [hr, Outcome.map, this]


/-! ### the spec's integer conversions are the model's -/

theorem parse256_eq (b : Bytes) : Spec.Bip32.parse256 b = beNat b := by
  have gen : ∀ (b : Bytes) (acc : Nat), b.foldl (fun acc x => acc * 256 + x.toNat) acc = acc * 256 ^ b.length + beNat b := by
    intro b
    induction b with
    | nil => intro acc; simp [beNat_nil]
    | cons x xs ih =>
      intro acc
      rw [List.foldl_cons, ih, beNat_cons]
      simp [Nat.pow_succ, Nat.add_mul, Nat.mul_assoc, Nat.add_assoc]
      rw [Nat.mul_comm (256 ^ xs.length) 256]
  have := gen b 0
  simpa [Spec.Bip32.parse256] using this

theorem natToLEn_succ_snoc (len x : Nat) :
    natToLEn (len + 1) x = natToLEn len x ++ [UInt8.ofNat (x / 256 ^ len % 256)] := by
  induction len generalizing x with
  | zero => simp [natToLEn]
  | succ k ih =>
    rw [natToLEn, ih (x / 256)]
    simp only [natToLEn, List.cons_append]
    rw [Nat.div_div_eq_div_mul, Nat.pow_succ, Nat.mul_comm (256 ^ k) 256]

theorem serN_eq (len x : Nat) : Spec.Bip32.serN len x = natBE len x := by
  induction len with
  | zero => rfl
  | succ k ih =>
    simp only [Spec.Bip32.serN, ih, natBE, natToLEn_succ_snoc, List.reverse_append, List.reverse_cons,
      List.reverse_nil, List.nil_append, List.cons_append]

theorem ser32_eq (x : Nat) : Spec.Bip32.ser32 x = natBE 4 x := serN_eq 4 x
theorem ser256_eq (x : Nat) : Spec.Bip32.ser256 x = natBE 32 x := serN_eq 32 x
theorem n_eq : Spec.Bip32.n = n := by decide


/-! ### the 78-byte layout -/

def lay (v d : Nat) (fp : Bytes) (idx : Nat) (cc kd : Bytes) : Bytes :=
  natBE 4 v ++ (UInt8.ofNat d :: (fp ++ (natBE 4 idx ++ (cc ++ kd))))

section layout
variable (v d idx : Nat) (fp cc kd : Bytes) (hfp : fp.length = 4) (hcc : cc.length = 32)

theorem version_lay : version (lay v d fp idx cc kd) = v % 2^32 := by
  simp [version, lay, beNat_natBE]
theorem depth_lay : depth (lay v d fp idx cc kd) = d % 256 := by
  simp [depth, lay]
include hfp
theorem parentFingerprint_lay : parentFingerprint (lay v d fp idx cc kd) = fp := by
  have h : lay v d fp idx cc kd = (natBE 4 v ++ [UInt8.ofNat d]) ++ (fp ++ (natBE 4 idx ++ (cc ++ kd))) := by simp [lay]
  rw [parentFingerprint, h, List.drop_left' (by simp), List.take_left' hfp]
theorem index_lay : index (lay v d fp idx cc kd) = idx % 2^32 := by
  have h : lay v d fp idx cc kd = (natBE 4 v ++ UInt8.ofNat d :: fp) ++ (natBE 4 idx ++ (cc ++ kd)) := by simp [lay]
  rw [index, h, List.drop_left' (by simp [hfp]), List.take_left' (by simp), beNat_natBE]
include hcc
theorem chainCode_lay : chainCode (lay v d fp idx cc kd) = cc := by
  have h : lay v d fp idx cc kd = (natBE 4 v ++ UInt8.ofNat d :: (fp ++ natBE 4 idx)) ++ (cc ++ kd) := by simp [lay]
  rw [chainCode, h, List.drop_left' (by simp [hfp]), List.take_left' hcc]
theorem keyData_lay : keyData (lay v d fp idx cc kd) = kd := by
  have h : lay v d fp idx cc kd = (natBE 4 v ++ UInt8.ofNat d :: (fp ++ (natBE 4 idx ++ cc))) ++ kd := by simp [lay]
  rw [keyData, h, List.drop_left' (by simp [hfp, hcc])]
theorem privBytes_lay (b : UInt8) : privBytes (lay v d fp idx cc (b :: kd)) = kd := by
  have h : lay v d fp idx cc (b :: kd) = (natBE 4 v ++ UInt8.ofNat d :: (fp ++ (natBE 4 idx ++ (cc ++ [b])))) ++ kd := by simp [lay]
  rw [privBytes, h, List.drop_left' (by simp [hfp, hcc])]
omit hfp hcc
theorem lay_length (hfp : fp.length = 4) (hcc : cc.length = 32) (hkd : kd.length = 33) :
    (lay v d fp idx cc kd).length = 78 := by
  simp [lay, hfp, hcc, hkd]
end layout

/-! ### model parameters as spec parameters; well-formed keys -/

open CG.Spec.Bip32 (Params XKey KeyMat serialize childPriv childPub toPublic ckdPriv ckdPub privI pubI fingerprint pubPoint versionBytes)

def netOf : Spec.Bip32.Net → Net
  | .main => .main
  | .test => .test

def toParams {P} (o : Ops P) : Params P where
  hmacSha512 := o.hmac
  hash160 := o.hash160
  point := o.mulG
  add := o.add
  isInfinity := o.isId
  serP := o.ser
  parseP := o.parse

/-- the facts about the external crates that the theorems use -/
structure OpsOK {P} (o : Ops P) : Prop where
  /-- `to_sec1_bytes` of a public key (never the identity) is 33 bytes -/
  ser_len : ∀ p, o.isId p = false → (o.ser p).length = 33
  /-- the public key of a secret scalar in range is not the identity -/
  mulG_ne_id : ∀ x, 0 < x → x < n → o.isId (o.mulG x) = false
  /-- `from_sec1_bytes` inverts `to_sec1_bytes` -/
  parse_ser : ∀ p, o.isId p = false → o.parse (o.ser p) = some p
  hmac_len : ∀ k m, (o.hmac k m).length = 64
  hash_len : ∀ b, (o.hash160 b).length = 20

/-- an extended key that has a 78-byte serialization -/
structure XWF {P} (o : Ops P) (x : XKey P) : Prop where
  depth : x.depth < 256
  fp : x.parentFp.length = 4
  idx : x.childNum < 2 ^ 32
  chain : x.chain.length = 32
  key : ∀ k, x.key = .priv k → 0 < k ∧ k < n
  pubkey : ∀ K, x.key = .pub K → o.isId K = false

def okOf {α} : Outcome α → Option α
  | .ok a => some a
  | _ => none

def keyBytes {P} (o : Ops P) : KeyMat P → Bytes
  | .priv k => (0 : UInt8) :: natBE 32 k
  | .pub K => o.ser K

theorem serialize_eq_lay {P} (o : Ops P) (x : XKey P) :
    serialize (toParams o) x = lay (versionBytes x.net x.isPrivate) x.depth x.parentFp x.childNum x.chain (keyBytes o x.key) := by
  unfold serialize lay
  rw [ser32_eq, ser32_eq]
  cases hk : x.key <;> simp [keyBytes, ser256_eq, toParams]

theorem privVersion_netOf (net : Spec.Bip32.Net) : privVersion (netOf net) = versionBytes net true := by
  cases net <;> rfl
theorem pubVersion_netOf (net : Spec.Bip32.Net) : pubVersion (netOf net) = versionBytes net false := by
  cases net <;> rfl

theorem keyType_lay (net : Spec.Bip32.Net) (isPriv : Bool) (d : Nat) (fp : Bytes) (idx : Nat) (cc kd : Bytes) :
    keyType (lay (versionBytes net isPriv) d fp idx cc kd) = .ok (if isPriv then .priv else .pub) := by
  unfold keyType
  rw [version_lay]
  cases net <;> cases isPriv <;> decide

theorem network_lay (net : Spec.Bip32.Net) (isPriv : Bool) (d : Nat) (fp : Bytes) (idx : Nat) (cc kd : Bytes) :
    network (lay (versionBytes net isPriv) d fp idx cc kd) = .ok (netOf net) := by
  unfold network
  rw [version_lay]
  cases net <;> cases isPriv <;> decide

theorem secretKey_natBE (k : Nat) (h0 : 0 < k) (hn : k < n) : secretKey (natBE 32 k) = .ok k := by
  have hk : beNat (natBE 32 k) = k := by
    rw [beNat_natBE]; apply Nat.mod_eq_of_lt
    have : n < 256 ^ 32 := by decide
    omega
  exact (secretKey_ok_iff _ _).mpr ⟨by simp, by omega, by omega, hk.symm⟩

theorem newPrivateKey_lay (net : Net) (d : Nat) (fp : Bytes) (idx : Nat) (cc sk : Bytes)
    (hfp : fp.length = 4) (hcc : cc.length = 32) (hsk : sk.length = 32) :
    newPrivateKey net d fp idx cc sk = .ok (lay (privVersion net) d fp idx cc (0 :: sk)) := by
  simp [newPrivateKey, hfp, hcc, hsk, lay]

theorem newPublicKey_lay (net : Net) (d : Nat) (fp : Bytes) (idx : Nat) (cc pk : Bytes)
    (hfp : fp.length = 4) (hcc : cc.length = 32) (hpk : pk.length = 33) :
    newPublicKey net d fp idx cc pk = .ok (lay (pubVersion net) d fp idx cc pk) := by
  simp [newPublicKey, hfp, hcc, hpk, lay]

section steps
variable {P : Type} (o : Ops P)

theorem pubPoint_ne_id (ok : OpsOK o) (x : XKey P) (hx : XWF o x) : o.isId (pubPoint (toParams o) x) = false := by
  cases hk : x.key with
  | priv k => have := hx.key k hk; simpa [pubPoint, hk, toParams] using ok.mulG_ne_id k this.1 this.2
  | pub K => simpa [pubPoint, hk] using hx.pubkey K hk

theorem publicKey_priv (ok : OpsOK o) (x : XKey P) (hx : XWF o x) (k : Nat) (hk : x.key = .priv k) :
    publicKey o (serialize (toParams o) x) = .ok (o.ser (o.mulG k)) := by
  have hr := hx.key k hk
  rw [serialize_eq_lay]
  unfold publicKey
  have hp : x.isPrivate = true := by simp [XKey.isPrivate, hk]
  rw [hp, keyType_lay]
  simp only [↓reduceIte, hk, keyBytes]
  rw [privBytes_lay _ _ _ _ _ _ hx.fp hx.chain, secretKey_natBE k hr.1 hr.2]
  simp [ok.ser_len _ (ok.mulG_ne_id k hr.1 hr.2)]

theorem publicKey_pub (x : XKey P) (hx : XWF o x) (K : P) (hk : x.key = .pub K) :
    publicKey o (serialize (toParams o) x) = .ok (o.ser K) := by
  rw [serialize_eq_lay]
  unfold publicKey
  have hp : x.isPrivate = false := by simp [XKey.isPrivate, hk]
  rw [hp, keyType_lay]
  simp only [Bool.false_eq_true, ↓reduceIte, hk, keyBytes]
  rw [keyData_lay _ _ _ _ _ _ hx.fp hx.chain]

theorem publicKey_serialize (ok : OpsOK o) (x : XKey P) (hx : XWF o x) :
    publicKey o (serialize (toParams o) x) = .ok (o.ser (pubPoint (toParams o) x)) := by
  cases hk : x.key with
  | priv k => rw [publicKey_priv o ok x hx k hk]; simp [pubPoint, hk, toParams]
  | pub K => rw [publicKey_pub o x hx K hk]; simp [pubPoint, hk]

/-- closed form of `derive_private_key` on a serialized private key below the depth limit -/
theorem derivePrivateKey_serialize (ok : OpsOK o) (x : XKey P) (hx : XWF o x) (k : Nat) (hk : x.key = .priv k) (hd : x.depth ≠ 255) (i : Nat) :
    derivePrivateKey o (serialize (toParams o) x) i =
      match offsetScalar (privI (toParams o) k x.chain i) with
      | .ok il => .ok (lay (versionBytes x.net true) (x.depth + 1) ((o.hash160 (o.ser (o.mulG k))).take 4) i
                    ((privI (toParams o) k x.chain i).drop 32) (0 :: natBE 32 ((il + k) % n)))
      | .err e => .err e
      | .panic s => .panic s := by
  have hr := hx.key k hk
  have hpk := publicKey_priv o ok x hx k hk
  have hp : x.isPrivate = true := by simp [XKey.isPrivate, hk]
  have hI : privI (toParams o) k x.chain i =
      o.hmac x.chain (if i ≥ HARDENED_KEY then (0 : UInt8) :: (natBE 32 k ++ natBE 4 i) else o.ser (o.mulG k) ++ natBE 4 i) := by
    unfold privI Spec.Bip32.hardened
    by_cases h : i ≥ HARDENED_KEY
    · have : i ≥ 2 ^ 31 := by simpa [HARDENED_KEY] using h
      simp [h, this, toParams, ser256_eq, ser32_eq]
    · have : ¬ i ≥ 2 ^ 31 := by simpa [HARDENED_KEY] using h
      simp [h, this, toParams, ser32_eq]
  unfold derivePrivateKey
  rw [hpk]
  rw [serialize_eq_lay] at *
  rw [hp, keyType_lay, network_lay]
  simp only [↓reduceIte, hk, keyBytes]
  rw [depth_lay, Nat.mod_eq_of_lt hx.depth, privBytes_lay _ _ _ _ _ _ hx.fp hx.chain,
    secretKey_natBE k hr.1 hr.2, chainCode_lay _ _ _ _ _ _ hx.fp hx.chain]
  simp only [hd, ↓reduceIte]
  have hdata : (if i ≥ HARDENED_KEY then Outcome.ok ((0 : UInt8) :: (natBE 32 k ++ natBE 4 i))
        else (Outcome.ok (o.ser (o.mulG k))).map fun pk => pk ++ natBE 4 i) =
      .ok (if i ≥ HARDENED_KEY then (0 : UInt8) :: (natBE 32 k ++ natBE 4 i) else o.ser (o.mulG k) ++ natBE 4 i) := by
    split <;> simp [Outcome.map]
  rw [hdata]
  simp only
  rw [← hI]
  rcases hos : offsetScalar (privI (toParams o) k x.chain i) with il | e | st
  · simp only
    have hlen : (privI (toParams o) k x.chain i).length = 64 := by rw [hI]; exact ok.hmac_len _ _
    have hd1 : ¬ x.depth + 1 > 255 := by have := hx.depth; omega
    simp only [hd1, ↓reduceIte]
    rw [newPrivateKey_lay _ _ _ _ _ _ (by simp [ok.hash_len]) (by simp [hlen]) (by simp), privVersion_netOf]
  · rfl
  · rfl


/-- the two cryptographically unreachable events (probability ≈ 2⁻²⁵⁶ per step) on which the code
    and the BIP text differ: `I_L = 0` (the code rejects it, the BIP does not) and `k_i = 0`
    (the BIP rejects it, the code returns the zero key) -/
def PrivEdge (E : Params P) (k : Nat) (c : Bytes) (i : Nat) : Prop :=
  Spec.Bip32.parse256 ((privI E k c i).take 32) = 0 ∨
  (Spec.Bip32.parse256 ((privI E k c i).take 32) < Spec.Bip32.n ∧
    (Spec.Bip32.parse256 ((privI E k c i).take 32) + k) % Spec.Bip32.n = 0)

/-- `I_L = 0` in `CKDpub` (the code rejects it, the BIP does not) -/
def PubEdge (E : Params P) (K : P) (c : Bytes) (i : Nat) : Prop :=
  Spec.Bip32.parse256 ((pubI E K c i).take 32) = 0

theorem keyType_cases (k : Bytes) : keyType k = .ok .pub ∨ keyType k = .ok .priv ∨ keyType k = .err "BadData" := by
  unfold keyType; simp only; split; · simp
  split <;> simp

theorem network_cases (k : Bytes) : (∃ nt, network k = .ok nt) ∨ network k = .err "BadData" := by
  unfold network; simp only; split; · simp
  split <;> simp

theorem derivePrivateKey_depth255 (k : Bytes) (i : Nat) (h : depth k = 255) : ∃ e, derivePrivateKey o k i = .err e := by
  unfold derivePrivateKey
  rcases keyType_cases k with hk | hk | hk <;> rw [hk] <;> simp only
  · exact ⟨_, rfl⟩
  · rcases network_cases k with ⟨nt, hn⟩ | hn <;> rw [hn] <;> simp [h]
  · exact ⟨_, rfl⟩

theorem derivePublicKey_depth255 (a : Bool) (k : Bytes) (i : Nat) (h : depth k = 255) : ∃ e, derivePublicKey a o k i = .err e := by
  unfold derivePublicKey
  split; · exact ⟨_, rfl⟩
  rcases network_cases k with ⟨nt, hn⟩ | hn <;> rw [hn] <;> simp [h]

theorem derivePublicKey_hardened (a : Bool) (k : Bytes) (i : Nat) (h : i ≥ HARDENED_KEY) :
    derivePublicKey a o k i = .err "BadArgument" := by
  unfold derivePublicKey; simp [h]

theorem derivePrivateKey_public (k : Bytes) (i : Nat) (h : keyType k = .ok .pub) :
    derivePrivateKey o k i = .err "BadData" := by
  unfold derivePrivateKey; rw [h]

/-! #### never panics (given that `to_sec1_bytes` returns 33 bytes) -/

theorem newPublicKey_not_panic (net : Net) (d : Nat) (fp : Bytes) (idx : Nat) (cc pk : Bytes) (st : String) :
    newPublicKey net d fp idx cc pk ≠ .panic st := by
  unfold newPublicKey; split; · simp
  split; · simp
  split <;> simp

theorem newPrivateKey_not_panic (net : Net) (d : Nat) (fp : Bytes) (idx : Nat) (cc sk : Bytes) (st : String) :
    newPrivateKey net d fp idx cc sk ≠ .panic st := by
  unfold newPrivateKey; split; · simp
  split; · simp
  split <;> simp

theorem depth_le (k : Bytes) : depth k ≤ 255 := by
  unfold depth; have := ((k.drop 4).headD 0).toNat_lt; omega

theorem publicKey_not_panic (ok : OpsOK o) (k : Bytes) (st : String) : publicKey o k ≠ .panic st := by
  unfold publicKey
  rcases keyType_cases k with hk | hk | hk <;> rw [hk] <;> simp only
  · simp
  · rcases outcome_cases (secretKey (privBytes k)) with ⟨x, hx⟩ | ⟨e, he⟩ | ⟨s', hs⟩
    · obtain ⟨-, h0, hn, rfl⟩ := (secretKey_ok_iff _ _).mp hx
      rw [hx]; simp [ok.ser_len _ (ok.mulG_ne_id _ h0 hn)]
    · rw [he]; simp
    · exact absurd hs (secretKey_not_panic _ _)
  · simp

theorem extendedPublicKey_not_panic (ok : OpsOK o) (k : Bytes) (st : String) :
    extendedPublicKey o k ≠ .panic st := by
  unfold extendedPublicKey
  rcases keyType_cases k with hk | hk | hk <;> rw [hk] <;> simp only
  · simp
  · rcases outcome_cases (secretKey (privBytes k)) with ⟨x, hx⟩ | ⟨e, he⟩ | ⟨s', hs⟩
    · obtain ⟨-, h0, hn, rfl⟩ := (secretKey_ok_iff _ _).mp hx
      rw [hx]; simp only [ok.ser_len _ (ok.mulG_ne_id _ h0 hn), ne_eq, not_true_eq_false, ↓reduceIte]
      rcases network_cases k with ⟨nt, hn⟩ | hn <;> rw [hn] <;> simp only
      · exact newPublicKey_not_panic _ _ _ _ _ _ _
      · simp
    · rw [he]; simp
    · exact absurd hs (secretKey_not_panic _ _)
  · simp

theorem derivePrivateKey_not_panic (ok : OpsOK o) (k : Bytes) (i : Nat) (st : String) :
    derivePrivateKey o k i ≠ .panic st := by
  unfold derivePrivateKey
  rcases keyType_cases k with hk | hk | hk <;> rw [hk] <;> simp only
  · simp
  · rcases network_cases k with ⟨nt, hn⟩ | hn <;> rw [hn] <;> simp only
    · split; · simp
      rename_i hd
      rcases outcome_cases (secretKey (privBytes k)) with ⟨x, hx⟩ | ⟨e, he⟩ | ⟨s', hs⟩
      · rw [hx]; simp only
        rcases outcome_cases (publicKey o k) with ⟨pk, hpk⟩ | ⟨e, he⟩ | ⟨s', hs⟩
        · rw [hpk]
          have hdata : ∃ data, (if i ≥ HARDENED_KEY then Outcome.ok ((0 : UInt8) :: (privBytes k ++ natBE 4 i))
              else (Outcome.ok pk).map fun pk => pk ++ natBE 4 i) = .ok data := by
            split <;> simp [Outcome.map]
          obtain ⟨data, hdata⟩ := hdata
          rw [hdata]; simp only
          rcases outcome_cases (offsetScalar (o.hmac (chainCode k) data)) with ⟨il, hil⟩ | ⟨e, he⟩ | ⟨s', hs⟩
          · rw [hil]; simp only
            have : ¬ depth k + 1 > 255 := by have := depth_le k; omega
            simp only [this, ↓reduceIte]
            exact newPrivateKey_not_panic _ _ _ _ _ _ _
          · rw [he]; simp
          · exact absurd hs (offsetScalar_not_panic _ _)
        · rw [he]
          by_cases hh : i ≥ HARDENED_KEY
          · simp only [hh, ↓reduceIte]
            rcases outcome_cases (offsetScalar (o.hmac (chainCode k) ((0 : UInt8) :: (privBytes k ++ natBE 4 i)))) with ⟨il, hil⟩ | ⟨e, he⟩ | ⟨s', hs⟩
            · rw [hil]; simp
            · rw [he]; simp
            · exact absurd hs (offsetScalar_not_panic _ _)
          · simp [hh, Outcome.map]
        · exact absurd hs (publicKey_not_panic o ok _ _)
      · rw [he]; simp
      · exact absurd hs (secretKey_not_panic _ _)
    · simp
  · simp

theorem derivePublicKey_not_panic (a : Bool) (ok : OpsOK o) (k : Bytes) (i : Nat) (st : String) :
    derivePublicKey a o k i ≠ .panic st := by
  unfold derivePublicKey
  split; · simp
  rcases network_cases k with ⟨nt, hn⟩ | hn <;> rw [hn] <;> simp only
  · split; · simp
    rcases outcome_cases (publicKey o k) with ⟨pk, hpk⟩ | ⟨e, he⟩ | ⟨s', hs⟩
    · rw [hpk]; simp only
      rcases outcome_cases (offsetScalar (o.hmac (chainCode k) (pk ++ natBE 4 i))) with ⟨il, hil⟩ | ⟨e, he⟩ | ⟨s', hs⟩
      · rw [hil]; simp only
        have hchild : (∃ c, childPoint a o il pk = .ok c) ∨ (∃ e, childPoint a o il pk = .err e) := by
          unfold childPoint
          split
          · split <;> simp
          · simp
        rcases hchild with ⟨c, hc⟩ | ⟨e, he⟩
        · rw [hc]; simp only
          split; · simp
          rename_i hid
          simp only [ok.ser_len c (by simpa using hid), ne_eq, not_true_eq_false, ↓reduceIte]
          have : ¬ depth k + 1 > 255 := by have := depth_le k; omega
          simp only [this, ↓reduceIte]
          exact newPublicKey_not_panic _ _ _ _ _ _ _
        · rw [he]; simp
      · rw [he]; simp
      · exact absurd hs (offsetScalar_not_panic _ _)
    · rw [he]; simp
    · exact absurd hs (publicKey_not_panic o ok _ _)
  · simp


/-! #### one step: model = BIP-32 -/

theorem okOf_err {α} (o : Outcome α) (h : ∃ e, o = .err e) : okOf o = none := by
  obtain ⟨e, rfl⟩ := h; rfl

theorem privI_len (ok : OpsOK o) (k : Nat) (c : Bytes) (i : Nat) : (privI (toParams o) k c i).length = 64 := by
  unfold privI; split <;> exact ok.hmac_len _ _

theorem pubI_len (ok : OpsOK o) (K : P) (c : Bytes) (i : Nat) : (pubI (toParams o) K c i).length = 64 := by
  unfold pubI; exact ok.hmac_len _ _

theorem serialize_depth (x : XKey P) (hx : XWF o x) : depth (serialize (toParams o) x) = x.depth := by
  rw [serialize_eq_lay, depth_lay, Nat.mod_eq_of_lt hx.depth]

theorem priv_step (ok : OpsOK o) (x : XKey P) (hx : XWF o x) (k : Nat) (hk : x.key = .priv k) (i : Nat)
    (hne : ¬ PrivEdge (toParams o) k x.chain i) :
    okOf (derivePrivateKey o (serialize (toParams o) x) i) = (childPriv (toParams o) x i).map (serialize (toParams o)) := by
  by_cases hd : x.depth = 255
  · rw [okOf_err _ (derivePrivateKey_depth255 o _ i (by rw [serialize_depth o x hx, hd]))]
    simp [childPriv, hk, hd]
  · rw [derivePrivateKey_serialize o ok x hx k hk hd i]
    have hlen := privI_len o ok k x.chain i
    have hdd : ¬ x.depth ≥ 255 := by have := hx.depth; omega
    unfold PrivEdge at hne
    rw [parse256_eq, n_eq] at hne
    unfold childPriv ckdPriv
    simp only [hk, hdd, ↓reduceIte, parse256_eq, n_eq]
    rcases hos : offsetScalar (privI (toParams o) k x.chain i) with il | e | st
    · obtain ⟨h0, hn, rfl⟩ := (offsetScalar_ok_iff _ hlen il).mp hos
      have hki : (beNat ((privI (toParams o) k x.chain i).take 32) + k) % n ≠ 0 := fun h => hne (Or.inr ⟨hn, h⟩)
      have hc : ¬ (beNat ((privI (toParams o) k x.chain i).take 32) ≥ n ∨
          (beNat ((privI (toParams o) k x.chain i).take 32) + k) % n = 0) := by
        rintro (h | h)
        · omega
        · exact hki h
      simp only [hc, ↓reduceIte, okOf, Option.map_some]
      rw [serialize_eq_lay]
      simp [XKey.isPrivate, keyBytes, Spec.Bip32.fingerprint, pubPoint, hk, toParams]
    · have hc : beNat ((privI (toParams o) k x.chain i).take 32) ≥ n ∨
          (beNat ((privI (toParams o) k x.chain i).take 32) + k) % n = 0 := by
        by_cases h : beNat ((privI (toParams o) k x.chain i).take 32) ≥ n
        · exact Or.inl h
        · exfalso
          have h0 : 0 < beNat ((privI (toParams o) k x.chain i).take 32) := by
            have : beNat ((privI (toParams o) k x.chain i).take 32) ≠ 0 := fun h => hne (Or.inl h)
            omega
          have := (offsetScalar_ok_iff _ hlen _).mpr ⟨h0, by omega, rfl⟩
          rw [hos] at this; cases this
      simp [hc, okOf]
    · exact absurd hos (offsetScalar_not_panic _ _)

/-- closed form of the repaired `derive_public_key` on a serialized key below the depth limit
    (a private parent is first replaced by its public key, as `ExtendedKey::public_key` does) -/
theorem derivePublicKey_serialize (ok : OpsOK o) (x : XKey P) (hx : XWF o x) (hd : x.depth ≠ 255) (i : Nat)
    (hi : i < HARDENED_KEY) :
    derivePublicKey true o (serialize (toParams o) x) i =
      match offsetScalar (pubI (toParams o) (pubPoint (toParams o) x) x.chain i) with
      | .ok il =>
        if o.isId (o.add (o.mulG il) (pubPoint (toParams o) x)) then .err "K256EcError" else
        .ok (lay (versionBytes x.net false) (x.depth + 1) ((o.hash160 (o.ser (pubPoint (toParams o) x))).take 4) i
              ((pubI (toParams o) (pubPoint (toParams o) x) x.chain i).drop 32)
              (o.ser (o.add (o.mulG il) (pubPoint (toParams o) x))))
      | .err e => .err e
      | .panic s => .panic s := by
  have hpk := publicKey_serialize o ok x hx
  have hparse := ok.parse_ser _ (pubPoint_ne_id o ok x hx)
  have hI : pubI (toParams o) (pubPoint (toParams o) x) x.chain i =
      o.hmac x.chain (o.ser (pubPoint (toParams o) x) ++ natBE 4 i) := by
    simp [pubI, toParams, ser32_eq]
  unfold derivePublicKey
  rw [hpk]
  rw [serialize_eq_lay] at *
  rw [network_lay, depth_lay, Nat.mod_eq_of_lt hx.depth, chainCode_lay _ _ _ _ _ _ hx.fp hx.chain]
  have hi' : ¬ i ≥ HARDENED_KEY := by omega
  simp only [hi', hd, ↓reduceIte]
  rw [← hI]
  rcases hos : offsetScalar (pubI (toParams o) (pubPoint (toParams o) x) x.chain i) with il | e | st
  · simp only [childPoint, ↓reduceIte, hparse]
    split
    · rfl
    · rename_i hid
      have hsl := ok.ser_len _ (by simpa using hid)
      have hlen := pubI_len o ok (pubPoint (toParams o) x) x.chain i
      have hd1 : ¬ x.depth + 1 > 255 := by have := hx.depth; omega
      simp only [hsl, ne_eq, not_true_eq_false, hd1, ↓reduceIte]
      rw [newPublicKey_lay _ _ _ _ _ _ (by simp [ok.hash_len]) (by simp [hlen]) hsl, pubVersion_netOf]
  · rfl
  · rfl

theorem toPublic_wf (ok : OpsOK o) (x : XKey P) (hx : XWF o x) : XWF o (toPublic (toParams o) x) :=
  ⟨hx.depth, hx.fp, hx.idx, hx.chain, by intro k hk; simp [toPublic] at hk,
   by intro K hK; simp [toPublic] at hK; rw [← hK]; exact pubPoint_ne_id o ok x hx⟩

theorem pub_step (ok : OpsOK o) (x : XKey P) (hx : XWF o x) (i : Nat)
    (hne : ¬ PubEdge (toParams o) (pubPoint (toParams o) x) x.chain i) :
    okOf (derivePublicKey true o (serialize (toParams o) x) i) =
      (childPub (toParams o) (toPublic (toParams o) x) i).map (serialize (toParams o)) := by
  by_cases hh : i ≥ HARDENED_KEY
  · rw [derivePublicKey_hardened o true _ i hh]
    have : Spec.Bip32.hardened i = true := by simpa [Spec.Bip32.hardened, HARDENED_KEY] using hh
    simp [okOf, childPub, toPublic, ckdPub, this]
  by_cases hd : x.depth = 255
  · rw [okOf_err _ (derivePublicKey_depth255 o true _ i (by rw [serialize_depth o x hx, hd]))]
    simp [childPub, toPublic, hd]
  · rw [derivePublicKey_serialize o ok x hx hd i (by omega)]
    have hlen := pubI_len o ok (pubPoint (toParams o) x) x.chain i
    have hdd : ¬ x.depth ≥ 255 := by have := hx.depth; omega
    have hnh : Spec.Bip32.hardened i = false := by simpa [Spec.Bip32.hardened, HARDENED_KEY] using hh
    unfold PubEdge at hne
    rw [parse256_eq] at hne
    unfold childPub ckdPub
    simp only [toPublic, hdd, hnh, ↓reduceIte, parse256_eq, n_eq, Bool.false_eq_true]
    rcases hos : offsetScalar (pubI (toParams o) (pubPoint (toParams o) x) x.chain i) with il | e | st
    · obtain ⟨h0, hn, rfl⟩ := (offsetScalar_ok_iff _ hlen il).mp hos
      have hnn : ¬ beNat ((pubI (toParams o) (pubPoint (toParams o) x) x.chain i).take 32) ≥ n := by omega
      simp only [hnn, false_or]
      by_cases hinf : o.isId (o.add (o.mulG (beNat ((pubI (toParams o) (pubPoint (toParams o) x) x.chain i).take 32)))
          (pubPoint (toParams o) x)) = true
      · have : (toParams o).isInfinity ((toParams o).add ((toParams o).point
            (beNat ((pubI (toParams o) (pubPoint (toParams o) x) x.chain i).take 32))) (pubPoint (toParams o) x)) = true := hinf
        simp [hinf, this, okOf]
      · have : ¬ (toParams o).isInfinity ((toParams o).add ((toParams o).point
            (beNat ((pubI (toParams o) (pubPoint (toParams o) x) x.chain i).take 32))) (pubPoint (toParams o) x)) = true := hinf
        simp only [hinf, this, ↓reduceIte, okOf, Option.map_some, Bool.false_eq_true]
        rw [serialize_eq_lay]
        simp [XKey.isPrivate, keyBytes, Spec.Bip32.fingerprint, pubPoint, toParams]
    · have hc : beNat ((pubI (toParams o) (pubPoint (toParams o) x) x.chain i).take 32) ≥ n := by
        by_cases h : beNat ((pubI (toParams o) (pubPoint (toParams o) x) x.chain i).take 32) ≥ n
        · exact h
        · exfalso
          have := (offsetScalar_ok_iff _ hlen _).mpr ⟨by omega, by omega, rfl⟩
          rw [hos] at this; cases this
      simp [hc, okOf]
    · exact absurd hos (offsetScalar_not_panic _ _)

/-- `extended_public_key` = `N`, keeping the position in the tree -/
theorem extendedPublicKey_serialize (ok : OpsOK o) (x : XKey P) (hx : XWF o x) :
    extendedPublicKey o (serialize (toParams o) x) = .ok (serialize (toParams o) (toPublic (toParams o) x)) := by
  cases hk : x.key with
  | pub K =>
    have : toPublic (toParams o) x = x := by
      cases x; simp_all [toPublic, pubPoint]
    rw [this, serialize_eq_lay]
    unfold extendedPublicKey
    have hp : x.isPrivate = false := by simp [XKey.isPrivate, hk]
    rw [hp, keyType_lay]; rfl
  | priv k =>
    have hr := hx.key k hk
    have hp : x.isPrivate = true := by simp [XKey.isPrivate, hk]
    rw [serialize_eq_lay, serialize_eq_lay]
    unfold extendedPublicKey
    rw [hp, keyType_lay, network_lay]
    simp only [↓reduceIte, hk, keyBytes]
    rw [privBytes_lay _ _ _ _ _ _ hx.fp hx.chain, secretKey_natBE k hr.1 hr.2, depth_lay, Nat.mod_eq_of_lt hx.depth,
      parentFingerprint_lay _ _ _ _ _ _ hx.fp, index_lay _ _ _ _ _ _ hx.fp, Nat.mod_eq_of_lt hx.idx,
      chainCode_lay _ _ _ _ _ _ hx.fp hx.chain]
    have hsl := ok.ser_len _ (ok.mulG_ne_id k hr.1 hr.2)
    simp only [hsl, ne_eq, not_true_eq_false, ↓reduceIte]
    rw [newPublicKey_lay _ _ _ _ _ _ hx.fp hx.chain hsl, pubVersion_netOf]
    simp [toPublic, XKey.isPrivate, keyBytes, pubPoint, hk, toParams]


/-! #### paths: errors and panics -/

theorem parseU32_not_panic (t : List Char) (st : String) : parseU32 t ≠ .panic st := by
  unfold parseU32
  split; · simp
  split; · simp
  split
  · split <;> simp
  · simp

theorem parseIndex_not_panic (v : Variant) (part : List Char) (st : String) : parseIndex v part ≠ .panic st := by
  unfold parseIndex
  split
  · unfold parseIndexStrict
    split; · simp
    rcases outcome_cases (parseU32 (indexDigits part)) with ⟨x, hx⟩ | ⟨e, he⟩ | ⟨s', hs⟩
    · rw [hx]; simp only
      split
      · split <;> simp
      · simp
    · rw [he]; simp
    · exact absurd hs (parseU32_not_panic _ _)
  · unfold parseIndexPinned
    split
    · rcases outcome_cases (parseU32 (trimEnd 'H' (trimEnd 'h' (trimEnd '\'' part)))) with ⟨x, hx⟩ | ⟨e, he⟩ | ⟨s', hs⟩
      · rw [hx]; simp only
        split <;> simp
      · rw [he]; simp
      · exact absurd hs (parseU32_not_panic _ _)
    · exact parseU32_not_panic _ _

theorem step_not_panic (v : Variant) (ok : OpsOK o) (kt : KeyType) (key : Bytes) (idx : Nat) (st : String) :
    deriveStep v o kt key idx ≠ .panic st := by
  cases kt
  · exact derivePublicKey_not_panic o _ ok _ _ _
  · exact derivePrivateKey_not_panic o ok _ _ _

theorem deriveLoop_not_panic (v : Variant) (ok : OpsOK o) (kt : KeyType) :
    ∀ (parts : List (List Char)) (key : Bytes) (st : String), deriveLoop v o kt key parts ≠ .panic st
  | [], key, st => by simp [deriveLoop]
  | part :: rest, key, st => by
    unfold deriveLoop
    split; · simp
    rcases outcome_cases (parseIndex v part) with ⟨idx, hx⟩ | ⟨e, he⟩ | ⟨s', hs⟩
    · rw [hx]; simp only
      rcases outcome_cases (deriveStep v o kt key idx) with ⟨k', hk⟩ | ⟨e, he⟩ | ⟨s', hs⟩
      · rw [hk]; exact deriveLoop_not_panic v ok kt rest k' st
      · rw [he]; simp
      · exact absurd hs (step_not_panic o v ok kt key idx s')
    · rw [he]; simp
    · exact absurd hs (parseIndex_not_panic _ _ _)

theorem pathStart_not_panic (v : Variant) (ok : OpsOK o) (master : Bytes) (p0 : List Char) (st : String) :
    pathStart v o master p0 ≠ .panic st := by
  unfold pathStart
  split
  · rcases keyType_cases master with hk | hk | hk <;> rw [hk] <;> simp
  · split; · simp
    split
    · rcases outcome_cases (extendedPublicKey o master) with ⟨x, hx⟩ | ⟨e, he⟩ | ⟨s', hs⟩
      · rw [hx]; simp [Outcome.map]
      · rw [he]; simp [Outcome.map]
      · exact absurd hs (extendedPublicKey_not_panic o ok _ _)
    · simp

/-- `derive_extended_key` never panics, whatever the master bytes and the path text -/
theorem deriveExtendedKey_not_panic (v : Variant) (ok : OpsOK o) (master : Bytes) (path : List Char) (st : String) :
    deriveExtendedKey v o master path ≠ .panic st := by
  unfold deriveExtendedKey
  rcases hsp : splitOn '/' path with _ | ⟨p0, rest⟩
  · exact absurd hsp (splitOn_ne_nil _ _)
  · simp only
    rcases outcome_cases (pathStart v o master p0) with ⟨⟨kt, key⟩, hx⟩ | ⟨e, he⟩ | ⟨s', hs⟩
    · rw [hx]; exact deriveLoop_not_panic o v ok kt rest key st
    · rw [he]; simp
    · exact absurd hs (pathStart_not_panic o v ok _ _ _)

theorem map_err {α β} (f : α → β) (r : Outcome α) (e : String) (h : r.map f = .err e) : r = .err e := by
  cases r <;> simp_all [Outcome.map]

theorem deriveLoop_err_of_syntax (v : Variant) (ok : OpsOK o) (kt : KeyType) :
    ∀ (parts : List (List Char)) (key : Bytes) (e : String), parseParts v parts = .err e →
      ∃ e', deriveLoop v o kt key parts = .err e'
  | [], key, e, h => by simp [parseParts] at h
  | part :: rest, key, e, h => by
    unfold parseParts at h
    unfold deriveLoop
    split
    · exact ⟨_, rfl⟩
    · rename_i hne
      simp only [hne, ↓reduceIte] at h
      rcases outcome_cases (parseIndex v part) with ⟨idx, hx⟩ | ⟨e1, he⟩ | ⟨s', hs⟩
      · rw [hx] at h ⊢; simp only at h ⊢
        have hr := map_err _ _ _ h
        rcases outcome_cases (deriveStep v o kt key idx) with ⟨k', hk⟩ | ⟨e2, he⟩ | ⟨s', hs⟩
        · rw [hk]; exact deriveLoop_err_of_syntax v ok kt rest k' e hr
        · rw [he]; exact ⟨_, rfl⟩
        · exact absurd hs (step_not_panic o v ok kt key idx s')
      · rw [he]; exact ⟨_, rfl⟩
      · exact absurd hs (parseIndex_not_panic _ _ _)

/-- a path with a syntax error is rejected with an error, whatever the master -/
theorem deriveExtendedKey_err_of_syntax (v : Variant) (ok : OpsOK o) (master : Bytes) (path : List Char) (e : String)
    (h : parsePath v path = .err e) : ∃ e', deriveExtendedKey v o master path = .err e' := by
  unfold parsePath at h
  unfold deriveExtendedKey
  rcases hsp : splitOn '/' path with _ | ⟨p0, rest⟩
  · exact absurd hsp (splitOn_ne_nil _ _)
  · rw [hsp] at h
    simp only at h ⊢
    rcases outcome_cases (pathStart v o master p0) with ⟨⟨kt, key⟩, hx⟩ | ⟨e1, he⟩ | ⟨s', hs⟩
    · rw [hx]; simp only
      split at h
      · exact deriveLoop_err_of_syntax o v ok kt rest key e (map_err _ _ _ h)
      · split at h
        · exact deriveLoop_err_of_syntax o v ok kt rest key e (map_err _ _ _ h)
        · rename_i h1 h2
          simp [pathStart, h1, h2] at hx
    · rw [he]; exact ⟨_, rfl⟩
    · exact absurd hs (pathStart_not_panic o v ok _ _ _)


/-! #### paths: model = BIP-32 -/

open CG.Spec.Bip32 (foldPriv foldPub derive)

/-- no step of the private derivation of `idxs` from `x` hits one of the two unreachable events -/
def NoEdgePriv (E : Params P) : XKey P → List Nat → Prop
  | _, [] => True
  | x, i :: r => (∀ k, x.key = .priv k → ¬ PrivEdge E k x.chain i) ∧ ∀ y, childPriv E x i = some y → NoEdgePriv E y r

def NoEdgePub (E : Params P) : XKey P → List Nat → Prop
  | _, [] => True
  | x, i :: r => ¬ PubEdge E (pubPoint E x) x.chain i ∧ ∀ y, childPub E x i = some y → NoEdgePub E y r

theorem okOf_some {α} (r : Outcome α) (b : α) (h : okOf r = some b) : r = .ok b := by
  cases r <;> simp_all [okOf]

theorem okOf_none {α} (r : Outcome α) (h : okOf r = none) (hp : ∀ st, r ≠ .panic st) : ∃ e, r = .err e := by
  cases r with
  | ok a => simp [okOf] at h
  | err e => exact ⟨e, rfl⟩
  | panic st => exact absurd rfl (hp st)

theorem spec_n_pos : 0 < Spec.Bip32.n := by decide

theorem childPriv_wf (ok : OpsOK o) (x y : XKey P) (hx : XWF o x) (i : Nat) (hi : i < 2 ^ 32)
    (h : childPriv (toParams o) x i = some y) : XWF o y ∧ ∃ k', y.key = .priv k' := by
  unfold childPriv at h
  cases hk : x.key with
  | pub K => simp [hk] at h
  | priv k =>
    simp only [hk] at h
    split at h
    · simp at h
    · rename_i hd
      cases hc : ckdPriv (toParams o) k x.chain i with
      | none => simp [hc] at h
      | some r =>
        obtain ⟨ki, ci⟩ := r
        simp only [hc, Option.some.injEq] at h
        subst h
        unfold ckdPriv at hc
        simp only at hc
        split at hc
        · simp at hc
        · rename_i hcond
          simp only [Option.some.injEq, Prod.mk.injEq] at hc
          obtain ⟨rfl, rfl⟩ := hc
          have hlen := privI_len o ok k x.chain i
          refine ⟨⟨by simp only; omega, by simp [Spec.Bip32.fingerprint, toParams, ok.hash_len], hi, by simp [hlen], ?_, ?_⟩, _, rfl⟩
          · intro k' hk'
            simp only [KeyMat.priv.injEq] at hk'
            subst hk'
            rw [← n_eq]
            have := Nat.mod_lt (Spec.Bip32.parse256 ((privI (toParams o) k x.chain i).take 32) + k) spec_n_pos
            have h0 : (Spec.Bip32.parse256 ((privI (toParams o) k x.chain i).take 32) + k) % Spec.Bip32.n ≠ 0 :=
              fun h => hcond (Or.inr h)
            omega
          · intro K hK; simp at hK

theorem childPub_wf (ok : OpsOK o) (x y : XKey P) (hx : XWF o x) (i : Nat) (hi : i < 2 ^ 32)
    (h : childPub (toParams o) x i = some y) : XWF o y ∧ ∃ K', y.key = .pub K' := by
  unfold childPub at h
  cases hk : x.key with
  | priv k => simp [hk] at h
  | pub K =>
    simp only [hk] at h
    split at h
    · simp at h
    · rename_i hd
      cases hc : ckdPub (toParams o) K x.chain i with
      | none => simp [hc] at h
      | some r =>
        obtain ⟨Ki, ci⟩ := r
        simp only [hc, Option.some.injEq] at h
        subst h
        unfold ckdPub at hc
        split at hc
        · simp at hc
        · simp only at hc
          split at hc
          · simp at hc
          · rename_i hcond
            simp only [Option.some.injEq, Prod.mk.injEq] at hc
            obtain ⟨rfl, rfl⟩ := hc
            have hlen := pubI_len o ok K x.chain i
            refine ⟨⟨by simp only; omega, by simp [Spec.Bip32.fingerprint, toParams, ok.hash_len], hi, by simp [hlen], ?_, ?_⟩, _, rfl⟩
            · intro k' hk'; simp at hk'
            · intro K' hK'
              simp only [KeyMat.pub.injEq] at hK'
              subst hK'
              have : ¬ (toParams o).isInfinity ((toParams o).add ((toParams o).point
                  (Spec.Bip32.parse256 ((pubI (toParams o) K x.chain i).take 32))) K) = true := fun h => hcond (Or.inr h)
              simpa [toParams] using this

theorem parseParts_cons_ok (v : Variant) (part : List Char) (rest : List (List Char)) (idxs : List Nat)
    (h : parseParts v (part :: rest) = .ok idxs) :
    part ≠ [] ∧ ∃ idx l, parseIndex v part = .ok idx ∧ parseParts v rest = .ok l ∧ idxs = idx :: l := by
  unfold parseParts at h
  split at h
  · simp at h
  · rename_i hne
    refine ⟨hne, ?_⟩
    rcases outcome_cases (parseIndex v part) with ⟨idx, hx⟩ | ⟨e, he⟩ | ⟨s', hs⟩
    · rw [hx] at h; simp only at h
      obtain ⟨l, hl, rfl⟩ := (map_ok_iff _ _ _).mp h
      exact ⟨idx, l, hx, hl, rfl⟩
    · rw [he] at h; simp at h
    · rw [hs] at h; simp at h

theorem parseIndex_repaired_lt (part : List Char) (idx : Nat) (h : parseIndex repaired part = .ok idx) : idx < 2 ^ 32 := by
  obtain ⟨c, hwf, -, rfl⟩ := (parseIndexStrict_ok_iff part idx).mp h
  obtain ⟨digits, marker⟩ := c
  obtain ⟨-, -, hm⟩ := hwf
  cases marker with
  | none => simpa [Comp.childNumber] using hm
  | some m => simp only at hm; simp only [Comp.childNumber]; omega

theorem loop_priv (ok : OpsOK o) : ∀ (parts : List (List Char)) (idxs : List Nat) (x : XKey P),
    parseParts repaired parts = .ok idxs → XWF o x → (∃ k, x.key = .priv k) → NoEdgePriv (toParams o) x idxs →
    okOf (deriveLoop repaired o .priv (serialize (toParams o) x) parts) =
      (foldPriv (toParams o) x idxs).map (serialize (toParams o))
  | [], idxs, x, hp, _, _, _ => by
    simp [parseParts] at hp; subst hp
    simp [deriveLoop, okOf, foldPriv]
  | part :: rest, idxs, x, hp, hx, ⟨k, hk⟩, hne => by
    obtain ⟨hpne, idx, l, hidx, hl, rfl⟩ := parseParts_cons_ok _ _ _ _ hp
    have hlt := parseIndex_repaired_lt part idx hidx
    obtain ⟨hne1, hne2⟩ := hne
    have hstep := priv_step o ok x hx k hk idx (hne1 k hk)
    unfold deriveLoop foldPriv
    simp only [hpne, ↓reduceIte, hidx, deriveStep]
    cases hc : childPriv (toParams o) x idx with
    | none =>
      rw [hc] at hstep
      obtain ⟨e, he⟩ := okOf_none _ hstep (derivePrivateKey_not_panic o ok _ _)
      rw [he]; rfl
    | some y =>
      rw [hc] at hstep
      rw [okOf_some _ _ hstep]
      obtain ⟨hy, hky⟩ := childPriv_wf o ok x y hx idx hlt hc
      exact loop_priv ok rest l y hl hy hky (hne2 y hc)

theorem loop_pub (ok : OpsOK o) : ∀ (parts : List (List Char)) (idxs : List Nat) (x : XKey P),
    parseParts repaired parts = .ok idxs → XWF o x → (∃ K, x.key = .pub K) → NoEdgePub (toParams o) x idxs →
    okOf (deriveLoop repaired o .pub (serialize (toParams o) x) parts) =
      (foldPub (toParams o) x idxs).map (serialize (toParams o))
  | [], idxs, x, hp, _, _, _ => by
    simp [parseParts] at hp; subst hp
    simp [deriveLoop, okOf, foldPub]
  | part :: rest, idxs, x, hp, hx, ⟨K, hK⟩, hne => by
    obtain ⟨hpne, idx, l, hidx, hl, rfl⟩ := parseParts_cons_ok _ _ _ _ hp
    have hlt := parseIndex_repaired_lt part idx hidx
    obtain ⟨hne1, hne2⟩ := hne
    have hself : toPublic (toParams o) x = x := by
      cases x; simp_all [toPublic, pubPoint]
    have hstep := pub_step o ok x hx idx hne1
    rw [hself] at hstep
    unfold deriveLoop foldPub
    simp only [hpne, ↓reduceIte, hidx, deriveStep]
    have hr : repaired.ckdpubAddsParent = true := rfl
    rw [hr]
    cases hc : childPub (toParams o) x idx with
    | none =>
      rw [hc] at hstep
      obtain ⟨e, he⟩ := okOf_none _ hstep (derivePublicKey_not_panic o true ok _ _)
      rw [he]; rfl
    | some y =>
      rw [hc] at hstep
      rw [okOf_some _ _ hstep]
      obtain ⟨hy, hky⟩ := childPub_wf o ok x y hx idx hlt hc
      exact loop_pub ok rest l y hl hy hky (hne2 y hc)

/-- side condition of `path_eq_spec`: no step on the way hits `I_L = 0` / `k_i = 0` -/
def NoEdge (E : Params P) (x : XKey P) (kt : KeyType) (idxs : List Nat) : Prop :=
  match kt with
  | .priv => NoEdgePriv E x idxs
  | .pub => NoEdgePub E (toPublic E x) idxs

theorem path_eq_spec (ok : OpsOK o) (x : XKey P) (hx : XWF o x) (path : List Char) (kt : KeyType) (idxs : List Nat)
    (hp : parsePath repaired path = .ok (kt, idxs)) (hne : NoEdge (toParams o) x kt idxs) :
    okOf (deriveExtendedKey repaired o (serialize (toParams o) x) path) =
      (derive (toParams o) x (decide (kt = .priv)) idxs).map (serialize (toParams o)) := by
  unfold parsePath at hp
  unfold deriveExtendedKey
  rcases hsp : splitOn '/' path with _ | ⟨p0, rest⟩
  · exact absurd hsp (splitOn_ne_nil _ _)
  · rw [hsp] at hp
    simp only at hp ⊢
    split at hp
    · rename_i hp0
      obtain ⟨l, hl, heq⟩ := (map_ok_iff _ _ _).mp hp
      simp only [Prod.mk.injEq] at heq
      obtain ⟨rfl, rfl⟩ := heq
      unfold pathStart
      simp only [hp0, ↓reduceIte, derive, decide_true]
      rw [serialize_eq_lay, keyType_lay, ← serialize_eq_lay]
      cases hk : x.key with
      | pub K =>
        have : x.isPrivate = false := by simp [XKey.isPrivate, hk]
        simp [this, okOf]
      | priv k =>
        have : x.isPrivate = true := by simp [XKey.isPrivate, hk]
        simp only [this, ↓reduceIte]
        exact loop_priv o ok rest idxs x hl hx ⟨k, hk⟩ hne
    · split at hp
      · rename_i hp0' hp0
        obtain ⟨l, hl, heq⟩ := (map_ok_iff _ _ _).mp hp
        simp only [Prod.mk.injEq] at heq
        obtain ⟨rfl, rfl⟩ := heq
        unfold pathStart
        have h1 : ¬ p0 = ['m'] := hp0'
        have h2 : ¬ p0 ≠ ['M'] := by simp [hp0]
        simp only [h1, h2, ↓reduceIte, repaired, derive]
        rw [extendedPublicKey_serialize o ok x hx]
        simp only [Outcome.map]
        have hd : decide (KeyType.pub = KeyType.priv) = false := by decide
        simp only [hd, Bool.false_eq_true, ↓reduceIte]
        exact loop_pub o ok rest idxs _ hl (toPublic_wf o ok x hx) ⟨_, rfl⟩ hne
      · simp at hp


end steps

/-! ### public and private derivation commute -/

section commute
variable {P : Type}
open CG.Spec.Bip32 (neuter hardened)

/-- the group facts used by the commutation theorem: `(a+b)·G = a·G + b·G`, `n·G = 0·G`, and
    `m·G` is the point at infinity only for `m = 0` when `m < n` (the order of `G` is exactly `n`) -/
structure GroupLaws (E : Params P) : Prop where
  point_add : ∀ a b, E.point (a + b) = E.add (E.point a) (E.point b)
  point_n : E.point Spec.Bip32.n = E.point 0
  inf_iff : ∀ m, m < Spec.Bip32.n → (E.isInfinity (E.point m) = true ↔ m = 0)

theorem point_mul_add (E : Params P) (L : GroupLaws E) : ∀ (q r : Nat), E.point (Spec.Bip32.n * q + r) = E.point r
  | 0, r => by simp
  | q + 1, r => by
    have h : Spec.Bip32.n * (q + 1) + r = Spec.Bip32.n * q + (Spec.Bip32.n + r) := by
      rw [Nat.mul_succ]; omega
    rw [h, point_mul_add E L q, L.point_add, L.point_n, ← L.point_add, Nat.zero_add]

theorem point_mod (E : Params P) (L : GroupLaws E) (a : Nat) : E.point (a % Spec.Bip32.n) = E.point a := by
  conv => rhs; rw [← Nat.div_add_mod a Spec.Bip32.n]
  rw [point_mul_add E L]

/-- `N(CKDpriv((k, c), i)) = CKDpub(N(k, c), i)` for every non-hardened `i` -/
theorem ckd_commute (E : Params P) (L : GroupLaws E) (k : Nat) (c : Bytes) (i : Nat) (hi : hardened i = false) :
    (ckdPriv E k c i).map (fun r => neuter E r.1 r.2) = ckdPub E (E.point k) c i := by
  have hI : privI E k c i = pubI E (E.point k) c i := by simp [privI, pubI, hi]
  unfold ckdPriv ckdPub
  simp only [hi, Bool.false_eq_true, ↓reduceIte, hI]
  have hK : E.add (E.point (Spec.Bip32.parse256 ((pubI E (E.point k) c i).take 32))) (E.point k) =
      E.point ((Spec.Bip32.parse256 ((pubI E (E.point k) c i).take 32) + k) % Spec.Bip32.n) := by
    rw [point_mod E L, L.point_add]
  rw [hK]
  have hlt := Nat.mod_lt (Spec.Bip32.parse256 ((pubI E (E.point k) c i).take 32) + k) spec_n_pos
  by_cases h1 : Spec.Bip32.parse256 ((pubI E (E.point k) c i).take 32) ≥ Spec.Bip32.n
  · simp [h1]
  · by_cases h2 : (Spec.Bip32.parse256 ((pubI E (E.point k) c i).take 32) + k) % Spec.Bip32.n = 0
    · have hinf : E.isInfinity (E.point 0) = true := (L.inf_iff 0 spec_n_pos).mpr rfl
      simp [h2, hinf]
    · have : ¬ E.isInfinity (E.point ((Spec.Bip32.parse256 ((pubI E (E.point k) c i).take 32) + k) % Spec.Bip32.n)) = true :=
        fun h => h2 ((L.inf_iff _ hlt).mp h)
      simp [h1, h2, this, neuter]

theorem toPublic_toPublic (E : Params P) (x : XKey P) : toPublic E (toPublic E x) = toPublic E x := by
  simp [toPublic, pubPoint]

/-- the same with the position in the tree: depth, parent fingerprint, child number, chain code -/
theorem child_commute (E : Params P) (L : GroupLaws E) (x : XKey P) (k : Nat) (hk : x.key = .priv k) (i : Nat)
    (hi : hardened i = false) :
    (childPriv E x i).map (toPublic E) = childPub E (toPublic E x) i := by
  have hc := ckd_commute E L k x.chain i hi
  unfold childPriv childPub
  simp only [hk, toPublic, pubPoint]
  split
  · rfl
  · cases h1 : ckdPriv E k x.chain i with
    | none => rw [h1] at hc; simp at hc; simp [← hc]
    | some r =>
      obtain ⟨ki, ci⟩ := r
      rw [h1] at hc; simp at hc
      simp [← hc, neuter, toPublic, pubPoint, Spec.Bip32.fingerprint, hk]

variable (o : Ops P)

/-- on the model of the (repaired) code: deriving the child private key and taking its public form
    gives the same extended public key as deriving the child from the parent's extended public key -/
theorem model_commute (ok : OpsOK o) (L : GroupLaws (toParams o)) (x : XKey P) (hx : XWF o x) (k : Nat)
    (hk : x.key = .priv k) (i : Nat) (hi : i < HARDENED_KEY) (hne : ¬ PrivEdge (toParams o) k x.chain i) :
    (derivePrivateKey o (serialize (toParams o) x) i).bind (extendedPublicKey o) =
      (extendedPublicKey o (serialize (toParams o) x)).bind (fun xp => derivePublicKey true o xp i) ∨
    (∃ e e', (derivePrivateKey o (serialize (toParams o) x) i).bind (extendedPublicKey o) = .err e ∧
      (extendedPublicKey o (serialize (toParams o) x)).bind (fun xp => derivePublicKey true o xp i) = .err e') := by
  have hh : hardened i = false := by simpa [hardened, HARDENED_KEY] using hi
  have hlt : i < 2 ^ 32 := by simp [HARDENED_KEY] at hi; omega
  have hI : privI (toParams o) k x.chain i = pubI (toParams o) ((toParams o).point k) x.chain i := by
    simp [privI, pubI, hh]
  have hpp : pubPoint (toParams o) (toPublic (toParams o) x) = (toParams o).point k := by simp [toPublic, pubPoint, hk]
  have hpe : ¬ PubEdge (toParams o) (pubPoint (toParams o) (toPublic (toParams o) x)) (toPublic (toParams o) x).chain i := by
    intro h; apply hne; left
    unfold PubEdge at h
    rw [hpp] at h
    rw [hI]; exact h
  have h1 := priv_step o ok x hx k hk i hne
  have h2 := pub_step o ok _ (toPublic_wf o ok x hx) i hpe
  rw [toPublic_toPublic, ← child_commute _ L x k hk i hh] at h2
  rw [extendedPublicKey_serialize o ok x hx]
  simp only [Outcome.bind]
  cases hc : childPriv (toParams o) x i with
  | none =>
    rw [hc] at h1 h2
    obtain ⟨e, he⟩ := okOf_none _ h1 (derivePrivateKey_not_panic o ok _ _)
    obtain ⟨e', he'⟩ := okOf_none _ h2 (derivePublicKey_not_panic o true ok _ _)
    right; exact ⟨e, e', by rw [he], he'⟩
  | some y =>
    rw [hc] at h1 h2
    have hy := (childPriv_wf o ok x y hx i hlt hc).1
    left
    rw [okOf_some _ _ h1, okOf_some _ _ h2]
    simp only [Option.map_some]
    exact extendedPublicKey_serialize o ok y hy

end commute


/-! ### hardened step on a public path; toy parameters for witnesses -/

section extras
open CG.Spec.Bip32 (Params XKey KeyMat)

theorem deriveLoop_pub_hardened {P : Type} (o : Ops P) (ok : OpsOK o) (v : Variant) :
    ∀ (parts : List (List Char)) (idxs : List Nat) (key : Bytes), parseParts v parts = .ok idxs →
      (∃ i ∈ idxs, i ≥ 2 ^ 31) → ∃ e, deriveLoop v o .pub key parts = .err e
  | [], idxs, key, hp, h => by
    simp [parseParts] at hp; subst hp; simp at h
  | part :: rest, idxs, key, hp, h => by
    obtain ⟨hpne, idx, l, hidx, hl, rfl⟩ := parseParts_cons_ok _ _ _ _ hp
    unfold deriveLoop
    simp only [hpne, ↓reduceIte, hidx]
    by_cases hh : idx ≥ 2 ^ 31
    · have : deriveStep v o .pub key idx = .err "BadArgument" :=
        derivePublicKey_hardened o _ key idx (by simpa [HARDENED_KEY] using hh)
      rw [this]; exact ⟨_, rfl⟩
    · have h' : ∃ i ∈ l, i ≥ 2 ^ 31 := by
        obtain ⟨i, hi, hge⟩ := h
        rcases List.mem_cons.mp hi with rfl | hi
        · exact absurd hge hh
        · exact ⟨i, hi, hge⟩
      rcases outcome_cases (deriveStep v o .pub key idx) with ⟨k', hk⟩ | ⟨e, he⟩ | ⟨s', hs⟩
      · rw [hk]; exact deriveLoop_pub_hardened o ok v rest l k' hl h'
      · rw [he]; exact ⟨_, rfl⟩
      · exact absurd hs (step_not_panic o v ok .pub key idx s')

/-- toy parameters for witnesses and non-vacuity: the group `ℤ/n`, `G = 1`, a "point" serialised as
    `02 ‖ ser256`, an HMAC that returns a fixed `I` with `I_L = il` -/
theorem n_pos : 0 < n := by decide

def toyPoint (x : Nat) : Fin n := ⟨x % n, Nat.mod_lt _ n_pos⟩

def toyOps (il : Nat) : Ops (Fin n) where
  hmac := fun _ _ => natBE 32 il ++ List.replicate 32 7
  hash160 := fun _ => List.replicate 20 9
  mulG := toyPoint
  add := fun a b => toyPoint (a.val + b.val)
  isId := fun p => p.val == 0
  ser := fun p => 2 :: natBE 32 p.val
  parse := fun b => some (toyPoint (beNat (b.drop 1)))

def toyKey (key : KeyMat (Fin n)) : XKey (Fin n) :=
  { net := .main, depth := 0, parentFp := [0, 0, 0, 0], childNum := 0, chain := List.replicate 32 1, key := key }

theorem toyOps_ok (il : Nat) : OpsOK (toyOps il) where
  ser_len := by intro p _; simp [toyOps]
  mulG_ne_id := by
    intro x h0 hn
    simp only [toyOps, toyPoint, beq_eq_false_iff_ne, ne_eq]
    rw [Nat.mod_eq_of_lt hn]; omega
  parse_ser := by
    intro p _
    have hp := p.isLt
    have h256 : n < 256 ^ 32 := by decide
    simp only [toyOps, List.drop_succ_cons, List.drop_zero, beNat_natBE, toyPoint, Option.some.injEq]
    apply Fin.ext
    simp only
    rw [Nat.mod_eq_of_lt (show p.val < 256 ^ 32 by omega), Nat.mod_eq_of_lt hp]
  hmac_len := by intro k m; simp [toyOps]
  hash_len := by intro b; simp [toyOps]


theorem toyKey_wf (il : Nat) (key : KeyMat (Fin n)) (hk : ∀ k, key = .priv k → 0 < k ∧ k < n)
    (hK : ∀ K, key = .pub K → K.val ≠ 0) : XWF (toyOps il) (toyKey key) where
  depth := by simp [toyKey]
  fp := rfl
  idx := by simp [toyKey]
  chain := by simp [toyKey]
  key := hk
  pubkey := by intro K h; simpa [toyOps] using hK K h

theorem toy_groupLaws (il : Nat) : GroupLaws (toParams (toyOps il)) where
  point_add := by
    intro a b
    apply Fin.ext
    simp [toParams, toyOps, toyPoint, Nat.add_mod]
  point_n := by
    apply Fin.ext
    simp [toParams, toyOps, toyPoint, n_eq]
  inf_iff := by
    intro m hm
    rw [n_eq] at hm
    simp [toParams, toyOps, toyPoint, Nat.mod_eq_of_lt hm]

end extras

end CG.Proofs.Bip32

import CG.Model.Sighash
import CG.Spec.LegacySighash
/-! Helper lemmas for C02: the sub-script selection of `extract_subscript` against the specification. -/
namespace CG.Proofs.Subscript
open CG CG.Model.Sighash
open CG.Spec.Bip143 (Op parse parseScript flatten selectFrom scriptCodeOps bodyLen)

/-- the model's `next_op` and the specification's operation format cut the same number of bytes -/
theorem opLen_eq (b : UInt8) (r : Bytes) : opLen (b :: r) = 1 + min (bodyLen b r) r.length := by
  unfold opLen bodyLen
  simp only [List.length_cons]
  by_cases h1 : 1 ≤ b.toNat ∧ b.toNat ≤ 75
  · simp only [h1, and_self, if_true]
    split <;> omega
  · simp only [h1, if_false]
    by_cases h2 : b.toNat = 76
    · simp only [h2, if_true]
      rcases r with _ | ⟨l0, t⟩
      · simp
      · simp [leToNat]; split <;> omega
    · simp only [h2, if_false]
      by_cases h3 : b.toNat = 77
      · simp only [h3, if_true]
        rcases r with _ | ⟨l0, _ | ⟨l1, t⟩⟩
        · simp
        · simp
        · have hlt : ¬ (t.length + 1 + 1 < 2) := by omega
          simp [leToNat, hlt]; split <;> omega
      · simp only [h3, if_false]
        by_cases h4 : b.toNat = 78
        · simp only [h4, if_true]
          rcases r with _ | ⟨l0, _ | ⟨l1, _ | ⟨l2, _ | ⟨l3, t⟩⟩⟩⟩
          · simp
          · simp
          · simp
          · simp
          · have hlt : ¬ (t.length + 1 + 1 + 1 + 1 < 4) := by omega
            simp [leToNat, hlt]; split <;> omega
        · simp only [h4, if_false]
          split <;> omega

def notSep (o : Op) : Bool := !o.isSep

/-- `l` is a list of operations as a parser cuts them: each body is exactly what the format assigns to
    its opcode given the bytes that follow -/
def Wf : List Op → Prop
  | [] => True
  | op :: t => op.body.length = min (bodyLen op.code (op.body ++ flatten t)) (op.body ++ flatten t).length ∧ Wf t

theorem flatten_cons (op : Op) (t : List Op) : flatten (op :: t) = op.code :: (op.body ++ flatten t) := by
  simp [flatten, Op.bytes]

theorem flatten_append (a b : List Op) : flatten (a ++ b) = flatten a ++ flatten b := by
  simp [flatten]

theorem parse_spec : ∀ (fuel : Nat) (code : Bytes), code.length ≤ fuel →
    flatten (parse fuel code) = code ∧ Wf (parse fuel code) := by
  intro fuel
  induction fuel with
  | zero =>
    intro code h
    have : code = [] := List.eq_nil_of_length_eq_zero (by omega)
    subst this
    simp [parse, flatten, Wf]
  | succ fuel ih =>
    intro code h
    cases code with
    | nil => simp [parse, flatten, Wf]
    | cons b r =>
      simp only [parse]
      have hlen : (r.drop (min (bodyLen b r) r.length)).length ≤ fuel := by
        simp only [List.length_drop]; simp only [List.length_cons] at h; omega
      obtain ⟨h1, h2⟩ := ih _ hlen
      constructor
      · rw [flatten_cons, h1]
        simp
      · simp only [Wf, h1, List.take_append_drop, List.length_take]
        refine ⟨?_, h2⟩
        omega

theorem wf_suffix : ∀ (a b : List Op), Wf (a ++ b) → Wf b := by
  intro a
  induction a with
  | nil => intro b h; exact h
  | cons op t ih => intro b h; exact ih b h.2

theorem length_le_flatten : ∀ l : List Op, l.length ≤ (flatten l).length := by
  intro l
  induction l with
  | nil => simp [flatten]
  | cons op t ih => rw [flatten_cons]; simp only [List.length_cons, List.length_append]; omega

/-- the copy loop on a well-cut operation list drops exactly the separator operations -/
theorem removeSeps_flatten : ∀ (l : List Op) (fuel : Nat), Wf l → l.length ≤ fuel →
    removeSeps fuel (flatten l) = flatten (l.filter notSep) := by
  intro l
  induction l with
  | nil => intro fuel _ _; cases fuel <;> simp [removeSeps, flatten]
  | cons op t ih =>
    intro fuel hw hf
    cases fuel with
    | zero => simp at hf
    | succ fuel =>
      obtain ⟨hb, hwt⟩ := hw
      rw [flatten_cons]
      simp only [removeSeps]
      rw [opLen_eq, ← hb]
      have htake : (op.code :: (op.body ++ flatten t)).take (1 + op.body.length) = op.code :: op.body := by
        rw [Nat.add_comm]; simp
      have hdrop : (op.code :: (op.body ++ flatten t)).drop (1 + op.body.length) = flatten t := by
        rw [Nat.add_comm]; simp
      rw [htake, hdrop, ih fuel hwt (by simpa using hf)]
      by_cases hs : op.code = OP_CODESEPARATOR
      · have : notSep op = false := by simp [notSep, Op.isSep, hs, OP_CODESEPARATOR]
        simp [hs, this]
      · have : notSep op = true := by
          simp only [notSep, Op.isSep, Bool.not_eq_true', decide_eq_false_iff_not]
          exact hs
        simp [hs, this, flatten_cons]

/-! ### raw positions against operation offsets -/

/-- offsets (from `off`) of the operations whose opcode is `x` -/
def offsets (x : UInt8) : Nat → List Op → List Nat
  | _, [] => []
  | off, op :: t => (if op.code = x then [off] else []) ++ offsets x (off + 1 + op.body.length) t

theorem findAllFrom_append (x : UInt8) : ∀ (a b : Bytes) (off : Nat),
    findAllFrom x off (a ++ b) = findAllFrom x off a ++ findAllFrom x (off + a.length) b := by
  intro a
  induction a with
  | nil => intro b off; simp [findAllFrom]
  | cons y t ih =>
    intro b off
    simp only [List.cons_append, findAllFrom, List.length_cons]
    rw [ih b (off + 1)]
    have : off + 1 + t.length = off + (t.length + 1) := by omega
    rw [this]
    split <;> simp

theorem findAllFrom_none (x : UInt8) : ∀ (a : Bytes) (off : Nat), (∀ y ∈ a, y ≠ x) → findAllFrom x off a = [] := by
  intro a
  induction a with
  | nil => intro off _; rfl
  | cons y t ih =>
    intro off h
    have hy : y ≠ x := h y (by simp)
    simp only [findAllFrom, hy, if_false]
    exact ih (off + 1) (fun z hz => h z (by simp [hz]))

/-- no byte of any operation body has value `x` -/
def NoRaw (x : UInt8) (l : List Op) : Prop := ∀ op ∈ l, ∀ y ∈ op.body, y ≠ x

theorem findAllFrom_flatten (x : UInt8) : ∀ (l : List Op) (off : Nat), NoRaw x l →
    findAllFrom x off (flatten l) = offsets x off l := by
  intro l
  induction l with
  | nil => intro off _; simp [flatten, findAllFrom, offsets]
  | cons op t ih =>
    intro off h
    rw [flatten_cons]
    simp only [findAllFrom, offsets]
    rw [findAllFrom_append, findAllFrom_none x op.body (off + 1) (h op (by simp)),
      ih (off + 1 + op.body.length) (fun o ho => h o (by simp [ho]))]
    split <;> simp

theorem offsets_append (x : UInt8) : ∀ (a b : List Op) (off : Nat),
    offsets x off (a ++ b) = offsets x off a ++ offsets x (off + (flatten a).length) b := by
  intro a
  induction a with
  | nil => intro b off; simp [offsets, flatten]
  | cons op t ih =>
    intro b off
    simp only [List.cons_append, offsets, ih, flatten_cons, List.length_cons, List.length_append,
      List.append_assoc]
    congr 3
    omega

theorem offsets_bounds (x : UInt8) : ∀ (l : List Op) (off : Nat), ∀ p ∈ offsets x off l,
    off ≤ p ∧ p < off + (flatten l).length := by
  intro l
  induction l with
  | nil => intro off p h; simp [offsets] at h
  | cons op t ih =>
    intro off p h
    simp only [offsets, List.mem_append] at h
    rw [flatten_cons]
    simp only [List.length_cons, List.length_append]
    rcases h with h | h
    · split at h
      · simp at h; omega
      · simp at h
    · have := ih _ p h
      omega

theorem offsets_nil_of (x : UInt8) : ∀ (l : List Op) (off : Nat), (∀ op ∈ l, op.code ≠ x) → offsets x off l = [] := by
  intro l
  induction l with
  | nil => intro off _; rfl
  | cons op t ih =>
    intro off h
    simp only [offsets, h op (by simp), if_false, List.nil_append]
    exact ih _ (fun o ho => h o (by simp [ho]))

theorem offsets_length (x : UInt8) : ∀ (l : List Op) (off : Nat),
    (offsets x off l).length = (l.filter (fun o => o.code = x)).length := by
  intro l
  induction l with
  | nil => intro off; rfl
  | cons op t ih =>
    intro off
    simp only [offsets, List.length_append, ih, List.filter_cons]
    by_cases h : op.code = x <;> simp [h]; omega

theorem contains_iff_findAll (x : UInt8) : ∀ (a : Bytes) (off : Nat),
    a.contains x = true ↔ findAllFrom x off a ≠ [] := by
  intro a
  induction a with
  | nil => intro off; simp [findAllFrom]
  | cons y t ih =>
    intro off
    simp only [List.contains_cons, Bool.or_eq_true, beq_iff_eq, findAllFrom]
    by_cases h : y = x
    · simp [h]
    · have h' : ¬ x = y := fun e => h e.symm
      simp only [h', false_or, h, if_false]
      exact ih (off + 1)

/-! ### the specification's selection, decomposed -/

theorem isSep_iff (o : Op) : o.isSep = true ↔ o.code = OP_CODESEPARATOR := by
  simp [Op.isSep, OP_CODESEPARATOR]
theorem isCheck_iff (o : Op) : o.isCheck = true ↔ o.code = OP_CHECKSIG := by
  simp [Op.isCheck, OP_CHECKSIG]
theorem not_sep_of_check {o : Op} (h : o.isCheck = true) : o.isSep = false := by
  have := (isCheck_iff o).mp h
  cases hs : o.isSep with
  | false => rfl
  | true =>
    have h2 := (isSep_iff o).mp hs
    rw [this] at h2
    exact absurd h2 (by decide)

theorem selectFrom_some : ∀ (rest cur : List Op) (k : Nat) (sel : List Op),
    selectFrom cur rest k = some sel →
    ∃ pre chk post, rest = pre ++ chk :: post ∧ chk.isCheck = true ∧
      (pre.filter Op.isCheck).length = k ∧
      (((∀ o ∈ pre, o.isSep = false) ∧ sel = cur) ∨
       (∃ p1 sep p2, pre = p1 ++ sep :: p2 ∧ sep.isSep = true ∧ (∀ o ∈ p2, o.isSep = false) ∧
          sel = p2 ++ chk :: post)) := by
  intro rest
  induction rest with
  | nil => intro cur k sel h; simp [selectFrom] at h
  | cons op rest ih =>
    intro cur k sel h
    unfold selectFrom at h
    by_cases hs : op.isSep = true
    · simp only [hs, if_true] at h
      obtain ⟨pre, chk, post, e, hc, hk, halt⟩ := ih rest k sel h
      have hnc : op.isCheck = false := by
        cases hcc : op.isCheck with
        | false => rfl
        | true => rw [not_sep_of_check hcc] at hs; simp at hs
      refine ⟨op :: pre, chk, post, by simp [e], hc, by simp [hnc, hk], Or.inr ?_⟩
      rcases halt with ⟨hfree, hsel⟩ | ⟨p1, sep, p2, e2, hsep, hfree, hsel⟩
      · exact ⟨[], op, pre, by simp, hs, hfree, by rw [hsel, e]⟩
      · exact ⟨op :: p1, sep, p2, by simp [e2], hsep, hfree, hsel⟩
    · have hs' : op.isSep = false := by simpa using hs
      simp only [hs', Bool.false_eq_true, if_false] at h
      by_cases hc : op.isCheck = true
      · simp only [hc, if_true] at h
        cases k with
        | zero =>
          simp only [Option.some.injEq] at h
          exact ⟨[], op, rest, by simp, hc, by simp, Or.inl ⟨by simp, h.symm⟩⟩
        | succ k =>
          simp only at h
          obtain ⟨pre, chk, post, e, hcc, hk, halt⟩ := ih cur k sel h
          refine ⟨op :: pre, chk, post, by simp [e], hcc, by simp [hc, hk], ?_⟩
          rcases halt with ⟨hfree, hsel⟩ | ⟨p1, sep, p2, e2, hsep, hfree, hsel⟩
          · left
            refine ⟨?_, hsel⟩
            intro o ho
            rcases List.mem_cons.mp ho with rfl | ho
            · exact hs'
            · exact hfree o ho
          · right
            exact ⟨op :: p1, sep, p2, by simp [e2], hsep, hfree, hsel⟩
      · have hc' : op.isCheck = false := by simpa using hc
        simp only [hc', Bool.false_eq_true, if_false] at h
        obtain ⟨pre, chk, post, e, hcc, hk, halt⟩ := ih cur k sel h
        refine ⟨op :: pre, chk, post, by simp [e], hcc, by simp [hc', hk], ?_⟩
        rcases halt with ⟨hfree, hsel⟩ | ⟨p1, sep, p2, e2, hsep, hfree, hsel⟩
        · left
          refine ⟨?_, hsel⟩
          intro o ho
          rcases List.mem_cons.mp ho with rfl | ho
          · exact hs'
          · exact hfree o ho
        · right
          exact ⟨op :: p1, sep, p2, by simp [e2], hsep, hfree, hsel⟩

theorem selectFrom_none : ∀ (rest cur : List Op) (k : Nat), selectFrom cur rest k = none →
    (rest.filter Op.isCheck).length ≤ k := by
  intro rest
  induction rest with
  | nil => intro cur k _; simp
  | cons op rest ih =>
    intro cur k h
    unfold selectFrom at h
    by_cases hs : op.isSep = true
    · simp only [hs, if_true] at h
      have hnc : op.isCheck = false := by
        cases hcc : op.isCheck with
        | false => rfl
        | true => rw [not_sep_of_check hcc] at hs; simp at hs
      simpa [List.filter_cons, hnc] using ih rest k h
    · have hs' : op.isSep = false := by simpa using hs
      simp only [hs', Bool.false_eq_true, if_false] at h
      by_cases hc : op.isCheck = true
      · simp only [hc, if_true] at h
        cases k with
        | zero => simp at h
        | succ k =>
          simp only at h
          have := ih cur k h
          simp [hc]; omega
      · have hc' : op.isCheck = false := by simpa using hc
        simp only [hc', Bool.false_eq_true, if_false] at h
        simpa [List.filter_cons, hc'] using ih cur k h

theorem filter_isSep_eq (l : List Op) :
    l.filter (fun o => o.code = OP_CODESEPARATOR) = l.filter Op.isSep := by
  apply List.filter_congr
  intro o _
  simp only [Op.isSep, OP_CODESEPARATOR]
  congr

theorem filter_isCheck_eq (l : List Op) :
    l.filter (fun o => o.code = OP_CHECKSIG) = l.filter Op.isCheck := by
  apply List.filter_congr
  intro o _
  simp only [Op.isCheck, OP_CHECKSIG]
  congr

theorem filter_notSep_of_free (l : List Op) (h : ∀ o ∈ l, o.isSep = false) : l.filter notSep = l := by
  apply List.filter_eq_self.mpr
  intro o ho
  simp [notSep, h o ho]

theorem getD_append_length {α} (a : List α) (b : α) (c : List α) (d : α) : (a ++ b :: c).getD a.length d = b := by
  simp [List.getD_eq_getElem?_getD]

/-! ### assembly -/

theorem extract_unfold (code : Bytes) (k : Nat) (hc : code.contains OP_CODESEPARATOR = true)
    (hk : ¬ ((findAll code OP_CHECKSIG).length ≠ 0 ∧ k > (findAll code OP_CHECKSIG).length - 1)) :
    extractSubscript code k = .ok (removeSeps code.length (code.drop
      (if (findAll code OP_CODESEPARATOR).length < 2 then 0
       else (((findAll code OP_CODESEPARATOR).filter (· < (findAll code OP_CHECKSIG).getD k 0)).getLast?).getD 0))) := by
  unfold extractSubscript
  simp only [hc, not_true_eq_false, if_false, hk]

theorem extract_noSep (code : Bytes) (k : Nat) (hc : code.contains OP_CODESEPARATOR = false) :
    extractSubscript code k = .ok code := by
  unfold extractSubscript
  simp only [hc, Bool.false_eq_true, not_false_eq_true, if_true]

/-- **Partial correctness of the sub-script selection.**  If no operation body contains the byte
    values 0xab / 0xac, and the script does not have exactly one separator that is neither its first
    operation nor irrelevant to the selection, then `extract_subscript` returns the specification's
    script code with the remaining separators removed. -/
theorem extractSubscript_eq_spec (code : Bytes) (k : Nat) (sel : List Op)
    (hsel : scriptCodeOps code k = some sel)
    (hab : NoRaw OP_CODESEPARATOR (parseScript code)) (hac : NoRaw OP_CHECKSIG (parseScript code))
    (hsingle : ((parseScript code).filter Op.isSep).length = 1 →
      (∃ s t, parseScript code = s :: t ∧ s.isSep = true) ∨ sel = parseScript code) :
    extractSubscript code k = .ok (flatten (sel.filter notSep)) := by
  obtain ⟨hfl, hwf⟩ := parse_spec code.length code (Nat.le_refl _)
  have hops : parseScript code = parse code.length code := rfl
  rw [hops] at hab hac hsingle
  generalize hopsdef : parse code.length code = ops at hfl hwf hab hac hsingle
  have hsepsAll : findAll code OP_CODESEPARATOR = offsets OP_CODESEPARATOR 0 ops := by
    unfold findAll; rw [← hfl]; exact findAllFrom_flatten _ ops 0 hab
  have hchecksAll : findAll code OP_CHECKSIG = offsets OP_CHECKSIG 0 ops := by
    unfold findAll; rw [← hfl]; exact findAllFrom_flatten _ ops 0 hac
  have hnsep : (findAll code OP_CODESEPARATOR).length = (ops.filter Op.isSep).length := by
    rw [hsepsAll, offsets_length, filter_isSep_eq]
  have hlenops : ops.length ≤ code.length := by rw [← hfl]; exact length_le_flatten ops
  have hremove_all : removeSeps code.length code = flatten (ops.filter notSep) := by
    have := removeSeps_flatten ops code.length hwf hlenops
    rw [hfl] at this; exact this
  have hcontains_of : ¬ (ops.all (fun o => !o.isSep) = true) → code.contains OP_CODESEPARATOR = true := by
    intro hall
    rw [contains_iff_findAll OP_CODESEPARATOR code 0]
    intro hnil
    have h1 : findAll code OP_CODESEPARATOR = [] := hnil
    have h2 : (ops.filter Op.isSep).length = 0 := by rw [← hnsep, h1]; rfl
    apply hall
    rw [List.all_eq_true]
    intro o ho
    cases hs : o.isSep with
    | false => rfl
    | true =>
      have : o ∈ ops.filter Op.isSep := List.mem_filter.mpr ⟨ho, hs⟩
      have := List.length_pos_of_mem this
      omega
  unfold scriptCodeOps at hsel
  rw [hops, hopsdef] at hsel
  simp only at hsel
  by_cases hall : ops.all (fun o => !o.isSep) = true
  · -- no separator operation: the whole script
    simp only [hall, Bool.true_or, if_true, Option.some.injEq] at hsel
    subst hsel
    have hfree : ∀ o ∈ ops, o.isSep = false := by
      intro o ho
      have := List.all_eq_true.mp hall o ho
      simpa using this
    have hc : code.contains OP_CODESEPARATOR = false := by
      cases hcc : code.contains OP_CODESEPARATOR with
      | false => rfl
      | true =>
        have := (contains_iff_findAll OP_CODESEPARATOR code 0).mp hcc
        have h2 : findAllFrom OP_CODESEPARATOR 0 code = [] := by
          have := hsepsAll
          unfold findAll at this
          rw [this]
          exact offsets_nil_of _ ops 0 (fun o ho hcode => by
            have := hfree o ho
            rw [(isSep_iff o).mpr hcode] at this
            simp at this)
        exact absurd h2 this
    rw [extract_noSep code k hc, filter_notSep_of_free ops hfree, hfl]
  by_cases hnochk : ops.all (fun o => !o.isCheck) = true
  · -- separators but no OP_CHECKSIG operation: the whole script, separators removed by the copy loop
    simp only [hnochk, Bool.or_true, if_true, Option.some.injEq] at hsel
    subst hsel
    have hchknil : findAll code OP_CHECKSIG = [] := by
      rw [hchecksAll]
      exact offsets_nil_of _ ops 0 (fun o ho hcode => by
        have := List.all_eq_true.mp hnochk o ho
        rw [(isCheck_iff o).mpr hcode] at this
        simp at this)
    rw [extract_unfold code k (hcontains_of hall) (by rw [hchknil]; simp), hchknil]
    have hf : (findAll code OP_CODESEPARATOR).filter (fun x => decide (x < ([] : List Nat).getD k 0)) = [] := by
      apply List.filter_eq_nil_iff.mpr
      intro p _
      simp
    rw [hf]
    simp only [List.getLast?_nil, Option.getD_none, ite_self, List.drop_zero]
    rw [hremove_all]
  · simp only [hall, hnochk, Bool.or_self, Bool.false_eq_true, if_false] at hsel
    obtain ⟨pre, chk, post, e, hchk, hk, halt⟩ := selectFrom_some ops ops k sel hsel
    have hchkcode : chk.code = OP_CHECKSIG := (isCheck_iff chk).mp hchk
    have hchknotsep : ¬ chk.code = OP_CODESEPARATOR := by rw [hchkcode]; decide
    -- positions of the checks
    have hchecks : findAll code OP_CHECKSIG = offsets OP_CHECKSIG 0 pre ++
        ((flatten pre).length :: offsets OP_CHECKSIG ((flatten pre).length + 1 + chk.body.length) post) := by
      rw [hchecksAll, e, offsets_append]
      simp [offsets, hchkcode]
    have hprelen : (offsets OP_CHECKSIG 0 pre).length = k := by
      rw [offsets_length, filter_isCheck_eq]; exact hk
    have hcpos : (findAll code OP_CHECKSIG).getD k 0 = (flatten pre).length := by
      rw [hchecks, ← hprelen]; exact getD_append_length _ _ _ _
    have hkle : ¬ ((findAll code OP_CHECKSIG).length ≠ 0 ∧ k > (findAll code OP_CHECKSIG).length - 1) := by
      rw [hchecks]; simp only [List.length_append, List.length_cons, hprelen]; omega
    -- positions of the separators
    have hseps : findAll code OP_CODESEPARATOR = offsets OP_CODESEPARATOR 0 pre ++
        offsets OP_CODESEPARATOR ((flatten pre).length + 1 + chk.body.length) post := by
      rw [hsepsAll, e, offsets_append]
      simp [offsets, hchknotsep]
    have hfilter : (findAll code OP_CODESEPARATOR).filter (· < (flatten pre).length)
        = offsets OP_CODESEPARATOR 0 pre := by
      rw [hseps, List.filter_append]
      have h1 : (offsets OP_CODESEPARATOR 0 pre).filter (· < (flatten pre).length)
          = offsets OP_CODESEPARATOR 0 pre := by
        apply List.filter_eq_self.mpr
        intro p hp
        have := offsets_bounds _ pre 0 p hp
        simp; omega
      have h2 : (offsets OP_CODESEPARATOR ((flatten pre).length + 1 + chk.body.length) post).filter
          (· < (flatten pre).length) = [] := by
        apply List.filter_eq_nil_iff.mpr
        intro p hp
        have := offsets_bounds _ post _ p hp
        simp; omega
      rw [h1, h2, List.append_nil]
    have hcontains := hcontains_of hall
    rw [extract_unfold code k hcontains hkle, hcpos, hfilter]
    rcases halt with ⟨hfree, hselcur⟩ | ⟨p1, sep, p2, epre, hsep, hfree, hselp⟩
    · -- no separator before the check: start = 0 in both branches
      have hnil : offsets OP_CODESEPARATOR 0 pre = [] :=
        offsets_nil_of _ pre 0 (fun o ho hcode => by
          have := hfree o ho
          rw [(isSep_iff o).mpr hcode] at this
          simp at this)
      rw [hnil]
      simp only [List.getLast?_nil, Option.getD_none, ite_self, List.drop_zero]
      rw [hremove_all, hselcur]
    · -- a separator before the check
      have hsepcode : sep.code = OP_CODESEPARATOR := (isSep_iff sep).mp hsep
      have hp2nil : ∀ off, offsets OP_CODESEPARATOR off p2 = [] := fun off =>
        offsets_nil_of _ p2 off (fun o ho hcode => by
          have := hfree o ho
          rw [(isSep_iff o).mpr hcode] at this
          simp at this)
      have hpreoff : offsets OP_CODESEPARATOR 0 pre = offsets OP_CODESEPARATOR 0 p1 ++ [(flatten p1).length] := by
        rw [epre, offsets_append]
        simp [offsets, hsepcode, hp2nil]
      rw [hpreoff]
      simp only [List.getLast?_append, List.getLast?_singleton, Option.some_or, Option.getD_some]
      have hcode_split : code = flatten p1 ++ flatten (sep :: (p2 ++ chk :: post)) := by
        rw [← hfl, e, epre, ← flatten_append]; simp
      have hsuffix_wf : Wf (sep :: (p2 ++ chk :: post)) := by
        apply wf_suffix p1
        have : p1 ++ sep :: (p2 ++ chk :: post) = ops := by rw [e, epre]; simp
        rw [this]; exact hwf
      have hsuffix_len : (sep :: (p2 ++ chk :: post)).length ≤ code.length := by
        have : (sep :: (p2 ++ chk :: post)).length ≤ ops.length := by rw [e, epre]; simp
        omega
      have hdrop : code.drop (flatten p1).length = flatten (sep :: (p2 ++ chk :: post)) := by
        conv => lhs; rw [hcode_split]
        simp
      have hsepfilter : (sep :: (p2 ++ chk :: post)).filter notSep = (p2 ++ chk :: post).filter notSep := by
        simp [List.filter_cons, notSep, hsep]
      by_cases h2 : (findAll code OP_CODESEPARATOR).length < 2
      · -- exactly one separator: it must be the first operation
        simp only [h2, if_true, List.drop_zero]
        have hone : (ops.filter Op.isSep).length = 1 := by
          have hge : 1 ≤ (ops.filter Op.isSep).length := by
            have : sep ∈ ops.filter Op.isSep := by
              apply List.mem_filter.mpr
              refine ⟨?_, hsep⟩
              rw [e, epre]; simp
            exact List.length_pos_of_mem this
          omega
        rcases hsingle hone with ⟨s, t, est, hs⟩ | hselops
        · -- p1 must be empty
          have hp1 : p1 = [] := by
            cases p1 with
            | nil => rfl
            | cons a p1' =>
              exfalso
              have ha : a = s := by
                have : ops = a :: (p1' ++ sep :: p2 ++ chk :: post) := by rw [e, epre]; simp
                rw [this] at est
                exact (List.cons.inj est).1
              have : (ops.filter Op.isSep).length ≥ 2 := by
                rw [e, epre]
                simp only [List.cons_append, List.filter_cons, List.filter_append, ha, hs, if_true, hsep,
                  List.length_cons, List.length_append]
                omega
              omega
          rw [hremove_all, e, epre, hp1, hselp]
          simp only [List.nil_append, List.cons_append]
          rw [hsepfilter]
        · exfalso
          have : sel.length < ops.length := by rw [hselp, e, epre]; simp; omega
          rw [hselops] at this
          omega
      · simp only [h2, if_false]
        rw [hdrop, removeSeps_flatten _ _ hsuffix_wf hsuffix_len, hsepfilter, hselp]

/-- when the specification has no script code (separators and checks exist but there is no `k`-th
    check) the model returns `BadArgument` -/
theorem extractSubscript_none (code : Bytes) (k : Nat) (hsel : scriptCodeOps code k = none)
    (hab : NoRaw OP_CODESEPARATOR (parseScript code)) (hac : NoRaw OP_CHECKSIG (parseScript code)) :
    extractSubscript code k = .err "BadArgument" := by
  obtain ⟨hfl, hwf⟩ := parse_spec code.length code (Nat.le_refl _)
  have hops : parseScript code = parse code.length code := rfl
  rw [hops] at hab hac
  generalize hopsdef : parse code.length code = ops at hfl hwf hab hac
  have hsepsAll : findAll code OP_CODESEPARATOR = offsets OP_CODESEPARATOR 0 ops := by
    unfold findAll; rw [← hfl]; exact findAllFrom_flatten _ ops 0 hab
  have hchecksAll : findAll code OP_CHECKSIG = offsets OP_CHECKSIG 0 ops := by
    unfold findAll; rw [← hfl]; exact findAllFrom_flatten _ ops 0 hac
  unfold scriptCodeOps at hsel
  rw [hops, hopsdef] at hsel
  simp only at hsel
  by_cases hall : ops.all (fun o => !o.isSep) = true
  · simp [hall] at hsel
  by_cases hnochk : ops.all (fun o => !o.isCheck) = true
  · simp [hnochk] at hsel
  · simp only [hall, hnochk, Bool.or_self, Bool.false_eq_true, if_false] at hsel
    have hcount := selectFrom_none ops ops k hsel
    have hlen : (findAll code OP_CHECKSIG).length ≤ k := by
      rw [hchecksAll, offsets_length, filter_isCheck_eq]; exact hcount
    have hpos : (findAll code OP_CHECKSIG).length ≠ 0 := by
      rw [hchecksAll, offsets_length, filter_isCheck_eq]
      intro h0
      apply hnochk
      rw [List.all_eq_true]
      intro o ho
      cases hs : o.isCheck with
      | false => rfl
      | true =>
        have : o ∈ ops.filter Op.isCheck := List.mem_filter.mpr ⟨ho, hs⟩
        have := List.length_pos_of_mem this
        omega
    have hcontains : code.contains OP_CODESEPARATOR = true := by
      rw [contains_iff_findAll OP_CODESEPARATOR code 0]
      intro hnil
      have h1 : findAll code OP_CODESEPARATOR = [] := hnil
      have h2 : (ops.filter Op.isSep).length = 0 := by
        rw [← filter_isSep_eq, ← offsets_length _ ops 0, ← hsepsAll, h1]; rfl
      apply hall
      rw [List.all_eq_true]
      intro o ho
      cases hs : o.isSep with
      | false => rfl
      | true =>
        have : o ∈ ops.filter Op.isSep := List.mem_filter.mpr ⟨ho, hs⟩
        have := List.length_pos_of_mem this
        omega
    unfold extractSubscript
    have : k > (findAll code OP_CHECKSIG).length - 1 := by omega
    simp only [hcontains, not_true_eq_false, if_false, ne_eq, hpos, not_false_eq_true, this, and_self, if_true]

/-- the guarded subtraction: the model of `extract_subscript` has no panic site left -/
theorem extractSubscript_no_panic (code : Bytes) (k : Nat) : ∀ s, extractSubscript code k ≠ .panic s := by
  intro s
  unfold extractSubscript
  split
  · simp
  · simp only
    split <;> simp

end CG.Proofs.Subscript

import CG.Model.Merkle
import CG.Spec.Bip37
/-!
Helper lemmas for C14: the queue reduction of `Block::merkle_root` is the level-by-level Merkle
root; the integer depth is `⌈log2 n⌉`; the counter-based traversal of `MerkleBlock::validate`
simulates the position-based BIP-37 extractor.
-/
namespace CG.Proofs.Merkle
open CG CG.Model.Merkle CG.Spec.Bip37

/-! ## 1. Merkle root -/

theorem innerLoop_eq (H : Bytes → Bytes) (xs acc : List Bytes) :
    innerLoop H xs.length (xs ++ acc) = .ok (acc ++ pairUp H xs) := by
  induction xs using pairUp.induct generalizing acc with
  | case1 => simp [innerLoop, pairUp]
  | case2 a => simp [innerLoop, pairUp]
  | case3 a b r ih =>
    simp only [List.length_cons, List.cons_append, innerLoop, pairUp]
    have := ih (acc ++ [H (a ++ b)])
    simp only [List.append_assoc, List.cons_append, List.nil_append] at this ⊢
    exact this

theorem innerLoop_row (H : Bytes → Bytes) (row : List Bytes) :
    innerLoop H row.length row = .ok (pairUp H row) := by
  have := innerLoop_eq H row []
  simpa using this

theorem merkleRoot_cons2 (H : Bytes → Bytes) (a b : Bytes) (r : List Bytes) :
    Spec.Bip37.merkleRoot H (a :: b :: r) = Spec.Bip37.merkleRoot H (pairUp H (a :: b :: r)) := by
  rw [Spec.Bip37.merkleRoot]

theorem outerLoop_eq (H : Bytes → Bytes) :
    ∀ (fuel : Nat) (row : List Bytes), row.length ≤ fuel + 1 →
      outerLoop H fuel row =
        match Spec.Bip37.merkleRoot H row with
        | some r => .ok [r]
        | none => .ok [] := by
  intro fuel
  induction fuel with
  | zero =>
    intro row hl
    match row, hl with
    | [], _ => simp [outerLoop, Spec.Bip37.merkleRoot]
    | [a], _ => simp [outerLoop, Spec.Bip37.merkleRoot]
    | _ :: _ :: _, hl => simp at hl
  | succ fuel ih =>
    intro row hl
    match row, hl with
    | [], _ => simp [outerLoop, Spec.Bip37.merkleRoot]
    | [a], _ => simp [outerLoop, Spec.Bip37.merkleRoot]
    | a :: b :: r, hl =>
      have hlen : (a :: b :: r).length > 1 := by simp
      rw [outerLoop, if_pos hlen, innerLoop_row, merkleRoot_cons2]
      simp only
      apply ih
      rw [pairUp_length]
      simp only [List.length_cons] at hl ⊢
      omega

theorem merkleRoot_isSome (H : Bytes → Bytes) :
    ∀ (k : Nat) (l : List Bytes), l.length ≤ k → l ≠ [] → (Spec.Bip37.merkleRoot H l).isSome := by
  intro k
  induction k with
  | zero => intro l hl hne; cases l <;> simp_all
  | succ k ih =>
    intro l hl hne
    match l, hl, hne with
    | [a], _, _ => simp [Spec.Bip37.merkleRoot]
    | a :: b :: r, hl, _ =>
      rw [merkleRoot_cons2]
      apply ih
      · rw [pairUp_length]; simp only [List.length_cons] at hl ⊢; omega
      · simp [pairUp]

/-! ## 2. Tree shape: widths, depth -/

/-- `d = ⌈log2 n⌉`: the least `d` with `n ≤ 2^d` -/
def IsClog (n d : Nat) : Prop := n ≤ 2 ^ d ∧ ∀ d', d' < d → 2 ^ d' < n

theorem IsClog.unique {n d e : Nat} (h1 : IsClog n d) (h2 : IsClog n e) : d = e := by
  rcases Nat.lt_trichotomy d e with h | h | h
  · have := h2.2 d h; have := h1.1; omega
  · exact h
  · have := h1.2 e h; have := h2.1; omega

theorem width_zero (n : Nat) : width n 0 = n := by simp [width]

theorem two_pow_pos' (h : Nat) : 0 < 2 ^ h := Nat.pow_pos (by decide)

theorem width_succ (n h : Nat) : width n (h + 1) = (width n h + 1) / 2 := by
  unfold width
  have hp := two_pow_pos' h
  have e : 2 ^ (h + 1) = 2 ^ h * 2 := Nat.pow_succ ..
  rw [e, ← Nat.div_div_eq_div_mul]
  congr 1
  have : n + 2 ^ h * 2 - 1 = (n + 2 ^ h - 1) + 2 ^ h := by omega
  rw [this, Nat.add_div_right _ hp]

theorem width_pos (n h : Nat) (hn : 1 ≤ n) : 1 ≤ width n h := by
  unfold width
  have hp := two_pow_pos' h
  exact (Nat.le_div_iff_mul_le hp).mpr (by omega)

theorem width_gt_one_iff (n h : Nat) : width n h > 1 ↔ 2 ^ h < n := by
  unfold width
  have hp := two_pow_pos' h
  show 2 ≤ (n + 2 ^ h - 1) / 2 ^ h ↔ _
  rw [Nat.le_div_iff_mul_le hp]
  omega

theorem width_eq_one {n d : Nat} (hn : 1 ≤ n) (hd : IsClog n d) : width n d = 1 := by
  have h1 := width_pos n d hn
  have h2 : ¬ width n d > 1 := by rw [width_gt_one_iff]; have := hd.1; omega
  omega

theorem lt_two_pow_self' (n : Nat) : n < 2 ^ n := Nat.lt_two_pow_self

theorem heightFrom_isClog (n : Nat) :
    ∀ (fuel h : Nat), n ≤ fuel + h → (∀ d', d' < h → 2 ^ d' < n) → IsClog n (heightFrom n fuel h) := by
  intro fuel
  induction fuel with
  | zero =>
    intro h hf hinv
    refine ⟨?_, hinv⟩
    simp only [heightFrom]
    have := lt_two_pow_self' h
    omega
  | succ fuel ih =>
    intro h hf hinv
    simp only [heightFrom]
    split
    · rename_i hw
      apply ih (h + 1) (by omega)
      intro d' hd'
      by_cases hdh : d' = h
      · subst hdh; exact (width_gt_one_iff n d').mp hw
      · exact hinv d' (by omega)
    · rename_i hw
      refine ⟨?_, hinv⟩
      have := mt (width_gt_one_iff n h).mpr hw
      omega

theorem height_isClog (n : Nat) : IsClog n (height n) :=
  heightFrom_isClog n n 0 (by omega) (by intro d' hd'; omega)

theorem treeDepthOf_isClog (n : Nat) (h1 : 1 ≤ n) (h32 : n < 2 ^ 32) : IsClog n (treeDepthOf n) := by
  unfold treeDepthOf clz32
  by_cases h0 : n - 1 = 0
  · have : n = 1 := by omega
    subst this
    simp [IsClog]
  · simp only [h0, if_false]
    have hlt : (n - 1).log2 < 32 := (Nat.log2_lt h0).mpr (by omega)
    have hd : 32 - (31 - (n - 1).log2) = (n - 1).log2 + 1 := by omega
    rw [hd]
    constructor
    · have := (Nat.log2_lt (k := (n - 1).log2 + 1) h0).mp (by omega)
      omega
    · intro d' hd'
      have h2 : 2 ^ (n - 1).log2 ≤ n - 1 := Nat.log2_self_le h0
      have h3 : 2 ^ d' ≤ 2 ^ (n - 1).log2 := Nat.pow_le_pow_right (by decide) (by omega)
      omega

/-! ## 3. Node counts -/

/-- number of nodes in the subtree below the LAST node of row `h` -/
def sizeLast (n : Nat) : Nat → Nat
  | 0 => 1
  | h + 1 => 1 + sizeLast n h + (if width n h % 2 = 0 then 2 ^ (h + 1) - 1 else 0)

/-- number of nodes in rows `0..h` -/
def rowsTotal (n : Nat) : Nat → Nat
  | 0 => n
  | h + 1 => rowsTotal n h + width n (h + 1)

theorem sizeLast_pos (n h : Nat) : 1 ≤ sizeLast n h := by
  cases h <;> simp [sizeLast] <;> omega

theorem sizeLast_le (n h : Nat) : sizeLast n h ≤ 2 ^ (h + 1) - 1 := by
  induction h with
  | zero => simp [sizeLast]
  | succ h ih =>
    simp only [sizeLast]
    have e : 2 ^ (h + 1 + 1) = 2 * 2 ^ (h + 1) := by rw [Nat.pow_succ]; omega
    have hp := two_pow_pos' (h + 1)
    split <;> omega

theorem arithA (S T m Q : Nat) (h : S + (2 * m + 1) * Q = T) :
    (1 + S + Q) + m * (2 * Q + 1) = T + (m + 1) := by grind

theorem arithB (S T m Q : Nat) (h : S + (2 * m) * Q = T) :
    (1 + S) + m * (2 * Q + 1) = T + (m + 1) := by grind

/-- the non-last nodes of row `h` head complete subtrees; together with the last node's subtree
    they make up rows `0..h` -/
theorem sizeLast_rows (n : Nat) (hn : 1 ≤ n) (h : Nat) :
    sizeLast n h + (width n h - 1) * (2 ^ (h + 1) - 1) = rowsTotal n h := by
  induction h with
  | zero => simp [sizeLast, rowsTotal, width_zero]; omega
  | succ h ih =>
    simp only [sizeLast, rowsTotal]
    rw [width_succ]
    have hw := width_pos n h hn
    have hp := two_pow_pos' (h + 1)
    obtain ⟨Q, hQ⟩ : ∃ Q, 2 ^ (h + 1) = Q + 1 := ⟨2 ^ (h + 1) - 1, by omega⟩
    have e : 2 ^ (h + 1 + 1) - 1 = 2 * Q + 1 := by rw [Nat.pow_succ, hQ]; omega
    have eQ : 2 ^ (h + 1) - 1 = Q := by omega
    rw [e, eQ]
    rw [eQ] at ih
    generalize width n h = w at *
    generalize rowsTotal n h = T at *
    generalize sizeLast n h = S at *
    obtain ⟨m, rfl | rfl⟩ : ∃ m, w = 2 * m + 2 ∨ w = 2 * m + 1 := ⟨(w - 1) / 2, by omega⟩
    · have h1 : (2 * m + 2) % 2 = 0 := by omega
      have h2 : (2 * m + 2 + 1) / 2 = m + 1 := by omega
      have h3 : 2 * m + 2 - 1 = 2 * m + 1 := by omega
      rw [h3] at ih
      simp only [h1, h2, if_true, Nat.add_sub_cancel]
      exact arithA S T m Q ih
    · have h1 : (2 * m + 1) % 2 ≠ 0 := by omega
      have h2 : (2 * m + 1 + 1) / 2 = m + 1 := by omega
      have h3 : 2 * m + 1 - 1 = 2 * m := by omega
      rw [h3] at ih
      simp only [h1, h2, if_false, Nat.add_sub_cancel, Nat.add_zero]
      exact arithB S T m Q ih

theorem totalLoop_eq (n D : Nat) (hD : IsClog n D) :
    ∀ (fuel h : Nat), h ≤ D → width n h ≤ fuel + 1 →
      totalLoop fuel (width n h) (rowsTotal n h) = rowsTotal n D := by
  intro fuel
  induction fuel with
  | zero =>
    intro h hh hf
    simp only [totalLoop]
    have : ¬ width n h > 1 := by omega
    rw [width_gt_one_iff] at this
    have : ¬ h < D := fun hlt => this (hD.2 h hlt)
    have : h = D := by omega
    rw [this]
  | succ fuel ih =>
    intro h hh hf
    simp only [totalLoop]
    split
    · rename_i hw
      have hlt : h < D := by
        rw [width_gt_one_iff] at hw
        apply Classical.byContradiction
        intro hc
        have : 2 ^ D ≤ 2 ^ h := Nat.pow_le_pow_right (by decide) (by omega)
        have := hD.1
        omega
      rw [← width_succ]
      have := ih (h + 1) hlt (by rw [width_succ]; omega)
      simpa [rowsTotal] using this
    · rename_i hw
      rw [width_gt_one_iff] at hw
      have : ¬ h < D := fun hlt => hw (hD.2 h hlt)
      have : h = D := by omega
      rw [this]

theorem totalNodes_eq (n D : Nat) (hn : 1 ≤ n) (hD : IsClog n D) :
    totalNodes n = sizeLast n D := by
  unfold totalNodes
  have h := totalLoop_eq n D hD n 0 (by omega) (by rw [width_zero]; omega)
  rw [width_zero] at h
  simp only [rowsTotal] at h
  rw [h, ← sizeLast_rows n hn D, width_eq_one hn hD]
  simp

/-! ## 4. Flag bits and the two consumers -/

theorem flagVal (m k : Nat) : (m >>> k) &&& 1 = if m.testBit k then 1 else 0 := by
  rw [Nat.and_one_is_mod, Nat.shiftRight_eq_div_pow, Nat.testBit_eq_decide_div_mod_eq]
  by_cases h : m / 2 ^ k % 2 = 1
  · simp [h]
  · have : m / 2 ^ k % 2 = 0 := by omega
    simp [this]

theorem bitsOfByte_length (b : UInt8) : (bitsOfByte b).length = 8 := by simp [bitsOfByte]

theorem bitsOfByte_get (b : UInt8) (i : Nat) (h : i < 8) : (bitsOfByte b)[i]? = some (b.toNat.testBit i) := by
  simp [bitsOfByte, h]

theorem bitsOf_get (flags : Bytes) : ∀ i, (bitsOf flags)[i]? = (flags[i / 8]?).map (fun b => b.toNat.testBit (i % 8)) := by
  induction flags with
  | nil => intro i; simp [bitsOf]
  | cons b r ih =>
    intro i
    have e : bitsOf (b :: r) = bitsOfByte b ++ bitsOf r := by simp [bitsOf]
    rw [e]
    by_cases h : i < 8
    · rw [List.getElem?_append_left (by rw [bitsOfByte_length]; exact h), bitsOfByte_get b i h]
      have h1 : i / 8 = 0 := by omega
      have h2 : i % 8 = i := by omega
      simp [h1, h2]
    · rw [List.getElem?_append_right (by rw [bitsOfByte_length]; omega), bitsOfByte_length, ih]
      have h1 : i / 8 = (i - 8) / 8 + 1 := by omega
      have h2 : (i - 8) % 8 = i % 8 := by omega
      rw [h1, h2]
      simp

theorem bitsOf_length (flags : Bytes) : (bitsOf flags).length = 8 * flags.length := by
  induction flags with
  | nil => simp [bitsOf]
  | cons b r ih =>
    have e : bitsOf (b :: r) = bitsOfByte b ++ bitsOf r := by simp [bitsOf]
    rw [e, List.length_append, ih, bitsOfByte_length]; simp; omega

/-- the part of the traversal state the reference extractor also has -/
def toSpec (st : St) : PST := ⟨st.bits, st.hashes, st.matched⟩

theorem consumeFlag_eq (flags : Bytes) (st : St) :
    consumeFlag flags st =
      match (bitsOf flags)[st.bits]? with
      | none => .err "BadData"
      | some b => .ok ((if b then 1 else 0), { st with bits := st.bits + 1 }) := by
  unfold consumeFlag
  rw [bitsOf_get]
  by_cases h : st.bits / 8 ≥ flags.length
  · rw [if_pos h, List.getElem?_eq_none (by omega)]; rfl
  · rw [if_neg h, List.getElem?_eq_getElem (by omega)]
    simp only [Option.map_some, flagVal]

theorem consumeHash_eq (hashes : List Bytes) (st : St) :
    consumeHash hashes st =
      match hashes[st.hashes]? with
      | none => .err "BadData"
      | some x => .ok (x, { st with hashes := st.hashes + 1 }) := by
  unfold consumeHash
  by_cases h : st.hashes ≥ hashes.length
  · rw [if_pos h, List.getElem?_eq_none (by omega)]
  · rw [if_neg h, List.getElem?_eq_getElem (by omega)]

/-! ## 5. The counter-based traversal simulates the position-based extractor -/

/-- What is known about the pre-order counter when the traversal ENTERS node `(h, p)`.
    A node that is not the last of its row heads a complete subtree of `2^(h+1)-1` nodes and
    something follows it; the last node of a row is followed by nothing, so the counter plus the
    size of its subtree is exactly the total.  (A node is last in its row iff all its ancestors
    are — the right edge of the tree.) -/
structure Pre (n total h p node : Nat) : Prop where
  nonlast : p + 1 < width n h → node + (2 ^ (h + 1) - 1) < total
  last : p + 1 = width n h → node + sizeLast n h = total
  bound : node + (2 ^ (h + 1) - 1) < 2 ^ 64

/-- What is known about the counter when the traversal LEAVES node `(h, p)`: exact for a node that
    is not last in its row; at least the total for the last node of a row (a skipped right-edge
    subtree is over-counted as if it were complete, which is harmless). -/
structure Post (n total h p node node' : Nat) : Prop where
  nonlast : p + 1 < width n h → node' = node + (2 ^ (h + 1) - 1)
  last : p + 1 = width n h → total ≤ node'
  bound : node' ≤ node + (2 ^ (h + 1) - 1)

/-- simulation relation between the reference extractor's answer and the traversal's answer -/
def Rel (n total h p node : Nat) : Option (Bytes × PST) → Outcome (Bytes × St) → Prop
  | none, m => m = .err "BadData"
  | some (r, pst), m => ∃ st', m = .ok (r, st') ∧ toSpec st' = pst ∧ Post n total h p node st'.node

theorem addNode_ok (st : St) (k : Nat) (h : st.node + k < 2 ^ 64) :
    addNode st k = .ok { st with node := st.node + k } := by
  unfold addNode; rw [if_neg (by omega)]

theorem post_skip {n total h p node : Nat} (hpre : Pre n total h p node) :
    Post n total h p node (node + (2 ^ (h + 1) - 1)) := by
  refine ⟨fun _ => rfl, fun h2 => ?_, Nat.le_refl _⟩
  have := hpre.last h2
  have := sizeLast_le n h
  omega

theorem post_leaf {n total p node : Nat} (hpre : Pre n total 0 p node) :
    Post n total 0 p node (node + 1) := post_skip hpre

theorem left_lt {n h p : Nat} (hp : p < width n (h + 1)) : 2 * p < width n h := by
  rw [width_succ] at hp; omega

theorem pre_left {n total h p node : Nat} (hp : p < width n (h + 1))
    (hpre : Pre n total (h + 1) p node) : Pre n total h (2 * p) (node + 1) := by
  have h1 := hpre.nonlast
  have h2 := hpre.last
  have h3 := hpre.bound
  have e : 2 ^ (h + 1 + 1) = 2 * 2 ^ (h + 1) := by rw [Nat.pow_succ]; omega
  have hP := two_pow_pos' (h + 1)
  have hs := sizeLast_pos n h
  rw [width_succ] at hp h1 h2
  simp only [sizeLast] at h2
  refine ⟨fun a => ?_, fun a => ?_, by omega⟩
  · by_cases hl : p + 1 < (width n h + 1) / 2
    · have := h1 hl; omega
    · have hw : width n h % 2 = 0 := by omega
      have := h2 (by omega)
      rw [if_pos hw] at this
      omega
  · have hw : ¬ width n h % 2 = 0 := by omega
    have := h2 (by omega)
    rw [if_neg hw] at this
    omega

theorem pre_right {n total h p node : Nat} (hp : p < width n (h + 1))
    (hpre : Pre n total (h + 1) p node) (_hr : 2 * p + 1 < width n h) :
    Pre n total h (2 * p + 1) (node + 1 + (2 ^ (h + 1) - 1)) := by
  have h1 := hpre.nonlast
  have h2 := hpre.last
  have h3 := hpre.bound
  have e : 2 ^ (h + 1 + 1) = 2 * 2 ^ (h + 1) := by rw [Nat.pow_succ]; omega
  have hP := two_pow_pos' (h + 1)
  have hs := sizeLast_pos n h
  rw [width_succ] at hp h1 h2
  simp only [sizeLast] at h2
  refine ⟨fun a => ?_, fun a => ?_, by omega⟩
  · have := h1 (by omega); omega
  · have hw : width n h % 2 = 0 := by omega
    have := h2 (by omega)
    rw [if_pos hw] at this
    omega

/-- after the left child: the counter has reached the total exactly when there is no right child -/
theorem left_done_iff {n total h p node node2 : Nat} (hp : p < width n (h + 1))
    (hpre : Pre n total (h + 1) p node) (postL : Post n total h (2 * p) (node + 1) node2) :
    node2 ≥ total ↔ ¬ (2 * p + 1 < width n h) := by
  have hl := left_lt hp
  have preL := pre_left hp hpre
  constructor
  · intro hge hr
    have := postL.nonlast hr
    have := preL.nonlast hr
    omega
  · intro hr
    exact postL.last (by omega)

theorem post_parent_two {n total h p node node2 node3 : Nat} (_hp : p < width n (h + 1))
    (hr : 2 * p + 1 < width n h)
    (postL : Post n total h (2 * p) (node + 1) node2)
    (postR : Post n total h (2 * p + 1) node2 node3) : Post n total (h + 1) p node node3 := by
  have e : 2 ^ (h + 1 + 1) = 2 * 2 ^ (h + 1) := by rw [Nat.pow_succ]; omega
  have hP := two_pow_pos' (h + 1)
  have l1 := postL.nonlast hr
  have r1 := postR.nonlast
  have r2 := postR.last
  have r3 := postR.bound
  have ws := width_succ n h
  refine ⟨fun a => ?_, fun a => ?_, by omega⟩
  · have := r1 (by omega); omega
  · exact r2 (by omega)

theorem post_parent_one {n total h p node node2 : Nat} (hp : p < width n (h + 1))
    (hr : ¬ 2 * p + 1 < width n h)
    (postL : Post n total h (2 * p) (node + 1) node2) : Post n total (h + 1) p node node2 := by
  have e : 2 ^ (h + 1 + 1) = 2 * 2 ^ (h + 1) := by rw [Nat.pow_succ]; omega
  have hP := two_pow_pos' (h + 1)
  have hl := left_lt hp
  have l2 := postL.last (by omega)
  have l3 := postL.bound
  rw [width_succ] at hp
  have ws := width_succ n h
  refine ⟨fun a => ?_, fun _ => l2, by omega⟩
  omega

/-- **Simulation.**  Entered at node `(h, p)` (depth `D - h`) with a counter satisfying `Pre`, the
    counter-based traversal answers exactly as the position-based extractor does; in particular its
    test `counter ≥ total` after the left child is true iff there is no right child. -/
theorem sim (H : Bytes → Bytes) (n : Nat) (_hn : 1 ≤ n) (flags : Bytes) (hashes : List Bytes)
    (D total : Nat) (hD : D ≤ 62) :
    ∀ (h fuel depth p : Nat) (st : St), depth + h = D → h < fuel → p < width n h →
      Pre n total h p st.node →
      Rel n total h p st.node (extractAux H n (bitsOf flags) hashes h p (toSpec st))
        (traverse H flags hashes D total fuel depth st) := by
  intro h
  induction h with
  | zero =>
    intro fuel depth p st hd hf hp hpre
    obtain ⟨fuel, rfl⟩ : ∃ f, fuel = f + 1 := ⟨fuel - 1, by omega⟩
    have hdD : depth = D := by omega
    subst hdD
    rw [traverse, consumeFlag_eq, extractAux]
    simp only [toSpec]
    cases hb : (bitsOf flags)[st.bits]? with
    | none => simp [Rel]
    | some b =>
      cases b with
      | false =>
        simp only [if_true, Bool.false_eq_true, if_false, Nat.lt_irrefl, Nat.sub_self]
        have hb64 := hpre.bound
        rw [if_neg (by omega), addNode_ok _ _ (by simpa using hb64)]
        simp only [consumeHash_eq]
        cases hx : hashes[st.hashes]? with
        | none => simp [Rel]
        | some x =>
          simp only [Rel, toSpec, and_false, if_false]
          refine ⟨_, rfl, rfl, ?_⟩
          exact post_skip hpre
      | true =>
        simp only [if_true, Nat.succ_ne_zero, if_false]
        have hb64 := hpre.bound
        rw [addNode_ok _ _ (by simpa using hb64)]
        simp only [consumeHash_eq]
        cases hx : hashes[st.hashes]? with
        | none => simp [Rel]
        | some x =>
          simp only [Rel, toSpec, and_self, if_true]
          exact ⟨_, rfl, rfl, post_leaf hpre⟩
  | succ h ih =>
    intro fuel depth p st hd hf hp hpre
    obtain ⟨fuel, rfl⟩ : ∃ f, fuel = f + 1 := ⟨fuel - 1, by omega⟩
    have hdD : depth ≠ D := by omega
    rw [traverse, consumeFlag_eq, extractAux]
    simp only [toSpec]
    cases hb : (bitsOf flags)[st.bits]? with
    | none => simp [Rel]
    | some b =>
      cases b with
      | false =>
        simp only [if_true, Bool.false_eq_true, if_false]
        have e : D - depth = h + 1 := by omega
        have hb64 := hpre.bound
        rw [if_neg (by omega), if_neg (by omega), e, addNode_ok _ _ (by dsimp only; exact hb64)]
        simp only [consumeHash_eq]
        cases hx : hashes[st.hashes]? with
        | none => simp [Rel]
        | some x =>
          simp only [Rel, toSpec, and_false, if_false]
          exact ⟨_, rfl, rfl, post_skip hpre⟩
      | true =>
        simp only [if_true, Nat.succ_ne_zero, if_false, hdD]
        have hb64 := hpre.bound
        have hP := two_pow_pos' h
        rw [addNode_ok _ _ (by dsimp only; omega)]
        dsimp only
        have preL := pre_left hp hpre
        have ihL := ih fuel (depth + 1) (2 * p) ⟨st.node + 1, st.bits + 1, st.hashes, st.matched⟩
          (by omega) (by omega) (left_lt hp) preL
        simp only [toSpec] at ihL
        revert ihL
        generalize extractAux H n (bitsOf flags) hashes h (2 * p)
          { bitsUsed := st.bits + 1, hashUsed := st.hashes, matched := st.matched } = oL
        generalize traverse H flags hashes D total fuel (depth + 1)
          { node := st.node + 1, bits := st.bits + 1, hashes := st.hashes, matched := st.matched } = mL
        intro ihL
        cases oL with
        | none => simp only [Rel] at ihL; subst ihL; simp [Rel]
        | some v =>
          obtain ⟨left, pst1⟩ := v
          simp only [Rel] at ihL
          obtain ⟨st2, hm, hps, postL⟩ := ihL
          subst hm hps
          dsimp only
          by_cases hr : 2 * p + 1 < width n h
          · have hnd : ¬ st2.node ≥ total := fun hge => (left_done_iff hp hpre postL).mp hge hr
            rw [if_pos hr, if_neg hnd]
            have preR : Pre n total h (2 * p + 1) st2.node := by
              rw [postL.nonlast hr]; exact pre_right hp hpre hr
            have ihR := ih fuel (depth + 1) (2 * p + 1) st2 (by omega) (by omega) (by omega) preR
            revert ihR
            generalize extractAux H n (bitsOf flags) hashes h (2 * p + 1) (toSpec st2) = oR
            generalize traverse H flags hashes D total fuel (depth + 1) st2 = mR
            intro ihR
            cases oR with
            | none => simp only [Rel] at ihR; subst ihR; simp [Rel]
            | some v =>
              obtain ⟨right, pst2⟩ := v
              simp only [Rel] at ihR
              obtain ⟨st3, hm, hps, postR⟩ := ihR
              subst hm hps
              dsimp only
              by_cases hlr : left = right
              · simp [Rel, hlr]
              · simp only [hlr, if_false, Rel]
                exact ⟨_, rfl, rfl, post_parent_two hp hr postL postR⟩
          · have hnd : st2.node ≥ total := (left_done_iff hp hpre postL).mpr hr
            rw [if_neg hr, if_pos hnd]
            exact ⟨_, rfl, rfl, post_parent_one hp hr postL⟩

/-- **The node-count guard is dead code.**  Whenever the root traversal returns, the pre-order counter has
    reached the total: `preorder_node < total_nodes` ("Not all nodes consumed") can never be true. -/
theorem root_counter_reaches_total (depthOf : Nat → Nat) (H : Bytes → Bytes) (n : Nat) (hn : 1 ≤ n)
    (flags : Bytes) (hashes : List Bytes) (hD : IsClog n (depthOf n)) (hD62 : depthOf n ≤ 62)
    (r : Bytes) (st : St)
    (ht : traverse H flags hashes (depthOf n) (totalNodes n) (depthOf n + 1) 0 ⟨0, 0, 0, []⟩ = .ok (r, st)) :
    totalNodes n ≤ st.node := by
  have htot := totalNodes_eq n (depthOf n) hn hD
  have hw := width_eq_one hn hD
  have hpre : Pre n (totalNodes n) (depthOf n) 0 (St.mk 0 0 0 []).node := by
    refine ⟨fun a => ?_, fun _ => ?_, ?_⟩
    · omega
    · dsimp only; omega
    · dsimp only
      have : 2 ^ (depthOf n + 1) ≤ 2 ^ 63 := Nat.pow_le_pow_right (by decide) (by omega)
      omega
  have hs := sim H n hn flags hashes (depthOf n) (totalNodes n) hD62 (depthOf n) (depthOf n + 1) 0 0
    ⟨0, 0, 0, []⟩ (by omega) (by omega) (by omega) hpre
  rw [ht] at hs
  revert hs
  generalize extractAux H n (bitsOf flags) hashes (depthOf n) 0 (toSpec ⟨0, 0, 0, []⟩) = o
  intro hs
  cases o with
  | none => simp [Rel] at hs
  | some v =>
    obtain ⟨r', pst⟩ := v
    simp only [Rel] at hs
    obtain ⟨st', hm, _, post⟩ := hs
    injection hm with hm
    injection hm with _ hm
    subst hm
    exact post.last (by omega)

/-! ## 6. The all-consumed checks -/

theorem extractAux_le (H : Bytes → Bytes) (n : Nat) (bits : List Bool) (hashes : List Bytes) :
    ∀ (h p : Nat) (st : PST) (r : Bytes) (st' : PST),
      extractAux H n bits hashes h p st = some (r, st') →
      st.bitsUsed ≤ bits.length → st.hashUsed ≤ hashes.length →
      st'.bitsUsed ≤ bits.length ∧ st'.hashUsed ≤ hashes.length := by
  intro h
  induction h with
  | zero =>
    intro p st r st' he hb hh
    rw [extractAux] at he
    cases hbit : bits[st.bitsUsed]? with
    | none => simp [hbit] at he
    | some b =>
      have h1 := (List.getElem?_eq_some_iff.mp hbit).1
      simp only [hbit] at he
      cases hx : hashes[st.hashUsed]? with
      | none => simp [hx] at he
      | some x =>
        have h2 := (List.getElem?_eq_some_iff.mp hx).1
        simp only [hx] at he
        split at he <;> (injection he with he; injection he with _ he; subst he; dsimp only; omega)
  | succ h ih =>
    intro p st r st' he hb hh
    rw [extractAux] at he
    cases hbit : bits[st.bitsUsed]? with
    | none => simp [hbit] at he
    | some b =>
      have h1 := (List.getElem?_eq_some_iff.mp hbit).1
      simp only [hbit] at he
      cases b with
      | false =>
        dsimp only at he
        cases hx : hashes[st.hashUsed]? with
        | none => simp [hx] at he
        | some x =>
          have h2 := (List.getElem?_eq_some_iff.mp hx).1
          simp only [hx] at he
          split at he <;> (injection he with he; injection he with _ he; subst he; dsimp only; omega)
      | true =>
        dsimp only at he
        cases hL : extractAux H n bits hashes h (2 * p)
            { bitsUsed := st.bitsUsed + 1, hashUsed := st.hashUsed, matched := st.matched } with
        | none => simp [hL] at he
        | some v =>
          obtain ⟨left, st1⟩ := v
          have i1 := ih _ _ _ _ hL (by dsimp only; omega) (by dsimp only; omega)
          simp only [hL] at he
          split at he
          · cases hR : extractAux H n bits hashes h (2 * p + 1) st1 with
            | none => simp [hR] at he
            | some v =>
              obtain ⟨right, st2⟩ := v
              have i2 := ih _ _ _ _ hR i1.1 i1.2
              simp only [hR] at he
              split at he
              · simp at he
              · injection he with he; injection he with _ he; subst he; exact i2
          · injection he with he; injection he with _ he; subst he; exact i1

theorem validateWith_eq_extract (depthOf : Nat → Nat) (H : Bytes → Bytes) (n : Nat) (flags : Bytes)
    (hashes : List Bytes) (root : Bytes)
    (hdep : 1 ≤ n → IsClog n (depthOf n) ∧ depthOf n ≤ 62) :
    validateWith depthOf H n flags hashes root =
      match extract H n flags hashes root with
      | some m => .ok m
      | none => .err "BadData" := by
  unfold validateWith extract
  by_cases h0 : n = 0
  · simp [h0]
  · have hn : 1 ≤ n := by omega
    obtain ⟨hD, hD62⟩ := hdep hn
    rw [if_neg h0, if_neg h0]
    have hh : height n = depthOf n := (height_isClog n).unique hD
    have htot := totalNodes_eq n (depthOf n) hn hD
    have hw := width_eq_one hn hD
    rw [hh]
    dsimp only
    have hpre : Pre n (totalNodes n) (depthOf n) 0 (St.mk 0 0 0 []).node := by
      refine ⟨fun a => ?_, fun _ => ?_, ?_⟩
      · omega
      · dsimp only; omega
      · dsimp only
        have : 2 ^ (depthOf n + 1) ≤ 2 ^ 63 := Nat.pow_le_pow_right (by decide) (by omega)
        omega
    have hs := sim H n hn flags hashes (depthOf n) (totalNodes n) hD62 (depthOf n) (depthOf n + 1) 0 0
      ⟨0, 0, 0, []⟩ (by omega) (by omega) (by omega) hpre
    have hle := extractAux_le H n (bitsOf flags) hashes (depthOf n) 0 ⟨0, 0, []⟩
    revert hs hle
    simp only [toSpec]
    generalize extractAux H n (bitsOf flags) hashes (depthOf n) 0 ⟨0, 0, []⟩ = o
    generalize traverse H flags hashes (depthOf n) (totalNodes n) (depthOf n + 1) 0 ⟨0, 0, 0, []⟩ = m
    intro hs hle
    cases o with
    | none => simp only [Rel] at hs; subst hs; rfl
    | some v =>
      obtain ⟨r, pst⟩ := v
      simp only [Rel] at hs
      obtain ⟨st', hm, hps, post⟩ := hs
      subst hm hps
      have hl := hle r _ rfl (by omega) (by omega)
      rw [bitsOf_length] at hl
      have hnode := post.last (by omega)
      dsimp only [toSpec] at hl ⊢
      rw [bitsOf_length]
      have e8 : (8 * flags.length + 7) / 8 = flags.length := by omega
      rw [e8]
      by_cases hr : r = root
      · by_cases hb : (st'.bits + 7) / 8 = flags.length
        · by_cases hx : st'.hashes = hashes.length
          · simp [hr, hb, hx]; omega
          · have : st'.hashes < hashes.length := by omega
            simp [hr, hb, hx, this]
        · have : (st'.bits + 7) / 8 < flags.length := by omega
          simp [hr, hb, this]
      · simp [hr]

/-! ## 7. Root by position = root level by level -/

/-- row `h` of the tree: `h` rounds of pairing -/
def level (H : Bytes → Bytes) (txids : List Bytes) : Nat → List Bytes
  | 0 => txids
  | h + 1 => pairUp H (level H txids h)

theorem level_length (H : Bytes → Bytes) (txids : List Bytes) (h : Nat) :
    (level H txids h).length = width txids.length h := by
  induction h with
  | zero => simp [level, width_zero]
  | succ h ih => rw [level, pairUp_length, ih, width_succ]

theorem pairUp_getD (H : Bytes → Bytes) (l : List Bytes) :
    ∀ p, 2 * p < l.length →
      (pairUp H l)[p]?.getD [] =
        H (l[2 * p]?.getD [] ++ (if 2 * p + 1 < l.length then l[2 * p + 1]?.getD [] else l[2 * p]?.getD [])) := by
  induction l using pairUp.induct with
  | case1 => intro p hp; simp at hp
  | case2 a =>
    intro p hp
    have : p = 0 := by simp at hp; omega
    subst this
    simp [pairUp]
  | case3 a b r ih =>
    intro p hp
    cases p with
    | zero => simp [pairUp]
    | succ p =>
      have e1 : 2 * (p + 1) = 2 * p + 1 + 1 := by omega
      have e2 : 2 * (p + 1) + 1 = 2 * p + 1 + 1 + 1 := by omega
      simp only [pairUp, List.getElem?_cons_succ, e1, List.length_cons] 
      rw [ih p (by simp only [List.length_cons] at hp; omega)]
      by_cases hc : 2 * p + 1 < r.length
      · rw [if_pos hc, if_pos (by omega)]
      · rw [if_neg hc, if_neg (by omega)]

theorem calcHash_eq_level (H : Bytes → Bytes) (txids : List Bytes) :
    ∀ h p, p < width txids.length h → calcHash H txids h p = (level H txids h)[p]?.getD [] := by
  intro h
  induction h with
  | zero => intro p _; simp [calcHash, level]
  | succ h ih =>
    intro p hp
    have hl := left_lt hp
    rw [calcHash, level, pairUp_getD H _ p (by rw [level_length]; exact hl), level_length]
    rw [ih (2 * p) hl]
    by_cases hr : 2 * p + 1 < width txids.length h
    · rw [if_pos hr, if_pos hr, ih _ hr]
    · rw [if_neg hr, if_neg hr]

theorem merkleRoot_level (H : Bytes → Bytes) (txids : List Bytes) (D : Nat)
    (hn : 1 ≤ txids.length) (hD : IsClog txids.length D) :
    ∀ k h, h + k = D →
      Spec.Bip37.merkleRoot H (level H txids h) = some ((level H txids D)[0]?.getD []) := by
  intro k
  induction k with
  | zero =>
    intro h hh
    have : h = D := by omega
    subst this
    have hl := level_length H txids h
    rw [width_eq_one hn hD] at hl
    match hlv : level H txids h, hl with
    | [a], _ => simp [Spec.Bip37.merkleRoot]
  | succ k ih =>
    intro h hh
    have hw : width txids.length h > 1 := (width_gt_one_iff _ _).mpr (hD.2 h (by omega))
    have hl := level_length H txids h
    match hlv : level H txids h, hl with
    | [], hl => simp at hl; omega
    | [a], hl => simp at hl; omega
    | a :: b :: r, _ =>
      rw [merkleRoot_cons2, ← hlv, ← level]
      exact ih (h + 1) (by omega)

theorem merkleRoot_eq_rootByPosition (H : Bytes → Bytes) (txids : List Bytes) (hne : txids ≠ []) :
    Spec.Bip37.merkleRoot H txids = some (rootByPosition H txids) := by
  have hn : 1 ≤ txids.length := List.length_pos_iff.mpr hne
  have hD := height_isClog txids.length
  have := merkleRoot_level H txids _ hn hD (height txids.length) 0 (by omega)
  rw [level] at this
  rw [this, rootByPosition, calcHash_eq_level H txids _ 0 (by rw [width_eq_one hn hD]; omega)]

/-! ## 8. Bit packing -/

theorem bitsVal_testBit : ∀ (c : List Bool) (k : Nat), (bitsVal c).testBit k = c[k]?.getD false := by
  intro c
  induction c with
  | nil => intro k; simp [bitsVal]
  | cons b r ih =>
    intro k
    cases k with
    | zero =>
      simp only [bitsVal, Nat.testBit_zero, List.getElem?_cons_zero, Option.getD_some]
      cases b <;> simp <;> omega
    | succ k =>
      rw [Nat.testBit_succ, List.getElem?_cons_succ, ← ih k]
      congr 1
      simp only [bitsVal]
      cases b <;> simp <;> omega

theorem bitsVal_lt (c : List Bool) : bitsVal c < 2 ^ c.length := by
  induction c with
  | nil => simp [bitsVal]
  | cons b r ih =>
    simp only [bitsVal, List.length_cons, Nat.pow_succ]
    cases b <;> simp <;> omega

theorem chunk_roundtrip (c : List Bool) (hc : c.length ≤ 8) :
    bitsOfByte (byteOfBits c) = c ++ List.replicate (8 - c.length) false := by
  apply List.ext_getElem?
  intro k
  have hv : (byteOfBits c).toNat = bitsVal c := by
    unfold byteOfBits
    rw [UInt8.toNat_ofNat']
    have := bitsVal_lt c
    have : 2 ^ c.length ≤ 2 ^ 8 := Nat.pow_le_pow_right (by decide) hc
    omega
  by_cases hk : k < 8
  · rw [bitsOfByte_get _ _ hk, hv, bitsVal_testBit]
    by_cases hkc : k < c.length
    · rw [List.getElem?_append_left hkc, List.getElem?_eq_getElem hkc]; rfl
    · rw [List.getElem?_append_right (by omega), List.getElem?_eq_none (by omega)]
      rw [List.getElem?_replicate]
      simp; omega
  · rw [List.getElem?_eq_none (by rw [bitsOfByte_length]; omega),
        List.getElem?_eq_none (by simp; omega)]

theorem bitsOf_cons (b : UInt8) (r : Bytes) : bitsOf (b :: r) = bitsOfByte b ++ bitsOf r := by
  simp [bitsOf]

theorem packBits_spec : ∀ (fuel : Nat) (bs : List Bool), bs.length ≤ fuel →
    ∃ pad, bitsOf (packBits fuel bs) = bs ++ pad ∧ (packBits fuel bs).length = (bs.length + 7) / 8 := by
  intro fuel
  induction fuel using Nat.strongRecOn with
  | _ fuel ih =>
    intro bs hl
    cases fuel with
    | zero =>
      have : bs = [] := List.length_eq_zero_iff.mp (by omega)
      subst this
      exact ⟨[], by simp [packBits, bitsOf]⟩
    | succ fuel =>
      by_cases he : bs = []
      · subst he; exact ⟨[], by simp [packBits, bitsOf]⟩
      · have hpos : 0 < bs.length := List.length_pos_iff.mpr he
        have hem : bs.isEmpty = false := by simp [he]
        simp only [packBits, hem, Bool.false_eq_true, if_false]
        obtain ⟨pad', h1, h2⟩ := ih fuel (by omega) (bs.drop 8) (by simp; omega)
        rw [bitsOf_cons, chunk_roundtrip _ (by simp; omega), h1, List.length_cons, h2]
        refine ⟨List.replicate (8 - (bs.take 8).length) false ++ pad', ?_, ?_⟩
        · by_cases h8 : 8 ≤ bs.length
          · have : (bs.take 8).length = 8 := by simp; omega
            rw [this]
            simp only [Nat.sub_self, List.replicate_zero, List.append_nil, List.nil_append]
            rw [← List.append_assoc, List.take_append_drop]
          · have e1 : bs.take 8 = bs := List.take_of_length_le (by omega)
            have e2 : bs.drop 8 = [] := List.drop_eq_nil_of_le (by omega)
            rw [e1, e2]
            simp
        · simp only [List.length_drop]
          omega

theorem bytesOfBits_spec (bs : List Bool) :
    ∃ pad, bitsOf (bytesOfBits bs) = bs ++ pad ∧ (bytesOfBits bs).length = (bs.length + 7) / 8 :=
  packBits_spec bs.length bs (Nat.le_refl _)

/-! ## 9. Leaves below a node -/

/-- the entries of a per-transaction list that lie below node `(h, p)` -/
def slice {α : Type} (h p : Nat) (l : List α) : List α := (l.drop (p * 2 ^ h)).take (2 ^ h)

theorem slice_succ {α : Type} (h p : Nat) (l : List α) :
    slice (h + 1) p l = slice h (2 * p) l ++ slice h (2 * p + 1) l := by
  unfold slice
  have e1 : 2 ^ (h + 1) = 2 ^ h + 2 ^ h := by rw [Nat.pow_succ]; omega
  have e2 : p * 2 ^ (h + 1) = 2 * p * 2 ^ h := by rw [Nat.pow_succ]; rw [Nat.mul_comm (2 ^ h) 2, Nat.mul_assoc, Nat.mul_left_comm]
  have e3 : (2 * p + 1) * 2 ^ h = 2 * p * 2 ^ h + 2 ^ h := by rw [Nat.add_mul]; simp
  rw [e2, e1, e3, List.take_add, List.drop_drop]

theorem slice_out {α : Type} (h p : Nat) (l : List α) (ho : l.length ≤ p * 2 ^ h) : slice h p l = [] := by
  unfold slice
  rw [List.drop_eq_nil_of_le ho]; simp

theorem slice_length {α : Type} (h p : Nat) (l : List α) :
    (slice h p l).length = min (2 ^ h) (l.length - p * 2 ^ h) := by
  simp [slice]

theorem slice_leaf {α : Type} (p : Nat) (l : List α) (hp : p < l.length) : slice 0 p l = [l[p]] := by
  unfold slice
  simp only [Nat.pow_zero, Nat.mul_one]
  rw [List.drop_eq_getElem_cons hp]
  simp [List.take]

theorem slice_top {α : Type} (D : Nat) (l : List α) (hD : l.length ≤ 2 ^ D) : slice D 0 l = l := by
  unfold slice
  simp only [Nat.zero_mul, List.drop_zero]
  exact List.take_of_length_le hD

theorem parentOfMatch_eq (matched : List Bool) (h p : Nat) :
    parentOfMatch matched h p = (slice h p matched).any id := rfl

theorem matchedIds_none (ts : List Bytes) (ms : List Bool) (hm : ms.any id = false) :
    matchedIds ts ms = [] := by
  induction ms generalizing ts with
  | nil => cases ts <;> simp [matchedIds]
  | cons m ms ih =>
    cases ts with
    | nil => simp [matchedIds]
    | cons t ts =>
      simp only [List.any_cons, id, Bool.or_eq_false_iff] at hm
      have := ih ts hm.2
      simp only [matchedIds] at this ⊢
      simp [hm.1, this]

theorem matchedIds_append (t1 t2 : List Bytes) (m1 m2 : List Bool) (hl : t1.length = m1.length) :
    matchedIds (t1 ++ t2) (m1 ++ m2) = matchedIds t1 m1 ++ matchedIds t2 m2 := by
  unfold matchedIds
  rw [List.zip_append hl, List.filterMap_append]

/-- no right child means no leaves there -/
theorem no_right_leaves {n h q : Nat} (hq : ¬ q < width n h) : n ≤ q * 2 ^ h := by
  unfold width at hq
  have hp := two_pow_pos' h
  have : (n + 2 ^ h - 1) / 2 ^ h ≤ q := by omega
  have := (Nat.div_le_iff_le_mul_add_pred hp).mp this
  rw [Nat.mul_comm] at this
  omega

/-! ## 10. The builder's output is parsed back -/

theorem get_mid {α : Type} (pre : List α) (x : α) (rest : List α) :
    (pre ++ x :: rest)[pre.length]? = some x := by simp

/-- no two sibling subtrees of the full tree hash equal -/
def NoEqualSiblings (H : Bytes → Bytes) (txids : List Bytes) : Prop :=
  ∀ h p, 2 * p + 1 < width txids.length h → calcHash H txids h (2 * p) ≠ calcHash H txids h (2 * p + 1)

theorem build_extract (H : Bytes → Bytes) (txids : List Bytes) (matched : List Bool)
    (hm : matched.length = txids.length) (hsib : NoEqualSiblings H txids) :
    ∀ (h p : Nat), p < width txids.length h → ∀ (b0 : List Bool) (h0 : List Bytes),
      ∃ db dh, buildAux H txids matched h p (b0, h0) = (b0 ++ db, h0 ++ dh) ∧
        ∀ (pre suf : List Bool) (preh sufh : List Bytes) (m : List Bytes),
          extractAux H txids.length (pre ++ db ++ suf) (preh ++ dh ++ sufh) h p ⟨pre.length, preh.length, m⟩ =
            some (calcHash H txids h p,
              ⟨pre.length + db.length, preh.length + dh.length,
               m ++ matchedIds (slice h p txids) (slice h p matched)⟩) := by
  intro h
  induction h with
  | zero =>
    intro p hp b0 h0
    rw [width_zero] at hp
    refine ⟨[parentOfMatch matched 0 p], [calcHash H txids 0 p], ?_, ?_⟩
    · rw [buildAux]
      intro h hh; cases hh
    · intro pre suf preh sufh m
      rw [extractAux]
      simp only [List.append_assoc, List.cons_append, List.nil_append, get_mid]
      rw [slice_leaf p txids hp, slice_leaf p matched (by omega)]
      have hpm : parentOfMatch matched 0 p = matched[p]'(by omega) := by
        rw [parentOfMatch_eq, slice_leaf p matched (by omega)]; simp
      rw [hpm]
      have hc : calcHash H txids 0 p = txids[p] := by
        simp [calcHash, List.getElem?_eq_getElem hp]
      rw [hc]
      cases hb : matched[p]'(by omega) <;> simp [matchedIds]
  | succ h ih =>
    intro p hp b0 h0
    cases hpm : parentOfMatch matched (h + 1) p with
    | false =>
      refine ⟨[false], [calcHash H txids (h + 1) p], ?_, ?_⟩
      · unfold buildAux
        simp only [hpm]
      · intro pre suf preh sufh m
        rw [extractAux]
        simp only [List.append_assoc, List.cons_append, List.nil_append, get_mid]
        rw [parentOfMatch_eq] at hpm
        rw [matchedIds_none _ _ hpm]
        simp
    | true =>
      obtain ⟨dbL, dhL, eL, xL⟩ := ih (2 * p) (left_lt hp) (b0 ++ [true]) h0
      by_cases hr : 2 * p + 1 < width txids.length h
      · obtain ⟨dbR, dhR, eR, xR⟩ := ih (2 * p + 1) hr (b0 ++ [true] ++ dbL) (h0 ++ dhL)
        refine ⟨true :: (dbL ++ dbR), dhL ++ dhR, ?_, ?_⟩
        · simp only [List.append_assoc, List.cons_append, List.nil_append] at eL eR
          unfold buildAux
          simp only [hpm, eL, if_pos hr, eR]
        · intro pre suf preh sufh m
          rw [extractAux]
          simp only [List.append_assoc, List.cons_append, get_mid]
          have xl := xL (pre ++ [true]) (dbR ++ suf) preh (dhR ++ sufh) m
          simp only [List.append_assoc, List.cons_append, List.nil_append, List.length_append,
            List.length_cons, List.length_nil] at xl
          rw [xl]
          simp only [if_pos hr]
          have xr := xR (pre ++ [true] ++ dbL) suf (preh ++ dhL) sufh
            (m ++ matchedIds (slice h (2 * p) txids) (slice h (2 * p) matched))
          simp only [List.append_assoc, List.cons_append, List.nil_append, List.length_append,
            List.length_cons] at xr
          simp only [Nat.zero_add] at xl xr ⊢
          rw [show pre.length + 1 + dbL.length = pre.length + (dbL.length + 1) by omega, xr]
          have hne := hsib h p hr
          simp only [hne, if_false]
          rw [calcHash, if_pos hr, slice_succ, slice_succ,
            matchedIds_append _ _ _ _ (by rw [slice_length, slice_length, hm])]
          simp only [List.length_cons, List.length_append]
          congr 3
          · omega
          · omega
      · refine ⟨true :: dbL, dhL, ?_, ?_⟩
        · simp only [List.append_assoc, List.cons_append, List.nil_append] at eL
          unfold buildAux
          simp only [hpm, eL, if_neg hr]
        · intro pre suf preh sufh m
          rw [extractAux]
          simp only [List.append_assoc, List.cons_append, get_mid]
          have xl := xL (pre ++ [true]) suf preh sufh m
          simp only [List.append_assoc, List.cons_append, List.nil_append, List.length_append,
            List.length_cons, List.length_nil] at xl
          simp only [Nat.zero_add] at xl ⊢
          rw [xl]
          simp only [if_neg hr]
          have ho := no_right_leaves hr
          rw [calcHash, if_neg hr, slice_succ, slice_succ,
            slice_out h (2 * p + 1) txids ho, slice_out h (2 * p + 1) matched (by omega)]
          simp only [List.append_nil, List.length_cons]
          congr 3
          omega

theorem built_extract_top (H : Bytes → Bytes) (txids : List Bytes) (matched : List Bool)
    (hne : txids ≠ []) (hm : matched.length = txids.length) (hsib : NoEqualSiblings H txids) :
    extract H txids.length (build H txids matched).1 (build H txids matched).2 (rootByPosition H txids) =
      some (matchedIds txids matched) := by
  have hn : 1 ≤ txids.length := List.length_pos_iff.mpr hne
  have hD := height_isClog txids.length
  obtain ⟨db, dh, e, x⟩ := build_extract H txids matched hm hsib (height txids.length) 0
    (by rw [width_eq_one hn hD]; omega) [] []
  simp only [List.nil_append] at e
  obtain ⟨pad, hb, hlen⟩ := bytesOfBits_spec db
  have hx := x [] pad [] [] []
  simp only [List.nil_append, List.append_nil, List.length_nil, Nat.zero_add] at hx
  rw [slice_top _ txids hD.1, slice_top _ matched (by rw [hm]; exact hD.1)] at hx
  unfold build
  rw [e]
  dsimp only
  unfold extract
  rw [if_neg (by omega)]
  dsimp only
  rw [hb, hx]
  dsimp only
  have hbl := bitsOf_length (bytesOfBits db)
  rw [hb, hlen] at hbl
  rw [hbl]
  have e8 : (8 * ((db.length + 7) / 8) + 7) / 8 = (db.length + 7) / 8 := by omega
  rw [e8]
  simp [rootByPosition]

end CG.Proofs.Merkle

import CG.Proofs.Wordlists
import CG.Generated.Wordlists.ChineseSimplified
/-! Kernel evaluation of the word-list checker on the generated `chineseSimplified` list (regenerated from
`load_wordlist` on every run; this proof is re-checked whenever the list changes). -/
namespace CG.Proofs.Wordlists
open CG.Generated.Wordlists

theorem chineseSimplified_ok : keysOk chineseSimplifiedKeys = true := by decide +kernel

end CG.Proofs.Wordlists

import CG.Proofs.Wordlists
import CG.Generated.Wordlists.Korean
/-! Kernel evaluation of the word-list checker on the generated `korean` list (regenerated from
`load_wordlist` on every run; this proof is re-checked whenever the list changes). -/
namespace CG.Proofs.Wordlists
open CG.Generated.Wordlists

theorem korean_ok : keysOk koreanKeys = true := by decide +kernel

end CG.Proofs.Wordlists

import CG.Proofs.Wordlists
import CG.Generated.Wordlists.Japanese
/-! Kernel evaluation of the word-list checker on the generated `japanese` list (regenerated from
`load_wordlist` on every run; this proof is re-checked whenever the list changes). -/
namespace CG.Proofs.Wordlists
open CG.Generated.Wordlists

theorem japanese_ok : keysOk japaneseKeys = true := by decide +kernel

end CG.Proofs.Wordlists

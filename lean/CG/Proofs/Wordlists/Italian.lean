import CG.Proofs.Wordlists
import CG.Generated.Wordlists.Italian
/-! Kernel evaluation of the word-list checker on the generated `italian` list (regenerated from
`load_wordlist` on every run; this proof is re-checked whenever the list changes). -/
namespace CG.Proofs.Wordlists
open CG.Generated.Wordlists

theorem italian_ok : keysOk italianKeys = true := by decide +kernel

end CG.Proofs.Wordlists

import CG.Proofs.Wordlists
import CG.Generated.Wordlists.English
/-! Kernel evaluation of the word-list checker on the generated `english` list (regenerated from
`load_wordlist` on every run; this proof is re-checked whenever the list changes). -/
namespace CG.Proofs.Wordlists
open CG.Generated.Wordlists

theorem english_ok : keysOk englishKeys = true := by decide +kernel

end CG.Proofs.Wordlists

import CG.Proofs.Wordlists
import CG.Generated.Wordlists.Spanish
/-! Kernel evaluation of the word-list checker on the generated `spanish` list (regenerated from
`load_wordlist` on every run; this proof is re-checked whenever the list changes). -/
namespace CG.Proofs.Wordlists
open CG.Generated.Wordlists

theorem spanish_ok : keysOk spanishKeys = true := by decide +kernel

end CG.Proofs.Wordlists

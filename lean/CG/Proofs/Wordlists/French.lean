import CG.Proofs.Wordlists
import CG.Generated.Wordlists.French
/-! Kernel evaluation of the word-list checker on the generated `french` list (regenerated from
`load_wordlist` on every run; this proof is re-checked whenever the list changes). -/
namespace CG.Proofs.Wordlists
open CG.Generated.Wordlists

theorem french_ok : keysOk frenchKeys = true := by decide +kernel

end CG.Proofs.Wordlists

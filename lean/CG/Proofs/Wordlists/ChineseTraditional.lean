import CG.Proofs.Wordlists
import CG.Generated.Wordlists.ChineseTraditional
/-! Kernel evaluation of the word-list checker on the generated `chineseTraditional` list (regenerated from
`load_wordlist` on every run; this proof is re-checked whenever the list changes). -/
namespace CG.Proofs.Wordlists
open CG.Generated.Wordlists

theorem chineseTraditional_ok : keysOk chineseTraditionalKeys = true := by decide +kernel

end CG.Proofs.Wordlists

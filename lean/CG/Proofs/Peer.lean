import CG.Model.Peer
import CG.Spec.PeerSpec
/-!
Helper lemmas for C12: the reachable-state invariant of the peer state machine, per-step facts
(proved by exhaustive case analysis of the finite control state) and their lifting to arbitrary
event lists by induction.
-/
set_option linter.unusedSimpArgs false
namespace CG.Proofs.Peer
open CG CG.Model.Peer CG.Spec.PeerSpec

/-! ### Projections distribute over concatenation -/

@[simp] theorem delivered_nil : delivered [] = [] := rfl
@[simp] theorem delivered_append (a b : List Output) : delivered (a ++ b) = delivered a ++ delivered b := by
  simp [delivered]
@[simp] theorem pongs_nil : pongs [] = [] := rfl
@[simp] theorem pongs_append (a b : List Output) : pongs (a ++ b) = pongs a ++ pongs b := by
  simp [pongs]
@[simp] theorem sendResults_nil : sendResults [] = [] := rfl
@[simp] theorem sendResults_append (a b : List Output) : sendResults (a ++ b) = sendResults a ++ sendResults b := by
  simp [sendResults]
@[simp] theorem wires_nil : wires [] = [] := rfl
@[simp] theorem wires_append (a b : List Output) : wires (a ++ b) = wires a ++ wires b := by
  simp [wires]

theorem runFrom_nil (f) (s : State) : runFrom f s [] = (s, []) := rfl
theorem runFrom_cons (f) (s : State) (e : Event) (es : List Event) :
    runFrom f s (e :: es) = ((runFrom f (step f s e).1 es).1, (step f s e).2 ++ (runFrom f (step f s e).1 es).2) := rfl

theorem runFrom_append (f) (a b : List Event) (s : State) :
    runFrom f s (a ++ b) =
      ((runFrom f (runFrom f s a).1 b).1, (runFrom f s a).2 ++ (runFrom f (runFrom f s a).1 b).2) := by
  induction a generalizing s with
  | nil => simp [runFrom_nil]
  | cons e es ih => simp [runFrom_cons, ih, List.append_assoc]

/-! ### The reachable-state invariant -/

/-- * during the handshake: not connected, no writer, connected event not published;
    * in the receive loop: writer kept, connected event published, and the flag is down only if
      `disconnect()` has run (so the disconnected event is published);
    * thread returned: flag down, disconnected event published. -/
def invB (s : State) : Bool :=
  match s.phase with
  | .awaitVersion | .awaitVerack => !s.flag && !s.writer && !s.connFired
  | .connected => s.writer && s.connFired && (s.flag || s.discFired)
  | .dead => !s.flag && s.discFired

theorem inv_init : invB init = true := rfl

/-! ### Definitions used by the lemmas -/

@[simp] def b2n (b : Bool) : Nat := if b then 1 else 0

def annState (s : State) : Nat × Bool × Bool := (s.minfee, s.sendheaders, s.sendcmpct)

def quiet (s : State) : Bool :=
  !s.flag && s.discFired && (s.phase == .connected || s.phase == .dead)

/-- the only outputs from a quiet state: each `send` call fails with `IllegalState` -/
def sendErrs (evs : List Event) : List Output :=
  evs.filterMap fun
    | .localSend _ => some (.sendResult (some .illegalState))
    | _ => none

/-- `e`, arriving in state `s`, is a fault of the remote: it closes, sends something that is not a
    message, stays silent during the handshake, sends the wrong handshake message, or sends a
    version the filter rejects -/
def remoteFault (f : VersionInfo → Bool) (s : State) : Event → Bool
  | .remoteClose => true
  | .remoteGarbage _ => true
  | .remoteSilence => s.phase == .awaitVersion || s.phase == .awaitVerack
  | .remoteFrame m =>
    match s.phase with
    | .awaitVersion => !acceptable f m
    | .awaitVerack => !isVerack m
    | _ => false
  | _ => false

/-- `seen` = the connected event has already been published: a log is in order when it publishes
    the connected event at most once and delivers messages only after it -/
@[simp] def okOrder : List Output → Bool → Bool
  | [], _ => true
  | o :: r, seen =>
    match o with
    | .emitConnected => !seen && okOrder r true
    | .deliver _ => seen && okOrder r seen
    | _ => okOrder r seen

/-- outputs that belong to the handshake -/
def isHs : Output → Bool
  | .wrote .version | .wrote .verack | .wrote .hsPing | .emitConnected => true
  | _ => false

def inHandshake (s : State) : Bool := s.phase == .awaitVersion || s.phase == .awaitVerack

/-- the receive loop is running with the flag up -/
def live (s : State) : Bool := s.phase == .connected && s.flag && s.writer

/-- a `send` call with a message that can be written -/
def benign : Event → Bool
  | .localSend m => m.writable
  | .localDisconnect => false
  | _ => true

/-- the definitions unfolded by the per-step case analyses -/
macro "peer_simp" : tactic =>
  `(tactic| simp_all [invB, step, onReadError, threadFail, disconnect, completeHandshake, onFrameConnected,
      handleMessage, send, delivered, pongs, sendResults, wires, pingNonce, applyAnn, annState, quiet, sendErrs,
      remoteFault, acceptable, isVerack, frameOf, isHs, inHandshake, live, benign, Event.isLocal, wireOf])

/-- exhaustive case analysis of the finite control state -/
macro "peer_states" ph:ident fl:ident wr:ident cf:ident df:ident : tactic =>
  `(tactic| (cases $ph:ident <;> cases $fl:ident <;> cases $wr:ident <;> cases $cf:ident <;> cases $df:ident <;> peer_simp))

/-- exhaustive case analysis of one step: event, message kind, the filter's answer, writability,
    control state; every leaf is closed by `peer_simp` -/
macro "peer_step" f:ident s:ident e:ident : tactic =>
  `(tactic|
    (obtain ⟨ph, fl, wr, cf, df, mf, sh, sc⟩ := $s:ident
     cases $e:ident with
     | remoteFrame m =>
       obtain ⟨k, t, w⟩ := m
       cases k with
       | version v => cases hf : $f:ident v <;> peer_states ph fl wr cf df
       | _ => peer_states ph fl wr cf df
     | remoteGarbage g => peer_states ph fl wr cf df
     | remoteClose => peer_states ph fl wr cf df
     | remoteSilence => peer_states ph fl wr cf df
     | localSend m =>
       obtain ⟨k, t, w⟩ := m
       cases w <;> peer_states ph fl wr cf df
     | localDisconnect => peer_states ph fl wr cf df))

theorem inv_step (f : VersionInfo → Bool) (s : State) (e : Event) (h : invB s = true) :
    invB (step f s e).1 = true := by
  peer_step f s e

theorem inv_runFrom (f : VersionInfo → Bool) (evs : List Event) (s : State) (h : invB s = true) :
    invB (runFrom f s evs).1 = true := by
  induction evs generalizing s with
  | nil => simpa [runFrom_nil] using h
  | cons e es ih => simpa [runFrom_cons] using ih _ (inv_step f s e h)

/-! ### Single-shot events: counted against the `Single`'s stored value -/

theorem conn_count_step (f : VersionInfo → Bool) (s : State) (e : Event) :
    List.count .emitConnected (step f s e).2 + b2n s.connFired = b2n (step f s e).1.connFired := by
  peer_step f s e

theorem disc_count_step (f : VersionInfo → Bool) (s : State) (e : Event) :
    List.count .emitDisconnected (step f s e).2 + b2n s.discFired = b2n (step f s e).1.discFired := by
  peer_step f s e

theorem conn_count_run (f : VersionInfo → Bool) (evs : List Event) (s : State) :
    List.count .emitConnected (runFrom f s evs).2 + b2n s.connFired = b2n (runFrom f s evs).1.connFired := by
  induction evs generalizing s with
  | nil => simp only [runFrom_nil, List.count_nil, Nat.zero_add]
  | cons e es ih =>
    have h1 := conn_count_step f s e
    have h2 := ih (step f s e).1
    simp only [runFrom_cons, List.count_append]
    omega

theorem disc_count_run (f : VersionInfo → Bool) (evs : List Event) (s : State) :
    List.count .emitDisconnected (runFrom f s evs).2 + b2n s.discFired = b2n (runFrom f s evs).1.discFired := by
  induction evs generalizing s with
  | nil => simp only [runFrom_nil, List.count_nil, Nat.zero_add]
  | cons e es ih =>
    have h1 := disc_count_step f s e
    have h2 := ih (step f s e).1
    simp only [runFrom_cons, List.count_append]
    omega

/-- the disconnected `Single` never loses its value -/
theorem disc_mono_step (f : VersionInfo → Bool) (s : State) (e : Event) (h : s.discFired = true) :
    (step f s e).1.discFired = true := by
  peer_step f s e

theorem disc_mono_run (f : VersionInfo → Bool) (evs : List Event) (s : State) (h : s.discFired = true) :
    (runFrom f s evs).1.discFired = true := by
  induction evs generalizing s with
  | nil => simpa [runFrom_nil] using h
  | cons e es ih => simpa [runFrom_cons] using ih _ (disc_mono_step f s e h)

/-! ### Order: the connected event precedes every delivery -/

theorem okOrder_append (a b : List Output) (seen : Bool) :
    okOrder (a ++ b) seen = (okOrder a seen && okOrder b (seen || a.contains .emitConnected)) := by
  induction a generalizing seen with
  | nil => simp [okOrder]
  | cons o r ih =>
    cases o <;> cases seen <;> simp [okOrder, ih]

theorem order_step (f : VersionInfo → Bool) (s : State) (e : Event) (h : invB s = true) :
    okOrder (step f s e).2 s.connFired = true ∧
    (step f s e).1.connFired = (s.connFired || (step f s e).2.contains .emitConnected) := by
  peer_step f s e

theorem order_run (f : VersionInfo → Bool) (evs : List Event) (s : State) (h : invB s = true) :
    okOrder (runFrom f s evs).2 s.connFired = true ∧
    (runFrom f s evs).1.connFired = (s.connFired || (runFrom f s evs).2.contains .emitConnected) := by
  induction evs generalizing s with
  | nil => simp [runFrom_nil, okOrder]
  | cons e es ih =>
    have h1 := order_step f s e h
    have h2 := ih (step f s e).1 (inv_step f s e h)
    simp only [runFrom_cons, okOrder_append]
    rw [← h1.2]
    refine ⟨by simp [h1.1, h2.1], ?_⟩
    rw [h2.2, h1.2]
    simp [Bool.or_assoc]

/-- what `okOrder` means, without the accumulator -/
theorem okOrder_spec (os : List Output) (h : okOrder os false = true) :
    List.count .emitConnected os ≤ 1 ∧
    ∀ pre m post, os = pre ++ .deliver m :: post → .emitConnected ∈ pre := by
  constructor
  · have key : ∀ (os : List Output) (seen : Bool), okOrder os seen = true →
        List.count .emitConnected os + b2n seen ≤ 1 := by
      intro os
      induction os with
      | nil => intro seen _; cases seen <;> simp
      | cons o r ih =>
        intro seen h
        cases o <;> cases seen <;> simp [okOrder] at h <;> have := ih _ h <;> simp_all
    simpa using key os false h
  · intro pre m post e
    subst e
    rw [okOrder_append] at h
    simp [okOrder] at h
    exact h.2.1

/-! ### Ping / pong -/

theorem pongs_step (f : VersionInfo → Bool) (s : State) (e : Event) :
    pongs (step f s e).2 = (delivered (step f s e).2).filterMap pingNonce := by
  peer_step f s e

theorem pongs_run (f : VersionInfo → Bool) (evs : List Event) (s : State) :
    pongs (runFrom f s evs).2 = (delivered (runFrom f s evs).2).filterMap pingNonce := by
  induction evs generalizing s with
  | nil => simp [runFrom_nil]
  | cons e es ih => simp [runFrom_cons, pongs_step, ih]

/-! ### Announcements -/

theorem ann_step (f : VersionInfo → Bool) (s : State) (e : Event) :
    annState (step f s e).1 = (delivered (step f s e).2).foldl applyAnn (annState s) := by
  peer_step f s e

theorem ann_run (f : VersionInfo → Bool) (evs : List Event) (s : State) :
    annState (runFrom f s evs).1 = (delivered (runFrom f s evs).2).foldl applyAnn (annState s) := by
  induction evs generalizing s with
  | nil => simp [runFrom_nil]
  | cons e es ih => simp [runFrom_cons, List.foldl_append, ih, ann_step]

/-! ### Deliveries come from frames, one each, in order -/

theorem delivered_step (f : VersionInfo → Bool) (s : State) (e : Event) :
    delivered (step f s e).2 = [] ∨ ∃ m, e = .remoteFrame m ∧ delivered (step f s e).2 = [m] := by
  peer_step f s e

theorem delivered_sublist (f : VersionInfo → Bool) (evs : List Event) (s : State) :
    List.Sublist (delivered (runFrom f s evs).2) (evs.filterMap frameOf) := by
  induction evs generalizing s with
  | nil => simp [runFrom_nil]
  | cons e es ih =>
    simp only [runFrom_cons, delivered_append]
    rcases delivered_step f s e with h | ⟨m, rfl, h⟩
    · rw [h, List.nil_append]
      cases e <;> simp [frameOf, List.filterMap_cons] <;> first | exact ih _ | exact (ih _).cons _
    · rw [h]
      simpa [frameOf, List.filterMap_cons] using (ih _)

/-! ### Quiet states: the flag is down, the disconnected event published, the handshake over -/

theorem quiet_step (f : VersionInfo → Bool) (s : State) (e : Event) (h : quiet s = true) :
    quiet (step f s e).1 = true ∧ (step f s e).2 = sendErrs [e] ∧
    annState (step f s e).1 = annState s := by
  peer_step f s e

theorem quiet_run (f : VersionInfo → Bool) (evs : List Event) (s : State) (h : quiet s = true) :
    quiet (runFrom f s evs).1 = true ∧ (runFrom f s evs).2 = sendErrs evs ∧
    annState (runFrom f s evs).1 = annState s := by
  induction evs generalizing s with
  | nil => simp [runFrom_nil, sendErrs, h]
  | cons e es ih =>
    obtain ⟨h1, h2, h3⟩ := quiet_step f s e h
    obtain ⟨i1, i2, i3⟩ := ih _ h1
    refine ⟨by simpa [runFrom_cons] using i1, ?_, by simpa [runFrom_cons, h3] using i3⟩
    simp only [runFrom_cons, h2, i2, sendErrs]
    rw [← List.filterMap_append]
    rfl

/-! ### Remote faults -/

theorem fault_step (f : VersionInfo → Bool) (s : State) (e : Event) (h : invB s = true)
    (hf : remoteFault f s e = true) :
    quiet (step f s e).1 = true ∧ (step f s e).1.phase = .dead ∧
    delivered (step f s e).2 = [] ∧ ¬ .emitConnected ∈ (step f s e).2 := by
  peer_step f s e

/-! ### The handshake -/

theorem hs_local_step (f : VersionInfo → Bool) (s : State) (e : Event) (h : invB s = true)
    (hp : inHandshake s = true) (hl : e.isLocal = true) :
    (step f s e).1.phase = s.phase ∧ (step f s e).2.filter isHs = [] ∧ delivered (step f s e).2 = [] ∧
    wires (step f s e).2 = [] ∧ annState (step f s e).1 = annState s := by
  peer_step f s e

theorem post_hs_step (f : VersionInfo → Bool) (s : State) (e : Event) (h : invB s = true)
    (hp : inHandshake s = false) :
    inHandshake (step f s e).1 = false ∧ (step f s e).2.filter isHs = [] := by
  peer_step f s e

theorem post_hs_run (f : VersionInfo → Bool) (evs : List Event) (s : State) (h : invB s = true)
    (hp : inHandshake s = false) :
    (runFrom f s evs).2.filter isHs = [] := by
  induction evs generalizing s with
  | nil => simp [runFrom_nil]
  | cons e es ih =>
    have h1 := post_hs_step f s e h hp
    simp [runFrom_cons, h1.2, ih _ (inv_step f s e h) h1.1]

/-- the remote's next message while we wait for its version -/
theorem version_step (f : VersionInfo → Bool) (s : State) (m : Msg) (h : invB s = true)
    (hp : s.phase = .awaitVersion) :
    (step f s (.remoteFrame m)).2.filter isHs = [] ∧
    (if acceptable f m then (step f s (.remoteFrame m)).1.phase = .awaitVerack ∧ (step f s (.remoteFrame m)).2 = []
      ∧ (step f s (.remoteFrame m)).1.discFired = s.discFired ∧ annState (step f s (.remoteFrame m)).1 = annState s
     else inHandshake (step f s (.remoteFrame m)).1 = false) := by
  obtain ⟨ph, fl, wr, cf, df, mf, sh, sc⟩ := s
  obtain ⟨k, t, w⟩ := m
  cases k with
  | version v => cases hf : f v <;> peer_states ph fl wr cf df
  | _ => peer_states ph fl wr cf df

/-- the remote's next message while we wait for its verack -/
theorem verack_step (f : VersionInfo → Bool) (s : State) (m : Msg) (h : invB s = true)
    (hp : s.phase = .awaitVerack) :
    (if isVerack m then
        (step f s (.remoteFrame m)).2 = [.wrote .verack, .wrote .hsPing, .emitConnected] ∧
        live (step f s (.remoteFrame m)).1 = true ∧ (step f s (.remoteFrame m)).1.discFired = s.discFired ∧
        annState (step f s (.remoteFrame m)).1 = annState s
     else (step f s (.remoteFrame m)).2.filter isHs = []) ∧
    inHandshake (step f s (.remoteFrame m)).1 = false := by
  obtain ⟨ph, fl, wr, cf, df, mf, sh, sc⟩ := s
  obtain ⟨k, t, w⟩ := m
  cases k <;> peer_states ph fl wr cf df

/-- a remote event other than a message during the handshake ends it -/
theorem hs_nonframe_step (f : VersionInfo → Bool) (s : State) (e : Event) (h : invB s = true)
    (hp : inHandshake s = true) (hl : e.isLocal = false) (hn : frameOf e = none) :
    (step f s e).2.filter isHs = [] ∧ inHandshake (step f s e).1 = false := by
  peer_step f s e

/-- does the remote's next message acknowledge? -/
def ackNext (evs : List Event) : Bool :=
  match nextRemote evs with
  | some (.remoteFrame m, _) => isVerack m
  | _ => false

theorem handshakeCompletes_eq (f : VersionInfo → Bool) (evs : List Event) :
    handshakeCompletes f evs = (match versionAccepted f evs with | some rest => ackNext rest | none => false) := by
  unfold handshakeCompletes afterHandshake ackNext
  cases versionAccepted f evs with
  | none => rfl
  | some rest =>
    simp only
    cases nextRemote rest with
    | none => rfl
    | some p =>
      obtain ⟨e, r⟩ := p
      cases e <;> simp
      split <;> simp_all

theorem hs_run_verack (f : VersionInfo → Bool) (evs : List Event) (s : State) (h : invB s = true)
    (hp : s.phase = .awaitVerack) :
    (runFrom f s evs).2.filter isHs =
      if ackNext evs then [.wrote .verack, .wrote .hsPing, .emitConnected] else [] := by
  induction evs generalizing s with
  | nil => simp [runFrom_nil, ackNext, nextRemote]
  | cons e es ih =>
    have hin : inHandshake s = true := by simp [inHandshake, hp]
    by_cases hl : e.isLocal = true
    · have h1 := hs_local_step f s e h hin hl
      have : ackNext (e :: es) = ackNext es := by simp [ackNext, nextRemote, hl]
      rw [this, runFrom_cons]
      simp only [List.filter_append, h1.2.1, List.nil_append]
      exact ih _ (inv_step f s e h) (by rw [h1.1, hp])
    · have hl' : e.isLocal = false := by simpa using hl
      rw [runFrom_cons]
      simp only [List.filter_append]
      cases e with
      | remoteFrame m =>
        have h1 := verack_step f s m h hp
        rw [post_hs_run f es _ (inv_step f s _ h) h1.2]
        by_cases hv : isVerack m = true
        · simp only [hv, if_true] at h1
          simp [ackNext, nextRemote, Event.isLocal, hv, h1.1.1, isHs]
        · have hv' : isVerack m = false := by simpa using hv
          simp only [hv', Bool.false_eq_true, if_false] at h1
          simp [ackNext, nextRemote, Event.isLocal, hv', h1.1]
      | localSend m => simp [Event.isLocal] at hl'
      | localDisconnect => simp [Event.isLocal] at hl'
      | remoteGarbage g =>
        have h1 := hs_nonframe_step f s (.remoteGarbage g) h hin rfl rfl
        simp [ackNext, nextRemote, Event.isLocal, h1.1, post_hs_run f es _ (inv_step f s _ h) h1.2]
      | remoteClose =>
        have h1 := hs_nonframe_step f s .remoteClose h hin rfl rfl
        simp [ackNext, nextRemote, Event.isLocal, h1.1, post_hs_run f es _ (inv_step f s _ h) h1.2]
      | remoteSilence =>
        have h1 := hs_nonframe_step f s .remoteSilence h hin rfl rfl
        simp [ackNext, nextRemote, Event.isLocal, h1.1, post_hs_run f es _ (inv_step f s _ h) h1.2]

theorem hs_run_version (f : VersionInfo → Bool) (evs : List Event) (s : State) (h : invB s = true)
    (hp : s.phase = .awaitVersion) :
    (runFrom f s evs).2.filter isHs =
      if handshakeCompletes f evs then [.wrote .verack, .wrote .hsPing, .emitConnected] else [] := by
  rw [handshakeCompletes_eq]
  induction evs generalizing s with
  | nil => simp [runFrom_nil, versionAccepted, nextRemote]
  | cons e es ih =>
    have hin : inHandshake s = true := by simp [inHandshake, hp]
    by_cases hl : e.isLocal = true
    · have h1 := hs_local_step f s e h hin hl
      have : versionAccepted f (e :: es) = versionAccepted f es := by simp [versionAccepted, nextRemote, hl]
      rw [this, runFrom_cons]
      simp only [List.filter_append, h1.2.1, List.nil_append]
      exact ih _ (inv_step f s e h) (by rw [h1.1, hp])
    · have hl' : e.isLocal = false := by simpa using hl
      rw [runFrom_cons]
      simp only [List.filter_append]
      cases e with
      | remoteFrame m =>
        have h1 := version_step f s m h hp
        by_cases hv : acceptable f m = true
        · simp only [hv, if_true] at h1
          rw [h1.1, List.nil_append, hs_run_verack f es _ (inv_step f s _ h) h1.2.1]
          simp [versionAccepted, nextRemote, Event.isLocal, hv]
        · have hv' : acceptable f m = false := by simpa using hv
          simp only [hv', Bool.false_eq_true, if_false] at h1
          simp [versionAccepted, nextRemote, Event.isLocal, hv', h1.1, post_hs_run f es _ (inv_step f s _ h) h1.2]
      | localSend m => simp [Event.isLocal] at hl'
      | localDisconnect => simp [Event.isLocal] at hl'
      | remoteGarbage g =>
        have h1 := hs_nonframe_step f s (.remoteGarbage g) h hin rfl rfl
        simp [versionAccepted, nextRemote, Event.isLocal, h1.1, post_hs_run f es _ (inv_step f s _ h) h1.2]
      | remoteClose =>
        have h1 := hs_nonframe_step f s .remoteClose h hin rfl rfl
        simp [versionAccepted, nextRemote, Event.isLocal, h1.1, post_hs_run f es _ (inv_step f s _ h) h1.2]
      | remoteSilence =>
        have h1 := hs_nonframe_step f s .remoteSilence h hin rfl rfl
        simp [versionAccepted, nextRemote, Event.isLocal, h1.1, post_hs_run f es _ (inv_step f s _ h) h1.2]

/-! ### A conforming remote: every message is delivered once, in order -/

theorem live_frame_step (f : VersionInfo → Bool) (s : State) (m : Msg) (h : live s = true) :
    delivered (step f s (.remoteFrame m)).2 = [m] ∧ live (step f s (.remoteFrame m)).1 = true ∧
    (step f s (.remoteFrame m)).1.discFired = s.discFired ∧
    List.count .emitDisconnected (step f s (.remoteFrame m)).2 = 0 := by
  obtain ⟨ph, fl, wr, cf, df, mf, sh, sc⟩ := s
  obtain ⟨k, t, w⟩ := m
  cases k <;> peer_states ph fl wr cf df

theorem live_local_step (f : VersionInfo → Bool) (s : State) (e : Event) (h : live s = true)
    (hl : e.isLocal = true) (hb : benign e = true) :
    (step f s e).1 = s ∧ delivered (step f s e).2 = [] ∧ List.count .emitDisconnected (step f s e).2 = 0 := by
  peer_step f s e

theorem remoteOnly_cons_local (e : Event) (es : List Event) (h : e.isLocal = true) :
    remoteOnly (e :: es) = remoteOnly es := by simp [remoteOnly, h]

theorem remoteOnly_cons_remote (e : Event) (es : List Event) (h : e.isLocal = false) :
    remoteOnly (e :: es) = e :: remoteOnly es := by simp [remoteOnly, h]

theorem live_run (f : VersionInfo → Bool) (evs : List Event) (s : State) (ms : List Msg)
    (h : live s = true) (hr : remoteOnly evs = ms.map .remoteFrame) (hb : ∀ e ∈ evs, benign e = true) :
    delivered (runFrom f s evs).2 = ms ∧ live (runFrom f s evs).1 = true ∧
    (runFrom f s evs).1.discFired = s.discFired ∧ List.count .emitDisconnected (runFrom f s evs).2 = 0 := by
  induction evs generalizing s ms with
  | nil =>
    cases ms with
    | nil => simp [runFrom_nil, h]
    | cons m ms => simp [remoteOnly] at hr
  | cons e es ih =>
    have hb' : ∀ e ∈ es, benign e = true := fun x hx => hb x (List.mem_cons_of_mem _ hx)
    by_cases hl : e.isLocal = true
    · have h1 := live_local_step f s e h hl (hb e (List.mem_cons_self ..))
      rw [remoteOnly_cons_local e es hl] at hr
      have := ih s ms h hr hb'
      simp only [runFrom_cons, delivered_append, List.count_append, h1.1, h1.2.1, h1.2.2]
      simpa using this
    · have hl' : e.isLocal = false := by simpa using hl
      rw [remoteOnly_cons_remote e es hl'] at hr
      cases ms with
      | nil => simp at hr
      | cons m ms =>
        simp only [List.map_cons, List.cons.injEq] at hr
        obtain ⟨rfl, hr⟩ := hr
        have h1 := live_frame_step f s m h
        have := ih _ ms h1.2.1 hr hb'
        simp only [runFrom_cons, delivered_append, List.count_append, h1.1, h1.2.2.2]
        refine ⟨by simp [this.1], this.2.1, by rw [this.2.2.1, h1.2.2.1], by simp [this.2.2.2]⟩

theorem hs_benign_step (f : VersionInfo → Bool) (s : State) (e : Event) (h : invB s = true)
    (hp : inHandshake s = true) (hl : e.isLocal = true) (hb : benign e = true) :
    (step f s e).1 = s ∧ List.count .emitDisconnected (step f s e).2 = 0 := by
  peer_step f s e

theorem verack_run (f : VersionInfo → Bool) (evs : List Event) (s : State) (am : Msg) (ms : List Msg)
    (h : invB s = true) (hp : s.phase = .awaitVerack) (ha : isVerack am = true)
    (hr : remoteOnly evs = .remoteFrame am :: ms.map .remoteFrame) (hb : ∀ e ∈ evs, benign e = true) :
    delivered (runFrom f s evs).2 = ms ∧ live (runFrom f s evs).1 = true ∧
    (runFrom f s evs).1.discFired = s.discFired ∧ List.count .emitDisconnected (runFrom f s evs).2 = 0 := by
  induction evs generalizing s with
  | nil => simp [remoteOnly] at hr
  | cons e es ih =>
    have hb' : ∀ e ∈ es, benign e = true := fun x hx => hb x (List.mem_cons_of_mem _ hx)
    have hin : inHandshake s = true := by simp [inHandshake, hp]
    by_cases hl : e.isLocal = true
    · have h1 := hs_local_step f s e h hin hl
      have h2 := hs_benign_step f s e h hin hl (hb e (List.mem_cons_self ..))
      rw [remoteOnly_cons_local e es hl] at hr
      have := ih s h hp hr hb'
      simp only [runFrom_cons, delivered_append, List.count_append, h2.1, h1.2.2.1, h2.2]
      simpa using this
    · have hl' : e.isLocal = false := by simpa using hl
      rw [remoteOnly_cons_remote e es hl'] at hr
      simp only [List.cons.injEq] at hr
      obtain ⟨rfl, hr⟩ := hr
      have h1 := verack_step f s am h hp
      simp only [ha, if_true] at h1
      have := live_run f es _ ms h1.1.2.1 hr hb'
      simp only [runFrom_cons, delivered_append, List.count_append, h1.1.1]
      refine ⟨by rw [show delivered [.wrote .verack, .wrote .hsPing, .emitConnected] = [] from rfl]; simp [this.1],
        this.2.1, by rw [this.2.2.1, h1.1.2.2.1], by simp [this.2.2.2]⟩

theorem version_run (f : VersionInfo → Bool) (evs : List Event) (s : State) (vm am : Msg) (ms : List Msg)
    (h : invB s = true) (hp : s.phase = .awaitVersion) (hv : acceptable f vm = true) (ha : isVerack am = true)
    (hr : remoteOnly evs = .remoteFrame vm :: .remoteFrame am :: ms.map .remoteFrame)
    (hb : ∀ e ∈ evs, benign e = true) :
    delivered (runFrom f s evs).2 = ms ∧ live (runFrom f s evs).1 = true ∧
    (runFrom f s evs).1.discFired = s.discFired ∧ List.count .emitDisconnected (runFrom f s evs).2 = 0 := by
  induction evs generalizing s with
  | nil => simp [remoteOnly] at hr
  | cons e es ih =>
    have hb' : ∀ e ∈ es, benign e = true := fun x hx => hb x (List.mem_cons_of_mem _ hx)
    have hin : inHandshake s = true := by simp [inHandshake, hp]
    by_cases hl : e.isLocal = true
    · have h1 := hs_local_step f s e h hin hl
      have h2 := hs_benign_step f s e h hin hl (hb e (List.mem_cons_self ..))
      rw [remoteOnly_cons_local e es hl] at hr
      have := ih s h hp hr hb'
      simp only [runFrom_cons, delivered_append, List.count_append, h2.1, h1.2.2.1, h2.2]
      simpa using this
    · have hl' : e.isLocal = false := by simpa using hl
      rw [remoteOnly_cons_remote e es hl'] at hr
      simp only [List.cons.injEq] at hr
      obtain ⟨rfl, hr⟩ := hr
      have h1 := version_step f s vm h hp
      simp only [hv, if_true] at h1
      have := verack_run f es _ am ms (inv_step f s _ h) h1.2.1 ha hr hb'
      simp only [runFrom_cons, delivered_append, List.count_append, h1.2.2.1]
      refine ⟨by simp [this.1], this.2.1, by rw [this.2.2.1, h1.2.2.2.1], by simp [this.2.2.2]⟩

/-! ### `nextRemote` against `remoteOnly` -/

theorem nextRemote_none {evs : List Event} (h : nextRemote evs = none) : remoteOnly evs = [] := by
  induction evs with
  | nil => rfl
  | cons e es ih =>
    by_cases hl : e.isLocal = true
    · simp only [nextRemote, hl, if_true] at h
      rw [remoteOnly_cons_local e es hl, ih h]
    · simp [nextRemote, hl] at h

theorem nextRemote_some {evs : List Event} {e : Event} {rest : List Event} (h : nextRemote evs = some (e, rest)) :
    remoteOnly evs = e :: remoteOnly rest ∧ e.isLocal = false ∧
    ∃ pre, evs = pre ++ e :: rest ∧ ∀ x ∈ pre, x.isLocal = true := by
  induction evs with
  | nil => simp [nextRemote] at h
  | cons x es ih =>
    by_cases hl : x.isLocal = true
    · simp only [nextRemote, hl, if_true] at h
      obtain ⟨h1, h2, pre, h3, h4⟩ := ih h
      refine ⟨by rw [remoteOnly_cons_local x es hl, h1], h2, x :: pre, by simp [h3], ?_⟩
      intro y hy
      rcases List.mem_cons.mp hy with rfl | hy
      · exact hl
      · exact h4 y hy
    · have hl' : x.isLocal = false := by simpa using hl
      simp only [nextRemote, hl', Bool.false_eq_true, if_false, Option.some.injEq, Prod.mk.injEq] at h
      obtain ⟨rfl, rfl⟩ := h
      exact ⟨remoteOnly_cons_remote _ _ hl', hl', [], by simp, by simp⟩

/-- the handshake completes exactly when the remote's first two messages are a version the filter
    accepts and a verack -/
theorem handshakeCompletes_remoteOnly (f : VersionInfo → Bool) (evs : List Event) :
    handshakeCompletes f evs =
      (match remoteOnly evs with
       | .remoteFrame vm :: .remoteFrame am :: _ => acceptable f vm && isVerack am
       | _ => false) := by
  rw [handshakeCompletes_eq]
  unfold versionAccepted
  cases h : nextRemote evs with
  | none => simp [nextRemote_none h]
  | some p =>
    obtain ⟨e, rest⟩ := p
    obtain ⟨h1, -, -⟩ := nextRemote_some h
    rw [h1]
    cases e with
    | remoteFrame vm =>
      simp only
      by_cases hv : acceptable f vm = true
      · simp only [hv, if_true, Bool.true_and]
        unfold ackNext
        cases h2 : nextRemote rest with
        | none => simp [nextRemote_none h2]
        | some q =>
          obtain ⟨e2, rest2⟩ := q
          obtain ⟨h3, -, -⟩ := nextRemote_some h2
          rw [h3]
          cases e2 <;> simp [hv]
      · have hv' : acceptable f vm = false := by simpa using hv
        simp only [hv', Bool.false_eq_true, if_false, Bool.false_and]
        cases remoteOnly rest with
        | nil => rfl
        | cons e2 r2 => cases e2 <;> simp [hv']
    | _ => simp

/-! ### Local calls during the handshake do not advance it -/

theorem hs_locals_run (f : VersionInfo → Bool) (pre : List Event) (s : State) (h : invB s = true)
    (hp : inHandshake s = true) (hl : ∀ x ∈ pre, x.isLocal = true) :
    (runFrom f s pre).1.phase = s.phase ∧ delivered (runFrom f s pre).2 = [] := by
  induction pre generalizing s with
  | nil => simp [runFrom_nil]
  | cons e es ih =>
    have h1 := hs_local_step f s e h hp (hl e (List.mem_cons_self ..))
    have hp' : inHandshake (step f s e).1 = true := by
      simp only [inHandshake, h1.1]; exact hp
    have := ih _ (inv_step f s e h) hp' (fun x hx => hl x (List.mem_cons_of_mem _ hx))
    simp [runFrom_cons, this.1, this.2, h1.1, h1.2.2.1]

/-! ### After a fault of the remote, or a local termination once the handshake is over -/

theorem term_step (f : VersionInfo → Bool) (s : State) (e : Event) (h : invB s = true)
    (hp : inHandshake s = false) (ht : terminates e = true) :
    quiet (step f s e).1 = true := by
  unfold terminates at ht
  peer_step f s e

/-- everything that follows a step into a quiet state -/
theorem after_quiet (f : VersionInfo → Bool) (pre post : List Event) (e : Event) (s : State)
    (hq : quiet (step f (runFrom f s pre).1 e).1 = true) :
    (runFrom f s (pre ++ e :: post)).2 = (runFrom f s (pre ++ [e])).2 ++ sendErrs post ∧
    quiet (runFrom f s (pre ++ e :: post)).1 = true ∧
    annState (runFrom f s (pre ++ e :: post)).1 = annState (runFrom f s (pre ++ [e])).1 := by
  have e1 : pre ++ e :: post = (pre ++ [e]) ++ post := by simp
  have e2 : (runFrom f s (pre ++ [e])).1 = (step f (runFrom f s pre).1 e).1 := by
    simp [runFrom_append, runFrom_cons, runFrom_nil]
  rw [e1, runFrom_append]
  have := quiet_run f post (runFrom f s (pre ++ [e])).1 (by rw [e2]; exact hq)
  exact ⟨by rw [this.2.1], this.1, this.2.2⟩

theorem sendErrs_cons (e : Event) (es : List Event) :
    sendErrs (e :: es) = sendErrs [e] ++ sendErrs es := by
  cases e <;> rfl

theorem sendErrs_sendResults (evs : List Event) :
    sendResults (sendErrs evs) = List.replicate (sendCalls evs) (some .illegalState) := by
  induction evs with
  | nil => rfl
  | cons e es ih =>
    rw [sendErrs_cons, sendResults_append, ih]
    cases e <;> simp [sendErrs, sendResults, sendCalls, List.replicate_succ]

theorem sendErrs_silent (evs : List Event) :
    delivered (sendErrs evs) = [] ∧ wires (sendErrs evs) = [] ∧ pongs (sendErrs evs) = [] ∧
    List.count .emitConnected (sendErrs evs) = 0 ∧ List.count .emitDisconnected (sendErrs evs) = 0 ∧
    obsOf (sendErrs evs) = [] := by
  induction evs with
  | nil => simp [sendErrs, obsOf]
  | cons e es ih =>
    obtain ⟨i1, i2, i3, i4, i5, i6⟩ := ih
    rw [sendErrs_cons]
    simp only [delivered_append, wires_append, pongs_append, List.count_append, i1, i2, i3, i4, i5]
    have : obsOf (sendErrs [e] ++ sendErrs es) = obsOf (sendErrs [e]) ++ obsOf (sendErrs es) := by
      simp [obsOf]
    rw [this, i6]
    cases e <;> simp [sendErrs, delivered, wires, pongs, obsOf]

end CG.Proofs.Peer

import CG.Model.Der
import CG.Spec.Der
/-!
Helper lemmas for the signature-form part of C03: the DER framing of `generate_signature` has the
shape `30 L 02 |R| R 02 |S| S` with `R`, `S` minimal positive big-endian integers, and that shape
passes BIP-66's checks.
-/
namespace CG.Proofs.Der
open CG CG.Model.Der CG.Spec.Der

/-! ### bytes -/

theorem and80_fin : ∀ i : Fin 256, (UInt8.ofNat i.val &&& 0x80 = 0) ↔ i.val < 128 := by decide +kernel

theorem and80 (b : UInt8) : b &&& 0x80 = 0 ↔ b.toNat < 128 := by
  have := and80_fin ⟨b.toNat, b.toNat_lt⟩; simpa using this

theorem ofNat_toNat {k : Nat} (h : k < 256) : (UInt8.ofNat k).toNat = k := by
  simp [UInt8.toNat_ofNat']; omega

theorem toNat_eq_zero {b : UInt8} (h : b.toNat = 0) : b = 0 := by
  apply UInt8.toNat_inj.mp; simpa using h

theorem getD_app_left (A B : Bytes) (i : Nat) (h : i < A.length) : (A ++ B).getD i 0 = A.getD i 0 := by
  simp [List.getD_eq_getElem?_getD, List.getElem?_append_left h]

theorem getD_app_right (A B : Bytes) (i : Nat) : (A ++ B).getD (A.length + i) 0 = B.getD i 0 := by
  simp [List.getD_eq_getElem?_getD, List.getElem?_append_right]

theorem getD_app_right' (A B : Bytes) (n i : Nat) (hn : A.length = n) :
    (A ++ B).getD (n + i) 0 = B.getD i 0 := by
  subst hn; exact getD_app_right A B i

/-! ### big-endian values -/

theorem beToNat_cons_zero (b : Bytes) : beToNat (0 :: b) = beToNat b := by
  simp [beToNat, leToNat_append, leToNat]

theorem beToNat_single (y : UInt8) : beToNat [y] = y.toNat := by simp [beToNat, leToNat]

theorem beToNat_strip (b : Bytes) : beToNat (stripLeadingZeroes b) = beToNat b := by
  induction b with
  | nil => rfl
  | cons x xs ih =>
    unfold stripLeadingZeroes
    split
    · rename_i h; rw [ih, h.1, beToNat_cons_zero]
    · rfl

theorem beToNat_be32 (x : Nat) : beToNat (be32 x) = x % 256 ^ 32 := by
  simp [beToNat, be32, leToNat_natToLEn]

theorem be32_length (x : Nat) : (be32 x).length = 32 := by simp [be32]

/-- what `strip_leading_zeroes` leaves of a non-empty slice: a non-empty slice, not longer, whose
    first byte is non-zero unless it is the only one -/
theorem strip_cases (b : Bytes) (hb : b ≠ []) :
    ∃ y rest, stripLeadingZeroes b = y :: rest ∧ (rest ≠ [] → y ≠ 0) ∧ rest.length < b.length := by
  induction b with
  | nil => exact absurd rfl hb
  | cons x xs ih =>
    unfold stripLeadingZeroes
    split
    · rename_i h
      obtain ⟨y, rest, h1, h2, h3⟩ := ih h.2
      exact ⟨y, rest, h1, h2, by simp; omega⟩
    · rename_i h
      refine ⟨x, xs, rfl, ?_, by simp⟩
      intro hne hx
      exact h ⟨hx, hne⟩

/-! ### the INTEGER content octets of a scalar -/

/-- content octets of a positive, minimally encoded ASN.1 INTEGER of at most 33 bytes with value `x` -/
structure GoodInt (v : Bytes) (x : Nat) : Prop where
  len1 : 1 ≤ v.length
  len33 : v.length ≤ 33
  pos : (v.getD 0 0).toNat < 128
  minimal : 1 < v.length → v.getD 0 0 = 0 → 128 ≤ (v.getD 1 0).toNat
  value : beToNat v = x

theorem uintContent_good (x : Nat) (h0 : 0 < x) (h1 : x < 2 ^ 256) : GoodInt (uintContent (be32 x)) x := by
  have hne : be32 x ≠ [] := by
    intro h; have := be32_length x; rw [h] at this; simp at this
  obtain ⟨y, rest, hs, hy, hl⟩ := strip_cases (be32 x) hne
  have hv : beToNat (y :: rest) = x := by
    rw [← hs, beToNat_strip, beToNat_be32]
    exact Nat.mod_eq_of_lt (by rw [show (256 : Nat) ^ 32 = 2 ^ 256 by decide]; exact h1)
  have hy0 : y ≠ 0 := by
    by_cases hr : rest = []
    · subst hr
      rw [beToNat_single] at hv
      intro hy'; subst hy'; simp at hv; omega
    · exact hy hr
  have hyn : y.toNat ≠ 0 := fun h => hy0 (toNat_eq_zero h)
  rw [be32_length] at hl
  unfold uintContent
  simp only [hs, needsLeadingZero]
  by_cases hb : y.toNat ≥ 128
  · simp only [hb, decide_true, if_true]
    exact ⟨by simp, by simp; omega, by simp, by intro _ _; simpa using hb,
      by rw [beToNat_cons_zero, hv]⟩
  · simp only [hb, decide_false, Bool.false_eq_true, if_false]
    refine ⟨by simp, by simp; omega, by simp; omega, ?_, hv⟩
    intro _ h; simp at h; exact absurd h hy0

/-! ### the frame `30 L 02 |R| R 02 |S| S ‖ tail` -/

def frame (R S tail : Bytes) : Bytes :=
  [0x30, UInt8.ofNat (R.length + S.length + 4), 0x02, UInt8.ofNat R.length]
    ++ (R ++ ([0x02, UInt8.ofNat S.length] ++ (S ++ tail)))

theorem derLength_small {l : Nat} (h : l < 128) : derLength l = [UInt8.ofNat l] := by
  simp [derLength, h]

theorem derEncode_eq_frame (r s : Nat) {R S : Bytes} (hR : R = uintContent (be32 r))
    (hS : S = uintContent (be32 s)) (h1 : R.length ≤ 33) (h2 : S.length ≤ 33) :
    derEncode r s = frame R S [] := by
  unfold derEncode derEncodeBytes derUint
  simp only [← hR, ← hS]
  rw [derLength_small (show R.length < 128 by omega), derLength_small (show S.length < 128 by omega)]
  have hl : (0x02 :: [UInt8.ofNat R.length] ++ R ++ (0x02 :: [UInt8.ofNat S.length] ++ S)).length
      = R.length + S.length + 4 := by simp; omega
  rw [hl, derLength_small (by omega)]
  simp [frame]

section frame
variable (R S tail : Bytes)

theorem frame_length : (frame R S tail).length = R.length + S.length + tail.length + 6 := by
  simp [frame]; omega

theorem frame_at0 : at_ (frame R S tail) 0 = 0x30 := rfl
theorem frame_at1 : at_ (frame R S tail) 1 = UInt8.ofNat (R.length + S.length + 4) := rfl
theorem frame_at2 : at_ (frame R S tail) 2 = 0x02 := rfl
theorem frame_at3 : at_ (frame R S tail) 3 = UInt8.ofNat R.length := rfl

theorem frame_atR (k : Nat) (hk : k < R.length) : at_ (frame R S tail) (4 + k) = R.getD k 0 := by
  unfold at_ frame
  rw [getD_app_right' _ _ 4 k rfl,
    getD_app_left _ _ _ hk]

theorem frame_atB0 : at_ (frame R S tail) (R.length + 4) = 0x02 := by
  unfold at_ frame
  rw [show R.length + 4 = 4 + (R.length + 0) by omega,
    getD_app_right' _ _ 4 _ rfl,
    getD_app_right]
  rfl

theorem frame_atB1 : at_ (frame R S tail) (5 + R.length) = UInt8.ofNat S.length := by
  unfold at_ frame
  rw [show 5 + R.length = 4 + (R.length + 1) by omega,
    getD_app_right' _ _ 4 _ rfl,
    getD_app_right]
  rfl

theorem frame_atS (k : Nat) (hk : k < S.length) :
    at_ (frame R S tail) (R.length + (6 + k)) = S.getD k 0 := by
  unfold at_ frame
  rw [show R.length + (6 + k) = 4 + (R.length + (2 + k)) by omega,
    getD_app_right' _ _ 4 _ rfl,
    getD_app_right, getD_app_right' _ _ 2 k rfl, getD_app_left _ _ _ hk]

theorem frame_takeR : ((frame R S tail).drop 4).take R.length = R := by
  unfold frame
  rw [List.drop_left' (by rfl), List.take_left' rfl]

theorem frame_takeS : ((frame R S tail).drop (6 + R.length)).take S.length = S := by
  have : frame R S tail = ([0x30, UInt8.ofNat (R.length + S.length + 4), 0x02, UInt8.ofNat R.length]
      ++ R ++ [0x02, UInt8.ofNat S.length]) ++ (S ++ tail) := by simp [frame]
  rw [this, List.drop_left' (by simp; omega), List.take_left' rfl]

end frame


/-! ### the frame passes BIP-66 -/

section strict
variable {R S : Bytes} {r s : Nat} (hR : GoodInt R r) (hS : GoodInt S s) (tail : Bytes)
include hR hS

theorem frame_facts :
    (at_ (frame R S tail) 1).toNat = R.length + S.length + 4 ∧
    (at_ (frame R S tail) 3).toNat = R.length ∧
    (at_ (frame R S tail) (5 + R.length)).toNat = S.length ∧
    ¬ (at_ (frame R S tail) 4 &&& 0x80 ≠ 0) ∧
    ¬ (R.length > 1 ∧ at_ (frame R S tail) 4 = 0x00 ∧ at_ (frame R S tail) 5 &&& 0x80 = 0) ∧
    ¬ (at_ (frame R S tail) (R.length + 6) &&& 0x80 ≠ 0) ∧
    ¬ (S.length > 1 ∧ at_ (frame R S tail) (R.length + 6) = 0x00 ∧
        at_ (frame R S tail) (R.length + 7) &&& 0x80 = 0) := by
  have r1 := hR.len1; have r2 := hR.len33; have s1 := hS.len1; have s2 := hS.len33
  have a4 : at_ (frame R S tail) 4 = R.getD 0 0 := frame_atR R S tail 0 (by omega)
  have a6 : at_ (frame R S tail) (R.length + 6) = S.getD 0 0 := frame_atS R S tail 0 (by omega)
  refine ⟨by rw [frame_at1, ofNat_toNat (by omega)], by rw [frame_at3, ofNat_toNat (by omega)],
    by rw [frame_atB1, ofNat_toNat (by omega)], ?_, ?_, ?_, ?_⟩
  · rw [a4]; simp only [ne_eq, Decidable.not_not]; exact (and80 _).mpr hR.pos
  · rintro ⟨h1, h2, h3⟩
    have a5 : at_ (frame R S tail) 5 = R.getD 1 0 := frame_atR R S tail 1 (by omega)
    rw [a4] at h2
    rw [a5, and80] at h3
    have := hR.minimal (by omega) h2
    omega
  · rw [a6]; simp only [ne_eq, Decidable.not_not]; exact (and80 _).mpr hS.pos
  · rintro ⟨h1, h2, h3⟩
    have a7 : at_ (frame R S tail) (R.length + 7) = S.getD 1 0 := frame_atS R S tail 1 (by omega)
    rw [a6] at h2
    rw [a7, and80] at h3
    have := hS.minimal (by omega) h2
    omega

theorem frame_strict : strictDerB (frame R S []) = true := by
  obtain ⟨n1, n3, nB, pR, cR, pS, cS⟩ := frame_facts hR hS []
  have r1 := hR.len1; have r2 := hR.len33; have s1 := hS.len1; have s2 := hS.len33
  have len := frame_length R S []
  simp only [List.length_nil, Nat.add_zero] at len
  unfold strictDerB
  simp only [n1, n3, nB, len]
  rw [if_neg (by omega), if_neg (by omega), if_neg (by rw [frame_at0]; simp), if_neg (by omega),
    if_neg (by omega), if_neg (by omega), if_neg (by rw [frame_at2]; simp), if_neg (by omega),
    if_neg pR, if_neg cR, if_neg (by rw [frame_atB0]; simp), if_neg (by omega), if_neg pS, if_neg cS]

theorem frame_bip66 (t : UInt8) : isValidSignatureEncoding (frame R S [t]) = true := by
  obtain ⟨n1, n3, nB, pR, cR, pS, cS⟩ := frame_facts hR hS [t]
  have r1 := hR.len1; have r2 := hR.len33; have s1 := hS.len1; have s2 := hS.len33
  have len := frame_length R S [t]
  simp only [List.length_cons, List.length_nil, Nat.zero_add] at len
  unfold isValidSignatureEncoding
  simp only [n1, n3, nB, len]
  rw [if_neg (by omega), if_neg (by omega), if_neg (by rw [frame_at0]; simp), if_neg (by omega),
    if_neg (by omega), if_neg (by omega), if_neg (by rw [frame_at2]; simp), if_neg (by omega),
    if_neg pR, if_neg cR, if_neg (by rw [frame_atB0]; simp), if_neg (by omega), if_neg pS, if_neg cS]

theorem frame_decode : derDecode (frame R S []) = some (r, s) := by
  obtain ⟨n1, n3, nB, -⟩ := frame_facts hR hS []
  unfold derDecode
  rw [frame_strict hR hS, if_pos rfl]
  simp only [n3, nB, frame_takeR, frame_takeS, hR.value, hS.value]

end strict

theorem frame_append (R S tail : Bytes) : frame R S tail = frame R S [] ++ tail := by simp [frame]

end CG.Proofs.Der

import CG.Generated.Wordlists.Base
/-!
A verified boolean checker for the generated BIP-39 word lists, cheap enough for the kernel:
`keysOk keys = true → keys.length = 2048 ∧ (keys.map wordOfKey).Nodup`.

The generated file stores each word `w` as one natural number `k = v * 256 + m`, `v` the value of
`0x01 ++ utf8(w)` read big-endian and `m` the byte length.  The checker works on those numbers: every
key is *valid* (`v / 256^m = 1`, so `wordOfKey` loses nothing) and the `v` are pairwise distinct — established by a merge sort written
with structural recursion (only `Perm` is proved of it; if it failed to sort, the check would merely
fail) followed by a linear strictly-increasing scan.

The kernel evaluations themselves (`decide +kernel`, ~8 s per list) are in `CG/Proofs/Wordlists/<Lang>.lean`,
one file per language so that they are checked in parallel.
-/
namespace CG.Proofs.Wordlists
open CG CG.Generated.Wordlists

/-- inverse of `wordOfKey`: big-endian value of `0x01 ++ w` -/
def keyOf (w : Bytes) : Nat := w.foldl (fun acc b => acc * 256 + b.toNat) 1

/-- `k = v * 256 + m` with `v` = a leading base-256 digit 1 followed by exactly `m` digits -/
def validKey (k : Nat) : Bool := Nat.beq (k / 256 / 256 ^ (k % 256)) 1

theorem foldl_wordOfKeyAux (m : Nat) : ∀ (n : Nat) (acc : Bytes) (fuel : Nat),
    n / 256 ^ m = 1 → m < fuel →
    (wordOfKeyAux fuel n acc).foldl (fun a b => a * 256 + b.toNat) 1 =
      acc.foldl (fun a b => a * 256 + b.toNat) n := by
  induction m with
  | zero =>
    intro n acc fuel h hf
    obtain ⟨f, rfl⟩ : ∃ f, fuel = f + 1 := ⟨fuel - 1, by omega⟩
    have : n = 1 := by simpa using h
    subst this
    simp [wordOfKeyAux]
  | succ m ih =>
    intro n acc fuel h hf
    obtain ⟨f, rfl⟩ : ∃ f, fuel = f + 1 := ⟨fuel - 1, by omega⟩
    have hpos : 0 < 256 ^ (m + 1) := Nat.pow_pos (by omega)
    have hge : 256 ^ (m + 1) ≤ n := by
      by_cases hc : 256 ^ (m + 1) ≤ n
      · exact hc
      · rw [Nat.div_eq_of_lt (by omega)] at h; omega
    have h256 : 256 ≤ 256 ^ (m + 1) := by
      calc 256 = 256 ^ 1 := by rfl
        _ ≤ 256 ^ (m + 1) := Nat.pow_le_pow_right (by omega) (by omega)
    have hn : ¬ n ≤ 1 := by omega
    have hdiv : n / 256 / 256 ^ m = 1 := by
      rw [Nat.div_div_eq_div_mul, ← Nat.pow_succ']; exact h
    simp only [wordOfKeyAux, hn, if_false]
    rw [ih (n / 256) _ f hdiv (by omega)]
    simp only [List.foldl_cons, UInt8.toNat_ofNat']
    congr 1
    omega

theorem keyOf_wordOfKey (k : Nat) (h : validKey k = true) : keyOf (wordOfKey k) = k / 256 := by
  have h1 : k / 256 / 256 ^ (k % 256) = 1 := Nat.eq_of_beq_eq_true h
  have := foldl_wordOfKeyAux (k % 256) (k / 256) [] (k % 256 + 1) h1 (by omega)
  simpa [keyOf, wordOfKey] using this

/-! ### merge sort with structural recursion (fuel), proved only to permute -/

def mergeF : Nat → List Nat → List Nat → List Nat
  | 0, a, b => a ++ b
  | _ + 1, [], b => b
  | _ + 1, a, [] => a
  | f + 1, x :: a, y :: b =>
    match Nat.ble x y with
    | true => x :: mergeF f a (y :: b)
    | false => y :: mergeF f (x :: a) b

def mergePass : List (List Nat) → List (List Nat)
  | a :: b :: r => mergeF (a.length + b.length) a b :: mergePass r
  | r => r

def passes : Nat → List (List Nat) → List (List Nat)
  | 0, r => r
  | n + 1, r => passes n (mergePass r)

def strictInc : List Nat → Bool
  | a :: b :: r => Nat.blt a b && strictInc (b :: r)
  | _ => true

/-- all keys distinct: already strictly increasing, or strictly increasing after sorting -/
def distinctB (keys : List Nat) : Bool :=
  strictInc keys || strictInc ((passes 12 (keys.map ([·]))).flatten)

def keysOk (keys : List Nat) : Bool :=
  Nat.beq keys.length 2048 && keys.all validKey && distinctB (keys.map (fun k => k / 256))

theorem mergeF_perm : ∀ (f : Nat) (a b : List Nat), (mergeF f a b).Perm (a ++ b) := by
  intro f
  induction f with
  | zero => intro a b; simp [mergeF]
  | succ f ih =>
    intro a b
    cases a with
    | nil => simp [mergeF]
    | cons x a =>
      cases b with
      | nil => simp [mergeF]
      | cons y b =>
        simp only [mergeF]
        split
        · exact (ih a (y :: b)).cons x
        · refine ((ih (x :: a) b).cons y).trans ?_
          exact (List.perm_middle (l₁ := x :: a) (l₂ := b) (a := y)).symm

theorem mergePass_perm : ∀ (L : List (List Nat)), (mergePass L).flatten.Perm L.flatten
  | [] => by simp [mergePass]
  | [a] => by simp [mergePass]
  | a :: b :: r => by
    simp only [mergePass, List.flatten_cons]
    rw [← List.append_assoc]
    exact (mergeF_perm _ a b).append (mergePass_perm r)

theorem passes_perm (n : Nat) : ∀ L, (passes n L).flatten.Perm L.flatten := by
  induction n with
  | zero => intro L; exact List.Perm.refl _
  | succ n ih => intro L; exact (ih (mergePass L)).trans (mergePass_perm L)

theorem strictInc_pairwise : ∀ (l : List Nat), strictInc l = true → l.Pairwise (· < ·)
  | [] => by simp
  | [a] => by simp
  | a :: b :: r => by
    intro h
    simp only [strictInc, Bool.and_eq_true] at h
    have hab : a < b := by
      have := h.1; simp only [Nat.blt] at this; exact Nat.lt_of_succ_le (Nat.le_of_ble_eq_true this)
    have ih := strictInc_pairwise (b :: r) h.2
    have ih' := List.pairwise_cons.mp ih
    refine List.pairwise_cons.mpr ⟨?_, ih⟩
    intro c hc
    rcases List.mem_cons.mp hc with rfl | hc
    · exact hab
    · exact Nat.lt_trans hab (ih'.1 c hc)

theorem strictInc_nodup (l : List Nat) (h : strictInc l = true) : l.Nodup :=
  (strictInc_pairwise l h).imp (fun hab => Nat.ne_of_lt hab)

theorem flatten_singletons (keys : List Nat) : (keys.map ([·])).flatten = keys := by
  induction keys with
  | nil => rfl
  | cons a r ih => simp [ih]

theorem distinctB_nodup (keys : List Nat) (h : distinctB keys = true) : keys.Nodup := by
  simp only [distinctB, Bool.or_eq_true] at h
  rcases h with h | h
  · exact strictInc_nodup _ h
  · have hp := passes_perm 12 (keys.map ([·]))
    rw [flatten_singletons] at hp
    exact hp.nodup_iff.mp (strictInc_nodup _ h)

/-- soundness of the checker -/
theorem keysOk_sound (keys : List Nat) (h : keysOk keys = true) :
    (keys.map wordOfKey).length = 2048 ∧ (keys.map wordOfKey).Nodup := by
  simp only [keysOk, Bool.and_eq_true] at h
  obtain ⟨⟨hl, hv⟩, hd⟩ := h
  have hlen : keys.length = 2048 := Nat.eq_of_beq_eq_true hl
  refine ⟨by simp [hlen], ?_⟩
  have hn := distinctB_nodup _ hd
  rw [List.all_eq_true] at hv
  -- `keyOf (wordOfKey k) = k / 256` on valid keys, and the `k / 256` are distinct
  have hmap : (keys.map wordOfKey).map keyOf = keys.map (fun k => k / 256) := by
    rw [List.map_map]
    apply List.map_congr_left
    intro a ha
    exact keyOf_wordOfKey a (hv a ha)
  have : ((keys.map wordOfKey).map keyOf).Nodup := by rw [hmap]; exact hn
  exact List.Pairwise.of_map keyOf (fun a b hab e => hab (by rw [e])) this


/-! ### byte order (what `binary_search` on `Vec<String>` would need) -/

/-- `String`'s `Ord` is byte-lexicographic. -/
def bytesLt : Bytes → Bytes → Bool
  | [], [] => false
  | [], _ :: _ => true
  | _ :: _, [] => false
  | a :: as, b :: bs => if a.toNat < b.toNat then true else if b.toNat < a.toNat then false else bytesLt as bs

def sortedBytes : List Bytes → Bool
  | a :: b :: r => bytesLt a b && sortedBytes (b :: r)
  | _ => true

end CG.Proofs.Wordlists

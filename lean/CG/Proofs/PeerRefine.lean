import CG.Model.PeerConc
/-!
The sequential event model of the peer (`CG.Model.Peer`, one event = one atomic step; the subject of
`CG.Props.C12`) is the interleaving model (`CG.Model.PeerConc`) under ATOMIC schedules: every remote event is
run by the receive thread from its read to its return to the read (or its death), every local call by the one
local thread from its first step to its last, with no other thread in between.

`atomicSched` computes that schedule event by event from the sequential state; `refines` says that the
interleaving model, started after the handshake with the remote events in its queue and the local calls as the
program of one local thread, produces under that schedule exactly the observable outputs of the sequential
model.
-/
namespace CG.Proofs.PeerRefine
open CG CG.Model
open CG.Model.PeerConc (St RemoteEv RPc LOp LPc LThread)

/-- the sequential events of the connected phase that the interleaving model speaks about -/
def remoteOf : Peer.Event → Option RemoteEv
  | .remoteFrame m => some (.frame m)
  | .remoteGarbage _ => some .fail
  | .remoteClose => some .fail
  | _ => none

def localOf : Peer.Event → Option LOp
  | .localSend m => some (.send m)
  | .localDisconnect => some .disconnect
  | _ => none

/-- the atomic block of thread steps for one event, given the sequential state before it -/
def block (s : Peer.State) : Peer.Event → List Nat
  | .remoteFrame _ =>
    if s.phase == .dead then [] else if s.flag then [0, 0, 0, 0] else [0, 0]
  | .remoteGarbage _ | .remoteClose =>
    if s.phase == .dead then [] else if s.flag then [0, 0, 0, 0, 0] else [0, 0]
  | .remoteSilence => []
  | .localSend m => if !s.flag then [1] else if m.writable then [1, 1] else [1, 1, 1, 1, 1]
  | .localDisconnect => [1, 1, 1, 1]

def atomicSched (filter : Peer.VersionInfo → Bool) : Peer.State → List Peer.Event → List Nat
  | _, [] => []
  | s, e :: es => block s e ++ atomicSched filter (Peer.step filter s e).1 es

/-- the sequential state the interleaving model starts from: just after the handshake -/
def seqInit : Peer.State := ⟨.connected, true, true, true, false, 0, false, false⟩


def remotes (es : List Peer.Event) : List RemoteEv := es.filterMap remoteOf
def locals (es : List Peer.Event) : List LOp := es.filterMap localOf

/-- sequential states reachable in the connected phase from `seqInit` -/
structure SeqOk (σ : Peer.State) : Prop where
  phase : σ.phase = .connected ∨ σ.phase = .dead
  writer : σ.writer = true
  fired : σ.discFired = !σ.flag
  dead : σ.phase = .dead → σ.flag = false

/-- the interleaving state that corresponds to sequential state `σ` with events `es` still to come -/
structure Rel (σ : Peer.State) (s : St) (es : List Peer.Event) : Prop where
  flag : s.flag = σ.flag
  shut : s.shut = !σ.flag
  wlock : s.wlock = none
  discFired : s.discFired = σ.discFired
  r : s.r = if σ.phase = .dead then .dead else .read
  locals : s.locals = [⟨.idle, locals es⟩]
  remote : σ.phase ≠ .dead → s.remote = remotes es

theorem run_append (s : St) (a b : List Nat) : PeerConc.run s (a ++ b) = PeerConc.run (PeerConc.run s a) b := by
  induction a generalizing s with
  | nil => rfl
  | cons t r ih =>
    simp only [List.cons_append, PeerConc.run]
    split <;> exact ih _

theorem seqOk_init : SeqOk seqInit := ⟨Or.inl rfl, rfl, rfl, by intro h; cases h⟩


/-- an interleaving state in the shape `Rel` prescribes -/
def shape (σ : Peer.State) (rem : List RemoteEv) (es : List Peer.Event) (out : List Peer.Output) : St :=
  { flag := σ.flag, shut := !σ.flag, wlock := none, discFired := σ.discFired, remote := rem,
    r := if σ.phase = .dead then .dead else .read, locals := [⟨.idle, locals es⟩], out := out }

theorem rel_shape {σ : Peer.State} {s : St} {es : List Peer.Event} (h : Rel σ s es) :
    s = shape σ s.remote es s.out := by
  obtain ⟨a, b, c, d, e, f, g, o⟩ := s
  have h1 := h.flag; have h2 := h.shut; have h3 := h.wlock; have h4 := h.discFired
  have h5 := h.r; have h6 := h.locals
  simp only at h1 h2 h3 h4 h5 h6
  subst h1 h2 h3 h4 h5 h6
  rfl

theorem shape_rel (σ : Peer.State) (rem : List RemoteEv) (es : List Peer.Event) (out : List Peer.Output)
    (hrem : σ.phase ≠ .dead → rem = remotes es) : Rel σ (shape σ rem es out) es :=
  ⟨rfl, rfl, rfl, rfl, rfl, rfl, hrem⟩

theorem block_localDisconnect (filter : Peer.VersionInfo → Bool) (σ : Peer.State) (rem : List RemoteEv)
    (es : List Peer.Event) (out : List Peer.Output) (hσ : SeqOk σ) :
    PeerConc.run (shape σ rem (.localDisconnect :: es) out) (block σ .localDisconnect) =
      shape (Peer.step filter σ .localDisconnect).1 rem es (out ++ (Peer.step filter σ .localDisconnect).2) := by
  obtain ⟨ph, fl, wr, cf, df, mf, sh, sc⟩ := σ
  have hf := hσ.fired; simp only at hf; subst hf
  rcases hσ.phase with hp | hp <;> simp only at hp <;> subst hp <;> cases fl <;>
    simp [shape, block, locals, localOf, List.filterMap_cons, Peer.step, Peer.disconnect, PeerConc.run, PeerConc.step,
      PeerConc.stepL, PeerConc.discStep, PeerConc.discEff]


theorem block_localSend (filter : Peer.VersionInfo → Bool) (σ : Peer.State) (rem : List RemoteEv)
    (es : List Peer.Event) (out : List Peer.Output) (m : Peer.Msg) (hσ : SeqOk σ) :
    PeerConc.run (shape σ rem (.localSend m :: es) out) (block σ (.localSend m)) =
      shape (Peer.step filter σ (.localSend m)).1 rem es (out ++ (Peer.step filter σ (.localSend m)).2) := by
  obtain ⟨ph, fl, wr, cf, df, mf, sh, sc⟩ := σ
  have hf := hσ.fired; simp only at hf; subst hf
  have hw := hσ.writer; simp only at hw; subst hw
  rcases hσ.phase with hp | hp <;> simp only at hp <;> subst hp <;> cases fl <;> cases hm : m.writable <;>
    simp [shape, block, locals, localOf, List.filterMap_cons, Peer.step, Peer.send, Peer.disconnect, PeerConc.run, PeerConc.step,
      PeerConc.stepL, PeerConc.discStep, PeerConc.discEff, PeerConc.canWrite, hm]

theorem block_dead_remote (filter : Peer.VersionInfo → Bool) (σ : Peer.State) (rem : List RemoteEv)
    (es : List Peer.Event) (out : List Peer.Output) (e : Peer.Event) (he : (remoteOf e).isSome ∨ e = .remoteSilence)
    (hd : σ.phase = .dead) :
    PeerConc.run (shape σ rem (e :: es) out) (block σ e) =
      shape (Peer.step filter σ e).1 rem es (out ++ (Peer.step filter σ e).2) := by
  obtain ⟨ph, fl, wr, cf, df, mf, sh, sc⟩ := σ
  simp only at hd; subst hd
  cases e <;> simp [remoteOf] at he <;>
    simp [shape, block, locals, localOf, List.filterMap_cons, Peer.step, Peer.onReadError, PeerConc.run]

theorem block_remoteFrame (filter : Peer.VersionInfo → Bool) (σ : Peer.State) (rem : List RemoteEv)
    (es : List Peer.Event) (out : List Peer.Output) (m : Peer.Msg) (hσ : SeqOk σ) (ha : σ.phase = .connected) :
    PeerConc.run (shape σ (.frame m :: rem) (.remoteFrame m :: es) out) (block σ (.remoteFrame m)) =
      shape (Peer.step filter σ (.remoteFrame m)).1 rem es (out ++ (Peer.step filter σ (.remoteFrame m)).2) := by
  obtain ⟨ph, fl, wr, cf, df, mf, sh, sc⟩ := σ
  have hf := hσ.fired; simp only at hf; subst hf
  have hw := hσ.writer; simp only at hw; subst hw
  simp only at ha; subst ha
  cases fl <;> cases hk : m.kind <;>
    simp [shape, block, locals, localOf, List.filterMap_cons, Peer.step, Peer.onFrameConnected, Peer.handleMessage, Peer.send,
      Peer.threadFail, Peer.disconnect, PeerConc.run, PeerConc.step, PeerConc.stepR, PeerConc.discStep,
      PeerConc.discEff, PeerConc.canWrite, hk]

theorem block_remoteFail (filter : Peer.VersionInfo → Bool) (σ : Peer.State) (rem : List RemoteEv)
    (es : List Peer.Event) (out : List Peer.Output) (e : Peer.Event) (he : remoteOf e = some .fail)
    (hσ : SeqOk σ) (ha : σ.phase = .connected) :
    PeerConc.run (shape σ (.fail :: rem) (e :: es) out) (block σ e) =
      shape (Peer.step filter σ e).1 rem es (out ++ (Peer.step filter σ e).2) := by
  obtain ⟨ph, fl, wr, cf, df, mf, sh, sc⟩ := σ
  have hf := hσ.fired; simp only at hf; subst hf
  simp only at ha; subst ha
  cases e <;> simp [remoteOf] at he <;> cases fl <;>
    simp [shape, block, locals, localOf, List.filterMap_cons, Peer.step, Peer.onReadError, Peer.threadFail, Peer.disconnect,
      PeerConc.run, PeerConc.step, PeerConc.stepR, PeerConc.discStep, PeerConc.discEff]


theorem block_silence (filter : Peer.VersionInfo → Bool) (σ : Peer.State) (rem : List RemoteEv)
    (es : List Peer.Event) (out : List Peer.Output) (hσ : SeqOk σ) :
    PeerConc.run (shape σ rem (.remoteSilence :: es) out) (block σ .remoteSilence) =
      shape (Peer.step filter σ .remoteSilence).1 rem es (out ++ (Peer.step filter σ .remoteSilence).2) := by
  obtain ⟨ph, fl, wr, cf, df, mf, sh, sc⟩ := σ
  rcases hσ.phase with hp | hp <;> simp only at hp <;> subst hp <;>
    simp [shape, block, locals, localOf, List.filterMap_cons, Peer.step, PeerConc.run]

theorem seqOk_step (filter : Peer.VersionInfo → Bool) (σ : Peer.State) (e : Peer.Event) (hσ : SeqOk σ) :
    SeqOk (Peer.step filter σ e).1 := by
  obtain ⟨ph, fl, wr, cf, df, mf, sh, sc⟩ := σ
  have hf := hσ.fired; simp only at hf; subst hf
  have hw := hσ.writer; simp only at hw; subst hw
  have hd := hσ.dead
  rcases hσ.phase with hp | hp <;> simp only at hp <;> subst hp
  · cases e with
    | remoteFrame m =>
      cases fl <;> cases hk : m.kind <;>
        (refine ⟨?_, ?_, ?_, ?_⟩ <;>
          simp [Peer.step, Peer.onFrameConnected, Peer.handleMessage, Peer.send, Peer.threadFail, Peer.disconnect, hk])
    | remoteGarbage g =>
      cases fl <;> (refine ⟨?_, ?_, ?_, ?_⟩ <;> simp [Peer.step, Peer.onReadError, Peer.threadFail, Peer.disconnect])
    | remoteClose =>
      cases fl <;> (refine ⟨?_, ?_, ?_, ?_⟩ <;> simp [Peer.step, Peer.onReadError, Peer.threadFail, Peer.disconnect])
    | remoteSilence => refine ⟨?_, ?_, ?_, ?_⟩ <;> simp [Peer.step]
    | localSend m =>
      cases fl <;> cases hm : m.writable <;>
        (refine ⟨?_, ?_, ?_, ?_⟩ <;> simp [Peer.step, Peer.send, Peer.disconnect, hm])
    | localDisconnect => cases fl <;> (refine ⟨?_, ?_, ?_, ?_⟩ <;> simp [Peer.step, Peer.disconnect])
  · have hfl : fl = false := by simpa using hd rfl
    subst hfl
    cases e with
    | remoteFrame m => refine ⟨?_, ?_, ?_, ?_⟩ <;> simp [Peer.step]
    | remoteGarbage g => refine ⟨?_, ?_, ?_, ?_⟩ <;> simp [Peer.step, Peer.onReadError]
    | remoteClose => refine ⟨?_, ?_, ?_, ?_⟩ <;> simp [Peer.step, Peer.onReadError]
    | remoteSilence => refine ⟨?_, ?_, ?_, ?_⟩ <;> simp [Peer.step]
    | localSend m => refine ⟨?_, ?_, ?_, ?_⟩ <;> simp [Peer.step, Peer.send]
    | localDisconnect => refine ⟨?_, ?_, ?_, ?_⟩ <;> simp [Peer.step, Peer.disconnect]

/-- local events do not change the phase (only the receive thread dies) -/
theorem local_phase (filter : Peer.VersionInfo → Bool) (σ : Peer.State) (e : Peer.Event)
    (he : (localOf e).isSome) : (Peer.step filter σ e).1.phase = σ.phase := by
  cases e <;> simp [localOf] at he
  · simp only [Peer.step, Peer.send]
    split
    · rfl
    · split
      · rfl
      · split <;> rfl
  · rfl

/-- **Refinement.**  From any sequential state of the connected phase, the interleaving model started in the
    corresponding state and run under the atomic schedule ends in the state corresponding to the sequential
    run and has logged exactly the sequential outputs. -/
theorem refines (filter : Peer.VersionInfo → Bool) (es : List Peer.Event) (σ : Peer.State) (hσ : SeqOk σ)
    (rem : List RemoteEv) (out : List Peer.Output) (hrem : σ.phase ≠ .dead → rem = remotes es) :
    ∃ rem', PeerConc.run (shape σ rem es out) (atomicSched filter σ es) =
      shape (Peer.runFrom filter σ es).1 rem' [] (out ++ (Peer.runFrom filter σ es).2) := by
  induction es generalizing σ rem out with
  | nil => exact ⟨rem, by simp [atomicSched, Peer.runFrom, PeerConc.run]⟩
  | cons e es ih =>
    simp only [atomicSched, Peer.runFrom, run_append]
    have hσ' := seqOk_step filter σ e hσ
    -- one event: the block lemma for its kind
    have hb : ∃ rem1, PeerConc.run (shape σ rem (e :: es) out) (block σ e) =
          shape (Peer.step filter σ e).1 rem1 es (out ++ (Peer.step filter σ e).2) ∧
          ((Peer.step filter σ e).1.phase ≠ .dead → rem1 = remotes es) := by
      cases hloc : localOf e with
      | some op =>
        have hph := local_phase filter σ e (by simp [hloc])
        have hr : remotes (e :: es) = remotes es := by
          cases e <;> simp [localOf] at hloc <;> simp [remotes, remoteOf, List.filterMap_cons]
        refine ⟨rem, ?_, ?_⟩
        · cases e <;> simp [localOf] at hloc
          · exact block_localSend filter σ rem es out _ hσ
          · exact block_localDisconnect filter σ rem es out hσ
        · intro hne; rw [hph] at hne; rw [← hr]; exact hrem hne
      | none =>
        by_cases hd : σ.phase = .dead
        · refine ⟨rem, ?_, ?_⟩
          · apply block_dead_remote filter σ rem es out e _ hd
            cases e <;> simp [localOf] at hloc <;> simp [remoteOf]
          · intro hne
            exfalso; apply hne
            obtain ⟨ph, fl, wr, cf, df, mf, sh, sc⟩ := σ
            simp only at hd; subst hd
            cases e <;> simp [localOf] at hloc <;> simp [Peer.step, Peer.onReadError]
        · have ha : σ.phase = .connected := by
            rcases hσ.phase with h | h
            · exact h
            · exact absurd h hd
          have hrm := hrem hd
          cases e with
          | remoteFrame m =>
            have : rem = .frame m :: remotes es := by rw [hrm]; simp [remotes, remoteOf, List.filterMap_cons]
            subst this
            exact ⟨remotes es, block_remoteFrame filter σ _ es out m hσ ha, fun _ => rfl⟩
          | remoteGarbage g =>
            have : rem = .fail :: remotes es := by rw [hrm]; simp [remotes, remoteOf, List.filterMap_cons]
            subst this
            exact ⟨remotes es, block_remoteFail filter σ _ es out _ rfl hσ ha, fun _ => rfl⟩
          | remoteClose =>
            have : rem = .fail :: remotes es := by rw [hrm]; simp [remotes, remoteOf, List.filterMap_cons]
            subst this
            exact ⟨remotes es, block_remoteFail filter σ _ es out _ rfl hσ ha, fun _ => rfl⟩
          | remoteSilence =>
            have : rem = remotes es := by rw [hrm]; simp [remotes, remoteOf, List.filterMap_cons]
            exact ⟨rem, block_silence filter σ rem es out hσ, fun _ => this⟩
          | localSend m => simp [localOf] at hloc
          | localDisconnect => simp [localOf] at hloc
    obtain ⟨rem1, hrun, hrem1⟩ := hb
    rw [hrun]
    obtain ⟨rem', h⟩ := ih (Peer.step filter σ e).1 hσ' rem1 (out ++ (Peer.step filter σ e).2) hrem1
    exact ⟨rem', by rw [h]; simp [List.append_assoc]⟩

end CG.Proofs.PeerRefine

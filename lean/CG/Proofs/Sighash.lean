import CG.Model.Sighash
import CG.Spec.LegacySighash
/-! Helper lemmas for C02. -/
namespace CG.Proofs.Sighash
open CG CG.Model.TxSer CG.Model.Sighash
open CG.Spec.Bip143 (compactSize le64s le32 outpoint txOut)

/-! ### A. layouts -/

theorem varInt_eq_compactSize (n : Nat) : varInt n = compactSize n := by
  unfold varInt compactSize
  by_cases h1 : n ≤ 252
  · have : n < 0xfd := by omega
    simp [h1, this]
  · have h1' : ¬ n < 0xfd := by omega
    by_cases h2 : n ≤ 0xffff
    · have : n < 0x10000 := by omega
      simp [h1, h1', h2, this]
    · have h2' : ¬ n < 0x10000 := by omega
      by_cases h3 : n ≤ 0xffffffff
      · have : n < 0x100000000 := by omega
        simp [h1, h1', h2, h2', h3, this]
      · have h3' : ¬ n < 0x100000000 := by omega
        simp [h1, h1', h2, h2', h3, h3']

def InI64 (x : Int) : Prop := -(2 ^ 63) ≤ x ∧ x < 2 ^ 63

theorem i64LE_eq_le64s (x : Int) (h : InI64 x) : i64LE x = le64s x := by
  unfold i64LE le64s
  obtain ⟨h1, h2⟩ := h
  congr 1
  by_cases hx : 0 ≤ x
  · simp only [hx, if_true]
    have : x % 2 ^ 64 = x := Int.emod_eq_of_lt hx (by omega)
    rw [this]
  · simp only [hx, if_false]
    have : x % 2 ^ 64 = 2 ^ 64 + x := by
      have h3 : (x + 2 ^ 64) % 2 ^ 64 = x + 2 ^ 64 := Int.emod_eq_of_lt (by omega) (by omega)
      rw [Int.add_emod_right] at h3
      omega
    rw [this]

theorem serOutPoint_eq (o : OutPoint) : serOutPoint o = outpoint o := rfl

theorem serTxOut_eq (o : TxOut) (h : InI64 o.satoshis) : serTxOut o = txOut o := by
  unfold serTxOut txOut
  rw [i64LE_eq_le64s _ h, varInt_eq_compactSize]

theorem serTxIn_eq (i : TxIn) : serTxIn i = Spec.LegacySighash.txIn i := by
  unfold serTxIn Spec.LegacySighash.txIn
  rw [varInt_eq_compactSize]; rfl

theorem flatMap_serTxOut_eq (outs : List TxOut) (h : ∀ o ∈ outs, InI64 o.satoshis) :
    outs.flatMap serTxOut = (outs.map txOut).flatten := by
  induction outs with
  | nil => rfl
  | cons o os ih =>
    simp only [List.flatMap_cons, List.map_cons, List.flatten_cons]
    rw [serTxOut_eq o (h o (by simp)), ih (fun o' ho' => h o' (by simp [ho']))]

/-! ### hash-type byte facts (one byte: `decide +kernel` over `Fin 256`) -/

theorem acp_fin : ∀ i : Fin 256,
    decide (UInt8.ofNat i.val &&& SIGHASH_ANYONECANPAY ≠ 0) = decide (i.val / 128 % 2 = 1) := by
  decide +kernel
theorem acp_iff (ty : UInt8) : (ty &&& SIGHASH_ANYONECANPAY ≠ 0) ↔ Spec.Bip143.anyoneCanPay ty = true := by
  have := acp_fin ⟨ty.toNat, ty.toNat_lt⟩
  simp only [UInt8.ofNat_toNat] at this
  unfold Spec.Bip143.anyoneCanPay
  rw [decide_eq_decide] at this
  simpa using this

theorem forkid_fin : ∀ i : Fin 256,
    decide (UInt8.ofNat i.val &&& SIGHASH_FORKID ≠ 0) = decide (i.val / 64 % 2 = 1) := by
  decide +kernel
theorem forkid_iff (ty : UInt8) : (ty &&& SIGHASH_FORKID ≠ 0) ↔ Spec.Bip143.forkId ty = true := by
  have := forkid_fin ⟨ty.toNat, ty.toNat_lt⟩
  simp only [UInt8.ofNat_toNat] at this
  unfold Spec.Bip143.forkId
  rw [decide_eq_decide] at this
  simpa using this

theorem single_fin : ∀ i : Fin 256,
    decide (UInt8.ofNat i.val &&& 31 = SIGHASH_SINGLE) = decide (i.val % 32 = 3) := by
  decide +kernel
theorem single_iff (ty : UInt8) : (ty &&& 31 = SIGHASH_SINGLE) ↔ Spec.Bip143.isSingle ty = true := by
  have := single_fin ⟨ty.toNat, ty.toNat_lt⟩
  simp only [UInt8.ofNat_toNat] at this
  unfold Spec.Bip143.isSingle Spec.Bip143.baseType
  rw [decide_eq_decide] at this
  simpa using this

theorem none_fin : ∀ i : Fin 256,
    decide (UInt8.ofNat i.val &&& 31 = SIGHASH_NONE) = decide (i.val % 32 = 2) := by
  decide +kernel
theorem none_iff (ty : UInt8) : (ty &&& 31 = SIGHASH_NONE) ↔ Spec.Bip143.isNone ty = true := by
  have := none_fin ⟨ty.toNat, ty.toNat_lt⟩
  simp only [UInt8.ofNat_toNat] at this
  unfold Spec.Bip143.isNone Spec.Bip143.baseType
  rw [decide_eq_decide] at this
  simpa using this

/-! ### B. the cache -/

/-- the invariant: each slot is empty or holds the hash of the corresponding serialisation of THIS tx -/
structure CacheOk (H : Bytes → Bytes) (tx : Tx) (c : Cache) : Prop where
  prevouts : c.hashPrevouts = none ∨ c.hashPrevouts = some (H (prevoutsSer tx))
  sequence : c.hashSequence = none ∨ c.hashSequence = some (H (sequencesSer tx))
  outputs : c.hashOutputs = none ∨ c.hashOutputs = some (H (outputsSer tx))

theorem cacheOk_empty (H : Bytes → Bytes) (tx : Tx) : CacheOk H tx Cache.empty :=
  ⟨Or.inl rfl, Or.inl rfl, Or.inl rfl⟩

theorem useSlot_ok {slot : Option Bytes} {v : Bytes} (h : slot = none ∨ slot = some v) :
    useSlot slot v = (some v, v) := by
  rcases h with h | h <;> simp [useSlot, h]

/-- one preimage request: the answer does not depend on the (valid) cache, the cache stays valid -/
theorem preimage_cache (H : Bytes → Bytes) (tx : Tx) (n : Nat) (code : Bytes) (k : Nat) (sat : Int)
    (ty : UInt8) (c : Cache) (hc : CacheOk H tx c) :
    (preimage H tx n code k sat ty c).1 = (preimage H tx n code k sat ty Cache.empty).1 ∧
    CacheOk H tx (preimage H tx n code k sat ty c).2 := by
  obtain ⟨h1, h2, h3⟩ := hc
  cases hin : tx.inputs[n]? with
  | none => simp only [preimage, hin]; exact ⟨trivial, ⟨h1, h2, h3⟩⟩
  | some txIn =>
    cases hx : extractSubscript code k with
    | err e => simp only [preimage, hin, hx]; exact ⟨trivial, ⟨h1, h2, h3⟩⟩
    | panic s => simp only [preimage, hin, hx]; exact ⟨trivial, ⟨h1, h2, h3⟩⟩
    | ok sub =>
      obtain ⟨hp, hs, ho⟩ := c
      simp only at h1 h2 h3
      have hne : SIGHASH_NONE ≠ SIGHASH_SINGLE := by decide
      have hne' : SIGHASH_SINGLE ≠ SIGHASH_NONE := by decide
      by_cases ca : ty &&& SIGHASH_ANYONECANPAY ≠ 0 <;> by_cases cs : ty &&& 31 = SIGHASH_SINGLE <;>
        by_cases cn : ty &&& 31 = SIGHASH_NONE <;>
        rcases h1 with rfl | rfl <;> rcases h2 with rfl | rfl <;> rcases h3 with rfl | rfl <;>
        (refine ⟨?_, ⟨?_, ?_, ?_⟩⟩ <;> simp [preimage, hin, hx, useSlot, Cache.empty, ca, cs, cn, hne, hne'] <;> (try split) <;> simp_all)

/-! ### C. request sequences -/

theorem bip143Sighash_cache (H : Bytes → Bytes) (tx : Tx) (n : Nat) (code : Bytes) (k : Nat) (sat : Int)
    (ty : UInt8) (c : Cache) (hc : CacheOk H tx c) :
    (bip143Sighash H tx n code k sat ty c).1 = (bip143Sighash H tx n code k sat ty Cache.empty).1 ∧
    CacheOk H tx (bip143Sighash H tx n code k sat ty c).2 := by
  obtain ⟨h1, h2⟩ := preimage_cache H tx n code k sat ty c hc
  unfold bip143Sighash
  rcases hp : preimage H tx n code k sat ty c with ⟨o, c'⟩
  rcases hq : preimage H tx n code k sat ty Cache.empty with ⟨o', c''⟩
  rw [hp, hq] at h1
  rw [hp] at h2
  simp only at h1 h2
  subst h1
  cases o <;> exact ⟨rfl, h2⟩

theorem answer_cache (fix : Bool) (H : Bytes → Bytes) (tx : Tx) (c : Cache) (hc : CacheOk H tx c) (r : Req) :
    (answerWith fix H tx c r).2 = (answerWith fix H tx Cache.empty r).2 ∧
    CacheOk H tx (answerWith fix H tx c r).1 := by
  unfold answerWith
  cases r.kind with
  | preimage =>
    obtain ⟨h1, h2⟩ := preimage_cache H tx r.nInput r.code r.k r.sat r.ty c hc
    exact ⟨h1, h2⟩
  | digest =>
    simp only [sighashWith]
    split
    · obtain ⟨h1, h2⟩ := bip143Sighash_cache H tx r.nInput r.code r.k r.sat r.ty c hc
      exact ⟨h1, h2⟩
    · exact ⟨rfl, hc⟩
  | wallet => exact ⟨rfl, hc⟩

/-- **cache transparency**: for any list of requests through one valid cache, every answer is the
    fresh computation, and the cache is valid afterwards. -/
theorem run_cache (fix : Bool) (H : Bytes → Bytes) (tx : Tx) : ∀ (reqs : List Req) (c : Cache), CacheOk H tx c →
    (runWith fix H tx c reqs).2 = reqs.map (fun r => (answerWith fix H tx Cache.empty r).2) ∧
    CacheOk H tx (runWith fix H tx c reqs).1 := by
  intro reqs
  induction reqs with
  | nil => intro c hc; exact ⟨rfl, hc⟩
  | cons r rs ih =>
    intro c hc
    obtain ⟨h1, h2⟩ := answer_cache fix H tx c hc r
    obtain ⟨h3, h4⟩ := ih (answerWith fix H tx c r).1 h2
    simp only [runWith, List.map_cons]
    exact ⟨by rw [h1, h3], h4⟩

/-! ### D. BIP-143 preimage = specification -/

def ofSpec : Option Bytes → Outcome Bytes
  | some b => .ok b
  | none => .err "BadArgument"

def AmountsInRange (tx : Tx) : Prop := ∀ o ∈ tx.outputs, InI64 o.satoshis

theorem prevoutsSer_eq (tx : Tx) :
    prevoutsSer tx = (tx.inputs.map (fun i => outpoint i.prevOutput)).flatten := by
  simp [prevoutsSer, List.flatMap_def]; rfl

theorem sequencesSer_eq (tx : Tx) :
    sequencesSer tx = (tx.inputs.map (fun i => le32 i.sequence)).flatten := by
  simp [sequencesSer, List.flatMap_def]; rfl

theorem outputsSer_eq (tx : Tx) (h : AmountsInRange tx) :
    outputsSer tx = (tx.outputs.map txOut).flatten := flatMap_serTxOut_eq _ h

/-- with a fresh cache and a given script code the model's preimage is the specification's -/
theorem preimage_eq_specOf (H : Bytes → Bytes) (tx : Tx) (n : Nat) (code : Bytes) (k : Nat) (sat : Int)
    (ty : UInt8) (hsat : InI64 sat) (hout : AmountsInRange tx) (sc : Bytes)
    (hm : extractSubscript code k = .ok sc) :
    (preimage H tx n code k sat ty Cache.empty).1
      = ofSpec (Spec.Bip143.preimageOf H tx n sc sat ty) := by
  unfold preimage Spec.Bip143.preimageOf
  cases hin : tx.inputs[n]? with
  | none => rfl
  | some txIn =>
    simp only [hm, Cache.empty, useSlot, ofSpec]
    have ha := acp_iff ty
    have hs := single_iff ty
    have hn := none_iff ty
    congr 1
    simp only [List.append_assoc]
    congr 1
    congr 1
    · -- hashPrevouts
      unfold Spec.Bip143.hashPrevouts
      by_cases ca : ty &&& SIGHASH_ANYONECANPAY ≠ 0
      · have : Spec.Bip143.anyoneCanPay ty = true := ha.mp ca
        simp [ca, this, zero32, Spec.Bip143.zeros32]
      · have : Spec.Bip143.anyoneCanPay ty = false := by
          cases h : Spec.Bip143.anyoneCanPay ty with
          | false => rfl
          | true => exact absurd (ha.mpr h) ca
        simp [ca, this, prevoutsSer_eq]
    congr 1
    · -- hashSequence
      unfold Spec.Bip143.hashSequence
      by_cases ca : ty &&& SIGHASH_ANYONECANPAY ≠ 0 <;> by_cases cs : ty &&& 31 = SIGHASH_SINGLE <;>
        by_cases cn : ty &&& 31 = SIGHASH_NONE <;>
        simp only [ne_eq, ca, cs, cn, not_true_eq_false, not_false_eq_true, and_self, and_true, and_false,
          false_and, if_true, if_false] <;>
        (have ha' := ha; have hs' := hs; have hn' := hn
         simp only [ne_eq, ca, cs, cn, not_false_eq_true, true_iff, false_iff,
           Bool.not_eq_true] at ha' hs' hn'
         simp [ha', hs', hn', zero32, Spec.Bip143.zeros32, sequencesSer_eq])
    congr 1
    congr 1
    · rw [varInt_eq_compactSize]
    congr 1
    congr 1
    · exact i64LE_eq_le64s sat hsat
    congr 1
    congr 1
    -- hashOutputs
    unfold Spec.Bip143.hashOutputs
    by_cases cs : ty &&& 31 = SIGHASH_SINGLE <;> by_cases cn : ty &&& 31 = SIGHASH_NONE
    · exact absurd (cs.symm.trans cn) (by decide)
    · have hs' : Spec.Bip143.isSingle ty = true := hs.mp cs
      have hn' : Spec.Bip143.isNone ty = false := by
        cases h : Spec.Bip143.isNone ty with
        | false => rfl
        | true => exact absurd (hn.mpr h) cn
      simp only [ne_eq, cs, not_true_eq_false, false_and, if_false, true_and, hs', hn',
        Bool.not_true, Bool.false_and, Bool.false_eq_true, if_true]
      cases ho : tx.outputs[n]? with
      | none =>
        have : ¬ n < tx.outputs.length := by
          intro hlt; rw [List.getElem?_eq_getElem hlt] at ho; simp at ho
        simp [this, zero32, Spec.Bip143.zeros32]
      | some o =>
        have hlt : n < tx.outputs.length := by
          by_cases hlt : n < tx.outputs.length
          · exact hlt
          · rw [List.getElem?_eq_none (by omega)] at ho; simp at ho
        have hmem : o ∈ tx.outputs := List.mem_of_getElem? ho
        simp [hlt, serTxOut_eq o (hout o hmem)]
    · have hs' : Spec.Bip143.isSingle ty = false := by
        cases h : Spec.Bip143.isSingle ty with
        | false => rfl
        | true => exact absurd (hs.mpr h) cs
      have hn' : Spec.Bip143.isNone ty = true := hn.mp cn
      have hne : ¬ (SIGHASH_NONE = SIGHASH_SINGLE) := by decide
      simp [cn, hs', hn', zero32, Spec.Bip143.zeros32, hne]
    · have hs' : Spec.Bip143.isSingle ty = false := by
        cases h : Spec.Bip143.isSingle ty with
        | false => rfl
        | true => exact absurd (hs.mpr h) cs
      have hn' : Spec.Bip143.isNone ty = false := by
        cases h : Spec.Bip143.isNone ty with
        | false => rfl
        | true => exact absurd (hn.mpr h) cn
      simp [cs, cn, hs', hn', outputsSer_eq tx hout]

theorem preimage_oob (H : Bytes → Bytes) (tx : Tx) (n : Nat) (code : Bytes) (k : Nat) (sat : Int)
    (ty : UInt8) (c : Cache) (h : tx.inputs.length ≤ n) :
    preimage H tx n code k sat ty c = (.err "BadArgument", c) := by
  unfold preimage
  rw [List.getElem?_eq_none h]

theorem legacy_oob (fix : Bool) (tx : Tx) (n : Nat) (code : Bytes) (k : Nat) (ty : UInt8)
    (h : tx.inputs.length ≤ n) : legacyPreimageWith fix tx n code k ty = .err "BadArgument" := by
  unfold legacyPreimageWith
  simp [h]

/-! ### E. legacy preimage = specification -/

theorem mapIdx_eq_zipWith_range {α β} (f : Nat → α → β) (l : List α) :
    l.mapIdx f = List.zipWith f (List.range l.length) l := by
  rw [List.mapIdx_eq_iff]
  intro i
  rw [List.getElem?_zipWith']
  by_cases h : i < l.length
  · rw [List.getElem?_range h]; simp
  · have h1 : (List.range l.length)[i]? = none := by simp; omega
    have h2 : l[i]? = none := by simp; omega
    simp [h1, h2]

theorem take_one_drop {α} (l : List α) (n : Nat) (h : n < l.length) : (l.drop n).take 1 = [l[n]] := by
  have := List.drop_eq_getElem_cons h
  rw [this]; rfl

theorem single_outputs {α} (z : α) : ∀ (n : Nat) (l : List α), n < l.length →
    (l.take (n + 1)).mapIdx (fun i o => if i < n then z else o) = List.replicate n z ++ (l.drop n).take 1 := by
  intro n
  induction n with
  | zero =>
    intro l h
    cases l with
    | nil => simp at h
    | cons a t => simp
  | succ n ih =>
    intro l h
    cases l with
    | nil => simp at h
    | cons a t =>
      have h' : n < t.length := by simpa using h
      have := ih t h'
      simp only [List.take_succ_cons, List.mapIdx_cons, Nat.zero_lt_succ, if_true, List.replicate_succ,
        List.cons_append, List.drop_succ_cons, List.cons.injEq, true_and]
      rw [← this]
      congr 1
      funext i o
      simp

theorem blank_eq (n : Nat) (sc : Bytes) (ty : UInt8) (j : Nat) (i : TxIn) :
    (if j = n then { i with unlockScript := sc }
      else { i with unlockScript := [],
                    sequence := if ty &&& 31 = SIGHASH_NONE ∨ ty &&& 31 = SIGHASH_SINGLE then 0 else i.sequence })
    = (if j = n then { i with unlockScript := sc }
      else { i with unlockScript := [],
                    sequence := if (Spec.Bip143.isNone ty || Spec.Bip143.isSingle ty) = true then 0 else i.sequence }) := by
  have hs := single_iff ty
  have hn := none_iff ty
  by_cases hj : j = n
  · simp [hj]
  · simp only [hj, if_false]
    congr 1
    simp only [Bool.or_eq_true, ← hs, ← hn]

theorem legacyInputs_eq (tx : Tx) (n : Nat) (sc : Bytes) (ty : UInt8) (hn : n < tx.inputs.length) :
    legacyInputs tx n sc (ty &&& 31) (decide (ty &&& SIGHASH_ANYONECANPAY ≠ 0))
      = Spec.LegacySighash.inputsFor tx n sc ty := by
  have ha := acp_iff ty
  unfold legacyInputs Spec.LegacySighash.inputsFor
  simp only
  have hfun : (fun (j : Nat) (i : TxIn) =>
      if j = n then { i with unlockScript := sc }
      else { i with unlockScript := [],
                    sequence := if ty &&& 31 = SIGHASH_NONE ∨ ty &&& 31 = SIGHASH_SINGLE then 0 else i.sequence })
    = (fun (j : Nat) (i : TxIn) =>
      if j = n then { i with unlockScript := sc }
      else { i with unlockScript := [],
                    sequence := if (Spec.Bip143.isNone ty || Spec.Bip143.isSingle ty) = true then 0 else i.sequence }) := by
    funext j i; exact blank_eq n sc ty j i
  rw [hfun, ← mapIdx_eq_zipWith_range]
  by_cases ca : ty &&& SIGHASH_ANYONECANPAY ≠ 0
  · have : Spec.Bip143.anyoneCanPay ty = true := ha.mp ca
    rw [decide_eq_true ca]
    simp only [if_true, this]
    rw [List.getElem?_eq_getElem hn, take_one_drop _ n (by simpa using hn)]
    simp
  · have : Spec.Bip143.anyoneCanPay ty = false := by
      cases h : Spec.Bip143.anyoneCanPay ty with
      | false => rfl
      | true => exact absurd (ha.mpr h) ca
    rw [decide_eq_false ca]
    simp [this]

theorem flatMap_serTxIn_eq (ins : List TxIn) :
    ins.flatMap serTxIn = (ins.map Spec.LegacySighash.txIn).flatten := by
  rw [List.flatMap_def]
  congr 1
  apply List.map_congr_left
  intro i _; exact serTxIn_eq i

/-- given the script code, the model's legacy buffer is the specification's -/
theorem legacyPreimage_eq_specOf (tx : Tx) (n : Nat) (code : Bytes) (k : Nat) (ty : UInt8)
    (hout : AmountsInRange tx) (sc : Bytes) (hm : extractSubscript code k = .ok sc) :
    legacyPreimage tx n code k ty = ofSpec (Spec.LegacySighash.preimageOf tx n sc ty) := by
  unfold legacyPreimage legacyPreimageWith Spec.LegacySighash.preimageOf
  by_cases hn : n < tx.inputs.length
  · have hn' : ¬ n ≥ tx.inputs.length := by omega
    simp only [hn', if_false, hm, hn, if_true]
    have hs := single_iff ty
    have hnone := none_iff ty
    have ha := acp_iff ty
    have hins := legacyInputs_eq tx n sc ty hn
    have hlen : (if (decide (ty &&& SIGHASH_ANYONECANPAY ≠ 0)) = true then 1 else tx.inputs.length)
        = (Spec.LegacySighash.inputsFor tx n sc ty).length := by
      rw [← hins]
      unfold legacyInputs
      by_cases ca : ty &&& SIGHASH_ANYONECANPAY ≠ 0
      · rw [decide_eq_true ca]; simp [List.getElem?_eq_getElem hn]
      · rw [decide_eq_false ca]; simp
    rw [hins, hlen, flatMap_serTxIn_eq]
    unfold Spec.LegacySighash.outputsFor
    by_cases cn : ty &&& 31 = SIGHASH_NONE
    · have hn1 : Spec.Bip143.isNone ty = true := hnone.mp cn
      simp only [cn, if_true, hn1, ofSpec]
      rw [varInt_eq_compactSize, varInt_eq_compactSize]
      rfl
    · have hn1 : Spec.Bip143.isNone ty = false := by
        cases h : Spec.Bip143.isNone ty with
        | false => rfl
        | true => exact absurd (hnone.mpr h) cn
      simp only [cn, if_false, hn1, Bool.false_eq_true]
      by_cases cs : ty &&& 31 = SIGHASH_SINGLE
      · have hs1 : Spec.Bip143.isSingle ty = true := hs.mp cs
        simp only [cs, if_true, hs1]
        by_cases ho : n < tx.outputs.length
        · have ho' : ¬ n ≥ tx.outputs.length := by omega
          simp only [ho', if_false, ho, if_true, ofSpec]
          rw [single_outputs _ n tx.outputs ho]
          have hr : ∀ o ∈ (List.replicate n (⟨-1, []⟩ : TxOut) ++ (tx.outputs.drop n).take 1), InI64 o.satoshis := by
            intro o hmem
            rcases List.mem_append.mp hmem with h | h
            · have := List.eq_of_mem_replicate h
              subst this
              unfold InI64; constructor <;> simp <;> omega
            · exact hout o (List.mem_of_mem_drop (List.mem_of_mem_take h))
          rw [varInt_eq_compactSize, varInt_eq_compactSize, flatMap_serTxOut_eq _ hr]
          rfl
        · have ho' : n ≥ tx.outputs.length := by omega
          simp [ho', ho, ofSpec]
      · have hs1 : Spec.Bip143.isSingle ty = false := by
          cases h : Spec.Bip143.isSingle ty with
          | false => rfl
          | true => exact absurd (hs.mpr h) cs
        simp only [cs, if_false, hs1, Bool.false_eq_true, ofSpec]
        rw [varInt_eq_compactSize, varInt_eq_compactSize, flatMap_serTxOut_eq _ hout]
        rfl
  · have hn' : n ≥ tx.inputs.length := by omega
    simp [hn', hn, ofSpec]

end CG.Proofs.Sighash

/-!
Base definitions: byte strings, little-endian integers, outcomes.
Import-free (core Lean only) so that the driver executable links.
-/
namespace CG

abbrev Bytes := List UInt8

/-- Outcome of a modelled Rust function: a value, an `Err(..)` of some class, or a panic at a
    named site.  "Never panics" is a theorem `f x ≠ .panic _`, not a by-product of totality. -/
inductive Outcome (α : Type) where
  | ok (a : α)
  | err (e : String)
  | panic (site : String)
deriving Repr, DecidableEq, Inhabited

namespace Outcome
def bind {α β} (o : Outcome α) (f : α → Outcome β) : Outcome β :=
  match o with
  | ok a => f a
  | err e => err e
  | panic s => panic s
def map {α β} (f : α → β) : Outcome α → Outcome β
  | ok a => ok (f a)
  | err e => err e
  | panic s => panic s
def isPanic {α} : Outcome α → Bool
  | panic _ => true
  | _ => false
def isOk {α} : Outcome α → Bool
  | ok _ => true
  | _ => false
instance : Monad Outcome where
  pure := ok
  bind := bind
end Outcome

/-- value of a little-endian byte string -/
def leToNat : Bytes → Nat
  | [] => 0
  | b :: r => b.toNat + 256 * leToNat r

/-- `n`-byte little-endian encoding (truncating, like Rust's `as u8` chains / byteorder). -/
def natToLEn : Nat → Nat → Bytes
  | 0, _ => []
  | n + 1, x => UInt8.ofNat (x % 256) :: natToLEn n (x / 256)

/-- minimal little-endian digits of a natural number (`[]` for 0). -/
def natToLE (n : Nat) : Bytes :=
  if h : n = 0 then [] else UInt8.ofNat (n % 256) :: natToLE (n / 256)
termination_by n
decreasing_by omega

@[simp] theorem natToLEn_length (n x : Nat) : (natToLEn n x).length = n := by
  induction n generalizing x with
  | zero => rfl
  | succ n ih => simp [natToLEn, ih]

theorem leToNat_natToLEn (n x : Nat) : leToNat (natToLEn n x) = x % 256 ^ n := by
  induction n generalizing x with
  | zero => simp [natToLEn, leToNat, Nat.mod_one]
  | succ n ih =>
    simp only [natToLEn, leToNat, ih, UInt8.toNat_ofNat']
    have h : x % 256 ^ (n + 1) = x % 256 + 256 * (x / 256 % 256 ^ n) := by
      rw [Nat.pow_succ, Nat.mul_comm (256 ^ n) 256, Nat.mod_mul]
    have h2 : x % 256 % 2 ^ 8 = x % 256 := Nat.mod_eq_of_lt (Nat.mod_lt _ (by decide))
    omega

theorem leToNat_lt (b : Bytes) : leToNat b < 256 ^ b.length := by
  induction b with
  | nil => simp [leToNat]
  | cons x xs ih =>
    simp only [leToNat, List.length_cons, Nat.pow_succ]
    have := x.toNat_lt
    omega

theorem leToNat_append (a b : Bytes) : leToNat (a ++ b) = leToNat a + 256 ^ a.length * leToNat b := by
  induction a with
  | nil => simp [leToNat]
  | cons x xs ih => simp [leToNat, ih, Nat.pow_succ, Nat.mul_add, Nat.add_assoc]; ac_rfl

theorem natToLEn_leToNat (b : Bytes) : natToLEn b.length (leToNat b) = b := by
  induction b with
  | nil => rfl
  | cons x xs ih =>
    simp only [List.length_cons, natToLEn, leToNat]
    have hx := x.toNat_lt
    have h1 : (x.toNat + 256 * leToNat xs) % 256 = x.toNat := by omega
    have h2 : (x.toNat + 256 * leToNat xs) / 256 = leToNat xs := by omega
    rw [h1, h2, ih]
    simp

theorem leToNat_natToLE (n : Nat) : leToNat (natToLE n) = n := by
  induction n using Nat.strongRecOn with
  | _ n ih =>
    unfold natToLE
    split
    · simp [leToNat, *]
    · simp [leToNat, ih (n / 256) (by omega)]; omega

/-- take exactly `n` bytes or fail (models `read_exact`). -/
def takeExact (n : Nat) (b : Bytes) : Option (Bytes × Bytes) :=
  if n ≤ b.length then some (b.take n, b.drop n) else none

theorem takeExact_append (a r : Bytes) : takeExact a.length (a ++ r) = some (a, r) := by
  simp [takeExact]

theorem takeExact_some {n : Nat} {b x r : Bytes} (h : takeExact n b = some (x, r)) :
    b = x ++ r ∧ x.length = n := by
  unfold takeExact at h
  split at h
  · simp at h; obtain ⟨h1, h2⟩ := h; subst h1 h2; simp; omega
  · simp at h

end CG

import CG.Model.ScriptBuild
import CG.Generated.OpNames
/-!
Model of the text form of scripts:

* the printer `Script::string_representation(false)` (`src/script/mod.rs`; `PyScript::to_string`/`__repr__`),
* the parser `PyScript::parse_string` with `decode_op`, `handle_pushdata`, `is_pushdata_operation`,
  `commands_as_vec` (`src/python/py_script.rs`) and the `OP_CODE_NAMES` table.

Strings are `List Char` (`Str`).  The printer's `while i < script.len()` walk is split in two: `lex` cuts
the script into items exactly as the printer's `match script[i]` / `next_op` do (a push that runs off the
end is the `break` arm: item `trunc rest`), and every item prints on its own; items are joined by the
single space the loop emits when `i != 0`.  The name tables are parameters (`Tables`): `pinned` is
regenerated from the current tree on every run (`CG/Generated/OpNames.lean`), and the number of tokens the
parser skips after OP_PUSHDATA2/4 (`is_pushdata_operation`: 3 and 5) is a field so that the driver can
tell which recorded defect made a case differ.

Domain of the parser model: ASCII tokens.  `str::trim` inside `decode_op` and the outer `trim` are the
identity on everything the printer emits and are not modelled for other whitespace (tab, CR, …); the
separator regex `[ ,\n]+` is modelled exactly.
-/
namespace CG.Model.ScriptText
open CG CG.Model.ScriptNum CG.Model.ScriptBuild

abbrev Str := List Char

structure Tables where
  /-- text the printer emits for opcode byte `b` (a name, or the decimal number for its `_` arm) -/
  printer : List Str
  /-- `OP_CODE_NAMES` -/
  parser : List (Str × Nat)
  /-- `is_pushdata_operation(OP_PUSHDATA2)` / `(OP_PUSHDATA4)` -/
  pd2 : Nat
  pd4 : Nat

def pinned : Tables :=
  { printer := CG.Generated.PRINTER_NAMES, parser := CG.Generated.PARSER_NAMES, pd2 := 3, pd4 := 5 }

-- ------------------------------------------------------------------------------------------ characters

def hexChars : List Char := ['0', '1', '2', '3', '4', '5', '6', '7', '8', '9', 'a', 'b', 'c', 'd', 'e', 'f']
def hexDigit (n : Nat) : Char := hexChars.getD n '?'
/-- `hex::encode` of one byte / `{:02x}` -/
def hexByte (b : UInt8) : Str := [hexDigit (b.toNat / 16), hexDigit (b.toNat % 16)]
/-- `hex::encode` -/
def hexEnc (bs : Bytes) : Str := bs.flatMap hexByte

def decDigit (n : Nat) : Char := Char.ofNat (48 + n)
/-- `format!("{}", b)` for a `u8` -/
def decStr (n : Nat) : Str :=
  if n < 10 then [decDigit n]
  else if n < 100 then [decDigit (n / 10), decDigit (n % 10)]
  else [decDigit (n / 100), decDigit (n / 10 % 10), decDigit (n % 10)]

/-- the `hex` crate accepts both cases -/
def hexVal (c : Char) : Option Nat :=
  let n := c.toNat
  if 48 ≤ n ∧ n ≤ 57 then some (n - 48)
  else if 97 ≤ n ∧ n ≤ 102 then some (n - 87)
  else if 65 ≤ n ∧ n ≤ 70 then some (n - 55)
  else none

/-- `hex::decode` (`None` = `Err`: odd length or a non-hex character) -/
def hexDecGo : Str → Bytes → Option Bytes
  | [], acc => some acc.reverse
  | [_], _ => none
  | a :: b :: r, acc =>
    match hexVal a, hexVal b with
    | some x, some y => hexDecGo r (UInt8.ofNat (16 * x + y) :: acc)
    | _, _ => none
def hexDec (s : Str) : Option Bytes := hexDecGo s []

-- ------------------------------------------------------------------------------------------ items

/-- what the printer's loop sees at one position -/
inductive Item
  | op (b : UInt8)            -- any byte outside 1..=78
  | push (d : Bytes)          -- opcode 1..=75 followed by that many bytes
  | pd1 (d : Bytes)           -- OP_PUSHDATA1, length byte, data
  | pd2 (d : Bytes)           -- OP_PUSHDATA2, two length bytes (LE), data
  | pd4 (d : Bytes)           -- OP_PUSHDATA4, four length bytes (LE), data
  | trunc (rest : Bytes)      -- a push that runs off the end: `break`, the rest is dumped byte by byte
deriving DecidableEq, Repr

/-- one turn of the printer's loop on the remaining script `s = script[i..]` (non-empty): the item and
    `script[next_op(i)..]` -/
def lexOne (s : Bytes) : Item × Bytes :=
  match s with
  | [] => (.trunc [], [])
  | b :: r =>
    let n := b.toNat
    if 1 ≤ n ∧ n ≤ 75 then
      if n ≤ r.length then (.push (r.take n), r.drop n) else (.trunc s, [])
    else if n = 76 then
      match r with
      | l :: r' =>
        if l.toNat ≤ r'.length then (.pd1 (r'.take l.toNat), r'.drop l.toNat) else (.trunc s, [])
      | _ => (.trunc s, [])
    else if n = 77 then
      match r with
      | l0 :: l1 :: r' =>
        let len := l0.toNat + l1.toNat * 256
        if len ≤ r'.length then (.pd2 (r'.take len), r'.drop len) else (.trunc s, [])
      | _ => (.trunc s, [])
    else if n = 78 then
      match r with
      | l0 :: l1 :: l2 :: l3 :: r' =>
        let len := l0.toNat + l1.toNat * 256 + l2.toNat * 65536 + l3.toNat * 16777216
        if len ≤ r'.length then (.pd4 (r'.take len), r'.drop len) else (.trunc s, [])
      | _ => (.trunc s, [])
    else (.op b, r)

/-- the loop (every turn consumes at least one byte: fuel `s.length` suffices) -/
def lexFuel : Nat → Bytes → List Item
  | 0, _ => []
  | _ + 1, [] => []
  | f + 1, b :: r => let x := lexOne (b :: r); x.1 :: lexFuel f x.2
def lex (s : Bytes) : List Item := lexFuel s.length s

/-- the bytes of an item (`encode (lex s) = s`) -/
def Item.bytes : Item → Bytes
  | .op b => [b]
  | .push d => UInt8.ofNat d.length :: d
  | .pd1 d => 76 :: (natToLEn 1 d.length ++ d)
  | .pd2 d => 77 :: (natToLEn 2 d.length ++ d)
  | .pd4 d => 78 :: (natToLEn 4 d.length ++ d)
  | .trunc r => r
def encode (is : List Item) : Bytes := is.flatMap Item.bytes

-- ------------------------------------------------------------------------------------------ printer

def pd1Name : Str := ['O', 'P', '_', 'P', 'U', 'S', 'H', 'D', 'A', 'T', 'A', '1']
def pd2Name : Str := ['O', 'P', '_', 'P', 'U', 'S', 'H', 'D', 'A', 'T', 'A', '2']
def pd4Name : Str := ['O', 'P', '_', 'P', 'U', 'S', 'H', 'D', 'A', 'T', 'A', '4']

def opText (T : Tables) (b : UInt8) : Str := T.printer.getD b.toNat []
/-- `"0x"` followed by `hex::encode` -/
def hexTok (bs : Bytes) : Str := '0' :: 'x' :: hexEnc bs

/-- the space-separated tokens of a complete item -/
def itemToks (T : Tables) : Item → List Str
  | .op b => [opText T b]
  | .push d => [hexTok d]
  | .pd1 d => [pd1Name, hexTok (natToLEn 1 d.length), hexTok d]
  | .pd2 d => [pd2Name, hexTok (natToLEn 2 d.length), hexTok d]
  | .pd4 d => [pd4Name, hexTok (natToLEn 4 d.length), hexTok d]
  | .trunc _ => []

/-- tokens joined by single spaces -/
def joinSp : List Str → Str
  | [] => []
  | t :: r => t ++ r.flatMap (fun x => ' ' :: x)

/-- what the `OP_PUSHDATA*` arms have appended when they `break` -/
def truncHeader (s : Bytes) : Str :=
  match s with
  | [] => []
  | b :: r =>
    if b.toNat = 76 then
      match r with
      | l :: _ => pd1Name ++ ' ' :: (hexTok [l] ++ [' '])
      | _ => pd1Name ++ [' ']
    else if b.toNat = 77 then
      match r with
      | l0 :: l1 :: _ => pd2Name ++ ' ' :: (hexTok [l0, l1] ++ [' '])
      | _ => pd2Name ++ [' ']
    else if b.toNat = 78 then
      match r with
      | l0 :: l1 :: l2 :: l3 :: _ => pd4Name ++ ' ' :: (hexTok [l0, l1, l2, l3] ++ [' '])
      | _ => pd4Name ++ [' ']
    else []

def printItem (T : Tables) : Item → Str
  | .trunc rest => truncHeader rest ++ rest.flatMap (fun b => ' ' :: decStr b.toNat)
  | it => joinSp (itemToks T it)

/-- `Script::string_representation(false)` -/
def printString (T : Tables) (s : Bytes) : Str := joinSp ((lex s).map (printItem T))

/-- the token list of a script all of whose pushes are complete -/
def printToks (T : Tables) (is : List Item) : List Str := is.flatMap (itemToks T)

-- ------------------------------------------------------------------------------------------ parser

inductive Cmd
  | int (b : UInt8)
  | bytes (bs : Bytes)
deriving DecidableEq, Repr

def isSep (c : Char) : Bool := c == ' ' || c == ',' || c == '\n'

/-- `Regex::new(r"[ ,\n]+").split(..).filter(|x| x.trim() != "")`: maximal runs of non-separators -/
def splitGo : Str → Str → List Str → List Str
  | [], cur, acc => (if cur.isEmpty then acc else cur.reverse :: acc).reverse
  | c :: r, cur, acc =>
    if isSep c then splitGo r [] (if cur.isEmpty then acc else cur.reverse :: acc)
    else splitGo r (c :: cur) acc
def splitSep (s : Str) : List Str := splitGo s [] []

/-- `OP_CODE_NAMES.get(op)` (a later duplicate key would win in the `HashMap`) -/
def lookupName (T : Tables) (w : Str) : Option Nat :=
  T.parser.foldl (fun acc p => if p.1 = w then some p.2 else acc) none

def digitVal (c : Char) : Option Nat :=
  let n := c.toNat
  if 48 ≤ n ∧ n ≤ 57 then some (n - 48) else none

def parseDigits : Str → Nat → Option Nat
  | [], acc => some acc
  | c :: r, acc =>
    match digitVal c with
    | some d => parseDigits r (acc * 10 + d)
    | none => none

/-- `str::parse::<i64>()`: optional sign, at least one digit, no overflow -/
def parseI64 (s : Str) : Option Int :=
  match s with
  | [] => none
  | '-' :: r =>
    if r.isEmpty then none
    else match parseDigits r 0 with
      | some n => if n ≤ 9223372036854775808 then some (-(n : Int)) else none
      | none => none
  | '+' :: r =>
    if r.isEmpty then none
    else match parseDigits r 0 with
      | some n => if n ≤ 9223372036854775807 then some (n : Int) else none
      | none => none
  | _ =>
    match parseDigits s 0 with
    | some n => if n ≤ 9223372036854775807 then some (n : Int) else none
    | none => none

def charByte (c : Char) : UInt8 := UInt8.ofNat c.toNat

/-- `decode_op(op, is_pushdata)` -/
def decodeOp (T : Tables) (w : Str) (k : Nat) : Outcome Cmd :=
  match lookupName T w with
  | some v => .ok (.int (UInt8.ofNat v))
  | none =>
    match parseI64 w with
    | some val =>
      if val = -1 then .ok (.int 79)
      else if val = 0 then .ok (.int 0)
      else if 1 ≤ val ∧ val ≤ 16 then .ok (.int (UInt8.ofNat (val.toNat + 80)))
      else if 17 ≤ val ∧ val ≤ 75 then
        (if k > 0 then .ok (.int (UInt8.ofNat val.toNat)) else .ok (.bytes [1, UInt8.ofNat val.toNat]))
      else
        match encodeNum val with
        | .ok v => if k > 0 then .ok (.bytes v) else .ok (.bytes (UInt8.ofNat v.length :: v))
        -- repaired tree (f3306ca): `encode_num(val)?` — an error value instead of `unwrap()`
        | _ => .err "ScriptError"
    | none =>
      match w with
      -- repaired tree (f3306ca): `strip_prefix("0x")`, `hex::decode(..)?`, and `op.get(start..len-1)`
      -- (None = BadData) replace the byte-offset slices and unwraps of the pinned tree
      | '0' :: 'x' :: h =>
        (match hexDec h with
         | some data => if k > 0 then .ok (.bytes data) else .ok (.bytes (appendData [] data))
         | none => .err "HexError")
      | [] => .err "BadData"
      | 'b' :: r =>
        -- `op.get(2..op.len() - 1)`: needs at least "b", one delimiter and a closing one
        (match r with
         | _ :: r2 => if r2.isEmpty then .err "BadData" else .ok (.bytes (r2.dropLast.map charByte))
         | [] => .err "BadData")
      | _ :: r => if r.isEmpty then .err "BadData" else .ok (.bytes (r.dropLast.map charByte))

/-- `is_pushdata_operation` -/
def pushdataTokens (T : Tables) : Cmd → Option Nat
  | .int b => if b.toNat = 76 then some 2 else if b.toNat = 77 then some T.pd2 else if b.toNat = 78 then some T.pd4 else none
  | .bytes _ => none

/-- `handle_pushdata` -/
def handlePushdata (T : Tables) (c : Cmd) (k : Nat) : Nat :=
  match pushdataTokens T c with
  | some v => v
  | none => k - 1

/-- the `for s in splits` loop -/
def parseToks (T : Tables) : List Str → Nat → Outcome (List Cmd)
  | [], _ => .ok []
  | w :: r, k =>
    match decodeOp T w k with
    | .ok c =>
      (match parseToks T r (handlePushdata T c k) with
       | .ok cs => .ok (c :: cs)
       | .err e => .err e
       | .panic p => .panic p)
    | .err e => .err e
    | .panic p => .panic p

def Cmd.bytesOf : Cmd → Bytes
  | .int b => [b]
  | .bytes bs => bs
/-- `commands_as_vec` -/
def commandsAsVec (cs : List Cmd) : Bytes := cs.flatMap Cmd.bytesOf

/-- `PyScript::parse_string` -/
def parseString (T : Tables) (s : Str) : Outcome Bytes :=
  match parseToks T (splitSep s) 0 with
  | .ok cs => .ok (commandsAsVec cs)
  | .err e => .err e
  | .panic p => .panic p

/-- text → script → text → script as the python stage runs it -/
def roundTrip (T : Tables) (s : Bytes) : Outcome Bytes := parseString T (printString T s)

-- ------------------------------------------------------------------------------------------ hypotheses of the round trip

/-- the printer's text for opcode `b` is a key of the parser's table, with value `b` -/
def Named (T : Tables) (b : UInt8) : Bool := lookupName T (opText T b) == some b.toNat

/-- an item is well formed: an opcode byte is not a push opcode, a push has the length its class can
    express, and nothing is truncated -/
def Item.wf : Item → Bool
  | .op b => !(1 ≤ b.toNat && b.toNat ≤ 78)
  | .push d => 1 ≤ d.length && d.length ≤ 75
  | .pd1 d => d.length ≤ 255
  | .pd2 d => d.length ≤ 65535
  | .pd4 d => d.length < 4294967296
  | .trunc _ => false

/-- exact condition under which the pinned parser restores the script: every opcode is named, and no
    direct push is met while the parser's "inside pushdata" counter (started at `pd2 - 2` resp. `pd4 - 2`
    by OP_PUSHDATA2/4, decremented by every token, reset by OP_PUSHDATA1) is still positive. -/
def safe (T : Tables) : Nat → List Item → Bool
  | _, [] => true
  | k, .op b :: r => Named T b && safe T (k - 1) r
  | k, .push _ :: r => k == 0 && safe T 0 r
  | _, .pd1 _ :: r => safe T 0 r
  | _, .pd2 _ :: r => decide (2 ≤ T.pd2) && safe T (T.pd2 - 2) r
  | _, .pd4 _ :: r => decide (2 ≤ T.pd4) && safe T (T.pd4 - 2) r
  | _, .trunc _ :: _ => false

end CG.Model.ScriptText

import CG.Base.Bytes
/-!
Model of the peer life cycle (`src/peer/peer.rs`): `Peer::connect`, `connect_internal`
(the receive thread: `handshake`, the `connected` flag, the single-shot connected event, the receive
loop, `handle_message`), `send`, `disconnect`, and `Single` (`src/util/rx.rs`) used only through
its API semantics: the first value published wins, later `next` calls are ignored.

The peer is a state machine over EVENTS.  Remote events are what the receive thread obtains from
its next read — a complete message, something that is not a message, end of stream, or (during the
handshake only, where a 3 s read timeout is set) nothing at all.  Byte-level behaviour of the
remote (segmentation, pacing, truncated frames, bad magic / checksum / length) is lifted to these
events by the C11 theorems (`CG.Props.C11`).  Local events are calls of `Peer::send` and
`Peer::disconnect` from other threads.

Linearisation: one event = one atomic step.  For a received message the step is
"read returns — test the `connected` flag (peer.rs:295) — `handle_message` — publish".  A local
`disconnect()` whose flag store (peer.rs:195) comes after that flag test is ordered AFTER the
message in this model, although on the real threads its disconnected event may be published
before the message is (see `CG.Props.C12`, "what is partial").
-/
namespace CG.Model.Peer
open CG

/-- the fields of `Version` that `PeerFilter::connectable` implementations look at -/
structure VersionInfo where
  proto : Nat
  services : Nat
  startHeight : Int
  userAgent : Bytes
deriving DecidableEq, Repr

/-- what `handshake` / `handle_message` distinguish in a `Message` -/
inductive Kind where
  | version (v : VersionInfo)
  | verack
  | ping (nonce : Nat)
  | feefilter (fee : Nat)
  | sendheaders
  /-- `SendCmpct::use_cmpctblock()` -/
  | sendcmpct (use : Bool)
  /-- every other message -/
  | plain
deriving DecidableEq, Repr

/-- a `Message`: its kind, an identity used in logs (command and payload digest), and whether
    `Message::write` can serialise it (`Other` and `Partial` cannot: `InvalidData`) -/
structure Msg where
  kind : Kind
  tag : String
  writable : Bool
deriving DecidableEq, Repr

/-- why the bytes read are not a message (all are errors other than TimedOut/WouldBlock) -/
inductive Garbage where
  | badMagic | badChecksum | oversize | badPayload
deriving DecidableEq, Repr

inductive Event where
  /-- the next read yields this complete, well-formed message -/
  | remoteFrame (m : Msg)
  /-- the next read fails with a non-timeout error (`BadData`, a codec error, …) -/
  | remoteGarbage (g : Garbage)
  /-- end of stream (also: end of stream inside a message) -/
  | remoteClose
  /-- nothing arrives for `HANDSHAKE_READ_TIMEOUT` (only the handshake has a read timeout) -/
  | remoteSilence
  /-- `Peer::send(&m)` called by another thread -/
  | localSend (m : Msg)
  /-- `Peer::disconnect()` called by another thread -/
  | localDisconnect
deriving DecidableEq, Repr

def Event.isLocal : Event → Bool
  | .localSend _ | .localDisconnect => true
  | _ => false

/-- error of `Peer::send` -/
inductive SendErr where
  /-- `IllegalState("Not connected" | "No tcp stream")` -/
  | illegalState
  /-- `IoError(_)` from `Message::write` / `flush` -/
  | io
deriving DecidableEq, Repr

/-- what the peer puts on the socket -/
inductive Wire where
  | version
  | verack
  /-- the ping sent at the end of the handshake (nonce = clock) -/
  | hsPing
  | pong (nonce : Nat)
  | msg (m : Msg)
deriving DecidableEq, Repr

inductive Output where
  /-- observers of `connected_event()` are called -/
  | emitConnected
  /-- observers of `disconnected_event()` are called -/
  | emitDisconnected
  /-- observers of `messages()` are called with `m` -/
  | deliver (m : Msg)
  | wrote (w : Wire)
  /-- `Peer::send` returned (`none` = `Ok(())`) -/
  | sendResult (r : Option SendErr)
deriving DecidableEq, Repr

/-- control state of the receive thread -/
inductive Phase where
  /-- our version is written, `Message::read` #1 pending (peer.rs:354) -/
  | awaitVersion
  /-- `Message::read` #2 pending (peer.rs:370) -/
  | awaitVerack
  /-- inside the receive loop -/
  | connected
  /-- the thread has returned -/
  | dead
deriving DecidableEq, Repr

structure State where
  phase : Phase
  /-- `connected: AtomicBool` -/
  flag : Bool
  /-- `tcp_writer` is `Some` -/
  writer : Bool
  /-- `connected_event: Single` holds its value -/
  connFired : Bool
  /-- `disconnected_event: Single` holds its value -/
  discFired : Bool
  minfee : Nat
  sendheaders : Bool
  sendcmpct : Bool
deriving DecidableEq, Repr

/-- `Peer::connect` has created the peer and the thread has written our version -/
def init : State := ⟨.awaitVersion, false, false, false, false, 0, false, false⟩

/-- `Peer::disconnect`: `connected.swap(false)`; shut the socket down if there is one;
    `disconnected_event.next(..)` — a `Single`: observers are called only the first time. -/
def disconnect (s : State) : State × List Output :=
  ({ s with flag := false, discFired := true }, if s.discFired then [] else [.emitDisconnected])

/-- `Peer::send`: the flag test, the writer test, `message.write` + `flush`; an I/O error calls
    `disconnect()` and is returned. -/
def send (s : State) (w : Wire) (writable : Bool) : State × List Output × Option SendErr :=
  if !s.flag then (s, [], some .illegalState)
  else if !s.writer then (s, [], some .illegalState)
  else if writable then (s, [.wrote w], none)
  else
    let r := disconnect s
    (r.1, r.2, some .io)

/-- `Peer::handle_message`; the `Bool` is `is_ok()` -/
def handleMessage (s : State) (m : Msg) : State × List Output × Bool :=
  match m.kind with
  | .feefilter fee => ({ s with minfee := fee }, [], true)
  | .ping n =>
    let r := send s (.pong n) true
    (r.1, r.2.1, r.2.2.isNone)
  | .sendheaders => ({ s with sendheaders := true }, [], true)
  | .sendcmpct u => ({ s with sendcmpct := u }, [], true)
  | _ => (s, [], true)

/-- an error leaves `handshake` / the receive loop: `disconnect(); return` -/
def threadFail (s : State) : State × List Output :=
  let r := disconnect s
  ({ r.1 with phase := .dead }, r.2)

/-- a complete message inside the receive loop (peer.rs:293-317) -/
def onFrameConnected (s : State) (m : Msg) : State × List Output :=
  if !s.flag then ({ s with phase := .dead }, [])
  else
    let r := handleMessage s m
    if r.2.2 then (r.1, r.2.1 ++ [.deliver m])
    else
      let r2 := threadFail r.1
      (r2.1, r.2.1 ++ r2.2)

/-- end of `handshake` and the lines after it: write verack, write ping, keep the writer,
    `connected.store(true)`, `connected_event.next(..)` (a `Single`) -/
def completeHandshake (s : State) : State × List Output :=
  ({ s with phase := .connected, writer := true, flag := true, connFired := true },
   [.wrote .verack, .wrote .hsPing] ++ (if s.connFired then [] else [.emitConnected]))

/-- a read error other than a timeout, or end of stream -/
def onReadError (s : State) : State × List Output :=
  match s.phase with
  | .awaitVersion | .awaitVerack => threadFail s
  | .connected => if !s.flag then ({ s with phase := .dead }, []) else threadFail s
  | .dead => (s, [])

/-- one event; `filter` is the `PeerFilter` given to `Peer::connect` -/
def step (filter : VersionInfo → Bool) (s : State) : Event → State × List Output
  | .remoteFrame m =>
    match s.phase with
    | .awaitVersion =>
      match m.kind with
      | .version v => if filter v then ({ s with phase := .awaitVerack }, []) else threadFail s
      | _ => threadFail s
    | .awaitVerack =>
      match m.kind with
      | .verack => completeHandshake s
      | _ => threadFail s
    | .connected => onFrameConnected s m
    | .dead => (s, [])
  | .remoteGarbage _ => onReadError s
  | .remoteClose => onReadError s
  | .remoteSilence =>
    match s.phase with
    | .awaitVersion | .awaitVerack => threadFail s
    | _ => (s, [])
  | .localSend m =>
    let r := send s (.msg m) m.writable
    (r.1, r.2.1 ++ [.sendResult r.2.2])
  | .localDisconnect => disconnect s

def runFrom (filter : VersionInfo → Bool) (s : State) : List Event → State × List Output
  | [] => (s, [])
  | e :: es =>
    let r1 := step filter s e
    let r2 := runFrom filter r1.1 es
    (r2.1, r1.2 ++ r2.2)

/-- a whole session: `Peer::connect`, then the events -/
def run (filter : VersionInfo → Bool) (evs : List Event) : State × List Output :=
  let r := runFrom filter init evs
  (r.1, .wrote .version :: r.2)

/-! ### Projections of an output log -/

def delivered (os : List Output) : List Msg :=
  os.filterMap fun | .deliver m => some m | _ => none

def pongs (os : List Output) : List Nat :=
  os.filterMap fun | .wrote (.pong n) => some n | _ => none

def sendResults (os : List Output) : List (Option SendErr) :=
  os.filterMap fun | .sendResult r => some r | _ => none

def wires (os : List Output) : List Wire :=
  os.filterMap fun | .wrote w => some w | _ => none

def pingNonce (m : Msg) : Option Nat :=
  match m.kind with
  | .ping n => some n
  | _ => none

/-- the socket has been shut down or dropped: the remote sees end of stream -/
def State.closed (s : State) : Bool :=
  s.phase == .dead || (!s.flag && s.writer)

/-- `SVPeerFilter { min_start_height }` : the user agent contains "Bitcoin SV", the start height is
    at least the minimum, and one of `NODE_BITCOIN_CASH | NODE_NETWORK` is announced -/
def isInfix (p : Bytes) : Bytes → Bool
  | [] => p.isEmpty
  | b :: bs => p.isPrefixOf (b :: bs) || isInfix p bs

def svFilter (mark : Bytes) (serviceMask : Nat) (minHeight : Int) (v : VersionInfo) : Bool :=
  isInfix mark v.userAgent && decide (v.startHeight ≥ minHeight) && (v.services &&& serviceMask != 0)

end CG.Model.Peer

import CG.Base.Bytes
import CG.Generated.Tables
/-!
Model of the Base58Check text codecs of chain-gang, one function at a time:

* the `base58` crate (0.2.0, `ToBase58 for [u8]`, `FromBase58 for str`) as the standard big-endian
  base conversion with leading zero bytes ↔ leading `'1'`, *plus* the crate's fixed 132-byte work
  buffer (value too large → `InvalidBase58Length`; `leading_zeros - zcount` underflow → panic);
* `wallet/base58_checksum.rs`  `encode_base58_checksum`, `decode_base58_checksum`;
* `address/mod.rs`  `addr_encode`, `addr_decode`;
* `wallet/wallet.rs`  `wif_to_network_and_private_key` (= `Wallet::from_wif`), `public_key_to_address`;
* `python/py_wallet.rs`  `bytes_to_wif`, `address_to_public_key_hash`;
* `wallet/extended_key.rs`  `ExtendedKey::encode/decode`, `version`, `network`, `key_type`.

`repaired = false` is the pinned tree (slices taken before any length check: explicit panic
sites), `repaired = true` the tree after `proposed_fixes/C09-short-input-length-checks.patch`.
The checksum hash (`sha256d`), `hash160` and `SigningKey::from_slice` are parameters.
Prefix bytes and version words come from `CG.Generated` (printed by the harness from the crate).
-/
namespace CG.Model.Base58
open CG

/-! ## positional numerals (any base), on `List Nat` -/

/-- little-endian digits of `n` in base `B`, minimal (`[]` for 0); `fuel` bounds the recursion. -/
def toDigitsAux (B : Nat) : Nat → Nat → List Nat
  | 0, _ => []
  | f + 1, n => if n = 0 then [] else n % B :: toDigitsAux B f (n / B)

def toDigitsLE (B n : Nat) : List Nat := toDigitsAux B n n

def valLE (B : Nat) : List Nat → Nat
  | [] => 0
  | d :: r => d + B * valLE B r

/-- big-endian (most significant first) forms -/
def toDigitsBE (B n : Nat) : List Nat := (toDigitsLE B n).reverse
def valBE (B : Nat) (ds : List Nat) : Nat := valLE B ds.reverse

/-- number of leading zeros -/
def lz : List Nat → Nat
  | 0 :: r => lz r + 1
  | _ => 0

/-- base conversion keeping leading zeros one-for-one: the Base58 scheme. -/
def conv (B C : Nat) (xs : List Nat) : List Nat :=
  List.replicate (lz xs) 0 ++ toDigitsBE C (valBE B xs)

/-- `to_base58` on digit level: bytes → base-58 digits (each < 58). -/
def encode58 (b : Bytes) : List Nat := conv 256 58 (b.map UInt8.toNat)

/-- `from_base58` on digit level, without the crate's buffer limit: `none` iff a digit is ≥ 58. -/
def decode58 (ds : List Nat) : Option Bytes :=
  if ds.all (· < 58) then some ((conv 58 256 ds).map UInt8.ofNat) else none

/-! ## the alphabet (`ALPHABET` / `B58_DIGITS_MAP` of the crate) -/

/-- `B58_DIGITS_MAP`: `'1'..'9'`→0..8, `'A'..'H'`→9..16, `'J'..'N'`→17..21, `'P'..'Z'`→22..32,
    `'a'..'k'`→33..43, `'m'..'z'`→44..57; everything else (also every non-ASCII character, whose
    first UTF-8 byte has the high bit set) is invalid. -/
def charDigit (c : Char) : Option Nat :=
  let n := c.toNat
  if 49 ≤ n ∧ n ≤ 57 then some (n - 49)
  else if 65 ≤ n ∧ n ≤ 72 then some (n - 56)
  else if 74 ≤ n ∧ n ≤ 78 then some (n - 57)
  else if 80 ≤ n ∧ n ≤ 90 then some (n - 58)
  else if 97 ≤ n ∧ n ≤ 107 then some (n - 64)
  else if 109 ≤ n ∧ n ≤ 122 then some (n - 65)
  else none

/-- code point of `ALPHABET[d]` -/
def digitCode (d : Nat) : Nat :=
  if d < 9 then d + 49 else if d < 17 then d + 56 else if d < 22 then d + 57
  else if d < 33 then d + 58 else if d < 44 then d + 64 else d + 65

def digitChar (d : Nat) : Char := Char.ofNat (digitCode d)

def digitsOf : List Char → Option (List Nat)
  | [] => some []
  | c :: r =>
    match charDigit c, digitsOf r with
    | some d, some ds => some (d :: ds)
    | _, _ => none

/-! ## the crate -/

/-- size of the crate's work buffer `bin` -/
def CAP : Nat := 132

/-- `<[u8] as ToBase58>::to_base58` -/
def toBase58 (b : Bytes) : List Char := (encode58 b).map digitChar

/-- `<str as FromBase58>::from_base58`, then `map_err(Base58Error)` as every caller does.
    * a character outside the alphabet → `InvalidBase58Character`;
    * the number does not fit 33 `u32` words (`c != 0` after the carry loop) → `InvalidBase58Length`;
    * `bin[leading_zeros - zcount..]`: `leading_zeros = 132 - #significant bytes`; when
      `zcount` exceeds it the subtraction underflows → panic (debug) / slice start out of range
      (release).  Only reachable with more than 132 characters. -/
def fromBase58 (s : List Char) : Outcome Bytes :=
  match digitsOf s with
  | none => .err "Base58Error"
  | some ds =>
    let v := valBE 58 ds
    if 256 ^ CAP ≤ v then .err "Base58Error"
    else
      let sig := toDigitsBE 256 v
      if CAP < lz ds + sig.length then .panic "base58:from_base58:leading_zeros-zcount"
      else .ok ((List.replicate (lz ds) 0 ++ sig).map UInt8.ofNat)

/-! ## `wallet/base58_checksum.rs` -/

/-- `short_double_sha256_checksum`: `sha256d(data).0[..4]` -/
def checksum4 (H : Bytes → Bytes) (data : Bytes) : Bytes := (H data).take 4

/-- `encode_base58_checksum` -/
def encodeChk (H : Bytes → Bytes) (input : Bytes) : List Char :=
  toBase58 (input ++ checksum4 H input)

/-- `decode_base58_checksum`.  Pinned: `decoded[..decoded.len() - 4]` with fewer than four decoded
    bytes underflows → panic.  Repaired: `BadData`. -/
def decodeChk (repaired : Bool) (H : Bytes → Bytes) (s : List Char) : Outcome Bytes :=
  match fromBase58 s with
  | .err e => .err e
  | .panic p => .panic p
  | .ok decoded =>
    if decoded.length < 4 then
      (if repaired then .err "BadData" else .panic "base58_checksum.rs:decoded.len()-4")
    else
      let shortened := decoded.take (decoded.length - 4)
      let decodedChecksum := decoded.drop (decoded.length - 4)
      if checksum4 H shortened != decodedChecksum then .err "BadData" else .ok shortened

/-! ## networks and prefixes -/

inductive Net where
  | bsvMain | bsvTest | bsvStn | btcMain | btcTest | bchMain | bchTest
deriving DecidableEq, Repr, Inhabited

def Net.idx : Net → Nat
  | .bsvMain => 0 | .bsvTest => 1 | .bsvStn => 2 | .btcMain => 3 | .btcTest => 4
  | .bchMain => 5 | .bchTest => 6

def Net.all : List Net := [.bsvMain, .bsvTest, .bsvStn, .btcMain, .btcTest, .bchMain, .bchTest]

def Net.ofIdx (i : Nat) : Option Net := Net.all[i]?

def Net.name : Net → String
  | .bsvMain => "BSV_Mainnet" | .bsvTest => "BSV_Testnet" | .bsvStn => "BSV_STN"
  | .btcMain => "BTC_Mainnet" | .btcTest => "BTC_Testnet" | .bchMain => "BCH_Mainnet"
  | .bchTest => "BCH_Testnet"

inductive AddrType where
  | p2pkh | p2sh
deriving DecidableEq, Repr, Inhabited

def AddrType.name : AddrType → String
  | .p2pkh => "P2PKH" | .p2sh => "P2SH"

/-- `Network::addr_pubkeyhash_flag` -/
def p2pkhFlag (n : Net) : UInt8 := UInt8.ofNat (Generated.C09_P2PKH_FLAGS.getD n.idx 0)
/-- `Network::addr_script_flag` -/
def p2shFlag (n : Net) : UInt8 := UInt8.ofNat (Generated.C09_P2SH_FLAGS.getD n.idx 0)

def addrFlag (n : Net) : AddrType → UInt8
  | .p2pkh => p2pkhFlag n
  | .p2sh => p2shFlag n

/-! ## `address/mod.rs` -/

/-- `addr_encode` (`hash160` is a `[u8; 20]`) -/
def addrEncode (H : Bytes → Bytes) (hash160 : Bytes) (t : AddrType) (n : Net) : List Char :=
  let v := addrFlag n t :: hash160
  toBase58 (v ++ (H v).take 4)

/-- `addr_decode`: length ≥ 6, checksum, version byte against the two flags of `network`,
    then payload length 20 — in this order, all `BadData`. -/
def addrDecode (H : Bytes → Bytes) (s : List Char) (n : Net) : Outcome (Bytes × AddrType) :=
  match fromBase58 s with
  | .err e => .err e
  | .panic p => .panic p
  | .ok v =>
    if v.length < 6 then .err "BadData"
    else
      let v0 := v.take (v.length - 4)
      let v1 := v.drop (v.length - 4)
      if v1 != (H v0).take 4 then .err "BadData"
      else
        match v0 with
        | [] => .panic "address/mod.rs:v0[0]"
        | tb :: rest =>
          if tb == p2pkhFlag n then
            (if v0.length != 21 then .err "BadData" else .ok (rest, .p2pkh))
          else if tb == p2shFlag n then
            (if v0.length != 21 then .err "BadData" else .ok (rest, .p2sh))
          else .err "BadData"

/-! ## WIF (`wallet/wallet.rs`, `python/py_wallet.rs`) -/

def MAIN_PRIVATE_KEY : UInt8 := UInt8.ofNat Generated.C09_MAIN_PRIVATE_KEY
def TEST_PRIVATE_KEY : UInt8 := UInt8.ofNat Generated.C09_TEST_PRIVATE_KEY

/-- `bytes_to_wif(key, prefix)`: always the compressed form (`0x01` appended). -/
def bytesToWif (H : Bytes → Bytes) (key : Bytes) (pfx : UInt8) : List Char :=
  encodeChk H (pfx :: key ++ [1])

/-- `network_and_private_key_to_wif`: prefix by network, BSV main/test only. -/
def wifPrefix : Net → Option UInt8
  | .bsvMain => some MAIN_PRIVATE_KEY
  | .bsvTest => some TEST_PRIVATE_KEY
  | _ => none

/-- `wif_to_network_and_private_key` (= `Wallet::from_wif`).
    `keyOf` is `SigningKey::from_slice(..).to_bytes()`; `wifLen` is `wif.len()` (bytes = characters
    once the string has passed the alphabet check). -/
def wifDecode (repaired : Bool) (H : Bytes → Bytes) (keyOf : Bytes → Option Bytes)
    (s : List Char) : Outcome (Net × Bytes) :=
  match decodeChk repaired H s with
  | .err e => .err e
  | .panic p => .panic p
  | .ok decode =>
    match decode.head? with
    | none => .err "BadData"
    | some pfx =>
      let net : Option Net :=
        if pfx == MAIN_PRIVATE_KEY then some .bsvMain
        else if pfx == TEST_PRIVATE_KEY then some .bsvTest else none
      match net with
      | none => .err "BadArgument"
      | some net =>
        match decode.getLast? with
        | none => .err "BadData"
        | some lastByte =>
          let compressed := s.length == 52 && lastByte == 1
          let keyBytes : Outcome Bytes :=
            if compressed then
              -- `decode[1..decode.len() - 1]`
              (if 1 ≤ decode.length - 1 then .ok ((decode.take (decode.length - 1)).drop 1)
               else .panic "wallet.rs:decode[1..len-1]")
            else .ok (decode.drop 1)
          match keyBytes with
          | .err e => .err e
          | .panic p => .panic p
          | .ok kb =>
            match keyOf kb with
            | none => .err "K256EcdsaError"
            | some k => .ok (net, k)

/-- `public_key_to_address`: BSV main/test only, key length 33 or 65. -/
def publicKeyToAddress (H H160 : Bytes → Bytes) (pk : Bytes) (n : Net) : Outcome (List Char) :=
  let pfx : Option UInt8 := match n with
    | .bsvMain => some (UInt8.ofNat Generated.C09_MAIN_PUBKEY_HASH)
    | .bsvTest => some (UInt8.ofNat Generated.C09_TEST_PUBKEY_HASH)
    | _ => none
  match pfx with
  | none => .err "BadArgument"
  | some p =>
    if pk.length != 33 && pk.length != 65 then .err "BadArgument"
    else .ok (encodeChk H (p :: H160 pk))

/-- `address_to_public_key_hash`: `decode_base58_checksum(address)?[1..]`.
    Pinned: `[1..]` of an empty vector panics.  Repaired: `BadData`. -/
def addressToPublicKeyHash (repaired : Bool) (H : Bytes → Bytes) (s : List Char) : Outcome Bytes :=
  match decodeChk repaired H s with
  | .err e => .err e
  | .panic p => .panic p
  | .ok decoded =>
    if decoded.length < 1 then
      (if repaired then .err "BadData" else .panic "py_wallet.rs:decoded[1..]")
    else .ok (decoded.drop 1)

/-! ## extended keys (`wallet/extended_key.rs`) -/

/-- `ExtendedKey::encode` (the key is a `[u8; 78]`) -/
def xkeyEncode (H : Bytes → Bytes) (k : Bytes) : List Char := toBase58 (k ++ (H k).take 4)

/-- `ExtendedKey::decode`.  Pinned: `&v[..78]` panics when fewer than 78 bytes were decoded;
    `checksum[..4] != v[78..]` is a slice comparison, so any length other than 82 is
    `BadArgument`.  Repaired: length ≠ 82 → `BadArgument` before slicing. -/
def xkeyDecode (repaired : Bool) (H : Bytes → Bytes) (s : List Char) : Outcome Bytes :=
  match fromBase58 s with
  | .err e => .err e
  | .panic p => .panic p
  | .ok v =>
    if repaired && v.length != 82 then .err "BadArgument"
    else if v.length < 78 then .panic "extended_key.rs:v[..78]"
    else if (H (v.take 78)).take 4 != v.drop 78 then .err "BadArgument"
    else .ok (v.take 78)

inductive XType where
  | pub | priv
deriving DecidableEq, Repr, Inhabited

/-- `ExtendedKey::version`: big-endian `u32` of bytes 0..4 -/
def xkeyVersion (k : Bytes) : Nat :=
  ((k.getD 0 0).toNat * 256 + (k.getD 1 0).toNat) * 65536 + (k.getD 2 0).toNat * 256 + (k.getD 3 0).toNat

/-- the version word written by `new_public_key` / `new_private_key` -/
def xkeyVersionFor (n : Net) (t : XType) : Nat :=
  match n, t with
  | .bsvMain, .pub | .btcMain, .pub | .bchMain, .pub => Generated.C09_XPUB_MAIN
  | .bsvMain, .priv | .btcMain, .priv | .bchMain, .priv => Generated.C09_XPRV_MAIN
  | _, .pub => Generated.C09_XPUB_TEST
  | _, .priv => Generated.C09_XPRV_TEST

/-- big-endian `u32` (`write_u32::<BigEndian>`) -/
def be32 (v : Nat) : Bytes :=
  [UInt8.ofNat (v / 2 ^ 24 % 256), UInt8.ofNat (v / 2 ^ 16 % 256), UInt8.ofNat (v / 2 ^ 8 % 256),
   UInt8.ofNat (v % 256)]

/-- `ExtendedKey::new_public_key` / `new_private_key`: argument length checks (`BadArgument`), then
    version ‖ depth ‖ fingerprint ‖ index ‖ chain code ‖ (public key | 0 ‖ private key). -/
def xkeyNew (n : Net) (t : XType) (depth : UInt8) (fp : Bytes) (index : Nat) (chain key : Bytes) :
    Outcome Bytes :=
  if fp.length != 4 then .err "BadArgument"
  else if chain.length != 32 then .err "BadArgument"
  else if key.length != (match t with | .pub => 33 | .priv => 32) then .err "BadArgument"
  else .ok (be32 (xkeyVersionFor n t) ++ [depth] ++ fp ++ be32 index ++ chain ++
      (match t with | .pub => key | .priv => 0 :: key))

/-- `ExtendedKey::network`: main → `BSV_Mainnet`, test → `BSV_Testnet`, else `BadData`. -/
def xkeyNetwork (k : Bytes) : Outcome Net :=
  let ver := xkeyVersion k
  if ver = Generated.C09_XPUB_MAIN ∨ ver = Generated.C09_XPRV_MAIN then .ok .bsvMain
  else if ver = Generated.C09_XPUB_TEST ∨ ver = Generated.C09_XPRV_TEST then .ok .bsvTest
  else .err "BadData"

/-- `ExtendedKey::key_type` -/
def xkeyType (k : Bytes) : Outcome XType :=
  let ver := xkeyVersion k
  if ver = Generated.C09_XPUB_MAIN ∨ ver = Generated.C09_XPUB_TEST then .ok .pub
  else if ver = Generated.C09_XPRV_MAIN ∨ ver = Generated.C09_XPRV_TEST then .ok .priv
  else .err "BadData"

/-- the network class an extended key reports for a key created on network `n` -/
def Net.xclass : Net → Net
  | .bsvMain | .btcMain | .bchMain => .bsvMain
  | _ => .bsvTest

end CG.Model.Base58

import CG.Base.Bytes
/-!
Model of `src/peer/atomic_reader.rs` (`AtomicReader::read`) over a scripted transport, and of
std's `Read::read_exact` loop as the framing code uses it on top of an `AtomicReader`.

Transport: the bytes not yet handed out plus a per-call schedule.  Call `k` of the inner
`read(buf)` looks at `schedule[k]`:
* `0`  — the call fails with `TimedOut` / `WouldBlock` (the receive path treats both alike, and so
  does `AtomicReader`, which merely propagates the error with `?`); nothing is consumed;
* `a > 0` — the call returns `min(a, buf.len(), remaining)` bytes; `0` bytes (only possible when
  the stream is exhausted) is end of stream;
* schedule exhausted — the call returns `min(buf.len(), remaining)` bytes.
Every fragmentation of a byte stream, every placement of timeouts and an end of stream at every
offset is such a transport.
-/
namespace CG.Model.AtomicReader
open CG

structure Transport where
  /-- bytes the transport has not handed out yet -/
  data : Bytes
  /-- per-call allowance; `0` = timeout / would-block -/
  sched : List Nat
deriving Repr

/-- result of one inner `read`: `Ok(bs.len())` with the bytes written to the front of the
    buffer, or `Err(TimedOut | WouldBlock)` -/
inductive RR where
  | ok (bs : Bytes)
  | timedOut
deriving Repr, DecidableEq

/-- inner `read(buf)` with `cap = buf.len()` -/
def Transport.read (t : Transport) (cap : Nat) : RR × Transport :=
  match t.sched with
  | [] => (.ok (t.data.take cap), { t with data := t.data.drop cap })
  | 0 :: s => (.timedOut, { t with sched := s })
  | a :: s => (.ok (t.data.take (min a cap)), { data := t.data.drop (min a cap), sched := s })

/-- `MAX_BUFFER_SIZE_USIZE` of atomic_reader.rs: one inner read never asks for more. -/
def MAX_BUFFER_SIZE : Nat := 2147483647

/-- the reader object: retained buffer `buf` and the wrapped transport -/
structure Rd where
  buf : Bytes
  t : Transport
deriving Repr

/-- `AtomicReader::new` -/
def Rd.new (t : Transport) : Rd := ⟨[], t⟩

/-- result of `AtomicReader::read(out)`: `Ok(out.len())` with `out` filled, `Err(TimedOut)`
    ("Incomplete read", or the inner TimedOut/WouldBlock propagated), `Err(NotConnected)`. -/
inductive AR where
  | full (bs : Bytes)
  | timedOut
  | disconnected
deriving Repr, DecidableEq

/-- `AtomicReader::read(out)` with `n = out.len()`, branch by branch. -/
def aread (r : Rd) (n : Nat) : AR × Rd :=
  let bufLen := r.buf.length
  if bufLen ≥ n then
    -- enough retained: out = buf[0..n]; buf = buf[n..]
    (.full (r.buf.take n), { r with buf := r.buf.drop n })
  else if bufLen > 0 then
    -- copy what we have (out[0..bufLen] = buf) and try to read the rest
    let cap := if n - bufLen > MAX_BUFFER_SIZE then MAX_BUFFER_SIZE else n - bufLen
    match r.t.read cap with
    | (.timedOut, t') => (.timedOut, { r with t := t' })                  -- `?`
    | (.ok bs, t') =>
      if bs.length = 0 then (.disconnected, { r with t := t' })
      else if bufLen + bs.length < n then (.timedOut, { buf := r.buf ++ bs, t := t' })
      else (.full (r.buf ++ bs), { buf := [], t := t' })
  else
    let cap := if n > MAX_BUFFER_SIZE then MAX_BUFFER_SIZE else n
    match r.t.read cap with
    | (.timedOut, t') => (.timedOut, { r with t := t' })
    | (.ok bs, t') =>
      if bs.length = 0 then (.disconnected, { r with t := t' })
      else if bs.length < n then (.timedOut, { buf := r.buf ++ bs, t := t' })   -- buf was empty
      else (.full bs, { r with t := t' })

/-- the unread part of the stream as seen through the reader: retained ++ undelivered -/
def pending (r : Rd) : Bytes := r.buf ++ r.t.data

/-- result of a `read_exact`-level operation: value, the non-error timeout (`IoError` of kind
    `TimedOut`/`WouldBlock`), or any other error, carried as its canonical outcome string -/
inductive Res (α : Type) where
  | ok (a : α)
  | timedOut
  | err (cls : String)
deriving Repr

/-- std's default `read_exact(buf)` on an `AtomicReader`, `n = buf.len()`:
    `while !buf.is_empty() { match read(buf) { Ok(0) => break, Ok(k) => buf = &mut buf[k..],
    Err(e) if interrupted => {}, Err(e) => return Err(e) } }`.
    `AtomicReader::read` answers `Ok(buf.len())` or an error, so for `n > 0` the loop body runs
    once (`aread_full_length`); for `n = 0` it does not run and nothing is read. -/
def readExact (r : Rd) (n : Nat) : Res Bytes × Rd :=
  if n = 0 then (.ok [], r)
  else
    match aread r n with
    | (.full bs, r') => (.ok bs, r')
    | (.timedOut, r') => (.timedOut, r')
    | (.disconnected, r') => (.err "err:IoNotConnected", r')

end CG.Model.AtomicReader

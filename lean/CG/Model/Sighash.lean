import CG.Model.TxSer
/-!
Model of `src/transaction/sighash.rs`: `sighash`, `sighash_checksig_index`, `bip143_sighash`,
`sig_hash_preimage`, `sig_hash_preimage_checksig_index`, `legacy_sighash`, `extract_subscript`,
`find_all_occurances_of`, `SigHashCache`; and of `wallet::create_sighash(_checksig_index)`.

* `sha256d` is the parameter `H`.
* The cache is explicit state threaded through the calls: every function returns `(result, cache')`.
* `extract_subscript` is modelled exactly as coded: the positions of `OP_CODESEPARATOR` / `OP_CHECKSIG`
  come from a scan over *raw bytes* (`find_all_occurances_of`), only the final copy loop is push-aware
  (`next_op`).  `checksig_positions.len() - 1` is guarded by `!checksig_positions.is_empty()` (the
  C07 fix, commit 0252e8b): with no 0xac byte in the script there is neither a panic nor an error,
  `checksig_pos` is 0 (`unwrap_or(&0)`) and the whole script is copied without its separators.
* `next_op(i, script)` reads `script[i..]` only and is modelled on that suffix:
  `next_op(i, s) = i + opLen (s.drop i)`; the `while i < len` loop is `removeSeps` on the suffix with
  fuel (one unit per iteration; `length` always suffices since every iteration consumes ≥ 1 byte).
-/
namespace CG.Model.Sighash
open CG CG.Model.TxSer

def OP_CODESEPARATOR : UInt8 := 0xab
def OP_CHECKSIG : UInt8 := 0xac
def SIGHASH_NONE : UInt8 := 0x02
def SIGHASH_SINGLE : UInt8 := 0x03
def SIGHASH_ANYONECANPAY : UInt8 := 0x80
def SIGHASH_FORKID : UInt8 := 0x40

/-- `find_all_occurances_of`, positions counted from `off` -/
def findAllFrom (op : UInt8) : Nat → Bytes → List Nat
  | _, [] => []
  | off, b :: r => if b = op then off :: findAllFrom op (off + 1) r else findAllFrom op (off + 1) r

def findAll (code : Bytes) (op : UInt8) : List Nat := findAllFrom op 0 code

/-- `next_op(i, script) - i` as a function of `script[i..]`, clamped to the end of the script. -/
def opLen : Bytes → Nat
  | [] => 0
  | b :: r =>
    let n := b.toNat
    let want : Option Nat :=
      if 1 ≤ n ∧ n ≤ 75 then some (1 + n)
      else if n = 76 then
        (match r with
         | l0 :: _ => some (2 + l0.toNat)
         | _ => none)
      else if n = 77 then
        (match r with
         | l0 :: l1 :: _ => some (3 + l0.toNat + l1.toNat * 256)
         | _ => none)
      else if n = 78 then
        (match r with
         | l0 :: l1 :: l2 :: l3 :: _ =>
           some (5 + l0.toNat + l1.toNat * 256 + l2.toNat * 65536 + l3.toNat * 16777216)
         | _ => none)
      else some 1
    match want with
    | none => (b :: r).length
    | some w => if w > (b :: r).length then (b :: r).length else w

/-- the copy loop of `extract_subscript`:
    `while i < len { next = next_op(i); if script[i] != OP_CODESEPARATOR { push script[i..next] } i = next }` -/
def removeSeps : Nat → Bytes → Bytes
  | 0, _ => []
  | _, [] => []
  | fuel + 1, b :: r =>
    let n := opLen (b :: r)
    (if b ≠ OP_CODESEPARATOR then (b :: r).take n else []) ++ removeSeps fuel ((b :: r).drop n)

/-- `extract_subscript` -/
def extractSubscript (code : Bytes) (checksigIndex : Nat) : Outcome Bytes :=
  if ¬ code.contains OP_CODESEPARATOR then .ok code
  else
    let checks := findAll code OP_CHECKSIG
    -- `!checksig_positions.is_empty() && checksig_index > checksig_positions.len() - 1`
    if checks.length ≠ 0 ∧ checksigIndex > checks.length - 1 then .err "BadArgument"
    else
      let checksigPos := checks.getD checksigIndex 0
      let seps := findAll code OP_CODESEPARATOR
      let start :=
        if seps.length < 2 then 0
        else ((seps.filter (· < checksigPos)).getLast?).getD 0
      .ok (removeSeps code.length (code.drop start))

structure Cache where
  hashPrevouts : Option Bytes := none
  hashSequence : Option Bytes := none
  hashOutputs : Option Bytes := none
deriving DecidableEq, Repr

def Cache.empty : Cache := {}

def zero32 : Bytes := List.replicate 32 0

/-- `if cache.x.is_none() { cache.x = Some(sha256d(..)) }  …  cache.x.unwrap()`:
    returns the slot afterwards and the value written to the preimage -/
def useSlot (slot : Option Bytes) (computed : Bytes) : Option Bytes × Bytes :=
  match slot with
  | none => (some computed, computed)
  | some h => (some h, h)

/-- the byte strings whose double hashes the cache memoises -/
def prevoutsSer (tx : Tx) : Bytes := tx.inputs.flatMap (fun i => serOutPoint i.prevOutput)
def sequencesSer (tx : Tx) : Bytes := tx.inputs.flatMap (fun i => u32LE i.sequence)
def outputsSer (tx : Tx) : Bytes := tx.outputs.flatMap serTxOut

/-- `sig_hash_preimage_checksig_index`.  Each of the three cache slots is touched by its own step
    only, so the three steps are written side by side. -/
def preimage (H : Bytes → Bytes) (tx : Tx) (nInput : Nat) (code : Bytes) (checksigIndex : Nat)
    (satoshis : Int) (ty : UInt8) (c : Cache) : Outcome Bytes × Cache :=
  match tx.inputs[nInput]? with
  | none => (.err "BadArgument", c)
  | some txIn =>
    let baseType := ty &&& 31
    let anyoneCanPay := ty &&& SIGHASH_ANYONECANPAY ≠ 0
    match extractSubscript code checksigIndex with
    | .err e => (.err e, c)
    | .panic s => (.panic s, c)
    | .ok subScript =>
      -- 2. hash of prevouts
      let p := if ¬ anyoneCanPay then useSlot c.hashPrevouts (H (prevoutsSer tx)) else (c.hashPrevouts, zero32)
      -- 3. hash of sequences
      let q := if ¬ anyoneCanPay ∧ baseType ≠ SIGHASH_SINGLE ∧ baseType ≠ SIGHASH_NONE
        then useSlot c.hashSequence (H (sequencesSer tx)) else (c.hashSequence, zero32)
      -- 8. hash of outputs
      let o :=
        if baseType ≠ SIGHASH_SINGLE ∧ baseType ≠ SIGHASH_NONE then useSlot c.hashOutputs (H (outputsSer tx))
        else if baseType = SIGHASH_SINGLE ∧ nInput < tx.outputs.length then
          (c.hashOutputs, match tx.outputs[nInput]? with | some o => H (serTxOut o) | none => zero32)
        else (c.hashOutputs, zero32)
      (.ok (u32LE tx.version ++ p.2 ++ q.2 ++ serOutPoint txIn.prevOutput ++
            varInt subScript.length ++ subScript ++ i64LE satoshis ++ u32LE txIn.sequence ++
            o.2 ++ u32LE tx.lockTime ++ u32LE ty.toNat), ⟨p.1, q.1, o.1⟩)

/-- `bip143_sighash` -/
def bip143Sighash (H : Bytes → Bytes) (tx : Tx) (nInput : Nat) (code : Bytes) (k : Nat) (sat : Int)
    (ty : UInt8) (c : Cache) : Outcome Bytes × Cache :=
  match preimage H tx nInput code k sat ty c with
  | (.ok s, c') => (.ok (H s), c')
  | (.err e, c') => (.err e, c')
  | (.panic s, c') => (.panic s, c')

/-- the input list written by `legacy_sighash`: `for i in 0..len { let i = if acp {n_input} else {i}; … if acp {break} }` -/
def legacyInputs (tx : Tx) (nInput : Nat) (subScript : Bytes) (baseType : UInt8) (anyoneCanPay : Bool) :
    List TxIn :=
  let blank := fun (i : Nat) (txIn : TxIn) =>
    if i = nInput then { txIn with unlockScript := subScript }
    else
      { txIn with unlockScript := [],
                  sequence := if baseType = SIGHASH_NONE ∨ baseType = SIGHASH_SINGLE then 0 else txIn.sequence }
  if anyoneCanPay then
    match tx.inputs[nInput]? with
    | some txIn => [blank nInput txIn]
    | none => []
  else tx.inputs.mapIdx blank

/-- The buffer hashed by `legacy_sighash`.  `singleFix = false` is the pinned tree, which writes the
    blank output `(-1, [])` at position `n_input` and keeps the outputs before it; `singleFix = true`
    is the tree with `C02-legacy-single-outputs.patch` (blank outputs *before* `n_input`, keep the
    output at `n_input`, as the original algorithm does). -/
def legacyPreimageWith (singleFix : Bool) (tx : Tx) (nInput : Nat) (code : Bytes) (k : Nat) (ty : UInt8) :
    Outcome Bytes :=
  if nInput ≥ tx.inputs.length then .err "BadArgument"
  else
    let baseType := ty &&& 31
    let anyoneCanPay : Bool := ty &&& SIGHASH_ANYONECANPAY ≠ 0
    match extractSubscript code k with
    | .err e => .err e
    | .panic s => .panic s
    | .ok subScript =>
      let ins := legacyInputs tx nInput subScript baseType anyoneCanPay
      let nIns := if anyoneCanPay then 1 else tx.inputs.length
      let outs : Outcome (List TxOut) :=
        if baseType = SIGHASH_NONE then .ok []
        else if baseType = SIGHASH_SINGLE then
          if nInput ≥ tx.outputs.length then .err "BadArgument"
          else .ok ((tx.outputs.take (nInput + 1)).mapIdx (fun i o =>
            if (if singleFix then i < nInput else i = nInput) then ⟨-1, []⟩ else o))
        else .ok tx.outputs
      match outs with
      | .err e => .err e
      | .panic s => .panic s
      | .ok outs =>
        .ok (u32LE tx.version ++ varInt nIns ++ ins.flatMap serTxIn ++
             varInt outs.length ++ outs.flatMap serTxOut ++ u32LE tx.lockTime ++ u32LE ty.toNat)

def legacyPreimage := legacyPreimageWith true

/-- `legacy_sighash` -/
def legacySighashWith (fix : Bool) (H : Bytes → Bytes) (tx : Tx) (nInput : Nat) (code : Bytes) (k : Nat)
    (ty : UInt8) : Outcome Bytes :=
  (legacyPreimageWith fix tx nInput code k ty).map H

/-- `sighash_checksig_index` -/
def sighashWith (fix : Bool) (H : Bytes → Bytes) (tx : Tx) (nInput : Nat) (code : Bytes) (k : Nat)
    (sat : Int) (ty : UInt8) (c : Cache) : Outcome Bytes × Cache :=
  if ty &&& SIGHASH_FORKID ≠ 0 then bip143Sighash H tx nInput code k sat ty c
  else (legacySighashWith fix H tx nInput code k ty, c)

def sighash := sighashWith true

/-- a request against one transaction -/
inductive Kind where
  | preimage          -- sig_hash_preimage_checksig_index / sig_hash_preimage (k = 0)
  | digest            -- sighash_checksig_index / sighash (k = 0)
  | wallet            -- wallet::create_sighash(_checksig_index): a fresh cache per call
deriving DecidableEq, Repr

structure Req where
  kind : Kind
  nInput : Nat
  code : Bytes
  k : Nat
  sat : Int
  ty : UInt8
deriving DecidableEq, Repr

/-- one request through the shared cache -/
def answerWith (fix : Bool) (H : Bytes → Bytes) (tx : Tx) (c : Cache) (r : Req) : Cache × Outcome Bytes :=
  match r.kind with
  | .preimage => let (o, c') := preimage H tx r.nInput r.code r.k r.sat r.ty c; (c', o)
  | .digest => let (o, c') := sighashWith fix H tx r.nInput r.code r.k r.sat r.ty c; (c', o)
  | .wallet => (c, (sighashWith fix H tx r.nInput r.code r.k r.sat r.ty Cache.empty).1)

def answer := answerWith true

/-- a sequence of requests sharing one cache; returns the final cache and the answers -/
def runWith (fix : Bool) (H : Bytes → Bytes) (tx : Tx) : Cache → List Req → Cache × List (Outcome Bytes)
  | c, [] => (c, [])
  | c, r :: rs =>
    let (c', a) := answerWith fix H tx c r
    let (c'', as) := runWith fix H tx c' rs
    (c'', a :: as)

def run := runWith true

end CG.Model.Sighash

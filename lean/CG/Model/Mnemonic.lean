import CG.Model.Bits
/-!
Model of `src/wallet/mnemonic.rs`: `mnemonic_encode`, `mnemonic_decode`.

A word is the UTF-8 byte string of the Rust `String` (string equality is byte equality); a word
list is a `List Bytes` (the eight bundled lists are generated into `CG.Generated.Wordlists` from
`load_wordlist` on every run).  SHA-256 (`sha2` crate) is the parameter `H`.

The word lookup in `mnemonic_decode` is the repaired one, `word_list.iter().position(|w| w == word)`
(the pinned tree used `binary_search`, which is wrong for the lists that are not in byte order —
see `CG.Props.C10.C10_unsorted_lists`).
-/
namespace CG.Model.Mnemonic
open CG CG.Model.Bits

/-- `word_list.iter().position(|w| w == word)` -/
def position (w : Bytes) : List Bytes → Option Nat
  | [] => none
  | x :: xs => if x == w then some 0 else (position w xs).map (· + 1)

/-- the `for i in 0..bits.len / 11` loop of `mnemonic_encode`: `n` iterations left, next `i`. -/
def encLoop (bits : Bits) (wl : List Bytes) : Nat → Nat → List Bytes → Outcome (List Bytes)
  | 0, _, acc => .ok acc
  | n + 1, i, acc =>
    match extract bits (i * 11) 11 with
    | .ok v =>
      match wl[v]? with
      | some w => encLoop bits wl n (i + 1) (acc ++ [w])
      | none => .panic "mnemonic.rs:encode:word_list[index]"
    | .err e => .err e
    | .panic s => .panic s

/-- `mnemonic_encode(data, word_list)`.  For `data.len() % 4 ≠ 0` (outside BIP-39) the Rust emits one
    more word from the `rem = bits.len % 11` left-over bits shifted by `8 - rem`, which underflows
    (panics) for `rem > 8`. -/
def mnemonicEncode (H : Bytes → Bytes) (data : Bytes) (wl : List Bytes) : Outcome (List Bytes) :=
  let hash := H data
  match append (fromSlice data (data.length * 8)) (fromSlice hash (data.length / 4)) with
  | .ok bits =>
    match encLoop bits wl (bits.len / 11) 0 [] with
    | .ok words =>
      let rem := bits.len % 11
      if rem ≠ 0 then
        match extract bits (bits.len / 11 * 11) rem with
        | .ok n =>
          if 8 < rem then .panic "mnemonic.rs:encode:8-rem"
          else
            match wl[(n <<< (8 - rem)) % 2 ^ 64]? with
            | some w => .ok (words ++ [w])
            | none => .panic "mnemonic.rs:encode:word_list[index]"
        | .err e => .err e
        | .panic s => .panic s
      else .ok words
    | .err e => .err e
    | .panic s => .panic s
  | .err e => .err e
  | .panic s => .panic s

/-- `Bits::from_slice(&[(value >> 3) as u8, ((value & 7) as u8) << 5], 11)` -/
def wordBits (v : Nat) : Bits :=
  fromSlice [UInt8.ofNat (v / 8 % 256), UInt8.ofNat (v % 8 * 32 % 256)] 11

/-- the `for word in mnemonic` loop of `mnemonic_decode` -/
def decLoop (wl : List Bytes) : List Bytes → Bits → Outcome Bits
  | [], bits => .ok bits
  | w :: ws, bits =>
    match position w wl with
    | none => .err "BadArgument"                         -- "Bad word"
    | some v =>
      match append bits (wordBits v) with
      | .ok b => decLoop wl ws b
      | .err e => .err e
      | .panic s => .panic s

/-- `mnemonic_decode(mnemonic, word_list)` -/
def mnemonicDecode (H : Bytes → Bytes) (mn : List Bytes) (wl : List Bytes) : Outcome Bytes :=
  match decLoop wl mn Bits.new with
  | .ok bits =>
    let dataLen := bits.len * 32 / 33
    let csLen := bits.len / 33
    if bits.data.length < dataLen / 8 then .panic "mnemonic.rs:decode:slice"   -- &bits.data[0..data_len/8]
    else
      let d := bits.data.take (dataLen / 8)
      let csBits := fromSlice (H d) csLen
      match extract csBits 0 csLen with
      | .ok a =>
        match extract bits dataLen csLen with
        | .ok b => if a ≠ b then .err "BadArgument" else .ok d                 -- "Invalid checksum"
        | .err e => .err e
        | .panic s => .panic s
      | .err e => .err e
      | .panic s => .panic s
  | .err e => .err e
  | .panic s => .panic s

end CG.Model.Mnemonic

/-!
# The writer mutex of `Peer::send`, at the granularity of single `write` calls

`Peer::send` locks `tcp_writer`, writes the message through `Message::write` — MANY write calls on the socket (four for
the header, one or more per payload field) — flushes and releases the lock.  `CG.Model.PeerConc` treats that critical
section as one atomic step.  This model justifies it: any number of threads, each with any list of messages, each message
any list of chunks (one chunk = what one `write` call puts on the wire); a step of a thread acquires the mutex (blocked
while another thread holds it), writes ONE chunk, or releases.  `useLock = false` is the same program without the mutex.
-/
namespace CG.Model.WireLock

structure Th (α : Type) where
  /-- inside the critical section: `(chunks written so far, chunks still to write)` of the current message -/
  cur : Option (List α × List α)
  /-- messages still to send -/
  todo : List (List α)
deriving DecidableEq, Repr

structure St (α : Type) where
  lock : Option Nat
  wire : List α
  /-- ghost: the messages whose critical section has ended, in that order -/
  done : List (List α)
  ths : List (Th α)
deriving DecidableEq, Repr

def init {α : Type} (progs : List (List (List α))) : St α :=
  { lock := none, wire := [], done := [], ths := progs.map fun p => ⟨none, p⟩ }

def step {α : Type} (useLock : Bool) (s : St α) (i : Nat) : Option (St α) :=
  match s.ths[i]? with
  | none => none
  | some t =>
    match t.cur with
    | none =>
      match t.todo with
      | [] => none
      | m :: rest =>
        if useLock && s.lock.isSome then none
        else some { s with lock := some i, ths := s.ths.set i ⟨some ([], m), rest⟩ }
    | some (w, []) => some { s with lock := none, done := s.done ++ [w], ths := s.ths.set i ⟨none, t.todo⟩ }
    | some (w, c :: cs) => some { s with wire := s.wire ++ [c], ths := s.ths.set i ⟨some (w ++ [c], cs), t.todo⟩ }

/-- run a schedule; an entry naming a thread that cannot move is skipped -/
def run {α : Type} (useLock : Bool) (s : St α) : List Nat → St α
  | [] => s
  | i :: rest =>
    match step useLock s i with
    | some s' => run useLock s' rest
    | none => run useLock s rest

/-- every thread has sent everything and left its critical section -/
def finished {α : Type} (s : St α) : Bool := s.ths.all fun t => t.cur.isNone && t.todo.isEmpty

end CG.Model.WireLock

import CG.Base.Bytes
/-!
Model of the transaction serialisation used by the signature-hash code:
`Tx::write`, `TxIn::write`, `TxOut::write`, `OutPoint::write` (`src/messages/tx*.rs`, `out_point.rs`) and
`var_int::write` (`src/util/var_int.rs`).  Own small copy for C02 (the wire codecs as a whole are C05's).
-/
namespace CG.Model.TxSer
open CG

structure OutPoint where
  hash : Bytes          -- 32 bytes
  index : Nat           -- u32
deriving DecidableEq, Repr

structure TxIn where
  prevOutput : OutPoint
  unlockScript : Bytes
  sequence : Nat        -- u32
deriving DecidableEq, Repr

structure TxOut where
  satoshis : Int        -- i64
  lockScript : Bytes
deriving DecidableEq, Repr

structure Tx where
  version : Nat         -- u32
  inputs : List TxIn
  outputs : List TxOut
  lockTime : Nat        -- u32
deriving DecidableEq, Repr

/-- `var_int::write` -/
def varInt (n : Nat) : Bytes :=
  if n ≤ 252 then [UInt8.ofNat n]
  else if n ≤ 0xffff then 0xfd :: natToLEn 2 n
  else if n ≤ 0xffffffff then 0xfe :: natToLEn 4 n
  else 0xff :: natToLEn 8 n

/-- `write_i64::<LittleEndian>`: two's complement -/
def i64LE (x : Int) : Bytes := natToLEn 8 (x % 2 ^ 64).toNat

def u32LE (x : Nat) : Bytes := natToLEn 4 x

/-- `OutPoint::write` -/
def serOutPoint (o : OutPoint) : Bytes := o.hash ++ u32LE o.index

/-- `TxIn::write` -/
def serTxIn (i : TxIn) : Bytes :=
  serOutPoint i.prevOutput ++ varInt i.unlockScript.length ++ i.unlockScript ++ u32LE i.sequence

/-- `TxOut::write` -/
def serTxOut (o : TxOut) : Bytes :=
  i64LE o.satoshis ++ varInt o.lockScript.length ++ o.lockScript

/-- `Tx::write` -/
def serTx (t : Tx) : Bytes :=
  u32LE t.version ++ varInt t.inputs.length ++ t.inputs.flatMap serTxIn ++
    varInt t.outputs.length ++ t.outputs.flatMap serTxOut ++ u32LE t.lockTime

end CG.Model.TxSer

import CG.Model.Interp
/-!
Stepping driver for C17: evaluate a script in consecutive segments through the debugger interface
(`start_at`, `break_at`, initial stacks), each segment starting at the offset the previous one
reported and carrying the main and alternate stacks (and the checker object).  Nothing else is
carried: the conditional stack and `check_index` start fresh in every segment, exactly as
`core_eval` does.
-/
namespace CG.Model.Stepping
open CG CG.Model.Interp

structure SegState (σ : Type) where
  stack : Stack
  alt : Stack
  pos : Nat
  chk : σ
  reported : List Nat        -- offsets reported so far (most recent first)

/-- one segment: `core_eval(script, flags, Some(pos), Some(brk), Some(stack), Some(alt))` -/
def segment {σ : Type} (H : Hashes) (C : Checker σ) (script : Bytes) (flags : Nat)
    (s : SegState σ) (brk : Nat) : Outcome (SegState σ) :=
  match coreEval H C s.chk script flags (some s.pos) (some brk) (some s.stack) (some s.alt) with
  | .ok r =>
    let p := r.pos.getD s.pos
    .ok { stack := r.stack, alt := r.alt, pos := p, chk := r.chk, reported := p :: s.reported }
  | .err e => .err e
  | .panic p => .panic p

/-- run the segments for the break offsets `brks` in order, then a final segment without break -/
def stepped {σ : Type} (H : Hashes) (C : Checker σ) (c0 : σ) (script : Bytes) (flags : Nat)
    (brks : List Nat) : Outcome (EvalResult σ × List Nat) :=
  let rec go (s : SegState σ) : List Nat → Outcome (SegState σ)
    | [] => .ok s
    | b :: bs =>
      match segment H C script flags s b with
      | .ok s' => go s' bs
      | .err e => .err e
      | .panic p => .panic p
  match go { stack := [], alt := [], pos := 0, chk := c0, reported := [] } brks with
  | .ok s =>
    match coreEval H C s.chk script flags (some s.pos) none (some s.stack) (some s.alt) with
    | .ok r => .ok (r, s.reported.reverse)
    | .err e => .err e
    | .panic p => .panic p
  | .err e => .err e
  | .panic p => .panic p

end CG.Model.Stepping

import CG.Base.Bytes
/-!
Model of the signature framing in `generate_signature` (`src/transaction/mod.rs`):

    let signature = signing_key.sign_prehash(&message)?;              -- k256: a pair (r, s), 0 < r, s < n
    let signature = signature.normalize_s().unwrap_or(signature);     -- `normalizeS`
    let sig_der = signature.to_der();                                 -- `derEncode`
    sig.push(sighash_type);                                           -- `generateSignature`

`to_der` is `ecdsa::der::Signature::from_components(r_be32, s_be32)`: each 32-byte big-endian scalar
goes through `der::asn1::UintRef::new` (`strip_leading_zeroes`) and is written as an ASN.1 INTEGER
(`needs_leading_zero`: a `00` is put in front when the first byte is `>= 0x80`), both inside a
SEQUENCE; lengths use the DER definite form (`der::Length`: one byte below `0x80`).
The signer itself (the nonce, the curve arithmetic) is a parameter: the theorems hold for every
pair `(r, s)` in range.
-/
namespace CG.Model.Der
open CG

/-- the order of the secp256k1 group -/
def n : Nat := 0xFFFFFFFFFFFFFFFFFFFFFFFFFFFFFFFEBAAEDCE6AF48A03BBFD25E8CD0364141

/-- `Scalar::to_bytes()`: 32 bytes, big-endian -/
def be32 (x : Nat) : Bytes := (natToLEn 32 x).reverse

/-- `der::asn1::integer::uint::strip_leading_zeroes`: drops leading zero bytes but keeps the last
    byte of the slice -/
def stripLeadingZeroes : Bytes → Bytes
  | [] => []
  | b :: rest => if b = 0 ∧ rest ≠ [] then stripLeadingZeroes rest else b :: rest

/-- `needs_leading_zero` -/
def needsLeadingZero (b : Bytes) : Bool :=
  match b with
  | x :: _ => decide (x.toNat ≥ 128)
  | [] => false

/-- `der::Length` in DER: short form below 128, else `0x81 l` / `0x82 hi lo` -/
def derLength (l : Nat) : Bytes :=
  if l < 128 then [UInt8.ofNat l]
  else if l < 256 then [0x81, UInt8.ofNat l]
  else [0x82, UInt8.ofNat (l / 256), UInt8.ofNat (l % 256)]

/-- the content octets of the INTEGER for a big-endian unsigned magnitude -/
def uintContent (be : Bytes) : Bytes :=
  let m := stripLeadingZeroes be
  if needsLeadingZero m then 0 :: m else m

/-- `UintRef` encoded: tag `02`, length, content -/
def derUint (be : Bytes) : Bytes :=
  let v := uintContent be
  0x02 :: derLength v.length ++ v

/-- `ecdsa::der::Signature::from_components` -/
def derEncodeBytes (r s : Bytes) : Bytes :=
  let body := derUint r ++ derUint s
  0x30 :: derLength body.length ++ body

/-- `Signature::to_der` for the scalar pair `(r, s)` -/
def derEncode (r s : Nat) : Bytes := derEncodeBytes (be32 r) (be32 s)

/-- `normalize_s().unwrap_or(signature)`: `s` is replaced by `n - s` when it is "high"
    (`s > n / 2`; `n` is odd) -/
def normalizeS (s : Nat) : Nat := if s > n / 2 then n - s else s

/-- `generate_signature` given the signer's `(r, s)` -/
def generateSignature (r s : Nat) (sighashType : UInt8) : Bytes :=
  derEncode r (normalizeS s) ++ [sighashType]

end CG.Model.Der

import CG.Model.Interp
import CG.Model.TxScript
import CG.Model.Sighash
import CG.Model.TxValidate
/-!
Model of `src/script/checker.rs` (`TransactionChecker`, `ZChecker`, `TransactionlessChecker`) and of the
WHOLE of `Tx::validate` (`src/messages/tx.rs`): the checks before the script loop (shared with
`CG.Model.TxValidate`, C04), then for every input the two-phase script evaluation of
`CG.Model.TxScript` (C03) with the REAL transaction checker, all inputs sharing ONE `SigHashCache`
(the C02 model's explicit cache state is the checker state `σ`), then the P2SH sunset check.

* The three k256 calls are parameters (`K256`): `Signature::from_der`, `VerifyingKey::from_sec1_bytes`,
  `verify_prehash(..).is_ok()`.  BOTH parse errors are `ecdsa::Error` (= `signature::Error`;
  `VerifyingKey::from_sec1_bytes` maps the inner `elliptic_curve::Error` with `map_err(|_| Error::new())`),
  so the `?` conversions of `errors.rs` turn both into `ChainGangError::K256EcdsaError`
  (`#[from] k256::ecdsa::Error`); `K256EcError` is never produced on this path (probed on the tree).
* `sha256d` inside `sighash` is the parameter `dsha`; the interpreter's hash opcodes are `Hashes`.
* `self.tx.inputs[self.input]` in `check_locktime` / `check_sequence` is an explicit panic site.
* `lock_time as i32` is the two's-complement reinterpretation `asI32`; `sequence as u32` is `asU32`.
-/
namespace CG.Model.TxChecker
open CG CG.Model.Interp CG.Model.ScriptNum

/-- the three k256 entry points used by `check_sig` -/
structure K256 (Sig Key : Type) where
  /-- `Signature::from_der(der_sig)` (`none` = `Err`) -/
  parseSig : Bytes → Option Sig
  /-- `VerifyingKey::from_sec1_bytes(pubkey)` (`none` = `Err`) -/
  parseKey : Bytes → Option Key
  /-- `verifying_key.verify_prehash(&digest, &signature).is_ok()` -/
  verify : Key → Bytes → Sig → Bool

/-- the fields of `TransactionChecker` other than the cache -/
structure Ctx where
  tx : TxSer.Tx
  input : Nat
  satoshis : Int
  requireForkid : Bool

def LOCKTIME_THRESHOLD : Int := 500000000
def SEQUENCE_LOCKTIME_DISABLE_FLAG : Nat := 2 ^ 31
def SEQUENCE_LOCKTIME_TYPE_FLAG : Nat := 2 ^ 22

/-- `x as i32` for a `u32` -/
def asI32 (x : Nat) : Int :=
  let y : Nat := x % 2 ^ 32
  if y < 2 ^ 31 then (y : Int) else (y : Int) - 2 ^ 32

/-- `x as u32` for an `i32` -/
def asU32 (x : Int) : Nat := (x % 2 ^ 32).toNat

def k256Err {α : Type} : Outcome α := .err "K256EcdsaError"

/-- `TransactionChecker::check_sig` -/
def checkSig {Sig Key : Type} (dsha : Bytes → Bytes) (K : K256 Sig Key) (x : Ctx) (c : Sighash.Cache)
    (sig pubkey script : Bytes) : Outcome Bool × Sighash.Cache :=
  match sig.getLast? with
  | none => (scriptErr, c)                                   -- "Signature too short"
  | some ty =>                                               -- sig[sig.len() - 1]
    if x.requireForkid ∧ ty &&& Sighash.SIGHASH_FORKID = 0 then (scriptErr, c)
    else
      match Sighash.sighash dsha x.tx x.input script 0 x.satoshis ty c with
      | (.err e, c') => (.err e, c')
      | (.panic p, c') => (.panic p, c')
      | (.ok digest, c') =>
        match K.parseSig sig.dropLast with                    -- &sig[0..sig.len() - 1]
        | none => (k256Err, c')
        | some s =>
          match K.parseKey pubkey with
          | none => (k256Err, c')
          | some k => (.ok (K.verify k digest s), c')

/-- `TransactionChecker::check_locktime` -/
def checkLocktime (x : Ctx) (locktime : Int) : Outcome Bool :=
  if locktime < 0 then scriptErr
  else
    let txLt := asI32 x.tx.lockTime
    if (locktime ≥ LOCKTIME_THRESHOLD ∧ txLt < LOCKTIME_THRESHOLD)
        ∨ (locktime < LOCKTIME_THRESHOLD ∧ txLt ≥ LOCKTIME_THRESHOLD) then scriptErr
    else if locktime > txLt then scriptErr
    else
      match x.tx.inputs[x.input]? with
      | none => .panic "self.tx.inputs[self.input]"
      | some i => if i.sequence = 0xffffffff then scriptErr else .ok true

/-- `TransactionChecker::check_sequence` -/
def checkSequence (x : Ctx) (sequence : Int) : Outcome Bool :=
  if sequence < 0 then scriptErr
  else
    let sequence := asU32 sequence
    if sequence &&& SEQUENCE_LOCKTIME_DISABLE_FLAG ≠ 0 then .ok true
    else if x.tx.version < 2 then scriptErr
    else
      match x.tx.inputs[x.input]? with
      | none => .panic "self.tx.inputs[self.input]"
      | some i =>
        if i.sequence &&& SEQUENCE_LOCKTIME_DISABLE_FLAG ≠ 0 then scriptErr
        else
          let sequenceMasked := sequence &&& 0x0000ffff
          let txSequenceMasked := i.sequence &&& 0x0000ffff
          if (sequenceMasked < SEQUENCE_LOCKTIME_TYPE_FLAG ∧ txSequenceMasked ≥ SEQUENCE_LOCKTIME_TYPE_FLAG)
              ∨ (sequenceMasked ≥ SEQUENCE_LOCKTIME_TYPE_FLAG ∧ txSequenceMasked < SEQUENCE_LOCKTIME_TYPE_FLAG)
          then scriptErr
          else if sequenceMasked > txSequenceMasked then scriptErr
          else .ok true

/-- `impl Checker for TransactionChecker`: the checker state is the shared `SigHashCache` -/
def txChecker {Sig Key : Type} (dsha : Bytes → Bytes) (K : K256 Sig Key) (x : Ctx) : Checker Sighash.Cache :=
  { checkSig := fun c sig pk scr => checkSig dsha K x c sig pk scr
    checkLocktime := fun _ t => checkLocktime x t
    checkSequence := fun _ t => checkSequence x t }

def illegalState {α : Type} : Outcome α := .err "IllegalState"

/-- `impl Checker for TransactionlessChecker` -/
def tlessChecker : Checker Unit :=
  { checkSig := fun c _ _ _ => (illegalState, c)
    checkLocktime := fun _ _ => illegalState
    checkSequence := fun _ _ => illegalState }

/-- `ZChecker::check_sig` (the digest is the field `z`; FORKID is always required) -/
def zCheckSig {Sig Key : Type} (K : K256 Sig Key) (z : Bytes) (sig pubkey : Bytes) : Outcome Bool :=
  match sig.getLast? with
  | none => scriptErr
  | some ty =>
    if ty &&& Sighash.SIGHASH_FORKID = 0 then scriptErr
    else
      match K.parseSig sig.dropLast with
      | none => k256Err
      | some s =>
        match K.parseKey pubkey with
        | none => k256Err
        | some k => .ok (K.verify k z s)

/-- `impl Checker for ZChecker` -/
def zChecker {Sig Key : Type} (K : K256 Sig Key) (z : Bytes) : Checker Unit :=
  { checkSig := fun c sig pk _ => (zCheckSig K z sig pk, c)
    checkLocktime := fun _ _ => illegalState
    checkSequence := fun _ _ => illegalState }

/-! ### `Tx::validate` -/

def toSerOutPoint (o : TxValidate.OutPoint) : TxSer.OutPoint := ⟨o.hash, o.index⟩
def toSerIn (i : TxValidate.TxIn) : TxSer.TxIn := ⟨toSerOutPoint i.prevOutput, i.unlockScript, i.sequence⟩
def toSerOut (o : TxValidate.TxOut) : TxSer.TxOut := ⟨o.satoshis, o.lockScript⟩
/-- the same transaction in the representation of the serialisation / signature-hash model -/
def toSer (tx : TxValidate.Tx) : TxSer.Tx :=
  ⟨tx.version, tx.inputs.map toSerIn, tx.outputs.map toSerOut, tx.lockTime⟩

def PREGENESIS_RULES : Nat := 1
def NO_FLAGS : Nat := 0

/-- `if !use_genesis_rules || is_pregenesis_input { PREGENESIS_RULES } else { NO_FLAGS }` -/
def flagsFor (useGenesis isPregenesisInput : Bool) : Nat :=
  if !useGenesis || isPregenesisInput then PREGENESIS_RULES else NO_FLAGS

/-- the two `eval_with_stack` calls and the top-of-stack test of the loop body
    (`CG.Model.TxScript.validateInput`), returning the checker state afterwards — the cache is a
    `&mut` borrowed by every iteration -/
def validateInputSt {σ : Type} (H : Hashes) (C : Checker σ) (c0 : σ) (unlock lock : Bytes) (flags : Nat) :
    Outcome σ :=
  match coreEval H C c0 unlock flags none none none none with
  | .err e => .err e
  | .panic p => .panic p
  | .ok r1 =>
    match coreEval H C r1.chk lock flags none none (some r1.stack) none with
    | .err e => .err e
    | .panic p => .panic p
    | .ok r2 =>
      match r2.stack with
      | [] => scriptErr
      | t :: _ => if decodeBool t then .ok r2.chk else scriptErr

/-- everything `Tx::validate` is given besides the transaction and the unspent outputs -/
structure Env (Sig Key : Type) where
  H : Hashes
  dsha : Bytes → Bytes
  K : K256 Sig Key
  requireForkid : Bool
  useGenesis : Bool
  pregenesis : TxValidate.OutPoint → Bool

/-- the checker built for input `input` spending `out` -/
def ctxOf {Sig Key : Type} (E : Env Sig Key) (tx : TxValidate.Tx) (input : Nat) (out : TxValidate.TxOut) : Ctx :=
  ⟨toSer tx, input, out.satoshis, E.requireForkid⟩

/-- `for input in 0..self.inputs.len() { … }` with `let mut sighash_cache = SigHashCache::new()` outside -/
def scriptLoopSt {Sig Key : Type} (E : Env Sig Key) (tx : TxValidate.Tx) (utxos : TxValidate.Utxos) :
    Nat → List TxValidate.TxIn → Sighash.Cache → Outcome Unit
  | _, [], _ => .ok ()
  | i, tin :: rest, c =>
    match utxos tin.prevOutput with
    | none => .panic "utxos.get(prev_output).unwrap()"
    | some out =>
      match validateInputSt E.H (txChecker E.dsha E.K (ctxOf E tx i out)) c tin.unlockScript out.lockScript
              (flagsFor E.useGenesis (E.pregenesis tin.prevOutput)) with
      | .ok c' => scriptLoopSt E tx utxos (i + 1) rest c'
      | .err e => .err e
      | .panic p => .panic p

open CG.Model.TxValidate in
/-- `Tx::validate` (the repaired tree: checked sums, duplicate-input check, two-phase script check). -/
def validateTx {Sig Key : Type} (E : Env Sig Key) (p : Profile) (tx : TxValidate.Tx) (utxos : Utxos) :
    Outcome Unit :=
  if tx.inputs.isEmpty then .err "BadData"
  else if tx.outputs.isEmpty then .err "BadData"
  else match checkedSum .repaired p (outAmounts tx.outputs) with
  | .err e => .err e
  | .panic s => .panic s
  | .ok totalOut =>
    if tx.inputs.any (fun i => isCoinbaseRef i.prevOutput) then .err "BadData"
    else if Tree.repaired = .repaired ∧ dupLoop [] (tx.inputs.map (·.prevOutput)) then .err "BadData"
    else if tx.lockTime > 2147483647 then .err "BadData"
    else match checkedSum .repaired p (inAmounts utxos tx.inputs) with
    | .err e => .err e
    | .panic s => .panic s
    | .ok totalIn =>
      if totalIn < totalOut then .err "BadData"
      else match scriptLoopSt E tx utxos 0 tx.inputs Sighash.Cache.empty with
      | .err e => .err e
      | .panic s => .panic s
      | .ok () =>
        if E.useGenesis ∧ tx.outputs.any (fun o => isP2sh o.lockScript) then .err "BadData"
        else .ok ()

/-- the per-input verdict computed with a FRESH cache (what C04's oracle `scriptOk` stands for).
    The two `none` arms are never reached from `Tx::validate` (the loop runs over `0..inputs.len()` and
    unwraps the unspent output itself before it evaluates anything); they answer an error so that the
    oracle is total and panic-free on its own. -/
def freshInput {Sig Key : Type} (E : Env Sig Key) (tx : TxValidate.Tx) (utxos : TxValidate.Utxos) (j : Nat) :
    Outcome Bool :=
  match tx.inputs[j]? with
  | none => .err "BadArgument"
  | some tin =>
    match utxos tin.prevOutput with
    | none => .err "BadData"
    | some out =>
      match TxScript.validateInput E.H (txChecker E.dsha E.K (ctxOf E tx j out)) Sighash.Cache.empty
              tin.unlockScript out.lockScript (flagsFor E.useGenesis (E.pregenesis tin.prevOutput)) with
      | .ok () => .ok true
      | .err e => .err e
      | .panic p => .panic p

end CG.Model.TxChecker
